(* writers/Params_proofs.v — C15, validation part: option setters and constructor argument
   checks are total (never Panic), accept exactly the documented values, reject the rest. *)
From FlacWriters Require Import Params.
Open Scope N_scope.

(* ---- documented ranges of the option setters (rustdoc of encode::Options) *)
Definition documented_block_size (v : N) : bool := 16 <=? v.
Definition documented_lpc (v : option N) : bool :=
  match v with None => true | Some n => (1 <=? n) && (n <=? 32) end.
Definition documented_po (v : N) : bool := v <=? 15.
Definition documented_padding (v : N) : bool := v <? 2 ^ 24.

Lemma options_block_size_spec o v :
  is_ok (options_block_size o v) = documented_block_size v /\
  is_err (options_block_size o v) = negb (documented_block_size v).
Proof.
  unfold options_block_size, documented_block_size.
  destruct (N.ltb_spec v 16), (N.leb_spec 16 v); cbn; auto; lia.
Qed.

Lemma options_max_lpc_order_spec o v :
  is_ok (options_max_lpc_order o v) = documented_lpc v /\
  is_err (options_max_lpc_order o v) = negb (documented_lpc v).
Proof.
  unfold options_max_lpc_order, documented_lpc. destruct v as [n|]; [|cbn; auto].
  destruct (N.eqb_spec n 0), (N.ltb_spec 32 n), (N.leb_spec 1 n), (N.leb_spec n 32); cbn; auto; lia.
Qed.

Lemma options_max_partition_order_spec o v :
  is_ok (options_max_partition_order o v) = documented_po v /\
  is_err (options_max_partition_order o v) = negb (documented_po v).
Proof.
  unfold options_max_partition_order, documented_po. destruct (N.leb_spec v 15); cbn; auto.
Qed.

Lemma options_padding_spec o v :
  is_ok (options_padding o v) = documented_padding v /\
  is_err (options_padding o v) = negb (documented_padding v).
Proof.
  unfold options_padding, documented_padding, BLOCKSIZE_MAX.
  change (2 ^ 24) with 16777216.
  destruct (N.leb_spec v 16777215), (N.ltb_spec v 16777216); cbn; auto; lia.
Qed.

(* ---- well-formed Options: what the public API can build *)
Definition oblock_user_ok (b : oblock) : Prop :=
  match b with
  | BPadding s => s <= BLOCKSIZE_MAX
  | BSeekTable _ => False                 (* SeekTable is not a PortableMetadataBlock *)
  | BOther _ body => N.of_nat (length body) <= BLOCKSIZE_MAX
  end.
Definition interval_ok (iv : interval) : Prop :=
  match iv with Seconds s => 1 <= s <= 255 | Frames n => 1 <= n end.
Definition options_wf (o : options) : Prop :=
  16 <= o_block_size o < 65536 /\
  match o_seektable_interval o with Some iv => interval_ok iv | None => True end /\
  Forall oblock_user_ok (o_metadata o).

Lemma options_default_wf : options_wf options_default.
Proof. unfold options_wf, options_default, BLOCKSIZE_MAX; cbn. repeat split; try lia. repeat constructor. cbn. unfold BLOCKSIZE_MAX. lia. Qed.
Lemma options_fast_wf : options_wf options_fast.
Proof. unfold options_wf, options_fast; cbn. repeat split; try lia. repeat constructor. cbn. unfold BLOCKSIZE_MAX. lia. Qed.
Lemma options_best_wf : options_wf options_best.
Proof. unfold options_wf, options_best; cbn. repeat split; try lia. repeat constructor. cbn. unfold BLOCKSIZE_MAX. lia. Qed.

Lemma options_block_size_wf o v o' : options_wf o -> v < 65536 ->
  options_block_size o v = Ok o' -> options_wf o'.
Proof.
  unfold options_block_size. intros (Hb & Hi & Hm) Hv. destruct (N.ltb_spec v 16) as [L|L]; [discriminate|].
  intros HH; inversion HH; subst. unfold options_wf; cbn. auto.
Qed.
Lemma options_max_lpc_order_wf o v o' : options_wf o -> options_max_lpc_order o v = Ok o' -> options_wf o'.
Proof.
  unfold options_max_lpc_order. intros Hw. destruct v as [n|].
  - destruct (_ || _); [discriminate|]. intros H; inversion H; subst. exact Hw.
  - intros H; inversion H; subst. exact Hw.
Qed.
Lemma options_max_partition_order_wf o v o' : options_wf o -> options_max_partition_order o v = Ok o' -> options_wf o'.
Proof.
  unfold options_max_partition_order. intros Hw. destruct (v <=? 15); [|discriminate].
  intros H; inversion H; subst. exact Hw.
Qed.

Lemma remove_padding_ok l : Forall oblock_user_ok l -> Forall oblock_user_ok (remove_padding l).
Proof.
  unfold remove_padding. induction 1 as [|b l Hb F IH]; cbn [filter]; [constructor|].
  destruct (negb (is_padding b)); auto.
Qed.
Lemma set_first_padding_ok s : forall l l', s <= BLOCKSIZE_MAX -> Forall oblock_user_ok l ->
  set_first_padding s l = Some l' -> Forall oblock_user_ok l'.
Proof.
  induction l as [|b l IH]; intros l' Hs F H; cbn [set_first_padding] in H; [discriminate|].
  inversion F as [|? ? Hb F']; subst.
  destruct b as [s0|pts|k body].
  - inversion H; subst. constructor; auto.
  - destruct (set_first_padding s l) eqn:E; [|discriminate]. inversion H; subst. constructor; eauto.
  - destruct (set_first_padding s l) eqn:E; [|discriminate]. inversion H; subst. constructor; eauto.
Qed.
Lemma update_padding_ok s l : s <= BLOCKSIZE_MAX -> Forall oblock_user_ok l ->
  Forall oblock_user_ok (update_padding s l).
Proof.
  intros Hs F. unfold update_padding. destruct (set_first_padding s l) eqn:E.
  - eapply set_first_padding_ok; eauto.
  - apply Forall_app. split; [exact F|constructor; [exact Hs|constructor]].
Qed.
Lemma options_padding_wf o v o' : options_wf o -> options_padding o v = Ok o' -> options_wf o'.
Proof.
  unfold options_padding. intros (Hb & Hi & Hm). destruct (N.leb_spec v BLOCKSIZE_MAX) as [L|L]; [|discriminate].
  intros HH; inversion HH; subst. unfold options_wf; cbn. split; [auto|]. split; [auto|].
  destruct (v =? 0); [apply remove_padding_ok|apply update_padding_ok]; auto.
Qed.
Lemma options_no_padding_wf o : options_wf o -> options_wf (options_no_padding o).
Proof. intros (Hb & Hi & Hm). unfold options_wf; cbn. repeat split; auto; try tauto. apply remove_padding_ok; auto. Qed.
Lemma options_seektable_seconds_wf o s : options_wf o -> s < 256 -> options_wf (options_seektable_seconds o s).
Proof.
  intros (Hb & Hi & Hm) Hs. unfold options_wf; cbn. repeat split; auto; try tauto.
  destruct (N.eqb_spec s 0); cbn; auto. lia.
Qed.
Lemma options_seektable_frames_wf o n : options_wf o -> options_wf (options_seektable_frames o n).
Proof.
  intros (Hb & Hi & Hm). unfold options_wf; cbn. repeat split; auto; try tauto.
  destruct (N.eqb_spec n 0); cbn; auto. lia.
Qed.
Lemma options_no_seektable_wf o : options_wf o -> options_wf (options_no_seektable o).
Proof. intros (Hb & Hi & Hm). unfold options_wf; cbn. repeat split; auto; tauto. Qed.

(* ---- constructor arguments *)

Lemma exact_div_some n d q : exact_div n d = Some q <-> (d <> 0 /\ n mod d = 0 /\ q = n / d).
Proof.
  unfold exact_div. destruct (N.eqb_spec d 0) as [E|E]; cbn [negb andb].
  - split; [discriminate|]. intros [H _]. congruence.
  - destruct (N.eqb_spec (n mod d) 0) as [M|M].
    + split; [intros H; inversion H; auto|]. intros (_ & _ & ->). reflexivity.
    + split; [discriminate|]. intros (_ & H & _). congruence.
Qed.

Lemma div_mod_mul n a b : a <> 0 -> b <> 0 ->
  (n mod (a * b) =? 0) = (n mod a =? 0) && ((n / a) mod b =? 0) /\ n / (a * b) = n / a / b.
Proof.
  intros Ha Hb. split; [|symmetry; apply N.div_div; auto].
  rewrite N.mod_mul_r by auto.
  assert (Hx : n mod a < a) by (apply N.mod_upper_bound; auto).
  remember (n mod a) as x. remember ((n / a) mod b) as y. clear Heqx Heqy.
  destruct (N.eqb_spec x 0) as [E|E], (N.eqb_spec y 0) as [F|F]; cbn [andb].
  - apply N.eqb_eq. subst. lia.
  - apply N.eqb_neq. subst. nia.
  - apply N.eqb_neq. subst. lia.
  - apply N.eqb_neq. nia.
Qed.

Lemma bytes_per_sample_pos bps : 1 <= bps -> 1 <= bytes_per_sample_of bps.
Proof.
  intros H. unfold bytes_per_sample_of.
  assert (8 * 1 <= bps + 7) by lia. apply N.div_le_lower_bound; lia.
Qed.
Lemma bytes_per_sample_le bps : bps <= 32 -> bytes_per_sample_of bps <= 4.
Proof.
  intros H. unfold bytes_per_sample_of.
  assert ((bps + 7) / 8 < 5); [|lia]. apply N.div_lt_upper_bound; lia.
Qed.

(* the argument checks never panic, succeed exactly on the documented set, and fail otherwise *)
Lemma validate_tail (rate bps bytes ch : N) (t : res (option N)) (d : bool) :
  (1 <=? ch) && (ch <=? 8) = true ->
  match t with
  | Ok (Some q) => (q <? MAX_SAMPLES) = d
  | Ok None => d = true
  | Err _ => d = false
  | Panic _ => False
  end ->
  is_ok (t0 <- t;; _ <- encoder_new_validate rate ch t0;; Ok (bps, bytes, t0)) = (rate <? 2 ^ 20) && d /\
  is_err (t0 <- t;; _ <- encoder_new_validate rate ch t0;; Ok (bps, bytes, t0)) = negb ((rate <? 2 ^ 20) && d).
Proof.
  intros Hc Hd. unfold encoder_new_validate. change (2 ^ 20) with 1048576.
  destruct t as [[q|]|e|pk]; cbn [bind]; try contradiction; subst; rewrite ?Hc.
  - destruct (rate <? 1048576); cbn; auto. destruct (q <? MAX_SAMPLES); cbn; auto.
  - destruct (rate <? 1048576); cbn; auto.
  - destruct (rate <? 1048576); cbn; auto.
Qed.

Lemma validate_tail_bad (rate bps bytes ch : N) (t : res (option N)) :
  (1 <=? ch) && (ch <=? 8) = false -> is_panic t = false ->
  is_ok (t0 <- t;; _ <- encoder_new_validate rate ch t0;; Ok (bps, bytes, t0)) = false /\
  is_err (t0 <- t;; _ <- encoder_new_validate rate ch t0;; Ok (bps, bytes, t0)) = true.
Proof.
  intros Hc Hp. destruct t as [t0|e|pk]; cbn in *; try discriminate; auto.
  unfold encoder_new_validate. rewrite Hc. destruct (rate <? 1048576); cbn; auto.
Qed.

Lemma exact_div_dec n d : d <> 0 ->
  (n mod d = 0 /\ exact_div n d = Some (n / d)) \/ (n mod d <> 0 /\ exact_div n d = None).
Proof.
  intros Hd. unfold exact_div. destruct (N.eqb_spec d 0); [contradiction|]. cbn [negb andb].
  destruct (N.eqb_spec (n mod d) 0); auto.
Qed.

(* the argument checks never panic, succeed exactly on the documented set, and fail otherwise *)
Theorem new_validate_spec k rate bps ch total :
  is_ok (new_validate k rate bps ch total) = documented_args k rate bps ch total /\
  is_err (new_validate k rate bps ch total) = negb (documented_args k rate bps ch total).
Proof.
  unfold new_validate, documented_args, signed_bit_count_32.
  destruct (N.leb_spec 1 bps) as [B1|B1]; cbn [andb]; [|cbn; auto].
  destruct (N.leb_spec bps 32) as [B2|B2]; cbn [andb bind]; [|cbn; auto].
  pose proof (bytes_per_sample_pos bps B1) as Hb.
  set (bytes := bytes_per_sample_of bps) in *.
  destruct ((1 <=? ch) && (ch <=? 8)) eqn:Hc.
  2:{ cbn [andb negb]. apply validate_tail_bad; auto.
      destruct k, total as [t|]; cbn; auto.
      - unfold byte_total. destruct (exact_div t ch) as [s|]; [destruct (exact_div s bytes) as [q|]|]; cbn; auto.
        destruct (q =? 0); auto.
      - unfold sample_total. destruct (exact_div t ch) as [q|]; cbn; auto. destruct (q =? 0); auto.
      - destruct (t =? 0); auto. }
  cbn [andb].
  pose proof Hc as Hc'. apply andb_prop in Hc'. destruct Hc' as [C1 C2].
  apply N.leb_le in C1. apply N.leb_le in C2.
  apply validate_tail; auto.
  unfold documented_total, unit_per_pcm_frame. fold bytes.
  destruct total as [t|]; [|destruct k; reflexivity].
  destruct k; cbn.
  - (* bytes *)
    unfold byte_total.
    destruct (div_mod_mul t ch bytes ltac:(lia) ltac:(lia)) as [M D].
    rewrite (N.mul_comm bytes ch), M, D.
    destruct (exact_div_dec t ch ltac:(lia)) as [[M1 ->]|[M1 ->]].
    + rewrite M1. cbn [N.eqb andb].
      destruct (exact_div_dec (t / ch) bytes ltac:(lia)) as [[M2 ->]|[M2 ->]].
      * rewrite M2. cbn [N.eqb andb]. remember (t / ch / bytes) as q eqn:Eq. clear Eq.
        destruct (N.eqb_spec q 0) as [Z|Z]; [rewrite Z; reflexivity|].
        destruct (N.leb_spec 1 q); [reflexivity|lia].
      * destruct (N.eqb_spec ((t / ch) mod bytes) 0); [contradiction|reflexivity].
    + destruct (N.eqb_spec (t mod ch) 0); [contradiction|reflexivity].
  - (* samples *)
    unfold sample_total.
    destruct (exact_div_dec t ch ltac:(lia)) as [[M1 ->]|[M1 ->]].
    + rewrite M1. cbn [N.eqb andb]. remember (t / ch) as q eqn:Eq. clear Eq.
      destruct (N.eqb_spec q 0) as [Z|Z]; [rewrite Z; reflexivity|].
      destruct (N.leb_spec 1 q); [reflexivity|lia].
    + destruct (N.eqb_spec (t mod ch) 0); [contradiction|reflexivity].
  - (* PCM frames *)
    rewrite N.mod_1_r, N.div_1_r. cbn [N.eqb andb].
    destruct (N.eqb_spec t 0) as [Z|Z]; [subst; reflexivity|].
    destruct (N.leb_spec 1 t); [reflexivity|lia].
Qed.

Corollary new_validate_no_panic k rate bps ch total : is_panic (new_validate k rate bps ch total) = false.
Proof.
  destruct (new_validate_spec k rate bps ch total) as [H1 H2].
  destruct (new_validate k rate bps ch total); cbn in *; auto.
  destruct (documented_args k rate bps ch total); discriminate.
Qed.

(* the defect F-C15a of the code before the fix: channels = 0 with a declared total *)
Example exact_div_pre_fix_panics : exact_div_pre_fix 4 0 = Panic PDivZero.
Proof. reflexivity. Qed.
Example exact_div_zero_divisor : exact_div 4 0 = None.
Proof. reflexivity. Qed.

(* ---- the two capacity guards of the codec core that depend on option values *)

Lemma autocorrelate_guard_ok p lpc len : 1 <= lpc <= 32 -> autocorrelate_guard p lpc len = Ok tt.
Proof.
  intros H. unfold autocorrelate_guard, MAX_LPC_COEFFS.
  assert (E : (lpc <=? 32) = true) by (apply N.leb_le; lia).
  assert (F : (N.min (lpc + 1) len <=? 32 + 1) = true) by (apply N.leb_le; lia).
  destruct p; cbn [bind]; rewrite ?E; cbn [bind]; rewrite F; reflexivity.
Qed.
Example autocorrelate_guard_pre_fix_panics : autocorrelate_guard_pre_fix Debug 32 4096 = Panic PAssert.
Proof. reflexivity. Qed.

(* all orders 0..6, every block size 1..65535 would be too much to sweep; by arithmetic instead *)
Lemma partitions_at_le bs res o : 1 <= bs -> res <= bs -> o <= 6 -> 2 ^ o <= bs ->
  bs mod 2 ^ o = 0 ->
  exists n, partitions_at bs res o = Ok n /\ n <= 64.
Proof.
  intros Hbs Hres Ho Hpow Hdiv. unfold partitions_at.
  assert (P : 0 < 2 ^ o) by (apply N.neq_0_lt_0, N.pow_nonzero; lia).
  assert (Q : bs = 2 ^ o * (bs / 2 ^ o)).
  { pose proof (N.div_mod bs (2 ^ o) ltac:(lia)). lia. }
  remember (bs / 2 ^ o) as chunk eqn:Ec.
  assert (1 <= chunk) by nia.
  destruct (N.eqb_spec chunk 0); [lia|]. eexists. split; [reflexivity|].
  unfold cdiv.
  assert (2 ^ o <= 64).
  { change 64 with (2 ^ 6). apply N.pow_le_mono_r; lia. }
  assert ((res + chunk - 1) / chunk < 2 ^ o + 1); [|lia].
  apply N.div_lt_upper_bound; [lia|]. nia.
Qed.

Example best_partitions_guard_pre_fix_panics : best_partitions_guard_pre_fix 4096 4096 7 = Panic PCapacity.
Proof. vm_compute. reflexivity. Qed.
Example best_partitions_guard_fixed : best_partitions_guard 4096 4096 15 = Ok tt.
Proof. vm_compute. reflexivity. Qed.

