(* metadata/Blocks_proofs2.v — codec theorems for VORBIS_COMMENT, PICTURE and CUESHEET. *)
From FlacMeta Require Import Bytes Bytes_proofs Blocks Blocks_proofs Cue CueRender Cue_proofs.
Open Scope N_scope.

(* ---- (0..n).map(read).collect against an encoder *)
Section ParseNCodec.
  Context {T : Type}.
  Variable p : parser T.
  Variable enc : T -> list N.
  Variable good : T -> Prop.
  Hypothesis p_enc : forall x rest, good x -> p (enc x ++ rest) = Ok (x, rest).

  Lemma parse_n_enc : forall l fuel r, Forall good l -> (length l <= length fuel)%nat ->
    parse_n p fuel (lenN l) (enc_all enc l ++ r) = Ok (l, r).
  Proof.
    induction l as [|x l IH]; intros fuel r G F.
    - destruct fuel; reflexivity.
    - inversion G as [|? ? Gx Gl]; subst. destruct fuel as [|f0 fuel]; [cbn in F; lia|].
      cbn [parse_n lenN enc_all]. rewrite <- app_assoc.
      destruct (N.eqb_spec (N.succ (lenN l)) 0); [lia|]. rewrite p_enc by exact Gx.
      rewrite N.pred_succ, IH; [reflexivity|exact Gl|cbn in F; lia].
  Qed.

  Hypothesis p_inv : forall s x r, Forall byte s -> p s = Ok (x, r) ->
    good x /\ exists c, s = c ++ r /\ lenN c = lenN (enc x).

  Lemma parse_n_inv : forall fuel n s out r, Forall byte s -> parse_n p fuel n s = Ok (out, r) ->
    lenN out = n /\ Forall good out /\ lenN s = lenN (enc_all enc out) + lenN r /\ Forall byte r.
  Proof.
    induction fuel as [|f0 fuel IH]; intros n s out r Hs H; cbn [parse_n] in H.
    - destruct (N.eqb_spec n 0) as [->|].
      + apply Ok_inj in H. injection H as <- <-. cbn. auto.
      + destruct (p s) as [[x s']| |]; discriminate.
    - destruct (N.eqb_spec n 0) as [->|Hn].
      + apply Ok_inj in H. injection H as <- <-. cbn. auto.
      + destruct (p s) as [[x s']| |] eqn:P; try discriminate.
        apply p_inv in P; [|exact Hs]. destruct P as [Gx (c & -> & Lc)].
        pose proof (Forall_app_r _ _ _ Hs) as Hs'.
        destruct (parse_n p fuel (N.pred n) s') as [[xs s'']| |] eqn:R; try discriminate.
        apply Ok_inj in H. injection H as <- <-.
        apply IH in R; [|exact Hs']. destruct R as (L & G & Len & Hr).
        split; [cbn [lenN]; lia|]. split; [constructor; assumption|]. split; [|exact Hr].
        cbn [enc_all]. rewrite !lenN_app. lia.
  Qed.
End ParseNCodec.

Section Utf8Codecs.
Variable utf8_valid : list N -> bool.

(* ---- VORBIS_COMMENT *)
Definition vc_enc (s : list N) : list N := le_bytes 4 (lenN s) ++ s.
Definition good_string (s : list N) : Prop := utf8_valid s = true /\ lenN s < 4294967296.
Definition ty_vorbis (v : vorbis) : Prop :=
  utf8_valid (vc_vendor v) = true /\ Forall (fun s => utf8_valid s = true) (vc_fields v).

Lemma read_vc_string_enc x rest : good_string x -> read_vc_string utf8_valid (vc_enc x ++ rest) = Ok (x, rest).
Proof.
  intros [U L]. unfold read_vc_string, vc_enc. rewrite <- app_assoc.
  rewrite (pbind_eq (read_le 4) _ _ (lenN x) _) by (apply read_le4_app, L).
  rewrite (pbind_eq (take _) _ _ x rest) by apply take_app. rewrite U. reflexivity.
Qed.
Lemma read_vc_string_inv s x r : Forall byte s -> read_vc_string utf8_valid s = Ok (x, r) ->
  good_string x /\ exists c, s = c ++ r /\ lenN c = lenN (vc_enc x).
Proof.
  intros Hs H. unfold read_vc_string in H. inv_bind H.
  apply (read_le_ok 4) in E; [|exact Hs]. destruct E as [-> B]. change (256 ^ N.of_nat 4) with 4294967296 in B.
  inv_bind H. apply take_ok in E. destruct E as [-> L].
  destruct (utf8_valid a0) eqn:U; [|discriminate]. unfold pret in H. apply Ok_inj in H. injection H as <- <-.
  split; [split; [exact U|lia]|]. exists (le_bytes 4 a ++ a0). rewrite <- app_assoc. split; [reflexivity|].
  unfold vc_enc. rewrite !lenN_app, !lenN_le_bytes. reflexivity.
Qed.

Lemma write_vc_strings_ok : forall l bs, write_vc_strings l = Ok bs ->
  bs = enc_all vc_enc l /\ Forall (fun s => lenN s < 4294967296) l.
Proof.
  induction l as [|x l IH]; intros bs H; cbn [write_vc_strings] in H.
  - apply Ok_inj in H. subst. split; [reflexivity|constructor].
  - unfold write_vc_string in H. change (2 ^ 32) with 4294967296 in H.
    destruct (N.ltb_spec (lenN x) 4294967296) as [Hx|]; [|discriminate]. cbn [bind] in H.
    destruct (write_vc_strings l) as [b| |] eqn:W; cbn [bind] in H; try discriminate.
    apply Ok_inj in H. subst. destruct (IH b eq_refl) as [-> F]. split; [reflexivity|constructor; assumption].
Qed.
Lemma write_vc_strings_good : forall l, Forall (fun s => lenN s < 4294967296) l ->
  write_vc_strings l = Ok (enc_all vc_enc l).
Proof.
  induction 1 as [|x l Hx Hl IH]; [reflexivity|]. cbn [write_vc_strings enc_all]. unfold write_vc_string.
  change (2 ^ 32) with 4294967296. destruct (N.ltb_spec (lenN x) 4294967296); [|lia]. cbn [bind]. rewrite IH. reflexivity.
Qed.

Lemma lenN_enc_all_ge {T} (enc : T -> list N) k : (forall x, k <= lenN (enc x)) ->
  forall l, k * lenN l <= lenN (enc_all enc l).
Proof.
  intros H. induction l as [|x l IH]; cbn [enc_all lenN]; [lia|]. rewrite lenN_app. specialize (H x). lia.
Qed.

Lemma vorbis_write_read v bs r : ty_vorbis v -> write_vorbis v = Ok bs -> read_vorbis utf8_valid (bs ++ r) = Ok (v, r).
Proof.
  intros [Uv Uf] W. unfold write_vorbis in W. unfold write_vc_string in W. change (2 ^ 32) with 4294967296 in W.
  destruct (N.ltb_spec (lenN (vc_vendor v)) 4294967296) as [Lv|]; [|discriminate]. cbn [bind] in W.
  destruct (N.ltb_spec (lenN (vc_fields v)) 4294967296) as [Lf|]; [|discriminate].
  destruct (write_vc_strings (vc_fields v)) as [b| |] eqn:Ws; cbn [bind] in W; try discriminate.
  apply Ok_inj in W. subst bs. apply write_vc_strings_ok in Ws. destruct Ws as [-> Fl].
  unfold read_vorbis. rewrite <- !app_assoc.
  rewrite (pbind_eq (read_vc_string utf8_valid) _ _ (vc_vendor v) _) by (apply (read_vc_string_enc (vc_vendor v)); split; assumption).
  rewrite (pbind_eq (read_le 4) _ _ (lenN (vc_fields v)) _) by (apply read_le4_app, Lf).
  erewrite pbind_eq; [|apply (parse_n_enc (read_vc_string utf8_valid) vc_enc good_string read_vc_string_enc)].
  - destruct v; reflexivity.
  - rewrite Forall_forall in *. intros x Hx. split; [apply Uf, Hx|apply Fl, Hx].
  - rewrite !app_length.
    pose proof (lenN_enc_all_ge vc_enc 4 (fun x => ltac:(unfold vc_enc; rewrite lenN_app, lenN_le_bytes; change (N.of_nat 4) with 4; lia)) (vc_fields v)) as G.
    rewrite !lenN_length in G. lia.
Qed.

Lemma vorbis_read_inv s v r : Forall byte s -> read_vorbis utf8_valid s = Ok (v, r) ->
  ty_vorbis v /\ exists bs, write_vorbis v = Ok bs /\ lenN s = lenN bs + lenN r.
Proof.
  intros Hs H. unfold read_vorbis in H. inv_bind H.
  apply read_vc_string_inv in E; [|exact Hs]. destruct E as ([Uv Lv] & c & -> & Lc).
  pose proof (Forall_app_r _ _ _ Hs) as Hs0.
  inv_bind H. apply (read_le_ok 4) in E; [|exact Hs0]. destruct E as [-> B]. change (256 ^ N.of_nat 4) with 4294967296 in B.
  pose proof (Forall_app_r _ _ _ Hs0) as Hs1.
  inv_bind H. apply (parse_n_inv (read_vc_string utf8_valid) vc_enc good_string read_vc_string_inv) in E; [|exact Hs1].
  destruct E as (Ln & G & Len & _). unfold pret in H. apply Ok_inj in H. injection H as <- <-.
  split.
  - split; [exact Uv|]. rewrite Forall_forall in *. intros x Hx. apply G, Hx.
  - unfold write_vorbis, write_vc_string. cbn [vc_vendor vc_fields]. change (2 ^ 32) with 4294967296.
    destruct (N.ltb_spec (lenN a) 4294967296); [|lia]. cbn [bind]. rewrite Ln.
    destruct (N.ltb_spec a0 4294967296); [|lia].
    rewrite write_vc_strings_good by (rewrite Forall_forall in *; intros x Hx; apply G, Hx). cbn [bind].
    eexists. split; [reflexivity|]. rewrite !lenN_app, !lenN_le_bytes, Len. unfold vc_enc in Lc. rewrite lenN_app, lenN_le_bytes in Lc. lia.
Qed.

(* ---- PICTURE *)
Definition ty_picture (x : picture) : Prop :=
  pic_type x <= 20 /\ utf8_valid (pic_mime x) = true /\ utf8_valid (pic_desc x) = true /\
  pic_w x < 4294967296 /\ pic_h x < 4294967296 /\ pic_depth x < 4294967296 /\ pic_colors x < 4294967296.

Lemma read_prefixed_app f r : lenN f < 4294967296 -> read_prefixed (be_bytes 4 (lenN f) ++ f ++ r) = Ok (f, r).
Proof.
  intros L. unfold read_prefixed. rewrite (pbind_eq (read_be 4) _ _ (lenN f) _) by (apply read_be4_app, L).
  apply take_app.
Qed.
Lemma read_prefixed_inv s f r : Forall byte s -> read_prefixed s = Ok (f, r) ->
  s = be_bytes 4 (lenN f) ++ f ++ r /\ lenN f < 4294967296.
Proof.
  intros Hs H. unfold read_prefixed in H. inv_bind H.
  apply (read_be_ok 4) in E; [|exact Hs]. destruct E as [-> B]. change (256 ^ N.of_nat 4) with 4294967296 in B.
  apply take_ok in H. destruct H as [-> <-]. auto.
Qed.

Lemma picture_write_read x bs r : ty_picture x -> write_picture x = Ok bs -> read_picture utf8_valid (bs ++ r) = Ok (x, r).
Proof.
  intros (T1 & T2 & T3 & T4 & T5 & T6 & T7) W. unfold write_picture, write_prefixed in W. change (2 ^ 32) with 4294967296 in W.
  destruct (N.ltb_spec (lenN (pic_mime x)) 4294967296) as [L1|]; [|discriminate]. cbn [bind] in W.
  destruct (N.ltb_spec (lenN (pic_desc x)) 4294967296) as [L2|]; [|discriminate]. cbn [bind] in W.
  destruct (N.ltb_spec (lenN (pic_data x)) 4294967296) as [L3|]; [|discriminate]. cbn [bind] in W.
  apply Ok_inj in W. subst bs. unfold read_picture. rewrite <- !app_assoc.
  rewrite (pbind_eq (read_be 4) _ _ (pic_type x) _) by (apply read_be4_app; lia).
  destruct (N.ltb_spec 20 (pic_type x)); [lia|].
  rewrite (pbind_eq read_prefixed _ _ (pic_mime x) _) by (apply read_prefixed_app, L1). rewrite T2. cbn [negb].
  rewrite (pbind_eq read_prefixed _ _ (pic_desc x) _) by (apply read_prefixed_app, L2). rewrite T3. cbn [negb].
  rewrite (pbind_eq (read_be 4) _ _ (pic_w x) _) by (apply read_be4_app, T4).
  rewrite (pbind_eq (read_be 4) _ _ (pic_h x) _) by (apply read_be4_app, T5).
  rewrite (pbind_eq (read_be 4) _ _ (pic_depth x) _) by (apply read_be4_app, T6).
  rewrite (pbind_eq (read_be 4) _ _ (pic_colors x) _) by (apply read_be4_app, T7).
  rewrite (pbind_eq read_prefixed _ _ (pic_data x) r) by (apply read_prefixed_app, L3).
  destruct x; reflexivity.
Qed.

Lemma picture_read_inv s x r : Forall byte s -> read_picture utf8_valid s = Ok (x, r) ->
  ty_picture x /\ exists bs, write_picture x = Ok bs /\ s = bs ++ r.
Proof.
  intros Hs H. unfold read_picture in H. inv_bind H.
  apply (read_be_ok 4) in E; [|exact Hs]. destruct E as [-> B0]. apply Forall_app_r in Hs.
  destruct (N.ltb_spec 20 a) as [|Ht]; [discriminate|].
  inv_bind H. apply read_prefixed_inv in E; [|exact Hs]. destruct E as [-> L1]. apply Forall_app_r in Hs. apply Forall_app_r in Hs.
  destruct (utf8_valid a0) eqn:U1; [|discriminate]. cbn [negb] in H.
  inv_bind H. apply read_prefixed_inv in E; [|exact Hs]. destruct E as [-> L2]. apply Forall_app_r in Hs. apply Forall_app_r in Hs.
  destruct (utf8_valid a1) eqn:U2; [|discriminate]. cbn [negb] in H.
  inv_bind H. apply (read_be_ok 4) in E; [|exact Hs]. destruct E as [-> B1]. apply Forall_app_r in Hs.
  inv_bind H. apply (read_be_ok 4) in E; [|exact Hs]. destruct E as [-> B2]. apply Forall_app_r in Hs.
  inv_bind H. apply (read_be_ok 4) in E; [|exact Hs]. destruct E as [-> B3]. apply Forall_app_r in Hs.
  inv_bind H. apply (read_be_ok 4) in E; [|exact Hs]. destruct E as [-> B4]. apply Forall_app_r in Hs.
  inv_bind H. apply read_prefixed_inv in E; [|exact Hs]. destruct E as [-> L3].
  change (256 ^ N.of_nat 4) with 4294967296 in *.
  unfold pret in H. apply Ok_inj in H. injection H as <- <-.
  split; [unfold ty_picture; cbn; repeat split; assumption|].
  unfold write_picture, write_prefixed. cbn [pic_type pic_mime pic_desc pic_w pic_h pic_depth pic_colors pic_data].
  change (2 ^ 32) with 4294967296.
  destruct (N.ltb_spec (lenN a0) 4294967296); [|lia]. destruct (N.ltb_spec (lenN a1) 4294967296); [|lia].
  destruct (N.ltb_spec (lenN a6) 4294967296); [|lia]. cbn [bind]. eexists. split; [reflexivity|].
  rewrite <- !app_assoc. reflexivity.
Qed.
End Utf8Codecs.

(* ================================================================================== *)
(* CUESHEET                                                                            *)
(* ================================================================================== *)
Section CuesheetCodec.
Variable utf8_valid : list N -> bool.
(* what std guarantees and the codec of the ASCII-only ISRC field needs *)
Hypothesis utf8_ascii : forall s, Forall (fun b => b < 128) s -> utf8_valid s = true.

Lemma lenN_write_flags a b : lenN (write_flags a b) = 1.
Proof. destruct a, b; reflexivity. Qed.
Lemma read_flags_write a b rest : read_flags (write_flags a b ++ rest) = Ok ((a, b), rest).
Proof. destruct a, b; reflexivity. Qed.
Lemma read_flags_inv s a b r : read_flags s = Ok ((a, b), r) -> exists c, s = c ++ r /\ lenN c = 1.
Proof.
  unfold read_flags. intros H. inv_bind H. apply take_ok in E. destruct E as [-> L].
  exists a0. split; [|exact L].
  destruct (rd 1 (bits_of_bytes a0)) as [[x y]|]; [|discriminate]. destruct (rd 1 y) as [[z w]|]; [|discriminate].
  unfold pret in H. apply Ok_inj in H. injection H as _ _ <-. reflexivity.
Qed.

(* ---- ISRC *)
Definition ty_isrc (i : isrc) : Prop := match i with IsrcNone => True | IsrcStr s => wf_isrc s end.

Lemma class_ascii c : is_alpha c = true \/ is_alnum c = true \/ is_digit c = true -> c < 128 /\ c <> 0.
Proof.
  unfold is_alnum, is_alpha, is_digit. intros H.
  repeat match goal with
         | H : _ \/ _ |- _ => destruct H as [H|H]
         | H : _ || _ = true |- _ => apply orb_prop in H
         | H : _ && _ = true |- _ => apply andb_prop in H; destruct H as [? ?]
         | H : (_ <=? _) = true |- _ => apply N.leb_le in H
         end; lia.
Qed.

Lemma wf_isrc_bytes s : wf_isrc s -> Forall (fun b => b < 128) s /\ all_zero s = false.
Proof.
  intros (L & A & B & D). destruct (isrc_parts s L) as (E & L1 & _).
  destruct (forallb_skipn5_split s L D) as [D1 D2].
  rewrite forallb_forall in A, B, D1, D2.
  assert (Hall : forall c, In c s -> c < 128 /\ c <> 0).
  { intros c Hc. rewrite E in Hc. rewrite !in_app_iff in Hc. apply class_ascii.
    destruct Hc as [Hc|[Hc|[Hc|Hc]]]; [left; apply A, Hc|right; left; apply B, Hc|right; right; apply D1, Hc|right; right; apply D2, Hc]. }
  split; [apply Forall_forall; intros c Hc; apply Hall, Hc|].
  destruct s as [|c q]; [cbn in L; lia|]. cbn [all_zero forallb].
  destruct (Hall c (or_introl eq_refl)) as [_ Hnz]. destruct (N.eqb_spec c 0); [contradiction|reflexivity].
Qed.

Lemma lenN_write_isrc i : ty_isrc i -> lenN (write_isrc i) = 12.
Proof.
  destruct i as [|s]; intros T; cbn [write_isrc]; [apply lenN_zerosN|].
  destruct T as (L & _). rewrite <- L. rewrite takeN_app. reflexivity.
Qed.
Lemma write_isrc_str s : wf_isrc s -> write_isrc (IsrcStr s) = s.
Proof. intros (L & _). cbn [write_isrc]. rewrite <- L. apply takeN_app. Qed.

Lemma read_isrc_write i rest : ty_isrc i -> read_isrc utf8_valid (write_isrc i ++ rest) = Ok (i, rest).
Proof.
  intros T. unfold read_isrc. destruct i as [|s].
  - cbn [write_isrc]. rewrite (pbind_eq (take 12) _ _ (zerosN 12) rest) by (apply take_app_len, lenN_zerosN).
    rewrite all_zero_zerosN. reflexivity.
  - cbn [ty_isrc] in T. rewrite write_isrc_str by exact T. pose proof T as (L & _).
    rewrite (pbind_eq (take 12) _ _ s rest) by (apply take_app_len, L).
    destruct (wf_isrc_bytes s T) as [Ha Hz]. rewrite Hz, (utf8_ascii s Ha), (isrc_from_str_plain s T). reflexivity.
Qed.

(* a 12-byte field accepted as ISRC holds the string unchanged: dashes would shorten it *)
Lemma filter_split_some s amt f rest : filter_split s amt f = Some rest ->
  exists pre, s = pre ++ rest /\ lenN pre = amt /\ forallb f pre = true.
Proof.
  unfold filter_split. destruct (splitN amt s) as [[pre r]|] eqn:E; [|discriminate].
  destruct (forallb f pre) eqn:F; [|discriminate]. intros H. injection H as <-.
  apply splitN_some in E. destruct E as [-> L]. eauto.
Qed.

Lemma isrc_from_str_inv s x : isrc_from_str s = Some x -> wf_isrc x /\ lenN x <= lenN s /\ (lenN s = 12 -> x = s).
Proof.
  unfold isrc_from_str.
  set (isrc := if existsb (fun b => b =? 45) s then filter (fun b => negb (b =? 45)) s else s).
  destruct (filter_split isrc 2 is_alpha) as [s1|] eqn:E1; [|discriminate].
  destruct (filter_split s1 3 is_alnum) as [s2|] eqn:E2; [|discriminate].
  destruct (filter_split s2 2 is_digit) as [s3|] eqn:E3; [|discriminate].
  destruct (filter_split s3 5 is_digit) as [s4|] eqn:E4; [|discriminate].
  destruct s4; [|discriminate]. intros H. injection H as <-.
  apply filter_split_some in E1, E2, E3, E4.
  destruct E1 as (p1 & Ei & L1 & F1). destruct E2 as (p2 & -> & L2 & F2).
  destruct E3 as (p3 & -> & L3 & F3). destruct E4 as (p4 & -> & L4 & F4). rewrite app_nil_r in *.
  assert (Lp : lenN isrc = 12) by (rewrite Ei, !lenN_app; lia).
  assert (W : wf_isrc isrc).
  { rewrite lenN_length in L1, L2, L3, L4.
    unfold wf_isrc. split; [exact Lp|]. rewrite Ei.
    assert (X1 : firstn 2 (p1 ++ p2 ++ p3 ++ p4) = p1).
    { rewrite firstn_app. replace (2 - length p1)%nat with 0%nat by lia. rewrite firstn_all2 by lia. cbn. apply app_nil_r. }
    assert (X2 : skipn 2 (p1 ++ p2 ++ p3 ++ p4) = p2 ++ p3 ++ p4).
    { rewrite skipn_app. replace (2 - length p1)%nat with 0%nat by lia. rewrite skipn_all2 by lia. reflexivity. }
    assert (X3 : firstn 3 (p2 ++ p3 ++ p4) = p2).
    { rewrite firstn_app. replace (3 - length p2)%nat with 0%nat by lia. rewrite firstn_all2 by lia. cbn. apply app_nil_r. }
    assert (X4 : skipn 5 (p1 ++ p2 ++ p3 ++ p4) = p3 ++ p4).
    { rewrite app_assoc. rewrite skipn_app. rewrite app_length.
      replace (5 - (length p1 + length p2))%nat with 0%nat by lia. rewrite skipn_all2 by (rewrite app_length; lia). reflexivity. }
    rewrite X1, X2, X3, X4. split; [exact F1|]. split; [exact F2|]. rewrite forallb_app, F3, F4. reflexivity. }
  split; [exact W|].
  assert (Lle : lenN isrc <= lenN s).
  { unfold isrc. destruct (existsb _ s); [|lia]. rewrite !lenN_length. pose proof (filter_length_le (fun b => negb (b =? 45)) s). lia. }
  split; [exact Lle|]. intros L12. unfold isrc in *.
  destruct (existsb (fun b => b =? 45) s) eqn:Ex; [|reflexivity]. exfalso.
  apply existsb_exists in Ex. destruct Ex as (c & Hc & Ec). apply N.eqb_eq in Ec. subst c.
  (* a dash is removed, so the filtered string is strictly shorter *)
  assert (Hlt : (length (filter (fun b => negb (b =? 45)) s) < length s)%nat).
  { clear -Hc. induction s as [|y q IH]; [contradiction|]. cbn [filter length]. destruct Hc as [->|Hc].
    - cbn. pose proof (filter_length_le (fun b => negb (b =? 45)) q). lia.
    - specialize (IH Hc). destruct (negb (y =? 45)); cbn [length]; lia. }
  rewrite !lenN_length in *. lia.
Qed.

Lemma read_isrc_inv s i r : Forall byte s -> read_isrc utf8_valid s = Ok (i, r) ->
  ty_isrc i /\ exists c, s = c ++ r /\ lenN c = 12.
Proof.
  intros Hs H. unfold read_isrc in H. inv_bind H. apply take_ok in E. destruct E as [-> L].
  destruct (all_zero a).
  - unfold pret in H. apply Ok_inj in H. injection H as <- <-. split; [exact I|eauto].
  - destruct (utf8_valid a); [|discriminate]. destruct (isrc_from_str a) as [x|] eqn:Ei; [|discriminate].
    unfold pret in H. apply Ok_inj in H. injection H as <- <-.
    apply isrc_from_str_inv in Ei. destruct Ei as (W & _ & _). split; [exact W|eauto].
Qed.
End CuesheetCodec.
