(* writers/Run_proofs.v — what a run of the sample writer leaves in the Encoder: the bookkeeping
   invariant, the block structure (every block has block_size PCM frames except a shorter last
   one), the MD5 input (the little-endian bytes of every whole PCM frame, in order), hence the
   C09 clauses and the C15 length contract for FlacSampleWriter. *)
From Coq Require Import Sorting.Sorted.
From FlacWriters Require Import Writers Lists_proofs Params_proofs Audio_proofs Writers_proofs New_proofs
     Finalize_proofs Encoder_proofs Seek_proofs Finish_proofs C09_proofs.
Open Scope N_scope.

(* the bytes update_md5 feeds for a run of samples *)
Definition md5_of (bytes_per_sample : N) (samples : list Z) : list N :=
  if bytes_per_sample =? 1 then flat_map (le_bytes_z 1) samples
  else if bytes_per_sample =? 2 then flat_map (le_bytes_z 2) samples
  else if bytes_per_sample =? 3 then flat_map i24_to_bytes_le samples
  else flat_map (le_bytes_z 4) samples.

Lemma update_md5_ok bytes samples : 1 <= bytes <= 4 -> update_md5 samples bytes = Ok (md5_of bytes samples).
Proof.
  intros H. unfold update_md5, md5_of.
  destruct (N.eqb_spec bytes 1); [reflexivity|]. destruct (N.eqb_spec bytes 2); [reflexivity|].
  destruct (N.eqb_spec bytes 3); [reflexivity|]. destruct (N.eqb_spec bytes 4); [reflexivity|lia].
Qed.
Lemma md5_of_nil bytes : md5_of bytes [] = [].
Proof. unfold md5_of. repeat destruct (_ =? _); reflexivity. Qed.
Lemma md5_of_app bytes a b : md5_of bytes (a ++ b) = md5_of bytes a ++ md5_of bytes b.
Proof. unfold md5_of. repeat destruct (_ =? _); apply flat_map_app. Qed.

Section Run.
Variable enc_block : N -> block -> res (list N).
Variable md5 : list N -> list N.
Hypothesis md5_length : forall l, length (md5 l) = 16%nat.
Variable p : profile.

(* fields that no encode step changes *)
Definition static_eq (e e' : encoder) : Prop :=
  e_blocks e' = e_blocks e /\ e_interval e' = e_interval e /\ e_prefix e' = e_prefix e /\ e_meta e' = e_meta e /\
  si_rate (e_si e') = si_rate (e_si e) /\ si_channels (e_si e') = si_channels (e_si e) /\
  si_bps (e_si e') = si_bps (e_si e) /\ si_min_bs (e_si e') = si_min_bs (e_si e) /\
  si_max_bs (e_si e') = si_max_bs (e_si e) /\ si_total (e_si e') = si_total (e_si e).

Lemma static_eq_refl e : static_eq e e.
Proof. unfold static_eq. repeat split; reflexivity. Qed.
Lemma static_eq_trans a b c : static_eq a b -> static_eq b c -> static_eq a c.
Proof. unfold static_eq. intros H1 H2. decompose [and] H1. decompose [and] H2. repeat split; congruence. Qed.
Lemma static_eq_static e e' : static_eq e e' -> enc_static e -> enc_static e'.
Proof.
  intros H S. unfold static_eq in H. decompose [and] H. destruct S. constructor.
  - congruence.
  - congruence.
  - rewrite H2. assumption.
  - rewrite H6, H8, H5, H7, H10. assumption.
Qed.

Lemma update_frame_sizes_static si size :
  let si' := update_frame_sizes si size in
  si_rate si' = si_rate si /\ si_channels si' = si_channels si /\ si_bps si' = si_bps si /\
  si_min_bs si' = si_min_bs si /\ si_max_bs si' = si_max_bs si /\ si_total si' = si_total si.
Proof. unfold update_frame_sizes. destruct (_ && _ && _); cbn; repeat split; reflexivity. Qed.

(* one block of the sample writer *)
Lemma sample_chunk_step ch bytes cl e c e' :
  1 <= ch <= 8 -> 1 <= bytes <= 4 -> N.of_nat (length c) = ch * cl -> 1 <= cl < 65536 ->
  enc_inv e -> sample_encode_chunk enc_block p ch bytes e c = Ok e' -> counters_fit e' ->
  enc_inv e' /\ static_eq e e' /\
  (exists len, frames_info e' = frames_info e ++ [(cl, len)]) /\
  md5_input e' = md5_input e ++ md5_of bytes c /\
  (match si_total (e_si e) with Some t => e_samples_written e' <= t | None => True end).
Proof.
  intros Hch Hb Lc Hcl I H Fit. unfold sample_encode_chunk in H.
  rewrite (update_md5_ok bytes c Hb) in H. cbn [bind] in H.
  apply bind_ok in H. destruct H as (blk & Hf & H).
  destruct (fill_from_samples_shape ch cl c blk Hch ltac:(lia) Lc Hf) as (_ & _ & Bl).
  pose proof (md5_consume_inv e (md5_of bytes c) I) as I1.
  destruct (encoder_encode_inv enc_block p _ blk e' I1 H ltac:(lia) Fit) as (I' & len & _ & Fi & Em & Es & Et).
  split; [exact I'|].
  pose proof (encoder_encode_meta enc_block p _ _ _ H) as (M1 & M2 & M3 & M4).
  pose proof (update_frame_sizes_static (e_si e) (N.of_nat (length len))) as U. cbv zeta in U.
  cbn [md5_consume e_si] in Es. rewrite <- Es in U. decompose [and] U.
  split; [unfold static_eq; cbn in *; repeat split; assumption|].
  split; [exists (N.of_nat (length len)); rewrite Bl in Fi; exact Fi|].
  split; [|exact Et].
  unfold md5_input. rewrite Em. cbn [md5_consume e_md5_rev rev]. rewrite concat_app. cbn [concat]. rewrite ?app_nil_r. reflexivity.
Qed.

Lemma sample_chunk_grows ch bytes e c e' :
  length (e_emitted_rev e) = length (e_frames_rev e) ->
  sample_encode_chunk enc_block p ch bytes e c = Ok e' ->
  true_samples e <= true_samples e' /\ true_bytes e <= true_bytes e' /\
  length (e_emitted_rev e') = length (e_frames_rev e').
Proof.
  intros L H. unfold sample_encode_chunk in H.
  apply bind_ok in H. destruct H as (m & _ & H). apply bind_ok in H. destruct H as (blk & _ & H).
  apply (encoder_encode_grows enc_block p (md5_consume e m) blk e' L H).
Qed.

Lemma sample_fold_grows ch bytes : forall cs e e',
  length (e_emitted_rev e) = length (e_frames_rev e) ->
  fold_res (sample_encode_chunk enc_block p ch bytes) e cs = Ok e' ->
  true_samples e <= true_samples e' /\ true_bytes e <= true_bytes e' /\
  length (e_emitted_rev e') = length (e_frames_rev e').
Proof.
  induction cs as [|c cs IH]; intros e e' L H; cbn [fold_res] in H.
  - inversion H; subst. repeat split; auto; lia.
  - apply bind_ok in H. destruct H as (e1 & H1 & H).
    destruct (sample_chunk_grows _ _ _ _ _ L H1) as (A & B & L1).
    destruct (IH _ _ L1 H) as (A' & B' & L'). repeat split; auto; lia.
Qed.

(* all whole blocks of one write call *)
Lemma sample_fold_step ch bytes bs : 1 <= ch <= 8 -> 1 <= bytes <= 4 -> 1 <= bs < 65536 ->
  forall cs e e', Forall (fun c => N.of_nat (length c) = ch * bs) cs ->
  enc_inv e -> fold_res (sample_encode_chunk enc_block p ch bytes) e cs = Ok e' -> counters_fit e' ->
  enc_inv e' /\ static_eq e e' /\
  map fst (frames_info e') = map fst (frames_info e) ++ repeat bs (length cs) /\
  md5_input e' = md5_input e ++ md5_of bytes (concat cs).
Proof.
  intros Hch Hb Hbs. induction cs as [|c cs IH]; intros e e' F I H Fit; cbn [fold_res] in H.
  - inversion H; subst. cbn [repeat length concat]. rewrite md5_of_nil, !app_nil_r.
    split; [exact I|]. split; [apply static_eq_refl|]. split; reflexivity.
  - inversion F as [|? ? Lc F']; subst. apply bind_ok in H. destruct H as (e1 & H1 & H).
    assert (L1 : length (e_emitted_rev e1) = length (e_frames_rev e1))
      by (apply (sample_chunk_grows _ _ _ _ _ (inv_len e I) H1)).
    assert (Fit1 : counters_fit e1).
    { destruct (sample_fold_grows _ _ _ _ _ L1 H) as (A & B & _). destruct Fit. split; lia. }
    destruct (sample_chunk_step ch bytes bs e c e1 Hch Hb Lc Hbs I H1 Fit1) as (I1 & S1 & (len & Fi1) & M1 & _).
    destruct (IH e1 e' F' I1 H Fit) as (I' & S' & Fi' & M').
    split; [exact I'|]. split; [eapply static_eq_trans; eauto|]. split.
    + rewrite Fi', Fi1, map_app. cbn [map fst length repeat]. rewrite <- app_assoc. reflexivity.
    + rewrite M', M1. cbn [concat]. rewrite md5_of_app, app_assoc. reflexivity.
Qed.

(* ---- the encoder a constructor hands out *)
Lemma encoder_new_inv0 prefix o rate bps ch total e :
  options_wf o -> 1 <= bps <= 32 ->
  match total with Some t => 1 <= t | None => True end ->
  encoder_new p prefix o rate bps ch total = Ok e ->
  enc_inv e /\ enc_static e /\ frames_info e = [] /\ md5_input e = [].
Proof.
  intros (Hb & Hi & Hm) Hbps Ht H.
  pose proof (encoder_new_inv p _ _ _ _ _ _ _ H) as Inv.
  destruct Inv as (Hch & Hrate & Ech & Ebps & Erate & Etot & Epre & Efr & Ewr & Esp & Ecnt & Emd & Eem &
                   Enum & Eiv & Emin & Emax & Eminf & Emaxf & Htot).
  assert (Fi : frames_info e = []) by (unfold frames_info, info_rev; rewrite Eem, Efr; reflexivity).
  split; [|split; [|split]].
  - constructor.
    + rewrite Eem, Efr. reflexivity.
    + unfold seekpoints. rewrite Esp, Fi. reflexivity.
    + unfold true_samples. rewrite Fi. exact Ewr.
    + unfold true_bytes. rewrite Fi. exact Ecnt.
    + rewrite Enum, Efr. reflexivity.
    + rewrite Eminf, Fi. reflexivity.
    + rewrite Emaxf, Fi. reflexivity.
    + rewrite Fi. constructor.
    + unfold counters_fit, true_samples, true_bytes. rewrite Fi. cbn. split; reflexivity.
  - unfold encoder_new in H.
    apply bind_ok in H. destruct H as ([] & _ & H).
    apply bind_ok in H. destruct H as (bl & Hbl & H).
    apply bind_ok in H. destruct H as (meta & Hmeta & H).
    assert (Eb : e_blocks e = sort_blocks bl) by (inversion H; reflexivity).
    constructor.
    + (* the block list: what write_blocks just serialised *)
      rewrite Eb. clear - Hmeta. unfold write_blocks in Hmeta.
      apply bind_ok in Hmeta. destruct Hmeta as (b & _ & Hm).
      apply bind_ok in Hm. destruct Hm as (h & _ & Hm).
      apply bind_ok in Hm. destruct Hm as (x & Hx & _).
      revert x Hx. induction (sort_blocks bl) as [|bk l IH]; intros x Hx; [constructor|].
      cbn [ser_oblocks] in Hx. apply bind_ok in Hx. destruct Hx as (y & Hy & Hx).
      apply bind_ok in Hx. destruct Hx as (z & Hz & _). constructor; [|eapply IH; eauto].
      unfold ser_oblock in Hy. apply bind_ok in Hy. destruct Hy as (body & Hbody & Hy).
      apply bind_ok in Hy. destruct Hy as (hd & Hh & _).
      unfold ser_header in Hh. destruct (N.leb_spec (N.of_nat (length body)) BLOCKSIZE_MAX) as [L|L]; [|discriminate].
      destruct bk as [s|pts|k body0]; cbn [ser_oblock_body oblock_ser_ok] in *.
      * inversion Hbody; subst. rewrite repeat_length, N2Nat.id in L. exact L.
      * destruct (seektable_ok None pts) eqn:T; [|discriminate]. inversion Hbody; subst.
        rewrite flat_map_ser_point_length in L. split; [reflexivity|lia].
      * inversion Hbody; subst. exact L.
    + rewrite Erate. change (2 ^ 20) with 1048576. assumption.
    + rewrite Eiv. destruct (o_seektable_interval o) as [[s|n]|]; cbn in Hi; auto. lia.
    + rewrite Emin, Emax, Ech, Ebps, Etot. change (2 ^ 16) with 65536. repeat split; try lia.
      destruct total as [t|]; [lia|trivial].
  - exact Fi.
  - unfold md5_input. rewrite Emd. reflexivity.
Qed.

(* ---- a whole run of the sample writer *)
Theorem sample_run_spec prefix o rate bps ch total w chunks f :
  options_wf o -> sample_new p prefix o rate bps ch total = Ok w ->
  sample_run enc_block md5 p w chunks = Ok f -> counters_fit (f_enc f) ->
  let all := concat chunks in
  let bs := o_block_size o in
  let bytes := bytes_per_sample_of bps in
  exists cs r,
    drain (N.to_nat (ch * bs)) all = (cs, r) /\
    let tail := N.of_nat (length r) / ch in
    let whole := firstn (N.to_nat (ch * tail)) r in
    enc_inv (f_enc f) /\ enc_static (f_enc f) /\ frames_nonempty (f_enc f) /\ static_eq (sw_enc w) (f_enc f) /\
    map fst (frames_info (f_enc f)) = repeat bs (length cs) ++ (if 1 <=? tail then [tail] else []) /\
    md5_input (f_enc f) = md5_of bytes (concat cs ++ (if 1 <=? tail then whole else [])) /\
    tail < bs /\ encoder_finalize md5 p (f_enc f) = Ok f.
Proof.
  intros Ho Hn Hr Fit all bs bytes.
  pose proof (sample_new_wf p _ _ _ _ _ _ _ Ho Hn) as Hw.
  rewrite (sample_chunking enc_block md5 p w chunks Hw) in Hr. fold all in Hr.
  unfold sample_new in Hn.
  apply bind_ok in Hn. destruct Hn as (b & Hbps & Hn).
  apply bind_ok in Hn. destruct Hn as (t & Ht & Hn).
  apply bind_ok in Hn. destruct Hn as (e0 & He0 & Hn). inversion Hn; subst w. clear Hn.
  unfold signed_bit_count_32 in Hbps.
  destruct (N.leb_spec 1 bps) as [B1|B1]; cbn [andb] in Hbps; [|discriminate].
  destruct (N.leb_spec bps 32) as [B2|B2]; inversion Hbps; subst b. clear Hbps.
  assert (Htt : match t with Some t0 => 1 <= t0 | None => True end).
  { unfold sample_total in Ht. destruct total as [s|]; [|inversion Ht; exact I].
    destruct (exact_div s ch) as [q|]; [|discriminate].
    destruct (N.eqb_spec q 0); inversion Ht; subst. lia. }
  destruct (encoder_new_inv0 _ _ _ _ _ _ _ Ho (conj B1 B2) Htt He0) as (I0 & S0 & Fi0 & M0).
  pose proof (encoder_new_inv p _ _ _ _ _ _ _ He0) as Inv. destruct Inv as (Hch & _ & Ech & _).
  destruct Ho as (Hbs & _).
  pose proof (bytes_per_sample_pos bps B1) as Hb1. pose proof (bytes_per_sample_le bps B2) as Hb2. fold bytes in Hb1, Hb2.
  unfold sample_run in Hr. cbn [fold_res] in Hr.
  apply bind_ok in Hr. destruct Hr as (w1 & Hw1 & Hr). apply bind_ok in Hw1. destruct Hw1 as (w1' & Hw1 & E). inversion E; subst w1'. clear E.
  destruct Hw as [Hk _]. rewrite sample_write_eq in Hw1 by exact Hk.
  cbn [sw_buf sw_enc sw_frame_sample_size sw_channels sw_bytes_per_sample app] in Hw1. fold bs in Hw1.
  destruct (drain (N.to_nat (ch * bs)) all) as [cs r] eqn:D.
  apply bind_ok in Hw1. destruct Hw1 as (e1 & Hf & E). inversion E; subst w1. clear E.
  exists cs, r. split; [reflexivity|]. intros tail whole.
  cbn [sw_frame_sample_size] in Hk. fold bs in Hk.
  apply drain_spec in D; [|exact Hk]. destruct D as (Eall & Fcs & Lr).
  assert (Fcs' : Forall (fun c => N.of_nat (length c) = ch * bs) cs).
  { eapply Forall_impl; [|exact Fcs]. cbn. intros c Hc. rewrite Hc. apply N2Nat.id. }
  (* the final block *)
  unfold sample_finalize in Hr. cbn [sw_buf sw_channels sw_enc sw_bytes_per_sample sw_set] in Hr.
  apply bind_ok in Hr. destruct Hr as (e2 & Hfin & Hr).
  assert (Ef : f_enc f = e2).
  { unfold encoder_finalize, encoder_finalize_gen in Hr.
    repeat (apply bind_ok in Hr; destruct Hr as (? & _ & Hr)). inversion Hr; reflexivity. }
  rewrite Ef in *. clear Ef.
  set (lr := N.of_nat (length r)) in *.
  assert (Hlr : lr < ch * bs) by (unfold lr; lia).
  assert (Htail : tail < bs).
  { unfold tail. apply N.div_lt_upper_bound; lia. }
  assert (L1 : length (e_emitted_rev e1) = length (e_frames_rev e1))
    by (apply (sample_fold_grows _ _ _ _ _ (inv_len e0 I0) Hf)).
  destruct (N.leb_spec ch lr) as [Hge|Hlt].
  - (* at least one whole PCM frame is buffered: a final, shorter block *)
    destruct (N.eqb_spec ch 0); [lia|].
    assert (Hmod : lr - lr mod ch = ch * tail).
    { unfold tail. pose proof (N.div_mod lr ch ltac:(lia)). lia. }
    rewrite Hmod in Hfin. fold whole in Hfin.
    assert (Ht1 : 1 <= tail).
    { unfold tail. apply N.div_le_lower_bound; lia. }
    assert (Lw : N.of_nat (length whole) = ch * tail).
    { unfold whole. rewrite firstn_length_le; [apply N2Nat.id|].
      assert (Hle : ch * tail <= lr) by (rewrite <- Hmod; apply N.le_sub_l).
      assert (X : N.of_nat (N.to_nat (ch * tail)) <= N.of_nat (length r)) by (rewrite N2Nat.id; exact Hle).
      revert X. generalize (N.to_nat (ch * tail)) (length r). intros a b0 X. lia. }
    assert (Fit1 : counters_fit e1).
    { destruct (sample_chunk_grows _ _ _ _ _ L1 Hfin) as (A & B & _). destruct Fit. split; lia. }
    destruct (sample_fold_step ch bytes bs Hch (conj Hb1 Hb2) ltac:(lia) cs e0 e1 Fcs' I0 Hf Fit1) as (I1 & S1 & Fi1 & M1).
    destruct (sample_chunk_step ch bytes tail e1 whole e2 Hch (conj Hb1 Hb2) Lw ltac:(lia) I1 Hfin Fit) as (I2 & S2 & (len & Fi2) & M2 & _).
    replace (1 <=? tail) with true by (symmetry; apply N.leb_le; exact Ht1).
    assert (Fr : map fst (frames_info e2) = repeat bs (length cs) ++ [tail]).
    { rewrite Fi2, map_app, Fi1, Fi0. reflexivity. }
    split; [exact I2|]. split; [exact (static_eq_static e0 e2 (static_eq_trans _ _ _ S1 S2) S0)|].
    split.
    { unfold frames_nonempty. apply Forall_forall. intros x Hx.
      assert (Hin : In (fst x) (map fst (frames_info e2))) by (apply in_map; exact Hx).
      rewrite Fr in Hin. apply in_app_or in Hin. destruct Hin as [Hin|[Hin|[]]]; [apply repeat_spec in Hin|]; lia. }
    split; [exact (static_eq_trans _ _ _ S1 S2)|]. split; [exact Fr|].
    split; [rewrite M2, M1, M0, md5_of_app; reflexivity|]. split; [exact Htail|exact Hr].
  - (* less than one whole PCM frame left: dropped *)
    assert (E12 : e2 = e1) by (inversion Hfin; reflexivity). subst e2. clear Hfin.
    assert (Ht0 : tail = 0) by (unfold tail; apply N.div_small; exact Hlt).
    destruct (sample_fold_step ch bytes bs Hch (conj Hb1 Hb2) ltac:(lia) cs e0 e1 Fcs' I0 Hf Fit) as (I1 & S1 & Fi1 & M1).
    replace (1 <=? tail) with false by (symmetry; apply N.leb_gt; lia).
    rewrite !app_nil_r.
    split; [exact I1|]. split; [exact (static_eq_static e0 e1 S1 S0)|].
    split.
    { unfold frames_nonempty. apply Forall_forall. intros x Hx.
      assert (Hin : In (fst x) (map fst (frames_info e1))) by (apply in_map; exact Hx).
      rewrite Fi1, Fi0 in Hin. cbn [map app] in Hin. apply repeat_spec in Hin. lia. }
    split; [exact S1|]. split; [rewrite Fi1, Fi0; reflexivity|].
    split; [rewrite M1, M0; reflexivity|]. split; [exact Htail|exact Hr].
Qed.

Lemma sum_fst_map l : sum_fst l = fold_right N.add 0 (map fst l).
Proof. induction l as [|x l IH]; cbn; [reflexivity|]. fold (sum_fst l). rewrite IH. reflexivity. Qed.
Lemma sum_repeat_acc bs k a : fold_right N.add a (repeat bs k) = bs * N.of_nat k + a.
Proof. induction k as [|k IH]; cbn [repeat fold_right]; [lia|]. rewrite IH. lia. Qed.

(* C09 for FlacSampleWriter: STREAMINFO and SEEKTABLE of a successful run, in terms of the input *)
Theorem sample_c09 prefix o rate bps ch total w chunks f :
  options_wf o -> sample_new p prefix o rate bps ch total = Ok w ->
  sample_run enc_block md5 p w chunks = Ok f -> counters_fit (f_enc f) ->
  let all := concat chunks in
  let bs := o_block_size o in
  let bytes := bytes_per_sample_of bps in
  exists cs r,
    drain (N.to_nat (ch * bs)) all = (cs, r) /\
    let tail := N.of_nat (length r) / ch in
    let whole := firstn (N.to_nat (ch * tail)) r in
    let frames := frames_info (f_enc f) in
    (* the frames: every block has block_size PCM frames, except a shorter last one *)
    map fst frames = repeat bs (length cs) ++ (if 1 <=? tail then [tail] else []) /\ tail < bs /\
    (* STREAMINFO *)
    si_total (f_si f) = Some (bs * N.of_nat (length cs) + tail) /\
    si_rate (f_si f) = rate /\ si_channels (f_si f) = ch /\ si_bps (f_si f) = bps /\
    si_min_bs (f_si f) = bs /\ si_max_bs (f_si f) = bs /\
    si_min_fs (f_si f) = fs_min (map snd frames) /\ si_max_fs (f_si f) = fs_max (map snd frames) /\
    si_md5 (f_si f) = Some (md5 (md5_of bytes (concat cs ++ (if 1 <=? tail then whole else [])))) /\
    (* SEEKTABLE *)
    (forall iv pts, o_seektable_interval o = Some iv -> first_seektable (f_blocks f) = Some pts ->
       is_contiguous pts = true /\
       (forall s b m, In (Defined s b m) pts ->
          In {| sp_sample := s; sp_byte := Some b; sp_frames := m |} (frame_seekpoints 0 0 frames)) /\
       exists sel regenerated,
         generate_seektable p rate frames iv = Ok regenerated /\
         defined_points regenerated = take_n (map to_mpoint sel) MAX_POINTS /\
         match first_seektable (e_blocks (sw_enc w)) with
         | None => pts = regenerated
         | Some old => defined_points pts = take_n (map to_mpoint sel) (N.of_nat (length old))
         end).
Proof.
  intros Ho Hn Hr Fit all bs bytes.
  destruct (sample_run_spec prefix o rate bps ch total w chunks f Ho Hn Hr Fit) as (cs & r & D & Sp).
  cbv zeta in Sp. destruct Sp as (I & S & Fn & Se & Fr & Md & Ht & Hfin).
  exists cs, r. split; [exact D|]. intros tail whole frames.
  (* the fresh encoder *)
  assert (exists t, encoder_new p prefix o rate bps ch t = Ok (sw_enc w)) as (t & He0).
  { unfold sample_new in Hn. apply bind_ok in Hn. destruct Hn as (b & Hb & Hn).
    unfold signed_bit_count_32 in Hb. destruct (_ && _); inversion Hb; subst b.
    apply bind_ok in Hn. destruct Hn as (t & _ & Hn). apply bind_ok in Hn. destruct Hn as (e0 & He0 & Hn).
    inversion Hn; subst. exists t. exact He0. }
  pose proof (encoder_new_inv p _ _ _ _ _ _ _ He0) as Inv.
  destruct Inv as (_ & _ & Ech & Ebps & Erate & _ & _ & _ & _ & _ & _ & _ & _ & _ & Eiv & Emin & Emax & _).
  unfold static_eq in Se. destruct Se as (Sb & Si & _ & _ & Sr & Sc & Sbp & Smn & Smx & _).
  destruct (finalize_streaminfo md5 md5_length p _ f I S Fn Hfin) as (T1 & T2 & T3 & T4 & T5 & T6 & T7 & T8 & T9 & _).
  split; [exact Fr|]. split; [exact Ht|].
  split.
  { rewrite T1. f_equal. unfold true_samples. rewrite sum_fst_map. rewrite Fr.
    rewrite fold_right_app, sum_repeat_acc. unfold tail, bs.
    destruct (1 <=? N.of_nat (length r) / ch) eqn:E1; cbn [fold_right].
    - rewrite N.add_0_r. reflexivity.
    - apply N.leb_gt in E1. apply N.lt_1_r in E1. rewrite E1. reflexivity. }
  split; [congruence|]. split; [congruence|]. split; [congruence|].
  split; [unfold bs; congruence|]. split; [unfold bs; congruence|].
  split; [exact T2|]. split; [exact T3|]. split; [rewrite T4, Md; reflexivity|].
  intros iv pts Hiv Hp.
  assert (Ei : e_interval (f_enc f) = Some iv) by congruence.
  destruct (finalize_points md5 md5_length p _ f iv pts I S Fn Ei Hfin Hp) as (C & Din & sel & reg & G & Dr & M).
  split; [exact C|]. split; [exact Din|]. exists sel, reg. rewrite Sr, Erate in G. rewrite Sb in M. auto.
Qed.

(* ---- C15, declared-length contract of FlacSampleWriter (soundness direction): a run that
   succeeds wrote exactly the declared number of PCM frames; with no declared total the count of
   whole PCM frames is what STREAMINFO records, and it is between 1 and 2^36-1 *)
Theorem sample_contract prefix o rate bps ch total w chunks f :
  options_wf o -> sample_new p prefix o rate bps ch total = Ok w ->
  sample_run enc_block md5 p w chunks = Ok f -> counters_fit (f_enc f) ->
  exists cs r, drain (N.to_nat (ch * o_block_size o)) (concat chunks) = (cs, r) /\
    let written := o_block_size o * N.of_nat (length cs) + N.of_nat (length r) / ch in
    si_total (f_si f) = Some written /\ 1 <= written < MAX_SAMPLES /\
    match total with
    | Some t => t = ch * written        (* the declared total, in interleaved samples *)
    | None => True
    end.
Proof.
  intros Ho Hn Hr Fit.
  destruct (sample_c09 prefix o rate bps ch total w chunks f Ho Hn Hr Fit) as (cs & r & D & C).
  cbv zeta in C. destruct C as (_ & _ & Tot & _).
  exists cs, r. split; [exact D|]. cbv zeta. split; [exact Tot|].
  destruct (sample_run_spec prefix o rate bps ch total w chunks f Ho Hn Hr Fit) as (cs' & r' & D' & Sp).
  rewrite D in D'. inversion D'; subst cs' r'. clear D'.
  cbv zeta in Sp. destruct Sp as (I & S & Fn & Se & _ & _ & _ & Hfin).
  destruct (finalize_streaminfo md5 md5_length p _ f I S Fn Hfin) as (T1 & _ & _ & _ & _ & _ & _ & _ & _ & Rg).
  rewrite T1 in Tot. injection Tot as Ew. split; [rewrite <- Ew; exact Rg|].
  destruct total as [t|]; [|trivial].
  (* the declared total survives in STREAMINFO and finalize compared it with the count *)
  unfold sample_new in Hn. apply bind_ok in Hn. destruct Hn as (b & Hb & Hn).
  apply bind_ok in Hn. destruct Hn as (t' & Ht & Hn). apply bind_ok in Hn. destruct Hn as (e0 & He0 & Hn).
  inversion Hn; subst w. clear Hn. cbn [sw_enc] in Se.
  pose proof (encoder_new_inv p _ _ _ _ _ _ _ He0) as Inv.
  destruct Inv as (Hch & _ & _ & _ & _ & Etot & _).
  unfold sample_total in Ht. destruct (exact_div t ch) as [q|] eqn:Eq; [|discriminate].
  destruct (N.eqb_spec q 0); [discriminate|]. injection Ht as Et'. rewrite <- Et' in Etot.
  apply exact_div_some in Eq. destruct Eq as (Hc0 & Hmod & Hq).
  unfold static_eq in Se. destruct Se as (_ & _ & _ & _ & _ & _ & _ & _ & _ & St).
  unfold encoder_finalize, encoder_finalize_gen in Hfin.
  apply bind_ok in Hfin. destruct Hfin as (bl & _ & Hfin). apply bind_ok in Hfin. destruct Hfin as (tt & Htt & _).
  unfold finalize_total in Htt. rewrite St, Etot in Htt.
  destruct (N.eqb_spec q (e_samples_written (f_enc f))) as [E|E]; [|discriminate].
  rewrite (inv_written _ I), Ew in E.
  pose proof (N.div_mod t ch Hc0) as Dm. rewrite Hmod, <- Hq, E in Dm. lia.
Qed.

End Run.
