(* Property C10 for the REAL metadata codec — statements only (proofs: RealCodec.v, CodecView.v, UpdateE2E.v).

   update_file / update / run_edits are the functions of coq/updateio/Update.v (the model the C10 and C13
   correspondence runs tie to src/metadata/mod.rs), run here with
       payload := a typed metadata block (coq/metadata/Blocks.v),
       ser / psize / uclass := the metadata area's body writer, its length, the "only once" classes,
       read_blocks := the metadata area's BlockList.read_blocks, with the unread remainder
   instead of an abstract block codec.  The hypotheses H1/H2 of coq/updateio/Props_C10.v are thereby
   discharged for every list of typed, canonical blocks (`good`): H2 is FALSE without that restriction
   (known finding C11 streaminfo-md5-some-all-zero), which is why the updateio theorems are re-proved in
   conditional form (Update_cond.v).  `u` is the UTF-8 validator (any predicate accepting ASCII). *)
From FlacBase Require Import Res Bits.
From FlacMeta Require Import Bytes Bytes_proofs Blocks BlockList Blocks_proofs Blocks_level BlockList_proofs Utf8 Utf8_proofs.
From FlacUpdIo Require GenUpd Update Update_proofs Update_cond.
From FlacCodec Require Ast Stream Spec.
From FlacE2EUpd Require Import RealCodec CodecView UpdateE2E NoPanicE2E.
Open Scope N_scope.

Definition utf8_ok (u : list N -> bool) : Prop := forall s, Forall (fun b => b < 128) s -> u s = true.

(* the two hypotheses of the updateio area hold of the real codec (on good lists), and what update_file
   writes is what the metadata writer writes *)
Theorem C10_real_codec_hypotheses : forall (u : list N -> bool), utf8_ok u ->
  (forall p, U.lenN (ser_r p) = psize_r p) /\
  (forall bl bytes rest, good u bl ->
     U.write_blocks block psize_r ser_r uclass_r bl = Ok bytes -> read_blocks_r u (bytes ++ rest) = Ok (bl, rest)) /\
  (forall bl bytes, shape_ok bl -> Forall (ty_block u) (of_upd bl) ->
     (U.write_blocks block psize_r ser_r uclass_r bl = Ok bytes <-> write_blocks (of_upd bl) = Ok bytes)) /\
  (forall s, rmap fst (read_rest u s) = read_blocks u s) /\
  (forall s bl rest, Forall byte s -> read_blocks_r u s = Ok (bl, rest) -> good u bl).
Proof.
  intros u Hu. split; [exact ser_len_real|]. split; [exact (read_write_real u Hu)|].
  split; [exact (write_equiv u)|]. split; [exact (read_rest_fst u)|exact (read_good u Hu)].
Qed.

(* the metadata area's full reader and the codec area's minimal reader (front end of the decoder model)
   agree on every byte string: same STREAMINFO, same first audio byte *)
Theorem C10_readers_agree : forall (u : list N -> bool) s l rest,
  Forall byte s -> read_rest u s = Ok (l, rest) ->
  exists si r, l = BStreaminfo si :: r /\ FlacCodec.Stream.read_metadata_min s = Some (convC si, rest).
Proof. exact readers_agree. Qed.

(* update_file returned Ok(false) *)
Theorem C10_real_codec_inplace : forall (u : list N -> bool), utf8_ok u ->
  forall (edit : U.blocklist block -> res (U.blocklist block)) (pre meta audio : list N) (bl : U.blocklist block) (st : U.fstate),
  typed_edit u edit -> Forall byte (meta ++ audio) ->
  read_blocks_r u (meta ++ audio) = Ok (bl, audio) ->
  U.update_file block psize_r ser_r uclass_r (read_blocks_r u) edit (length pre) (pre ++ meta ++ audio) = (st, Ok false) ->
  exists bl1 bl2 meta' si,
    edit bl = Ok bl1 /\
    st = {| U.orig := pre ++ meta' ++ audio; U.rebuilt := None |} /\
    length meta' = length meta /\
    write_blocks (of_upd bl2) = Ok meta' /\
    read_blocks u (meta' ++ audio) = Ok (of_upd bl2) /\
    U.bl_si block bl2 = BStreaminfo si /\
    FlacCodec.Stream.read_metadata_min (meta' ++ audio) = Some (convC si, audio) /\
    (bl2 = bl1 \/ exists n n', U.first_padding block (U.bl_blocks block bl1) = Some n /\
                               bl2 = U.with_first_padding block n' bl1).
Proof. exact real_inplace. Qed.

(* update_file returned Ok(true) *)
Theorem C10_real_codec_rebuilt : forall (u : list N -> bool), utf8_ok u ->
  forall (edit : U.blocklist block -> res (U.blocklist block)) (pre meta audio : list N) (bl : U.blocklist block) (st : U.fstate),
  typed_edit u edit -> Forall byte (meta ++ audio) ->
  read_blocks_r u (meta ++ audio) = Ok (bl, audio) ->
  U.update_file block psize_r ser_r uclass_r (read_blocks_r u) edit (length pre) (pre ++ meta ++ audio) = (st, Ok true) ->
  exists bl1 bytes si,
    edit bl = Ok bl1 /\ write_blocks (of_upd bl1) = Ok bytes /\
    st = {| U.orig := pre ++ meta ++ audio; U.rebuilt := Some (bytes ++ audio) |} /\
    read_blocks u (bytes ++ audio) = Ok (of_upd bl1) /\
    U.bl_si block bl1 = BStreaminfo si /\
    FlacCodec.Stream.read_metadata_min (bytes ++ audio) = Some (convC si, audio).
Proof. exact real_rebuilt. Qed.

(* any history of STREAMINFO-preserving typed edits on one path *)
Theorem C10_real_codec_history : forall (u : list N -> bool), utf8_ok u ->
  forall (edits : list (U.blocklist block -> res (U.blocklist block))) (file : list N) (bl : U.blocklist block)
         (audio fn : list N) (rs : list (res bool)),
  Forall (typed_edit u) edits -> Forall (U.keeps_streaminfo block) edits ->
  Forall byte file -> read_blocks_r u file = Ok (bl, audio) ->
  U.run_edits block psize_r ser_r uclass_r (read_blocks_r u) edits file = (fn, rs) ->
  exists si meta_n bl_n,
    U.bl_si block bl = BStreaminfo si /\
    fn = meta_n ++ audio /\
    read_blocks u fn = Ok (of_upd bl_n) /\ U.bl_si block bl_n = BStreaminfo si /\
    FlacCodec.Stream.read_metadata_min fn = Some (convC si, audio) /\
    FlacCodec.Stream.read_metadata_min file = Some (convC si, audio).
Proof. exact real_history. Qed.

(* ... hence the same decoded stream (decoder model of C03) and the same RFC-level meaning (Spec) *)
Theorem C10_real_codec_same_decoding : forall (u : list N -> bool), utf8_ok u ->
  forall (edits : list (U.blocklist block -> res (U.blocklist block))) (file : list N) (bl : U.blocklist block)
         (audio fn : list N) (rs : list (res bool)),
  Forall (typed_edit u) edits -> Forall (U.keeps_streaminfo block) edits ->
  Forall byte file -> read_blocks_r u file = Ok (bl, audio) ->
  U.run_edits block psize_r ser_r uclass_r (read_blocks_r u) edits file = (fn, rs) ->
  FlacCodec.Stream.dec_stream fn = FlacCodec.Stream.dec_stream file /\
  FlacCodec.Spec.spec_stream fn = FlacCodec.Spec.spec_stream file /\
  skipn (length fn - length audio) fn = audio.
Proof. exact real_history_same_decoding. Qed.

(* update_file over the real codec never panics of its own: ANY bytes, any start, any callback that does not panic;
   and on typed lists the metadata writer itself does not panic (so the instance hides nothing) *)
Theorem C10_real_codec_no_panic : forall (u : list N -> bool)
  (edit : U.blocklist block -> res (U.blocklist block)) (start : nat) (file : list N),
  (forall bl, is_panic (edit bl) = false) ->
  is_panic (snd (U.update_file block psize_r ser_r uclass_r (read_blocks_r u) edit start file)) = false.
Proof. exact real_update_no_panic. Qed.
Theorem C10_real_codec_writer_no_panic : forall (u : list N -> bool) (bl : U.blocklist block),
  Forall (ty_block u) (of_upd bl) -> is_panic (write_blocks (of_upd bl)) = false.
Proof. exact real_writer_no_panic. Qed.

(* ---- non-vacuity: a concrete file, two concrete edits, run through the model *)
Definition ex_si : streaminfo := mkSI 4096 4096 0 0 44100 2 16 1000 None.
Definition ex_audio : list N := [255; 248; 201; 24; 0; 1; 2; 3].
Definition ex_file : list N :=
  match write_blocks [BStreaminfo ex_si; BPadding 20] with Ok m => m ++ ex_audio | _ => [] end.
Definition ex_add (data : list N) (bl : U.blocklist block) : res (U.blocklist block) :=
  Ok (U.Build_blocklist block (U.bl_si block bl)
        (U.OOther U.KApplication (BApplication (mkApp 1 data)) :: U.bl_blocks block bl)).

(* 4 + 4 + 3 bytes more: the padding shrinks from 20 to 9, in place *)
Example C10_real_codec_example_inplace :
  U.update block psize_r ser_r uclass_r (read_blocks_r utf8_valid_std) (ex_add [1; 2; 3]) ex_file =
  (match write_blocks [BStreaminfo ex_si; BApplication (mkApp 1 [1; 2; 3]); BPadding 9] with
   | Ok m => m ++ ex_audio | _ => [] end, Ok false).
Proof. vm_compute. reflexivity. Qed.

(* 4 + 4 + 30 bytes more than the padding holds: rebuilt *)
Example C10_real_codec_example_rebuilt :
  U.update block psize_r ser_r uclass_r (read_blocks_r utf8_valid_std) (ex_add (repeat 7 30)) ex_file =
  (match write_blocks [BStreaminfo ex_si; BApplication (mkApp 1 (repeat 7 30)); BPadding 20] with
   | Ok m => m ++ ex_audio | _ => [] end, Ok true).
Proof. vm_compute. reflexivity. Qed.

Example C10_real_codec_example_hypotheses : forall data, Forall byte data ->
  typed_edit utf8_valid_std (ex_add data) /\ U.keeps_streaminfo block (ex_add data) /\
  Forall byte ex_file /\ exists bl, read_blocks_r utf8_valid_std ex_file = Ok (bl, ex_audio).
Proof.
  intros data Hd. split; [|split; [|split]].
  - intros bl bl1 (Sh & T & C) E. unfold ex_add in E. inversion E; subst bl1; clear E.
    destruct Sh as [Hsi Sh]. unfold of_upd in *. cbn [U.bl_si U.bl_blocks map of_oblock] in *.
    inversion T as [|? ? Tsi Tr]; inversion C as [|? ? Csi Cr]; subst.
    split; [split; [exact Hsi|constructor; [reflexivity|exact Sh]]|].
    split; constructor; auto; constructor; auto.
    + cbn [ty_block]. split; [cbn; lia|exact Hd].
    + exact I.
  - intros bl bl1 E. unfold ex_add in E. inversion E; reflexivity.
  - vm_compute. repeat constructor.
  - eexists. vm_compute. reflexivity.
Qed.

Print Assumptions C10_real_codec_no_panic.
Print Assumptions C10_real_codec_writer_no_panic.
Print Assumptions C10_real_codec_hypotheses.
Print Assumptions C10_readers_agree.
Print Assumptions C10_real_codec_inplace.
Print Assumptions C10_real_codec_rebuilt.
Print Assumptions C10_real_codec_history.
Print Assumptions C10_real_codec_same_decoding.
Print Assumptions C10_real_codec_example_inplace.
Print Assumptions C10_real_codec_example_rebuilt.
Print Assumptions C10_real_codec_example_hypotheses.
