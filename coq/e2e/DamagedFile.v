(* E2E/DamagedFile.v — C05 / C07 composed for damaged files: whenever the stream decoder model (codec area) decodes
   some frames of a file and then FAILS on the next one (any error: checksum, bad header, truncated frame ...),
   the frames decoded so far are well-formed blocks, and the readers area's front-end models, run on the abstract
   stream "those blocks, then a frame that fails" (whatever the failed decode left in the frame buffer, whatever
   follows), hand out — up to and including the first call that reports an error — exactly a gap-free prefix of the
   samples the decoder model had decoded, never anything else, without panicking, and report the failure only when
   all of them have been handed out or buffered (readers area: Damaged.v).  So for EVERY byte string: what any
   history of the sample / byte / channel reader delivers before it reports an error is a prefix of what
   dec_stream delivers before its error. *)
From Coq Require Import List NArith ZArith Lia.
From FlacBase Require Import Res Bits.
From FlacCodec Require Ast Stream Dec DecLengths Enc Enc_proofs.
From FlacReaders Require Ser Readers Seek Spec Damaged Props_Damaged.
From FlacE2E Require Import ReadBridge DecodedFile.
Import ListNotations.
Open Scope N_scope.

Module RD := FlacReaders.Damaged.

(* every block the stream decoder model hands out before ANY end (clean, error) is well formed *)
Lemma dec_blocks_good si : 1 <= A.si_channels si -> forall fuel cur bytes acc blocks en,
  dec_blocks fuel si cur bytes acc = (blocks, en) ->
  exists new, blocks = rev acc ++ new /\ Forall (good_block (A.si_channels si)) new.
Proof.
  intros Hch. induction fuel as [|f IH]; intros cur bytes acc blocks en H; cbn [dec_blocks] in H.
  - injection H as <- _. exists []. rewrite app_nil_r. split; [reflexivity|constructor].
  - destruct (CS.read_frame si cur bytes) as [[[[chans cur'] rest]|]| |] eqn:Er.
    + destruct (IH cur' rest (chans :: acc) blocks en H) as (new' & Eb & Gn).
      exists (chans :: new'). cbn [rev] in Eb. rewrite <- app_assoc in Eb. split; [exact Eb|].
      constructor; [|exact Gn].
      assert (Hshape : exists h chk, FlacCodec.Dec.dec_frame (Some si) chk bytes = Ok (h, chans, rest)).
      { unfold CS.read_frame in Er. destruct (A.si_total si =? 0).
        - destruct bytes as [|b0 bt]; [discriminate|].
          destruct (FlacCodec.Dec.dec_frame (Some si) (fun _ => Ok tt) (b0 :: bt)) as [[[h ch'] r']| |] eqn:Ed; try discriminate.
          cbn [bind] in Er. injection Er as <- <- <-. eauto.
        - destruct (A.si_total si <? cur); [discriminate|]. cbv zeta in Er.
          destruct ((Z.of_N (A.si_total si) - Z.of_N cur =? 0)%Z); [discriminate|].
          match type of Er with bind (FlacCodec.Dec.dec_frame _ ?c _) _ = _ => set (chk := c) in * end.
          destruct (FlacCodec.Dec.dec_frame (Some si) chk bytes) as [[[h ch'] r']| |] eqn:Ed; try discriminate.
          cbn [bind] in Er. injection Er as <- <- <-. eauto. }
      destruct Hshape as (h & chk & Hd).
      destruct (FlacCodec.DecLengths.dec_frame_shape si chk bytes h chans rest Hd) as (Lc & Fc & B1 & B2 & _).
      split; [exact Lc|exists (A.h_bs h); split; [lia|exact Fc]].
    + injection H as <- _. exists []. rewrite app_nil_r. split; [reflexivity|constructor].
    + injection H as <- _. exists []. rewrite app_nil_r. split; [reflexivity|constructor].
    + injection H as <- _. exists []. rewrite app_nil_r. split; [reflexivity|constructor].
Qed.

Lemma sdata_good ch blocks : 1 <= ch -> Forall (good_block ch) blocks ->
  RS.sdata (map R.SFrame blocks) = concat (map CS.interleave_frame blocks).
Proof.
  intros Hc G. unfold RS.sdata. rewrite slot_frames. f_equal. apply map_ext_in. intros b Hb.
  rewrite Forall_forall in G. destruct (good_block_wf ch b Hc (G b Hb)) as (_ & _ & _ & n & Hne & Hf).
  eapply interleave_frame_agree; eauto.
Qed.

(* the stream decoder model fails after `frames`; the sample reader model over "those blocks, then a failing frame" *)
Theorem damaged_file_is_read : forall file si frames err,
  CS.dec_stream file = Some (si, frames, CS.EndErr err) -> 1 <= A.si_channels si ->
  exists blocks, frames = map CS.interleave_frame blocks /\
    forall (F : R.file) g rest ops,
      R.f_slots F = map R.SFrame blocks ++ R.SBad g :: rest -> R.f_channels F = A.si_channels si ->
      RS.sumlen (map R.SFrame blocks) < FlacReaders.RNum.U64 ->
      RS.no_sseek ops -> Forall RD.s_consume_ok (snd (FlacReaders.Seek.sample_run F ops)) ->
      forall pre x post, snd (FlacReaders.Seek.sample_run F ops) = pre ++ x :: post ->
        Forall (fun y => RD.failed (snd y) = false) pre ->
        RS.prefix (RD.s_delivered pre ++ RD.s_shown x) (concat frames) /\
        (forall p, snd x <> R.OPanic p) /\
        (snd x = R.OErr ECrc16 -> RD.s_delivered pre ++ R.sr_buf (fst (fst x)) = concat frames).
Proof.
  intros file si frames err Hd Hch.
  unfold CS.dec_stream in Hd. destruct (CS.read_metadata_min file) as [[si' audio]|]; [|discriminate].
  pose proof (dec_frames_of_blocks (S (length audio)) si' 0 audio []) as Hfb. cbn [map] in Hfb.
  destruct (CS.dec_frames (S (length audio)) si' 0 audio []) as [fr en] eqn:Ef. injection Hd as -> -> ->.
  destruct (dec_blocks (S (length audio)) si 0 audio []) as [blocks en'] eqn:Eb. cbn [fst snd] in Hfb. injection Hfb as Efr Een.
  destruct (dec_blocks_good si Hch _ _ _ _ _ _ Eb) as (new & Enew & Gn). cbn [rev app] in Enew. subst new.
  exists blocks. split; [exact Efr|].
  intros F g rest ops Hs Hc Hr Hno Hcs pre x post Htr Hpre.
  assert (Hw : Forall (RS.wf_frame (R.f_channels F)) blocks).
  { rewrite Hc. eapply Forall_impl; [|exact Gn]. intros b Gb. apply (good_block_wf _ _ Hch Gb). }
  rewrite Efr, <- (sdata_good _ _ Hch Gn).
  exact (FlacReaders.Props_Damaged.C07_damaged_sample_reader F blocks g rest ops Hs Hw Hr Hno Hcs pre x post Htr Hpre).
Qed.

(* the byte reader (either byte order) and the channel reader (any channel) over the same damaged stream *)
Theorem damaged_file_is_read_bytes_channels : forall file si frames err,
  CS.dec_stream file = Some (si, frames, CS.EndErr err) -> 1 <= A.si_channels si ->
  exists blocks, frames = map CS.interleave_frame blocks /\
    (forall (F : R.file) g rest ops,
      R.f_slots F = map R.SFrame blocks ++ R.SBad g :: rest -> R.f_channels F = A.si_channels si ->
      RS.sumlen (map R.SFrame blocks) < FlacReaders.RNum.U64 ->
      1 <= Ser.bytes_per_sample (R.f_bps F) <= 4 ->
      RS.no_bseek ops -> Forall RD.b_consume_ok (snd (FlacReaders.Seek.byte_run F ops)) ->
      forall pre x post, snd (FlacReaders.Seek.byte_run F ops) = pre ++ x :: post ->
        Forall (fun y => RD.failed (snd y) = false) pre ->
        RS.prefix (RD.b_delivered pre ++ RD.b_shown x)
                  (Ser.ser (R.f_endian F) (Ser.bytes_per_sample (R.f_bps F)) (concat frames)) /\
        (forall p, snd x <> R.OPanic p) /\
        (snd x = R.OErr ECrc16 ->
           RD.b_delivered pre ++ R.br_buf (fst (fst x)) =
           Ser.ser (R.f_endian F) (Ser.bytes_per_sample (R.f_bps F)) (concat frames))) /\
    (forall (F : R.file) g rest c ops,
      R.f_slots F = map R.SFrame blocks ++ R.SBad g :: rest -> R.f_channels F = A.si_channels si ->
      RS.sumlen (map R.SFrame blocks) < FlacReaders.RNum.U64 ->
      (c < N.to_nat (A.si_channels si))%nat -> R.f_rev F = R.Repaired ->
      RS.no_cseek ops -> Forall RD.c_consume_ok (snd (FlacReaders.Seek.chan_run F ops)) ->
      forall pre x post, snd (FlacReaders.Seek.chan_run F ops) = pre ++ x :: post ->
        Forall (fun y => RD.failed (snd y) = false) pre ->
        RS.prefix (RD.c_delivered c pre ++ RD.c_shown c x) (concat (map (fun b => nth c b []) blocks)) /\
        (forall p, snd x <> R.OPanic p) /\
        (snd x = R.OErr ECrc16 ->
           RD.c_delivered c pre ++ RD.c_view c (fst (fst x)) = concat (map (fun b => nth c b []) blocks))).
Proof.
  intros file si frames err Hd Hch.
  unfold CS.dec_stream in Hd. destruct (CS.read_metadata_min file) as [[si' audio]|]; [|discriminate].
  pose proof (dec_frames_of_blocks (S (length audio)) si' 0 audio []) as Hfb. cbn [map] in Hfb.
  destruct (CS.dec_frames (S (length audio)) si' 0 audio []) as [fr en] eqn:Ef. injection Hd as -> -> ->.
  destruct (dec_blocks (S (length audio)) si 0 audio []) as [blocks en'] eqn:Eb. cbn [fst snd] in Hfb. injection Hfb as Efr Een.
  destruct (dec_blocks_good si Hch _ _ _ _ _ _ Eb) as (new & Enew & Gn). cbn [rev app] in Enew. subst new.
  exists blocks. split; [exact Efr|].
  assert (Hw : forall F : R.file, R.f_channels F = A.si_channels si -> Forall (RS.wf_frame (R.f_channels F)) blocks).
  { intros F Hc. rewrite Hc. eapply Forall_impl; [|exact Gn]. intros b Gb. apply (good_block_wf _ _ Hch Gb). }
  split.
  - intros F g rest ops Hs Hc Hr Hwd Hno Hcs pre x post Htr Hpre.
    rewrite Efr, <- (sdata_good _ _ Hch Gn).
    exact (FlacReaders.Props_Damaged.C07_damaged_byte_reader F blocks g rest ops Hs (Hw F Hc) Hr Hwd Hno Hcs pre x post Htr Hpre).
  - intros F g rest c ops Hs Hc Hr Hcc Hrev Hno Hcs pre x post Htr Hpre.
    assert (Ec : RS.cdata c (map R.SFrame blocks) = concat (map (fun b => nth c b []) blocks)).
    { unfold RS.cdata. rewrite slot_frames. reflexivity. }
    rewrite <- Ec. rewrite <- Hc in Hcc.
    exact (FlacReaders.Props_Damaged.C07_damaged_channel_reader F blocks g rest c ops Hs (Hw F Hc) Hr Hcc Hrev Hno Hcs pre x post Htr Hpre).
Qed.
