(* e2eupd/WrittenEdited.v — C01 and C10 composed: a file written by the FlacSampleWriter model (writers area,
   block encoder = the codec area's encoder model), then put through ANY history of typed,
   STREAMINFO-preserving metadata edits by `update` (updateio area, run with the metadata area's reader and
   writer), still decodes — stream decoder model of the codec area — to exactly the samples written, and its
   frames are the same bytes at the end of the file.  Five areas meet here: writers, codec, metadata,
   updateio (and, for the typed view of the written metadata, e2emeta). *)
From FlacBase Require Import Res Bits.
From FlacMeta Require Import Bytes Bytes_proofs Blocks BlockList Blocks_proofs Blocks_level BlockList_proofs.
From FlacUpdIo Require GenUpd Update Update_proofs Update_cond.
From FlacCodec Require Ast Stream Spec Wf.
From FlacWriters Require Import Params Params_proofs Finalize Writers Encoder_proofs C09_proofs.
From FlacE2E Require Bridge E2E Success.
From FlacE2EMeta Require Import MetaBridge FinishedBlocks.
From FlacE2EUpd Require Import RealCodec CodecView UpdateE2E.
Open Scope N_scope.

Theorem written_then_edited : forall (u : list N -> bool),
  (forall s, Forall (fun b => b < 128) s -> u s = true) ->
  forall o L md5, (forall l, length (md5 l) = 16%nat) -> (forall l, Forall (fun b => b < 256) (md5 l)) ->
  forall p rate bps ch, rate < 2 ^ 20 -> 1 <= bps -> bps <= 32 -> 1 <= ch -> ch <= 8 ->
  forall wo total w chunks,
  options_wf wo -> Forall plain (o_metadata wo) -> seektables (o_metadata wo) = 0%nat ->
  sample_new p [] wo rate bps ch total = Ok w ->
  forallb (FlacCodec.Wf.fits bps) (concat chunks) = true ->
  let W := N.of_nat (length (concat chunks)) / ch in
  1 <= W -> N.of_nat (length (concat chunks)) < 2 ^ 36 ->
  match total with Some T => T = ch * W | None => True end ->
  exists f blocks,
    sample_run (FlacE2E.E2E.encB o L rate bps) md5 p w chunks = Ok f /\
    concat (map FlacCodec.Stream.interleave_frame blocks) =
      firstn (N.to_nat ch * (length (concat chunks) / N.to_nat ch)) (concat chunks) /\
    forall edits fn rs,
      Forall (typed_edit u) edits -> Forall (U.keeps_streaminfo FlacMeta.Blocks.block) edits ->
      U.run_edits FlacMeta.Blocks.block psize_r ser_r uclass_r (read_blocks_r u) edits (f_stream f) = (fn, rs) ->
      FlacCodec.Stream.dec_stream fn =
        Some (FlacE2E.Bridge.conv_si (f_si f), map FlacCodec.Stream.interleave_frame blocks, FlacCodec.Stream.EndEof) /\
      FlacCodec.Spec.spec_stream fn = FlacCodec.Spec.spec_stream (f_stream f) /\
      exists meta_n, fn = meta_n ++ frames_bytes (f_enc f).
Proof.
  intros u Hu o L md5 Hmd5 Hmd5b p rate bps ch Hrate Hb1 Hb32 Hc1 Hc8 wo total w chunks Hwf Hpl Hs0 Hnew Hfits W HW Hlen Htot.
  destruct (FlacE2E.Success.sample_run_succeeds o L md5 Hmd5 p rate bps ch Hrate Hb1 Hb32 Hc1 Hc8 wo total w chunks
              Hwf Hnew Hfits HW Hlen Htot) as (f & Hrun & Hfit).
  destruct (FlacE2E.Success.sample_writer_lossless o L md5 Hmd5 p rate bps wo ch total w chunks Hwf Hnew Hfits HW Hlen Htot)
    as (f' & blocks & Hrun' & Hdec & Hcat).
  assert (Ef : f' = f) by (rewrite Hrun in Hrun'; inversion Hrun'; reflexivity). subst f'.
  exists f, blocks. split; [exact Hrun|]. split; [exact Hcat|].
  intros edits fn rs K KS Hre.
  destruct (sample_writer_file_typed (FlacE2E.E2E.encB o L rate bps) md5 Hmd5 Hmd5b p u wo rate bps ch total w chunks f
              Hwf Hpl Hs0 Hnew Hrun Hfit) as (meta' & Hs & Hw & T & C).
  pose proof (file_ok_written u Hu _ _ meta' (frames_bytes (f_enc f)) T C Hw) as I0. rewrite <- Hs in I0.
  pose proof (run_edits_file_ok u Hu edits K KS _ _ _ fn rs I0 Hre) as [(mn & bn & -> & _) Mn].
  destruct I0 as [_ M0].
  assert (Ed : FlacCodec.Stream.dec_stream (mn ++ frames_bytes (f_enc f)) = FlacCodec.Stream.dec_stream (f_stream f)).
  { unfold FlacCodec.Stream.dec_stream. rewrite Mn, M0. reflexivity. }
  split; [rewrite Ed; exact Hdec|]. split; [|exists mn; reflexivity].
  unfold FlacCodec.Spec.spec_stream. rewrite Mn, M0. reflexivity.
Qed.
