(* Codec/Roundtrip_hdr.v — frame header: FrameHeader::parse inverts FrameHeader::build. *)
From FlacCodec Require Import Parser_proofs Wf Roundtrip_sub.
Open Scope N_scope.

Lemma pow6_succ k : 2 ^ (6 * N.of_nat (S k)) = 64 * 2 ^ (6 * N.of_nat k).
Proof. rewrite Nat2N.inj_succ. replace (6 * N.succ (N.of_nat k)) with (6 + 6 * N.of_nat k) by lia.
  rewrite N.pow_add_r. reflexivity. Qed.

Lemma encodes_number_cont v : forall k acc,
  encodes (p_number_cont k acc) (cont_bytes v k) (acc * 2 ^ (6 * N.of_nat k) + v mod 2 ^ (6 * N.of_nat k)).
Proof.
  induction k as [|k IH]; intros acc.
  - cbn [p_number_cont cont_bytes]. apply encodes_val with (x := acc); [|apply encodes_ret].
    cbn. rewrite N.mod_1_r. lia.
  - cbn [p_number_cont cont_bytes]. unfold cont_byte. rewrite <- !app_assoc.
    assert (Hp : 2 ^ (6 * N.of_nat k) <> 0) by (apply N.pow_nonzero; discriminate).
    eapply encodes_bind; [apply encodes_rd; reflexivity|].
    eapply encodes_bind_nil; [apply encodes_guard; reflexivity|].
    eapply encodes_bind. { apply encodes_rd. change (2 ^ N.of_nat 6) with 64. apply N.mod_upper_bound. discriminate. }
    eapply encodes_val; [|apply IH].
    rewrite pow6_succ. rewrite (N.mul_comm 64 (2 ^ _)), N.mod_mul_r by (try exact Hp; discriminate).
    lia.
Qed.

Lemma number_roundtrip_multi v n : (2 <= n <= 7)%nat -> v < 2 ^ (N.of_nat (7 - n) + 6 * N.of_nat (n - 1)) ->
  encodes p_frame_number
    (wr_unary false n ++ wr (7 - n) (v / 2 ^ (6 * N.of_nat (n - 1))) ++ cont_bytes v (n - 1)) v.
Proof.
  intros Hn Hv. unfold p_frame_number.
  assert (Hp : 2 ^ (6 * N.of_nat (n - 1)) <> 0) by (apply N.pow_nonzero; discriminate).
  eapply encodes_bind; [apply encodes_unary|].
  assert (N.of_nat n =? 0 = false) as -> by (apply N.eqb_neq; lia).
  assert ((N.of_nat n =? 1) || (7 <? N.of_nat n) = false) as ->.
  { apply orb_false_intro; [apply N.eqb_neq; lia|apply N.ltb_ge; lia]. }
  rewrite Nat2N.id.
  eapply encodes_bind.
  { apply encodes_rd. apply N.div_lt_upper_bound; [exact Hp|].
    rewrite <- N.pow_add_r. rewrite N.add_comm. exact Hv. }
  eapply encodes_val; [|apply encodes_number_cont].
  rewrite (N.mul_comm (v / _)). symmetry. apply N.div_mod. exact Hp.
Qed.

Lemma number_roundtrip v nb : write_number v = Some nb -> encodes p_frame_number nb v.
Proof.
  unfold write_number, MAX_FRAME_NUMBER. destruct (N.ltb_spec (2 ^ 36 - 1) v) as [|Hmax]; [discriminate|].
  change (2 ^ 36 - 1) with 68719476735 in Hmax.
  unfold number_len.
  destruct (N.ltb_spec v 128) as [H1|H1].
  { cbn [Nat.eqb]. intros E. injection E as <-. unfold p_frame_number.
    apply (encodes_bind (p_unary false) _ (wr_unary false 0) (wr 7 v) (N.of_nat 0) v); [apply encodes_unary|].
    cbn [N.of_nat N.eqb]. apply encodes_rd. exact H1. }
  destruct (N.ltb_spec v 2048) as [H2|H2].
  { cbn [Nat.eqb]. intros E. injection E as <-. apply (number_roundtrip_multi v 2); [lia|exact H2]. }
  destruct (N.ltb_spec v 65536) as [H3|H3].
  { cbn [Nat.eqb]. intros E. injection E as <-. apply (number_roundtrip_multi v 3); [lia|exact H3]. }
  destruct (N.ltb_spec v 2097152) as [H4|H4].
  { cbn [Nat.eqb]. intros E. injection E as <-. apply (number_roundtrip_multi v 4); [lia|exact H4]. }
  destruct (N.ltb_spec v 67108864) as [H5|H5].
  { cbn [Nat.eqb]. intros E. injection E as <-. apply (number_roundtrip_multi v 5); [lia|exact H5]. }
  destruct (N.ltb_spec v 2147483648) as [H6|H6].
  { cbn [Nat.eqb]. intros E. injection E as <-. apply (number_roundtrip_multi v 6); [lia|exact H6]. }
  cbn [Nat.eqb]. intros E. injection E as <-. apply (number_roundtrip_multi v 7); [lia|].
  change (2 ^ (N.of_nat (7 - 7) + 6 * N.of_nat (7 - 1))) with 68719476736. lia.
Qed.

Lemma number_bits_length v nb : write_number v = Some nb -> (length nb mod 8 = 0)%nat.
Proof.
  unfold write_number. destruct (MAX_FRAME_NUMBER <? v); [discriminate|].
  assert (Hc : forall k, length (cont_bytes v k) = (8 * k)%nat).
  { induction k; cbn [cont_bytes]; auto. unfold cont_byte. rewrite !app_length, !wr_length, IHk. lia. }
  unfold number_len.
  repeat match goal with |- context [if ?c then _ else _] => destruct c end;
    intros E; inversion E; subst; unfold wr_unary; rewrite ?app_length, ?repeat_length, ?wr_length, ?Hc; reflexivity.
Qed.

Local Opaque wr wr_unary cont_bytes.

Lemma andb_split a b : a && b = true -> a = true /\ b = true.
Proof. apply andb_prop. Qed.

Ltac step := cbv beta; rewrite <- ?app_assoc; match goal with |- encodes (pbind _ _) (?a ++ ?b) _ => eapply (encodes_bind _ _ a b) end.
Ltac stepx v := cbv beta; rewrite <- ?app_assoc; match goal with |- encodes (pbind _ _) (?a ++ ?b) _ => eapply (encodes_bind _ _ a b v) end.

Theorem header_roundtrip si h hb c8 :
  wf_header si h = true -> write_header_fields h = Some hb -> c8 < 256 ->
  encodes (parse_header_fields si) (hb ++ wr 8 c8) h.
Proof.
  unfold wf_header, write_header_fields. intros Hwf Hw Hc.
  destruct (write_number (h_number h)) as [nb|] eqn:En; [|discriminate]. injection Hw as <-.
  apply andb_split in Hwf. destruct Hwf as [Hwf Hnum].
  apply andb_split in Hwf. destruct Hwf as [Hwf Hbps].
  apply andb_split in Hwf. destruct Hwf as [Hwf Hassign].
  apply andb_split in Hwf. destruct Hwf as [Hwf Hrate].
  apply andb_split in Hwf. destruct Hwf as [Hwf Hbs].
  apply andb_split in Hwf. destruct Hwf as [Hwf Hb3]. apply N.ltb_lt in Hb3.
  apply andb_split in Hwf. destruct Hwf as [Hb1 Hb2]. apply N.ltb_lt in Hb1. apply N.ltb_lt in Hb2.
  apply N.ltb_lt in Hassign.
  destruct h as [variable bs_code bs rate_code rate assign bps_code bps number].
  cbn [h_variable h_bs_code h_bs h_rate_code h_rate h_assign h_bps_code h_bps h_number] in *.
  unfold parse_header_fields. repeat (rewrite <- app_assoc || rewrite <- app_comm_cons).
  step; [apply encodes_rd; reflexivity|].
  eapply encodes_bind_nil; [apply encodes_guard; reflexivity|].
  apply encodes_bit_cons.
  step; [apply encodes_rd; exact Hb1|].
  assert (Hbs0 : negb (bs_code =? 0) = true).
  { destruct (N.eqb_spec bs_code 0) as [->|]; [|reflexivity]. cbn in Hbs. discriminate. }
  eapply encodes_bind_nil; [apply encodes_guard; exact Hbs0|].
  step; [apply encodes_rd; exact Hb2|].
  assert (Hr0 : negb ((rate_code =? 0) && match si with None => true | Some _ => false end) = true).
  { destruct (N.eqb_spec rate_code 0) as [->|]; [|reflexivity]. cbn in Hrate. destruct si; [reflexivity|discriminate]. }
  eapply encodes_bind_nil; [apply encodes_guard; exact Hr0|].
  assert (Hr15 : negb (rate_code =? 15) = true).
  { destruct (N.eqb_spec rate_code 15) as [->|]; [|reflexivity]. cbn in Hrate. discriminate. }
  eapply encodes_bind_nil; [apply encodes_guard; exact Hr15|].
  step; [apply encodes_rd; change (2 ^ N.of_nat 4) with 16; lia|].
  eapply encodes_bind_nil; [apply encodes_guard; apply N.ltb_lt; exact Hassign|].
  step; [apply encodes_rd; exact Hb3|].
  assert (Hp0 : negb ((bps_code =? 0) && match si with None => true | Some _ => false end) = true).
  { destruct (N.eqb_spec bps_code 0) as [->|]; [|reflexivity]. cbn in Hbps. destruct si; [reflexivity|discriminate]. }
  eapply encodes_bind_nil; [apply encodes_guard; exact Hp0|].
  assert (Hp3 : negb (bps_code =? 3) = true).
  { destruct (N.eqb_spec bps_code 3) as [->|]; [|reflexivity]. cbn in Hbps. discriminate. }
  eapply encodes_bind_nil; [apply encodes_guard; exact Hp3|].
  apply encodes_rd1_false_cons.
  step; [apply number_roundtrip; exact En|].
  (* block size value *)
  stepx bs.
  { destruct (bs_of_code bs_code) as [v|] eqn:Eb.
    - apply N.eqb_eq in Hbs. subst v.
      assert (bs_code =? 6 = false) as -> by (destruct (N.eqb_spec bs_code 6) as [->|]; [discriminate|reflexivity]).
      assert (bs_code =? 7 = false) as -> by (destruct (N.eqb_spec bs_code 7) as [->|]; [discriminate|reflexivity]).
      apply encodes_ret.
    - destruct (N.eqb_spec bs_code 6) as [E6|N6].
      + apply andb_split in Hbs. destruct Hbs as [L1 L2]. apply N.leb_le in L1. apply N.leb_le in L2.
        rewrite <- (app_nil_r (wr 8 _)). step.
        { apply encodes_rd. change (2 ^ N.of_nat 8) with 256. lia. }
        apply encodes_val with (x := bs - 1 + 1); [lia|apply encodes_ret].
      + destruct (N.eqb_spec bs_code 7) as [E7|N7]; [|discriminate].
        apply andb_split in Hbs. destruct Hbs as [L1 L2]. apply N.leb_le in L1. apply N.leb_le in L2.
        rewrite <- (app_nil_r (wr 16 _)). step.
        { apply encodes_rd. change (2 ^ N.of_nat 16) with 65536. lia. }
        eapply encodes_bind_nil.
        { apply encodes_guard. destruct (N.eqb_spec (bs - 1) 65535); [lia|reflexivity]. }
        apply encodes_val with (x := bs - 1 + 1); [lia|apply encodes_ret]. }
  (* sample rate value *)
  stepx rate.
  { destruct (rate_of_code rate_code) as [v|] eqn:Er.
    - apply N.eqb_eq in Hrate. subst v.
      assert (rate_code =? 12 = false) as -> by (destruct (N.eqb_spec rate_code 12) as [->|]; [discriminate|reflexivity]).
      assert (rate_code =? 13 = false) as -> by (destruct (N.eqb_spec rate_code 13) as [->|]; [discriminate|reflexivity]).
      assert (rate_code =? 14 = false) as -> by (destruct (N.eqb_spec rate_code 14) as [->|]; [discriminate|reflexivity]).
      apply encodes_ret.
    - destruct (N.eqb_spec rate_code 0) as [E0|N0].
      + subst rate_code. cbn [N.eqb]. destruct si as [i|]; [|discriminate].
        apply N.eqb_eq in Hrate. subst rate. apply encodes_ret.
      + destruct (N.eqb_spec rate_code 12) as [E12|N12].
        * apply andb_split in Hrate. destruct Hrate as [M1 M2]. apply N.eqb_eq in M1. apply N.ltb_lt in M2.
          rewrite <- (app_nil_r (wr 8 _)). step; [apply encodes_rd; exact M2|].
          apply encodes_val with (x := rate / 1000 * 1000); [|apply encodes_ret].
          pose proof (N.div_mod rate 1000 ltac:(discriminate)). lia.
        * destruct (N.eqb_spec rate_code 13) as [E13|N13].
          { apply N.ltb_lt in Hrate. apply encodes_rd. exact Hrate. }
          destruct (N.eqb_spec rate_code 14) as [E14|N14]; [|discriminate].
          apply andb_split in Hrate. destruct Hrate as [M1 M2]. apply N.eqb_eq in M1. apply N.ltb_lt in M2.
          rewrite <- (app_nil_r (wr 16 _)). step; [apply encodes_rd; exact M2|].
          apply encodes_val with (x := rate / 10 * 10); [|apply encodes_ret].
          pose proof (N.div_mod rate 10 ltac:(discriminate)). lia. }
  rewrite <- (app_nil_r (wr 8 c8)). step; [apply encodes_rd; exact Hc|].
  apply encodes_val with (x := {| h_variable := variable; h_bs_code := bs_code; h_bs := bs; h_rate_code := rate_code;
       h_rate := rate; h_assign := assign; h_bps_code := bps_code;
       h_bps := match bps_of_code bps_code with Some v => v
                | None => match si with Some i => si_bps i | None => 0 end end; h_number := number |});
    [|apply encodes_ret].
  f_equal. destruct (bps_of_code bps_code) as [v|].
  - apply N.eqb_eq in Hbps. auto.
  - destruct (N.eqb_spec bps_code 0); [|discriminate]. destruct si; [|discriminate]. apply N.eqb_eq in Hbps. auto.
Qed.
