(* C07 — readers deliver the stream exactly once, in order, however it is consumed.
   Full statements; proofs in Main_proofs.v (reader refinement) and Cursor_proofs.v (histories). *)
From FlacReaders Require Import Spec Lists_proofs Ser_proofs Deint_proofs Chan_proofs Main_proofs Examples.
Open Scope N_scope.

(* Byte reader (either byte order): for every valid file and every seek-free history over
   {read n, fill_buf, consume k <= available}: every call obeys the cursor contract over
   pcm_bytes = Ser(pcm) (so no call errs or panics), calls are chained from position 0, and the
   history delivers pcm_bytes exactly once with end of stream signalled for ever after. *)
Theorem C07_byte_reader : forall F, valid_file F -> forall ops,
  no_bseek ops -> Forall bop_ok (snd (byte_run F ops)) ->
  let atr := map (abs_b F) (snd (byte_run F ops)) in
  Forall (cur_ok (pcm_bytes F)) atr /\ chained 0 atr (bpos F (fst (byte_run F ops))) /\
  exactly_once (pcm_bytes F) atr.
Proof. exact c07_bytes. Qed.

(* Sample reader and its iterator: the same over the interleaved PCM, incl. `next`. *)
Theorem C07_sample_reader : forall F, valid_file F -> forall ops,
  no_sseek ops -> Forall sop_ok (snd (sample_run F ops)) ->
  let atr := map (abs_s F) (snd (sample_run F ops)) in
  Forall (cur_ok (pcm F)) atr /\ chained 0 atr (spos F (fst (sample_run F ops))) /\
  exactly_once (pcm F) atr.
Proof. exact c07_samples. Qed.

(* Channel reader: for every channel c the same over that channel's samples; every fill_buf answer
   has one slice per channel, all of the same length. *)
Theorem C07_channel_reader : forall F, valid_file F -> forall ops c,
  (c < N.to_nat (f_channels F))%nat ->
  no_cseek ops -> Forall cop_ok (snd (chan_run F ops)) ->
  let atr := map (abs_c F c) (snd (chan_run F ops)) in
  Forall (cur_ok (chan_pcm F c)) atr /\ chained 0 atr (cpos (fst (chan_run F ops))) /\
  exactly_once (chan_pcm F c) atr /\ Forall (chan_shape F) (snd (chan_run F ops)).
Proof. exact c07_channels. Qed.

(* The byte stream is the serialised sample stream. *)
Theorem C07_bytes_vs_samples : forall F,
  pcm_bytes F = ser (f_endian F) (bytes_per_sample (f_bps F)) (pcm F).
Proof. reflexivity. Qed.

(* ... and Ser (Frame::to_buf with byteorder.rs, incl. the hand-written 24-bit routines) is the
   two's-complement encoding, least significant byte first / reversed for big-endian, of every
   sample that fits the stream's bits-per-sample (1..32), at the width bits.div_ceil(8). *)
Theorem C07_ser_twos_complement : forall e bps xs,
  1 <= bps <= 32 -> Forall (fits (Z.of_N bps)) xs ->
  ser e (bytes_per_sample bps) xs = concat (map (twos_complement e (bytes_per_sample bps)) xs).
Proof. exact ser_twos_complement. Qed.

(* The channel reader's stream for channel c is the de-interleaved sample stream: sample i of
   channel c is interleaved sample i * channels + c. *)
Theorem C07_channels_deinterleaved : forall F c, valid_file F -> (c < N.to_nat (f_channels F))%nat ->
  lenN (chan_pcm F c) = total_frames F /\ lenN (pcm F) = total_frames F * f_channels F /\
  forall i, (i < N.to_nat (total_frames F))%nat ->
    nth_error (chan_pcm F c) i = nth_error (pcm F) (i * N.to_nat (f_channels F) + c).
Proof. exact chan_pcm_deinterleaved. Qed.

(* ---- non-vacuity: a concrete valid file and a history that satisfies every hypothesis, runs to
   the end of the stream and polls past it *)
Example C07_nonvacuous :
  valid_file (ex_file Repaired) /\ no_sseek ex_sample_ops /\
  Forall sop_ok (snd (sample_run (ex_file Repaired) ex_sample_ops)) /\
  lenN (pcm (ex_file Repaired)) = 64 /\ seg 0 6 = [1; -100; 2; -99; 3; -98]%Z /\
  outs (snd (sample_run (ex_file Repaired) ex_sample_ops)) =
    [OSamples (seg 0 4); OSamples (seg 4 26); OUnit; OSamples []; OItem (Some (-86)%Z);
     OSamples (seg 30 30); OUnit; OSamples (seg 60 4); OSamples [];
     OSamples []; OItem None; OSamples []].
Proof.
  split; [exact ex_file_valid|]. split; [repeat constructor|].
  split; [forall_trace|]. repeat split; vm_compute; reflexivity.
Qed.

(* ---- the defect of the original revision (F-C07a), as a computation on the model:
   after end of stream the channel reader hands out the last frame again *)
Example C07_orig_redelivers_last_frame :
  outs (snd (chan_run (ex_file Orig) [CFill; CConsume 15; CFill; CConsume 15; CFill; CConsume 2; CFill; CFill])) =
    [OChans (cseg 0 15); OUnit; OChans (cseg 15 15); OUnit;
     OChans [[700; 8]; [-700; -8]]%Z; OUnit; OChans [[]; []]; OChans [[700; 8]; [-700; -8]]%Z] /\
  outs (snd (chan_run (ex_file Repaired) [CFill; CConsume 15; CFill; CConsume 15; CFill; CConsume 2; CFill; CFill])) =
    [OChans (cseg 0 15); OUnit; OChans (cseg 15 15); OUnit;
     OChans [[700; 8]; [-700; -8]]%Z; OUnit; OChans [[]; []]; OChans [[]; []]].
Proof. split; vm_compute; reflexivity. Qed.

(* ---- beyond C07's statement (damaged streams; C05's concern, but it is this area's code): when the
   channel reader's fill_buf reports an error, the frame that failed to decode is never handed out *)
Theorem C07_channel_error_hides_frame : forall F r e,
  f_rev F = Repaired -> snd (chan_fill_buf F r) = OErr e ->
  pcm_frames (d_buf (cr_dec (fst (chan_fill_buf F r)))) <= cr_consumed (fst (chan_fill_buf F r)).
Proof. exact chan_fill_error_hides. Qed.

(* the first frame fails its CRC-16: the original hands its samples out on the next call *)
Example C07_orig_hands_out_failed_frame :
  let damaged rev :=
    {| f_slots := [SBad [[9; 9; 9]; [7; 7; 7]]%Z; SFrame [[700; 8]; [-700; -8]]%Z]; f_channels := 2; f_bps := 16;
       f_total := None; f_table := None; f_seekable := false; f_endian := LE; f_profile := Debug;
       f_usize_bits := 64; f_rev := rev |} in
  outs (snd (chan_run (damaged Orig) [CFill; CFill])) = [OErr ECrc16; OChans [[9; 9; 9]; [7; 7; 7]]%Z] /\
  outs (snd (chan_run (damaged Repaired) [CFill; CFill; CConsume 2; CFill])) =
    [OErr ECrc16; OChans [[700; 8]; [-700; -8]]%Z; OUnit; OChans [[]; []]].
Proof. split; vm_compute; reflexivity. Qed.
