"""C03 — the decoder follows RFC 9639 on every valid stream, not just its own encoder's.

Search (harness/src/bin/c03.rs, release AND debug):
 (ii) a structure-aware generator builds stream::Frame values for every syntactic alternative
      chosen independently (variable-blocksize numbering, every block-size / sample-rate coding,
      STREAMINFO-referenced depths 1..32 and rates, escaped and zero-width partitions, 5-bit Rice
      parameters at any depth, LPC order 1..32 with 1..15-bit coefficients and shifts 0..15, wasted
      bits incl. on side channels, all four channel assignments incl. the 33-bit side channel,
      partition orders up to the block's limit) from arbitrary target PCM, computing warm-up and
      residuals with i128 arithmetic; the bytes come from Frame::write (own emitter when the
      crate's writer refuses a valid description) and are cross-checked by the independent decoder
      `refdec` before any reader is blamed; all reader front-ends must return the target PCM and
      parameters; verify_reader must say MD5Match iff the stored digest equals the digest of the
      little-endian sign-extended bytes (match / altered / absent).
 (i)  `c03 --stdin` is the generic runner that feeds externally generated streams (the Coq
      model's spec_write output once available: codec_common.model_streams) to the real readers;
      all readers must agree among themselves.  Until then it is exercised on a sample of the
      generator's own cases (observation must reproduce)."""
import json

from checks import codech_util as cu


def run(chk):
    from checks import codec_common

    def extra(c, by_prof):
        out = {}
        # ---- (i) the stdin runner
        binp = cu.build(chk, "c03", "release")
        if not binp:
            return out
        gen = getattr(codec_common, "model_streams", None)
        fed = []
        src = "generator-sample"
        if gen is not None:
            try:
                # quick-tier size in both tiers: in the thorough tier one generator shard of the
                # extracted model was seen running > 20 min / 5 GB (integrator informed)
                fed = gen(chk, count=90) or []
                src = "model"
            except Exception as e:  # the model side is not ours: report, fall back
                chk.notes.append("codec_common.model_streams failed: %r" % (e,))
                fed = []
        if not fed:
            rel = [x for x in c.cases if x.get("profile") == "release"]
            for i, x in enumerate([x for x in rel if x["kind"] == "dec_stream"][:25] + [x for x in rel if x["kind"] == "dec_subset"][:25]):
                d = {"id": "g%d" % i, "bytes": x["bytes"], "kind": x["kind"]}
                if "expect" in x:
                    d["expect"] = x["expect"]
                fed.append(d)
        if not fed:
            return out
        lines = cu.run_bin(chk, binp, "c03:stdin", args=["--stdin"], stdin="\n".join(json.dumps(d) for d in fed) + "\n")
        if lines is None:
            return out
        r = cu.collect(lines)
        cu.report_viols(chk, r)
        by_id = {x.get("id"): x for x in r.cases}
        bad = 0
        for d in fed:
            o = by_id.get(d["id"])
            if o is None:
                chk.broken_tie("c03-stdin-runner", "no observation for input %s" % d["id"])
                break
            if "expect" in d and d["kind"] == "dec_stream":
                if o["end"] != "eof" or o["samples"] != d["expect"]:
                    bad += 1
                    chk.violation("valid-stream-wrong-samples" if o["end"] == "eof" else "valid-stream-rejected:%s" % o["end"].replace("err:", ""),
                                  "externally generated valid stream %s (%s): readers return %d samples ending %s, expected %d samples" % (d["id"], src, len(o["samples"]), o["end"], len(d["expect"])),
                                  {"bytes": d["bytes"], "expect": d["expect"], "observed": o["samples"], "end": o["end"]})
        out["stdin_runner"] = {"source": src, "inputs": len(fed), "observations": len(r.cases), "mismatches": bad}
        if src == "model":
            n, dis = cu.model_diff(chk, "dec_stream", r.cases, "stdin")
            n2, dis2 = cu.model_diff(chk, "dec_subset", r.cases, "stdin")
            out["stdin_runner"]["model_diffed"] = n + n2
            out["stdin_runner"]["model_disagreements"] = dis + dis2
        return out

    cu.simple_check(
        chk, "C03", "c03", ["release", "debug"], kinds=["dec_stream", "dec_subset"],
        rule="one evaluation = one generated valid stream (file or raw frame stream) decoded by every reader front-end and compared with the target PCM, plus its MD5 verdicts; distinct by construction (independent random syntactic choices, see searcher.alternatives for how often each alternative was hit); non-trivial = streams that passed the independent decoder's cross-check",
        assumptions=[
            "validity of a generated stream = accepted with the target PCM by refdec (independent decoder in the harness); a stream refdec rejects is counted as a generator self-check failure and not used",
            "frames are serialised by the crate's structural writer; when it refuses a valid description (counted in searcher.struct_writer_refusals, C17's finding) the harness's own field emitter is used",
        ],
        evaluations=lambda s: cu.total(s, "files") * 6 + cu.total(s, "subset_streams") + cu.total(s, "md5_cases"),
        nontrivial=lambda s: cu.total(s, "files") + cu.total(s, "subset_streams"),
        extra=extra)
