(* Base/Crc.v — CRC-8 and CRC-16 exactly as src/crc.rs computes them (table driven),
   their bitwise polynomial definitions, and the all-lengths error-detection theorems. *)
From FlacBase Require Import Bits GenCrc.
Open Scope N_scope.

Definition byte (b : N) : Prop := b < 256.
Definition tbl (t : list N) (i : N) : N := nth (N.to_nat i) t 0.

(* crc.rs: Crc8::update  = Self(SUMTABLE[(self.0 ^ byte) as usize]) *)
Definition upd8 (c b : N) : N := tbl crc8_table (N.lxor c b).
(* crc.rs: Crc16::update = Self(SUMTABLE[((self.0 >> 8) as u8 ^ byte) as usize] ^ (self.0 << 8)), on u16 *)
Definition upd16 (c b : N) : N :=
  N.lxor (tbl crc16_table (N.lxor (N.shiftr c 8) b)) (N.land (N.shiftl c 8) 65535).

Definition crc8 (l : list N) : N := fold_left upd8 l 0.
Definition crc16 (l : list N) : N := fold_left upd16 l 0.

(* ---- bitwise (polynomial) definitions: MSB first, init 0, no reflection, no final xor ---- *)
Fixpoint poly_steps (width poly : N) (n : nat) (c : N) : N :=
  match n with
  | O => c
  | S k => let c' := N.land (N.shiftl c 1) (N.ones width) in
           poly_steps width poly k (if N.testbit c (width - 1) then N.lxor c' poly else c')
  end.
Definition poly_entry8 (i : N) : N := poly_steps 8 7 8 i.                   (* x^8+x^2+x+1 *)
Definition poly_entry16 (i : N) : N := poly_steps 16 32773 8 (N.shiftl i 8). (* x^16+x^15+x^2+1 = 0x8005 *)

Definition all256 : list N := map N.of_nat (seq 0 256).

Lemma all256_spec b : b < 256 <-> In b all256.
Proof.
  unfold all256. rewrite in_map_iff. split.
  - intros H. exists (N.to_nat b). split; [lia|]. apply in_seq. lia.
  - intros (x & <- & Hx). apply in_seq in Hx. lia.
Qed.

Lemma crc8_table_is_poly : forallb (fun i => tbl crc8_table i =? poly_entry8 i) all256 = true.
Proof. vm_compute. reflexivity. Qed.
Lemma crc16_table_is_poly : forallb (fun i => tbl crc16_table i =? poly_entry16 i) all256 = true.
Proof. vm_compute. reflexivity. Qed.
Lemma crc_tables_length : length crc8_table = 256%nat /\ length crc16_table = 256%nat.
Proof. vm_compute. auto. Qed.

(* ---- finite facts about the tables (complete sweeps) ---- *)
Definition table_linear (t : list N) : bool :=
  forallb (fun a => forallb (fun b => tbl t (N.lxor a b) =? N.lxor (tbl t a) (tbl t b)) all256) all256.
Lemma crc8_table_linear : table_linear crc8_table = true.
Proof. vm_compute. reflexivity. Qed.
Lemma crc16_table_linear : table_linear crc16_table = true.
Proof. vm_compute. reflexivity. Qed.

Lemma table_linear_spec t : table_linear t = true ->
  forall a b, a < 256 -> b < 256 -> tbl t (N.lxor a b) = N.lxor (tbl t a) (tbl t b).
Proof.
  unfold table_linear. intros H a b Ha Hb.
  rewrite forallb_forall in H. specialize (H a (proj1 (all256_spec a) Ha)).
  rewrite forallb_forall in H. specialize (H b (proj1 (all256_spec b) Hb)).
  apply N.eqb_eq in H. exact H.
Qed.

Definition table_bounded (t : list N) (m : N) : bool := forallb (fun a => tbl t a <? m) all256.
Lemma crc8_table_bounded : table_bounded crc8_table 256 = true. Proof. vm_compute. reflexivity. Qed.
Lemma crc16_table_bounded : table_bounded crc16_table 65536 = true. Proof. vm_compute. reflexivity. Qed.
Lemma table_bounded_spec t m : table_bounded t m = true -> forall a, a < 256 -> tbl t a < m.
Proof.
  unfold table_bounded. intros H a Ha. rewrite forallb_forall in H.
  specialize (H a (proj1 (all256_spec a) Ha)). apply N.ltb_lt in H. exact H.
Qed.

Definition table_injective0 (t : list N) : bool := forallb (fun a => negb (tbl t a =? 0) || (a =? 0)) all256.
Lemma crc8_table_inj0 : table_injective0 crc8_table = true. Proof. vm_compute. reflexivity. Qed.
Lemma crc16_table_inj0 : table_injective0 crc16_table = true. Proof. vm_compute. reflexivity. Qed.
Lemma table_inj0_spec t : table_injective0 t = true -> forall a, a < 256 -> tbl t a = 0 -> a = 0.
Proof.
  unfold table_injective0. intros H a Ha E. rewrite forallb_forall in H.
  specialize (H a (proj1 (all256_spec a) Ha)). rewrite E in H. cbn in H. apply N.eqb_eq in H. exact H.
Qed.

(* ---- bit-vector helpers ---- *)
Lemma lxor_lt_pow2 a b n : a < 2 ^ n -> b < 2 ^ n -> N.lxor a b < 2 ^ n.
Proof.
  intros Ha Hb.
  destruct (N.eq_dec (N.lxor a b) 0) as [E|E]. { rewrite E. apply N.neq_0_lt_0, N.pow_nonzero. lia. }
  apply N.log2_lt_pow2; [lia|].
  eapply N.le_lt_trans; [apply N.log2_lxor|].
  destruct (N.eq_dec a 0) as [-> | Ha0]; destruct (N.eq_dec b 0) as [-> | Hb0].
  - exfalso. apply E. reflexivity.
  - rewrite N.max_r by (cbn; lia). apply N.log2_lt_pow2; lia.
  - rewrite N.max_l by (cbn; lia). apply N.log2_lt_pow2; lia.
  - apply N.max_lub_lt; apply N.log2_lt_pow2; lia.
Qed.
Lemma lxor_byte a b : a < 256 -> b < 256 -> N.lxor a b < 256.
Proof. apply (lxor_lt_pow2 a b 8). Qed.

Lemma land_lxor_distr a b c : N.land (N.lxor a b) c = N.lxor (N.land a c) (N.land b c).
Proof.
  apply N.bits_inj. intro n. rewrite !N.land_spec, !N.lxor_spec, !N.land_spec.
  destruct (N.testbit a n), (N.testbit b n), (N.testbit c n); reflexivity.
Qed.
Lemma lxor_swap a b c d : N.lxor (N.lxor a b) (N.lxor c d) = N.lxor (N.lxor a c) (N.lxor b d).
Proof.
  rewrite !N.lxor_assoc. f_equal. rewrite <- !N.lxor_assoc. f_equal. apply N.lxor_comm.
Qed.
Lemma shiftr8_byte c : c < 65536 -> N.shiftr c 8 < 256.
Proof. intros H. rewrite N.shiftr_div_pow2. change (2 ^ 8) with 256. apply N.div_lt_upper_bound; lia. Qed.
Lemma land_65535_lt a : N.land a 65535 < 65536.
Proof. change 65535 with (N.ones 16). rewrite N.land_ones. apply N.mod_upper_bound. discriminate. Qed.

(* ---- generic theory of a byte-wise linear checksum ---- *)
Section Linear.
  Variable M : N.                       (* state space: c < M *)
  Variable upd : N -> N -> N.
  Hypothesis upd_lin : forall c1 c2 b1 b2, c1 < M -> c2 < M -> b1 < 256 -> b2 < 256 ->
      upd (N.lxor c1 c2) (N.lxor b1 b2) = N.lxor (upd c1 b1) (upd c2 b2).
  Hypothesis upd_closed : forall c b, c < M -> b < 256 -> upd c b < M.
  Hypothesis M_pos : 0 < M.
  Hypothesis upd_bit : forall k, k < 8 -> upd 0 (2 ^ k) <> 0.
  Hypothesis upd_zero_inj : forall c, c < M -> upd c 0 = 0 -> c = 0.

  Lemma upd_00 : upd 0 0 = 0.
  Proof.
    pose proof (upd_lin 0 0 0 0 M_pos M_pos) as H. specialize (H ltac:(reflexivity) ltac:(reflexivity)).
    rewrite N.lxor_nilpotent in H. rewrite N.lxor_nilpotent in H. exact H.
  Qed.

  Definition run (c : N) (l : list N) : N := fold_left upd l c.

  Lemma run_closed l : forall c, c < M -> Forall byte l -> run c l < M.
  Proof.
    induction l as [|b l IH]; intros c Hc Hl; cbn; auto.
    inversion Hl; subst. apply IH; auto.
  Qed.

  (* xor two messages of equal length bytewise *)
  Fixpoint xorl (a b : list N) : list N :=
    match a, b with x :: a', y :: b' => N.lxor x y :: xorl a' b' | _, _ => [] end.

  Lemma run_xor : forall a b c1 c2, length a = length b -> Forall byte a -> Forall byte b ->
    c1 < M -> c2 < M -> run (N.lxor c1 c2) (xorl a b) = N.lxor (run c1 a) (run c2 b).
  Proof.
    induction a as [|x a IH]; intros [|y b] c1 c2 L Ha Hb H1 H2; try discriminate; cbn; auto.
    inversion Ha; inversion Hb; subst. cbn in L.
    rewrite upd_lin by assumption. apply IH; auto.
  Qed.

  Lemma run_zeros n : run 0 (repeat 0 n) = 0.
  Proof. induction n; cbn; auto. rewrite upd_00. exact IHn. Qed.

  Lemma run_zeros_nonzero n : forall c, c < M -> c <> 0 -> run c (repeat 0 n) <> 0.
  Proof.
    induction n as [|n IH]; intros c Hc Hn; cbn; auto.
    apply IH. { apply upd_closed; auto. reflexivity. }
    intro E. apply Hn. apply upd_zero_inj; auto.
  Qed.

  (* the error pattern: one bit k of byte i *)
  Definition epat (len i : nat) (k : N) : list N := repeat 0 i ++ [2 ^ k] ++ repeat 0 (len - i - 1).

  Lemma pow2_byte k : k < 8 -> 2 ^ k < 256.
  Proof. intros H. change 256 with (2 ^ 8). apply N.pow_lt_mono_r; lia. Qed.

  Lemma run_epat len i k : (i < len)%nat -> k < 8 -> run 0 (epat len i k) <> 0.
  Proof.
    intros Hi Hk. unfold epat, run. rewrite !fold_left_app.
    fold (run 0 (repeat 0 i)). rewrite run_zeros. cbn [fold_left].
    apply run_zeros_nonzero; [apply upd_closed; auto using pow2_byte|apply upd_bit; auto].
  Qed.

  Lemma epat_length len i k : (i < len)%nat -> length (epat len i k) = len.
  Proof. intros H. unfold epat. rewrite !app_length, !repeat_length. cbn. lia. Qed.
  Lemma epat_bytes len i k : k < 8 -> Forall byte (epat len i k).
  Proof.
    intros Hk. unfold epat. rewrite !Forall_app. repeat split.
    - apply Forall_forall. intros x Hx. apply repeat_spec in Hx. subst. reflexivity.
    - constructor; [apply pow2_byte; auto|constructor].
    - apply Forall_forall. intros x Hx. apply repeat_spec in Hx. subst. reflexivity.
  Qed.

  Definition flip_bit (m : list N) (i : nat) (k : N) : list N := xorl m (epat (length m) i k).

  Theorem single_bit_changes_checksum m i k :
    Forall byte m -> (i < length m)%nat -> k < 8 -> run 0 (flip_bit m i k) <> run 0 m.
  Proof.
    intros Hm Hi Hk E. unfold flip_bit in E.
    pose proof (run_xor m (epat (length m) i k) 0 0) as H.
    rewrite epat_length in H by auto.
    specialize (H eq_refl Hm (epat_bytes _ _ _ Hk) M_pos M_pos).
    rewrite N.lxor_nilpotent in H. rewrite H in E.
    apply (run_epat (length m) i k Hi Hk).
    remember (run 0 m) as A. remember (run 0 (epat (length m) i k)) as B.
    clear - E. transitivity (N.lxor A (N.lxor A B)).
    { rewrite <- N.lxor_assoc, N.lxor_nilpotent, N.lxor_0_l. reflexivity. }
    rewrite E. apply N.lxor_nilpotent.
  Qed.
End Linear.

(* ---- instances ---- *)
Lemma upd8_lin c1 c2 b1 b2 : c1 < 256 -> c2 < 256 -> b1 < 256 -> b2 < 256 ->
  upd8 (N.lxor c1 c2) (N.lxor b1 b2) = N.lxor (upd8 c1 b1) (upd8 c2 b2).
Proof.
  intros. unfold upd8. rewrite lxor_swap.
  apply (table_linear_spec _ crc8_table_linear); apply lxor_byte; assumption.
Qed.
Lemma upd8_closed c b : c < 256 -> b < 256 -> upd8 c b < 256.
Proof. intros. apply (table_bounded_spec _ _ crc8_table_bounded). apply lxor_byte; assumption. Qed.
Lemma upd8_bit k : k < 8 -> upd8 0 (2 ^ k) <> 0.
Proof.
  intros Hk E. unfold upd8 in E. rewrite N.lxor_0_l in E.
  apply (table_inj0_spec _ crc8_table_inj0) in E.
  - apply N.pow_nonzero in E; [exact E|discriminate].
  - change 256 with (2 ^ 8). apply N.pow_lt_mono_r; lia.
Qed.
Lemma upd8_zero_inj c : c < 256 -> upd8 c 0 = 0 -> c = 0.
Proof. intros Hc E. unfold upd8 in E. rewrite N.lxor_0_r in E. apply (table_inj0_spec _ crc8_table_inj0); auto. Qed.

Lemma upd16_lin c1 c2 b1 b2 : c1 < 65536 -> c2 < 65536 -> b1 < 256 -> b2 < 256 ->
  upd16 (N.lxor c1 c2) (N.lxor b1 b2) = N.lxor (upd16 c1 b1) (upd16 c2 b2).
Proof.
  intros H1 H2 H3 H4. unfold upd16.
  rewrite N.shiftr_lxor, N.shiftl_lxor, land_lxor_distr, lxor_swap.
  rewrite (table_linear_spec _ crc16_table_linear) by (apply lxor_byte; auto using shiftr8_byte).
  apply lxor_swap.
Qed.
Lemma upd16_closed c b : c < 65536 -> b < 256 -> upd16 c b < 65536.
Proof.
  intros Hc Hb. unfold upd16. apply (lxor_lt_pow2 _ _ 16).
  - apply (table_bounded_spec _ _ crc16_table_bounded). apply lxor_byte; auto using shiftr8_byte.
  - apply land_65535_lt.
Qed.
Lemma upd16_bit k : k < 8 -> upd16 0 (2 ^ k) <> 0.
Proof.
  intros Hk E. unfold upd16 in E. rewrite N.shiftr_0_l, N.shiftl_0_l, N.lxor_0_l in E.
  rewrite N.land_0_l, N.lxor_0_r in E.
  apply (table_inj0_spec _ crc16_table_inj0) in E.
  - apply N.pow_nonzero in E; [exact E|discriminate].
  - change 256 with (2 ^ 8). apply N.pow_lt_mono_r; lia.
Qed.

(* complete sweep of the 2^16 states as (hi,lo) byte pairs *)
Definition sweep16 (P : N -> bool) : bool :=
  forallb (fun hi => forallb (fun lo => P (hi * 256 + lo)) all256) all256.
Lemma sweep16_spec P : sweep16 P = true -> forall c, c < 65536 -> P c = true.
Proof.
  unfold sweep16. intros H c Hc. rewrite forallb_forall in H.
  assert (Hhi : c / 256 < 256) by (apply N.div_lt_upper_bound; lia).
  assert (Hlo : c mod 256 < 256) by (apply N.mod_upper_bound; discriminate).
  specialize (H _ (proj1 (all256_spec _) Hhi)). rewrite forallb_forall in H.
  specialize (H _ (proj1 (all256_spec _) Hlo)).
  assert (Ec : c / 256 * 256 + c mod 256 = c).
  { rewrite (N.mul_comm _ 256). symmetry. apply N.div_mod. discriminate. }
  rewrite Ec in H. exact H.
Qed.

(* upd16 c 0 = 0 -> c = 0, for all 65536 states *)
Definition zero_step_inj16_P (c : N) : bool := negb (upd16 c 0 =? 0) || (c =? 0).
Lemma zero_step_inj16_ok : sweep16 zero_step_inj16_P = true.
Proof. vm_compute. reflexivity. Qed.
Lemma upd16_zero_inj c : c < 65536 -> upd16 c 0 = 0 -> c = 0.
Proof.
  intros Hc E. pose proof (sweep16_spec _ zero_step_inj16_ok c Hc) as H.
  unfold zero_step_inj16_P in H. rewrite E in H. apply N.eqb_eq. exact H.
Qed.

Definition flip_bit_bytes (m : list N) (i : nat) (k : N) : list N :=
  flip_bit m i k.

Theorem crc8_single_bit : forall m i k, Forall byte m -> (i < length m)%nat -> k < 8 ->
  crc8 (flip_bit m i k) <> crc8 m.
Proof.
  intros. apply (single_bit_changes_checksum 256 upd8 upd8_lin upd8_closed eq_refl upd8_bit upd8_zero_inj); auto.
Qed.
Theorem crc16_single_bit : forall m i k, Forall byte m -> (i < length m)%nat -> k < 8 ->
  crc16 (flip_bit m i k) <> crc16 m.
Proof.
  intros. apply (single_bit_changes_checksum 65536 upd16 upd16_lin upd16_closed eq_refl upd16_bit upd16_zero_inj); auto.
Qed.

(* a message followed by its own checksum sums to zero (what `valid()` tests) *)
Lemma crc8_append m : Forall byte m -> crc8 (m ++ [crc8 m]) = 0.
Proof.
  intros Hm. unfold crc8. rewrite fold_left_app. cbn. unfold upd8. rewrite N.lxor_nilpotent. reflexivity.
Qed.

Definition append16_P (c : N) : bool := upd16 (upd16 c (N.shiftr c 8)) (N.land c 255) =? 0.
Lemma append16_ok_true : sweep16 append16_P = true.
Proof. vm_compute. reflexivity. Qed.
Lemma crc16_append m : Forall byte m ->
  crc16 (m ++ [N.shiftr (crc16 m) 8; N.land (crc16 m) 255]) = 0.
Proof.
  intros Hm. unfold crc16. rewrite fold_left_app. cbn [fold_left].
  remember (fold_left upd16 m 0) as c.
  assert (Hc : c < 65536).
  { subst c. apply (run_closed 65536 upd16 upd16_closed); auto; reflexivity. }
  pose proof (sweep16_spec _ append16_ok_true c Hc) as H. unfold append16_P in H.
  apply N.eqb_eq in H. exact H.
Qed.

(* Consequence used by C05: in a checksum-valid message (crc = 0), any single flipped bit
   — whether in the payload or in the stored checksum bytes — makes the checksum non-zero. *)
Theorem crc16_valid_single_bit_detected : forall m i k, Forall byte m -> (i < length m)%nat -> k < 8 ->
  crc16 m = 0 -> crc16 (flip_bit m i k) <> 0.
Proof. intros m i k Hm Hi Hk E. rewrite <- E. apply crc16_single_bit; auto. Qed.
Theorem crc8_valid_single_bit_detected : forall m i k, Forall byte m -> (i < length m)%nat -> k < 8 ->
  crc8 m = 0 -> crc8 (flip_bit m i k) <> 0.
Proof. intros m i k Hm Hi Hk E. rewrite <- E. apply crc8_single_bit; auto. Qed.

(* ---- uniqueness of the stored checksum: the only trailer that makes the sum zero ---- *)
Lemma crc8_unique m c : Forall byte m -> c < 256 -> crc8 (m ++ [c]) = 0 -> c = crc8 m.
Proof.
  intros Hm Hc H. unfold crc8 in *. rewrite fold_left_app in H. cbn [fold_left] in H.
  set (s := fold_left upd8 m 0) in *.
  assert (Hs : s < 256) by (apply (run_closed 256 upd8 upd8_closed); auto; reflexivity).
  unfold upd8 in H. apply (table_inj0_spec _ crc8_table_inj0) in H; [|apply lxor_byte; assumption].
  apply N.lxor_eq in H. auto.
Qed.

Definition trailer16_inj_P (hl : N) : bool :=
  negb (upd16 (upd16 0 (N.shiftr hl 8)) (N.land hl 255) =? 0) || (hl =? 0).
Lemma trailer16_inj_ok : sweep16 trailer16_inj_P = true.
Proof. vm_compute. reflexivity. Qed.

Lemma byte_pair hi lo : hi < 256 -> lo < 256 ->
  hi * 256 + lo < 65536 /\ N.shiftr (hi * 256 + lo) 8 = hi /\ N.land (hi * 256 + lo) 255 = lo.
Proof.
  intros Hh Hl. split; [lia|]. split.
  - rewrite N.shiftr_div_pow2. change (2 ^ 8) with 256. symmetry. apply (N.div_unique _ 256 hi lo); lia.
  - change 255 with (N.ones 8). rewrite N.land_ones. change (2 ^ 8) with 256. symmetry. apply (N.mod_unique _ 256 hi lo); lia.
Qed.

Lemma crc16_unique m hi lo : Forall byte m -> hi < 256 -> lo < 256 ->
  crc16 (m ++ [hi; lo]) = 0 -> hi = N.shiftr (crc16 m) 8 /\ lo = N.land (crc16 m) 255.
Proof.
  intros Hm Hh Hl H.
  pose proof (crc16_append m Hm) as H0.
  unfold crc16 in *. rewrite fold_left_app in H, H0. cbn [fold_left] in H, H0.
  set (c := fold_left upd16 m 0) in *.
  assert (Hc : c < 65536) by (apply (run_closed 65536 upd16 upd16_closed); auto; reflexivity).
  set (h0 := N.shiftr c 8) in *. set (l0 := N.land c 255) in *.
  assert (Hh0 : h0 < 256) by (apply shiftr8_byte; exact Hc).
  assert (Hl0 : l0 < 256).
  { unfold l0. change 255 with (N.ones 8). rewrite N.land_ones. apply N.mod_upper_bound. discriminate. }
  (* linearity: the difference of the two trailers, started from 0, also sums to zero *)
  assert (Hd : upd16 (upd16 0 (N.lxor hi h0)) (N.lxor lo l0) = 0).
  { pose proof (upd16_lin c c hi h0 Hc Hc Hh Hh0) as L1. rewrite N.lxor_nilpotent in L1.
    pose proof (upd16_lin (upd16 c hi) (upd16 c h0) lo l0
                  (upd16_closed _ _ Hc Hh) (upd16_closed _ _ Hc Hh0) Hl Hl0) as L2.
    rewrite <- L1 in L2. rewrite L2, H, H0. reflexivity. }
  assert (Hxh : N.lxor hi h0 < 256) by (apply lxor_byte; assumption).
  assert (Hxl : N.lxor lo l0 < 256) by (apply lxor_byte; assumption).
  destruct (byte_pair _ _ Hxh Hxl) as (Hp & Es & El).
  pose proof (sweep16_spec _ trailer16_inj_ok _ Hp) as S. unfold trailer16_inj_P in S.
  rewrite Es, El, Hd in S. cbn [N.eqb negb orb] in S. apply N.eqb_eq in S.
  assert (N.lxor hi h0 = 0 /\ N.lxor lo l0 = 0) as [Z1 Z2] by lia.
  apply N.lxor_eq in Z1. apply N.lxor_eq in Z2. auto.
Qed.
