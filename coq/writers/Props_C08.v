(* Property C08 — the encoded file depends only on PCM and options, not on how it was written. *)
From FlacWriters Require Import Writers Lists_proofs Params_proofs Audio_proofs Writers_proofs New_proofs Run_proofs
     Frontend_proofs Bytes_proofs Safety_proofs Cases Cross_proofs Cross_writes.
Open Scope N_scope.

(* every partition of the input into write calls gives the same finished stream, STREAMINFO
   and blocks (or the same error): sample writer, any chunks (also mid-PCM-frame) *)
Theorem C08_chunking_sample :
  forall enc_block md5 p prefix o rate bps ch total w (chunks : list (list Z)),
    options_wf o -> sample_new p prefix o rate bps ch total = Ok w ->
    sample_run enc_block md5 p w chunks = sample_run enc_block md5 p w [concat chunks].
Proof. intros. apply sample_chunking. eapply sample_new_wf; eauto. Qed.

(* byte writer, either byte order, any chunks (also mid-sample) *)
Theorem C08_chunking_byte :
  forall enc_block md5 p en prefix o rate bps ch total w (chunks : list (list N)),
    options_wf o -> byte_new p en prefix o rate bps ch total = Ok w ->
    byte_run enc_block md5 p w chunks = byte_run enc_block md5 p w [concat chunks].
Proof. intros. apply byte_chunking. eapply byte_new_wf; eauto. Qed.

(* channel writer, any list of well-formed write arguments *)
Theorem C08_chunking_channel :
  forall enc_block md5 p prefix o rate bps ch total w (chunks : list (list (list Z))),
    options_wf o -> channel_new p prefix o rate bps ch total = Ok w ->
    Forall (chunk_ok (cw_chan w)) chunks ->
    channel_run enc_block md5 p w chunks = channel_run enc_block md5 p w [cconcat (cw_chan w) chunks].
Proof. intros. apply channel_chunking; auto. eapply channel_new_wf; eauto. Qed.

(* Front-ends: for the same PCM block, the channel writer, the byte writer (either byte order)
   and the sample writer make the identical Encoder call (same channels handed to the block
   encoder, same bookkeeping) and feed MD5 the identical bytes.  Together with the chunking
   theorems (each front-end's result depends only on its concatenated input) this is why the
   finished file does not depend on the front-end. *)
Theorem C08_frontends_channel_block :
  forall enc_block p ch bytes e (blk : block) m,
    1 <= ch <= 8 -> length blk = N.to_nat ch -> Forall (fun c => length c = m) blk -> (1 <= m)%nat ->
    channel_encode_chunk enc_block p ch bytes e blk =
    sample_encode_chunk enc_block p ch bytes e (concat (multizip blk)).
Proof. exact channel_block_as_samples. Qed.

Theorem C08_frontends_byte_le_block :
  forall enc_block p ch n e (buf : list N) m,
    1 <= n <= 4 -> N.of_nat (length buf) = n * m -> Forall byte_ok buf ->
    byte_encode_chunk enc_block p LE ch n e buf =
    sample_encode_chunk enc_block p ch n e (map bytes_to_int_le (fst (drain (N.to_nat n) buf))).
Proof. exact byte_block_as_samples_le. Qed.

Theorem C08_frontends_byte_be_block :
  forall enc_block p ch n e (buf : list N) m,
    1 <= n <= 4 -> N.of_nat (length buf) = n * m -> Forall byte_ok buf ->
    byte_encode_chunk enc_block p BE ch n e buf =
    sample_encode_chunk enc_block p ch n e
      (map (fun c => bytes_to_int_le (rev c)) (fst (drain (N.to_nat n) buf))).
Proof. exact byte_block_as_samples_be. Qed.

(* ... and for whole runs: a FlacByteWriter run (either byte order, any chunking, any byte string — also one ending in
   the middle of a sample or PCM frame) IS the FlacSampleWriter run over the samples the bytes spell: the same finished
   stream, STREAMINFO and blocks, or the same error, for the writers the two constructors return for the same
   parameters and corresponding declared totals *)
Theorem C08_byte_run_is_sample_run :
  forall enc_block md5 p en o rate bps ch tb ts wb ws (chunks : list (list N)),
    options_wf o ->
    byte_new p en [] o rate bps ch tb = Ok wb -> sample_new p [] o rate bps ch ts = Ok ws ->
    tb = option_map (N.mul (bytes_per_sample_of bps)) ts ->
    Forall byte_ok (concat chunks) ->
    byte_run enc_block md5 p wb chunks =
    sample_run enc_block md5 p ws [decoded en (N.to_nat (bytes_per_sample_of bps)) (concat chunks)].
Proof. exact byte_writer_is_sample_writer. Qed.

(* ... already at the level of the writes (an unfinished stream): the Encoder a byte writer has driven after writing any
   byte string is the Encoder the sample writer over the same Encoder has driven after the samples those bytes spell *)
Theorem C08_byte_write_is_sample_write :
  forall enc_block p en e0 ch nb bs (bytes : list N),
    1 <= nb <= 4 -> 1 <= ch -> 1 <= bs -> Forall byte_ok bytes ->
    let wb := {| bw_enc := e0; bw_buf := []; bw_endian := en; bw_channels := ch; bw_bytes_per_sample := nb;
                 bw_pcm_frame_size := nb * ch; bw_frame_byte_size := nb * ch * bs |} in
    let ws := {| sw_enc := e0; sw_buf := []; sw_channels := ch; sw_frame_sample_size := ch * bs; sw_bytes_per_sample := nb |} in
    rmap bw_enc (byte_write enc_block p wb bytes) = rmap sw_enc (sample_write enc_block p ws (decoded en (N.to_nat nb) bytes)).
Proof. exact Cross_writes.byte_write_is_sample_write. Qed.

Theorem C08_channel_write_is_sample_write :
  forall enc_block p e0 ch nb bs (chans : list (list Z)) m,
    1 <= ch <= 8 -> 1 <= bs -> si_channels (e_si e0) = ch ->
    length chans = N.to_nat ch -> Forall (fun c => length c = m) chans ->
    let wc := {| cw_enc := e0; cw_bufs := repeat [] (N.to_nat ch); cw_channels := ch; cw_frame_sample_size := bs; cw_bytes_per_sample := nb |} in
    let ws := {| sw_enc := e0; sw_buf := []; sw_channels := ch; sw_frame_sample_size := ch * bs; sw_bytes_per_sample := nb |} in
    rmap cw_enc (channel_write enc_block p wc chans) = rmap sw_enc (sample_write enc_block p ws (concat (multizip chans))).
Proof. exact Cross_writes.channel_write_is_sample_write. Qed.

(* ... and a FlacChannelWriter run (any list of well-formed write arguments) IS the FlacSampleWriter run over the
   interleaving of everything written *)
Theorem C08_channel_run_is_sample_run :
  forall enc_block md5 p o rate bps ch tc ts wc ws (chunks : list (list (list Z))),
    options_wf o ->
    channel_new p [] o rate bps ch tc = Ok wc -> sample_new p [] o rate bps ch ts = Ok ws ->
    ts = option_map (N.mul ch) tc ->
    Forall (chunk_ok (N.to_nat ch)) chunks ->
    channel_run enc_block md5 p wc chunks =
    sample_run enc_block md5 p ws [concat (multizip (cconcat (N.to_nat ch) chunks))].
Proof. exact channel_writer_is_sample_writer. Qed.

(* a trailing partial PCM frame is dropped: it changes nothing in the result *)
Theorem C08_partial_dropped_sample :
  forall enc_block md5 p prefix o rate bps ch total w (x partial : list Z),
    options_wf o -> sample_new p prefix o rate bps ch total = Ok w ->
    N.of_nat (length x) mod ch = 0 -> N.of_nat (length partial) < ch ->
    sample_run enc_block md5 p w [x ++ partial] = sample_run enc_block md5 p w [x].
Proof. intros. eapply sample_partial_dropped; eauto. Qed.

(* no Panic: a run of the sample writer (any chunks) in a debug build can only stop on the
   overflow trap of a 2^64 counter; the block encoder is assumed not to panic *)
Theorem C08_no_panic_sample_debug :
  forall enc_block md5 prefix o rate bps ch total w chunks,
    (forall l, length (md5 l) = 16%nat) -> (forall n b, is_panic (enc_block n b) = false) ->
    options_wf o -> sample_new Debug prefix o rate bps ch total = Ok w ->
    match sample_run enc_block md5 Debug w chunks with Panic k => k = POverflow | _ => True end.
Proof. intros. eapply sample_run_safe_debug; eauto. Qed.

(* non-vacuity: the four front-ends on the same 3 PCM frames of 2 channels, 16 bits, written in
   two calls that split mid-sample / mid-frame: same emitted blocks, same MD5 input *)
Example C08_nonvacuous :
  let o := options_no_seektable (options_no_padding (match options_block_size options_default 16 with Ok o => o | _ => options_default end)) in
  let pcm := [1; -2; 300; -400; 32767; -32768]%Z in
  let le := [1; 0; 254; 255; 44; 1; 112; 254; 255; 127; 0; 128] in
  let be := [0; 1; 255; 254; 1; 44; 254; 112; 127; 255; 128; 0] in
  exists r, run_c08_sample Release o 16 2 None [5; 1] pcm = Ok r /\
            run_c08_sample Release o 16 2 None [6] pcm = Ok r /\
            run_c08_byte Release LE o 16 2 None [7; 5] le = Ok r /\
            run_c08_byte Release BE o 16 2 None [3; 9] be = Ok r /\
            snd r = [[[1; 300; 32767]; [-2; -400; -32768]]%Z] /\ snd (fst r) = le.
Proof. vm_compute. eexists. repeat split; reflexivity. Qed.
