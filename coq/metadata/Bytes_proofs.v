(* metadata/Bytes_proofs.v — lemmas about Bytes.v *)
From FlacMeta Require Import Bytes.
Open Scope N_scope.

Lemma lenN_length {A} (l : list A) : lenN l = N.of_nat (length l).
Proof. induction l as [|x l IH]; cbn [lenN length]; [reflexivity|]. rewrite IH. lia. Qed.

Lemma lenN_app {A} (a b : list A) : lenN (a ++ b) = lenN a + lenN b.
Proof. rewrite !lenN_length, app_length. lia. Qed.

Lemma lenN_nil_inv {A} (l : list A) : lenN l = 0 -> l = [].
Proof. destruct l; cbn [lenN]; [auto|lia]. Qed.

Lemma splitN_spec {A} (l : list A) : forall n,
  splitN n l = if (N.to_nat n <=? length l)%nat
               then Some (firstn (N.to_nat n) l, skipn (N.to_nat n) l) else None.
Proof.
  induction l as [|x l IH]; intros n; cbn [splitN length].
  - destruct (N.eqb_spec n 0) as [->|Hn]; [reflexivity|].
    destruct (Nat.leb_spec (N.to_nat n) 0); [lia|reflexivity].
  - destruct (N.eqb_spec n 0) as [->|Hn]; [reflexivity|].
    rewrite IH. replace (N.to_nat n) with (S (N.to_nat (N.pred n))) by lia.
    cbn [firstn skipn]. change (S (N.to_nat (N.pred n)) <=? S (length l))%nat with (N.to_nat (N.pred n) <=? length l)%nat.
    destruct (N.to_nat (N.pred n) <=? length l)%nat; reflexivity.
Qed.

Lemma splitN_app {A} (a r : list A) : splitN (lenN a) (a ++ r) = Some (a, r).
Proof.
  rewrite splitN_spec, lenN_length, Nat2N.id, app_length.
  destruct (Nat.leb_spec (length a) (length a + length r)); [|lia].
  rewrite firstn_app, Nat.sub_diag, firstn_all, skipn_app, Nat.sub_diag, skipn_all. cbn. rewrite app_nil_r. reflexivity.
Qed.

Lemma splitN_some {A} n (l a r : list A) : splitN n l = Some (a, r) -> l = a ++ r /\ lenN a = n.
Proof.
  rewrite splitN_spec. destruct (Nat.leb_spec (N.to_nat n) (length l)) as [H|H]; [|discriminate].
  intros E. inversion E; subst. split; [symmetry; apply firstn_skipn|].
  rewrite lenN_length, firstn_length_le by exact H. lia.
Qed.

Lemma splitN_none {A} n (l : list A) : splitN n l = None -> lenN l < n.
Proof.
  rewrite splitN_spec. destruct (Nat.leb_spec (N.to_nat n) (length l)) as [H|H]; [discriminate|].
  intros _. rewrite lenN_length. lia.
Qed.

Lemma splitN_all {A} (l : list A) : splitN (lenN l) l = Some (l, []).
Proof. rewrite <- (app_nil_r l) at 2. apply splitN_app. Qed.

Lemma takeN_spec {A} (l : list A) : forall n, takeN n l = firstn (N.to_nat n) l.
Proof.
  induction l as [|x l IH]; intros n; cbn [takeN]. { rewrite firstn_nil. reflexivity. }
  destruct (N.eqb_spec n 0) as [->|Hn]; [reflexivity|].
  rewrite IH. replace (N.to_nat n) with (S (N.to_nat (N.pred n))) by lia. reflexivity.
Qed.
Lemma dropN_spec {A} (l : list A) : forall n, dropN n l = skipn (N.to_nat n) l.
Proof.
  induction l as [|x l IH]; intros n; cbn [dropN]. { rewrite skipn_nil. reflexivity. }
  destruct (N.eqb_spec n 0) as [->|Hn]; [reflexivity|].
  rewrite IH. replace (N.to_nat n) with (S (N.to_nat (N.pred n))) by lia. reflexivity.
Qed.
Lemma takeN_dropN {A} n (l : list A) : takeN n l ++ dropN n l = l.
Proof. rewrite takeN_spec, dropN_spec. apply firstn_skipn. Qed.
Lemma takeN_app {A} (a r : list A) : takeN (lenN a) (a ++ r) = a.
Proof. rewrite takeN_spec, lenN_length, Nat2N.id, firstn_app, Nat.sub_diag, firstn_all. cbn. apply app_nil_r. Qed.
Lemma dropN_app {A} (a r : list A) : dropN (lenN a) (a ++ r) = r.
Proof. rewrite dropN_spec, lenN_length, Nat2N.id, skipn_app, Nat.sub_diag, skipn_all. reflexivity. Qed.
Lemma lenN_takeN {A} n (l : list A) : lenN (takeN n l) = N.min n (lenN l).
Proof. rewrite takeN_spec, !lenN_length, firstn_length. lia. Qed.
Lemma lenN_takeN_le {A} n (l : list A) : lenN (takeN n l) <= n.
Proof. rewrite lenN_takeN. lia. Qed.

Lemma zerosN_succ n : zerosN (N.succ n) = 0 :: zerosN n.
Proof. unfold zerosN. rewrite N.iter_succ. reflexivity. Qed.
Lemma lenN_zerosN n : lenN (zerosN n) = n.
Proof.
  induction n using N.peano_ind; [reflexivity|].
  rewrite zerosN_succ. cbn [lenN]. rewrite IHn. reflexivity.
Qed.
Lemma zerosN_bytes n : Forall byte (zerosN n).
Proof.
  induction n using N.peano_ind; [constructor|].
  rewrite zerosN_succ. constructor; [unfold byte; lia|assumption].
Qed.

(* ---- parser monad *)
Lemma pbind_ok {A B} (p : parser A) (f : A -> parser B) s b r :
  pbind p f s = Ok (b, r) -> exists a s', p s = Ok (a, s') /\ f a s' = Ok (b, r).
Proof. unfold pbind. destruct (p s) as [[a s']| |]; try discriminate. eauto. Qed.

Lemma take_app (a r : list N) : take (lenN a) (a ++ r) = Ok (a, r).
Proof. unfold take. rewrite splitN_app. reflexivity. Qed.
Lemma take_ok n s a r : take n s = Ok (a, r) -> s = a ++ r /\ lenN a = n.
Proof. unfold take. destruct (splitN n s) as [[x y]|] eqn:E; [|discriminate]. intros H; inversion H; subst. eapply splitN_some; eauto. Qed.
Lemma skip_app (a r : list N) : skip (lenN a) (a ++ r) = Ok (tt, r).
Proof. unfold skip. rewrite splitN_app. reflexivity. Qed.
Lemma skip_ok n s r : skip n s = Ok (tt, r) -> exists a, s = a ++ r /\ lenN a = n.
Proof. unfold skip. destruct (splitN n s) as [[x y]|] eqn:E; [|discriminate]. intros H; inversion H; subst. exists x. eapply splitN_some; eauto. Qed.
Lemma take_not_panic n s : is_panic (take n s) = false.
Proof. unfold take. destruct (splitN n s) as [[? ?]|]; reflexivity. Qed.
Lemma skip_not_panic n s : is_panic (skip n s) = false.
Proof. unfold skip. destruct (splitN n s) as [[? ?]|]; reflexivity. Qed.

(* ---- big-endian values *)
Lemma be_val_acc l : forall a, fold_left (fun a b => a * 256 + b) l a = a * 256 ^ N.of_nat (length l) + be_val l.
Proof.
  unfold be_val. induction l as [|x l IH]; intros a; cbn [fold_left length].
  - cbn. lia.
  - rewrite IH, (IH (0 * 256 + x)). rewrite Nat2N.inj_succ, N.pow_succ_r'. lia.
Qed.
Lemma be_val_cons x l : be_val (x :: l) = x * 256 ^ N.of_nat (length l) + be_val l.
Proof. unfold be_val at 1. cbn [fold_left]. rewrite be_val_acc. lia. Qed.
Lemma be_val_nil : be_val [] = 0.
Proof. reflexivity. Qed.

Lemma be_val_bound l : Forall byte l -> be_val l < 256 ^ N.of_nat (length l).
Proof.
  induction 1 as [|x l Hx Hl IH]; [cbn; lia|].
  rewrite be_val_cons. cbn [length]. rewrite Nat2N.inj_succ, N.pow_succ_r'. unfold byte in Hx. nia.
Qed.

Lemma be_bytes_length k v : length (be_bytes k v) = k.
Proof. induction k; cbn [be_bytes length]; auto. Qed.
Lemma be_bytes_bytes k v : Forall byte (be_bytes k v).
Proof. induction k; cbn [be_bytes]; constructor; auto. apply N.mod_upper_bound. discriminate. Qed.

Lemma be_val_be_bytes k : forall v, be_val (be_bytes k v) = v mod 256 ^ N.of_nat k.
Proof.
  induction k as [|j IH]; intros v; cbn [be_bytes].
  - cbn. rewrite N.mod_1_r. reflexivity.
  - rewrite be_val_cons, be_bytes_length, IH.
    rewrite Nat2N.inj_succ, N.pow_succ_r'.
    assert (Hp : 256 ^ N.of_nat j <> 0) by (apply N.pow_nonzero; discriminate).
    rewrite (N.mul_comm 256), N.mod_mul_r by (auto; discriminate). lia.
Qed.
Lemma be_val_be_bytes_small k v : v < 256 ^ N.of_nat k -> be_val (be_bytes k v) = v.
Proof. intros H. rewrite be_val_be_bytes. apply N.mod_small, H. Qed.

Lemma be_bytes_be_val l : Forall byte l -> be_bytes (length l) (be_val l) = l.
Proof.
  induction 1 as [|x l Hx Hl IH]; [reflexivity|].
  cbn [length be_bytes]. pose proof (be_val_bound l Hl) as Hb.
  assert (Hp : 256 ^ N.of_nat (length l) <> 0) by (apply N.pow_nonzero; discriminate).
  f_equal.
  - rewrite be_val_cons. rewrite N.div_add_l by exact Hp. rewrite (N.div_small (be_val l)) by exact Hb.
    rewrite N.add_0_r. apply N.mod_small. exact Hx.
  - 
    (* be_bytes j depends only on v mod 256^j *)
    assert (G : forall j v w, (j <= length l)%nat -> be_bytes j (w * 256 ^ N.of_nat (length l) + v) = be_bytes j v).
    { induction j as [|j IHj]; intros v w Hj; cbn [be_bytes]; [reflexivity|].
      rewrite IHj by lia. f_equal.
      replace (256 ^ N.of_nat (length l)) with (256 ^ N.of_nat (length l - S j) * 256 * 256 ^ N.of_nat j).
      2:{ rewrite <- (N.pow_1_r 256) at 2. rewrite <- !N.pow_add_r. f_equal. lia. }
      assert (Hq : 256 ^ N.of_nat j <> 0) by (apply N.pow_nonzero; discriminate).
      rewrite !N.mul_assoc. rewrite N.add_comm, N.div_add by exact Hq.
      rewrite N.add_comm. rewrite <- N.mul_assoc. rewrite (N.mul_comm _ 256) at 1.
      replace (w * (256 * 256 ^ N.of_nat (length l - S j))) with ((w * 256 ^ N.of_nat (length l - S j)) * 256) by lia.
      rewrite N.add_comm, N.mod_add by discriminate. reflexivity. }
    rewrite be_val_cons, G by lia. exact IH.
Qed.

Lemma read_be_app k v r : v < 256 ^ N.of_nat k -> read_be k (be_bytes k v ++ r) = Ok (v, r).
Proof.
  intros H. unfold read_be, pbind.
  replace (N.of_nat k) with (lenN (be_bytes k v)) by (rewrite lenN_length, be_bytes_length; reflexivity).
  rewrite take_app. unfold pret. rewrite be_val_be_bytes_small by exact H. reflexivity.
Qed.
Lemma read_be_ok k s v r : Forall byte s -> read_be k s = Ok (v, r) ->
  s = be_bytes k v ++ r /\ v < 256 ^ N.of_nat k.
Proof.
  intros Hs. unfold read_be, pbind. destruct (take (N.of_nat k) s) as [[a s']| |] eqn:E; try discriminate.
  unfold pret. intros H; inversion H; subst. apply take_ok in E. destruct E as [-> L].
  apply Forall_app in Hs. destruct Hs as [Ha Hr].
  rewrite lenN_length in L. apply Nat2N.inj in L. subst k.
  split; [rewrite be_bytes_be_val by exact Ha; reflexivity|apply be_val_bound, Ha].
Qed.
Lemma read_be_not_panic k s : is_panic (read_be k s) = false.
Proof. unfold read_be, pbind, take. destruct (splitN _ s) as [[? ?]|]; reflexivity. Qed.

Lemma le_bytes_length k v : length (le_bytes k v) = k.
Proof. unfold le_bytes. rewrite rev_length. apply be_bytes_length. Qed.
Lemma le_bytes_bytes k v : Forall byte (le_bytes k v).
Proof. unfold le_bytes. apply Forall_rev, be_bytes_bytes. Qed.
Lemma read_le_app k v r : v < 256 ^ N.of_nat k -> read_le k (le_bytes k v ++ r) = Ok (v, r).
Proof.
  intros H. unfold read_le, pbind.
  replace (N.of_nat k) with (lenN (le_bytes k v)) by (rewrite lenN_length, le_bytes_length; reflexivity).
  rewrite take_app. unfold pret, le_val, le_bytes. rewrite rev_involutive, be_val_be_bytes_small by exact H. reflexivity.
Qed.
Lemma read_le_ok k s v r : Forall byte s -> read_le k s = Ok (v, r) ->
  s = le_bytes k v ++ r /\ v < 256 ^ N.of_nat k.
Proof.
  intros Hs. unfold read_le, pbind. destruct (take (N.of_nat k) s) as [[a s']| |] eqn:E; try discriminate.
  unfold pret. intros H; inversion H; subst. apply take_ok in E. destruct E as [-> L].
  apply Forall_app in Hs. destruct Hs as [Ha Hr].
  rewrite lenN_length in L. apply Nat2N.inj in L. subst k.
  unfold le_bytes, le_val. assert (Hra : Forall byte (rev a)) by (apply Forall_rev, Ha).
  pose proof (be_bytes_be_val (rev a) Hra) as E1. pose proof (be_val_bound (rev a) Hra) as E2.
  rewrite rev_length in E1, E2. rewrite E1, rev_involutive. split; [reflexivity|exact E2].
Qed.
Lemma read_le_not_panic k s : is_panic (read_le k s) = false.
Proof. unfold read_le, pbind, take. destruct (splitN _ s) as [[? ?]|]; reflexivity. Qed.

(* ---- sub-byte fields: inverses for FlacBase.Bits rd / wr and bytes <-> bits *)
Lemma wr_ext n : forall v w, (forall i, i < N.of_nat n -> N.testbit v i = N.testbit w i) -> wr n v = wr n w.
Proof.
  induction n as [|k IH]; intros v w H; cbn [wr]; [reflexivity|].
  f_equal; [apply H; lia|apply IH; intros i Hi; apply H; lia].
Qed.
Lemma wr_mod n v : wr n (v mod 2 ^ N.of_nat n) = wr n v.
Proof. apply wr_ext. intros i Hi. apply N.mod_pow2_bits_low, Hi. Qed.

Lemma rd_acc_inv n : forall acc s v r, rd_acc n acc s = Some (v, r) ->
  exists w, w < 2 ^ N.of_nat n /\ v = acc * 2 ^ N.of_nat n + w /\ s = wr n w ++ r.
Proof.
  induction n as [|k IH]; intros acc s v r H.
  - cbn in H. inversion H; subst. exists 0. cbn. split; [lia|split; [lia|reflexivity]].
  - cbn [rd_acc] in H. destruct s as [|b s']; [discriminate|].
    apply IH in H. destruct H as (w' & Hw' & -> & ->).
    assert (Hp : 2 ^ N.of_nat k <> 0) by (apply N.pow_nonzero; discriminate).
    exists (b2n b * 2 ^ N.of_nat k + w'). rewrite Nat2N.inj_succ, N.pow_succ_r'.
    split; [destruct b; cbn [b2n]; lia|]. split; [lia|].
    cbn [wr app]. f_equal.
    + rewrite N.testbit_eqb. rewrite N.div_add_l by exact Hp. rewrite N.div_small by exact Hw'.
      destruct b; reflexivity.
    + f_equal. rewrite <- (wr_mod k (b2n b * 2 ^ N.of_nat k + w')).
      rewrite (N.add_comm (b2n b * 2 ^ N.of_nat k)), N.mod_add by exact Hp.
      rewrite N.mod_small by exact Hw'. reflexivity.
Qed.
Lemma rd_inv n s v r : rd n s = Some (v, r) -> s = wr n v ++ r /\ v < 2 ^ N.of_nat n.
Proof.
  unfold rd. intros H. apply rd_acc_inv in H. destruct H as (w & Hw & -> & ->).
  rewrite N.mul_0_l, N.add_0_l. auto.
Qed.

Lemma bytes_of_bits_bytes k : forall s, Forall byte (bytes_of_bits k s).
Proof.
  induction k as [|f IH]; intros s; cbn [bytes_of_bits]; [constructor|].
  destruct (rd 8 s) as [[v r]|] eqn:E; [|constructor].
  constructor; [apply rd_bound in E; exact E|apply IH].
Qed.
Lemma bytes_of_bits_length k : forall s, length s = (8 * k)%nat -> length (bytes_of_bits k s) = k.
Proof.
  induction k as [|f IH]; intros s L; cbn [bytes_of_bits]; [reflexivity|].
  destruct (rd 8 s) as [[v r]|] eqn:E.
  - cbn [length]. f_equal. apply IH. apply rd_inv in E. destruct E as [-> _].
    rewrite app_length, wr_length in L. lia.
  - unfold rd in E. apply rd_acc_none in E. lia.
Qed.
Lemma bits_of_bytes_of_bits k : forall s, length s = (8 * k)%nat -> bits_of_bytes (bytes_of_bits k s) = s.
Proof.
  induction k as [|f IH]; intros s L; cbn [bytes_of_bits].
  - destruct s; [reflexivity|cbn in L; lia].
  - destruct (rd 8 s) as [[v r]|] eqn:E.
    + apply rd_inv in E. destruct E as [-> _]. cbn [bits_of_bytes flat_map]. unfold byte_bits at 1.
      f_equal. apply IH. rewrite app_length, wr_length in L. lia.
    + unfold rd in E. apply rd_acc_none in E. lia.
Qed.
Lemma bits_of_bytes_app a b : bits_of_bytes (a ++ b) = bits_of_bytes a ++ bits_of_bytes b.
Proof. unfold bits_of_bytes. apply flat_map_app. Qed.
