(* E2E/ChannelE2E.v — C01 for FlacChannelWriter on the channels themselves: per-channel slices of equal length,
   any chunking of the writes, finalize; the finished file decodes to blocks whose per-channel concatenation is
   exactly what was written. *)
From Coq Require Import List NArith ZArith Lia.
From FlacBase Require Import Res.
From FlacCodec Require Ast Stream Header Wf Enc Enc_proofs.
From FlacWriters Require Import Meta Params Params_proofs Finalize Writers Lists_proofs Writers_proofs New_proofs.
From FlacE2E Require Import Bridge E2E Sample SampleE2E.
Import ListNotations.
Open Scope N_scope.
Local Arguments N.add : simpl never.
Local Arguments N.mul : simpl never.
Local Arguments N.div : simpl never.
Local Arguments N.sub : simpl never.

Module EP := FlacCodec.Enc_proofs.
Module CS := FlacCodec.Stream.

Section ChannelE2E.
Variable o : FlacCodec.Enc.eopts.
Variable L : FlacCodec.Enc.oracle.
Variable md5 : list N -> list N.
Hypothesis md5_length : forall l, length (md5 l) = 16%nat.
Variable p : profile.
Variable rate bps : N.

(* Frame::fill_from_channels hands the block on unchanged *)
Lemma fill_from_channels_id ch blk b : fill_from_channels p ch blk = Ok b ->
  b = blk /\ exists c0 r, blk = c0 :: r /\ (1 <= length c0)%nat /\ Forall (fun c => length c = length c0) blk.
Proof.
  unfold fill_from_channels. intros H. apply bind_ok in H. destruct H as ([] & _ & H).
  destruct blk as [|c0 r]; [discriminate|].
  destruct (Nat.eqb_spec (length c0) 0); [discriminate|].
  destruct (forallb (fun c => (length c =? length c0)%nat) (c0 :: r)) eqn:F; [|discriminate]. injection H as <-.
  split; [reflexivity|]. exists c0, r. split; [reflexivity|]. split; [lia|].
  apply Forall_forall. intros c Hc. rewrite forallb_forall in F. apply Nat.eqb_eq. apply F. exact Hc.
Qed.

Lemma chan_chunk_reach ch bytes_ps e blk e' :
  channel_encode_chunk (encB o L rate bps) p ch bytes_ps e blk = Ok e' -> reach o L p rate bps e [blk] e'.
Proof.
  unfold channel_encode_chunk. intros H.
  apply bind_ok in H. destruct H as (bytes & _ & H). apply bind_ok in H. destruct H as (b & Hfill & H).
  destruct (fill_from_channels_id _ _ _ Hfill) as [-> _].
  change [blk] with ([] ++ [blk]). eapply reach_enc; [|exact H]. apply reach_md5. apply reach_refl.
Qed.

Lemma chan_chunks_reach ch bytes_ps : forall blocks e e',
  fold_res (channel_encode_chunk (encB o L rate bps) p ch bytes_ps) e blocks = Ok e' -> reach o L p rate bps e blocks e'.
Proof.
  induction blocks as [|b r IH]; intros e e' H; cbn [fold_res] in H.
  - injection H as <-. apply reach_refl.
  - apply bind_ok in H. destruct H as (e1 & H1 & H2).
    change (b :: r) with ([b] ++ r). eapply reach_trans; [eapply chan_chunk_reach; exact H1|apply IH; exact H2].
Qed.

(* samples of a stack of blocks *)
Lemma in_concat_zip_app z : forall a b, length a = length b ->
  (In z (concat (zip_app a b)) <-> In z (concat a) \/ In z (concat b)).
Proof.
  induction a as [|x a IH]; intros [|y b] HL; cbn [length] in HL; try discriminate; cbn [zip_app concat]; [tauto|].
  rewrite !in_app_iff, (IH b) by lia. tauto.
Qed.

Lemma in_stack z n : forall blocks rest, Forall (fun b => length b = n) blocks -> length rest = n ->
  (In z (concat (stack blocks rest)) <-> (exists b, In b blocks /\ In z (concat b)) \/ In z (concat rest)).
Proof.
  induction blocks as [|b bl IH]; intros rest F Hr; cbn [stack fold_right].
  - split; [auto|]. intros [(b & [] & _)|H]; exact H.
  - fold (stack bl rest). apply Forall_cons_iff in F. destruct F as [Lb Fb].
    rewrite in_concat_zip_app by (rewrite (stack_length n bl rest Fb Hr); exact Lb).
    rewrite (IH rest Fb Hr). split.
    + intros [H|[(b' & Hb' & Hz)|H]]; [left; exists b; split; [left; reflexivity|exact H]|left; exists b'; split; [right; exact Hb'|exact Hz]|right; exact H].
    + intros [(b' & [<-|Hb'] & Hz)|H]; [left; exact Hz|right; left; eauto|right; right; exact H].
Qed.

Lemma zip_app_nil_l : forall b n, length b = n -> zip_app (repeat [] n) b = b.
Proof. induction b as [|y b IH]; intros [|n] H; cbn in *; try discriminate; [reflexivity|]. rewrite IH by lia. reflexivity. Qed.

Lemma zip_app_uniform : forall (b s : list (list Z)) k mm, length b = length s ->
  Forall (fun c => length c = k) b -> Forall (fun c => length c = mm) (zip_app b s) ->
  Forall (fun c => length c = (mm - k)%nat) s /\ (k <= mm \/ length s = 0)%nat.
Proof.
  induction b as [|x b IH]; intros [|y s] k mm HL Fb U; cbn [length] in HL; try discriminate.
  - split; [constructor|right; reflexivity].
  - cbn [zip_app] in U. apply Forall_cons_iff in U. destruct U as [Hx U]. apply Forall_cons_iff in Fb. destruct Fb as [Lx Fb].
    rewrite app_length, Lx in Hx. destruct (IH s k mm ltac:(lia) Fb U) as [A B].
    split; [constructor; [lia|exact A]|left; lia].
Qed.

Lemma blocks_samples_app a b : EP.blocks_samples (a ++ b) = EP.blocks_samples a + EP.blocks_samples b.
Proof. unfold EP.blocks_samples. induction a as [|x a IH]; cbn [app fold_right]; [lia|]. rewrite IH. lia. Qed.

Lemma all_nil (l : list (list Z)) : Forall (fun c => length c = 0%nat) l -> l = repeat [] (length l).
Proof. induction 1 as [|c l Hc _ IH]; cbn [length repeat]; [reflexivity|]. destruct c; [|discriminate]. f_equal. exact IH. Qed.

(* a block in range from a shaped block *)
Lemma shaped_block_ok si ch bs m (blk : block) :
  1 <= ch -> ch <= 8 -> 1 <= bps -> bps <= 32 ->
  FlacCodec.Ast.si_bps si = bps -> FlacCodec.Ast.si_channels si = ch -> FlacCodec.Ast.si_max_bs si = bs -> bs <= 65535 ->
  length blk = N.to_nat ch -> Forall (fun c => length c = m) blk -> (1 <= m)%nat -> N.of_nat m <= bs ->
  forallb (FlacCodec.Wf.fits bps) (concat blk) = true ->
  EP.block_ok si bps blk /\ FlacCodec.Enc.block_len blk = N.of_nat m.
Proof.
  intros Hc1 Hc8 Hb1 Hb32 Sb Sc Sm Hbs Lb Fl Hm Hmb Hfit. split.
  - unfold EP.block_ok. rewrite Lb. split; [lia|]. split; [exact Hb1|]. split; [exact Hb32|]. split; [exact Sb|].
    split; [rewrite Sc; lia|]. exists (N.of_nat m). split; [lia|]. split; [lia|]. split; [rewrite Sm; exact Hmb|].
    apply Forall_forall. intros c Hc. rewrite Forall_forall in Fl. split; [rewrite (Fl _ Hc); reflexivity|].
    apply forallb_forall. intros z Hz. rewrite forallb_forall in Hfit. apply Hfit. apply in_concat. exists c. auto.
  - destruct blk as [|c0 r]; [cbn in Lb; lia|]. cbn [FlacCodec.Enc.block_len]. apply Forall_cons_iff in Fl. destruct Fl as [-> _]. reflexivity.
Qed.

Theorem e2e_channel_pcm wo ch total w chunks f :
  options_wf wo ->
  channel_new p [] wo rate bps ch total = Ok w ->
  Forall (chunk_ok (N.to_nat ch)) chunks ->
  channel_run (encB o L rate bps) md5 p w chunks = Ok f ->
  let all := cconcat (N.to_nat ch) chunks in
  forallb (FlacCodec.Wf.fits bps) (concat all) = true ->
  N.of_nat (length (hd [] all)) < 2 ^ 36 ->
  exists blocks,
    CS.dec_stream (f_stream f) = Some (conv_si (f_si f), map CS.interleave_frame blocks, CS.EndEof) /\
    stack blocks (repeat [] (N.to_nat ch)) = all /\
    (* the blocks themselves, for the readers area *)
    Forall (EP.block_ok (conv_si (f_si f)) bps) blocks /\ EP.short_only_last (conv_si (f_si f)) blocks /\
    FlacCodec.Ast.si_total (conv_si (f_si f)) = EP.blocks_samples blocks /\
    FlacCodec.Ast.si_channels (conv_si (f_si f)) = ch /\ EP.blocks_samples blocks < 2 ^ 36 /\
    (* C02: the strict stream validator accepts the finished file and yields the same blocks *)
    FlacCodec.Spec.spec_stream (f_stream f) = Ok (conv_si (f_si f), blocks).
Proof.
  intros Hwf Hnew Hchunks Hrun all Hfits Hlen36.
  pose proof (channel_new_wf p [] wo rate bps ch total w Hwf Hnew) as Hcw.
  destruct Hwf as ((Hbs16 & Hbs64k) & _).
  unfold channel_new in Hnew. apply bind_ok in Hnew. destruct Hnew as (bps' & Hbps' & Hnew).
  apply bind_ok in Hnew. destruct Hnew as (t & Ht & Hnew). apply bind_ok in Hnew. destruct Hnew as (e0 & He0 & Hnew).
  injection Hnew as <-.
  assert (Eb : bps' = bps /\ 1 <= bps /\ bps <= 32).
  { unfold signed_bit_count_32 in Hbps'. destruct ((1 <=? bps) && (bps <=? 32)) eqn:Eq; [|discriminate]. injection Hbps' as <-.
    apply andb_prop in Eq. destruct Eq as [A B]. apply N.leb_le in A, B. auto. }
  destruct Eb as (-> & Hb1 & Hb32).
  assert (Hch : 1 <= ch /\ ch <= 8).
  { unfold encoder_new in He0. apply bind_ok in He0. destruct He0 as ([] & Hv & _). unfold encoder_new_validate in Hv.
    destruct (rate <? 1048576); [|discriminate]. destruct ((1 <=? ch) && (ch <=? 8)) eqn:Eq; [|discriminate].
    apply andb_prop in Eq. destruct Eq as [A B]. apply N.leb_le in A, B. auto. }
  destruct Hch as [Hc1 Hc8].
  set (bs := o_block_size wo) in *. set (n := N.to_nat ch) in *.
  destruct (encoder_new_fresh p rate bps wo ch t e0 He0) as (P0 & F0 & K0 & W0 & Sr & Sb & Sc & Smax & Smin & St).
  assert (Ecw : cw_chan {| cw_enc := e0; cw_bufs := repeat [] n; cw_channels := ch; cw_frame_sample_size := bs;
                           cw_bytes_per_sample := bytes_per_sample_of bps |} = n) by (unfold cw_chan; cbn; rewrite Sc; reflexivity).
  rewrite (channel_chunking (encB o L rate bps) md5 p _ chunks Hcw) in Hrun by (rewrite Ecw; exact Hchunks).
  rewrite Ecw in Hrun. fold all in Hrun.
  destruct (cconcat_ok n chunks Hchunks) as [Lall [m Uall]]. fold all in Lall, Uall.
  (* one write of everything, then finalize *)
  unfold channel_run in Hrun. cbn [fold_res] in Hrun. apply bind_ok in Hrun. destruct Hrun as (w1 & Hw1 & Hfin).
  apply bind_ok in Hw1. destruct Hw1 as (w1' & Hw1 & Hw1'). injection Hw1' as <-.
  unfold channel_write in Hw1. cbn [cw_enc cw_bufs cw_channels cw_frame_sample_size cw_bytes_per_sample] in Hw1.
  destruct all as [|first rest0] eqn:Eall; [cbn in Lall; unfold n in Lall; lia|]. rewrite <- Eall in *.
  rewrite Lall, Sc in Hw1. unfold n in Hw1. rewrite N2Nat.id, N.eqb_refl in Hw1. fold n in Hw1.
  destruct (existsb _ rest0); [discriminate|].
  rewrite (zip_app_nil_l all n Lall) in Hw1.
  destruct (N.eqb_spec bs 0) as [|Hk0]; [lia|].
  set (k := N.to_nat bs) in *. assert (Hk : (0 < k)%nat) by (unfold k; lia).
  destruct (cdrain k all) as [blocks rest] eqn:Ed.
  apply bind_ok in Hw1. destruct Hw1 as (e1 & He1 & Hw1). injection Hw1 as <-.
  assert (Hne : all <> []) by (rewrite Eall; discriminate).
  destruct (cdrain_spec k Hk all blocks rest Hne Ed) as (Est & Fsh & Lrest & Hshort). rewrite Lall in Fsh, Lrest.
  pose proof (chan_chunks_reach _ _ _ _ _ He1) as Hr1.
  (* lengths: every channel of `all` has m samples = k * #blocks + r, r < k, and rest is uniform of length r *)
  pose proof (shaped_len _ _ _ Fsh) as Fbl.
  assert (Hrest_u : exists r, Forall (fun c => length c = r) rest /\ (r < k)%nat /\ m = (k * length blocks + r)%nat).
  { (* from the head channel and uniformity of all = stack blocks rest *)
    assert (G : forall bl rs mm, Forall (shaped k n) bl -> length rs = n -> Forall (fun c => length c = mm) (stack bl rs) ->
              Forall (fun c => length c = (mm - k * length bl)%nat) rs /\ (k * length bl <= mm \/ n = 0)%nat).
    { clear. induction bl as [|b bl IH]; intros rs mm F Lr U; cbn [stack fold_right length] in *.
      - rewrite Nat.mul_0_r, Nat.sub_0_r. split; [exact U|lia].
      - fold (stack bl rs) in U. apply Forall_cons_iff in F. destruct F as [[Lb Fb] F].
        assert (Ls : length (stack bl rs) = n) by (apply stack_length; [eapply shaped_len; eauto|exact Lr]).
        destruct (zip_app_uniform b (stack bl rs) k mm ltac:(lia) Fb U) as [U' Hle0].
        assert (Hle : (k <= mm \/ n = 0)%nat) by lia.
 destruct (IH rs (mm - k)%nat F Lr U') as [A B].
        split; [|lia]. eapply Forall_impl; [|exact A]. intros c Hc. rewrite Hc. lia. }
    rewrite Est in Uall. destruct (G blocks rest m Fsh Lrest Uall) as [A B].
    exists (m - k * length blocks)%nat. split; [exact A|].
    assert (Hn1 : (1 <= n)%nat) by (unfold n; lia).
    (* has_short: some channel of rest is shorter than k; all have the same length *)
    assert (Hlt : (m - k * length blocks < k)%nat).
    { unfold has_short in Hshort. apply existsb_exists in Hshort. destruct Hshort as (c & Hc & Hl). apply Nat.ltb_lt in Hl.
      rewrite Forall_forall in A. rewrite (A c Hc) in Hl. exact Hl. }
    split; [exact Hlt|]. destruct B as [B|B]; [|lia]. rewrite Nat.add_comm, Nat.sub_add; [reflexivity|exact B]. }
  destruct Hrest_u as (r & Urest & Hrk & Hm).
  (* finalize *)
  unfold channel_finalize in Hfin. cbn [cw_bufs cw_channels cw_bytes_per_sample cw_enc] in Hfin.
  destruct rest as [|c0 rest'] eqn:Erest; [cbn in Lrest; unfold n in Lrest; lia|]. rewrite <- Erest in *.
  apply bind_ok in Hfin. destruct Hfin as (e2 & He2 & Hfin).
  assert (Lc0 : length c0 = r) by (rewrite Erest in Urest; apply Forall_cons_iff in Urest; tauto).
  assert (Hlast : exists lastbl, reach o L p rate bps e1 lastbl e2 /\ lastbl = (if (r =? 0)%nat then [] else [rest])).
  { rewrite Lc0 in He2. destruct (Nat.eqb_spec r 0); cbn [negb] in He2.
    - injection He2 as <-. exists []. split; [apply reach_refl|reflexivity].
    - exists [rest]. split; [eapply chan_chunk_reach; exact He2|reflexivity]. }
  destruct Hlast as (lastbl & Hr2 & Elast).
  pose proof (reach_trans o L p rate bps _ _ _ _ _ Hr1 Hr2) as Hr.
  destruct (finalize_si md5 p e2 f Hfin) as (Ef & Fr & Fc & Fb & Fmax & Fmin).
  destruct (reach_inv o L md5 md5_length p rate bps e0 _ e2 Hr) as (_ & R1 & R2 & R3 & R4 & R5 & _).
  set (si := conv_si (f_si f)).
  assert (Ssb : FlacCodec.Ast.si_bps si = bps) by (unfold si, conv_si; cbn [FlacCodec.Ast.si_bps]; rewrite Fb, R3, Sb; reflexivity).
  assert (Ssc : FlacCodec.Ast.si_channels si = ch) by (unfold si, conv_si; cbn [FlacCodec.Ast.si_channels]; rewrite Fc, R2, Sc; reflexivity).
  assert (Ssm : FlacCodec.Ast.si_max_bs si = bs) by (unfold si, conv_si; cbn [FlacCodec.Ast.si_max_bs]; rewrite Fmax, R5, Smax; reflexivity).
  (* every sample of every block is a sample of the input *)
  assert (Hin : forall b, In b (blocks ++ lastbl) -> forallb (FlacCodec.Wf.fits bps) (concat b) = true).
  { intros b Hb. apply forallb_forall. intros z Hz. rewrite forallb_forall in Hfits. apply Hfits.
    rewrite Est. apply (in_stack z n blocks rest Fbl Lrest). apply in_app_or in Hb. destruct Hb as [Hb|Hb].
    - left. eauto.
    - rewrite Elast in Hb. destruct (r =? 0)%nat; [destruct Hb|]. destruct Hb as [<-|[]]. right. exact Hz. }
  assert (Hok : Forall (EP.block_ok si bps) (blocks ++ lastbl) /\ Forall (fun b => 14 < FlacCodec.Enc.block_len b) blocks /\
                EP.blocks_samples (blocks ++ lastbl) <= N.of_nat m).
  { split; [|split].
    - apply Forall_forall. intros b Hb. pose proof (Hin b Hb) as Hf. apply in_app_or in Hb. destruct Hb as [Hb|Hb].
      + rewrite Forall_forall in Fsh. destruct (Fsh b Hb) as [Lb Fb'].
        apply (shaped_block_ok si ch bs k b Hc1 Hc8 Hb1 Hb32 Ssb Ssc Ssm ltac:(lia) Lb Fb' ltac:(lia) ltac:(unfold k; lia) Hf).
      + rewrite Elast in Hb. destruct (Nat.eqb_spec r 0); [destruct Hb|]. destruct Hb as [<-|[]].
        apply (shaped_block_ok si ch bs r rest Hc1 Hc8 Hb1 Hb32 Ssb Ssc Ssm ltac:(lia) Lrest Urest ltac:(lia) ltac:(unfold k in Hrk; lia) Hf).
    - apply Forall_forall. intros b Hb. rewrite Forall_forall in Fsh. destruct (Fsh b Hb) as [Lb Fb'].
      destruct b as [|x b']; [cbn in Lb; unfold n in Lb; lia|]. cbn [FlacCodec.Enc.block_len]. apply Forall_cons_iff in Fb'. destruct Fb' as [-> _]. unfold k. lia.
    - assert (S1 : EP.blocks_samples blocks = N.of_nat (k * length blocks)).
      { clear - Fsh Hc1. unfold EP.blocks_samples. induction Fsh as [|b l [Lb Fb'] _ IH]; cbn [fold_right length]; [lia|].
        rewrite IH. destruct b as [|x b']; [cbn in Lb; unfold n in Lb; lia|]. cbn [FlacCodec.Enc.block_len].
        apply Forall_cons_iff in Fb'. destruct Fb' as [-> _]. lia. }
      assert (S2 : EP.blocks_samples lastbl = N.of_nat r).
      { rewrite Elast. destruct (Nat.eqb_spec r 0) as [->|]; [reflexivity|]. unfold EP.blocks_samples. cbn [fold_right].
        rewrite Erest. cbn [FlacCodec.Enc.block_len]. rewrite Lc0. lia. }
      rewrite blocks_samples_app, S1, S2, Hm. lia. }
  destruct Hok as (Hok & H14 & Hsum).
  assert (Hm36 : N.of_nat m < 2 ^ 36).
  { rewrite Eall in Uall. apply Forall_cons_iff in Uall. destruct Uall as [Lf _]. rewrite Eall in Hlen36. cbn [hd] in Hlen36. lia. }
  assert (H3664 : 2 ^ 36 < 2 ^ 64) by (apply N.pow_lt_mono_r; lia).
  assert (Hcnt : N.of_nat (length (blocks ++ lastbl)) <= N.of_nat m).
  { rewrite app_length, Elast. destruct (Nat.eqb_spec r 0); cbn [length]; nia. }
  assert (Hshape : EP.short_only_last si (blocks ++ lastbl)).
  { apply short_only_last_app; [exact H14|]. rewrite Elast. destruct (r =? 0)%nat; cbn; lia. }
  destruct (e2e_encoder o L md5 md5_length p rate bps wo ch t e0 (blocks ++ lastbl) e2 f He0 Hr Hfin Hok Hshape) as [Hdec Htot].
  { unfold FlacCodec.Header.MAX_FRAME_NUMBER. change (2 ^ 36 - 1 + 1) with (2 ^ 36). lia. }
  { lia. }
  assert (Hfull : FlacCodec.File.full_but_last si (blocks ++ lastbl)).
  { apply full_but_last_app; [|rewrite Elast; destruct (r =? 0)%nat; cbn; lia]. rewrite Ssm.
    apply Forall_forall. intros b Hb. rewrite Forall_forall in Fsh. destruct (Fsh b Hb) as [Lb Fb'].
    destruct b as [|x b']; [cbn in Lb; unfold n in Lb; lia|]. cbn [FlacCodec.Enc.block_len]. apply Forall_cons_iff in Fb'. destruct Fb' as [-> _]. unfold k. lia. }
  assert (Hspec : FlacCodec.Spec.spec_stream (f_stream f) = Ok (si, blocks ++ lastbl)).
  { apply (e2e_encoder_spec o L md5 md5_length p rate bps wo ch t e0 (blocks ++ lastbl) e2 f He0 Hr Hfin Hok Hfull).
    - unfold FlacCodec.Header.MAX_FRAME_NUMBER. change (2 ^ 36 - 1 + 1) with (2 ^ 36). lia.
    - lia.
    - fold bs. lia. }
  exists (blocks ++ lastbl). split; [exact Hdec|].
  split; [|split; [exact Hok|split; [exact Hshape|split; [exact Htot|split; [exact Ssc|split; [lia|exact Hspec]]]]]].
  rewrite stack_app. rewrite Est. f_equal. rewrite Elast.
  destruct (Nat.eqb_spec r 0) as [E0|].
  - cbn [stack fold_right]. rewrite E0 in Urest. rewrite <- Lrest. symmetry. apply all_nil. exact Urest.
  - cbn [stack fold_right]. rewrite <- Lrest. apply zip_app_nil_r.
Qed.

End ChannelE2E.
