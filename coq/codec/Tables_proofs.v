(* Codec/Tables_proofs.v — the model's code tables equal the ones the translator extracted from
   src/stream.rs on this run (tools/gen_stream.py), and they are the RFC 9639 tables. *)
From FlacCodec Require Import Header Subframe GenStream.
Open Scope N_scope.

Definition codes16 : list N := map N.of_nat (seq 0 16).
Definition lookup (t : list (N * N)) (c : N) : option N :=
  match find (fun p => fst p =? c) t with Some p => Some (snd p) | None => None end.

Lemma bs_table_matches_source : forallb (fun c => match bs_of_code c, lookup gen_bs_table c with
    | Some a, Some b => a =? b | None, None => true | _, _ => false end) codes16 = true.
Proof. vm_compute. reflexivity. Qed.
Lemma bs_uncommon_matches_source : gen_bs_uncommon = [6; 7].
Proof. reflexivity. Qed.
Lemma rate_table_matches_source : forallb (fun c => match rate_of_code c, lookup gen_rate_table c with
    | Some a, Some b => a =? b | None, None => true | _, _ => false end) codes16 = true.
Proof. vm_compute. reflexivity. Qed.
Lemma rate_special_matches_source :
  (gen_rate_streaminfo, gen_rate_khz, gen_rate_hz, gen_rate_dhz) = (0, 12, 13, 14).
Proof. reflexivity. Qed.
Lemma bps_table_matches_source : forallb (fun c => match bps_of_code c, lookup gen_bps_table c with
    | Some a, Some b => a =? b | None, None => true | _, _ => false end) codes16 = true.
Proof. vm_compute. reflexivity. Qed.
Lemma bps_special_matches_source : gen_bps_streaminfo = 0.
Proof. reflexivity. Qed.
Lemma channel_codes_match_source :
  forallb (fun p => (fst p <? 8) && (assign_channels (fst p) =? snd p)) gen_chan_independent = true /\
  length gen_chan_independent = 8%nat /\
  (gen_chan_left_side, gen_chan_side_right, gen_chan_mid_side) = (8, 9, 10).
Proof. vm_compute. auto. Qed.
Lemma sync_matches_source : gen_sync_code = SYNC_CODE /\ gen_max_frame_number = MAX_FRAME_NUMBER.
Proof. vm_compute. auto. Qed.
Lemma fixed_coeffs_match_source : map fixed_coeffs [0; 1; 2; 3; 4] = gen_fixed_coeffs.
Proof. reflexivity. Qed.
Lemma subframe_codes_match_source : gen_subframe_codes = [8; 12; 8; 32; 63; 31].
Proof. reflexivity. Qed.
Lemma writer_codes_match_reader_codes : gen_writer_reader_code_mismatches = 0.
Proof. reflexivity. Qed.

(* FIXED predictor coefficients are the binomial ones: order-k polynomial extrapolation *)
Lemma fixed_coeffs_binomial : map fixed_coeffs [0; 1; 2; 3; 4] =
  [[]; [1]; [2; -1]; [3; -3; 1]; [4; -6; 4; -1]]%Z.
Proof. reflexivity. Qed.
