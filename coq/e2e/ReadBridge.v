(* E2E/ReadBridge.v — the readers area's abstract file (a list of frame slots, each decoding to its frame) for
   the blocks an encoder run produced: it is a valid file in the sense of C06/C07, its expected PCM is the
   codec area's interleaving of the blocks, and every slot is backed by bytes that the codec area's frame decoder
   turns into exactly that frame.  With C07 the three reader front-end models deliver the written samples. *)
From Coq Require Import List NArith ZArith Lia.
From FlacBase Require Import Res.
From FlacCodec Require Ast Stream Header Wf Enc Enc_proofs Dec.
From FlacReaders Require Readers Spec Ser RNum Seek Props_C07.
From FlacE2E Require Import Sample.
Import ListNotations.
Open Scope N_scope.
Local Arguments N.add : simpl never.
Local Arguments N.mul : simpl never.
Local Arguments N.div : simpl never.

Module R := FlacReaders.Readers.
Module RS := FlacReaders.Spec.
Module Ser := FlacReaders.Ser.
Module EP := FlacCodec.Enc_proofs.
Module CS := FlacCodec.Stream.

(* the two interleavings (audio.rs MultiZip in the readers area, the decoder's in the codec area) agree on
   frames whose channels have one length *)
Lemma heads_tails_uniform k : forall cs, Forall (fun c : list Z => length c = S k) cs ->
  Ser.heads_tails cs = Some (map (hd 0%Z) cs, map (@tl Z) cs) /\
  existsb (fun c => match c with [] => true | _ => false end) cs = false /\
  Forall (fun c => length c = k) (map (@tl Z) cs).
Proof.
  induction cs as [|c cs IH]; intros F; cbn [Ser.heads_tails map existsb]; [repeat split; constructor|].
  apply Forall_cons_iff in F. destruct F as [Lc Fr]. destruct (IH Fr) as (A & B & C).
  destruct c as [|x t]; [discriminate|]. rewrite A. cbn [hd tl]. rewrite B. repeat split.
  constructor; [cbn in Lc; lia|exact C].
Qed.

Lemma interleave_agree : forall n cs, Forall (fun c : list Z => length c = n) cs ->
  Ser.multizip n cs = il n cs.
Proof.
  induction n as [|k IH]; intros cs F; cbn [Ser.multizip il]; [reflexivity|].
  destruct (heads_tails_uniform k cs F) as (A & B & C). rewrite A, B, (IH _ C). reflexivity.
Qed.

Lemma interleave_frame_agree (f : list (list Z)) n : f <> [] -> Forall (fun c => length c = n) f ->
  Ser.interleave f = CS.interleave_frame f.
Proof.
  intros Hne F. unfold Ser.interleave. rewrite interleave_frame_il.
  destruct f as [|c0 r]; [congruence|]. cbn [hd]. apply Forall_cons_iff in F as F'. destruct F' as [L0 _].
  rewrite L0. apply interleave_agree. exact F.
Qed.

(* the abstract file of a list of blocks *)
Definition file_of_blocks (blocks : list (list (list Z))) (ch bps : N) (total : option N)
           (e : Ser.endian) (p : FlacReaders.RNum.profile) : R.file :=
  {| R.f_slots := map R.SFrame blocks; R.f_channels := ch; R.f_bps := bps; R.f_total := total;
     R.f_table := None; R.f_seekable := false; R.f_endian := e; R.f_profile := p;
     R.f_usize_bits := 64; R.f_rev := R.Repaired |}.

Lemma slot_frames blocks : RS.frames_of (map R.SFrame blocks) = blocks.
Proof. unfold RS.frames_of. rewrite map_map. cbn [RS.slot_frame]. apply map_id. Qed.

Lemma block_ok_wf si bps b : EP.block_ok si bps b ->
  RS.wf_frame (FlacCodec.Ast.si_channels si) b /\ Ser.pcm_frames b = FlacCodec.Enc.block_len b /\
  exists n, b <> [] /\ Forall (fun c => length c = n) b /\ (1 <= n)%nat.
Proof.
  intros (Hch & _ & _ & _ & Hsc & n & Hn1 & Hn2 & _ & Hall).
  destruct b as [|c0 r]; [cbn in Hch; lia|].
  assert (Hc0 : N.of_nat (length c0) = n) by (apply Forall_cons_iff in Hall; tauto).
  assert (Hpf : Ser.pcm_frames (c0 :: r) = n) by (cbn [Ser.pcm_frames]; unfold FlacReaders.RNum.lenN; exact Hc0).
  split; [|split].
  - unfold RS.wf_frame. rewrite Hpf. unfold FlacReaders.RNum.lenN. split; [lia|]. split; [lia|].
    eapply Forall_impl; [|exact Hall]. intros c [A _]. exact A.
  - rewrite Hpf. cbn [FlacCodec.Enc.block_len]. lia.
  - exists (N.to_nat n). split; [discriminate|]. split; [|lia].
    eapply Forall_impl; [|exact Hall]. intros c [A _]. lia.
Qed.

Lemma sumlen_blocks blocks si bps : Forall (EP.block_ok si bps) blocks ->
  RS.sumlen (map R.SFrame blocks) = EP.blocks_samples blocks.
Proof.
  induction 1 as [|b l Hb _ IH]; cbn [map RS.sumlen EP.blocks_samples fold_right]; [reflexivity|].
  fold (EP.blocks_samples l). cbn [RS.slot_frame]. rewrite IH. destruct (block_ok_wf _ _ _ Hb) as (_ & E & _). rewrite E. reflexivity.
Qed.

(* the file is valid in the sense of the readers area ... *)
Theorem blocks_valid_file si bps blocks e p :
  Forall (EP.block_ok si bps) blocks -> EP.short_only_last si blocks ->
  FlacCodec.Ast.si_total si = EP.blocks_samples blocks -> 1 <= EP.blocks_samples blocks ->
  1 <= bps -> bps <= 32 -> EP.blocks_samples blocks < 2 ^ 36 ->
  RS.valid_file (file_of_blocks blocks (FlacCodec.Ast.si_channels si) bps (Some (EP.blocks_samples blocks)) e p).
Proof.
  intros Hall Hshape Htot Hpos Hb1 Hb32 Hlt.
  assert (Hch : 1 <= FlacCodec.Ast.si_channels si <= 8).
  { destruct blocks as [|b l]; [cbn in Hpos; lia|]. apply Forall_cons_iff in Hall. destruct Hall as [(Hc & _ & _ & _ & Hsc & _) _]. lia. }
  constructor; cbn [file_of_blocks R.f_channels R.f_bps R.f_slots R.f_total R.f_table R.f_usize_bits R.f_rev].
  - lia.
  - unfold Ser.bytes_per_sample. split; [apply N.div_le_lower_bound; lia|]. apply N.lt_succ_r. apply N.div_lt_upper_bound; lia.
  - apply Forall_forall. intros s Hs. apply in_map_iff in Hs. destruct Hs as (b & <- & Hb). exists b. split; [reflexivity|].
    rewrite Forall_forall in Hall. apply (block_ok_wf _ _ _ (Hall b Hb)).
  - unfold RS.total_frames. cbn [R.f_slots file_of_blocks]. symmetry. eapply sumlen_blocks; eauto.
  - (* only the last block may be short *)
    intros _ pre s post Esl Hpost.
    assert (Hex : exists pre' b post', blocks = pre' ++ b :: post' /\ s = R.SFrame b /\ post' <> []).
    { clear - Esl Hpost. revert pre Esl. induction blocks as [|b0 bl IH]; intros pre Esl; [destruct pre; discriminate|].
      destruct pre as [|p0 pre]; cbn [map app] in Esl.
      - injection Esl as <- E. exists [], b0, bl. repeat split. intros ->. cbn in E. congruence.
      - injection Esl as _ E. destruct (IH pre E) as (pre' & b & post' & -> & Hs & Hp). exists (b0 :: pre'), b, post'. auto. }
    destruct Hex as (pre' & b & post' & -> & -> & Hp). cbn [RS.slot_frame].
    assert (Hb : EP.block_ok si bps b) by (rewrite Forall_forall in Hall; apply Hall; apply in_or_app; right; left; reflexivity).
    destruct (block_ok_wf _ _ _ Hb) as (_ & -> & _).
    assert (Hnz : FlacCodec.Ast.si_total si <> 0) by lia.
    clear - Hshape Hp Hnz. induction pre' as [|a l IH]; cbn [app EP.short_only_last] in Hshape.
    + destruct Hshape as [[E|[H|H]] _]; [congruence|exact H|congruence].
    + apply IH. destruct Hshape as [_ H]. exact H.
  - exact I.
  - unfold RS.total_frames, FlacReaders.Seek.bytes_per_pcm_frame. cbn [R.f_slots R.f_bps R.f_channels file_of_blocks].
    rewrite (sumlen_blocks blocks si bps Hall). unfold FlacReaders.RNum.U64, Ser.bytes_per_sample.
    assert (Hq : (bps + 7) / 8 <= 4) by (apply N.lt_succ_r; apply N.div_lt_upper_bound; lia).
    set (bp := (bps + 7) / 8) in *. clearbody bp.
    change (2 ^ 36) with 68719476736 in Hlt.
    assert (bp * FlacCodec.Ast.si_channels si <= 4 * 8) by (apply N.mul_le_mono; lia).
    assert (EP.blocks_samples blocks * (bp * FlacCodec.Ast.si_channels si) <= 68719476736 * 32) by (apply N.mul_le_mono; lia). lia.
  - reflexivity.
  - reflexivity.
Qed.

(* ... and the PCM the readers area expects from it is the codec area's interleaving of the blocks *)
Theorem blocks_pcm si bps blocks ch total e p : Forall (EP.block_ok si bps) blocks ->
  RS.pcm (file_of_blocks blocks ch bps total e p) = concat (map CS.interleave_frame blocks).
Proof.
  intros Hall. unfold RS.pcm, RS.sdata. cbn [file_of_blocks R.f_slots]. rewrite slot_frames. f_equal.
  apply map_ext_in. intros b Hb. rewrite Forall_forall in Hall. destruct (block_ok_wf _ _ _ (Hall b Hb)) as (_ & _ & n & Hne & Hf & _).
  eapply interleave_frame_agree; eauto.
Qed.

(* ---- the same file with a seek table and a seekable source: valid as soon as every defined point (sample, frame
   index) names a frame and that frame's first sample ---- *)
Definition file_of_blocks_seek (blocks : list (list (list Z))) (ch bps : N) (total : option N)
           (table : list R.seekpoint) (e : Ser.endian) (p : FlacReaders.RNum.profile) : R.file :=
  {| R.f_slots := map R.SFrame blocks; R.f_channels := ch; R.f_bps := bps; R.f_total := total;
     R.f_table := Some table; R.f_seekable := true; R.f_endian := e; R.f_profile := p;
     R.f_usize_bits := 64; R.f_rev := R.Repaired |}.

Lemma sumlen_firstn_blocks si bps blocks k : Forall (EP.block_ok si bps) blocks ->
  RS.sumlen (FlacReaders.RNum.takeN (N.of_nat k) (map R.SFrame blocks)) = EP.blocks_samples (firstn k blocks).
Proof.
  intros Hall. rewrite FlacReaders.Lists_proofs.takeN_firstn, Nat2N.id, firstn_map.
  apply (sumlen_blocks (firstn k blocks) si bps).
  apply Forall_forall. intros b Hb. rewrite Forall_forall in Hall. apply Hall.
  rewrite <- (firstn_skipn k blocks). apply in_or_app. left. exact Hb.
Qed.

Theorem blocks_valid_file_seek si bps blocks table e p :
  Forall (EP.block_ok si bps) blocks -> EP.short_only_last si blocks ->
  FlacCodec.Ast.si_total si = EP.blocks_samples blocks -> 1 <= EP.blocks_samples blocks ->
  1 <= bps -> bps <= 32 -> EP.blocks_samples blocks < 2 ^ 36 ->
  (forall o i, In (R.Defined o i) table ->
     exists pre post, blocks = pre ++ post /\ i = N.of_nat (length pre) /\ o = EP.blocks_samples pre) ->
  RS.valid_file (file_of_blocks_seek blocks (FlacCodec.Ast.si_channels si) bps (Some (EP.blocks_samples blocks)) table e p).
Proof.
  intros Hall Hshape Htot Hpos Hb1 Hb32 Hlt Htab.
  destruct (blocks_valid_file si bps blocks e p Hall Hshape Htot Hpos Hb1 Hb32 Hlt) as [V1 V2 V3 V4 V5 _ V7 V8 V9].
  constructor; try assumption.
  unfold RS.truthful. cbn [file_of_blocks_seek R.f_table R.f_slots]. intros o i Hin.
  destruct (Htab o i Hin) as (pre & post & Eb & -> & ->). split.
  - unfold FlacReaders.RNum.lenN. rewrite map_length, Eb, app_length. lia.
  - rewrite (sumlen_firstn_blocks si bps blocks (length pre) Hall). rewrite Eb, firstn_app, Nat.sub_diag, firstn_all. cbn [firstn]. rewrite app_nil_r. reflexivity.
Qed.

Theorem blocks_pcm_seek si bps blocks ch total table e p : Forall (EP.block_ok si bps) blocks ->
  RS.pcm (file_of_blocks_seek blocks ch bps total table e p) = concat (map CS.interleave_frame blocks).
Proof. intros Hall. exact (blocks_pcm si bps blocks ch total e p Hall). Qed.
