//! The input/option space of C01 (shared by C02, C14, C17, C19): configurations, PCM shapes,
//! the three writer front-ends with arbitrary chunking.
use flac_codec::byteorder::{BigEndian, LittleEndian};
use flac_codec::encode::{FlacByteWriter, FlacChannelWriter, FlacSampleWriter, Options, Window};
use flac_codec::Error;
use std::io::{Cursor, Seek, Write};
use std::mem::ManuallyDrop;
use vharness::json::{esc, obj};
use vharness::*;

#[derive(Clone, Debug, PartialEq)]
pub enum Win {
    Rect,
    Hann,
    Tukey(f32),
}

#[derive(Clone, Debug, PartialEq)]
pub enum SeekPol {
    Default,
    Seconds(u8),
    Frames(usize),
    None,
}

#[derive(Clone, Debug)]
pub struct Cfg {
    pub ch: u8,
    pub bps: u32,
    pub rate: u32,
    pub bs: u16,
    pub lpc: Option<u8>,
    pub po: u32,
    pub mid_side: bool,
    pub fast: bool,
    pub win: Win,
    pub declare_total: bool,
    pub seek: SeekPol,
    pub padding: Option<u32>, // None = default (4096), Some(0) = none
}

impl Default for Cfg {
    fn default() -> Self {
        Cfg { ch: 1, bps: 16, rate: 44100, bs: 4096, lpc: Some(8), po: 5, mid_side: true, fast: false, win: Win::Tukey(0.5), declare_total: true, seek: SeekPol::None, padding: Some(0) }
    }
}

impl Cfg {
    pub fn options(&self) -> Result<Options, String> {
        let mut o = Options::default();
        o = o.block_size(self.bs).map_err(|e| format!("{:?}", e))?;
        o = o.max_lpc_order(self.lpc).map_err(|e| format!("{:?}", e))?;
        o = o.max_partition_order(self.po).map_err(|e| format!("{:?}", e))?;
        o = o.mid_side(self.mid_side).fast_channel_correlation(self.fast);
        o = o.window(match self.win {
            Win::Rect => Window::Rectangle,
            Win::Hann => Window::Hann,
            Win::Tukey(p) => Window::Tukey(p),
        });
        o = match self.seek {
            SeekPol::Default => o,
            SeekPol::Seconds(s) => o.seektable_seconds(s),
            SeekPol::Frames(f) => o.seektable_frames(f),
            SeekPol::None => o.no_seektable(),
        };
        o = match self.padding {
            None => o,
            Some(0) => o.no_padding(),
            Some(n) => o.padding(n).map_err(|e| format!("{:?}", e))?,
        };
        Ok(o)
    }
    pub fn json(&self) -> String {
        obj(&[
            ("ch", self.ch.to_string()), ("bps", self.bps.to_string()), ("rate", self.rate.to_string()), ("bs", self.bs.to_string()),
            ("lpc", match self.lpc { Some(l) => l.to_string(), None => "null".into() }), ("po", self.po.to_string()),
            ("mid_side", self.mid_side.to_string()), ("fast", self.fast.to_string()), ("win", esc(&format!("{:?}", self.win))),
            ("declare_total", self.declare_total.to_string()), ("seek", esc(&format!("{:?}", self.seek))),
            ("padding", match self.padding { Some(n) => n.to_string(), None => "null".into() }),
        ])
    }
    /// configuration values with a known defect that is assigned to another builder and still
    /// present in the tree under test (decided by `probe_known`, not by a list)
    pub fn hits_known_writer_defect(&self, k: &Known) -> bool {
        (self.lpc == Some(32) && k.lpc32) || (self.po >= 7 && k.po7) || (self.bps == 1 && k.bps1)
    }
}

/// Writer-side defects owned by the `writers` area (DESIGN F-C01b, F-C01c, F-C11a).  Each is
/// probed on the tree under test: while the probe still panics the corresponding option value
/// is left out of the C01 space (and reported in the stat line); once it is repaired the
/// value is covered automatically.  `VERIF_ALLOW_KNOWN=1` disables the skipping.
#[derive(Clone, Debug)]
pub struct Known {
    pub lpc32: bool,
    pub po7: bool,
    pub bps1: bool,
}

pub fn probe_known() -> Known {
    if super::allow_known() {
        return Known { lpc32: false, po7: false, bps1: false };
    }
    let mut rng = Rng::new(1, 0xBEEF);
    let probe = |cfg: &Cfg, n: usize, rng: &mut Rng| -> bool {
        let pcm = gen_pcm(rng, "walk", cfg.ch as usize, cfg.bps, n);
        matches!(encode_to_vec(Writer::Samples, cfg, &pcm, &[pcm.len()]), Err(e) if e.starts_with("panic:"))
    };
    let lpc32 = probe(&Cfg { lpc: Some(32), bs: 64, ..Cfg::default() }, 64, &mut rng);
    let po7 = probe(&Cfg { po: 7, bs: 128, ..Cfg::default() }, 128, &mut rng);
    let bps1 = probe(&Cfg { bps: 1, bs: 16, ..Cfg::default() }, 16, &mut rng);
    Known { lpc32, po7, bps1 }
}

/// Sample rates covering every header coding.
pub const RATES_COMMON: &[u32] = &[88200, 176400, 192000, 8000, 16000, 22050, 24000, 32000, 44100, 48000, 96000];
pub const RATES_KHZ: &[u32] = &[1000, 11000, 64000, 100000, 254000];
pub const RATES_HZ: &[u32] = &[1, 7, 11025, 12345, 44101, 65534];
pub const RATES_DHZ: &[u32] = &[65540, 70000 + 10, 123450, 655340];
pub const RATES_SI: &[u32] = &[0, 65535, 65537, 700001, 655351, 1048575, 255000, 256000];

pub fn rate_class(rate: u32) -> &'static str {
    if RATES_COMMON.contains(&rate) { "common" }
    else if rate % 1000 == 0 && rate / 1000 < 255 { "khz" }
    else if rate % 10 == 0 && rate / 10 < 65535 { "dhz" }
    else if rate < 65535 { "hz" }
    else { "streaminfo" }
}

/// Boundary rates of the header codings (kHz: rate/1000 < 255; 10 Hz: rate/10 < 65535; Hz: rate < 65535).
pub const RATES_EDGE: &[u32] = &[253000, 254000, 255000, 256000, 254900, 254990, 65533, 65534, 65535, 65536,
    655330, 655340, 655350, 655360, 655370, 705600, 768000, 1048570, 1048575, 37800, 18900, 11100, 64100, 100, 10, 1100];

pub fn pick_rate(rng: &mut Rng) -> u32 {
    match rng.below(14) {
        0..=3 => *rng.pick(RATES_COMMON),
        4 => *rng.pick(RATES_KHZ),
        5 => *rng.pick(RATES_HZ),
        6 => *rng.pick(RATES_DHZ),
        7 => *rng.pick(RATES_SI),
        8 => rng.below(1 << 20) as u32,
        9 => *rng.pick(RATES_EDGE),
        // structured: a random multiple of 10, 100 or 1000 anywhere in the legal range
        10 => ((rng.below(104857) as u32) * 10) % (1 << 20),
        11 => ((rng.below(10485) as u32) * 100) % (1 << 20),
        12 => ((rng.below(2550) as u32) * 100) % (1 << 20),
        _ => (rng.below(655) as u32) * 1000 % (1 << 20),
    }
}

pub const BS_COMMON: &[u16] = &[192, 576, 1152, 2304, 4608, 256, 512, 1024, 2048, 4096, 8192, 16384, 32768];

pub fn bs_class(bs: u16) -> &'static str {
    if BS_COMMON.contains(&bs) { "common" } else if bs <= 256 { "u8" } else { "u16" }
}

pub fn pick_bs(rng: &mut Rng, small_bias: bool) -> u16 {
    match rng.below(if small_bias { 12 } else { 8 }) {
        0 => *rng.pick(BS_COMMON),
        1 => *rng.pick(&[192u16, 256, 512, 576]),
        2 => rng.range(16, 255) as u16,
        3 => rng.range(257, 4000) as u16,
        4 => *rng.pick(&[16u16, 17, 31, 32, 33, 255, 256, 257, 4095, 4097, 65535, 65534, 32767, 32769]),
        5 => rng.range(4000, 65535) as u16,
        _ => rng.range(16, 80) as u16,
    }
}

pub const WINDOWS: &[Win] = &[Win::Rect, Win::Hann, Win::Tukey(0.5), Win::Tukey(0.0), Win::Tukey(1.0), Win::Tukey(0.01), Win::Tukey(0.99), Win::Tukey(-1.0), Win::Tukey(f32::NAN), Win::Tukey(2.0)];

pub fn random_cfg(rng: &mut Rng, k: &Known) -> Cfg {
    let allow32 = !k.lpc32;
    let allow_po = !k.po7;
    let ch = match rng.below(6) { 0 | 1 => 1, 2 | 3 => 2, _ => rng.range(1, 8) as u8 };
    let bps = match rng.below(6) { 0 => *rng.pick(&[8u32, 16, 24, 32]), 1 => *rng.pick(&[12u32, 20]), 2 => *rng.pick(&[1u32, 2, 3, 4, 31, 32, 17, 15]), _ => rng.range(1, 32) as u32 };
    let bps = if bps == 1 && k.bps1 { 2 } else { bps };
    let lpc = match rng.below(8) {
        0 | 1 => None,
        2 => Some(1),
        3 => Some(if allow32 { 32 } else { 31 }),
        4 => Some(*rng.pick(&[8u8, 12, 16])),
        _ => Some(rng.range(1, if allow32 { 32 } else { 31 }) as u8),
    };
    let po = if allow_po { rng.range(0, 15) as u32 } else { rng.range(0, 6) as u32 };
    Cfg {
        ch,
        bps,
        rate: pick_rate(rng),
        bs: pick_bs(rng, true),
        lpc,
        po,
        mid_side: rng.chance(1, 2),
        fast: rng.chance(1, 2),
        win: rng.pick(WINDOWS).clone(),
        declare_total: rng.chance(1, 2),
        seek: match rng.below(6) { 0 => SeekPol::Default, 1 => SeekPol::Seconds(1), 2 => SeekPol::Frames(1), 3 => SeekPol::Frames(3), _ => SeekPol::None },
        padding: match rng.below(4) { 0 => None, 1 => Some(rng.range(1, 300) as u32), _ => Some(0) },
    }
}

// ---------------------------------------------------------------- PCM shapes
/// PCM kinds beyond `vharness::PCM_KINDS`
pub const EXTRA_KINDS: &[&str] = &["min_adjacent", "steps", "outliers", "alt_small", "stereo_equal", "stereo_opposite", "lpc_friendly", "impulse", "small", "poly", "wrap_saw"];

pub fn all_kinds() -> Vec<&'static str> {
    let mut v: Vec<&'static str> = PCM_KINDS.to_vec();
    v.extend_from_slice(EXTRA_KINDS);
    v
}

pub fn gen_pcm_ext(rng: &mut Rng, kind: &str, ch: usize, bps: u32, frames: usize) -> Vec<i32> {
    if PCM_KINDS.contains(&kind) {
        return gen_pcm(rng, kind, ch, bps, frames);
    }
    let max: i64 = (1i64 << (bps - 1)) - 1;
    let min: i64 = -(1i64 << (bps - 1));
    let clamp = |v: i64| -> i32 { v.max(min).min(max) as i32 };
    let mut out = vec![0i32; ch * frames];
    for c in 0..ch {
        let base = rng.range(min / 2, max / 2);
        let step_every = rng.range(1, 9) as usize;
        let mut level = base;
        for i in 0..frames {
            let v: i64 = match kind {
                // values next to the most negative number, with isolated minima
                "min_adjacent" => if rng.chance(1, 30) { min } else if rng.chance(1, 2) { min + 1 } else { rng.range(0, 1i64.min(max)) },
                "steps" => { if i % step_every == 0 { level = rng.range(min, max); } level }
                // mostly tiny values, rare full-scale outliers: makes the Rice estimate wrong
                "outliers" => if rng.chance(1, 97) { if rng.chance(1, 2) { max } else { min } } else { rng.range((-1i64).max(min), 1i64.min(max)) },
                "alt_small" => if i % 2 == 0 { 1i64.min(max) } else { (-1i64).max(min) },
                "stereo_equal" | "stereo_opposite" => rng.range(min, max),
                "lpc_friendly" => {
                    // a decaying resonance: well predicted by a low-order LPC
                    let t = i as f64;
                    ((t * 0.3).sin() * (t * 0.011).cos() * (max as f64) * 0.7) as i64 + rng.range(-2, 2)
                }
                "impulse" => if i == frames / 2 { max } else { 0 },
                // small values around zero: lets every FIXED order and tiny partitions compete
                "small" => rng.range((-9i64).max(min), 9i64.min(max)),
                // low-degree polynomial plus a little noise: high FIXED orders win
                "poly" => {
                    let t = i as i64;
                    let (a, b, c0) = ((base % 5) - 2, (base % 7) - 3, base % 23 - 11);
                    a * t * t + b * t + c0 + rng.range(-1, 1)
                }
                // a ramp (plus a little curvature) that wraps around at the full width of the depth, like an
                // overflowing counter: a linear predictor extrapolates past the range exactly where the
                // signal jumps to the other end
                "wrap_saw" => {
                    let span = 1i64 << bps;
                    let d = (base.abs() % (span / 16).max(1)) + span / 64 + 1;
                    let t = i as i64;
                    let raw = base + d * t + (t * t) * ((base % 3) - 1);
                    (raw - min).rem_euclid(span) + min
                }
                _ => 0,
            };
            out[i * ch + c] = clamp(v);
        }
    }
    if ch >= 2 && (kind == "stereo_equal" || kind == "stereo_opposite") {
        for i in 0..frames {
            let l = out[i * ch] as i64;
            out[i * ch + 1] = if kind == "stereo_equal" { l as i32 } else { clamp(-l) };
        }
    }
    out
}

// ---------------------------------------------------------------- writer front-ends
#[derive(Clone, Copy, Debug, PartialEq)]
pub enum Writer {
    Samples,
    BytesLe,
    BytesBe,
    Channels,
}
pub const WRITERS: &[Writer] = &[Writer::Samples, Writer::BytesLe, Writer::BytesBe, Writer::Channels];

pub fn bytes_per_sample(bps: u32) -> usize {
    bps.div_ceil(8) as usize
}

pub fn pcm_to_bytes(pcm: &[i32], bps: u32, big: bool) -> Vec<u8> {
    let w = bytes_per_sample(bps);
    let mut out = Vec::with_capacity(pcm.len() * w);
    for s in pcm {
        let le = s.to_le_bytes();
        if big {
            for k in (0..w).rev() { out.push(le[k]); }
        } else {
            out.extend_from_slice(&le[..w]);
        }
    }
    out
}

pub fn bytes_to_pcm(bytes: &[u8], bps: u32, big: bool) -> Vec<i32> {
    let w = bytes_per_sample(bps);
    bytes
        .chunks_exact(w)
        .map(|c| {
            let mut v: i32 = 0;
            for k in 0..w {
                let b = if big { c[w - 1 - k] } else { c[k] };
                v |= (b as i32) << (8 * k);
            }
            let sh = 32 - 8 * w as u32;
            (v << sh) >> sh
        })
        .collect()
}

/// split `total` into chunk lengths: `mode` 0 = one chunk, 1 = fixed `unit`, 2 = random
pub fn chunking(rng: &mut Rng, total: usize, mode: u64, unit: usize) -> Vec<usize> {
    match mode {
        0 => vec![total],
        1 => {
            let mut v = vec![];
            let mut left = total;
            while left > 0 { let n = unit.max(1).min(left); v.push(n); left -= n; }
            v
        }
        _ => {
            let mut v = vec![];
            let mut left = total;
            while left > 0 {
                let n = (rng.range(0, (unit.max(1) * 3) as i64) as usize).min(left);
                v.push(n);
                left -= n;
            }
            v
        }
    }
}

/// Encode `pcm` (interleaved) through the given front-end into memory. `chunks` are sizes in
/// interleaved samples (sample/byte writers; may split inside a PCM frame) or PCM frames (channel writer).
pub fn encode_with<W: Write + Seek>(sink: W, wr: Writer, cfg: &Cfg, pcm: &[i32], chunks: &[usize], finalize: bool) -> Result<(), Error> {
    let opts = cfg.options().map_err(|_| Error::InvalidBlockSize)?;
    let ch = cfg.ch as usize;
    match wr {
        Writer::Samples => {
            let mut w = ManuallyDrop::new(FlacSampleWriter::new(sink, opts, cfg.rate, cfg.bps, cfg.ch, if cfg.declare_total { Some(pcm.len() as u64) } else { None })?);
            let mut at = 0;
            for n in chunks { let e = (at + n).min(pcm.len()); w.write(&pcm[at..e])?; at = e; }
            if at < pcm.len() { w.write(&pcm[at..])?; }
            if finalize { ManuallyDrop::into_inner(w).finalize()?; }
        }
        Writer::BytesLe | Writer::BytesBe => {
            let big = wr == Writer::BytesBe;
            let bytes = pcm_to_bytes(pcm, cfg.bps, big);
            let bw = bytes_per_sample(cfg.bps);
            let total = if cfg.declare_total { Some(bytes.len() as u64) } else { None };
            if big {
                let mut w = ManuallyDrop::new(FlacByteWriter::endian(sink, BigEndian, opts, cfg.rate, cfg.bps, cfg.ch, total)?);
                let mut at = 0;
                for n in chunks { let e = (at + n * bw).min(bytes.len()); w.write_all(&bytes[at..e])?; at = e; }
                if at < bytes.len() { w.write_all(&bytes[at..])?; }
                if finalize { ManuallyDrop::into_inner(w).finalize()?; }
            } else {
                let mut w = ManuallyDrop::new(FlacByteWriter::endian(sink, LittleEndian, opts, cfg.rate, cfg.bps, cfg.ch, total)?);
                let mut at = 0;
                // little-endian variant also splits inside a sample: byte-granular chunks
                for n in chunks { let e = (at + n * bw + (n % bw.max(1))).min(bytes.len()); w.write_all(&bytes[at..e])?; at = e; }
                if at < bytes.len() { w.write_all(&bytes[at..])?; }
                if finalize { ManuallyDrop::into_inner(w).finalize()?; }
            }
        }
        Writer::Channels => {
            let frames = pcm.len() / ch;
            let chans: Vec<Vec<i32>> = (0..ch).map(|c| (0..frames).map(|i| pcm[i * ch + c]).collect()).collect();
            let mut w = ManuallyDrop::new(FlacChannelWriter::new(sink, opts, cfg.rate, cfg.bps, cfg.ch, if cfg.declare_total { Some(frames as u64) } else { None })?);
            let mut at = 0;
            for n in chunks {
                let n = (*n).min(frames - at);
                let part: Vec<&[i32]> = chans.iter().map(|c| &c[at..at + n]).collect();
                w.write(&part)?;
                at += n;
            }
            if at < frames {
                let part: Vec<&[i32]> = chans.iter().map(|c| &c[at..]).collect();
                w.write(&part)?;
            }
            if finalize { ManuallyDrop::into_inner(w).finalize()?; }
        }
    }
    Ok(())
}

/// Encode to a byte vector under `catch`: Ok(bytes) | Err("err:<Variant>") | Err("panic:<msg>")
pub fn encode_to_vec(wr: Writer, cfg: &Cfg, pcm: &[i32], chunks: &[usize]) -> Result<Vec<u8>, String> {
    let r = catch(|| -> Result<Vec<u8>, Error> {
        let mut cur = Cursor::new(Vec::new());
        encode_with(&mut cur, wr, cfg, pcm, chunks, true)?;
        Ok(cur.into_inner())
    });
    match r {
        Ok(Ok(v)) => Ok(v),
        Ok(Err(e)) => Err(format!("err:{}", err_class(&e))),
        Err(p) => Err(format!("panic:{}", p)),
    }
}
