(* Codec/Inverse.v — the structural parser is injective on what it consumes: whatever it accepts,
   re-serialising the parsed tree reproduces exactly the consumed bits (subframe level: always;
   header/frame level: when the frame number is coded minimally, the reserved bit and the padding
   bits are zero — C17's hypothesis). *)
From FlacCodec Require Import Parser_proofs Struct Write Wf Roundtrip_sub.
Open Scope N_scope.

(* ---- primitives ---- *)
Lemma rd_acc_inv n : forall c acc v r, length c = n -> rd_acc n acc (c ++ r) = Some (v, r) ->
  wr n v = c /\ v = acc * 2 ^ N.of_nat n + v mod 2 ^ N.of_nat n.
Proof.
  induction n as [|n IH]; intros c acc v r L H.
  - destruct c; [|discriminate]. cbn in H. inversion H; subst. split; [reflexivity|].
    cbn. rewrite N.mod_1_r. lia.
  - destruct c as [|b c]; [discriminate|]. cbn [app rd_acc] in H. cbn in L.
    destruct (IH c _ v r ltac:(lia) H) as [Hw Hv].
    assert (Hp : 2 ^ N.of_nat n <> 0) by (apply N.pow_nonzero; discriminate).
    assert (Hm : v mod 2 ^ N.of_nat n < 2 ^ N.of_nat n) by (apply N.mod_upper_bound; exact Hp).
    assert (Hb : N.testbit v (N.of_nat n) = b).
    { rewrite N.testbit_eqb.
      assert (E : v / 2 ^ N.of_nat n = 2 * acc + b2n b).
      { symmetry. apply (N.div_unique v _ _ (v mod 2 ^ N.of_nat n)); [exact Hm|]. rewrite Hv at 1. lia. }
      rewrite E. destruct b; cbn [b2n].
      - replace (2 * acc + 1) with (1 + acc * 2) by lia. rewrite N.mod_add by discriminate. reflexivity.
      - replace (2 * acc + 0) with (0 + acc * 2) by lia. rewrite N.mod_add by discriminate. reflexivity. }
    split.
    + cbn [wr]. rewrite Hb, Hw. reflexivity.
    + rewrite Nat2N.inj_succ, N.pow_succ_r'.
      remember (2 ^ N.of_nat n) as p. remember (v mod p) as m.
      assert (Em : v mod (2 * p) = b2n b * p + m).
      { symmetry. apply (N.mod_unique v (2 * p) acc); destruct b; cbn [b2n] in *; nia. }
      rewrite Em. destruct b; cbn [b2n] in *; nia.
Qed.

Lemma rd_inv n s v r : rd n s = Some (v, r) -> s = wr n v ++ r /\ v < 2 ^ N.of_nat n.
Proof.
  intros H. pose proof (rd_bound _ _ _ _ H) as Hb. unfold rd in H.
  destruct (rd_acc_split _ _ _ _ _ H) as (c & -> & L).
  destruct (rd_acc_inv n c 0 v r L H) as [Hw _]. rewrite Hw. auto.
Qed.

(* invertibility of a parser w.r.t. a writer: the consumed bits are the writer's output *)
Definition inv {A} (p : P A) (w : A -> bits) : Prop := forall s a r, p s = Ok (a, r) -> s = w a ++ r.

Lemma inv_rd n : inv (p_rd n) (wr n).
Proof. intros s a r H. unfold p_rd in H. destruct (rd n s) as [[v r0]|] eqn:E; inversion H; subst. apply rd_inv in E. tauto. Qed.

Lemma sext_inv n v : (0 < n)%nat -> v < 2 ^ N.of_nat n -> wr_s n (sext n v) = wr n v.
Proof.
  intros Hn Hv. unfold wr_s. f_equal.
  assert (HN : Z.of_N (2 ^ N.of_nat n) = (2 ^ Z.of_nat n)%Z) by (rewrite N2Z.inj_pow; f_equal; lia).
  assert (Hz : (0 <= Z.of_N v < 2 ^ Z.of_nat n)%Z) by lia.
  unfold sext. destruct (N.testbit v (N.of_nat (n - 1))).
  - replace (Z.of_N v - 2 ^ Z.of_nat n)%Z with (Z.of_N v + (-1) * 2 ^ Z.of_nat n)%Z by lia.
    rewrite Z.mod_add by lia. rewrite Z.mod_small by lia. apply N2Z.id.
  - rewrite Z.mod_small by lia. apply N2Z.id.
Qed.

Lemma inv_rds n : (0 < n)%nat -> inv (p_rds n) (wr_s n).
Proof.
  intros Hn s a r H. unfold p_rds, rd_s in H. destruct (rd n s) as [[v r0]|] eqn:E; inversion H; subst.
  apply rd_inv in E. destruct E as [-> Hv]. rewrite sext_inv by assumption. reflexivity.
Qed.

Lemma rd_unary_inv stop : forall s k r, rd_unary stop s = Some (k, r) -> s = wr_unary stop (N.to_nat k) ++ r.
Proof.
  induction s as [|b s IH]; intros k r H; cbn [rd_unary] in H; [discriminate|].
  destruct (Bool.eqb b stop) eqn:Eb.
  - inversion H; subst. apply Bool.eqb_prop in Eb. subst. reflexivity.
  - destruct (rd_unary stop s) as [[k0 r0]|] eqn:Er; inversion H; subst.
    rewrite (IH k0 r eq_refl). unfold wr_unary.
    replace (N.to_nat (k0 + 1)) with (S (N.to_nat k0)) by lia. cbn [repeat app]. f_equal.
    destruct b, stop; try reflexivity; discriminate.
Qed.
Lemma inv_unary stop : inv (p_unary stop) (fun k => wr_unary stop (N.to_nat k)).
Proof. intros s a r H. unfold p_unary in H. destruct (rd_unary stop s) as [[k r0]|] eqn:E; inversion H; subst. apply rd_unary_inv. exact E. Qed.

Lemma inv_repeat {A} (p : P A) (w : A -> bits) : inv p w -> forall n s xs r,
  p_repeat n p s = Ok (xs, r) -> s = flat_map w xs ++ r /\ length xs = n.
Proof.
  intros Hp. induction n as [|n IH]; intros s xs r H; cbn [p_repeat] in H.
  - inversion H; subst. auto.
  - unfold pbind in H. destruct (p s) as [[x s1]| |] eqn:E1; try discriminate.
    destruct (p_repeat n p s1) as [[ys s2]| |] eqn:E2; try discriminate. inversion H; subst.
    apply Hp in E1. apply IH in E2. destruct E2 as [-> L]. subst s. cbn [flat_map length]. rewrite <- app_assoc. auto.
Qed.

(* ---- Rice residuals ---- *)
Lemma zigzag_inv u : zigzag_encode (zigzag_decode u) = u.
Proof.
  unfold zigzag_decode, zigzag_encode.
  pose proof (N.div_mod u 2 ltac:(discriminate)) as D.
  destruct (N.odd u) eqn:Eo.
  - assert (u mod 2 = 1).
    { rewrite <- N.bit0_mod, N.bit0_odd, Eo. reflexivity. }
    destruct (Z.ltb_spec (- Z.of_N (u / 2) - 1) 0); lia.
  - assert (u mod 2 = 0).
    { rewrite <- N.bit0_mod, N.bit0_odd, Eo. reflexivity. }
    destruct (Z.ltb_spec (Z.of_N (u / 2)) 0); lia.
Qed.

Lemma inv_rice k : inv (p_rice k) (write_rice k).
Proof.
  intros s a r H. unfold p_rice, pbind in H.
  destruct (p_unary true s) as [[msb s1]| |] eqn:E1; try discriminate.
  destruct (p_rd (N.to_nat k) s1) as [[lsb s2]| |] eqn:E2; try discriminate.
  destruct (msb <=? (2 ^ 32 - 1) / 2 ^ k); cbn [p_guard] in H; [|discriminate]. unfold pret in H.
  inversion H; subst. apply inv_unary in E1. unfold p_rd in E2.
  destruct (rd (N.to_nat k) s1) as [[v r0]|] eqn:E; inversion E2; subst. apply rd_inv in E. destruct E as [-> Hl].
  rewrite N2Nat.id in Hl. unfold write_rice. rewrite zigzag_inv.
  assert (Hp : 2 ^ k <> 0) by (apply N.pow_nonzero; discriminate).
  assert (Ed : (msb * 2 ^ k + lsb) / 2 ^ k = msb).
  { symmetry. apply (N.div_unique _ _ _ lsb); [exact Hl|lia]. }
  assert (Em : (msb * 2 ^ k + lsb) mod 2 ^ k = lsb).
  { symmetry. apply (N.mod_unique _ _ msb); [exact Hl|lia]. }
  rewrite Ed, Em. rewrite <- app_assoc. reflexivity.
Qed.

(* ---- partitions, residuals ---- *)
Definition write_part_hdr (method : N) (h : part_hdr) : bits :=
  let nb := if method =? 0 then 4%nat else 5%nat in
  let esc := if method =? 0 then 15 else 31 in
  match h with HRice k => wr nb k | HEsc w => wr nb esc ++ wr 5 w | HZero => wr nb esc ++ wr 5 0 end.

Lemma part_header_inv method s h r : p_part_header method s = Ok (h, r) ->
  s = write_part_hdr method h ++ r /\ match h with HEsc w => w <> 0 | _ => True end.
Proof.
  unfold p_part_header, pbind. intros H.
  destruct (p_rd _ s) as [[k s1]| |] eqn:E1; try discriminate. apply inv_rd in E1.
  destruct (N.eqb_spec k (if method =? 0 then 15 else 31)) as [Ek|Nk].
  - destruct (p_rd 5 s1) as [[w s2]| |] eqn:E2; try discriminate. apply inv_rd in E2.
    destruct (N.eqb_spec w 0) as [->|Nw]; unfold pret in H; inversion H; subst; unfold write_part_hdr;
      rewrite <- app_assoc; auto.
  - unfold pret in H. inversion H; subst. auto.
Qed.

Lemma partition_inv h n s rs r : match h with HEsc w => w <> 0 | _ => True end ->
  p_partition h n s = Ok (rs, r) ->
  s = match h with
      | HRice k => flat_map (write_rice k) rs
      | HEsc w => flat_map (wr_s (N.to_nat w)) rs
      | HZero => [] end ++ r /\ (match h with HZero => rs = repeat 0%Z n | _ => length rs = n end).
Proof.
  intros Hw H. destruct h as [k|w|]; cbn [p_partition] in H.
  - apply (inv_repeat _ _ (inv_rice k)) in H. exact H.
  - apply (inv_repeat _ _ (inv_rds (N.to_nat w) ltac:(lia))) in H. exact H.
  - unfold pret in H. inversion H; subst. auto.
Qed.

Lemma struct_partitions_inv method : forall lens s parts r,
  struct_partitions method lens s = Ok (parts, r) ->
  s = flat_map (write_part method) parts ++ r /\ length parts = length lens.
Proof.
  induction lens as [|[n|] lens IH]; intros s parts r H; cbn [struct_partitions] in H.
  - unfold pret in H. inversion H; subst. auto.
  - unfold pbind in H.
    destruct (p_part_header method s) as [[h s1]| |] eqn:E1; try discriminate.
    destruct (p_partition h n s1) as [[rs s2]| |] eqn:E2; try discriminate.
    destruct (struct_partitions method lens s2) as [[ps s3]| |] eqn:E3; try discriminate.
    unfold pret in H. inversion H; subst.
    apply part_header_inv in E1. destruct E1 as [-> Hw].
    apply (partition_inv h n s1 rs s2 Hw) in E2. destruct E2 as [-> Hrs].
    apply IH in E3. destruct E3 as [-> L]. cbn [flat_map length]. split; [|lia].
    destruct h as [k|w|]; cbn [write_part write_part_hdr]; rewrite <- ?app_assoc; reflexivity.
  - discriminate.
Qed.

Lemma struct_part_lens_length bs order po : length (struct_part_lens bs order po) = N.to_nat (2 ^ po).
Proof. unfold struct_part_lens. rewrite map_length, seq_length. reflexivity. Qed.

Lemma struct_residuals_inv bs order s res r : struct_residuals bs order s = Ok (res, r) -> s = write_residual res ++ r.
Proof.
  unfold struct_residuals, pbind. intros H.
  destruct (p_rd 2 s) as [[method s1]| |] eqn:E1; try discriminate. apply inv_rd in E1.
  destruct (method <? 2); cbn [p_guard] in H; [|discriminate]. unfold pret at 1 in H.
  destruct (p_rd 4 s1) as [[po s2]| |] eqn:E2; try discriminate. apply inv_rd in E2.
  destruct (bs mod 2 ^ po =? 0); cbn [p_guard] in H; [|discriminate]. unfold pret at 1 in H.
  destruct (struct_partitions method _ s2) as [[ps s3]| |] eqn:E3; try discriminate.
  unfold pret in H. inversion H; subst.
  apply struct_partitions_inv in E3. destruct E3 as [-> L]. rewrite struct_part_lens_length in L.
  unfold write_residual. cbn [r_method r_parts].
  assert (Elog : N.log2 (N.of_nat (length ps)) = po).
  { rewrite L, N2Nat.id. apply N.log2_pow2. lia. }
  rewrite Elog. rewrite <- !app_assoc. reflexivity.
Qed.

(* ---- subframes ---- *)
Definition code_of (ty : sf_type) : N :=
  match ty with TConst => 0 | TVerb => 1 | TFixed o => 8 + o | TLpc o => 31 + o end.

Lemma subframe_header_inv s ty wasted r : p_subframe_header s = Ok ((ty, wasted), r) ->
  s = write_subframe_header (code_of ty) wasted ++ r.
Proof.
  unfold p_subframe_header, pbind. intros H.
  destruct s as [|pad s0]; [discriminate|]. cbn [p_bit] in H.
  destruct pad; cbn [negb p_guard] in H; [discriminate|]. unfold pret at 1 in H.
  destruct (p_rd 6 s0) as [[t s1]| |] eqn:E1; try discriminate. apply inv_rd in E1. subst s0.
  assert (Hty : forall ty0 s2, (if t =? 0 then pret TConst else if t =? 1 then pret TVerb
                 else if (8 <=? t) && (t <=? 12) then pret (TFixed (t - 8))
                 else if 32 <=? t then pret (TLpc (t - 31)) else pfail ESubframeType) s1 = Ok (ty0, s2) ->
                 s2 = s1 /\ code_of ty0 = t).
  { intros ty0 s2 Hx.
    destruct (N.eqb_spec t 0); [inversion Hx; subst; auto|].
    destruct (N.eqb_spec t 1); [inversion Hx; subst; auto|].
    destruct ((8 <=? t) && (t <=? 12)) eqn:Ef.
    { inversion Hx; subst. apply andb_prop in Ef. destruct Ef as [F1 _]. apply N.leb_le in F1. cbn [code_of]. split; [reflexivity|lia]. }
    destruct (N.leb_spec 32 t); [|discriminate]. inversion Hx; subst. cbn [code_of]. split; [reflexivity|lia]. }
  match type of H with match ?x with _ => _ end = _ => destruct x as [[ty0 s2]| |] eqn:Et end; try discriminate.
  destruct (Hty _ _ eq_refl) as [Es Ec]. subst s2.
  destruct s1 as [|w s3]; [discriminate|]. cbn [p_bit] in H.
  unfold write_subframe_header. destruct w.
  - destruct (p_unary true s3) as [[u s4]| |] eqn:Eu; try discriminate. unfold pret in H. inversion H; subst.
    apply inv_unary in Eu. subst s3.
    assert (u + 1 =? 0 = false) as -> by (apply N.eqb_neq; lia).
    replace (u + 1 - 1) with u by lia. cbn [app]. rewrite <- !app_assoc. reflexivity.
  - unfold pret in H. inversion H; subst. cbn [N.eqb]. cbn [app]. rewrite <- !app_assoc. reflexivity.
Qed.

Lemma effective_bps_inv bps wasted eb : effective_bps bps wasted = Ok eb -> eb = bps - wasted /\ 1 <= eb.
Proof.
  unfold effective_bps. destruct (N.leb_spec wasted (bps - 1)); [|discriminate].
  destruct (N.leb_spec 1 bps); [|discriminate]. intros Hx. inversion Hx. split; lia.
Qed.

Theorem struct_subframe_inv bs bps s sf r : struct_subframe bs bps s = Ok (sf, r) -> s = write_subframe bps sf ++ r.
Proof.
  unfold struct_subframe, pbind. intros H.
  destruct (p_subframe_header s) as [[[ty wasted] s1]| |] eqn:Eh; try discriminate.
  apply subframe_header_inv in Eh. subst s.
  unfold plift in H. destruct (effective_bps bps wasted) as [eb| |] eqn:Ee; try discriminate.
  apply effective_bps_inv in Ee. destruct Ee as [-> He1].
  assert (Hpos : (0 < N.to_nat (bps - wasted))%nat) by lia.
  unfold write_subframe.
  destruct ty as [| |o|o].
  - destruct (p_rds _ s1) as [[v s2]| |] eqn:E1; try discriminate. unfold pret in H. inversion H; subst.
    apply (inv_rds _ Hpos) in E1. subst s1. cbn [sf_wasted sf_body code_of]. rewrite <- app_assoc. reflexivity.
  - destruct (p_repeat _ _ s1) as [[xs s2]| |] eqn:E1; try discriminate. unfold pret in H. inversion H; subst.
    apply (inv_repeat _ _ (inv_rds _ Hpos)) in E1. destruct E1 as [-> _].
    cbn [sf_wasted sf_body code_of]. rewrite <- app_assoc. reflexivity.
  - destruct (p_repeat _ _ s1) as [[warm s2]| |] eqn:E1; try discriminate.
    destruct (struct_residuals bs o s2) as [[res s3]| |] eqn:E2; try discriminate. unfold pret in H. inversion H; subst.
    apply (inv_repeat _ _ (inv_rds _ Hpos)) in E1. destruct E1 as [-> _].
    apply struct_residuals_inv in E2. subst s2.
    cbn [sf_wasted sf_body code_of]. rewrite <- !app_assoc. reflexivity.
  - destruct (p_repeat _ _ s1) as [[warm s2]| |] eqn:E1; try discriminate.
    unfold p_qlp_precision, p_qlp_shift, pbind in H.
    destruct (p_rd 4 s2) as [[c s3]| |] eqn:E2; try discriminate. apply inv_rd in E2.
    destruct (N.eqb_spec c 15); [discriminate|]. unfold pret at 1 in H.
    destruct (p_rds 5 s3) as [[sh s4]| |] eqn:E3; try discriminate.
    destruct (Z.ltb_spec sh 0); [discriminate|]. unfold pret at 1 in H.
    destruct (p_repeat (N.to_nat o) (p_rds (N.to_nat (c + 1))) s4) as [[coefs s5]| |] eqn:E4; try discriminate.
    destruct (struct_residuals bs o s5) as [[res s6]| |] eqn:E5; try discriminate. unfold pret in H. inversion H; subst.
    apply (inv_repeat _ _ (inv_rds _ Hpos)) in E1. destruct E1 as [-> _].
    (* the shift field: sh >= 0 read from 5 signed bits was written as 5 unsigned bits *)
    unfold p_rds, rd_s in E3. destruct (rd 5 s3) as [[v5 r5]|] eqn:E35; inversion E3; subst.
    apply rd_inv in E35. destruct E35 as [-> Hv5]. change (2 ^ N.of_nat 5) with 32 in Hv5.
    assert (Esh : Z.to_N (sext 5 v5) = v5).
    { unfold sext in *. destruct (N.testbit v5 (N.of_nat (5 - 1))); [|lia].
      change (2 ^ Z.of_nat 5)%Z with 32%Z in *. lia. }
    apply (inv_repeat _ _ (inv_rds (N.to_nat (c + 1)) ltac:(lia))) in E4. destruct E4 as [-> _].
    apply struct_residuals_inv in E5. subst s5.
    cbn [sf_wasted sf_body code_of]. rewrite Esh. replace (c + 1 - 1) with c by lia.
    rewrite <- !app_assoc. reflexivity.
Qed.

(* ---- frame number ---- *)
Lemma number_cont_inv : forall k acc s v r, p_number_cont k acc s = Ok (v, r) ->
  exists c, s = c ++ r /\ length c = (8 * k)%nat /\
            v = acc * 2 ^ (6 * N.of_nat k) + v mod 2 ^ (6 * N.of_nat k) /\ c = cont_bytes v k.
Proof.
  induction k as [|k IH]; intros acc s v r H; cbn [p_number_cont] in H.
  - unfold pret in H. inversion H; subst. exists []. cbn. rewrite N.mod_1_r. repeat split; lia.
  - unfold pbind in H.
    destruct (p_rd 2 s) as [[tag s1]| |] eqn:E1; try discriminate. apply inv_rd in E1.
    destruct (N.eqb_spec tag 2); cbn [p_guard] in H; [|discriminate]. unfold pret at 1 in H. subst tag.
    destruct (p_rd 6 s1) as [[d s2]| |] eqn:E2; try discriminate.
    unfold p_rd in E2. destruct (rd 6 s1) as [[d' r']|] eqn:E6; inversion E2; subst. apply rd_inv in E6. destruct E6 as [-> Hd].
    change (2 ^ N.of_nat 6) with 64 in Hd.
    destruct (IH _ _ _ _ H) as (c & -> & Lc & Ev & Ec).
    assert (Hp : 2 ^ (6 * N.of_nat k) <> 0) by (apply N.pow_nonzero; discriminate).
    assert (Hm : v mod 2 ^ (6 * N.of_nat k) < 2 ^ (6 * N.of_nat k)) by (apply N.mod_upper_bound; exact Hp).
    assert (Epow : 2 ^ (6 * N.of_nat (S k)) = 64 * 2 ^ (6 * N.of_nat k)).
    { rewrite Nat2N.inj_succ. replace (6 * N.succ (N.of_nat k)) with (6 + 6 * N.of_nat k) by lia. rewrite N.pow_add_r. reflexivity. }
    assert (Ediv : v / 2 ^ (6 * N.of_nat k) = acc * 64 + d).
    { symmetry. apply (N.div_unique v _ _ (v mod 2 ^ (6 * N.of_nat k))); [exact Hm|]. rewrite Ev at 1. lia. }
    assert (Emod : v mod 2 ^ (6 * N.of_nat (S k)) = d * 2 ^ (6 * N.of_nat k) + v mod 2 ^ (6 * N.of_nat k)).
    { rewrite Epow. symmetry. apply (N.mod_unique v _ acc); [nia|]. rewrite Ev at 1. lia. }
    exists (wr 2 2 ++ wr 6 d ++ c). rewrite <- !app_assoc. split; [reflexivity|]. split.
    { rewrite !app_length, !wr_length, Lc. lia. }
    split.
    + rewrite Emod, Epow. rewrite Ev at 1. lia.
    + cbn [cont_bytes]. unfold cont_byte. rewrite <- Ec. rewrite Ediv.
      replace (acc * 64 + d) with (d + acc * 64) by lia. rewrite N.mod_add by discriminate.
      rewrite N.mod_small by exact Hd. rewrite <- !app_assoc. reflexivity.
Qed.

(* the number of bytes the coded number occupies: leading ones of its first byte (0 -> 1 byte) *)
Definition number_bytes_used (s : bits) : option nat :=
  match rd_unary false s with Some (k, _) => Some (if k =? 0 then 1%nat else N.to_nat k) | None => None end.

Lemma frame_number_inv s v r : p_frame_number s = Ok (v, r) ->
  number_bytes_used s = Some (number_len v) -> v <= MAX_FRAME_NUMBER ->
  exists nb, write_number v = Some nb /\ s = nb ++ r.
Proof.
  unfold p_frame_number, pbind. intros H Hmin Hmax.
  destruct (p_unary false s) as [[ones s1]| |] eqn:E1; try discriminate.
  unfold p_unary in E1. destruct (rd_unary false s) as [[k r0]|] eqn:Eu; inversion E1; subst.
  unfold number_bytes_used in Hmin. rewrite Eu in Hmin. injection Hmin as Hmin.
  apply rd_unary_inv in Eu. subst s.
  unfold write_number. destruct (N.ltb_spec MAX_FRAME_NUMBER v); [lia|].
  destruct (N.eqb_spec ones 0) as [->|N0].
  - rewrite <- Hmin. cbn [Nat.eqb]. unfold p_rd in H. destruct (rd 7 s1) as [[v' r']|] eqn:E7; inversion H; subst.
    apply rd_inv in E7. destruct E7 as [-> _]. eexists. split; [reflexivity|]. rewrite <- app_assoc. reflexivity.
  - destruct ((ones =? 1) || (7 <? ones)) eqn:Eb; [discriminate|].
    apply orb_false_elim in Eb. destruct Eb as [B1 B2]. apply N.eqb_neq in B1. apply N.ltb_ge in B2.
    destruct (p_rd (7 - N.to_nat ones) s1) as [[first s2]| |] eqn:E2; try discriminate.
    unfold p_rd in E2. destruct (rd _ s1) as [[f' r']|] eqn:Ef; inversion E2; subst. apply rd_inv in Ef. destruct Ef as [-> Hf].
    destruct (number_cont_inv _ _ _ _ _ H) as (c & -> & Lc & Ev & Ec).
    assert (Hn : number_len v = N.to_nat ones) by lia.
    rewrite Hn. destruct (Nat.eqb_spec (N.to_nat ones) 1); [lia|].
    assert (Hp : 2 ^ (6 * N.of_nat (N.to_nat ones - 1)) <> 0) by (apply N.pow_nonzero; discriminate).
    assert (Ediv : v / 2 ^ (6 * N.of_nat (N.to_nat ones - 1)) = first).
    { symmetry. apply (N.div_unique v _ _ (v mod 2 ^ (6 * N.of_nat (N.to_nat ones - 1)))); [apply N.mod_upper_bound; exact Hp|].
      rewrite Ev at 1. lia. }
    eexists. split; [reflexivity|]. rewrite Ediv, <- Ec, <- !app_assoc. reflexivity.
Qed.
