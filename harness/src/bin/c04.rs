//! C04 searcher: no decoding / frame-parsing entry point panics, hangs or allocates without
//! bound, on any byte string.  Inputs:
//!  (a) valid frames (crate encoder output and the C03 generator's output) with one field
//!      pushed to an illegal/extreme value and CRC-8/CRC-16 recomputed, plus targeted
//!      extreme-value frames (syntactically fine, arithmetic at the limits);
//!  (b) checksum-repaired bit/byte mutations of valid files;
//!  (c) raw random bytes, sync/tag-prefixed random bytes, every truncation of small files.
//! Entry points: FlacSampleReader (fill_buf and iterator), FlacByteReader, FlacChannelReader,
//! verify_reader, stream::FrameIterator, Frame::read / read_subset, FrameHeader::read /
//! read_subset, FlacStreamReader (resynchronising loop), metadata BlockList::read / read_blocks.
//! Every call runs under catch_unwind on a worker thread; the main thread is a watchdog
//! (a single call lasting > 10 s is reported as a hang); a counting global allocator measures
//! peak live bytes per call against 64 MiB + 64 x input length.
#[path = "c01_shared/mod.rs"]
mod shared;

use flac_codec::decode::verify_reader;
use flac_codec::metadata::{read_blocks, BlockList};
use flac_codec::stream::{Frame, FrameHeader, FrameIterator};
use shared::fgen::{gen_file, gen_subset, GenCfg};
use shared::io::*;
use shared::mutate::*;
use shared::space::*;
use shared::*;
use std::alloc::{GlobalAlloc, Layout, System};
use std::collections::BTreeMap;
use std::io::Cursor;
use std::sync::atomic::{AtomicBool, AtomicU64, AtomicUsize, Ordering};
use std::sync::{Arc, Mutex};
use vharness::json::{esc, obj};
use vharness::*;

// ---------------------------------------------------------------- counting allocator
struct Counting;
static CUR: AtomicUsize = AtomicUsize::new(0);
static PEAK: AtomicUsize = AtomicUsize::new(0);
unsafe impl GlobalAlloc for Counting {
    unsafe fn alloc(&self, l: Layout) -> *mut u8 {
        if l.size() > HUGE_REQUEST { huge_request(l.size()); }
        let p = unsafe { System.alloc(l) };
        if !p.is_null() {
            let c = CUR.fetch_add(l.size(), Ordering::Relaxed) + l.size();
            PEAK.fetch_max(c, Ordering::Relaxed);
        }
        p
    }
    unsafe fn dealloc(&self, p: *mut u8, l: Layout) {
        unsafe { System.dealloc(p, l) };
        CUR.fetch_sub(l.size(), Ordering::Relaxed);
    }
    unsafe fn realloc(&self, p: *mut u8, l: Layout, new: usize) -> *mut u8 {
        if new > HUGE_REQUEST { huge_request(new); }
        let q = unsafe { System.realloc(p, l, new) };
        if !q.is_null() {
            if new >= l.size() {
                let c = CUR.fetch_add(new - l.size(), Ordering::Relaxed) + (new - l.size());
                PEAK.fetch_max(c, Ordering::Relaxed);
            } else {
                CUR.fetch_sub(l.size() - new, Ordering::Relaxed);
            }
        }
        q
    }
}
#[global_allocator]
static GLOBAL: Counting = Counting;

/// A single request above this would end the process (allocation failure aborts, it does not
/// unwind), so the allocator itself reports it with the input of the call in progress.
const HUGE_REQUEST: usize = 2 << 30;
static WATCH: std::sync::OnceLock<Arc<Watch>> = std::sync::OnceLock::new();
static IN_HUGE: AtomicBool = AtomicBool::new(false);
fn huge_request(size: usize) {
    if IN_HUGE.swap(true, Ordering::SeqCst) { return; }
    let (what, bytes) = match WATCH.get().and_then(|w| w.cur.try_lock().ok().map(|c| (c.0.clone(), c.1.clone()))) { Some(x) => x, None => ("(unknown call)".to_string(), vec![]) };
    println!("{}", obj(&[("t", esc("viol")), ("key", esc("huge-allocation-request")), ("desc", esc(&format!("a single allocation request of {} bytes during {}", size, what))), ("bytes", esc(&hex(&bytes[..bytes.len().min(20000)]))), ("profile", esc(profile()))]));
    println!("{}", obj(&[("t", esc("stat")), ("profile", esc(profile())), ("aborted", esc("huge-allocation-request"))]));
    std::process::exit(0);
}

const MEM_CONST: usize = 64 << 20;
const MEM_PER_BYTE: usize = 64;
const HANG_SECS: u64 = 10;

// ---------------------------------------------------------------- watchdog state
struct Watch {
    run: AtomicU64,
    start_ms: AtomicU64,
    done: AtomicBool,
    cur: Mutex<(String, Vec<u8>)>,
}

fn now_ms(t0: &std::time::Instant) -> u64 {
    t0.elapsed().as_millis() as u64
}

struct Ctx {
    out: Out,
    watch: Arc<Watch>,
    t0: std::time::Instant,
    runs: usize,
    by_entry: BTreeMap<String, usize>,
    outcomes: BTreeMap<String, usize>,
    by_class: BTreeMap<String, usize>,
    max_peak: usize,
    max_ms: u64,
    subset_cases: BTreeMap<String, usize>,
    max_subset_cases: usize,
}

pub const FILE_ENTRIES: &[&str] = &["sample_fill", "iter", "bytes_le", "bytes_be", "channels", "verify", "frame_iter", "blocklist", "read_blocks"];
pub const FRAME_ENTRIES: &[&str] = &["stream_reader", "frame_read_subset", "frame_read_si", "frame_decode_subset", "frame_decode_si", "header_read_subset", "header_read_si"];

fn default_si() -> flac_codec::metadata::Streaminfo {
    Si { min_bs: 16, max_bs: 65535, min_fs: 0, max_fs: 0, rate: 44100, ch: 2, bps: 16, total: 0, md5: [0; 16] }.to_streaminfo()
}

/// run one entry point on one input: returns outcome tag "ok" | "err:<..>" | "panic"
fn run_entry(entry: &str, bytes: &[u8], si: Option<&flac_codec::metadata::Streaminfo>) -> (String, Option<String>) {
    clear_panic_loc();
    let cap = bytes.len() + 16;
    let r: Result<String, String> = catch(|| match entry {
        "sample_fill" | "iter" | "bytes_le" | "bytes_be" | "channels" => {
            let o = run_reader(entry, bytes, 4096);
            if let End::Panic(p) = o.end { std::panic::resume_unwind(Box::new(p)); }
            o.end.tag()
        }
        "verify" => match verify_reader(Cursor::new(bytes)) { Ok(v) => format!("ok:{:?}", v), Err(e) => format!("err:{}", err_class(&e)) },
        "frame_iter" => match FrameIterator::new(Cursor::new(bytes)) {
            Ok(it) => {
                let mut n = 0usize;
                let mut last = "eof".to_string();
                for r in it {
                    n += 1;
                    if let Err(e) = r { last = format!("err:{}", err_class(&e)); break; }
                    if n > cap { last = "harness:no-progress".into(); break; }
                }
                last
            }
            Err(e) => format!("err:{}", err_class(&e)),
        },
        "blocklist" => match BlockList::read(Cursor::new(bytes)) { Ok(_) => "ok".into(), Err(e) => format!("err:{}", err_class(&e)) },
        "read_blocks" => {
            let mut n = 0usize;
            let mut last = "ok".to_string();
            for b in read_blocks(Cursor::new(bytes)) {
                n += 1;
                if let Err(e) = b { last = format!("err:{}", err_class(&e)); break; }
                if n > cap { last = "harness:no-progress".into(); break; }
            }
            last
        }
        "stream_reader" => {
            let (frames, errs, panic, exhausted) = run_subset_resync(bytes, cap);
            if let Some(p) = panic { std::panic::resume_unwind(Box::new(p)); }
            if exhausted { "harness:no-progress".into() } else { format!("ok:{}f/{}e", frames.len().min(9), errs.len().min(9)) }
        }
        "frame_read_subset" => { let mut c = Cursor::new(bytes); match Frame::read_subset(&mut c) { Ok(_) => "ok".into(), Err(e) => format!("err:{}", err_class(&e)) } }
        "frame_read_si" => { let mut c = Cursor::new(bytes); let d = default_si(); match Frame::read(&mut c, si.unwrap_or(&d)) { Ok(_) => "ok".into(), Err(e) => format!("err:{}", err_class(&e)) } }
        // structural parse followed by the analysis-side sample expansion of every subframe
        "frame_decode_subset" | "frame_decode_si" => {
            let d = default_si();
            let o = struct_obs(bytes, if entry == "frame_decode_si" { Some(si.unwrap_or(&d)) } else { None });
            if let End::Panic(p) = o.end { std::panic::resume_unwind(Box::new(p)); }
            if let Some(p) = o.decode_panic { std::panic::resume_unwind(Box::new(p)); }
            match o.end { End::Eof => "ok".into(), e => e.tag() }
        }
        "header_read_subset" => { let mut c = Cursor::new(bytes); match FrameHeader::read_subset(&mut c) { Ok(_) => "ok".into(), Err(e) => format!("err:{}", err_class(&e)) } }
        "header_read_si" => { let mut c = Cursor::new(bytes); let d = default_si(); match FrameHeader::read(&mut c, si.unwrap_or(&d)) { Ok(_) => "ok".into(), Err(e) => format!("err:{}", err_class(&e)) } }
        _ => "skip".into(),
    });
    match r {
        Ok(tag) => (tag, None),
        Err(p) => ("panic".into(), Some(p)),
    }
}

impl Ctx {
    fn run(&mut self, class: &str, desc: &str, entries: &[&str], bytes: &[u8], si: Option<&flac_codec::metadata::Streaminfo>) {
        for entry in entries {
            {
                let mut c = self.watch.cur.lock().unwrap();
                c.0 = format!("{} / {} / {}", class, entry, desc);
                c.1 = bytes.to_vec();
            }
            self.watch.start_ms.store(now_ms(&self.t0), Ordering::SeqCst);
            self.watch.run.fetch_add(1, Ordering::SeqCst);
            let base = CUR.load(Ordering::Relaxed);
            PEAK.store(base, Ordering::Relaxed);
            let t = now_ms(&self.t0);
            let (tag, panic) = run_entry(entry, bytes, si);
            let ms = now_ms(&self.t0) - t;
            let peak = PEAK.load(Ordering::Relaxed).saturating_sub(base);
            self.watch.start_ms.store(u64::MAX, Ordering::SeqCst);
            self.runs += 1;
            self.max_peak = self.max_peak.max(peak);
            self.max_ms = self.max_ms.max(ms);
            *self.by_entry.entry(entry.to_string()).or_insert(0) += 1;
            *self.by_class.entry(class.to_string()).or_insert(0) += 1;
            let short = tag.split(':').take(2).collect::<Vec<_>>().join(":");
            *self.outcomes.entry(short).or_insert(0) += 1;
            let input: Vec<(&str, String)> = vec![("entry", esc(entry)), ("class", esc(class)), ("what", esc(desc)), ("bytes", esc(&hex(&bytes[..bytes.len().min(20000)]))), ("len", bytes.len().to_string())];
            if let Some(p) = panic {
                self.out.viol_panic("decode-panic", &p, &format!("{} panics on {} ({}): {}", entry, class, desc, p), &input);
            } else if tag.starts_with("harness:no-progress") {
                self.out.viol(&format!("no-progress:{}", entry), &format!("{} returned more items than the input has bytes ({}; {})", entry, class, desc), &input);
            }
            if peak > MEM_CONST + MEM_PER_BYTE * bytes.len() {
                self.out.viol(&format!("alloc-unbounded:{}", entry), &format!("{} reached {} live bytes on a {}-byte input ({}; {})", entry, peak, bytes.len(), class, desc), &input);
            }
            if ms > HANG_SECS * 1000 {
                self.out.viol(&format!("hang:{}", entry), &format!("{} took {} ms on a {}-byte input ({}; {})", entry, ms, bytes.len(), class, desc), &input);
            }
        }
    }
    fn run_file(&mut self, class: &str, desc: &str, bytes: &[u8]) {
        self.run(class, desc, FILE_ENTRIES, bytes, None);
    }
    fn run_frames(&mut self, class: &str, desc: &str, bytes: &[u8], si: Option<&flac_codec::metadata::Streaminfo>) {
        self.run(class, desc, FRAME_ENTRIES, bytes, si);
        // the same bytes as a dec_subset observation for the model's sync-scanning reader
        // (frames returned by read() until the first Err); bounded in number and size
        let n = self.subset_cases.entry(class.to_string()).or_insert(0);
        if *n < self.max_subset_cases && bytes.len() <= 1500 {
            *n += 1;
            let line = dec_subset_case(bytes, &[("src", esc(class))]);
            if line.len() < 200_000 { self.out.case(line); }
        }
    }
}

/// wrap raw frames into a file whose STREAMINFO matches the given parameters
fn wrap(frames: &[u8], ch: u8, bps: u32, rate: u32, total: u64, max_bs: u16) -> Vec<u8> {
    let si = Si { min_bs: 16.min(max_bs), max_bs, min_fs: 0, max_fs: 0, rate, ch, bps, total, md5: [0; 16] };
    let mut f = si.file_header(None);
    f.extend_from_slice(frames);
    f
}

// ---------------------------------------------------------------- targeted extreme-value frames
use bitstream_io::{BitCount, SignedBitCount};
use flac_codec::stream::{BitsPerSample, BlockSize, ChannelAssignment, FrameNumber, Independent, ResidualPartition, Residuals, SampleRate, Subframe, SubframeWidth};
use std::num::NonZero;

fn hdr(n: u16, assign: ChannelAssignment, bps: u32, number: u64) -> FrameHeader {
    let bits_per_sample = match bps { 8 => BitsPerSample::Bps8, 16 => BitsPerSample::Bps16, 24 => BitsPerSample::Bps24, 32 => BitsPerSample::Bps32, b => BitsPerSample::Streaminfo(SignedBitCount::<32>::try_from(b).unwrap()) };
    FrameHeader { blocking_strategy: false, block_size: if n <= 256 { BlockSize::Uncommon8(n) } else { BlockSize::Uncommon16(n) }, sample_rate: SampleRate::Hz44100, channel_assignment: assign, bits_per_sample, frame_number: FrameNumber(number) }
}
fn verb(v: Vec<i32>) -> SubframeWidth { SubframeWidth::Common(Subframe::Verbatim { samples: v, wasted_bps: 0 }) }
fn esc_res<I>(w: u32, r: Vec<I>) -> Residuals<I> { Residuals::Method1 { partitions: vec![ResidualPartition::Escaped { escape_size: SignedBitCount::<0b11111>::try_from(w).unwrap(), residuals: r }] } }
fn rice_res<I>(k: u32, r: Vec<I>) -> Residuals<I> { Residuals::Method1 { partitions: vec![ResidualPartition::Standard { rice: BitCount::<0b11111>::try_from(k).unwrap(), residuals: r }] } }

/// (name, frame, channels, bps) – all syntactically well-formed, values at the arithmetic limits
fn targeted() -> Vec<(&'static str, Frame, u8, u32)> {
    let mut v = vec![];
    let mono = ChannelAssignment::Independent(Independent::Mono);
    // FIXED order 1, warm-up i32::MAX, residual +1 (F-C04c)
    v.push(("fixed1-warm-max-res+1", Frame { header: hdr(16, mono, 32, 0), subframes: vec![SubframeWidth::Common(Subframe::Fixed { order: 1, warm_up: vec![i32::MAX], residuals: esc_res(2, vec![1; 15]), wasted_bps: 0 })] }, 1, 32));
    v.push(("fixed4-warm-min-res-min", Frame { header: hdr(16, mono, 32, 0), subframes: vec![SubframeWidth::Common(Subframe::Fixed { order: 4, warm_up: vec![i32::MIN, i32::MAX, i32::MIN, i32::MAX], residuals: rice_res(28, vec![-i32::MAX; 12]), wasted_bps: 0 })] }, 1, 32));
    // valid LPC whose prediction leaves i32 while prediction+residual does not (F-C03a)
    v.push(("lpc1-coef2-valid-pred-overflow", Frame { header: hdr(16, mono, 32, 0), subframes: vec![SubframeWidth::Common(Subframe::Lpc { order: NonZero::new(1).unwrap(), warm_up: vec![i32::MAX], precision: SignedBitCount::<15>::try_from(3).unwrap(), shift: 0, coefficients: vec![2], residuals: rice_res(28, { let mut r = vec![-2147483647i32]; r.extend(vec![-i32::MAX; 14]); r }), wasted_bps: 0 })] }, 1, 32));
    v.push(("lpc32-coef-max-shift0", Frame { header: hdr(64, mono, 32, 0), subframes: vec![SubframeWidth::Common(Subframe::Lpc { order: NonZero::new(32).unwrap(), warm_up: vec![i32::MAX; 32], precision: SignedBitCount::<15>::try_from(15).unwrap(), shift: 0, coefficients: vec![16383; 32], residuals: rice_res(28, vec![i32::MAX; 32]), wasted_bps: 0 })] }, 1, 32));
    // side-channel reconstruction at 31 bits per sample (side subframe is 32 bits wide)
    let ext31 = |x: i32| vec![x; 16];
    v.push(("leftside31-left-min-side-max", Frame { header: hdr(16, ChannelAssignment::LeftSide, 31, 0), subframes: vec![verb(ext31(-(1 << 30))), verb(ext31(i32::MAX))] }, 2, 31));
    v.push(("sideright31-side-max-right-max", Frame { header: hdr(16, ChannelAssignment::SideRight, 31, 0), subframes: vec![verb(ext31(i32::MAX)), verb(ext31((1 << 30) - 1))] }, 2, 31));
    v.push(("midside31-mid-max-side-max", Frame { header: hdr(16, ChannelAssignment::MidSide, 31, 0), subframes: vec![verb(ext31((1 << 30) - 1)), verb(ext31(i32::MAX))] }, 2, 31));
    v.push(("midside31-side-min", Frame { header: hdr(16, ChannelAssignment::MidSide, 31, 0), subframes: vec![verb(ext31(0)), verb(ext31(i32::MIN))] }, 2, 31));
    v.push(("midside31-mid-min-side-min+1", Frame { header: hdr(16, ChannelAssignment::MidSide, 31, 0), subframes: vec![verb(ext31(-(1 << 30))), verb(ext31(i32::MIN + 1))] }, 2, 31));
    // 33-bit side channel with an exploding LPC recursion (i64 arithmetic)
    let wide_lpc = |assign: ChannelAssignment, first: bool| {
        let side = SubframeWidth::Wide(Subframe::Lpc { order: NonZero::new(1).unwrap(), warm_up: vec![(1i64 << 32) - 1], precision: SignedBitCount::<15>::try_from(15).unwrap(), shift: 0, coefficients: vec![16383], residuals: rice_res(28, vec![i32::MAX as i64; 15]), wasted_bps: 0 });
        let other = verb(vec![i32::MIN; 16]);
        Frame { header: hdr(16, assign, 32, 0), subframes: if first { vec![side, other] } else { vec![other, side] } }
    };
    v.push(("wide33-lpc-blowup-leftside", wide_lpc(ChannelAssignment::LeftSide, false), 2, 32));
    v.push(("wide33-lpc-blowup-sideright", wide_lpc(ChannelAssignment::SideRight, true), 2, 32));
    v.push(("wide33-lpc-blowup-midside", wide_lpc(ChannelAssignment::MidSide, false), 2, 32));
    let wide_verb = |assign: ChannelAssignment, first: bool, s: i64, o: i32| {
        let side = SubframeWidth::Wide(Subframe::Verbatim { samples: vec![s; 16], wasted_bps: 0 });
        let other = verb(vec![o; 16]);
        Frame { header: hdr(16, assign, 32, 0), subframes: if first { vec![side, other] } else { vec![other, side] } }
    };
    v.push(("wide33-midside-side-min", wide_verb(ChannelAssignment::MidSide, false, -(1i64 << 32), i32::MIN), 2, 32));
    v.push(("wide33-leftside-extremes", wide_verb(ChannelAssignment::LeftSide, false, (1i64 << 32) - 1, i32::MIN), 2, 32));
    v.push(("wide33-sideright-extremes", wide_verb(ChannelAssignment::SideRight, true, (1i64 << 32) - 1, i32::MAX), 2, 32));
    // boundary-directed: a 33-bit side channel whose order-1 LPC recursion (coefficient 1291, shift 0) is solved
    // BACKWARDS so that its last sample is exactly at an i64 limit, next to other-channel values at the i32 limits:
    // every addition / subtraction of the stereo reconstruction then sits on its overflow boundary (a random
    // runaway recursion lands within 2^31 of the limit with probability 2^-32)
    let wide_chain = |assign: ChannelAssignment, first: bool, t: i64, o: i32| {
        const C: i64 = 1291;
        let mut res = vec![0i64; 15];                    // residuals of samples 1..=15, warm-up sample 0 is 0
        let mut s = t as i128;
        for k in (12..=15).rev() { let prev = s.div_euclid(C as i128); res[k - 1] = (s - C as i128 * prev) as i64; s = prev; }
        res[10] = s as i64;                                     // sample 11 = C * 0 + residual
        let side = SubframeWidth::Wide(Subframe::Lpc { order: NonZero::new(1).unwrap(), warm_up: vec![0i64], precision: SignedBitCount::<15>::try_from(12).unwrap(), shift: 0, coefficients: vec![C as i32], residuals: rice_res(20, res), wasted_bps: 0 });
        let other = verb(vec![o; 16]);
        Frame { header: hdr(16, assign, 32, 0), subframes: if first { vec![side, other] } else { vec![other, side] } }
    };
    for (an, assign, first) in [("leftside", ChannelAssignment::LeftSide, false), ("sideright", ChannelAssignment::SideRight, true), ("midside", ChannelAssignment::MidSide, false)] {
        for (tn, t) in [("max", i64::MAX), ("max-1", i64::MAX - 1), ("min", i64::MIN), ("min+1", i64::MIN + 1), ("max-2^31", i64::MAX - (1 << 31)), ("min+2^31", i64::MIN + (1 << 31))] {
            for (on, o) in [("1", 1i32), ("-1", -1), ("max", i32::MAX), ("min", i32::MIN)] {
                let name: &'static str = Box::leak(format!("wide33-chain-{}-side-{}-other-{}", an, tn, on).into_boxed_str());
                v.push((name, wide_chain(assign, first, t, o), 2, 32));
            }
        }
    }
    // wasted bits at the limit: 1 significant bit shifted up by 31
    v.push(("wasted31-const-minus1", Frame { header: hdr(16, mono, 32, 0), subframes: vec![SubframeWidth::Common(Subframe::Constant { block_size: 16, sample: -1, wasted_bps: 31 })] }, 1, 32));
    v.push(("wasted31-fixed1", Frame { header: hdr(16, mono, 32, 0), subframes: vec![SubframeWidth::Common(Subframe::Fixed { order: 1, warm_up: vec![-1], residuals: esc_res(2, vec![1; 15]), wasted_bps: 31 })] }, 1, 32));
    v
}

fn worker(watch: Arc<Watch>) {
    hook_panics();
    let seed = env_seed();
    let thorough = env_tier_thorough();
    let mut cx = Ctx { out: Out::new(), watch, t0: std::time::Instant::now(), runs: 0, by_entry: Default::default(), outcomes: Default::default(), by_class: Default::default(), max_peak: 0, max_ms: 0, subset_cases: Default::default(), max_subset_cases: scale(if thorough { 600 } else { 120 }) };
    cx.out.per_key_limit = 2;
    let mut rng = Rng::new(seed, 0xC04);
    let kinds = all_kinds();
    let known = probe_known();

    // ---------------- targeted extreme-value frames (as raw frames and inside a file)
    for (name, fr, ch, bps) in targeted() {
        let raw = serialise(&fields_of_frame(&fr));
        let via_crate = catch(|| { let mut v = vec![]; fr.write_subset(&mut v).map(|_| v) });
        if let Ok(Ok(v)) = &via_crate { if *v != raw { note(&format!("targeted frame {}: field emitter and Frame::write_subset differ", name)); } }
        let si = Si { min_bs: 16, max_bs: 4096, min_fs: 0, max_fs: 0, rate: 44100, ch, bps, total: 0, md5: [0; 16] }.to_streaminfo();
        cx.run_frames("targeted", name, &raw, Some(&si));
        for total in [0u64, 16] {
            let file = wrap(&raw, ch, bps, 44100, total, 4096);
            cx.run_file("targeted", name, &file);
        }
    }
    // over-long final block: STREAMINFO total smaller than what the frames deliver (F-C04b)
    {
        let mut w = Cursor::new(Vec::new());
        let mut sw = flac_codec::encode::FlacStreamWriter::new(&mut w, flac_codec::encode::Options::default());
        for _ in 0..3 { let _ = sw.write(44100, 1, 16, &gen_pcm(&mut rng, "walk", 1, 16, 16)); }
        drop(sw);
        let frames = w.into_inner();
        for total in [1u64, 15, 20, 33, 47] {
            let file = wrap(&frames, 1, 16, 44100, total, 4096);
            cx.run_file("targeted", &format!("declared-total-{}-but-48-samples-present", total), &file);
        }
    }

    // ---------------- metadata blocks whose declared counts and lengths are extreme while the
    // block itself is short (a count must never be trusted for an allocation before the items
    // are actually read) — one valid frame follows, so every file reader gets past the blocks
    {
        let mut w = Cursor::new(Vec::new());
        let mut sw = flac_codec::encode::FlacStreamWriter::new(&mut w, flac_codec::encode::Options::default());
        let _ = sw.write(44100, 1, 16, &gen_pcm(&mut rng, "walk", 1, 16, 16));
        drop(sw);
        let frame = w.into_inner();
        let si = Si { min_bs: 16, max_bs: 16, min_fs: 0, max_fs: 0, rate: 44100, ch: 1, bps: 16, total: 16, md5: [0; 16] };
        let big: [u32; 6] = [1 << 20, 1 << 24, 1 << 28, 0x7FFF_FFFF, 0x8000_0000, 0xFFFF_FFFF];
        let mut blocks: Vec<(String, u8, Vec<u8>)> = vec![];
        for &n in &big {
            // VORBIS_COMMENT: vendor length, field count, field length (little-endian)
            let le = n.to_le_bytes();
            blocks.push((format!("vorbis-comment vendor-length {:#x}", n), 4, le.to_vec()));
            blocks.push((format!("vorbis-comment field-count {:#x}", n), 4, [&[0u8, 0, 0, 0][..], &le].concat()));
            blocks.push((format!("vorbis-comment field-count {:#x} then one field", n), 4, [&[0u8, 0, 0, 0][..], &le, &[3, 0, 0, 0], b"A=b"].concat()));
            blocks.push((format!("vorbis-comment field-length {:#x}", n), 4, [&[0u8, 0, 0, 0][..], &[1, 0, 0, 0], &le].concat()));
            // PICTURE: type, mime length, description length, dims, data length (big-endian)
            let be = n.to_be_bytes();
            blocks.push((format!("picture mime-length {:#x}", n), 6, [&[0u8, 0, 0, 3][..], &be].concat()));
            blocks.push((format!("picture description-length {:#x}", n), 6, [&[0u8, 0, 0, 3][..], &[0, 0, 0, 0], &be].concat()));
            blocks.push((format!("picture data-length {:#x}", n), 6, [&[0u8, 0, 0, 3][..], &[0, 0, 0, 0], &[0, 0, 0, 0], &[0u8; 16][..], &be].concat()));
        }
        // CUESHEET: track count 255, index-point count 255, with nothing behind them
        let mut cs = vec![0u8; 128 + 8 + 1 + 258];
        cs.push(255);
        blocks.push(("cuesheet track-count 255 and no tracks".into(), 5, cs.clone()));
        cs.pop();
        cs.push(1);
        cs.extend_from_slice(&[0u8; 8]);
        cs.push(1);
        cs.extend_from_slice(&[0u8; 12 + 1 + 13]);
        cs.push(255);
        blocks.push(("cuesheet index-count 255 and no index points".into(), 5, cs));
        // SEEKTABLE / APPLICATION / reserved types with odd sizes
        blocks.push(("seektable of 17 bytes".into(), 3, vec![0xFF; 17]));
        blocks.push(("application of 3 bytes".into(), 2, vec![1, 2, 3]));
        blocks.push(("reserved type 99".into(), 99, vec![0; 5]));
        for (what, ty, body) in &blocks {
            // (i) the block length field says what is there; (ii) it claims 2^24-1 bytes
            for claim_all in [false, true] {
                let mut f = si.file_header(None);
                f[4] = 0x00;
                f.push(0x80 | ty);
                let len = if claim_all { 0xFF_FFFFu32 } else { body.len() as u32 };
                f.extend_from_slice(&len.to_be_bytes()[1..]);
                f.extend_from_slice(body);
                f.extend_from_slice(&frame);
                cx.run_file("metadata-extremes", &format!("{}{}", what, if claim_all { " (block length 0xFFFFFF)" } else { "" }), &f);
            }
        }
    }

    // ---------------- (a) one-field mutations of valid frames, checksums recomputed
    let n_a = scale(if thorough { 30000 } else { 2500 });
    let mut done_a = 0usize;
    while done_a < n_a {
        // a valid frame from the generator (raw frame stream) ...
        let cfg = GenCfg { subset: true, allow_pred_overflow: false, max_unary: 60 };
        let g = gen_subset(&mut rng, &cfg, 1, 48);
        let mut c = Cursor::new(&g.bytes[..]);
        let fr = match catch(|| Frame::read_subset(&mut c)) { Ok(Ok(f)) => f, _ => continue };
        let (ch, bps, rate) = (g.frames[0].ch, g.frames[0].bps, g.frames[0].rate);
        let fields = fields_of_frame(&fr);
        let reps = 6;
        for _ in 0..reps {
            let mut fl = fields.clone();
            let mut what = mutate_one(&mut rng, &mut fl);
            if rng.chance(1, 5) { what = format!("{} + {}", what, mutate_one(&mut rng, &mut fl)); }
            let raw = serialise(&fl);
            let si = Si { min_bs: 16, max_bs: 65535, min_fs: 0, max_fs: 0, rate, ch, bps, total: 0, md5: [0; 16] }.to_streaminfo();
            cx.run_frames("field-mutation", &what, &raw, Some(&si));
            let file = wrap(&raw, ch, bps, rate, if rng.chance(1, 2) { 0 } else { g.frames[0].samples.len() as u64 / ch as u64 }, 65535);
            cx.run(&"field-mutation".to_string(), &what, &["sample_fill", "channels", "frame_iter", "verify"], &file, None);
            done_a += 1;
        }
    }
    // ... and valid frames from the crate's encoder inside files (non-subset codings, mid/side, LPC)
    let n_a2 = scale(if thorough { 4000 } else { 400 });
    for i in 0..n_a2 {
        let mut cfg = random_cfg(&mut rng, &known);
        cfg.bs = rng.range(16, 64) as u16;
        cfg.padding = Some(0);
        cfg.seek = SeekPol::None;
        let kind = kinds[i % kinds.len()];
        let n = rng.range(1, cfg.bs as i64 * 2) as usize;
        let pcm = gen_pcm_ext(&mut rng, kind, cfg.ch as usize, cfg.bps, n);
        let Ok(file) = encode_to_vec(Writer::Samples, &cfg, &pcm, &[pcm.len()]) else { continue };
        let Some(bounds) = frame_boundaries(&file) else { continue };
        if bounds.len() < 2 { continue; }
        let k = rng.below(bounds.len() as u64 - 1) as usize;
        let si = Si { min_bs: cfg.bs, max_bs: cfg.bs, min_fs: 0, max_fs: 0, rate: cfg.rate, ch: cfg.ch, bps: cfg.bps, total: 0, md5: [0; 16] }.to_streaminfo();
        let mut c = Cursor::new(&file[bounds[k]..bounds[k + 1]]);
        let fr = match catch(|| Frame::read(&mut c, &si)) { Ok(Ok(f)) => f, _ => continue };
        let fields = fields_of_frame(&fr);
        for _ in 0..4 {
            let mut fl = fields.clone();
            let what = mutate_one(&mut rng, &mut fl);
            let raw = serialise(&fl);
            let mut f2 = file[..bounds[k]].to_vec();
            f2.extend_from_slice(&raw);
            f2.extend_from_slice(&file[bounds[k + 1]..]);
            cx.run(&"field-mutation-in-file".to_string(), &what, &["sample_fill", "bytes_le", "channels", "frame_iter", "verify"], &f2, None);
            cx.run_frames("field-mutation-in-file", &what, &raw, Some(&si));
        }
    }

    // ---------------- (b) checksum-repaired bit/byte mutations of valid files
    let n_b = scale(if thorough { 3000 } else { 300 });
    for i in 0..n_b {
        let (file, bounds): (Vec<u8>, Vec<usize>) = if i % 2 == 0 {
            let mut cfg = random_cfg(&mut rng, &known);
            cfg.bs = rng.range(16, 48) as u16;
            cfg.padding = Some(rng.below(20) as u32);
            let n = rng.range(1, cfg.bs as i64 * 3) as usize;
            let pcm = gen_pcm_ext(&mut rng, kinds[i % kinds.len()], cfg.ch as usize, cfg.bps, n);
            let Ok(file) = encode_to_vec(Writer::Samples, &cfg, &pcm, &[pcm.len()]) else { continue };
            let Some(b) = frame_boundaries(&file) else { continue };
            (file, b)
        } else {
            let ch = rng.range(1, 3) as usize;
            let bps = *rng.pick(&[8u32, 16, 24, 32, 31, 13]);
            let blocks = vec![rng.range(16, 40) as usize, rng.range(1, 40) as usize];
            let variable = rng.chance(1, 2);
            let tk = rng.chance(1, 2);
            let g = gen_file(&mut rng, &GenCfg { subset: false, allow_pred_overflow: false, max_unary: 60 }, kinds[i % kinds.len()], ch, bps, 44100, &if variable { blocks.clone() } else { vec![blocks[0], blocks[1].min(blocks[0])] }, variable, tk, true);
            (g.bytes, g.offsets)
        };
        for _ in 0..10 {
            let mut f = file.clone();
            let nmut = 1 + rng.below(3);
            let mut what = String::new();
            for _ in 0..nmut {
                let pos = rng.below(f.len() as u64) as usize;
                match rng.below(3) { 0 => f[pos] ^= 1 << rng.below(8), 1 => f[pos] = *rng.pick(&[0u8, 0xFF, 0x7F, 0x80]), _ => f[pos] = rng.next() as u8 }
                what.push_str(&format!("byte{} ", pos));
                // repair the checksums of the frame containing pos
                for w in bounds.windows(2) { if pos >= w[0] && pos < w[1] { repair(&mut f, w[0], w[1]); } }
            }
            cx.run_file("repaired-file-mutation", &what, &f);
            if bounds[0] < f.len() { cx.run_frames("repaired-file-mutation", &what, &f[bounds[0]..], None); }
        }
        // every truncation of a small file
        if file.len() < 400 {
            for cut in 0..file.len() {
                cx.run(&"truncation".to_string(), &format!("cut at {}", cut), &["sample_fill", "bytes_le", "channels", "frame_iter", "blocklist", "verify"], &file[..cut], None);
            }
        }
    }

    // ---------------- (c) raw bytes
    let n_c = scale(if thorough { 20000 } else { 2000 });
    for i in 0..n_c {
        let len = match i % 4 { 0 => rng.below(12), 1 => rng.below(64), 2 => rng.below(300), _ => rng.below(2000) } as usize;
        let mut b = rng.bytes(len);
        match i % 5 {
            0 => {}
            1 => { let mut f = b"fLaC".to_vec(); f.append(&mut b); b = f; }
            2 => { let mut f = vec![0xFF, 0xF8 | (rng.below(2) as u8)]; f.append(&mut b); b = f; }
            3 => {
                // fLaC + plausible STREAMINFO + random
                let si = Si { min_bs: 16, max_bs: *rng.pick(&[16u16, 4096, 65535]), min_fs: 0, max_fs: 0, rate: 44100, ch: rng.range(1, 8) as u8, bps: rng.range(1, 32) as u32, total: *rng.pick(&[0u64, 1, 100, (1 << 36) - 1]), md5: [0; 16] };
                let mut f = si.file_header(None);
                f.extend_from_slice(&[0xFF, 0xF8]);
                f.append(&mut b);
                b = f;
            }
            _ => { for x in b.iter_mut() { if rng.chance(1, 3) { *x = 0xFF; } else if rng.chance(1, 3) { *x = 0; } } }
        }
        cx.run_file("raw", "random bytes", &b);
        cx.run_frames("raw", "random bytes", &b, None);
    }
    // long runs of one byte (unary scans, sync scans)
    for (v, n) in [(0u8, 100_000usize), (0xFF, 100_000), (0xFE, 50_000), (0x00, 3_000_000)] {
        let mut b = vec![0xFF, 0xF8, 0x69, 0x08, 0x00, 0x0F];
        let c8 = flac_codec::verif_hooks::crc8(&b);
        b.push(c8);
        b.push(0x10 | 0x02); // FIXED order 0 ... followed by a long run
        b.extend(std::iter::repeat(v).take(n));
        cx.run_frames("raw", &format!("valid header then {} x {:#04x}", n, v), &b, None);
        let f = wrap(&b, 1, 16, 44100, 0, 4096);
        cx.run(&"raw".to_string(), &format!("valid header then {} x {:#04x}", n, v), &["sample_fill", "frame_iter"], &f, None);
    }

    let m = |m: &BTreeMap<String, usize>| format!("{{{}}}", m.iter().map(|(k, v)| format!("{}:{}", esc(k), v)).collect::<Vec<_>>().join(","));
    println!(
        "{}",
        obj(&[
            ("t", esc("stat")), ("profile", esc(profile())), ("runs", cx.runs.to_string()), ("by_entry", m(&cx.by_entry)), ("by_class", m(&cx.by_class)), ("outcomes", m(&cx.outcomes)),
            ("max_peak_live_bytes", cx.max_peak.to_string()), ("max_call_ms", cx.max_ms.to_string()), ("mem_bound", esc(&format!("{} + {} * len", MEM_CONST, MEM_PER_BYTE))),
            ("cases_emitted", cx.out.cases.to_string()), ("viols", cx.out.viols.to_string()), ("viol_keys", cx.out.counts()),
        ])
    );
    cx.watch.done.store(true, Ordering::SeqCst);
}

fn main() {
    let watch = Arc::new(Watch { run: AtomicU64::new(0), start_ms: AtomicU64::new(u64::MAX), done: AtomicBool::new(false), cur: Mutex::new((String::new(), vec![])) });
    let w2 = watch.clone();
    let _ = WATCH.set(watch.clone());
    let t0 = std::time::Instant::now();
    let h = std::thread::Builder::new().stack_size(64 << 20).spawn(move || worker(w2)).unwrap();
    // watchdog: the worker stamps start_ms (relative to its own t0, created right after ours)
    loop {
        std::thread::sleep(std::time::Duration::from_millis(200));
        if watch.done.load(Ordering::SeqCst) || h.is_finished() { break; }
        let s = watch.start_ms.load(Ordering::SeqCst);
        if s != u64::MAX {
            let now = t0.elapsed().as_millis() as u64;
            if now > s + (HANG_SECS + 5) * 1000 {
                let c = watch.cur.lock().unwrap();
                println!("{}", obj(&[("t", esc("viol")), ("key", esc("hang")), ("desc", esc(&format!("call still running after {} s: {}", HANG_SECS + 5, c.0))), ("bytes", esc(&hex(&c.1[..c.1.len().min(20000)]))), ("profile", esc(profile()))]));
                println!("{}", obj(&[("t", esc("stat")), ("profile", esc(profile())), ("aborted", esc("hang"))]));
                std::process::exit(0);
            }
        }
    }
    if !watch.done.load(Ordering::SeqCst) {
        // the worker died outside catch (should not happen)
        println!("{}", obj(&[("t", esc("viol")), ("key", esc("harness-worker-died")), ("desc", esc("the worker thread ended without finishing")), ("profile", esc(profile()))]));
    }
}
