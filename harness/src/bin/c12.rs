//! C12 harness — metadata and auxiliary parsers are total on arbitrary input.
//!
//! (1) arbitrary and near-valid metadata sections (bit/byte mutations of valid ones, length
//!     fields pushed to extremes, truncations): read_blocks / BlockList::read, then every
//!     accessor on every list that parsed;
//! (2) arbitrary and near-valid cue sheet texts through Cuesheet::parse (totals that are
//!     and are not whole CD sectors), then the accessors on the result;
//! (3) arbitrary and near-valid PNG / JPEG / GIF headers through Picture::new.
//! Every call runs under catch_unwind; a panic is an observation and a "viol" line.  A
//! counting allocator checks a generous bound on the memory a single call may take.
//!
//! Output: JSON lines; "case" lines (input + canonical observation) are diffed against the
//! Coq model (ocaml/metadata_driver.ml) instantiated at the same build profile.
#[path = "metadata_inc/common.rs"]
mod common;
use common::*;

use flac_codec::metadata::{Block, BlockList, Cuesheet, Metadata, Picture, PictureType};
use std::alloc::{GlobalAlloc, Layout, System};
use std::collections::BTreeMap;
use std::sync::atomic::{AtomicUsize, Ordering};
use vharness::json::{esc, obj};
use vharness::*;

// ------------------------------------------------------------------ counting allocator
struct Counting;
static LIVE: AtomicUsize = AtomicUsize::new(0);
static PEAK: AtomicUsize = AtomicUsize::new(0);
unsafe impl GlobalAlloc for Counting {
    unsafe fn alloc(&self, l: Layout) -> *mut u8 {
        let p = unsafe { System.alloc(l) };
        if !p.is_null() {
            let v = LIVE.fetch_add(l.size(), Ordering::Relaxed) + l.size();
            PEAK.fetch_max(v, Ordering::Relaxed);
        }
        p
    }
    unsafe fn dealloc(&self, p: *mut u8, l: Layout) {
        unsafe { System.dealloc(p, l) };
        LIVE.fetch_sub(l.size(), Ordering::Relaxed);
    }
    unsafe fn realloc(&self, p: *mut u8, l: Layout, new: usize) -> *mut u8 {
        let q = unsafe { System.realloc(p, l, new) };
        if !q.is_null() {
            if new >= l.size() {
                let v = LIVE.fetch_add(new - l.size(), Ordering::Relaxed) + (new - l.size());
                PEAK.fetch_max(v, Ordering::Relaxed);
            } else {
                LIVE.fetch_sub(l.size() - new, Ordering::Relaxed);
            }
        }
        q
    }
}
#[global_allocator]
static A: Counting = Counting;

/// run f and return (result, bytes the call held at its peak beyond what was live before)
fn measured<T>(f: impl FnOnce() -> T) -> (T, usize) {
    let base = LIVE.load(Ordering::Relaxed);
    PEAK.store(base, Ordering::Relaxed);
    let r = f();
    let peak = PEAK.load(Ordering::Relaxed);
    (r, peak.saturating_sub(base))
}
/// generous and input-independent in its main term: 64 MiB + 64 bytes per input byte.  The
/// largest allocation the format allows from a declared length alone is the SEEKTABLE
/// pre-allocation `Contiguous::with_capacity(size / 18)`: at most 932 067 points of 24 bytes
/// (about 22 MiB) for a 24-bit block size; everything else is read in 4 KiB chunks.
fn alloc_bound(input_len: usize) -> usize {
    (64 << 20) + 64 * input_len
}

struct St {
    counts: BTreeMap<String, usize>,
    viol_keys: std::collections::BTreeSet<String>,
    distinct: std::collections::BTreeSet<u64>,
}
impl St {
    fn bump(&mut self, k: &str) {
        *self.counts.entry(k.to_string()).or_insert(0) += 1;
    }
    fn seen(&mut self, tag: u8, bytes: &[u8]) {
        let mut h: u64 = 0xcbf29ce484222325 ^ tag as u64;
        for b in bytes {
            h ^= *b as u64;
            h = h.wrapping_mul(0x100000001b3);
        }
        self.distinct.insert(h);
    }
}
fn viol(st: &mut St, key: &str, desc: &str, extra: &[(&str, String)]) {
    st.bump(&format!("viol:{}", key));
    if !st.viol_keys.insert(key.to_string()) {
        return;
    }
    let mut f: Vec<(&str, String)> = vec![("t", esc("viol")), ("key", esc(key)), ("desc", esc(desc)), ("profile", esc(profile()))];
    f.extend(extra.iter().cloned());
    println!("{}", obj(&f));
}
fn case(kind: &str, input: &str, obs: &str) {
    println!("{}", obj(&[("t", esc("case")), ("k", esc(kind)), ("p", esc(profile())), ("in", esc(input)), ("obs", esc(obs))]));
}
fn profile() -> &'static str {
    if cfg!(debug_assertions) { "D" } else { "R" }
}

/// panic site -> stable key
fn site(msg: &str) -> &'static str {
    if msg.contains("divide by zero") || msg.contains("remainder with a divisor of zero") {
        "division-by-zero"
    } else if msg.contains("subtract with overflow") {
        "sub-overflow"
    } else if msg.contains("multiply with overflow") {
        "mul-overflow"
    } else if msg.contains("add with overflow") {
        "add-overflow"
    } else if msg.contains("overflow") {
        "arithmetic-overflow"
    } else if msg.contains("unwrap") {
        "unwrap"
    } else {
        "other"
    }
}

// ------------------------------------------------------------------ accessors
fn ranges_s(it: impl Iterator<Item = std::ops::Range<u64>>) -> String {
    let v: Vec<String> = it.map(|r| format!("{:x}-{:x}", r.start, r.end)).collect();
    if v.is_empty() { "-".into() } else { v.join(",") }
}

/// every cue-sheet accessor; canonical text, or Err(panic message)
fn cue_accessors(c: &Cuesheet, ch: u8, bps: u32) -> Result<String, (String, String)> {
    let a = |name: &str, r: Result<String, String>| r.map_err(|p| (name.to_string(), p));
    let n = a("track_count", catch(|| c.track_count()).map(|n| format!("{:x}", n)))?;
    let t = a("tracks", catch(|| c.tracks().count()).map(|n| format!("{:x}", n)))?;
    let r = a("track_sample_ranges", catch(|| ranges_s(c.track_sample_ranges())))?;
    let b = a("track_byte_ranges", catch(|| ranges_s(c.track_byte_ranges(ch, bps))))?;
    let d = a("display", catch(|| format!("{}", c.display("f.flac"))).map(|s| hx(s.as_bytes())))?;
    let k = a("catalog_number", catch(|| format!("{}", c.catalog_number())).map(|s| hx(s.as_bytes())))?;
    let _ = a("lead_in_samples", catch(|| format!("{:?}{}", c.lead_in_samples(), c.is_cdda())))?;
    Ok(format!("n:{},t:{},r:{},b:{},d:{},k:{}", n, t, r, b, d, k))
}

/// every accessor on a parsed block list
fn list_accessors(l: &[Block], bl: &BlockList) -> Result<String, (String, String)> {
    let a = |name: &str, r: Result<String, String>| r.map_err(|p| (name.to_string(), p));
    let mut out = vec![];
    let dur = a(
        "duration",
        catch(|| bl.duration()).map(|d| match d {
            Some(d) => format!("{:x}.{:x}", d.as_secs(), d.subsec_nanos()),
            None => "-".into(),
        }),
    )?;
    let dl = a("decoded_len", catch(|| bl.decoded_len()).map(|d| d.map(|x| format!("{:x}", x)).unwrap_or("-".into())))?;
    let mask = a("channel_mask", catch(|| u32::from(bl.channel_mask())).map(|m| format!("{:x}", m)))?;
    // the same through the STREAMINFO block itself
    let si = bl.streaminfo();
    let dur2 = a("streaminfo.duration", catch(|| si.duration()).map(|d| format!("{:?}", d)))?;
    let _ = a("streaminfo.decoded_len", catch(|| si.decoded_len()).map(|d| format!("{:?}", d)))?;
    let _ = a("streaminfo.channel_mask", catch(|| u32::from(si.channel_mask())).map(|m| format!("{:x}", m)))?;
    let _ = dur2;
    let _ = a("misc", catch(|| format!("{}{}{}{:?}{:?}", bl.channel_count(), bl.sample_rate(), bl.bits_per_sample(), bl.total_samples(), bl.md5())))?;
    out.push(format!("d:{},l:{},m:{}", dur, dl, mask));
    let ch = bl.channel_count();
    let bps = bl.bits_per_sample();
    for b in l {
        if let Block::Cuesheet(c) = b {
            out.push(cue_accessors(c, ch, bps)?);
        }
    }
    Ok(out.join(";"))
}

fn check_section(st: &mut St, bytes: &[u8], origin: &str, emit: bool) {
    let (r, held) = measured(|| run_read(bytes));
    st.bump(&format!("read:{}", r.class()));
    if held > alloc_bound(bytes.len()) {
        viol(st, "reader-allocation", &format!("read_blocks held {} bytes for a {}-byte input", held, bytes.len()), &[("file", esc(&hex(&bytes[..bytes.len().min(4000)]))), ("origin", esc(origin))]);
    }
    let mut obs = r.tag();
    match &r {
        Out::Panic(p) => viol(st, &format!("reader-panic:{}", site(p)), &format!("read_blocks panicked: {}", p), &[("file", esc(&hex(bytes))), ("origin", esc(origin))]),
        Out::Err(e) => st.bump(&format!("err:{}", e)),
        Out::Ok(l) => {
            st.seen(1, bytes);
            // BlockList::read must agree with the iterator
            let bl = catch(|| BlockList::read(std::io::Cursor::new(bytes)));
            match bl {
                Ok(Ok(bl)) => {
                    let via: Vec<Block> = bl.clone().into_iter().collect();
                    if &via != l {
                        viol(st, "blocklist-read-differs", "BlockList::read and read_blocks().collect() give different lists", &[("file", esc(&hex(bytes)))]);
                    }
                    match list_accessors(l, &bl) {
                        Ok(acc) => obs = format!("ok {} acc={}", dump_blocks(l), acc),
                        Err((name, p)) => {
                            obs = format!("ok {} acc=panic", dump_blocks(l));
                            viol(
                                st,
                                &format!("accessor-panic:{}:{}", name, site(&p)),
                                &format!("{}() panicked on a block list that parsed: {}", name, p),
                                &[("file", esc(&hex(bytes))), ("blocks", esc(&dump_blocks(l))), ("origin", esc(origin))],
                            );
                        }
                    }
                }
                Ok(Err(e)) => viol(st, "blocklist-read-differs", &format!("BlockList::read fails ({}) where read_blocks succeeds", err_class(&e)), &[("file", esc(&hex(bytes)))]),
                Err(p) => viol(st, &format!("reader-panic:{}", site(&p)), &format!("BlockList::read panicked: {}", p), &[("file", esc(&hex(bytes)))]),
            }
        }
    }
    if emit && bytes.len() <= 1 << 15 {
        case("rda", &hex(bytes), &obs);
    }
}

fn check_cue_text(st: &mut St, total: u64, text: &str, origin: &str, emit: bool) {
    let (r, held) = measured(|| catch(|| Cuesheet::parse(total, text)));
    if held > alloc_bound(text.len()) {
        viol(st, "cue-parse-allocation", &format!("Cuesheet::parse held {} bytes for a {}-byte text", held, text.len()), &[("text", esc(text)), ("origin", esc(origin))]);
    }
    let obs = match &r {
        Ok(Ok(c)) => {
            st.seen(2, text.as_bytes());
            st.bump("cue:ok");
            match cue_accessors(c, 2, 16) {
                Ok(acc) => format!("ok {} acc={}", dump_cuesheet(c), acc),
                Err((name, p)) => {
                    viol(
                        st,
                        &format!("accessor-panic:{}:{}", name, site(&p)),
                        &format!("{}() panicked on a cue sheet imported from text: {}", name, p),
                        &[("text", esc(text)), ("total", total.to_string()), ("origin", esc(origin))],
                    );
                    format!("ok {} acc=panic", dump_cuesheet(c))
                }
            }
        }
        Ok(Err(e)) => {
            st.bump("cue:err");
            st.bump(&format!("cue-err:{:?}", e));
            format!("err:{:?}", e)
        }
        Err(p) => {
            st.bump("cue:panic");
            viol(
                st,
                &format!("cue-parse-panic:{}", site(p)),
                &format!("Cuesheet::parse panicked: {}", p),
                &[("text", esc(text)), ("total", total.to_string()), ("origin", esc(origin))],
            );
            "panic".into()
        }
    };
    if emit && text.len() <= 1 << 14 {
        case("cue", &format!("{:x} {}", total, hx(text.as_bytes())), &obs);
    }
}

fn check_image(st: &mut St, data: &[u8], origin: &str, emit: bool) {
    let (r, held) = measured(|| catch(|| Picture::new(PictureType::Other, "", data.to_vec())));
    if held > alloc_bound(data.len()) {
        viol(st, "sniffer-allocation", &format!("Picture::new held {} bytes for {} bytes of image data", held, data.len()), &[("data", esc(&hex(data)))]);
    }
    let obs = match &r {
        Ok(Ok(p)) => {
            st.seen(3, data);
            st.bump(&format!("img:ok:{}", p.media_type));
            format!("ok {},{:x},{:x},{:x},{:x}", hx(p.media_type.as_bytes()), p.width, p.height, p.color_depth, p.colors_used.map(|c| c.get()).unwrap_or(0))
        }
        Ok(Err(e)) => {
            st.bump("img:err");
            match e {
                flac_codec::metadata::InvalidPicture::Io(io) => format!("err:Io:{:?}", io.kind()),
                other => {
                    let d = format!("{:?}", other);
                    format!("err:{}", d.chars().take_while(|c| c.is_alphanumeric()).collect::<String>())
                }
            }
        }
        Err(p) => {
            st.bump("img:panic");
            viol(st, &format!("sniffer-panic:{}", site(p)), &format!("Picture::new panicked: {}", p), &[("data", esc(&hex(data))), ("origin", esc(origin))]);
            "panic".into()
        }
    };
    if emit {
        case("img", &hx(data), &obs);
    }
}

// ------------------------------------------------------------------ generators
fn mutate(rng: &mut Rng, base: &[u8]) -> Vec<u8> {
    let mut b = base.to_vec();
    if b.is_empty() {
        return b;
    }
    match rng.below(9) {
        0 => {
            let i = rng.below(b.len() as u64) as usize;
            b[i] ^= 1 << rng.below(8);
        }
        1 => {
            let i = rng.below(b.len() as u64) as usize;
            b[i] = *rng.pick(&[0u8, 1, 0x7f, 0x80, 0xff, 0xfe]);
        }
        2 => {
            let n = rng.below(b.len() as u64) as usize;
            b.truncate(n);
        }
        3 => {
            // push a header length field to an extreme
            if let Some(hs) = walk_headers(base) {
                let (_, _, off, _) = hs[rng.below(hs.len() as u64) as usize];
                let v: u32 = *rng.pick(&[0u32, 1, 3, 4, 17, 18, 19, 33, 34, 35, 0xffffff, 0xfffffe, 0x800000]);
                b[off - 3] = (v >> 16) as u8;
                b[off - 2] = (v >> 8) as u8;
                b[off - 1] = v as u8;
            }
        }
        4 => {
            // change a block type / last flag
            if let Some(hs) = walk_headers(base) {
                let (_, _, off, _) = hs[rng.below(hs.len() as u64) as usize];
                b[off - 4] = rng.next() as u8;
            }
        }
        5 => {
            // an inner 32-bit length / count field to an extreme (vorbis comment, picture)
            let i = rng.below(b.len() as u64) as usize;
            let v: [u8; 4] = *rng.pick(&[[0xff, 0xff, 0xff, 0xff], [0, 0, 0, 0], [0xff, 0xff, 0xff, 0x7f], [0, 0, 1, 0], [0x7f, 0xff, 0xff, 0xff]]);
            for k in 0..4 {
                if i + k < b.len() {
                    b[i + k] = v[k];
                }
            }
        }
        6 => {
            // 64-bit field to an extreme (cue sheet offsets, seek points)
            let i = rng.below(b.len() as u64) as usize;
            let v: u8 = *rng.pick(&[0xffu8, 0x00, 0x80]);
            for k in 0..8 {
                if i + k < b.len() {
                    b[i + k] = v;
                }
            }
        }
        7 => {
            let i = rng.below(b.len() as u64 + 1) as usize;
            let extra = rng.below(6) as usize + 1;
            let ins = rng.bytes(extra);
            for (k, x) in ins.into_iter().enumerate() {
                b.insert(i + k, x);
            }
        }
        _ => {
            let i = rng.below(b.len() as u64) as usize;
            let n = (rng.below(8) as usize + 1).min(b.len() - i);
            b.drain(i..i + n);
        }
    }
    b
}

/// hand-made sections at the edges of the value space that mutation rarely reaches
fn edge_sections() -> Vec<(String, Vec<u8>)> {
    let mut v = vec![];
    let si = |rate: u32, ch: u8, bps: u8, total: u64| -> Vec<u8> {
        let mut b = b"fLaC".to_vec();
        b.extend([0x80, 0, 0, 34]);
        b.extend([0x10, 0, 0x10, 0, 0, 0, 0, 0, 0, 0]);
        let packed: u64 = ((rate as u64) << 44) | (((ch - 1) as u64) << 41) | (((bps - 1) as u64) << 36) | total;
        b.extend(packed.to_be_bytes());
        b.extend([0u8; 16]);
        b
    };
    for rate in [0u32, 1, 44100, 0xfffff] {
        for total in [0u64, 1, 44100, (1 << 36) - 1] {
            for (ch, bps) in [(1u8, 1u8), (8, 32), (2, 16)] {
                v.push((format!("streaminfo rate={} total={} ch={} bps={}", rate, total, ch, bps), si(rate, ch, bps, total)));
            }
        }
    }
    // a non-CD-DA cue sheet with offsets at the top of u64
    let cue = |cdda: bool, toff: u64, ioff: &[u64], lo: u64| -> Vec<u8> {
        let mut b = si(44100, 2, 16, 1000);
        b[4] = 0; // not last
        let mut body = vec![0u8; 128];
        body.extend(0u64.to_be_bytes());
        body.push(if cdda { 0x80 } else { 0 });
        body.extend([0u8; 258]);
        body.push(2);
        body.extend(toff.to_be_bytes());
        body.push(1);
        body.extend([0u8; 12]);
        body.push(0);
        body.extend([0u8; 13]);
        body.push(ioff.len() as u8);
        for (k, o) in ioff.iter().enumerate() {
            body.extend(o.to_be_bytes());
            body.push(k as u8 + 1);
            body.extend([0u8; 3]);
        }
        body.extend(lo.to_be_bytes());
        body.push(if cdda { 170 } else { 255 });
        body.extend([0u8; 12]);
        body.push(0);
        body.extend([0u8; 13]);
        body.push(0);
        b.extend([0x85, (body.len() >> 16) as u8, (body.len() >> 8) as u8, body.len() as u8]);
        b.extend(body);
        b
    };
    // second track far out: track offset + index 01 offset exceeds u64
    let cue2 = |cdda: bool, t2off: u64, i2: &[u64], lo: u64| -> Vec<u8> {
        let mut b = si(44100, 2, 16, 1000);
        b[4] = 0;
        let mut body = vec![0u8; 128];
        body.extend(0u64.to_be_bytes());
        body.push(if cdda { 0x80 } else { 0 });
        body.extend([0u8; 258]);
        body.push(3);
        for (tn, toff, ix) in [(1u8, 0u64, &[0u64][..]), (2u8, t2off, i2)] {
            body.extend(toff.to_be_bytes());
            body.push(tn);
            body.extend([0u8; 12]);
            body.push(0);
            body.extend([0u8; 13]);
            body.push(ix.len() as u8);
            for (k, o) in ix.iter().enumerate() {
                body.extend(o.to_be_bytes());
                body.push(if ix.len() >= 2 { k as u8 } else { 1 });
                body.extend([0u8; 3]);
            }
        }
        body.extend(lo.to_be_bytes());
        body.push(if cdda { 170 } else { 255 });
        body.extend([0u8; 12]);
        body.push(0);
        body.extend([0u8; 13]);
        body.push(0);
        b.extend([0x85, (body.len() >> 16) as u8, (body.len() >> 8) as u8, body.len() as u8]);
        b.extend(body);
        b
    };
    v.push(("noncdda cue, track 2 offset + index 01 offset > u64".into(), cue2(false, u64::MAX - 5, &[0, u64::MAX - 5], u64::MAX)));
    v.push(("cdda cue, track 2 offset + index 01 offset > u64".into(), cue2(true, (u64::MAX / 588) * 588, &[0, (u64::MAX / 588) * 588], (u64::MAX / 588) * 588)));
    v.push(("noncdda cue, two tracks moderate".into(), cue2(false, 1000, &[0, 50], 5000)));
    v.push(("noncdda cue, huge index offset".into(), cue(false, 0, &[0, u64::MAX], u64::MAX)));
    v.push(("noncdda cue, huge lead-out".into(), cue(false, 0, &[0, 5], u64::MAX)));
    v.push(("noncdda cue, all huge".into(), cue(false, 0, &[0, u64::MAX - 1, u64::MAX], u64::MAX)));
    v.push(("cdda cue, huge multiples of 588".into(), cue(true, 0, &[0, (u64::MAX / 588) * 588], (u64::MAX / 588) * 588)));
    v.push(("cdda cue, moderate".into(), cue(true, 0, &[0, 588 * 75], 588 * 75 * 60 * 100)));
    v
}

const CUE_TOKENS: &[&str] = &[
    "FILE", "TRACK", "INDEX", "ISRC", "FLAGS", "PRE", "CATALOG", "AUDIO", "NON_AUDIO", "WAVE", "\"", " ", "  ", "\n", "\r\n", "\t", ":", "00", "01", "02", "99",
    "100", "255", "256", "0", "00:00:00", "00:02:00", "99:59:74", "00:00:75", "00:60:00", "1234567890123", "AB1231212345", "AB-123-12-12345", "-1", "+1",
    "18446744073709551615", "18446744073709551616", "4294967295:00:00", "\u{a0}", "\u{2003}", "é", "x.wav",
];

fn random_cue_text(rng: &mut Rng) -> String {
    let n = rng.below(40) as usize;
    let mut s = String::new();
    for _ in 0..n {
        if rng.chance(1, 12) {
            s.push(char::from_u32(rng.below(0x250) as u32).unwrap_or(' '));
        } else {
            s.push_str(*rng.pick(CUE_TOKENS));
            if rng.chance(1, 2) {
                s.push(' ');
            }
        }
    }
    s
}

/// a well-formed cue text (CD-DA form with MM:SS:FF, or sample numbers when `cdda` is false)
fn wellformed_cue(rng: &mut Rng, cdda: bool) -> (String, u64) {
    let nt_max = if rng.chance(1, 8) { 99 } else { 6 };
    let nt = 1 + rng.below(nt_max);
    let mut s = String::new();
    if rng.chance(1, 3) {
        s.push_str(&format!("CATALOG {}\n", (0..13).map(|_| (b'0' + rng.below(10) as u8) as char).collect::<String>()));
    }
    s.push_str("FILE \"x.wav\" WAVE\n");
    let mut pos: u64 = 0;
    for t in 1..=nt {
        s.push_str(&format!("  TRACK {:02} AUDIO\n", t));
        if rng.chance(1, 4) {
            s.push_str("    FLAGS PRE\n");
        }
        if rng.chance(1, 4) {
            s.push_str("    ISRC AB1231212345\n");
        }
        let ni_max = if rng.chance(1, 10) { 99 } else { 3 };
        let ni = 1 + rng.below(ni_max);
        let first = if ni >= 2 && rng.chance(1, 2) { 0 } else { 1 };
        for k in 0..ni {
            if !(t == 1 && k == 0) {
                let step_max = if rng.chance(1, 5) { 400000 } else { 3000 };
                pos += 1 + rng.below(step_max);
            }
            if cdda {
                s.push_str(&format!("    INDEX {:02} {:02}:{:02}:{:02}\n", first + k, pos / 4500, (pos / 75) % 60, pos % 75));
            } else {
                s.push_str(&format!("    INDEX {:02} {}\n", first + k, pos));
            }
        }
    }
    let total = if cdda { (pos + 1 + rng.below(5000)) * 588 } else { pos + 1 + rng.below(5000) };
    (s, if cdda { total } else if total % 588 == 0 { total + 1 } else { total })
}

fn mutate_text(rng: &mut Rng, base: &str) -> String {
    let chars: Vec<char> = base.chars().collect();
    if chars.is_empty() {
        return String::new();
    }
    let mut c = chars.clone();
    match rng.below(8) {
        0 => {
            let i = rng.below(c.len() as u64) as usize;
            c[i] = *rng.pick(&['0', '9', ':', ' ', '\n', 'X', '-', '"', '\t', '\u{a0}']);
        }
        1 => {
            let i = rng.below(c.len() as u64) as usize;
            c.remove(i);
        }
        2 => {
            let i = rng.below(c.len() as u64 + 1) as usize;
            let tok: Vec<char> = (*rng.pick(CUE_TOKENS)).chars().collect();
            for (k, x) in tok.into_iter().enumerate() {
                c.insert(i + k, x);
            }
        }
        3 => {
            // swap two lines
            let mut lines: Vec<&str> = base.lines().collect();
            if lines.len() >= 2 {
                let i = rng.below(lines.len() as u64) as usize;
                let j = rng.below(lines.len() as u64) as usize;
                lines.swap(i, j);
            }
            return lines.join("\n");
        }
        4 => {
            // delete a line
            let mut lines: Vec<&str> = base.lines().collect();
            let i = rng.below(lines.len() as u64) as usize;
            lines.remove(i);
            return lines.join("\n");
        }
        5 => {
            // duplicate a line
            let mut lines: Vec<&str> = base.lines().collect();
            let i = rng.below(lines.len() as u64) as usize;
            let l = lines[i];
            lines.insert(i, l);
            return lines.join("\n");
        }
        6 => {
            // replace a number by an extreme
            let txt: String = c.iter().collect();
            let nums: Vec<(usize, usize)> = {
                let b = txt.as_bytes();
                let mut v = vec![];
                let mut i = 0;
                while i < b.len() {
                    if b[i].is_ascii_digit() {
                        let s = i;
                        while i < b.len() && b[i].is_ascii_digit() {
                            i += 1;
                        }
                        v.push((s, i));
                    } else {
                        i += 1;
                    }
                }
                v
            };
            if !nums.is_empty() {
                let (s, e) = nums[rng.below(nums.len() as u64) as usize];
                let rep = *rng.pick(&["0", "00", "255", "256", "99", "100", "74", "75", "59", "60", "4294967296", "18446744073709551615", "52285557016184", "31371334209711", "1"]);
                return format!("{}{}{}", &txt[..s], rep, &txt[e..]);
            }
        }
        _ => {
            let n = rng.below(c.len() as u64) as usize;
            c.truncate(n);
        }
    }
    c.into_iter().collect()
}

fn png(w: u32, h: u32, depth: u8, color: u8, extra: &[u8]) -> Vec<u8> {
    let mut b = b"\x89PNG\r\n\x1a\n".to_vec();
    b.extend(13u32.to_be_bytes());
    b.extend(b"IHDR");
    b.extend(w.to_be_bytes());
    b.extend(h.to_be_bytes());
    b.extend([depth, color, 0, 0, 0]);
    b.extend([0u8; 4]);
    b.extend(extra);
    b
}
fn png_chunk(name: &[u8; 4], len: u32, data_len: usize) -> Vec<u8> {
    let mut b = len.to_be_bytes().to_vec();
    b.extend(name);
    b.extend(vec![0u8; data_len]);
    b.extend([0u8; 4]);
    b
}
fn jpeg(segments: &[(u8, Vec<u8>)]) -> Vec<u8> {
    let mut b = vec![0xff, 0xd8];
    for (m, d) in segments {
        b.push(0xff);
        b.push(*m);
        b.extend(((d.len() + 2) as u16).to_be_bytes());
        b.extend(d);
    }
    b
}
fn sof(precision: u8, h: u16, w: u16, comps: u8) -> Vec<u8> {
    let mut d = vec![precision];
    d.extend(h.to_be_bytes());
    d.extend(w.to_be_bytes());
    d.push(comps);
    d
}
fn gif(w: u16, h: u16, flags: u8) -> Vec<u8> {
    let mut b = b"GIF89a".to_vec();
    b.extend(w.to_le_bytes());
    b.extend(h.to_le_bytes());
    b.push(flags);
    b.extend([0, 0]);
    b
}

fn main() {
    quiet_panics();
    let seed = env_seed();
    let thorough = env_tier_thorough();
    let mut st = St { counts: BTreeMap::new(), viol_keys: Default::default(), distinct: Default::default() };

    // ---------------------------------------------------------------- (1) metadata sections
    let mut rng = Rng::new(seed, 0xC12A);
    let mut bases: Vec<Vec<u8>> = vec![];
    for i in 0..(if thorough { 400 } else { 120 }) {
        let l = gen_block_list(&mut rng, &[1, 2, 3, 4, 5, 6], i % 9 == 0);
        if let Out::Ok(b) = run_write(&l) {
            if b.len() < 20000 {
                bases.push(b);
            }
        }
    }
    for (what, b) in edge_sections() {
        check_section(&mut st, &b, &what, true);
        bases.push(b);
    }
    let n_mut = if thorough { 30000 } else { 2500 };
    for i in 0..n_mut {
        let base = &bases[rng.below(bases.len() as u64) as usize];
        let mut b = mutate(&mut rng, base);
        if i % 4 == 0 {
            b = mutate(&mut rng, &b);
        }
        check_section(&mut st, &b, "mutation", true);
    }
    for i in 0..(if thorough { 4000 } else { 400 }) {
        let n = rng.below(200) as usize;
        let mut b = rng.bytes(n);
        if i % 2 == 0 && b.len() >= 4 {
            b[..4].copy_from_slice(b"fLaC");
            if i % 4 == 0 && b.len() >= 8 {
                b[4] &= 0x80;
                b[5] = 0;
                b[6] = 0;
                b[7] = 34;
            }
        }
        check_section(&mut st, &b, "arbitrary-bytes", true);
    }
    // a declared length of 2^24-1 with a short stream: no over-read, bounded allocation
    for ty in 0..7u8 {
        let mut b = bases[0][..42].to_vec();
        b[4] &= 0x7f;
        b.extend([0x80 | ty, 0xff, 0xff, 0xff]);
        b.extend(rng.bytes(100));
        check_section(&mut st, &b, "declared-length-max", true);
    }

    // ---------------------------------------------------------------- (2) cue texts
    let mut rng = Rng::new(seed, 0xC12B);
    for _ in 0..(if thorough { 6000 } else { 600 }) {
        let t = random_cue_text(&mut rng);
        let total = if rng.chance(1, 2) { 588 * rng.below(1 << 20) } else { rng.next() >> rng.below(64) };
        check_cue_text(&mut st, total, &t, "token-soup", true);
    }
    for i in 0..(if thorough { 20000 } else { 2500 }) {
        let cdda = rng.chance(2, 3);
        let (base, total) = wellformed_cue(&mut rng, cdda);
        let mut t = mutate_text(&mut rng, &base);
        if i % 3 == 0 {
            t = mutate_text(&mut rng, &t);
        }
        let total = match rng.below(6) {
            0 => 0,
            1 => total + 1,
            2 => u64::MAX,
            3 => (u64::MAX / 588) * 588,
            _ => total,
        };
        check_cue_text(&mut st, total, &t, "near-valid", base.len() < 3000);
    }
    // targeted: index before its track start, huge minutes, index numbers up to 255 and beyond
    let targeted: Vec<(u64, String)> = vec![
        (588 * 100000, "FILE \"x\" WAVE\n TRACK 01 AUDIO\n  INDEX 01 00:00:00\n TRACK 02 AUDIO\n  INDEX 00 00:10:00\n  INDEX 01 00:05:00\n".into()),
        (100001, "FILE \"x\" WAVE\n TRACK 01 AUDIO\n  INDEX 01 0\n TRACK 02 AUDIO\n  INDEX 00 5000\n  INDEX 01 100\n".into()),
        (588 * 100000, "FILE \"x\" WAVE\n TRACK 01 AUDIO\n  INDEX 01 00:00:00\n  INDEX 02 4099276460824345:00:00\n".into()),
        (588 * 100000, "FILE \"x\" WAVE\n TRACK 01 AUDIO\n  INDEX 01 00:00:00\n  INDEX 02 6971407602082:00:00\n".into()),
        (588 * 100000, "FILE \"x\" WAVE\n TRACK 01 AUDIO\n  INDEX 01 00:00:00\n  INDEX 02 18446744073709551615:59:74\n".into()),
        (100001, {
            let mut s = String::from("FILE \"x\" WAVE\n TRACK 01 AUDIO\n");
            for i in 1..=255u32 {
                s.push_str(&format!("  INDEX {} {}\n", i, i - 1));
            }
            s.push_str("  INDEX 00 300\n");
            s
        }),
        (100001, {
            let mut s = String::from("FILE \"x\" WAVE\n TRACK 01 AUDIO\n");
            for i in 0..=255u32 {
                s.push_str(&format!("  INDEX {} {}\n", i, i));
            }
            s.push_str("  INDEX 256 300\n");
            s
        }),
    ];
    for (total, t) in &targeted {
        check_cue_text(&mut st, *total, t, "targeted", true);
    }
    // argument edge cases for every keyword: lone / unbalanced / empty quotes, blanks, nothing at all
    let odd_args = ["\"", "\"\"", "\"a", "a\"", "", " ", "\"\"\"", "'", "\" \"", "\"\t", "\u{e9}\"", "\"\u{e9}"];
    for kw in ["CATALOG", "ISRC", "FILE", "TITLE", "PERFORMER", "TRACK", "INDEX", "FLAGS", "REM", "PREGAP"] {
        for a in odd_args.iter() {
            for sep in [" ", "  ", "\t"] {
                let line = format!("{}{}{}", kw, sep, a);
                // at top level, inside a track before its indices, and after an index
                let texts = [
                    format!("{}\nFILE \"x\" WAVE\n TRACK 01 AUDIO\n  INDEX 01 00:00:00\n", line),
                    format!("FILE \"x\" WAVE\n TRACK 01 AUDIO\n  {}\n  INDEX 01 00:00:00\n", line),
                    format!("FILE \"x\" WAVE\n TRACK 01 AUDIO\n  INDEX 01 00:00:00\n  {}\n", line),
                    format!("FILE \"x\" WAVE\n TRACK 01 AUDIO\n  INDEX 01 00:00:00\n{}", line),
                ];
                for t in texts.iter() {
                    check_cue_text(&mut st, 588 * 1000, t, "keyword-argument-edges", true);
                }
            }
        }
    }

    // ---------------------------------------------------------------- (3) image headers
    let mut rng = Rng::new(seed, 0xC12C);
    let mut imgs: Vec<Vec<u8>> = vec![];
    for depth in [0u8, 1, 2, 4, 8, 16, 63, 64, 85, 86, 127, 128, 255] {
        for color in [0u8, 2, 3, 4, 6, 1, 5, 7, 255] {
            let extra = if color == 3 {
                let mut e = png_chunk(b"gAMA", 4, 4);
                e.extend(png_chunk(b"PLTE", 3 * (depth as u32 + 1), 0));
                e
            } else {
                vec![]
            };
            imgs.push(png(16, 9, depth, color, &extra));
        }
    }
    imgs.push(png(1, 1, 8, 3, &png_chunk(b"PLTE", 7, 0)));
    imgs.push(png(1, 1, 8, 3, &png_chunk(b"tEXt", 0xffffffff, 10)));
    imgs.push(png(1, 1, 8, 3, &[]));
    imgs.push(png(u32::MAX, u32::MAX, 8, 6, &[]));
    for p in [0u8, 1, 8, 12, 16, 32, 64, 85, 86, 128, 255] {
        for c in [0u8, 1, 3, 4, 16, 255] {
            imgs.push(jpeg(&[(0xe0, vec![0u8; 14]), (0xc0, sof(p, 100, 200, c))]));
        }
    }
    for m in [0xc0u8, 0xc1, 0xc2, 0xc3, 0xc4, 0xc5, 0xc8, 0xcc, 0xcf, 0xd9, 0xda, 0x00, 0xff] {
        imgs.push(jpeg(&[(0xdb, vec![0u8; 65]), (m, sof(8, 65535, 65535, 3))]));
    }
    imgs.push(vec![0xff, 0xd8, 0xff, 0xe0, 0, 1, 0, 0]); // segment length below 2
    imgs.push(vec![0xff, 0xd8, 0xff, 0xe0, 0xff, 0xff]);
    imgs.push(vec![0xff, 0xd8, 0xff]);
    for f in [0u8, 1, 7, 0x80, 0xff, 0x77] {
        imgs.push(gif(640, 480, f));
        imgs.push(gif(0xffff, 0, f));
    }
    imgs.push(b"GIF".to_vec());
    imgs.push(b"GIF89a\x01".to_vec());
    let base_imgs = imgs.clone();
    for im in &imgs {
        check_image(&mut st, im, "constructed-header", true);
    }
    for _ in 0..(if thorough { 20000 } else { 2500 }) {
        let base = &base_imgs[rng.below(base_imgs.len() as u64) as usize];
        let m = mutate(&mut rng, base);
        check_image(&mut st, &m, "mutated-header", true);
    }
    for _ in 0..(if thorough { 3000 } else { 300 }) {
        let n = rng.below(64) as usize;
        let mut b = rng.bytes(n);
        let sig: &[u8] = *rng.pick(&[&b"\x89PNG\r\n\x1a\n"[..], &b"\xff\xd8\xff"[..], &b"GIF"[..], &b""[..]]);
        for (k, x) in sig.iter().enumerate() {
            if k < b.len() {
                b[k] = *x;
            }
        }
        check_image(&mut st, &b, "arbitrary-bytes", true);
    }

    let counts: Vec<String> = st.counts.iter().map(|(k, v)| format!("{}:{}", esc(k), v)).collect();
    println!(
        "{}",
        obj(&[("t", esc("stat")), ("profile", esc(profile())), ("distinct_accepted", st.distinct.len().to_string()), ("counts", format!("{{{}}}", counts.join(",")))])
    );
}
