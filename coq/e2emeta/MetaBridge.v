(* E2EMeta/MetaBridge.v — two independently written models of metadata/mod.rs agree: the byte-exact model of the
   writers area (STREAMINFO, SEEKTABLE, PADDING as the Encoder writes and rewrites them: one packed 64-bit word, a
   header byte built arithmetically) and the metadata area's typed model of all seven block types (bit strings,
   BitCount arithmetic).  Whatever the former serialises, the latter serialises to the same bytes; hence (C11) the
   metadata area's full reader returns exactly the typed blocks. *)
From Coq Require Import List NArith ZArith Lia.
From FlacBase Require Import Res Bits.
From FlacWriters Require Meta.
From FlacMeta Require Bytes Bytes_proofs Blocks BlockList Blocks_proofs Blocks_level Props_C11.
From FlacE2E Require Bridge.
Import ListNotations.
Open Scope N_scope.

Module W := FlacWriters.Meta.
Module MB := FlacMeta.Bytes.
Module M := FlacMeta.Blocks.
Module ML := FlacMeta.BlockList.

Lemma be_bytes_agree k : forall v, W.be_bytes k v = MB.be_bytes k v.
Proof. induction k as [|k IH]; intros v; cbn [W.be_bytes MB.be_bytes]; [reflexivity|]. rewrite IH. reflexivity. Qed.

Lemma zeros_agree n : repeat 0 (N.to_nat n) = MB.zerosN n.
Proof.
  induction n as [|n IH] using N.peano_ind; [reflexivity|].
  rewrite FlacMeta.Bytes_proofs.zerosN_succ, N2Nat.inj_succ. cbn [repeat]. rewrite IH. reflexivity.
Qed.

(* the typed values behind the writers area's records *)
Definition conv_md5 (o : option (list N)) : option (list N) :=
  match o with Some d => if MB.all_zero d then None else Some d | None => None end.
Definition convM (s : W.streaminfo) : M.streaminfo :=
  M.mkSI (W.si_min_bs s) (W.si_max_bs s) (W.opt0 (W.si_min_fs s)) (W.opt0 (W.si_max_fs s))
         (W.si_rate s) (W.si_channels s) (W.si_bps s) (W.opt0 (W.si_total s)) (conv_md5 (W.si_md5 s)).
Definition convP (pt : W.mpoint) : M.seekpoint :=
  match pt with W.Defined s b n => M.SPDefined s b n | W.Placeholder => M.SPPlaceholder end.
Definition convB (b : W.oblock) : M.block :=
  match b with
  | W.BPadding n => M.BPadding n
  | W.BSeekTable pts => M.BSeekTable (map convP pts)
  | W.BOther _ body => M.BPadding (N.of_nat (length body))      (* not used: excluded by `plain` *)
  end.
Definition plain (b : W.oblock) : Prop := match b with W.BOther _ _ => False | _ => True end.
Definition point_ok (pt : W.mpoint) : Prop :=
  match pt with W.Defined s b n => s < 2 ^ 64 /\ b < 2 ^ 64 /\ n < 2 ^ 16 | W.Placeholder => True end.
Definition points_ok (b : W.oblock) : Prop := match b with W.BSeekTable pts => Forall point_ok pts | _ => True end.
Definition seektables (l : list W.oblock) : nat := length (filter W.is_seektable l).

(* ---- block header ---- *)
Lemma header_agree last ty code size h :
  (ty = M.TStreaminfo /\ code = 0) \/ (ty = M.TPadding /\ code = 1) \/ (ty = M.TSeekTable /\ code = 3) ->
  W.ser_header last code size = Ok h -> M.write_header (M.mkHeader last ty size) = h /\ size <= W.BLOCKSIZE_MAX.
Proof.
  intros Hty H. unfold W.ser_header in H. destruct (N.leb_spec size W.BLOCKSIZE_MAX) as [Hs|]; [|discriminate].
  cbn [bind] in H. injection H as <-. split; [|exact Hs].
  unfold M.write_header. cbn [M.h_last M.h_type M.h_size]. rewrite <- be_bytes_agree.
  destruct Hty as [[-> ->]|[[-> ->]|[-> ->]]]; destruct last; reflexivity.
Qed.

(* ---- STREAMINFO ---- *)
Lemma all_zero_repeat : forall d, MB.all_zero d = true -> d = repeat 0 (length d).
Proof.
  induction d as [|x d IH]; intros H; [reflexivity|]. cbn [MB.all_zero forallb] in H. apply andb_prop in H. destruct H as [Hx Hd].
  apply N.eqb_eq in Hx. subst x. cbn [length repeat]. f_equal. apply IH. exact Hd.
Qed.

Lemma packed_word_bits rate ch bps tot : rate < 2 ^ 20 -> ch < 2 ^ 3 -> bps < 2 ^ 5 -> tot < 2 ^ 36 ->
  W.be_bytes 8 (rate * 2 ^ 44 + ch * 2 ^ 41 + bps * 2 ^ 36 + tot) =
  bytes_of_bits 8 (wr 20 rate ++ wr 3 ch ++ wr 5 bps ++ wr 36 tot).
Proof.
  intros H1 H2 H3 H4. set (w := rate * 2 ^ 44 + ch * 2 ^ 41 + bps * 2 ^ 36 + tot).
  destruct (FlacE2E.Bridge.packed_fields rate ch bps tot H1 H2 H3 H4) as (E1 & E2 & E3 & E4). fold w in E1, E2, E3, E4.
  assert (Hb : Forall (fun b => b < 256) (W.be_bytes 8 w)).
  { generalize 8%nat. intros k. induction k as [|k IH]; cbn [W.be_bytes]; constructor; [apply N.mod_lt; lia|exact IH]. }
  rewrite <- (bytes_of_bits_of_bytes (W.be_bytes 8 w) Hb 8) at 1 by (rewrite FlacE2E.Bridge.be_bytes_length; lia).
  f_equal. rewrite FlacE2E.Bridge.bits_of_be_bytes.
  change (8 * 8)%nat with (20 + (3 + (5 + 36)))%nat.
  rewrite (FlacE2E.Bridge.wr_app_split 20), (FlacE2E.Bridge.wr_app_split 3), (FlacE2E.Bridge.wr_app_split 5).
  change (N.of_nat (3 + (5 + 36))) with 44. change (N.of_nat (5 + 36)) with 41. change (N.of_nat 36) with 36.
  rewrite <- (FlacE2E.Bridge.wr_mod 20 (w / 2 ^ 44)), <- (FlacE2E.Bridge.wr_mod 3 (w / 2 ^ 41)), <- (FlacE2E.Bridge.wr_mod 5 (w / 2 ^ 36)), <- (FlacE2E.Bridge.wr_mod 36 w).
  change (N.of_nat 20) with 20. change (N.of_nat 3) with 3. change (N.of_nat 5) with 5. change (N.of_nat 36) with 36.
  rewrite E1, E2, E3, E4. reflexivity.
Qed.

Definition md5_ok (s : W.streaminfo) : Prop :=
  match W.si_md5 s with Some d => length d = 16%nat /\ Forall (fun b => b < 256) d | None => True end.

Local Opaque W.be_bytes MB.be_bytes.
Lemma streaminfo_agree s body : W.ser_streaminfo_body s = Ok body -> md5_ok s ->
  M.write_streaminfo (convM s) = Ok body /\ M.body_size (M.BStreaminfo (convM s)) = Ok 34 /\ length body = 34%nat /\
  FlacMeta.Blocks_proofs.ty_streaminfo (convM s) /\ FlacMeta.Blocks_proofs.canon_streaminfo (convM s).
Proof.
  unfold W.ser_streaminfo_body, W.field. intros H Hmd.
  destruct (N.ltb_spec (W.si_min_bs s) (2 ^ 16)) as [B1|]; [|discriminate]. cbn [bind] in H.
  destruct (N.ltb_spec (W.si_max_bs s) (2 ^ 16)) as [B2|]; [|discriminate]. cbn [bind] in H.
  destruct (N.ltb_spec (W.opt0 (W.si_min_fs s)) (2 ^ 24)) as [B3|]; [|discriminate]. cbn [bind] in H.
  destruct (N.ltb_spec (W.opt0 (W.si_max_fs s)) (2 ^ 24)) as [B4|]; [|discriminate]. cbn [bind] in H.
  destruct (N.ltb_spec (W.si_rate s) (2 ^ 20)) as [B5|]; [|discriminate]. cbn [bind] in H.
  destruct (N.eqb_spec (W.si_channels s) 0) as [|C0]; [discriminate|].
  destruct (N.ltb_spec (W.si_channels s - 1) (2 ^ 3)) as [B6|]; [|discriminate]. cbn [bind] in H.
  unfold W.streaminfo_bps_field in H.
  destruct ((1 <=? W.si_bps s) && (W.si_bps s - 1 <=? 31)) eqn:Eb; [|discriminate]. cbn [bind] in H.
  apply andb_prop in Eb. destruct Eb as [Eb1 Eb2]. apply N.leb_le in Eb1, Eb2.
  destruct (N.ltb_spec (W.opt0 (W.si_total s)) (2 ^ 36)) as [B7|]; [|discriminate]. cbn [bind] in H.
  injection H as <-.
  assert (Ecnt : M.bitcount_checked_sub 31 (W.si_bps s) 1 = Some (W.si_bps s - 1)).
  { unfold M.bitcount_checked_sub. destruct (N.leb_spec 1 (W.si_bps s)); [|lia]. destruct (N.leb_spec (W.si_bps s - 1) 31); [reflexivity|lia]. }
  (* the digest *)
  assert (Edig : (match W.si_md5 s with Some d => d | None => repeat 0 16 end) =
                 (match conv_md5 (W.si_md5 s) with Some m => m | None => MB.zerosN 16 end) /\
                 length (match W.si_md5 s with Some d => d | None => repeat 0 16 end) = 16%nat).
  { unfold md5_ok in Hmd. unfold conv_md5. destruct (W.si_md5 s) as [d|]; [|split; reflexivity].
    destruct Hmd as [Ld _]. split; [|exact Ld]. destruct (MB.all_zero d) eqn:Ez; [|reflexivity].
    rewrite (all_zero_repeat d Ez), Ld. reflexivity. }
  destruct Edig as [Edig Ldig].
  split; [|split; [|split; [|split]]].
  - unfold M.write_streaminfo. cbn [convM M.si_minf M.si_maxf M.si_rate M.si_ch M.si_bps M.si_total M.si_minb M.si_maxb M.si_md5].
    destruct (N.ltb_spec (W.opt0 (W.si_min_fs s)) (2 ^ 24)); [|lia]. destruct (N.ltb_spec (W.opt0 (W.si_max_fs s)) (2 ^ 24)); [|lia].
    destruct (N.ltb_spec (W.si_rate s) (2 ^ 20)); [|lia]. destruct (N.ltb_spec (W.si_channels s - 1) 8); [|change (2 ^ 3) with 8 in B6; lia].
    cbn [negb]. rewrite Ecnt. destruct (N.ltb_spec (W.opt0 (W.si_total s)) (2 ^ 36)); [|lia]. cbn [negb].
    rewrite <- !be_bytes_agree, <- Edig.
    rewrite (packed_word_bits (W.si_rate s) (W.si_channels s - 1) (W.si_bps s - 1) (W.opt0 (W.si_total s))) by (try assumption; change (2 ^ 5) with 32; lia).
    reflexivity.
  - cbn [M.body_size convM M.si_minf M.si_maxf M.si_rate M.si_ch M.si_bps M.si_total].
    destruct (N.ltb_spec (W.opt0 (W.si_min_fs s)) (2 ^ 24)); [|lia]. destruct (N.ltb_spec (W.opt0 (W.si_max_fs s)) (2 ^ 24)); [|lia].
    destruct (N.ltb_spec (W.si_rate s) (2 ^ 20)); [|lia]. destruct (N.ltb_spec (W.si_channels s - 1) 8); [|change (2 ^ 3) with 8 in B6; lia].
    cbn [negb]. rewrite Ecnt. destruct (N.ltb_spec (W.opt0 (W.si_total s)) (2 ^ 36)); [|lia]. reflexivity.
  - rewrite !app_length, !FlacE2E.Bridge.be_bytes_length. change (repeat 0 16) with [0;0;0;0;0;0;0;0;0;0;0;0;0;0;0;0] in Ldig. rewrite Ldig. reflexivity.
  - unfold FlacMeta.Blocks_proofs.ty_streaminfo. cbn [convM M.si_minb M.si_maxb M.si_minf M.si_maxf M.si_rate M.si_ch M.si_bps M.si_total M.si_md5].
    change (2 ^ 16) with 65536 in B1, B2. change (2 ^ 24) with 16777216 in B3, B4. change (2 ^ 20) with 1048576 in B5.
    change (2 ^ 3) with 8 in B6. change (2 ^ 36) with 68719476736 in B7.
    repeat split; try lia.
    unfold conv_md5, md5_ok in *. destruct (W.si_md5 s) as [d|]; [|exact I]. destruct (MB.all_zero d); [exact I|].
    destruct Hmd as [Ld Hb]. split; [rewrite FlacMeta.Bytes_proofs.lenN_length, Ld; reflexivity|exact Hb].
  - unfold FlacMeta.Blocks_proofs.canon_streaminfo. cbn [convM M.si_md5]. unfold conv_md5.
    destruct (W.si_md5 s) as [d|]; [|exact I]. destruct (MB.all_zero d) eqn:Ez; [exact I|exact Ez].
Qed.
Local Transparent W.be_bytes MB.be_bytes.

(* ---- SEEKTABLE ---- *)
Lemma point_agree pt : M.write_seekpoint (convP pt) = W.ser_point pt.
Proof.
  destruct pt as [s b n|]; cbn [convP M.write_seekpoint W.ser_point]; [reflexivity|].
  change (2 ^ 64 - 1) with M.U64_MAX. reflexivity.
Qed.

Lemma seekpoints_agree : forall pts last, W.seektable_ok last pts = true ->
  M.write_seekpoints last (map convP pts) = Ok (flat_map W.ser_point pts) /\
  M.check_seekpoints last (map convP pts) = Ok tt.
Proof.
  induction pts as [|pt pts IH]; intros last Hok; [split; reflexivity|].
  cbn [map M.write_seekpoints M.check_seekpoints flat_map W.seektable_ok] in *.
  destruct pt as [s b n|]; cbn [convP] in *.
  - change M.U64_MAX with W.U64_MAX. destruct last as [lo|].
    + apply andb_prop in Hok. destruct Hok as [Hne Hok]. apply andb_prop in Hok. destruct Hok as [Hlt Hok].
      destruct (s =? W.U64_MAX); [discriminate|]. rewrite Hlt.
      destruct (IH (Some s) Hok) as [A B]. rewrite A, B. cbn [bind]. rewrite <- (point_agree (W.Defined s b n)). split; reflexivity.
    + apply andb_prop in Hok. destruct Hok as [Hne Hok]. destruct (s =? W.U64_MAX); [discriminate|].
      destruct (IH (Some s) Hok) as [A B]. rewrite A, B. cbn [bind]. rewrite <- (point_agree (W.Defined s b n)). split; reflexivity.
  - assert (Hok' : W.seektable_ok last pts = true) by (destruct last; exact Hok).
    destruct (IH last Hok') as [A B]. rewrite A, B. cbn [bind]. rewrite <- (point_agree W.Placeholder). split; reflexivity.
Qed.

(* ---- one block ---- *)
Lemma lenN_map_convP pts : MB.lenN (map convP pts) = N.of_nat (length pts).
Proof. rewrite FlacMeta.Bytes_proofs.lenN_length, map_length. reflexivity. Qed.

Lemma flat_map_points_length pts : length (flat_map W.ser_point pts) = (18 * length pts)%nat.
Proof.
  induction pts as [|pt pts IH]; [reflexivity|]. cbn [flat_map length]. rewrite app_length, IH.
  assert (E : length (W.ser_point pt) = 18%nat) by (destruct pt; cbn [W.ser_point]; rewrite !app_length, !FlacE2E.Bridge.be_bytes_length; reflexivity).
  rewrite E. lia.
Qed.

Lemma block_agree last b x : W.ser_oblock last b = Ok x -> plain b -> points_ok b ->
  M.write_block last (convB b) = Ok x.
Proof.
  unfold W.ser_oblock. intros H Hpl Hpt. destruct b as [n|pts|k body]; [| |contradiction]; cbn [W.ser_oblock_body convB W.oblock_type] in *.
  - cbn [bind] in H. rewrite repeat_length, N2Nat.id in H.
    destruct (W.ser_header last 1 n) as [h| |] eqn:Eh; try discriminate. cbn [bind] in H. injection H as <-.
    destruct (header_agree last M.TPadding 1 n h ltac:(auto) Eh) as [Hh Hs].
    unfold M.write_block. cbn [M.body_size bind M.write_body M.block_type]. unfold M.write_padding.
    destruct (N.ltb_spec M.BLOCKSIZE_MAX n) as [Hgt|_]; [unfold W.BLOCKSIZE_MAX, M.BLOCKSIZE_MAX in *; lia|].
    cbn [bind]. rewrite Hh, zeros_agree. reflexivity.
  - destruct (W.seektable_ok None pts) eqn:Eok; [|discriminate]. cbn [bind] in H. rewrite flat_map_points_length in H.
    destruct (W.ser_header last 3 (N.of_nat (18 * length pts))) as [h| |] eqn:Eh; try discriminate. cbn [bind] in H. injection H as <-.
    destruct (header_agree last M.TSeekTable 3 _ h ltac:(auto) Eh) as [Hh Hs].
    destruct (seekpoints_agree pts None Eok) as [A B].
    unfold M.write_block. cbn [M.body_size M.write_body M.block_type]. unfold M.write_seektable. rewrite B. cbn [bind].
    rewrite lenN_map_convP.
    replace (18 * N.of_nat (length pts)) with (N.of_nat (18 * length pts)) by lia.
    destruct (N.ltb_spec M.BLOCKSIZE_MAX (N.of_nat (18 * length pts))) as [Hgt|_]; [unfold W.BLOCKSIZE_MAX, M.BLOCKSIZE_MAX in *; lia|].
    rewrite A. cbn [bind]. rewrite Hh. reflexivity.
Qed.

(* ---- the optional blocks ---- *)
Lemma rest_agree : forall l y (sk : bool), W.ser_oblocks l = Ok y -> Forall plain l -> Forall points_ok l ->
  (if sk return Prop then seektables l = 0%nat else (seektables l <= 1)%nat) ->
  ML.write_rest sk false false false (map convB l) = Ok y.
Proof.
  induction l as [|b r IH]; intros y sk H Hpl Hpt Hsk; cbn [W.ser_oblocks map ML.write_rest] in *; [exact H|].
  apply Forall_cons_iff in Hpl. destruct Hpl as [Hb Hr]. apply Forall_cons_iff in Hpt. destruct Hpt as [Pb Pr].
  destruct (W.ser_oblock (match r with [] => true | _ => false end) b) as [x| |] eqn:Ex; try discriminate. cbn [bind] in H.
  destruct (W.ser_oblocks r) as [z| |] eqn:Ez; try discriminate. cbn [bind] in H. injection H as <-.
  assert (Elast : (match map convB r with [] => true | _ => false end) = (match r with [] => true | _ => false end)) by (destruct r; reflexivity).
  pose proof (block_agree _ b x Ex Hb Pb) as Hx.
  destruct b as [n|pts|k body]; [| |contradiction]; cbn [convB] in *; rewrite Elast.
  - rewrite Hx. cbn [bind]. rewrite (IH z sk eq_refl Hr Pr); [reflexivity|]. unfold seektables in *. cbn [filter W.is_seektable] in Hsk. exact Hsk.
  - unfold seektables in Hsk. cbn [filter W.is_seektable length] in Hsk. destruct sk; [discriminate|].
    rewrite Hx. cbn [bind]. rewrite (IH z true eq_refl Hr Pr); [reflexivity|]. unfold seektables. lia.
Qed.

(* ---- the whole metadata region ---- *)
Theorem write_blocks_agree s l meta : W.write_blocks s l = Ok meta -> md5_ok s ->
  Forall plain l -> Forall points_ok l -> (seektables l <= 1)%nat ->
  ML.write_blocks (M.BStreaminfo (convM s) :: map convB l) = Ok meta.
Proof.
  unfold W.write_blocks. intros H Hmd Hpl Hpt Hsk.
  destruct (W.ser_streaminfo_body s) as [body| |] eqn:Eb; try discriminate. cbn [bind] in H.
  destruct (streaminfo_agree s body Eb Hmd) as (Hw & Hsz & Lb & _ & _). rewrite Lb in H.
  destruct (W.ser_header (match l with [] => true | _ => false end) 0 (N.of_nat 34)) as [h| |] eqn:Eh; try discriminate. cbn [bind] in H.
  destruct (W.ser_oblocks l) as [rest| |] eqn:Er; try discriminate. cbn [bind] in H. injection H as <-.
  destruct (header_agree _ M.TStreaminfo 0 _ h ltac:(auto) Eh) as [Hh _].
  assert (Elast : (match map convB l with [] => true | _ => false end) = (match l with [] => true | _ => false end)) by (destruct l; reflexivity).
  unfold ML.write_blocks, M.write_block. rewrite Elast, Hsz. cbn [bind]. cbn [M.write_body M.block_type]. rewrite Hw. cbn [bind].
  change (N.of_nat 34) with 34 in Hh. rewrite Hh.
  rewrite (rest_agree l rest false Er Hpl Hpt Hsk). cbn [bind].
  change (M.BLOCKSIZE_MAX <? 34) with false. cbn [bind]. rewrite <- app_assoc. reflexivity.
Qed.

(* ---- typed and canonical: the conversion lands in the domain of the metadata area's round-trip theorem ---- *)
Definition contiguous_ok (b : W.oblock) : Prop :=
  match b with W.BSeekTable pts => W.is_contiguous pts = true | _ => True end.

Lemma is_next_agree x prev : M.seekpoint_is_next (convP x) (convP prev) = Ok (W.mpoint_is_next x prev).
Proof. destruct x, prev; reflexivity. Qed.

Lemma contiguous_from_agree : forall pts prev,
  M.contiguous_from M.seekpoint_is_next (convP prev) (map convP pts) = W.contiguous_from prev pts.
Proof.
  induction pts as [|x pts IH]; intros prev; [reflexivity|]. cbn [map M.contiguous_from W.contiguous_from].
  rewrite is_next_agree. destruct (W.mpoint_is_next x prev); [apply IH|reflexivity].
Qed.

Lemma ty_block_conv u b x last : W.ser_oblock last b = Ok x -> plain b -> points_ok b -> contiguous_ok b ->
  FlacMeta.Blocks_level.ty_block u (convB b) /\ FlacMeta.Blocks_level.canon_block (convB b).
Proof.
  unfold W.ser_oblock. intros H Hpl Hpt Hc. destruct b as [n|pts|k body]; [| |contradiction]; cbn [W.ser_oblock_body convB W.oblock_type] in *.
  - cbn [bind] in H. rewrite repeat_length, N2Nat.id in H.
    destruct (W.ser_header last 1 n) as [h| |] eqn:Eh; try discriminate.
    destruct (header_agree last M.TPadding 1 n h ltac:(auto) Eh) as [_ Hs].
    split; [|exact I]. cbn [FlacMeta.Blocks_level.ty_block]. unfold W.BLOCKSIZE_MAX, M.BLOCKSIZE_MAX in *. exact Hs.
  - destruct (W.seektable_ok None pts) eqn:Eok; [|discriminate]. cbn [bind] in H. rewrite flat_map_points_length in H.
    destruct (W.ser_header last 3 (N.of_nat (18 * length pts))) as [h| |] eqn:Eh; try discriminate.
    destruct (header_agree last M.TSeekTable 3 _ h ltac:(auto) Eh) as [_ Hs].
    split; [|exact I]. cbn [FlacMeta.Blocks_level.ty_block]. unfold FlacMeta.Blocks_proofs.ty_seektable. split; [|split].
    + apply Forall_forall. intros sp Hin. apply in_map_iff in Hin. destruct Hin as (pt & <- & Hin).
      cbn [points_ok] in Hpt. rewrite Forall_forall in Hpt. specialize (Hpt pt Hin). destruct pt as [s0 b0 n0|]; cbn [convP FlacMeta.Blocks_proofs.ty_seekpoint point_ok] in *; [|exact I].
      destruct Hpt as (A & B & C). change (2 ^ 64) with 18446744073709551616 in A, B. change (2 ^ 16) with 65536 in C. lia.
    + cbn [contiguous_ok] in Hc. destruct pts as [|p0 pts]; [reflexivity|]. cbn [map M.is_contiguous W.is_contiguous] in *.
      unfold M.seekpoint_valid_first. cbn [andb]. rewrite contiguous_from_agree. exact Hc.
    + rewrite lenN_map_convP. unfold W.BLOCKSIZE_MAX, M.SEEK_MAX_POINTS in *. lia.
Qed.

Lemma oblocks_each : forall l y, W.ser_oblocks l = Ok y ->
  Forall (fun b => exists last x, W.ser_oblock last b = Ok x) l.
Proof.
  induction l as [|b r IH]; intros y H; [constructor|]. cbn [W.ser_oblocks] in H.
  destruct (W.ser_oblock _ b) as [x| |] eqn:Ex; try discriminate. cbn [bind] in H.
  destruct (W.ser_oblocks r) as [z| |] eqn:Ez; try discriminate. constructor; [eauto|eapply IH; reflexivity].
Qed.

(* the typed values behind what the writers area's model wrote are in the domain of the metadata area's round trip *)
Theorem written_metadata_typed : forall (u : list N -> bool) s l meta, W.write_blocks s l = Ok meta -> md5_ok s ->
  Forall plain l -> Forall points_ok l -> Forall contiguous_ok l ->
  Forall (FlacMeta.Blocks_level.ty_block u) (M.BStreaminfo (convM s) :: map convB l) /\
  Forall FlacMeta.Blocks_level.canon_block (M.BStreaminfo (convM s) :: map convB l).
Proof.
  intros u s l meta H Hmd Hpl Hpt Hct.
  unfold W.write_blocks in H.
  destruct (W.ser_streaminfo_body s) as [body| |] eqn:Eb; try discriminate. cbn [bind] in H.
  destruct (streaminfo_agree s body Eb Hmd) as (_ & _ & _ & Ts & Cs).
  destruct (W.ser_header _ 0 _) as [h| |]; try discriminate. cbn [bind] in H.
  destruct (W.ser_oblocks l) as [rest| |] eqn:Er; try discriminate.
  pose proof (oblocks_each l rest Er) as Hea.
  assert (G : Forall (fun b => FlacMeta.Blocks_level.ty_block u (convB b) /\ FlacMeta.Blocks_level.canon_block (convB b)) l).
  { apply Forall_forall. intros b Hb. rewrite Forall_forall in Hea, Hpl, Hpt, Hct. destruct (Hea b Hb) as (last & x & Ex).
    eapply ty_block_conv; eauto. }
  split; (constructor; [assumption|]); apply Forall_forall; intros b Hb; apply in_map_iff in Hb; destruct Hb as (b0 & <- & Hb0);
    rewrite Forall_forall in G; apply (G b0 Hb0).
Qed.

(* the metadata area's full reader on what the writers area's model wrote *)
Theorem written_metadata_read_in_full : forall (u : list N -> bool), FlacMeta.Props_C11.utf8_ok u ->
  forall s l meta tail, W.write_blocks s l = Ok meta -> md5_ok s ->
  Forall plain l -> Forall points_ok l -> Forall contiguous_ok l -> (seektables l <= 1)%nat ->
  ML.write_blocks (M.BStreaminfo (convM s) :: map convB l) = Ok meta /\
  ML.read_blocks u (meta ++ tail) = Ok (M.BStreaminfo (convM s) :: map convB l).
Proof.
  intros u Hu s l meta tail H Hmd Hpl Hpt Hct Hsk.
  pose proof (write_blocks_agree s l meta H Hmd Hpl Hpt Hsk) as Hw. split; [exact Hw|].
  assert (Hty : Forall (FlacMeta.Blocks_level.ty_block u) (M.BStreaminfo (convM s) :: map convB l) /\
                Forall FlacMeta.Blocks_level.canon_block (M.BStreaminfo (convM s) :: map convB l)).
  { unfold W.write_blocks in H.
    destruct (W.ser_streaminfo_body s) as [body| |] eqn:Eb; try discriminate. cbn [bind] in H.
    destruct (streaminfo_agree s body Eb Hmd) as (_ & _ & _ & Ts & Cs).
    destruct (W.ser_header _ 0 _) as [h| |]; try discriminate. cbn [bind] in H.
    destruct (W.ser_oblocks l) as [rest| |] eqn:Er; try discriminate.
    pose proof (oblocks_each l rest Er) as Hea.
    assert (G : Forall (fun b => FlacMeta.Blocks_level.ty_block u (convB b) /\ FlacMeta.Blocks_level.canon_block (convB b)) l).
    { apply Forall_forall. intros b Hb. rewrite Forall_forall in Hea, Hpl, Hpt, Hct. destruct (Hea b Hb) as (last & x & Ex).
      eapply ty_block_conv; eauto. }
    split; (constructor; [assumption|]); apply Forall_forall; intros b Hb; apply in_map_iff in Hb; destruct Hb as (b0 & <- & Hb0);
      rewrite Forall_forall in G; apply (G b0 Hb0). }
  destruct Hty as [Hty Hcn].
  apply (FlacMeta.Props_C11.C11_write_blocks_read_blocks u Hu _ meta tail Hty Hcn Hw).
Qed.

(* ---- on the finished file of an Encoder run ---- *)
From FlacWriters Require Import Params Finalize C09_proofs Writers Props_C09.

Theorem finished_metadata_read_in_full : forall (u : list N -> bool), FlacMeta.Props_C11.utf8_ok u ->
  forall e0 f, layout_ok e0 f -> e_prefix e0 = [] -> md5_ok (f_si f) ->
  Forall plain (f_blocks f) -> Forall points_ok (f_blocks f) -> Forall contiguous_ok (f_blocks f) ->
  (seektables (f_blocks f) <= 1)%nat ->
  ML.read_blocks u (f_stream f) = Ok (M.BStreaminfo (convM (f_si f)) :: map convB (f_blocks f)).
Proof.
  intros u Hu e0 f (meta' & Hw & _ & _ & _ & Hs) Hp Hmd Hpl Hpt Hct Hsk.
  rewrite Hs, Hp. cbn [app].
  apply (written_metadata_read_in_full u Hu (f_si f) (f_blocks f) meta' _ Hw Hmd Hpl Hpt Hct Hsk).
Qed.

(* for whole FlacSampleWriter model runs (any block encoder): the metadata area's full reader, applied to the finished
   file, returns the final STREAMINFO and the blocks finalize settled on, as typed values *)
Theorem sample_writer_metadata_read_in_full : forall (u : list N -> bool), FlacMeta.Props_C11.utf8_ok u ->
  forall enc_block md5 p o rate bps ch total w chunks f,
  (forall l, length (md5 l) = 16%nat) ->
  sample_new p [] o rate bps ch total = Ok w ->
  sample_run enc_block md5 p w chunks = Ok f ->
  md5_ok (f_si f) ->
  Forall plain (f_blocks f) -> Forall points_ok (f_blocks f) -> Forall contiguous_ok (f_blocks f) ->
  (seektables (f_blocks f) <= 1)%nat ->
  ML.read_blocks u (f_stream f) = Ok (M.BStreaminfo (convM (f_si f)) :: map convB (f_blocks f)).
Proof.
  intros u Hu enc_block md5 p o rate bps ch total w chunks f Hmd5 Hnew Hrun Hmd Hpl Hpt Hct Hsk.
  pose proof (C09_layout_sample enc_block md5 p [] o rate bps ch total w chunks f Hmd5 Hnew Hrun) as Hlay.
  apply (finished_metadata_read_in_full u Hu (sw_enc w) f Hlay); try assumption.
  unfold sample_new in Hnew. apply bind_ok in Hnew. destruct Hnew as (b' & _ & Hnew).
  apply bind_ok in Hnew. destruct Hnew as (t & _ & Hnew). apply bind_ok in Hnew. destruct Hnew as (e0 & He0 & Hnew). injection Hnew as <-.
  cbn [sw_enc]. unfold encoder_new in He0. apply bind_ok in He0. destruct He0 as ([] & _ & He0).
  apply bind_ok in He0. destruct He0 as (bl & _ & He0). apply bind_ok in He0. destruct He0 as (meta & _ & He0). injection He0 as <-. reflexivity.
Qed.

(* the finished file of a FlacSampleWriter model run: the metadata region the writers area's model serialises from the
   final STREAMINFO and block list, then the frames *)
Theorem sample_writer_file_layout : forall enc_block md5 p o rate bps ch total w chunks f,
  (forall l, length (md5 l) = 16%nat) ->
  sample_new p [] o rate bps ch total = Ok w ->
  sample_run enc_block md5 p w chunks = Ok f ->
  exists meta', W.write_blocks (f_si f) (f_blocks f) = Ok meta' /\ f_stream f = meta' ++ frames_bytes (f_enc f).
Proof.
  intros enc_block md5 p o rate bps ch total w chunks f Hmd5 Hnew Hrun.
  pose proof (C09_layout_sample enc_block md5 p [] o rate bps ch total w chunks f Hmd5 Hnew Hrun) as (meta' & Hw & _ & _ & _ & Hs).
  exists meta'. split; [exact Hw|]. rewrite Hs.
  assert (Ep : e_prefix (sw_enc w) = []).
  { unfold sample_new in Hnew. apply bind_ok in Hnew. destruct Hnew as (b' & _ & Hnew).
    apply bind_ok in Hnew. destruct Hnew as (t & _ & Hnew). apply bind_ok in Hnew. destruct Hnew as (e0 & He0 & Hnew). injection Hnew as <-.
    cbn [sw_enc]. unfold encoder_new in He0. apply bind_ok in He0. destruct He0 as ([] & _ & He0).
    apply bind_ok in He0. destruct He0 as (bl & _ & He0). apply bind_ok in He0. destruct He0 as (meta & _ & He0). injection He0 as <-. reflexivity. }
  rewrite Ep. reflexivity.
Qed.
