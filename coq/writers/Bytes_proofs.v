(* writers/Bytes_proofs.v — byteorder.rs: serialising a decoded sample gives back its bytes, so the
   byte writer (which feeds MD5 the little-endian input bytes) and the sample writer (which
   re-serialises the samples in update_md5) feed MD5 the same bytes. *)
From FlacWriters Require Import Writers Lists_proofs Params_proofs Audio_proofs Run_proofs Frontend_proofs.
Open Scope Z_scope.

Definition byte_ok (b : N) : Prop := (b < 256)%N.

Lemma le_bytes_z_shift : forall n z k, le_bytes_z n (z + k * 256 ^ Z.of_nat n) = le_bytes_z n z.
Proof.
  induction n as [|n IH]; intros z k; cbn [le_bytes_z]; [reflexivity|].
  rewrite Nat2Z.inj_succ, Z.pow_succ_r by lia.
  replace (z + k * (256 * 256 ^ Z.of_nat n)) with (z + (k * 256 ^ Z.of_nat n) * 256) by ring.
  rewrite Z_mod_plus_full, Z_div_plus_full by lia. rewrite IH. reflexivity.
Qed.

Lemma le_bytes_z_value : forall c, Forall byte_ok c -> le_bytes_z (length c) (le_value c) = c.
Proof.
  induction 1 as [|b c Hb F IH]; cbn [length le_bytes_z le_value]; [reflexivity|].
  unfold byte_ok in Hb.
  assert (E1 : (Z.of_N b + 256 * le_value c) mod 256 = Z.of_N b).
  { rewrite (Z.mul_comm 256), Z_mod_plus_full. apply Z.mod_small. lia. }
  assert (E2 : (Z.of_N b + 256 * le_value c) / 256 = le_value c).
  { rewrite (Z.mul_comm 256), Z_div_plus_full by lia. rewrite Z.div_small by lia. lia. }
  rewrite E1, E2, IH, N2Z.id. reflexivity.
Qed.

Lemma le_value_range : forall c, Forall byte_ok c -> 0 <= le_value c < 256 ^ Z.of_nat (length c).
Proof.
  induction 1 as [|b c Hb F IH]; cbn [length le_value]; [cbn; lia|].
  unfold byte_ok in Hb. rewrite Nat2Z.inj_succ, Z.pow_succ_r by lia. lia.
Qed.

Lemma pow_8 n : 2 ^ (8 * Z.of_nat n) = 256 ^ Z.of_nat n.
Proof. rewrite Z.pow_mul_r by lia. reflexivity. Qed.

(* to_le_bytes of the two's-complement value (i8, i16, i32, and the in-range case of i24) *)
Lemma le_bytes_z_decode c : Forall byte_ok c -> le_bytes_z (length c) (bytes_to_int_le c) = c.
Proof.
  intros F. unfold bytes_to_int_le. rewrite pow_8.
  destruct (2 * le_value c <? 256 ^ Z.of_nat (length c)).
  - apply le_bytes_z_value. exact F.
  - replace (le_value c - 256 ^ Z.of_nat (length c)) with (le_value c + (-1) * 256 ^ Z.of_nat (length c)) by ring.
    rewrite le_bytes_z_shift. apply le_bytes_z_value. exact F.
Qed.

Lemma decode_range c : Forall byte_ok c ->
  - 256 ^ Z.of_nat (length c) <= 2 * bytes_to_int_le c < 256 ^ Z.of_nat (length c).
Proof.
  intros F. pose proof (le_value_range c F) as R. unfold bytes_to_int_le. rewrite pow_8.
  destruct (Z.ltb_spec (2 * le_value c) (256 ^ Z.of_nat (length c))); lia.
Qed.

(* LittleEndian::i24_to_bytes agrees with the two's-complement bytes on 24-bit samples *)
Lemma i24_unsigned u : 0 <= u < 16777216 ->
  [Z.to_N (Z.land u 255); Z.to_N (Z.shiftr (Z.land u 65280) 8); Z.to_N ((Z.shiftr u 16) mod 256)] = le_bytes_z 3 u.
Proof.
  intros H. cbn [le_bytes_z].
  change 255 with (Z.ones 8). rewrite Z.land_ones by lia.
  rewrite Z.shiftr_land. change (Z.shiftr 65280 8) with (Z.ones 8). rewrite Z.land_ones by lia.
  rewrite !Z.shiftr_div_pow2 by lia. change (2 ^ 8) with 256. change (2 ^ 16) with (256 * 256).
  rewrite <- Z.div_div by lia. reflexivity.
Qed.

Lemma land_high x : 0 <= x < 8388608 -> Z.land 8388608 x = 0.
Proof.
  intros H. replace x with (x mod 2 ^ 23) by (apply Z.mod_small; change (2 ^ 23) with 8388608; lia).
  rewrite <- Z.land_ones by lia. rewrite (Z.land_comm x), Z.land_assoc.
  change (Z.land 8388608 (Z.ones 23)) with 0. apply Z.land_0_l.
Qed.
Lemma lor_high x : 0 <= x < 8388608 -> Z.lor 8388608 x = 8388608 + x.
Proof.
  intros H. rewrite <- Z.lxor_lor by (apply land_high; exact H).
  symmetry. apply Z.add_nocarry_lxor. apply land_high. exact H.
Qed.

Lemma i24_to_bytes_le_spec s : -8388608 <= s < 8388608 -> i24_to_bytes_le s = le_bytes_z 3 s.
Proof.
  intros H. unfold i24_to_bytes_le. destruct (Z.leb_spec 0 s) as [P|Ng].
  - apply i24_unsigned. lia.
  - rewrite (Z.mod_small (s + 8388608)) by lia. rewrite lor_high by lia.
    rewrite i24_unsigned by lia.
    replace (8388608 + (s + 8388608)) with (s + 1 * 256 ^ Z.of_nat 3) by (cbn; lia).
    apply le_bytes_z_shift.
Qed.

(* every decoded sample re-serialises to its bytes, for each sample width update_md5 handles *)
Lemma reserialise (n : N) (c : list N) : (1 <= n <= 4)%N -> length c = N.to_nat n -> Forall byte_ok c ->
  md5_of n [bytes_to_int_le c] = c.
Proof.
  intros Hn L F. unfold md5_of. cbn [flat_map]. rewrite !app_nil_r.
  pose proof (le_bytes_z_decode c F) as D. pose proof (decode_range c F) as R. rewrite L in D, R.
  destruct (N.eqb_spec n 1) as [->|]; [exact D|].
  destruct (N.eqb_spec n 2) as [->|]; [exact D|].
  destruct (N.eqb_spec n 3) as [->|].
  - rewrite i24_to_bytes_le_spec; [exact D|]. cbn in R. lia.
  - assert (n = 4%N) by lia. subst n. exact D.
Qed.

Lemma md5_of_cons n s l : md5_of n (s :: l) = md5_of n [s] ++ md5_of n l.
Proof. change (s :: l) with ([s] ++ l). apply md5_of_app. Qed.

Lemma reserialise_all (n : N) : (1 <= n <= 4)%N -> forall cs : list (list N),
  Forall (fun c => length c = N.to_nat n) cs -> Forall byte_ok (concat cs) ->
  md5_of n (map bytes_to_int_le cs) = concat cs.
Proof.
  intros Hn. induction cs as [|c cs IH]; intros L F; cbn [map concat].
  - apply md5_of_nil.
  - inversion L; subst. cbn [concat] in F. apply Forall_app in F. destruct F as [Fc Fr].
    rewrite md5_of_cons, reserialise, IH; auto.
Qed.

Section ByteFront.
Variable enc_block : N -> block -> res (list N).
Variable p : profile.
Open Scope N_scope.

(* the samples a byte chunk stands for *)
Definition samples_of (en : endian) (n : N) (buf : list N) : res (list Z) :=
  le <- bytes_to_le en n buf;; Ok (map bytes_to_int_le (fst (drain (N.to_nat n) le))).

(* FlacByteWriter (little-endian input) and FlacSampleWriter on the same block: identical Encoder
   call, identical MD5 bytes.  `buf` is any byte string made of whole samples. *)
Theorem byte_block_as_samples_le ch n e (buf : list N) m :
  1 <= n <= 4 -> N.of_nat (length buf) = n * m -> Forall byte_ok buf ->
  byte_encode_chunk enc_block p LE ch n e buf =
  sample_encode_chunk enc_block p ch n e (map bytes_to_int_le (fst (drain (N.to_nat n) buf))).
Proof.
  intros Hn L F. unfold byte_encode_chunk, sample_encode_chunk, bytes_to_le. cbn [bind].
  destruct (drain_whole (N.to_nat n) (N.to_nat m) buf) as (cs & D & Lc & Fc & E); [lia|lia|].
  rewrite D. cbn [fst].
  rewrite (update_md5_ok n _ Hn). cbn [bind].
  rewrite reserialise_all; auto; [|rewrite <- E; exact F]. rewrite <- E.
  unfold fill_from_buf_le.
  replace ((1 <=? n) && (n <=? 4)) with true by (symmetry; apply andb_true_intro; split; apply N.leb_le; lia).
  rewrite D. cbn [fst]. reflexivity.
Qed.

(* big-endian input: the same, after reversing every sample *)
Lemma rev_byte_ok c : Forall byte_ok c -> Forall byte_ok (rev c).
Proof. intros F. apply Forall_forall. intros x Hx. apply in_rev in Hx. rewrite Forall_forall in F. auto. Qed.

Theorem byte_block_as_samples_be ch n e (buf : list N) m :
  1 <= n <= 4 -> N.of_nat (length buf) = n * m -> Forall byte_ok buf ->
  byte_encode_chunk enc_block p BE ch n e buf =
  sample_encode_chunk enc_block p ch n e
    (map (fun c => bytes_to_int_le (rev c)) (fst (drain (N.to_nat n) buf))).
Proof.
  intros Hn L F. unfold byte_encode_chunk at 1. unfold bytes_to_le.
  destruct (N.eqb_spec n 0); [lia|].
  destruct (drain_whole (N.to_nat n) (N.to_nat m) buf) as (cs & D & Lc & Fc & E); [lia|lia|].
  rewrite D. cbn [fst bind]. rewrite app_nil_r.
  set (le := concat (map (@rev N) cs)).
  assert (Lle : N.of_nat (length le) = n * m).
  { unfold le. rewrite (concat_length_uniform (N.to_nat n)).
    - rewrite map_length, Lc. lia.
    - apply Forall_forall. intros x Hx. apply in_map_iff in Hx. destruct Hx as (y & <- & Hy).
      rewrite rev_length. rewrite Forall_forall in Fc. auto. }
  assert (Fle : Forall byte_ok le).
  { unfold le. apply Forall_forall. intros x Hx. apply in_concat in Hx. destruct Hx as (c & Hc & Hx).
    apply in_map_iff in Hc. destruct Hc as (y & <- & Hy). apply in_rev in Hx.
    rewrite Forall_forall in F. apply F. rewrite E. apply in_concat. eauto. }
  pose proof (byte_block_as_samples_le ch n e le m Hn Lle Fle) as B.
  unfold byte_encode_chunk at 1 in B. unfold bytes_to_le in B. cbn [bind] in B. rewrite B.
  f_equal.
  assert (Dl : drain (N.to_nat n) le = (map (@rev N) cs, [])).
  { pose proof (drain_unique (N.to_nat n) ltac:(lia) (map (@rev N) cs) []) as U. rewrite app_nil_r in U.
    apply U; [|cbn; lia]. apply Forall_forall. intros x Hx. apply in_map_iff in Hx. destruct Hx as (y & <- & Hy).
    rewrite rev_length. rewrite Forall_forall in Fc. auto. }
  rewrite Dl. cbn [fst]. rewrite map_map. reflexivity.
Qed.

End ByteFront.
