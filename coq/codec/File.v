(* Codec/File.v — a whole file: "fLaC", the STREAMINFO block, any further metadata blocks, the frames.
   The minimal metadata reader of Stream.v returns exactly the STREAMINFO that was serialised and
   exactly the audio bytes; with Enc_proofs.enc_stream_roundtrip this gives the round trip of C01 at
   file level for the encoder model:  dec_stream (file) = (streaminfo, the blocks in order, clean end). *)
From FlacCodec Require Import Dec Wf Spec Stream Enc Enc_proofs Roundtrip_frame.
From FlacBase Require Import Bits.
Open Scope N_scope.
Local Arguments N.add : simpl never.
Local Arguments N.mul : simpl never.
Local Arguments N.div : simpl never.
Local Arguments N.modulo : simpl never.
Local Arguments N.pow : simpl never.
Local Arguments Nat.div : simpl never.
Local Arguments Nat.modulo : simpl never.

(* STREAMINFO body, 34 bytes (metadata/mod.rs Streaminfo::to_writer) *)
Definition si_bits (si : streaminfo) : list bool :=
  wr 16 (si_min_bs si) ++ wr 16 (si_max_bs si) ++ wr 24 (si_min_fs si) ++ wr 24 (si_max_fs si) ++
  wr 20 (si_rate si) ++ wr 3 (si_channels si - 1) ++ wr 5 (si_bps si - 1) ++ wr 36 (si_total si).
Definition ser_streaminfo (si : streaminfo) : list N := bytes_of_bits 18 (si_bits si) ++ si_md5 si.

Definition si_ok (si : streaminfo) : Prop :=
  si_min_bs si < 2 ^ 16 /\ si_max_bs si < 2 ^ 16 /\ si_min_fs si < 2 ^ 24 /\ si_max_fs si < 2 ^ 24 /\
  si_rate si < 2 ^ 20 /\ 1 <= si_channels si /\ si_channels si <= 8 /\ 1 <= si_bps si /\ si_bps si <= 32 /\
  si_total si < 2 ^ 36 /\ length (si_md5 si) = 16%nat.

(* a further metadata block: type (1..126) and body *)
Definition ser_block (last : bool) (blk : N * list N) : list N :=
  let len := N.of_nat (length (snd blk)) in
  [(if last then 128 else 0) + fst blk; len / 65536; (len / 256) mod 256; len mod 256] ++ snd blk.
Fixpoint ser_blocks (l : list (N * list N)) : list N :=
  match l with
  | [] => []
  | b :: r => ser_block (match r with [] => true | _ => false end) b ++ ser_blocks r
  end.
Definition blocks_ok (l : list (N * list N)) : Prop :=
  Forall (fun b => fst b < 128 /\ N.of_nat (length (snd b)) < 2 ^ 24) l.

Definition file_of (si : streaminfo) (others : list (N * list N)) (audio : list N) : list N :=
  [102; 76; 97; 67] ++ [match others with [] => 128 | _ => 0 end; 0; 0; 34] ++
  ser_streaminfo si ++ ser_blocks others ++ audio.

Lemma si_bits_length si : length (si_bits si) = 144%nat.
Proof. unfold si_bits. rewrite !app_length, !wr_length. reflexivity. Qed.

Lemma ser_streaminfo_length si : si_ok si -> length (ser_streaminfo si) = 34%nat.
Proof.
  intros H. unfold ser_streaminfo. rewrite app_length.
  assert (L : length (bytes_of_bits 18 (si_bits si)) = 18%nat).
  { apply (bits_of_bytes_of_bits 18 (si_bits si) (si_bits_length si)). }
  destruct H as (_ & _ & _ & _ & _ & _ & _ & _ & _ & _ & Hm). rewrite L, Hm. reflexivity.
Qed.

Theorem parse_ser_streaminfo si : si_ok si -> parse_streaminfo (ser_streaminfo si) = Some si.
Proof.
  intros H. pose proof (ser_streaminfo_length si H) as L.
  destruct H as (H1 & H2 & H3 & H4 & H5 & H6 & H7 & H8 & H9 & H10 & Hm).
  unfold parse_streaminfo. rewrite L. cbn [Nat.eqb negb].
  unfold ser_streaminfo at 1. rewrite bits_of_bytes_app, (proj1 (bits_of_bytes_of_bits 18 _ (si_bits_length si))).
  unfold si_bits. rewrite <- !app_assoc.
  rewrite rd_wr by (cbn; lia). rewrite rd_wr by (cbn; lia). rewrite rd_wr by (cbn; lia). rewrite rd_wr by (cbn; lia).
  rewrite rd_wr by (cbn; lia).
  rewrite rd_wr by (change (2 ^ N.of_nat 3) with 8; lia).
  rewrite rd_wr by (change (2 ^ N.of_nat 5) with 32; lia).
  rewrite rd_wr by (cbn; lia).
  assert (Emd : skipn 18 (ser_streaminfo si) = si_md5 si).
  { unfold ser_streaminfo.
    assert (L18 : length (bytes_of_bits 18 (si_bits si)) = 18%nat).
    { apply (bits_of_bytes_of_bits 18 (si_bits si) (si_bits_length si)). }
    rewrite skipn_app, skipn_all2 by lia. rewrite L18, Nat.sub_diag. reflexivity. }
  rewrite Emd. f_equal. destruct si. cbn in *. f_equal; lia.
Qed.

Lemma be_num3 len : len < 2 ^ 24 -> be_num [len / 65536; (len / 256) mod 256; len mod 256] 0 = len.
Proof.
  intros H. cbn [be_num].
  pose proof (N.div_mod len 256 ltac:(lia)) as D1. pose proof (N.div_mod (len / 256) 256 ltac:(lia)) as D2.
  assert (E : len / 65536 = len / 256 / 256) by (rewrite N.div_div by lia; reflexivity). lia.
Qed.

Lemma skip_ser_blocks : forall others fuel audio, blocks_ok others -> others <> [] ->
  (length (ser_blocks others) <= fuel)%nat ->
  skip_blocks fuel false (ser_blocks others ++ audio) = Some audio.
Proof.
  induction others as [|[ty body] r IH]; intros fuel audio Hok Hne Hfuel; [congruence|].
  apply Forall_cons_iff in Hok. destruct Hok as [[Hty Hlen] Hr]. cbn [fst snd] in *.
  cbn [ser_blocks] in *. unfold ser_block in *. cbn [fst snd] in *. rewrite <- !app_assoc. cbn [app] in *.
  destruct fuel as [|f]; [cbn [length] in Hfuel; lia|]. cbn [skip_blocks].
  rewrite be_num3 by exact Hlen. rewrite Nat2N.id.
  rewrite app_length. destruct (Nat.ltb_spec (length body + length (ser_blocks r ++ audio)) (length body)); [lia|].
  rewrite skipn_app, skipn_all, Nat.sub_diag. cbn [skipn app].
  destruct r as [|b2 r2].
  - cbn [ser_blocks app]. destruct (N.leb_spec 128 (128 + ty)); [|lia]. destruct f; reflexivity.
  - destruct (N.leb_spec 128 (0 + ty)); [lia|].
    apply IH; [exact Hr|discriminate|]. cbn [length] in Hfuel. rewrite app_length in Hfuel. lia.
Qed.

Theorem read_file_metadata si others audio : si_ok si -> blocks_ok others ->
  read_metadata_min (file_of si others audio) = Some (si, audio).
Proof.
  intros Hsi Hok. unfold file_of. cbn [app]. unfold read_metadata_min.
  pose proof (ser_streaminfo_length si Hsi) as L.
  assert (Hf : firstn 34 (ser_streaminfo si ++ ser_blocks others ++ audio) = ser_streaminfo si).
  { rewrite <- L. rewrite firstn_app, Nat.sub_diag, firstn_all. cbn [firstn]. apply app_nil_r. }
  assert (Hs : skipn 34 (ser_streaminfo si ++ ser_blocks others ++ audio) = ser_blocks others ++ audio).
  { rewrite skipn_app, skipn_all2 by lia. rewrite L, Nat.sub_diag. reflexivity. }
  destruct others as [|b r].
  - cbn [N.eqb Pos.eqb orb negb]. rewrite Hf, Hs, (parse_ser_streaminfo si Hsi). cbn [ser_blocks app].
    change (128 <=? 128) with true. destruct (length _); reflexivity.
  - cbn [N.eqb orb negb]. rewrite Hf, Hs, (parse_ser_streaminfo si Hsi).
    change (128 <=? 0) with false.
    rewrite skip_ser_blocks; [reflexivity|exact Hok|discriminate|].
    rewrite !app_length. lia.
Qed.

(* ---- C01 at file level for the encoder model ---- *)
Theorem enc_file_roundtrip o L si others blocks bytes :
  enc_blocks o L (si_rate si) (si_bps si) 0 blocks = Some bytes ->
  si_ok si -> blocks_ok others ->
  Forall (block_ok si (si_bps si)) blocks ->
  N.of_nat (length blocks) <= MAX_FRAME_NUMBER + 1 ->
  short_only_last si blocks ->
  (si_total si = 0 \/ blocks_samples blocks = si_total si) ->
  dec_stream (file_of si others bytes) = Some (si, map interleave_frame blocks, EndEof).
Proof.
  intros He Hsi Hok Hall Hk Hs Ht. unfold dec_stream. rewrite (read_file_metadata si others bytes Hsi Hok).
  rewrite (enc_stream_roundtrip o L si (si_rate si) (si_bps si) blocks 0 bytes (S (length bytes)) 0 [] He Hall eq_refl);
    [reflexivity|lia|exact Hs| |lia].
  destruct Ht as [Ht|Ht]; [left; exact Ht|right; lia].
Qed.

(* ---- C14 at file level: the provisional header followed by complete frames and a cut frame ---- *)
From FlacCodec Require Import Progress Interrupted.
Theorem interrupted_file si others fs allb g gb m :
  si_ok si -> blocks_ok others ->
  Forall (frame_ok si) fs -> frames_bytes fs = Some allb ->
  frame_ok si g -> write_frame g = Some gb -> (m < length gb)%nat ->
  (si_total si = 0 \/ total_samples fs + h_bs (f_hdr g) <= si_total si) ->
  match dec_stream (file_of si others (allb ++ firstn m gb)) with
  | Some (si', out, e) => si' = si /\ out = map (fun f => interleave_frame (sem_frame f)) fs /\ is_end_panic e = false
  | None => False
  end.
Proof.
  intros Hsi Hok Hfs Hb Hg Hgw Hm Ht. unfold dec_stream. rewrite (read_file_metadata si others _ Hsi Hok).
  pose proof (interrupted_stream si fs allb g gb m (S (length (allb ++ firstn m gb))) 0 [] Hfs Hb Hg Hgw Hm) as H.
  assert (Ht' : si_total si = 0 \/ 0 + total_samples fs + h_bs (f_hdr g) <= si_total si) by (destruct Ht; [left; assumption|right; lia]).
  specialize (H Ht').
  assert (Hf : (length allb + m < S (length (allb ++ firstn m gb)))%nat) by (rewrite app_length, firstn_length; lia).
  specialize (H Hf).
  destruct (dec_frames _ si 0 (allb ++ firstn m gb) []) as [out e]. destruct H as [-> He]. cbn [rev app]. auto.
Qed.

(* ---- C02 at file level: the strict stream validator (spec_stream: tag, STREAMINFO, every frame parses with valid
   CRCs, is well-formed and RFC-valid, re-serialises to the very bytes it was parsed from, fixed-blocksize strategy
   with frame numbers 0,1,2,..., advertised block size on every frame but the last, no block under 16 samples
   except the last, totals consistent) accepts every file the encoder model writes, and yields the blocks ---- *)
Fixpoint full_but_last (si : streaminfo) (blocks : list (list (list Z))) : Prop :=
  match blocks with
  | [] => True
  | b :: rest => (rest = [] \/ block_len b = si_max_bs si) /\ full_but_last si rest
  end.

Lemma combine_self_prefix : forall (x y : list N), forallb (fun p => fst p =? snd p) (combine x (x ++ y)) = true.
Proof. induction x as [|a x IH]; intros y; cbn [combine app forallb fst snd]; [reflexivity|]. rewrite N.eqb_refl. apply IH. Qed.

Lemma fold_left_block_sum : forall (frames : list (list (list Z))) a,
  fold_left (fun a fr => a + match fr with c :: _ => N.of_nat (length c) | [] => 0 end) frames a = a + blocks_samples frames.
Proof.
  induction frames as [|b l IH]; intros a; cbn [fold_left blocks_samples fold_right]; [lia|].
  fold (blocks_samples l). rewrite IH. unfold block_len. lia.
Qed.

Lemma spec_frames_enc o L si : 16 <= si_max_bs si -> forall blocks k bytes fuel acc,
  enc_blocks o L (si_rate si) (si_bps si) k blocks = Some bytes ->
  Forall (block_ok si (si_bps si)) blocks ->
  k + N.of_nat (length blocks) <= MAX_FRAME_NUMBER + 1 ->
  full_but_last si blocks -> (length bytes < fuel)%nat ->
  spec_frames fuel si k bytes acc = Ok (rev acc ++ blocks).
Proof.
  intros H16. induction blocks as [|b blocks IH]; intros k bytes fuel acc He Hall Hk Hfull Hfuel.
  - cbn in He. injection He as <-. destruct fuel as [|fuel]; [lia|]. cbn [spec_frames]. rewrite app_nil_r. reflexivity.
  - cbn [enc_blocks] in He.
    destruct (enc_frame_bytes o L (si_rate si) (si_bps si) k b) as [x|] eqn:Ex; [|discriminate].
    destruct (enc_blocks o L (si_rate si) (si_bps si) (k + 1) blocks) as [y|] eqn:Ey; [|discriminate]. injection He as <-.
    apply Forall_cons_iff in Hall. destruct Hall as [Hb Hrest]. cbn [length] in Hk. destruct Hfull as [Hf1 Hf2].
    pose proof (frame_bytes_len _ _ _ _ _ _ _ Ex) as Lx.
    destruct fuel as [|fuel]; [lia|]. cbn [spec_frames].
    destruct (x ++ y) as [|b0 t] eqn:Exy; [destruct x; cbn in *; [lia|discriminate]|]. rewrite <- Exy.
    unfold enc_frame_bytes in Ex. destruct (enc_frame o L (si_rate si) (si_bps si) k b) as [f|] eqn:Ef; [|discriminate].
    destruct (enc_frame_ok o L si _ _ k b f Ef Hb eq_refl ltac:(lia)) as (Hwf & Hsp & Hsem & Hnum & Hbs).
    rewrite (frame_roundtrip (Some si) f x y Hwf Ex). cbn [bind]. rewrite Hwf, Hsp. cbn [andb negb].
    rewrite Ex, app_length, Nat.eqb_refl, combine_self_prefix. cbn [andb negb].
    assert (Hvar : h_variable (f_hdr f) = false).
    { unfold enc_frame in Ef. destruct (code_of_rate (si_rate si)); [|discriminate]. destruct b; [discriminate|].
      cbv zeta in Ef. injection Ef as <-. reflexivity. }
    rewrite Hvar, Hnum, N.eqb_refl. cbn [negb].
    assert (Hbs_le : block_len b <= si_max_bs si).
    { destruct Hb as (Hch & _ & _ & _ & _ & n & _ & _ & Hn3 & Hc). destruct b as [|c0 b']; [cbn in Hch; lia|].
      inversion Hc as [|? ? [A _] _]. cbn [block_len]. lia. }
    assert (Hy : blocks = [] -> y = []) by (intros ->; cbn in Ey; congruence).
    assert (C1 : (h_bs (f_hdr f) =? si_max_bs si) || match y with [] => h_bs (f_hdr f) <=? si_max_bs si | _ => false end = true).
    { rewrite Hbs. destruct Hf1 as [E|E].
      - rewrite (Hy E). destruct (N.leb_spec (block_len b) (si_max_bs si)); [apply Bool.orb_true_r|lia].
      - rewrite E, N.eqb_refl. reflexivity. }
    assert (C2 : (16 <=? h_bs (f_hdr f)) || match y with [] => true | _ => false end = true).
    { rewrite Hbs. destruct Hf1 as [E|E].
      - rewrite (Hy E). apply Bool.orb_true_r.
      - rewrite E. destruct (N.leb_spec 16 (si_max_bs si)); [reflexivity|lia]. }
    rewrite C1, C2. cbn [negb].
    rewrite (IH (k + 1) y fuel (sem_frame f :: acc) Ey Hrest ltac:(lia) Hf2).
    + cbn [rev]. rewrite <- app_assoc, Hsem. reflexivity.
    + rewrite <- Exy, app_length in Hfuel. lia.
Qed.

Theorem enc_file_spec_valid o L si others blocks bytes :
  enc_blocks o L (si_rate si) (si_bps si) 0 blocks = Some bytes ->
  si_ok si -> blocks_ok others ->
  Forall (block_ok si (si_bps si)) blocks ->
  N.of_nat (length blocks) <= MAX_FRAME_NUMBER + 1 ->
  full_but_last si blocks ->
  16 <= si_min_bs si -> si_min_bs si <= si_max_bs si ->
  (si_total si = 0 \/ blocks_samples blocks = si_total si) ->
  spec_stream (file_of si others bytes) = Ok (si, blocks).
Proof.
  intros He Hsi Hok Hall Hk Hfull Hmin Hmm Ht. unfold spec_stream. rewrite (read_file_metadata si others bytes Hsi Hok).
  rewrite (spec_frames_enc o L si ltac:(lia) blocks 0 bytes (S (length bytes)) [] He Hall ltac:(lia) Hfull ltac:(lia)).
  cbn [rev app bind]. rewrite fold_left_block_sum, N.add_0_l.
  destruct (N.leb_spec 16 (si_min_bs si)); [|lia]. destruct (N.leb_spec (si_min_bs si) (si_max_bs si)); [|lia]. cbn [andb negb].
  destruct Ht as [Ht|Ht]; [rewrite Ht; reflexivity|]. rewrite Ht, N.eqb_refl, Bool.orb_true_r. reflexivity.
Qed.

(* ---- the frames behind enc_blocks, for C14: each is a valid frame tree for its block ---- *)
Lemma enc_blocks_frames o L si : forall blocks k bytes,
  enc_blocks o L (si_rate si) (si_bps si) k blocks = Some bytes ->
  Forall (fun b => block_ok si (si_bps si) b /\ 14 < block_len b) blocks ->
  k + N.of_nat (length blocks) <= MAX_FRAME_NUMBER + 1 ->
  exists fs, frames_bytes fs = Some bytes /\ Forall (frame_ok si) fs /\ map sem_frame fs = blocks /\
             total_samples fs = blocks_samples blocks.
Proof.
  induction blocks as [|b blocks IH]; intros k bytes He Hall Hk.
  - cbn in He. injection He as <-. exists []. repeat split; constructor.
  - cbn [enc_blocks] in He.
    destruct (enc_frame_bytes o L (si_rate si) (si_bps si) k b) as [x|] eqn:Ex; [|discriminate].
    destruct (enc_blocks o L (si_rate si) (si_bps si) (k + 1) blocks) as [y|] eqn:Ey; [|discriminate]. injection He as <-.
    apply Forall_cons_iff in Hall. destruct Hall as [[Hb H14] Hrest]. cbn [length] in Hk.
    destruct (IH (k + 1) y Ey Hrest ltac:(lia)) as (fs & Hfb & Hfo & Hsem & Htot).
    unfold enc_frame_bytes in Ex. destruct (enc_frame o L (si_rate si) (si_bps si) k b) as [f|] eqn:Ef; [|discriminate].
    destruct (enc_frame_ok o L si _ _ k b f Ef Hb eq_refl ltac:(lia)) as (Hwf & Hsp & Hsm & _ & Hbs).
    exists (f :: fs). cbn [frames_bytes map total_samples fold_right blocks_samples]. rewrite Ex, Hfb.
    split; [reflexivity|]. split; [constructor; [|exact Hfo]; unfold frame_ok; rewrite Hbs; auto|].
    split; [rewrite Hsm, Hsem; reflexivity|]. fold (total_samples fs). fold (blocks_samples blocks). rewrite Htot, Hbs. reflexivity.
Qed.

(* C14 for the encoder as written: the provisional header, the frames of the blocks encoded so far, and the frame of
   the next block cut at any byte: the file opens and yields exactly the blocks encoded so far *)
Theorem enc_interrupted_file o L si others blocks bytes b gb m :
  enc_blocks o L (si_rate si) (si_bps si) 0 blocks = Some bytes ->
  enc_frame_bytes o L (si_rate si) (si_bps si) (N.of_nat (length blocks)) b = Some gb ->
  si_ok si -> blocks_ok others ->
  Forall (fun x => block_ok si (si_bps si) x /\ 14 < block_len x) (blocks ++ [b]) ->
  N.of_nat (length blocks) + 1 <= MAX_FRAME_NUMBER + 1 ->
  (m < length gb)%nat ->
  (si_total si = 0 \/ blocks_samples blocks + block_len b <= si_total si) ->
  match dec_stream (file_of si others (bytes ++ firstn m gb)) with
  | Some (si', out, e) => si' = si /\ out = map interleave_frame blocks /\ is_end_panic e = false
  | None => False
  end.
Proof.
  intros He Hg Hsi Hok Hall Hk Hm Ht.
  apply Forall_app in Hall. destruct Hall as [Hbl Hb]. apply Forall_cons_iff in Hb. destruct Hb as [[Hb H14] _].
  destruct (enc_blocks_frames o L si blocks 0 bytes He Hbl ltac:(lia)) as (fs & Hfb & Hfo & Hsem & Htot).
  unfold enc_frame_bytes in Hg. destruct (enc_frame o L _ _ _ b) as [g|] eqn:Eg; [|discriminate].
  destruct (enc_frame_ok o L si _ _ _ b g Eg Hb eq_refl ltac:(lia)) as (Hwf & Hsp & Hsm & _ & Hbs).
  pose proof (interrupted_file si others fs bytes g gb m Hsi Hok Hfo Hfb) as H.
  specialize (H ltac:(unfold frame_ok; rewrite Hbs; auto) Hg Hm ltac:(rewrite Htot, Hbs; exact Ht)).
  destruct (dec_stream _) as [[[si' out] e]|]; [|exact H]. destruct H as (A & B & C). split; [exact A|]. split; [|exact C].
  rewrite B, <- Hsem, map_map. reflexivity.
Qed.
