(* Statement pins for the codec area. *)
From FlacCodec Require Import Wf Stream Progress Props_codec.
Open Scope N_scope.
Check (C17_parse_inverts_write : forall si f bytes rest,
  wf_frame si f = true -> write_frame f = Some bytes -> struct_frame si (bytes ++ rest) = Ok (f, rest)).
Check (C04_frame_total_release : forall si chk bytes,
  (forall h, is_panic (chk h) = false) -> is_panic (dec_frame Release si chk bytes) = false).
Check (C04_stream_total_release : forall file,
  match dec_stream Release file with Some (_, _, e) => is_end_panic e = false | None => True end).
Check (C04_frame_progress : forall p si chk bytes h chans rest,
  dec_frame p si chk bytes = Ok (h, chans, rest) -> (length rest + 2 <= length bytes)%nat).
