//! C07 harness — readers deliver the stream exactly once, in order, however it is consumed.
//!
//! Files encoded by the real encoder are read through a `Read` that fragments the source (whole,
//! 1-byte reads, random chunks, and for small files every single split point) by every reader
//! front-end (byte reader in both byte orders, sample reader, its iterator, channel reader) with
//! call scripts over {read(n), fill, consume(k <= available), next}.  Each script runs to the first
//! end-of-stream signal and then polls further.  An abstract cursor over the PCM that was *encoded*
//! judges every observation ("viol" lines); "case" lines carry the history and the implementation's
//! observations for the model diff.
include!("readers_common.inc");

use std::collections::BTreeMap;

#[derive(Clone, Copy, PartialEq)]
enum Script {
    ReadFixed(usize),
    FillAll,
    FillPartial,
    Mixed,
    Iterate,
    MixedThenIterate,
}

impl Script {
    fn tag(&self) -> String {
        match self {
            Script::ReadFixed(n) => format!("read-{}", n),
            Script::FillAll => "fill-consume-all".into(),
            Script::FillPartial => "fill-consume-part".into(),
            Script::Mixed => "mixed".into(),
            Script::Iterate => "iterate".into(),
            Script::MixedThenIterate => "mixed-then-iterate".into(),
        }
    }
}

struct Res7 {
    ops: Vec<Op>,
    obs: Vec<Obs>,
    reached_end: bool,
    violated: bool,
    viol: String,
}

fn run_script(f: &TestFile, kind: Kind, how: Chunking, script: Script, rng: &mut Rng, extra_polls: usize) -> Option<Res7> {
    let tag = how.tag();
    let mut drv = match Drv::open(kind, &f.bytes, how, false) {
        Ok(d) => d,
        Err(e) => {
            // a valid file must open whatever the fragmentation
            let v = Verdict { key: format!("{}-open-fails-on-fragmented-source", kind.short()), desc: format!("opening failed: {}", e) };
            emit_viol(f, kind, false, &tag, &[Op::Fill], &[Obs::Err(e)], 0, &v);
            return None;
        }
    };
    let mut rc = RefCursor::new(f, kind, false);
    let mut ops: Vec<Op> = vec![];
    let mut obs: Vec<Obs> = vec![];
    let mut avail = 0usize;
    let mut eos_polls = 0usize;
    let mut iter_mode = script == Script::Iterate;
    let upf = rc.upf as usize;
    let frame_units = f.frame_lens[0] * upf;
    // every script makes progress at least every other op on average; the cap only guards against a
    // reader that never signals the end
    let cap = (100 + 8 * rc.len as usize).min(400_000);
    let mut reached_end = false;
    let mut violated = false;
    let mut viol = String::new();
    let switch_at = rng.below(rc.len + 1);
    while ops.len() < cap {
        let op = match kind {
            Kind::Channels => {
                if avail > 0 {
                    match script {
                        Script::FillAll => Op::Consume(avail),
                        Script::FillPartial => Op::Consume(1 + rng.below(avail as u64) as usize),
                        _ => match rng.below(4) {
                            0 => Op::Fill,
                            1 => Op::Consume(0),
                            2 => Op::Consume(avail),
                            _ => Op::Consume(rng.below(avail as u64 + 1) as usize),
                        },
                    }
                } else {
                    Op::Fill
                }
            }
            _ => {
                if script == Script::MixedThenIterate && !iter_mode && rc.pos() >= switch_at {
                    iter_mode = true;
                }
                if iter_mode {
                    Op::Next
                } else {
                    match script {
                        Script::ReadFixed(n) => Op::Read(n),
                        Script::FillAll => {
                            if avail > 0 { Op::Consume(avail) } else { Op::Fill }
                        }
                        Script::FillPartial => {
                            if avail > 0 { Op::Consume(1 + rng.below(avail as u64) as usize) } else { Op::Fill }
                        }
                        _ => {
                            if avail > 0 && rng.chance(1, 2) {
                                Op::Consume(match rng.below(3) {
                                    0 => avail,
                                    1 => 0,
                                    _ => rng.below(avail as u64 + 1) as usize,
                                })
                            } else {
                                match rng.below(6) {
                                    0 | 1 => Op::Fill,
                                    2 => Op::Read(0),
                                    3 => Op::Read(1 + rng.below(upf as u64 + 1) as usize),
                                    4 => Op::Read(frame_units + rng.below(3) as usize),
                                    _ => Op::Read(1 + rng.below(3 * frame_units as u64) as usize),
                                }
                            }
                        }
                    }
                }
            }
        };
        let o = drv.apply(&op);
        let avail_before = avail;
        match (&op, &o) {
            (Op::Fill, Obs::Bytes(b)) => avail = b.len(),
            (Op::Fill, Obs::Samples(s)) => avail = s.len(),
            (Op::Fill, Obs::Chans(c)) => avail = c.first().map(|x| x.len()).unwrap_or(0),
            (Op::Consume(k), _) => avail = avail.saturating_sub(*k),
            _ => avail = 0,
        }
        ops.push(op.clone());
        obs.push(o.clone());
        if let Some(v) = rc.step(&op, &o, avail_before) {
            emit_viol(f, kind, false, &tag, &ops, &obs, ops.len() - 1, &v);
            violated = true;
            viol = v.key.clone();
            break;
        }
        // end-of-stream signal?
        let signal = match (&op, &o) {
            (Op::Read(n), Obs::Bytes(b)) => *n > 0 && b.is_empty(),
            (Op::Read(n), Obs::Samples(s)) => *n > 0 && s.is_empty(),
            (Op::Fill, Obs::Bytes(b)) => b.is_empty(),
            (Op::Fill, Obs::Samples(s)) => s.is_empty(),
            (Op::Fill, Obs::Chans(c)) => c.iter().all(|x| x.is_empty()),
            (Op::Next, Obs::Item(None)) => true,
            _ => false,
        };
        if signal {
            if !reached_end {
                reached_end = true;
                if rc.pos() != rc.len {
                    let v = Verdict { key: format!("{}-premature-end", kind.short()), desc: format!("end of stream signalled after {} of {} units", rc.pos(), rc.len) };
                    emit_viol(f, kind, false, &tag, &ops, &obs, ops.len() - 1, &v);
                    violated = true;
                    viol = v.key.clone();
                    break;
                }
            }
            eos_polls += 1;
            if eos_polls > extra_polls {
                break;
            }
        }
    }
    Some(Res7 { ops, obs, reached_end, violated, viol })
}

fn main() {
    quiet_panics();
    let seed = env_seed();
    let thorough = env_tier_thorough();
    let mut stat: BTreeMap<String, u64> = BTreeMap::new();
    let mut bump = |k: &str, n: u64| *stat.entry(k.to_string()).or_insert(0) += n;
    let mut rng = Rng::new(seed, 0xC07_0001);

    // ---- (a) corpus files x readers x fragmentations x scripts
    let files = corpus(seed, 0xC07, if thorough { 160 } else { 16 }, false, "g");
    for f in &files {
        f.emit();
        bump(&format!("files.channels.{}", f.ch), 1);
        bump(&format!("files.bytes_per_sample.{}", f.bytes_per_sample()), 1);
        bump(&format!("files.total_known.{}", f.total.is_some()), 1);
        for &kind in KINDS {
            let upf = match kind {
                Kind::BytesLe | Kind::BytesBe => f.bytes_per_sample() * f.ch,
                Kind::Samples => f.ch,
                Kind::Channels => 1,
            };
            let mut scripts = vec![Script::FillAll, Script::FillPartial, Script::Mixed, Script::Mixed];
            if kind != Kind::Channels {
                scripts.push(Script::ReadFixed(1.max(upf - 1)));
                scripts.push(Script::ReadFixed(upf * f.frame_lens[0] + 1));
                scripts.push(Script::ReadFixed(7));
                scripts.push(Script::ReadFixed(100_000));
            }
            if kind == Kind::Samples {
                scripts.push(Script::Iterate);
                scripts.push(Script::MixedThenIterate);
                scripts.push(Script::MixedThenIterate);
            }
            if thorough {
                scripts.extend([Script::Mixed, Script::Mixed, Script::FillPartial]);
            }
            for (si, &script) in scripts.iter().enumerate() {
                let hows = [
                    Chunking::Whole,
                    Chunking::One,
                    Chunking::Random(Rng::new(rng.next(), 1), 7),
                    Chunking::Random(Rng::new(rng.next(), 2), 300),
                ];
                // every script under two fragmentations (all four in the thorough tier)
                for (hi, how) in hows.iter().enumerate() {
                    if !thorough && hi != si % 4 && hi != (si + 1) % 4 {
                        continue;
                    }
                    let Some(r) = run_script(f, kind, how.clone(), script, &mut rng, 3) else { continue };
                    bump(&format!("histories.{}", kind.tag()), 1);
                    bump(&format!("chunking.{}", how.tag().split('@').next().unwrap().split("<=").next().unwrap()), 1);
                    bump(&format!("script.{}", script.tag().split('-').next().unwrap()), 1);
                    bump("ops", r.ops.len() as u64);
                    if r.reached_end {
                        bump("reached_end", 1);
                    } else if !r.violated {
                        bump("cap_hit", 1);
                    }
                    emit_case(f, kind, false, &how.tag(), &r.ops, &r.obs, &script.tag(), &r.viol);
                }
            }
        }
    }

    // ---- (b) small files: every split point of the source
    let small = corpus(seed, 0xC07_5, if thorough { 30 } else { 3 }, true, "s");
    for f in &small {
        f.emit();
        bump("small_files", 1);
        bump("small_file_bytes", f.bytes.len() as u64);
        for &kind in KINDS {
            for k in 1..f.bytes.len() {
                let script = if kind == Kind::Samples && k % 3 == 0 { Script::Iterate } else if k % 2 == 0 || kind == Kind::Channels { Script::FillAll } else { Script::ReadFixed(4096) };
                let how = Chunking::Split(k);
                let Some(r) = run_script(f, kind, how.clone(), script, &mut rng, 2) else { continue };
                bump("split_point_runs", 1);
                bump("ops", r.ops.len() as u64);
                if r.reached_end {
                    bump("reached_end", 1);
                }
                emit_case(f, kind, false, &how.tag(), &r.ops, &r.obs, &format!("split-{}", script.tag()), &r.viol);
            }
        }
    }
    // ---- (c) damaged streams (model correspondence, and the verdict of C07_damaged_*_reader below):
    // a frame that fails its CRC-16 is reported as an error; the history goes on polling
    let mut stale_after_error = 0u64;
    for (fi, f) in files.iter().enumerate() {
        if !thorough && fi % 2 == 1 {
            continue;
        }
        let n = f.frame_lens.len();
        for k in [0usize, n / 2, n - 1] {
            if k >= n || (k > 0 && k == n / 2 && n / 2 == 0) {
                continue;
            }
            let g = damage_frame(f, k);
            g.emit();
            bump("damaged_files", 1);
            let at: usize = f.frame_lens[..k].iter().sum();
            for &kind in KINDS {
                for variant in 0..2 {
                    let Ok(mut drv) = Drv::open(kind, &g.bytes, Chunking::Whole, false) else { continue };
                    let mut ops = vec![];
                    let mut obs: Vec<Obs> = vec![];
                    let mut avail = 0usize;
                    let mut errs = 0;
                    let mut ends = 0;
                    let mut after_err = false;
                    let iter = kind == Kind::Samples && variant == 1;
                    while ops.len() < 3 * n + 12 && errs < 4 && ends < 2 {
                        let op = if iter {
                            if ops.len() > 40 * n { break } else { Op::Next }
                        } else if avail > 0 {
                            Op::Consume(if variant == 0 { avail } else { 1 + rng.below(avail as u64) as usize })
                        } else if kind == Kind::Channels || variant == 0 || ops.len() % 3 == 0 {
                            Op::Fill
                        } else {
                            Op::Read(1 + rng.below(2 * (f.frame_lens[0] * f.ch * f.bytes_per_sample()) as u64) as usize)
                        };
                        let o = drv.apply(&op);
                        match (&op, &o) {
                            (Op::Fill, Obs::Bytes(b)) => avail = b.len(),
                            (Op::Fill, Obs::Samples(x)) => avail = x.len(),
                            (Op::Fill, Obs::Chans(c)) => avail = c.first().map(|x| x.len()).unwrap_or(0),
                            (Op::Consume(k), _) => avail = avail.saturating_sub(*k),
                            _ => avail = 0,
                        }
                        // is the frame that failed its checksum handed out after the error was reported?
                        if after_err {
                            let stale = match &o {
                                Obs::Chans(c) if !c.is_empty() && !c[0].is_empty() => {
                                    let l = c[0].len().min(f.frame_lens[k]);
                                    let off = f.frame_lens[k] - l;
                                    (0..f.ch).all(|ci| c[ci].len() <= f.frame_lens[k] && (0..c[ci].len()).all(|i| c[ci][i] == f.pcm[(at + off + i) * f.ch + ci]))
                                        && (k + 1 >= n || c[0][..] != f.truth_channels()[0][at + f.frame_lens[k]..(at + f.frame_lens[k] + c[0].len()).min(f.pcm_frames() as usize)])
                                }
                                _ => false,
                            };
                            if stale {
                                stale_after_error += 1;
                                if stale_after_error <= 2 {
                                    note(&format!("{} reader, file {} [{}]: after the error for frame {} the next call handed out that frame's samples: ops {} obs {}", kind.tag(), g.id, g.desc, k,
                                        ops.iter().map(|o: &Op| o.text()).collect::<Vec<_>>().join(";"), trunc(&o.text())));
                                }
                            }
                            after_err = false;
                        }
                        match &o {
                            Obs::Err(_) => {
                                errs += 1;
                                after_err = true;
                            }
                            Obs::Panic(_) => errs = 99,
                            Obs::Bytes(b) if b.is_empty() && !matches!(op, Op::Read(0)) => ends += 1,
                            Obs::Samples(x) if x.is_empty() && !matches!(op, Op::Read(0)) => ends += 1,
                            Obs::Chans(c) if c.iter().all(|x| x.is_empty()) => ends += 1,
                            Obs::Item(None) => ends += 1,
                            _ => {}
                        }
                        ops.push(op);
                        obs.push(o);
                    }
                    bump("damaged_histories", 1);
                    bump("ops", ops.len() as u64);
                    // verdict (C07_damaged_*_reader): up to the first reported error everything handed out is, in order and
                    // without a gap, the data of the frames before the damaged one; the error comes only when all of it has
                    // been handed out (every refill happens with an empty buffer); no panic
                    let mut dviol = String::new();
                    {
                        let w = f.bytes_per_sample();
                        // one lane for bytes/samples, one per channel for the channel reader
                        let expect: Vec<Vec<i64>> = match kind {
                            Kind::BytesLe => vec![f.truth_bytes(false)[..at * f.ch * w].iter().map(|b| *b as i64).collect()],
                            Kind::BytesBe => vec![f.truth_bytes(true)[..at * f.ch * w].iter().map(|b| *b as i64).collect()],
                            Kind::Samples => vec![f.pcm[..at * f.ch].iter().map(|x| *x as i64).collect()],
                            Kind::Channels => f.truth_channels().iter().map(|c| c[..at].iter().map(|x| *x as i64).collect()).collect(),
                        };
                        let mut got: Vec<Vec<i64>> = vec![vec![]; expect.len()];
                        let mut shown: Vec<Vec<i64>> = vec![vec![]; expect.len()];
                        let mut first_err: Option<usize> = None;
                        for (i, (op, o)) in ops.iter().zip(obs.iter()).enumerate() {
                            match (op, o) {
                                (_, Obs::Err(_)) => { first_err = Some(i); break; }
                                (_, Obs::Panic(p)) => { dviol = format!("damaged-panic|call {} panics: {}", i, p); break; }
                                (Op::Read(_), Obs::Bytes(b)) => got[0].extend(b.iter().map(|x| *x as i64)),
                                (Op::Read(_), Obs::Samples(x)) => got[0].extend(x.iter().map(|v| *v as i64)),
                                (Op::Next, Obs::Item(Some(v))) => got[0].push(*v as i64),
                                (Op::Fill, Obs::Bytes(b)) => shown[0] = b.iter().map(|x| *x as i64).collect(),
                                (Op::Fill, Obs::Samples(x)) => shown[0] = x.iter().map(|v| *v as i64).collect(),
                                (Op::Fill, Obs::Chans(c)) => { for (ci, lane) in shown.iter_mut().enumerate() { *lane = c.get(ci).map(|x| x.iter().map(|v| *v as i64).collect()).unwrap_or_default(); } }
                                (Op::Consume(k), Obs::Unit) => {
                                    for (lane, sh) in got.iter_mut().zip(shown.iter_mut()) {
                                        let k = (*k).min(sh.len());
                                        lane.extend(sh.drain(..k));
                                    }
                                }
                                _ => {}
                            }
                            for (lane, (g_, sh)) in expect.iter().zip(got.iter().zip(shown.iter())) {
                                let mut all = g_.clone();
                                if matches!(op, Op::Fill) { all.extend(sh.iter()); }
                                if dviol.is_empty() && (all.len() > lane.len() || all[..] != lane[..all.len()]) {
                                    dviol = format!("damaged-delivers-other-data|before any error was reported, call {} ({}) made the {} reader hand out or show data that is not the next data of the frames before the damaged frame {} ({} items so far, {} good)", i, op.text(), kind.tag(), k, all.len(), lane.len());
                                }
                            }
                        }
                        if dviol.is_empty() {
                            if let Some(i) = first_err {
                                bump("damaged_error_reported", 1);
                                if got.iter().zip(expect.iter()).any(|(g_, e)| g_.len() != e.len()) {
                                    dviol = format!("damaged-error-not-after-all-good-data|the {} reader reported the error at call {} after handing out {} of the {} items that precede the damaged frame {}", kind.tag(), i, got[0].len(), expect[0].len(), k);
                                }
                            }
                        }
                    }
                    if !dviol.is_empty() {
                        let (key, desc) = dviol.split_once('|').unwrap();
                        emit_viol(&g, kind, false, "whole", &ops, &obs, 0, &Verdict { key: key.to_string(), desc: desc.to_string() });
                    }
                    emit_case(&g, kind, false, "whole", &ops, &obs, "damaged", "");
                }
            }
        }
    }
    bump("damaged.stale_frame_after_error", stale_after_error);
    bump("files", (files.len() + small.len()) as u64);
    let mut nv = 0u64;
    for (k, n) in viol_counts() {
        bump(&format!("viol.{}", k), n as u64);
        nv += n as u64;
    }
    bump("violations", nv);
    let mut fields: Vec<(&str, String)> = vec![("t", esc("stat")), ("profile", esc(profile_tag()))];
    let owned: Vec<(String, String)> = stat.iter().map(|(k, v)| (k.clone(), v.to_string())).collect();
    for (k, v) in &owned {
        fields.push((k.as_str(), v.clone()));
    }
    println!("{}", obj(&fields));
}
