(* E2E/Transfer.v — the cross-area theorems stated for FlacSampleWriter runs carry over to the other two front-ends:
   a byte writer run (either byte order) and a channel writer run ARE sample writer runs over the samples they spell
   (writers area, C08_byte_run_is_sample_run / C08_channel_run_is_sample_run), and the constructors succeed together. *)
From Coq Require Import List NArith ZArith Lia.
From FlacBase Require Import Res.
From FlacCodec Require Ast Stream Header Wf Enc Enc_proofs Dec.
From FlacWriters Require Import Meta Params Params_proofs Finalize Writers Lists_proofs Writers_proofs Bytes_proofs Cross_proofs.
From FlacReaders Require Readers Spec Ser RNum Seek.
From FlacE2E Require Import Bridge E2E SeekE2E ReadBridge SeekReadE2E.
Import ListNotations.
Open Scope N_scope.

Lemma byte_new_sample_new p en o rate bps ch tb wb :
  byte_new p en [] o rate bps ch tb = Ok wb ->
  exists ts ws, sample_new p [] o rate bps ch ts = Ok ws /\ tb = option_map (N.mul (bytes_per_sample_of bps)) ts.
Proof.
  intros Hb. unfold byte_new in Hb. apply bind_ok in Hb. destruct Hb as (bps1 & Hb1 & Hb). apply bind_ok in Hb. destruct Hb as (t1 & Ht1 & Hb).
  apply bind_ok in Hb. destruct Hb as (e1 & He1 & _).
  assert (Eb : bps1 = bps /\ 1 <= bps /\ bps <= 32).
  { unfold signed_bit_count_32 in Hb1. destruct ((1 <=? bps) && (bps <=? 32)) eqn:Eq; [|discriminate].
    injection Hb1 as <-. apply andb_prop in Eq. destruct Eq as [A B]. apply N.leb_le in A, B. auto. }
  destruct Eb as (-> & B1 & B32).
  set (nb := bytes_per_sample_of bps) in *.
  assert (Hnb : 1 <= nb <= 4).
  { unfold nb, bytes_per_sample_of. split; [apply N.div_le_lower_bound; lia|]. apply N.lt_succ_r. apply N.div_lt_upper_bound; lia. }
  destruct tb as [B|].
  - unfold byte_total in Ht1.
    destruct (exact_div B ch) as [s1|] eqn:E1; [|discriminate]. destruct (exact_div s1 nb) as [q|] eqn:E2; [|discriminate].
    unfold exact_div in E1, E2. destruct (N.eqb_spec ch 0) as [|Hc0]; [discriminate|]. destruct (N.eqb_spec nb 0); [lia|]. cbn [negb andb] in E1, E2.
    destruct (N.eqb_spec (B mod ch) 0) as [M1|]; [|discriminate]. injection E1 as <-.
    destruct (N.eqb_spec ((B / ch) mod nb) 0) as [M2|]; [|discriminate]. injection E2 as <-.
    set (q := B / ch / nb) in *.
    assert (EB : B = nb * (ch * q)).
    { pose proof (N.div_mod B ch Hc0). pose proof (N.div_mod (B / ch) nb ltac:(lia)). unfold q. set (s1 := B / ch) in *. set (qq := s1 / nb) in *. clearbody s1 qq. nia. }
    exists (Some (ch * q)). unfold sample_new. rewrite Hb1. cbn [bind]. unfold sample_total.
    assert (Ex : exact_div (ch * q) ch = Some q).
    { unfold exact_div. destruct (N.eqb_spec ch 0); [lia|]. cbn [negb andb]. rewrite (N.mul_comm ch q), N.mod_mul, N.div_mul by lia. reflexivity. }
    rewrite Ex. destruct (q =? 0); [discriminate|]. injection Ht1 as <-. cbn [bind]. fold nb. rewrite He1. cbn [bind].
    eexists. split; [reflexivity|]. cbn [option_map]. f_equal. exact EB.
  - cbn in Ht1. injection Ht1 as <-. exists None. unfold sample_new. rewrite Hb1. cbn [bind sample_total]. fold nb. rewrite He1. cbn [bind].
    eexists. split; reflexivity.
Qed.

Lemma channel_new_sample_new p o rate bps ch tc wc :
  channel_new p [] o rate bps ch tc = Ok wc ->
  exists ts ws, sample_new p [] o rate bps ch ts = Ok ws /\ ts = option_map (N.mul ch) tc.
Proof.
  intros Hc. unfold channel_new in Hc. apply bind_ok in Hc. destruct Hc as (bps1 & Hb1 & Hc). apply bind_ok in Hc. destruct Hc as (t1 & Ht1 & Hc).
  apply bind_ok in Hc. destruct Hc as (e1 & He1 & _).
  assert (Eb : bps1 = bps) by (unfold signed_bit_count_32 in Hb1; destruct (_ && _); [injection Hb1 as <-; reflexivity|discriminate]).
  subst bps1.
  assert (Hch : 1 <= ch).
  { unfold encoder_new in He1. apply bind_ok in He1. destruct He1 as ([] & Hv & _). unfold encoder_new_validate in Hv.
    destruct (rate <? 1048576); [|discriminate]. destruct ((1 <=? ch) && (ch <=? 8)) eqn:Eq; [|discriminate].
    apply andb_prop in Eq. destruct Eq as [A _]. apply N.leb_le in A. exact A. }
  exists (option_map (N.mul ch) tc). unfold sample_new. rewrite Hb1. cbn [bind].
  destruct tc as [s|]; cbn [option_map sample_total].
  - unfold channel_total in Ht1. destruct (N.eqb_spec s 0); [discriminate|]. injection Ht1 as <-.
    assert (Ex : exact_div (ch * s) ch = Some s).
    { unfold exact_div. destruct (N.eqb_spec ch 0); [lia|]. cbn [negb andb]. rewrite (N.mul_comm ch s), N.mod_mul, N.div_mul by lia. reflexivity. }
    rewrite Ex. destruct (N.eqb_spec s 0); [contradiction|]. cbn [bind]. rewrite He1. cbn [bind]. eexists. split; reflexivity.
  - cbn in Ht1. injection Ht1 as <-. cbn [bind]. rewrite He1. cbn [bind]. eexists. split; reflexivity.
Qed.

(* C09 for the other two front-ends *)
Theorem byte_writer_seekpoints : forall o L md5, (forall l, length (md5 l) = 16%nat) ->
  forall p rate bps en wo ch tb wb chunks iv,
  options_wf wo -> o_seektable_interval wo = Some iv ->
  byte_new p en [] wo rate bps ch tb = Ok wb ->
  Forall byte_ok (concat chunks) ->
  let samples := decoded en (N.to_nat (bytes_per_sample_of bps)) (concat chunks) in
  forallb (FlacCodec.Wf.fits bps) samples = true ->
  let W := N.of_nat (length samples) / ch in
  1 <= W -> N.of_nat (length samples) < 2 ^ 36 ->
  match tb with Some T => T = bytes_per_sample_of bps * (ch * W) | None => True end ->
  exists f blocks audio,
    byte_run (encB o L rate bps) md5 p wb chunks = Ok f /\
    CS.read_metadata_min (f_stream f) = Some (conv_si (f_si f), audio) /\
    concat (map CS.interleave_frame blocks) = firstn (N.to_nat ch * (length samples / N.to_nat ch)) samples /\
    forall pts, first_seektable (f_blocks f) = Some pts ->
      forall s b m, In (Defined s b m) pts ->
        exists pre blk post h rest, blocks = pre ++ blk :: post /\ s = EP.blocks_samples pre /\ m = E.block_len blk /\
          FlacCodec.Dec.dec_frame (Some (conv_si (f_si f))) (fun _ => Ok tt) (skipn (N.to_nat b) audio) = Ok (h, blk, rest) /\
          FlacCodec.Ast.h_number h = N.of_nat (length pre).
Proof.
  intros o L md5 Hmd p rate bps en wo ch tb wb chunks iv Hwf Hiv Hnew Hbytes samples Hfit W HW Hlen Htot.
  destruct (byte_new_sample_new p en wo rate bps ch tb wb Hnew) as (ts & ws & Hs & Et).
  rewrite (byte_writer_is_sample_writer (encB o L rate bps) md5 p en wo rate bps ch tb ts wb ws chunks Hwf Hnew Hs Et Hbytes).
  fold samples.
  assert (Htot' : match ts with Some T => T = ch * (N.of_nat (length (concat [samples])) / ch) | None => True end).
  { cbn [concat]. rewrite app_nil_r. fold W. subst tb. destruct ts as [T|]; [|exact I]. cbn [option_map] in Htot.
    assert (1 <= bytes_per_sample_of bps) by (unfold bytes_per_sample_of; pose proof Hs as H; unfold sample_new in H; apply bind_ok in H;
      destruct H as (b' & Hb & _); unfold signed_bit_count_32 in Hb; destruct ((1 <=? bps) && (bps <=? 32)) eqn:Eq; [|discriminate];
      apply andb_prop in Eq; destruct Eq as [A _]; apply N.leb_le in A; apply N.div_le_lower_bound; lia).
    nia. }
  assert (Hcat1 : concat [samples] = samples) by (cbn [concat]; apply app_nil_r).
  destruct (sample_writer_seekpoints o L md5 Hmd p rate bps wo ch ts ws [samples] iv Hwf Hiv Hs
              ltac:(rewrite Hcat1; exact Hfit) ltac:(rewrite Hcat1; exact HW) ltac:(rewrite Hcat1; exact Hlen) Htot')
    as (f & blocks & audio & A & B & C & D).
  rewrite Hcat1 in C. exists f, blocks, audio. auto.
Qed.

Theorem channel_writer_seekpoints : forall o L md5, (forall l, length (md5 l) = 16%nat) ->
  forall p rate bps wo ch tc wc chunks iv,
  options_wf wo -> o_seektable_interval wo = Some iv ->
  channel_new p [] wo rate bps ch tc = Ok wc ->
  Forall (chunk_ok (N.to_nat ch)) chunks ->
  let samples := concat (multizip (cconcat (N.to_nat ch) chunks)) in
  forallb (FlacCodec.Wf.fits bps) samples = true ->
  let W := N.of_nat (length samples) / ch in
  1 <= W -> N.of_nat (length samples) < 2 ^ 36 ->
  match tc with Some T => T = W | None => True end ->
  exists f blocks audio,
    channel_run (encB o L rate bps) md5 p wc chunks = Ok f /\
    CS.read_metadata_min (f_stream f) = Some (conv_si (f_si f), audio) /\
    concat (map CS.interleave_frame blocks) = firstn (N.to_nat ch * (length samples / N.to_nat ch)) samples /\
    forall pts, first_seektable (f_blocks f) = Some pts ->
      forall s b m, In (Defined s b m) pts ->
        exists pre blk post h rest, blocks = pre ++ blk :: post /\ s = EP.blocks_samples pre /\ m = E.block_len blk /\
          FlacCodec.Dec.dec_frame (Some (conv_si (f_si f))) (fun _ => Ok tt) (skipn (N.to_nat b) audio) = Ok (h, blk, rest) /\
          FlacCodec.Ast.h_number h = N.of_nat (length pre).
Proof.
  intros o L md5 Hmd p rate bps wo ch tc wc chunks iv Hwf Hiv Hnew Hchunks samples Hfit W HW Hlen Htot.
  destruct (channel_new_sample_new p wo rate bps ch tc wc Hnew) as (ts & ws & Hs & Et).
  rewrite (channel_writer_is_sample_writer (encB o L rate bps) md5 p wo rate bps ch tc ts wc ws chunks Hwf Hnew Hs Et Hchunks).
  fold samples.
  assert (Hcat1 : concat [samples] = samples) by (cbn [concat]; apply app_nil_r).
  assert (Htot' : match ts with Some T => T = ch * (N.of_nat (length (concat [samples])) / ch) | None => True end).
  { rewrite Hcat1. fold W. subst ts. destruct tc as [T|]; [|exact I]. cbn [option_map]. rewrite Htot. reflexivity. }
  destruct (sample_writer_seekpoints o L md5 Hmd p rate bps wo ch ts ws [samples] iv Hwf Hiv Hs
              ltac:(rewrite Hcat1; exact Hfit) ltac:(rewrite Hcat1; exact HW) ltac:(rewrite Hcat1; exact Hlen) Htot')
    as (f & blocks & audio & A & B & C & D).
  rewrite Hcat1 in C. exists f, blocks, audio. auto.
Qed.

(* C06 on files written through the other two front-ends *)
Theorem byte_written_file_seeks : forall o L md5, (forall l, length (md5 l) = 16%nat) ->
  forall p rate bps en wo ch tb wb chunks iv e rp,
  options_wf wo -> o_seektable_interval wo = Some iv ->
  byte_new p en [] wo rate bps ch tb = Ok wb ->
  Forall byte_ok (concat chunks) ->
  let samples := decoded en (N.to_nat (bytes_per_sample_of bps)) (concat chunks) in
  forallb (FlacCodec.Wf.fits bps) samples = true ->
  let W := N.of_nat (length samples) / ch in
  let written := firstn (N.to_nat ch * (length samples / N.to_nat ch)) samples in
  1 <= W -> N.of_nat (length samples) < 2 ^ 36 ->
  match tb with Some T => T = bytes_per_sample_of bps * (ch * W) | None => True end ->
  exists f blocks,
    byte_run (encB o L rate bps) md5 p wb chunks = Ok f /\
    forall pts, first_seektable (f_blocks f) = Some pts ->
    exists table, Forall2 (point_rel blocks) pts table /\
      let F := file_of_blocks_seek blocks ch bps (Some (EP.blocks_samples blocks)) table e rp in
      FlacReaders.Spec.valid_file F /\ FlacReaders.Spec.pcm F = written /\
      forall ops, Forall FlacReaders.Spec.sop_ok (snd (FlacReaders.Seek.sample_run F ops)) ->
        let atr := map (FlacReaders.Spec.abs_s F) (snd (FlacReaders.Seek.sample_run F ops)) in
        Forall (FlacReaders.Spec.cur_ok written) atr /\
        FlacReaders.Spec.chained 0 atr (FlacReaders.Spec.spos F (fst (FlacReaders.Seek.sample_run F ops))) /\
        FlacReaders.Spec.seeks_land written atr /\ FlacReaders.Spec.failed_seeks_safe written atr.
Proof.
  intros o L md5 Hmd p rate bps en wo ch tb wb chunks iv e rp Hwf Hiv Hnew Hbytes samples Hfit W written HW Hlen Htot.
  destruct (byte_new_sample_new p en wo rate bps ch tb wb Hnew) as (ts & ws & Hs & Et).
  rewrite (byte_writer_is_sample_writer (encB o L rate bps) md5 p en wo rate bps ch tb ts wb ws chunks Hwf Hnew Hs Et Hbytes).
  fold samples.
  assert (Hcat1 : concat [samples] = samples) by (cbn [concat]; apply app_nil_r).
  assert (Htot' : match ts with Some T => T = ch * (N.of_nat (length (concat [samples])) / ch) | None => True end).
  { rewrite Hcat1. fold W. subst tb. destruct ts as [T|]; [|exact I]. cbn [option_map] in Htot.
    assert (1 <= bytes_per_sample_of bps) by (unfold bytes_per_sample_of; pose proof Hs as H; unfold sample_new in H; apply bind_ok in H;
      destruct H as (b' & Hb & _); unfold signed_bit_count_32 in Hb; destruct ((1 <=? bps) && (bps <=? 32)) eqn:Eq; [|discriminate];
      apply andb_prop in Eq; destruct Eq as [A _]; apply N.leb_le in A; apply N.div_le_lower_bound; lia).
    nia. }
  pose proof (written_file_seeks o L md5 Hmd p rate bps wo ch ts ws [samples] iv e rp Hwf Hiv Hs) as H.
  rewrite Hcat1 in H. exact (H Hfit HW Hlen ltac:(rewrite Hcat1 in Htot'; exact Htot')).
Qed.

Theorem channel_written_file_seeks : forall o L md5, (forall l, length (md5 l) = 16%nat) ->
  forall p rate bps wo ch tc wc chunks iv e rp,
  options_wf wo -> o_seektable_interval wo = Some iv ->
  channel_new p [] wo rate bps ch tc = Ok wc ->
  Forall (chunk_ok (N.to_nat ch)) chunks ->
  let samples := concat (multizip (cconcat (N.to_nat ch) chunks)) in
  forallb (FlacCodec.Wf.fits bps) samples = true ->
  let W := N.of_nat (length samples) / ch in
  let written := firstn (N.to_nat ch * (length samples / N.to_nat ch)) samples in
  1 <= W -> N.of_nat (length samples) < 2 ^ 36 ->
  match tc with Some T => T = W | None => True end ->
  exists f blocks,
    channel_run (encB o L rate bps) md5 p wc chunks = Ok f /\
    forall pts, first_seektable (f_blocks f) = Some pts ->
    exists table, Forall2 (point_rel blocks) pts table /\
      let F := file_of_blocks_seek blocks ch bps (Some (EP.blocks_samples blocks)) table e rp in
      FlacReaders.Spec.valid_file F /\ FlacReaders.Spec.pcm F = written /\
      forall ops, Forall FlacReaders.Spec.sop_ok (snd (FlacReaders.Seek.sample_run F ops)) ->
        let atr := map (FlacReaders.Spec.abs_s F) (snd (FlacReaders.Seek.sample_run F ops)) in
        Forall (FlacReaders.Spec.cur_ok written) atr /\
        FlacReaders.Spec.chained 0 atr (FlacReaders.Spec.spos F (fst (FlacReaders.Seek.sample_run F ops))) /\
        FlacReaders.Spec.seeks_land written atr /\ FlacReaders.Spec.failed_seeks_safe written atr.
Proof.
  intros o L md5 Hmd p rate bps wo ch tc wc chunks iv e rp Hwf Hiv Hnew Hchunks samples Hfit W written HW Hlen Htot.
  destruct (channel_new_sample_new p wo rate bps ch tc wc Hnew) as (ts & ws & Hs & Et).
  rewrite (channel_writer_is_sample_writer (encB o L rate bps) md5 p wo rate bps ch tc ts wc ws chunks Hwf Hnew Hs Et Hchunks).
  fold samples.
  assert (Hcat1 : concat [samples] = samples) by (cbn [concat]; apply app_nil_r).
  assert (Htot' : match ts with Some T => T = ch * (N.of_nat (length samples) / ch) | None => True end).
  { fold W. subst ts. destruct tc as [T|]; [|exact I]. cbn [option_map]. rewrite Htot. reflexivity. }
  pose proof (written_file_seeks o L md5 Hmd p rate bps wo ch ts ws [samples] iv e rp Hwf Hiv Hs) as H.
  rewrite Hcat1 in H. exact (H Hfit HW Hlen Htot').
Qed.

(* C08 "never Panic" for the other two front-ends, by equality of runs: in a debug build a FlacByteWriter /
   FlacChannelWriter run can only stop on the overflow trap of a 2^64 counter (the block encoder is assumed not to panic) *)
From FlacWriters Require Safety_proofs Props_C08.

Theorem byte_run_safe_debug : forall enc_block md5 en o rate bps ch total w (chunks : list (list N)),
  (forall l, length (md5 l) = 16%nat) -> (forall n b, is_panic (enc_block n b) = false) ->
  options_wf o -> byte_new Debug en [] o rate bps ch total = Ok w -> Forall byte_ok (concat chunks) ->
  match byte_run enc_block md5 Debug w chunks with Panic k => k = POverflow | _ => True end.
Proof.
  intros enc_block md5 en o rate bps ch total w chunks Hmd Henc Hwf Hnew Hbytes.
  destruct (byte_new_sample_new Debug en o rate bps ch total w Hnew) as (ts & ws & Hs & Et).
  rewrite (byte_writer_is_sample_writer enc_block md5 Debug en o rate bps ch total ts w ws chunks Hwf Hnew Hs Et Hbytes).
  exact (FlacWriters.Props_C08.C08_no_panic_sample_debug enc_block md5 [] o rate bps ch ts ws _ Hmd Henc Hwf Hs).
Qed.

Theorem channel_run_safe_debug : forall enc_block md5 o rate bps ch total w (chunks : list (list (list Z))),
  (forall l, length (md5 l) = 16%nat) -> (forall n b, is_panic (enc_block n b) = false) ->
  options_wf o -> channel_new Debug [] o rate bps ch total = Ok w -> Forall (chunk_ok (N.to_nat ch)) chunks ->
  match channel_run enc_block md5 Debug w chunks with Panic k => k = POverflow | _ => True end.
Proof.
  intros enc_block md5 o rate bps ch total w chunks Hmd Henc Hwf Hnew Hchunks.
  destruct (channel_new_sample_new Debug o rate bps ch total w Hnew) as (ts & ws & Hs & Et).
  rewrite (channel_writer_is_sample_writer enc_block md5 Debug o rate bps ch total ts w ws chunks Hwf Hnew Hs Et Hchunks).
  exact (FlacWriters.Props_C08.C08_no_panic_sample_debug enc_block md5 [] o rate bps ch ts ws _ Hmd Henc Hwf Hs).
Qed.

(* C15 declared-length contract (soundness) for the other two front-ends, by equality of runs *)
From FlacWriters Require Props_C15 Encoder_proofs.

Theorem byte_length_contract : forall enc_block md5 p en o rate bps ch total w (chunks : list (list N)) f,
  (forall l, length (md5 l) = 16%nat) ->
  options_wf o -> byte_new p en [] o rate bps ch total = Ok w -> Forall byte_ok (concat chunks) ->
  byte_run enc_block md5 p w chunks = Ok f -> FlacWriters.Encoder_proofs.counters_fit (f_enc f) ->
  let nb := bytes_per_sample_of bps in
  let samples := decoded en (N.to_nat nb) (concat chunks) in
  exists cs r, drain (N.to_nat (ch * o_block_size o)) samples = (cs, r) /\
    let written := o_block_size o * N.of_nat (length cs) + N.of_nat (length r) / ch in
    si_total (f_si f) = Some written /\ 1 <= written < MAX_SAMPLES /\
    match total with Some t => t = nb * (ch * written) | None => True end.
Proof.
  intros enc_block md5 p en o rate bps ch total w chunks f Hmd Hwf Hnew Hbytes Hrun Hfit nb samples.
  destruct (byte_new_sample_new p en o rate bps ch total w Hnew) as (ts & ws & Hs & Et).
  rewrite (byte_writer_is_sample_writer enc_block md5 p en o rate bps ch total ts w ws chunks Hwf Hnew Hs Et Hbytes) in Hrun.
  fold nb in Hrun. fold samples in Hrun.
  destruct (FlacWriters.Props_C15.C15_length_contract_sample enc_block md5 p [] o rate bps ch ts ws [samples] f Hmd Hwf Hs Hrun Hfit)
    as (cs & r & Hd & Ht & Hr & Htot).
  cbn [concat] in Hd. rewrite app_nil_r in Hd.
  exists cs, r. split; [exact Hd|]. split; [exact Ht|]. split; [exact Hr|].
  subst total. destruct ts as [t|]; cbn [option_map]; [|exact I]. fold nb. rewrite Htot. reflexivity.
Qed.

Theorem channel_length_contract : forall enc_block md5 p o rate bps ch total w (chunks : list (list (list Z))) f,
  (forall l, length (md5 l) = 16%nat) -> 1 <= ch ->
  options_wf o -> channel_new p [] o rate bps ch total = Ok w -> Forall (chunk_ok (N.to_nat ch)) chunks ->
  channel_run enc_block md5 p w chunks = Ok f -> FlacWriters.Encoder_proofs.counters_fit (f_enc f) ->
  let samples := concat (multizip (cconcat (N.to_nat ch) chunks)) in
  exists cs r, drain (N.to_nat (ch * o_block_size o)) samples = (cs, r) /\
    let written := o_block_size o * N.of_nat (length cs) + N.of_nat (length r) / ch in
    si_total (f_si f) = Some written /\ 1 <= written < MAX_SAMPLES /\
    match total with Some t => t = written | None => True end.
Proof.
  intros enc_block md5 p o rate bps ch total w chunks f Hmd Hch Hwf Hnew Hchunks Hrun Hfit samples.
  destruct (channel_new_sample_new p o rate bps ch total w Hnew) as (ts & ws & Hs & Et).
  rewrite (channel_writer_is_sample_writer enc_block md5 p o rate bps ch total ts w ws chunks Hwf Hnew Hs Et Hchunks) in Hrun.
  fold samples in Hrun.
  destruct (FlacWriters.Props_C15.C15_length_contract_sample enc_block md5 p [] o rate bps ch ts ws [samples] f Hmd Hwf Hs Hrun Hfit)
    as (cs & r & Hd & Ht & Hr & Htot).
  cbn [concat] in Hd. rewrite app_nil_r in Hd.
  exists cs, r. split; [exact Hd|]. split; [exact Ht|]. split; [exact Hr|].
  subst ts. destruct total as [t|]; cbn [option_map] in Htot; [|exact I].
  apply N.mul_cancel_l in Htot; [exact Htot|lia].
Qed.

(* C08 "a trailing partial PCM frame is dropped" for the byte writer, by equality of runs: bytes that do not complete a
   PCM frame (also when they end in the middle of a sample) change nothing in the finished file *)
Lemma decoded_length en n (l : list N) : (0 < n)%nat ->
  (n * length (decoded en n l) <= length l)%nat /\ (length l < n * length (decoded en n l) + n)%nat.
Proof.
  intros Hn. unfold decoded. rewrite map_length. destruct (drain n l) as [cs r] eqn:D. cbn [fst].
  pose proof (drain_length n Hn l cs r D) as L. pose proof (drain_spec n Hn l cs r D) as (_ & _ & Lr). lia.
Qed.

Theorem byte_partial_dropped : forall enc_block md5 p en o rate bps ch total w (x partial : list N) k,
  options_wf o -> 1 <= bps -> 1 <= ch ->
  byte_new p en [] o rate bps ch total = Ok w -> Forall byte_ok x -> Forall byte_ok partial ->
  let nb := N.to_nat (bytes_per_sample_of bps) in
  length x = (nb * (N.to_nat ch * k))%nat -> (length partial < nb * N.to_nat ch)%nat ->
  byte_run enc_block md5 p w [x ++ partial] = byte_run enc_block md5 p w [x].
Proof.
  intros enc_block md5 p en o rate bps ch total w x partial k Hwf Hb1 Hc1 Hnew Hx Hp nb Lx Lp.
  assert (Hnb : (0 < nb)%nat).
  { unfold nb. assert (1 <= bytes_per_sample_of bps) by (unfold bytes_per_sample_of; apply N.div_le_lower_bound; lia). lia. }
  destruct (byte_new_sample_new p en o rate bps ch total w Hnew) as (ts & ws & Hs & Et).
  assert (Hxp : Forall byte_ok (concat [x ++ partial])) by (cbn [concat]; rewrite app_nil_r; apply Forall_app; auto).
  assert (Hx1 : Forall byte_ok (concat [x])) by (cbn [concat]; rewrite app_nil_r; exact Hx).
  rewrite (byte_writer_is_sample_writer enc_block md5 p en o rate bps ch total ts w ws [x ++ partial] Hwf Hnew Hs Et Hxp).
  rewrite (byte_writer_is_sample_writer enc_block md5 p en o rate bps ch total ts w ws [x] Hwf Hnew Hs Et Hx1).
  cbn [concat]. rewrite !app_nil_r. fold nb.
  rewrite (decoded_app en nb x partial (N.to_nat ch * k) Hnb Lx).
  destruct (decoded_length en nb x Hnb) as [A1 A2]. destruct (decoded_length en nb partial Hnb) as [B1 B2].
  apply (FlacWriters.Props_C08.C08_partial_dropped_sample enc_block md5 p [] o rate bps ch ts ws _ _ Hwf Hs).
  - assert (E : length (decoded en nb x) = (N.to_nat ch * k)%nat) by nia.
    rewrite E, Nat2N.inj_mul, N2Nat.id, N.mul_comm. apply N.mod_mul. lia.
  - assert (E : (length (decoded en nb partial) < N.to_nat ch)%nat) by nia. lia.
Qed.
