(* metadata/BlockList.v — BlockIterator (mod.rs:482-646), read_blocks / BlockList::read
   (mod.rs:702, 4384-4387, 4704-4739), write_blocks (mod.rs:904-976).  No proofs here. *)
From FlacMeta Require Export Blocks.
Open Scope N_scope.

Definition FLAC_TAG : list N := [102; 76; 97; 67].   (* mod.rs:42 b"fLaC" *)

Section BlockList.
Variable utf8_valid : list N -> bool.

(* ---- BlockIterator::read_block, mod.rs:513-552.
   The LimitedReader hands out at most header.size bytes of what is left of the stream;
   afterwards its remaining `size` must be 0.  Returns (last, block, rest of stream). *)
Definition read_block (s : list N) : res (bool * block * list N) :=
  match read_header s with
  | Err e => Err e
  | Panic k => Panic k
  | Ok (h, s1) =>
    let body := takeN (h_size h) s1 in
    match read_body utf8_valid (h_type h) (h_size h) body with
    | Err e => Err e
    | Panic k => Panic k
    | Ok (b, leftover) =>
      (* reader.into_reader().size = header.size - bytes consumed *)
      if h_size h - (lenN body - lenN leftover) =? 0
      then Ok (h_last h, b, dropN (h_size h) s1)
      else Err EOther (* InvalidMetadataBlockSize *)
    end
  end.

Record iter := mkIter {
  it_reader : list N;
  it_failed : bool; it_tag_read : bool; it_streaminfo_read : bool;
  it_seektable_read : bool; it_vorbiscomment_read : bool;
  it_png_read : bool; it_icon_read : bool; it_finished : bool }.

Definition iter_new (s : list N) : iter := mkIter s false false false false false false false false.

Definition set_failed (it : iter) : iter :=
  mkIter (it_reader it) true (it_tag_read it) (it_streaminfo_read it) (it_seektable_read it)
         (it_vorbiscomment_read it) (it_png_read it) (it_icon_read it) (it_finished it).

(* `(!self.finished).then(|| ...)`: None when finished; on Ok the reader advances and
   finished := header.last; on Err the reader position is unspecified (and never used
   again by a consumer that stops at the first error). *)
Definition it_read_block (it : iter) : option (res block) * iter :=
  if it_finished it then (None, it) else
  match read_block (it_reader it) with
  | Ok (last, b, rest) =>
    (Some (Ok b), mkIter rest (it_failed it) (it_tag_read it) (it_streaminfo_read it) (it_seektable_read it)
                         (it_vorbiscomment_read it) (it_png_read it) (it_icon_read it) last)
  | Err e => (Some (Err e), it)
  | Panic k => (Some (Panic k), it)
  end.

(* Iterator::next once the tag has been read, mod.rs:581-644 *)
Definition next_tagged (it : iter) : option (res block) * iter :=
  if negb (it_streaminfo_read it) then
    match it_read_block it with
    | (Some (Ok (BStreaminfo s)), it') =>
      (Some (Ok (BStreaminfo s)),
       mkIter (it_reader it') (it_failed it') (it_tag_read it') true (it_seektable_read it')
              (it_vorbiscomment_read it') (it_png_read it') (it_icon_read it') (it_finished it'))
    | (Some (Panic k), it') => (Some (Panic k), it')
    | (_, it') => (Some (Err EOther), set_failed it') (* MissingStreaminfo *)
    end
  else
    match it_read_block it with
    | (Some (Ok (BStreaminfo _)), it') => (Some (Err EOther), it') (* MultipleStreaminfo; `failed` is not set *)
    | (Some (Ok (BSeekTable l)), it') =>
      if negb (it_seektable_read it')
      then (Some (Ok (BSeekTable l)),
            mkIter (it_reader it') (it_failed it') (it_tag_read it') (it_streaminfo_read it') true
                   (it_vorbiscomment_read it') (it_png_read it') (it_icon_read it') (it_finished it'))
      else (Some (Err EOther), set_failed it')
    | (Some (Ok (BVorbis v)), it') =>
      if negb (it_vorbiscomment_read it')
      then (Some (Ok (BVorbis v)),
            mkIter (it_reader it') (it_failed it') (it_tag_read it') (it_streaminfo_read it') (it_seektable_read it')
                   true (it_png_read it') (it_icon_read it') (it_finished it'))
      else (Some (Err EOther), set_failed it')
    | (Some (Ok (BPicture x)), it') =>
      if pic_type x =? 1 then
        if negb (it_png_read it')
        then (Some (Ok (BPicture x)),
              mkIter (it_reader it') (it_failed it') (it_tag_read it') (it_streaminfo_read it') (it_seektable_read it')
                     (it_vorbiscomment_read it') true (it_icon_read it') (it_finished it'))
        else (Some (Err EOther), set_failed it')
      else if pic_type x =? 2 then
        if negb (it_icon_read it')
        then (Some (Ok (BPicture x)),
              mkIter (it_reader it') (it_failed it') (it_tag_read it') (it_streaminfo_read it') (it_seektable_read it')
                     (it_vorbiscomment_read it') (it_png_read it') true (it_finished it'))
        else (Some (Err EOther), set_failed it')
      else (Some (Ok (BPicture x)), it')
    | (Some (Err e), it') => (Some (Err e), set_failed it')
    | (other, it') => (other, it')
    end.

(* Iterator::next, mod.rs:558-645 *)
Definition iter_next (it : iter) : option (res block) * iter :=
  if it_failed it then (None, it)
  else if negb (it_tag_read it) then
    match take 4 (it_reader it) with
    | Ok (tag, rest) =>
      if forallb (fun ab => fst ab =? snd ab) (combine tag FLAC_TAG)
      then next_tagged (mkIter rest (it_failed it) true (it_streaminfo_read it) (it_seektable_read it)
                               (it_vorbiscomment_read it) (it_png_read it) (it_icon_read it) (it_finished it))
      else (Some (Err EOther), set_failed it) (* MissingFlacTag *)
    | Err e => (Some (Err e), set_failed it)
    | Panic k => (Some (Panic k), it)
    end
  else next_tagged it.

(* read_blocks(r).collect::<Result<Vec<Block>, Error>>(): stops at the first error.
   Each successful step consumes at least the 4 header bytes, so the input length is
   enough fuel (PFuel is shown unreachable). *)
Fixpoint collect (fuel : list N) (it : iter) (acc : list block) : res (list block) :=
  match iter_next it with
  | (None, _) => Ok (rev acc)
  | (Some (Err e), _) => Err e
  | (Some (Panic k), _) => Panic k
  | (Some (Ok b), it') =>
    match fuel with
    | [] => Panic PFuel
    | _ :: f => collect f it' (b :: acc)
    end
  end.

Definition read_blocks (s : list N) : res (list block) := collect (0 :: s) (iter_new s) [].

(* the reader has no profile-dependent arithmetic left (after fix F-C12e); the parameter is
   kept so that the C12 statement quantifies over both builds *)
Definition read_metadata (p : profile) (s : list N) : res (list block) := read_blocks s.

(* ---- write_blocks, mod.rs:904-976 *)
Fixpoint write_rest (sk vc png icon : bool) (l : list block) : res (list N) :=
  match l with
  | [] => Ok []
  | b :: r =>
    let last := match r with [] => true | _ => false end in
    match b with
    | BStreaminfo _ => Err EOther (* MultipleStreaminfo *)
    | BVorbis _ =>
      if vc then Err EOther
      else (x <- write_block last b ;; y <- write_rest sk true png icon r ;; Ok (x ++ y))%res
    | BSeekTable _ =>
      if sk then Err EOther
      else (x <- write_block last b ;; y <- write_rest true vc png icon r ;; Ok (x ++ y))%res
    | BPicture pic =>
      if pic_type pic =? 1 then
        (if png then Err EOther
         else (x <- write_block last b ;; y <- write_rest sk vc true icon r ;; Ok (x ++ y))%res)
      else if pic_type pic =? 2 then
        (if icon then Err EOther
         else (x <- write_block last b ;; y <- write_rest sk vc png true r ;; Ok (x ++ y))%res)
      else (x <- write_block last b ;; y <- write_rest sk vc png icon r ;; Ok (x ++ y))%res
    | _ => (x <- write_block last b ;; y <- write_rest sk vc png icon r ;; Ok (x ++ y))%res
    end
  end.

Definition write_blocks (l : list block) : res (list N) :=
  match l with
  | BStreaminfo si :: r =>
    (x <- write_block (match r with [] => true | _ => false end) (BStreaminfo si) ;;
     y <- write_rest false false false false r ;;
     Ok (FLAC_TAG ++ x ++ y))%res
  | _ => Err EOther (* MissingStreaminfo *)
  end.

End BlockList.
