(* Codec/Parser_proofs.v — compositional round-trip reasoning for the bit parser.
   encodes p w x : parser p, run on the bit string w followed by anything, yields x and
   leaves exactly what followed. *)
From FlacCodec Require Import Parser.
Open Scope N_scope.

Definition encodes {A} (p : P A) (w : bits) (x : A) : Prop := forall r, p (w ++ r) = Ok (x, r).

Lemma encodes_ret {A} (x : A) : encodes (pret x) [] x.
Proof. intros r. reflexivity. Qed.

Lemma encodes_bind {A B} (p : P A) (f : A -> P B) w1 w2 x y :
  encodes p w1 x -> encodes (f x) w2 y -> encodes (pbind p f) (w1 ++ w2) y.
Proof. intros H1 H2 r. unfold pbind. rewrite <- app_assoc, H1. apply H2. Qed.

Lemma encodes_bind_nil {A B} (p : P A) (f : A -> P B) w x y :
  encodes p [] x -> encodes (f x) w y -> encodes (pbind p f) w y.
Proof. intros H1 H2. apply (encodes_bind p f [] w x y H1 H2). Qed.

Lemma encodes_guard b e : b = true -> encodes (p_guard b e) [] tt.
Proof. intros ->. apply encodes_ret. Qed.

Lemma encodes_lift {A} (x : res A) a : x = Ok a -> encodes (plift x) [] a.
Proof. intros -> r. reflexivity. Qed.

Lemma encodes_rd n v : v < 2 ^ N.of_nat n -> encodes (p_rd n) (wr n v) v.
Proof. intros H r. unfold p_rd. rewrite rd_wr by exact H. reflexivity. Qed.

Lemma encodes_rds n z : (0 < n)%nat -> (- 2 ^ Z.of_nat (n - 1) <= z < 2 ^ Z.of_nat (n - 1))%Z ->
  encodes (p_rds n) (wr_s n z) z.
Proof. intros Hn Hz r. unfold p_rds. rewrite rd_s_wr_s by assumption. reflexivity. Qed.

Lemma encodes_bit b : encodes p_bit [b] b.
Proof. intros r. reflexivity. Qed.

Lemma encodes_bit_cons {B} (f : bool -> P B) b w y : encodes (f b) w y -> encodes (pbind p_bit f) (b :: w) y.
Proof. intros H r. unfold pbind. cbn. apply H. Qed.
Lemma encodes_rd1_false_cons {B} (f : N -> P B) w y : encodes (f 0) w y -> encodes (pbind (p_rd 1) f) (false :: w) y.
Proof. intros H r. unfold pbind. cbn. apply H. Qed.

Lemma encodes_unary stop k : encodes (p_unary stop) (wr_unary stop k) (N.of_nat k).
Proof. intros r. unfold p_unary. rewrite rd_unary_wr. reflexivity. Qed.

Lemma encodes_repeat {A} (p : P A) (w : A -> bits) (xs : list A) :
  Forall (fun x => encodes p (w x) x) xs -> encodes (p_repeat (length xs) p) (flat_map w xs) xs.
Proof.
  induction 1 as [|x xs Hx _ IH]; cbn [length p_repeat flat_map].
  - apply encodes_ret.
  - apply encodes_bind with (x := x); [exact Hx|].
    rewrite <- (app_nil_r (flat_map w xs)).
    apply encodes_bind with (x := xs); [exact IH|]. apply encodes_ret.
Qed.

Lemma encodes_ext {A} (p q : P A) w x : (forall s, p s = q s) -> encodes p w x -> encodes q w x.
Proof. intros E H r. rewrite <- E. apply H. Qed.

(* rewriting helper: the word can be re-associated *)
Lemma encodes_eq {A} (p : P A) w w' x : w = w' -> encodes p w x -> encodes p w' x.
Proof. intros ->. auto. Qed.

(* ---- totality: a parser never panics if its pieces do not ---- *)
Definition no_panic {A} (p : P A) : Prop := forall s, is_panic (p s) = false.

Lemma no_panic_ret {A} (a : A) : no_panic (pret a).
Proof. intros s. reflexivity. Qed.
Lemma no_panic_fail {A} e : no_panic (@pfail A e).
Proof. intros s. reflexivity. Qed.
Lemma no_panic_bind {A B} (p : P A) (f : A -> P B) :
  no_panic p -> (forall a, no_panic (f a)) -> no_panic (pbind p f).
Proof.
  intros Hp Hf s. unfold pbind. specialize (Hp s). destruct (p s) as [[a s']| |]; cbn in *; auto. apply Hf.
Qed.
Lemma no_panic_rd n : no_panic (p_rd n).
Proof. intros s. unfold p_rd. destruct (rd n s) as [[v r]|]; reflexivity. Qed.
Lemma no_panic_rds n : no_panic (p_rds n).
Proof. intros s. unfold p_rds. destruct (rd_s n s) as [[v r]|]; reflexivity. Qed.
Lemma no_panic_bit : no_panic p_bit.
Proof. intros [|b s]; reflexivity. Qed.
Lemma no_panic_unary stop : no_panic (p_unary stop).
Proof. intros s. unfold p_unary. destruct (rd_unary stop s) as [[v r]|]; reflexivity. Qed.
Lemma no_panic_guard b e : no_panic (p_guard b e).
Proof. destruct b; intros s; reflexivity. Qed.
Lemma no_panic_lift {A} (x : res A) : is_panic x = false -> no_panic (plift x).
Proof. intros H s. destruct x; cbn in *; auto. Qed.
Lemma no_panic_repeat {A} n (p : P A) : no_panic p -> no_panic (p_repeat n p).
Proof.
  intros Hp. induction n as [|n IH]; cbn [p_repeat]; [apply no_panic_ret|].
  apply no_panic_bind; [exact Hp|]. intros a. apply no_panic_bind; [exact IH|]. intros. apply no_panic_ret.
Qed.

(* ---- the parser only consumes: the remainder is a suffix of the input ---- *)
Definition suffix_of (r s : bits) : Prop := exists c, s = c ++ r.
Definition consuming {A} (p : P A) : Prop := forall s a r, p s = Ok (a, r) -> suffix_of r s.
Lemma suffix_refl s : suffix_of s s. Proof. exists []. reflexivity. Qed.
Lemma suffix_trans a b c : suffix_of a b -> suffix_of b c -> suffix_of a c.
Proof. intros [x ->] [y ->]. exists (y ++ x). rewrite app_assoc. reflexivity. Qed.
Lemma suffix_length r s : suffix_of r s -> (length r <= length s)%nat.
Proof. intros [c ->]. rewrite app_length. lia. Qed.

Lemma consuming_ret {A} (a : A) : consuming (pret a).
Proof. intros s a' r H. inversion H; subst. apply suffix_refl. Qed.
Lemma consuming_fail {A} e : consuming (@pfail A e).
Proof. intros s a r H. discriminate. Qed.
Lemma consuming_bind {A B} (p : P A) (f : A -> P B) :
  consuming p -> (forall a, consuming (f a)) -> consuming (pbind p f).
Proof.
  intros Hp Hf s b r H. unfold pbind in H. destruct (p s) as [[a s']| |] eqn:E; try discriminate.
  eapply suffix_trans; [eapply Hf; eauto|eapply Hp; eauto].
Qed.
Lemma consuming_rd n : consuming (p_rd n).
Proof.
  intros s a r H. unfold p_rd in H. destruct (rd n s) as [[v r']|] eqn:E; inversion H; subst.
  unfold rd in E. apply rd_acc_split in E. destruct E as (c & -> & _). exists c. reflexivity.
Qed.
Lemma consuming_rds n : consuming (p_rds n).
Proof.
  intros s a r H. unfold p_rds, rd_s in H. destruct (rd n s) as [[v r']|] eqn:E; inversion H; subst.
  unfold rd in E. apply rd_acc_split in E. destruct E as (c & -> & _). exists c. reflexivity.
Qed.
Lemma consuming_bit : consuming p_bit.
Proof. intros [|b s] a r H; inversion H; subst. exists [a]. reflexivity. Qed.
Lemma rd_unary_suffix stop : forall s v r, rd_unary stop s = Some (v, r) -> suffix_of r s.
Proof.
  induction s as [|b s IH]; intros v r H; cbn in H; [discriminate|].
  destruct (Bool.eqb b stop).
  - inversion H; subst. exists [b]. reflexivity.
  - destruct (rd_unary stop s) as [[k r']|] eqn:E; inversion H; subst.
    destruct (IH _ _ eq_refl) as [c ->]. exists (b :: c). reflexivity.
Qed.
Lemma consuming_unary stop : consuming (p_unary stop).
Proof.
  intros s a r H. unfold p_unary in H. destruct (rd_unary stop s) as [[v r']|] eqn:E; inversion H; subst.
  eapply rd_unary_suffix; eauto.
Qed.
Lemma consuming_guard b e : consuming (p_guard b e).
Proof. destruct b; [apply consuming_ret|apply consuming_fail]. Qed.
Lemma consuming_lift {A} (x : res A) : consuming (plift x).
Proof. intros s a r H. unfold plift in H. destruct x; inversion H; subst. apply suffix_refl. Qed.
Lemma consuming_repeat {A} n (p : P A) : consuming p -> consuming (p_repeat n p).
Proof.
  intros Hp. induction n as [|n IH]; cbn [p_repeat]; [apply consuming_ret|].
  apply consuming_bind; [exact Hp|]. intros a. apply consuming_bind; [exact IH|]. intros. apply consuming_ret.
Qed.
