"""C11 — metadata blocks survive a write/read round trip and report their sizes correctly.

Proof: coq/metadata (Blocks.v, BlockList.v models; Blocks_proofs.v, BlockList_proofs.v;
Props_C11.v, Pins.v).
Tie: constants re-read from the source by tools/gen_metadata.py; the extracted model
(ocaml/metadata_driver.ml) and a vm_compute sample are run on the cases the harness
generates (value lists written by the implementation, rule-breaking lists, accepted
encodings with randomised reserved fields) in release and debug builds and diffed.
Search: harness/src/bin/c11.rs evaluates the property itself on the implementation."""
import os

import vlib
from checks import metadata_common as mc

THEOREMS = [
    "Props_C11.C11_block_write_read", "Props_C11.C11_block_size", "Props_C11.C11_block_read_write_read",
    "Props_C11.C11_write_blocks_read_blocks", "Props_C11.C11_read_blocks_write_blocks",
    "Props_C11.C11_rules_refused", "Props_C11.C11_sizes_refused", "Props_C11.C11_write_never_panics",
    "Props_C11.C11_refuted", "Props_C11.C11_outside_known", "Props_C11.C11_utf8_std_ok", "Props_C11.C11_nonvacuous",
]
FILES = ["Bytes.v", "Bytes_proofs.v", "Blocks.v", "BlockList.v", "Utf8.v", "Utf8_proofs.v", "Blocks_proofs.v", "Cue_proofs.v", "Blocks_proofs2.v", "Blocks_level.v", "BlockList_proofs.v", "GenMeta_check.v", "Props_C11.v", "Pins.v"]


def run(chk):
    chk.assumptions = [
        "the Coq model (coq/metadata/Blocks.v, BlockList.v) mirrors src/metadata/mod.rs and cuesheet.rs function by function; this is checked by running the extracted model and the implementation on the same cases (both profiles), not proved",
        "UTF-8 validity (String::from_utf8) is a universally quantified predicate of the theorems, assumed only to accept ASCII (used for the ISRC field); the instance used when the model is run (Utf8.v, proved to accept ASCII) is tied to std by the comment/picture string cases",
        "the counting sink of bitstream-io (BitsWritten<BlockBits>) is modelled by body_size (field widths added up with the same value checks); the theorem C11_block_size relates it to the bytes written; the tie to the real counter is by the size observations of every case",
        "usize is 64 bits",
    ]
    proof_ok = mc.proof_stage(
        chk, requires=["FlacMeta.Props_C11", "FlacMeta.Pins"], theorems=THEOREMS, files=FILES,
        e2e_theorems=["C11_sample_writer_metadata_read", "C11_byte_writer_metadata_read", "C11_channel_writer_metadata_read", "C11_presets_qualify", "C11_written_metadata_read_in_full", "C11_sample_writer_metadata_read_in_full", "C11_sample_writer_file_typed", "C11_byte_writer_file_typed", "C11_channel_writer_file_typed", "C11_end_to_end_nonvacuous"])

    exe = mc.build_driver(chk) if proof_ok else None
    total_cases = bad_total = soft_total = 0
    stats = {}
    samples = []
    vm_cases = []
    kinds = {}
    for profile in ("release", "debug"):
        lines = mc.run_harness(chk, "c11", profile)
        if lines is None:
            continue
        cases = [d for d in lines if d.get("t") == "case"]
        for d in lines:
            t = d.get("t")
            if t == "viol":
                chk.violation(d["key"], "[%s build] %s" % (profile, d["desc"]), {k: d[k] for k in d if k != "t"})
            elif t == "stat":
                stats[profile] = d
            elif t == "sample" and len(samples) < 3:
                samples.append(d)
            elif t == "note":
                chk.notes.append(d.get("msg", ""))
        for c in cases:
            kinds[c["k"]] = kinds.get(c["k"], 0) + 1
        if exe:
            model = mc.run_model(chk, exe, cases)
            if model is not None:
                bad, soft = mc.diff_cases(chk, cases, model, "c11:" + profile)
                bad_total += bad
                soft_total += soft
                total_cases += len(cases)
        if profile == "release":
            vm_cases = [c for c in cases if c["k"] == "rd" and len(c["in"]) <= 700][:24]

    # vm_compute cross-check of the extraction: read_blocks then write_blocks inside coqc
    if proof_ok and vm_cases:
        defs = []
        expected = []
        for i, c in enumerate(vm_cases):
            h = c["in"]
            lst = "; ".join(str(int(h[j:j + 2], 16)) for j in range(0, len(h), 2))
            defs.append(
                'Goal True. let v := eval vm_compute in (match read_metadata utf8_valid_std Release [%s] with '
                'Ok l => match write_blocks l with Ok bs => (0, bs) | Err _ => (3, []) | Panic _ => (4, []) end '
                '| Err _ => (1, []) | Panic _ => (2, []) end) in idtac "@@%d=" v "@@". Abort.' % (lst, i))
            obs = c["obs"]
            if obs.startswith("ok "):
                w = [f for f in obs.split(" ") if f.startswith("w=")][0][2:]
                if w.startswith("ok:"):
                    hh = w[3:]
                    bs = "; ".join(str(int(hh[j:j + 2], 16)) for j in range(0, len(hh), 2))
                    expected.append("(0, [%s])" % bs)
                else:
                    expected.append("(3, [])" if w == "err" else "(4, [])")
            elif obs.startswith("err"):
                expected.append("(1, [])")
            else:
                expected.append("(2, [])")
        mc.vm_sample(chk, "c11", "\n".join(defs), expected,
                     ["FlacMeta.Bytes", "FlacMeta.Blocks", "FlacMeta.BlockList", "FlacMeta.Utf8"])

    distinct = max([int(s.get("distinct_sections", 0)) for s in stats.values()] or [0])
    chk.coverage.update({
        "evaluations": total_cases,
        "distinct_nontrivial": distinct,
        "rule": "distinct metadata sections (FNV hash of the bytes) that were written by the implementation from a generated block list, or accepted by its reader, and taken through the full write/read/compare and size checks; every one has a STREAMINFO plus 0-5 further blocks (the larger count of the two build profiles)",
        "traces_validated_against_impl": total_cases,
        "disagreements_checked": bad_total,
        "error_variant_differences": soft_total,
        "case_kinds": kinds,
        "searcher": {p: s.get("counts", {}) for p, s in stats.items()},
        "samples": [{"blocks": s["blocks"][:600], "file_hex": s["file"][:600]} for s in samples],
        "vm_compute_sample": len(vm_cases),
    })
