//! Smoke generator for the codec model correspondence (integrator-owned): encodes a variety of
//! small inputs, emits dec_stream / dec_subset / struct cases, including damaged variants.
use flac_codec::decode::FlacStreamReader;
use flac_codec::encode::{FlacStreamWriter, Options};
use flac_codec::metadata::{BlockList, Streaminfo};
use flac_codec::stream::Frame;
use std::io::Cursor;
use vharness::json::{esc, ints, obj};
use vharness::*;

fn profile() -> &'static str {
    if cfg!(debug_assertions) { "debug" } else { "release" }
}

fn emit_dec_stream(bytes: &[u8], expect: Option<&[i32]>) {
    let d = decode_all(bytes);
    let mut f = vec![
        ("t", esc("case")), ("kind", esc("dec_stream")), ("profile", esc(profile())), ("bytes", esc(&hex(bytes))),
        ("end", esc(&d.end.tag())), ("opened", d.opened.to_string()), ("samples", ints(&d.samples)), ("frame_lens", ints(&d.frame_lens)),
        ("ch", d.channels.to_string()), ("bps", d.bps.to_string()), ("rate", d.rate.to_string()),
    ];
    if let Some(e) = expect {
        f.push(("expect", ints(e)));
    }
    println!("{}", obj(&f));
}

fn emit_dec_subset(bytes: &[u8]) {
    let mut frames = vec![];
    let mut end = String::new();
    let r = catch(|| {
        let mut rd = FlacStreamReader::new(Cursor::new(bytes));
        loop {
            match rd.read() {
                Ok(fb) => frames.push(obj(&[("samples", ints(fb.samples)), ("rate", fb.sample_rate.to_string()), ("ch", fb.channels.to_string()), ("bps", fb.bits_per_sample.to_string())])),
                Err(e) => { end = format!("err:{}", err_class(&e)); break; }
            }
        }
    });
    if r.is_err() { end = "panic".into(); }
    println!("{}", obj(&[("t", esc("case")), ("kind", esc("dec_subset")), ("profile", esc(profile())), ("bytes", esc(&hex(bytes))),
        ("frames", format!("[{}]", frames.join(","))), ("end", esc(&end))]));
}

fn emit_struct(si_body: &[u8], si: Option<&Streaminfo>, frame: &[u8]) {
    let r = catch(|| {
        let mut c = Cursor::new(frame);
        match si { Some(s) => Frame::read(&mut c, s), None => Frame::read_subset(&mut c) }
    });
    let (end, rewritten, decoded) = match r {
        Err(_) => ("panic".to_string(), String::new(), String::from("[]")),
        Ok(Err(e)) => (format!("err:{}", err_class(&e)), String::new(), String::from("[]")),
        Ok(Ok(f)) => {
            let mut out = vec![];
            let w = catch(|| match si { Some(s) => f.write(s, &mut out), None => f.write_subset(&mut out) });
            let rew = match w { Ok(Ok(())) => hex(&out), _ => String::from("!") };
            let dec: Vec<String> = f.subframes.iter().map(|sf| match sf {
                flac_codec::stream::SubframeWidth::Common(s) => ints(&s.decode().collect::<Vec<i32>>()),
                flac_codec::stream::SubframeWidth::Wide(s) => ints(&s.decode().collect::<Vec<i64>>()),
            }).collect();
            ("ok".to_string(), rew, format!("[{}]", dec.join(",")))
        }
    };
    println!("{}", obj(&[("t", esc("case")), ("kind", esc("struct")), ("subset", si.is_none().to_string()), ("si", esc(&hex(si_body))),
        ("bytes", esc(&hex(frame))), ("end", esc(&end)), ("rewritten", esc(&rewritten)), ("decoded", decoded)]));
}

fn main() {
    quiet_panics();
    let seed = env_seed();
    let thorough = env_tier_thorough();
    let mut rng = Rng::new(seed, 0x5A0CE);
    let n = if thorough { 400 } else { 60 };
    for i in 0..n {
        let ch = *rng.pick(&[1u8, 1, 2, 2, 2, 3, 5, 8]);
        let bps = if i % 4 == 0 { rng.range(1, 32) as u32 } else { *rng.pick(&[8u32, 12, 16, 16, 20, 24, 32]) };
        let bs = *rng.pick(&[16u16, 17, 24, 32, 64, 192, 256, 300]);
        let frames_n = rng.range(0, 3) as usize;
        let tail = rng.range(1, bs as i64) as usize;
        let kind = PCM_KINDS[i % PCM_KINDS.len()];
        let pcm = gen_pcm(&mut rng, kind, ch as usize, bps, bs as usize * frames_n + tail);
        let mut opts = Options::default().block_size(bs).unwrap();
        if i % 3 == 0 { opts = opts.no_padding(); }
        if i % 5 == 0 { opts = opts.max_lpc_order(None).unwrap(); }
        if i % 7 == 0 { opts = opts.mid_side(false); }
        if i % 2 == 0 { opts = opts.no_seektable(); }
        let rate = *rng.pick(&[44100u32, 48000, 8000, 96000, 12345, 22050, 192000, 1000, 65534, 700001, 32000, 50000]);
        let bytes = match encode_samples(opts, rate, bps, ch, &pcm, i % 2 == 0) { Ok(b) => b, Err(_) => continue };
        emit_dec_stream(&bytes, Some(&pcm));
        // damaged variants: a few random bit flips anywhere after the tag, and truncations
        for _ in 0..3 {
            let mut b = bytes.clone();
            let pos = rng.range(42.min(b.len() as i64 - 1), b.len() as i64 - 1) as usize;
            b[pos] ^= 1 << rng.below(8);
            emit_dec_stream(&b, None);
        }
        let cut = rng.range(42.min(bytes.len() as i64), bytes.len() as i64) as usize;
        emit_dec_stream(&bytes[..cut], None);
        // structural parse of each frame
        if let Some(bounds) = frame_boundaries(&bytes) {
            if let Ok(bl) = BlockList::read(Cursor::new(&bytes[..])) {
                let si = bl.streaminfo().clone();
                let si_body = &bytes[8..42];
                for w in bounds.windows(2).take(3) {
                    emit_struct(si_body, Some(&si), &bytes[w[0]..w[1]]);
                    let mut f = bytes[w[0]..w[1]].to_vec();
                    let pos = rng.below(f.len() as u64) as usize;
                    f[pos] ^= 1 << rng.below(8);
                    emit_struct(si_body, Some(&si), &f);
                }
            }
        }
    }
    // raw frame streams
    for i in 0..(if thorough { 120 } else { 25 }) {
        let mut out = Cursor::new(Vec::new());
        {
            let mut w = FlacStreamWriter::new(&mut out, Options::default());
            for _ in 0..rng.range(1, 3) {
                let ch = *rng.pick(&[1u8, 2, 2, 4]);
                let bps = *rng.pick(&[8u32, 16, 24, 32, 12, 20]);
                let n = rng.range(1, 200) as usize;
                let rate = *rng.pick(&[44100u32, 48000, 8000, 96000, 22050, 192000, 1000, 65530, 32000]);
                let pcm = gen_pcm(&mut rng, PCM_KINDS[i % PCM_KINDS.len()], ch as usize, bps, n);
                let _ = catch(|| w.write(rate, ch, bps, &pcm));
            }
        }
        let b = out.into_inner();
        emit_dec_subset(&b);
        // garbage before the frames: plain, ending in 0xFF, containing sync-like pairs, truncated headers
        for g in 0..4 {
            let n1 = rng.below(20) as usize; let n2 = rng.below(10) as usize; let n3 = rng.below(6) as usize;
            let n4 = rng.below(12) as usize; let n5 = 1 + rng.below(4) as usize; let n6 = rng.below(8) as usize; let lowbit = rng.below(2) as u8;
            let mut pre: Vec<u8> = match g {
                0 => rng.bytes(n1).into_iter().map(|x| if x == 0xFF { 0x12 } else { x }).collect(),
                1 => { let mut v = rng.bytes(n2); v.push(0xFF); v }
                2 => { let mut v = rng.bytes(n3); v.extend_from_slice(&[0xFF, 0xF8 | lowbit]); let t = rng.bytes(n4); v.extend(t); v }
                _ => { let mut v = vec![0xFF; n5]; if !b.is_empty() { let k = n6.min(b.len()); v.extend_from_slice(&b[..k]); } v }
            };
            pre.extend_from_slice(&b);
            emit_dec_subset(&pre);
        }
        if !b.is_empty() {
            let mut d = b.clone();
            let pos = rng.below(d.len() as u64) as usize;
            d[pos] ^= 1 << rng.below(8);
            if d[0] == 0xFF && (d[1] >> 1) == 0b1111100 { emit_dec_subset(&d[..d.len() - 1]); }
            emit_struct(&[], None, &b);
        }
    }
}
