(* Codec/Spec.v — RFC 9639 validity of a syntax tree beyond what the round trip needs, and the
   strict reference decoder  spec_decode = parse ; check wf ; check valid ; semantics. *)
From FlacCodec Require Export Wf.
Open Scope N_scope.

(* residual coding: the block size must be evenly divisible by the number of partitions, and
   (block size >> partition order) must be larger than the predictor order; no residual may be the
   most negative 32-bit value *)
Definition spec_residual (block_size order : N) (r : residual) : bool :=
  let po := N.log2 (N.of_nat (length (r_parts r))) in
  (block_size mod 2 ^ po =? 0) && (order <? block_size / 2 ^ po) &&
  forallb (fun z => negb (z =? - 2 ^ 31)%Z) (residual_values r).

(* every sample the subframe stands for fits its effective bit depth *)
Definition spec_subframe (block_size bps : N) (sf : subframe) : bool :=
  forallb (fits (bps - sf_wasted sf)) (sem_body block_size (sf_body sf)) &&
  match sf_body sf with
  | BFixed o _ r => spec_residual block_size o r
  | BLpc o _ _ _ _ r => spec_residual block_size o r
  | _ => true
  end.

Fixpoint spec_subframes (h : header) (i : nat) (subs : list subframe) : bool :=
  match subs with
  | [] => true
  | sf :: rest => spec_subframe (h_bs h) (subframe_bps (h_assign h) (h_bps h) i) sf && spec_subframes h (S i) rest
  end.

(* the reconstructed channels fit the stream's bit depth; frame header reserved bit etc. are
   syntactic and already fixed by the writer *)
Definition spec_frame (f : frame) : bool :=
  spec_subframes (f_hdr f) 0 (f_subs f) &&
  forallb (forallb (fits (h_bps (f_hdr f)))) (sem_frame f) &&
  (1 <=? h_bps (f_hdr f)) && (h_bps (f_hdr f) <=? 32).

Definition spec_decode (si : option streaminfo) (bytes : list N) : res (list (list Z) * list N) :=
  '(f, rest) <- struct_frame si bytes ;;
  if wf_frame si f && spec_frame f then Ok (sem_frame f, rest) else Err EOther.
