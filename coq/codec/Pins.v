(* Statement pins for the codec area. *)
From FlacCodec Require Import Wf Spec Stream Progress EncChoice Damage Prefix Interrupted Inverse Inverse_frame StreamRd StreamRd_proofs Enc Enc_proofs File Props_codec.
From FlacBase Require Import Crc.
Open Scope N_scope.
Check (C17_parse_inverts_write : forall si f bytes rest,
  wf_frame si f = true -> write_frame f = Some bytes -> struct_frame si (bytes ++ rest) = Ok (f, rest)).
Check (C04_frame_total : forall si chk bytes,
  (forall h, is_panic (chk h) = false) -> is_panic (dec_frame si chk bytes) = false).
Check (C04_stream_total : forall file,
  match dec_stream file with Some (_, _, e) => is_end_panic e = false | None => True end).
Check (C04_frame_progress : forall si chk bytes h chans rest,
  dec_frame si chk bytes = Ok (h, chans, rest) -> (length rest + 2 <= length bytes)%nat).
Check (C03_decoder_follows_format : forall si chk f bytes rest,
  wf_frame si f = true -> spec_frame f = true -> write_frame f = Some bytes ->
  chk (f_hdr f) = Ok tt ->
  dec_frame si chk (bytes ++ rest) = Ok (f_hdr f, sem_frame f, rest)).
Check (C02_reference_decoder_accepts : forall si f bytes rest,
  wf_frame si f = true -> spec_frame f = true -> write_frame f = Some bytes ->
  spec_decode si (bytes ++ rest) = Ok (sem_frame f, rest)).
Check (C19_subframe_bound : forall bps xs fixed lpc,
  (1 <= length xs)%nat -> 1 <= bps -> (forall w, common_wasted xs = Some w -> w < bps) ->
  sf_bits bps (enc_subframe bps xs fixed lpc) <= 8 + N.of_nat (length xs) * bps).
Check (C05_flipped_frame_rejected : forall si chk bytes h c rest i k h' c' rest',
  Forall byte bytes -> dec_frame si chk bytes = Ok (h, c, rest) ->
  (i < length bytes - length rest)%nat -> k < 8 ->
  dec_frame si chk (flip16 bytes i k) = Ok (h', c', rest') -> length rest' <> length rest).
Check (C05_truncated_frame_is_error : forall si chk bytes h c rest m,
  dec_frame si chk bytes = Ok (h, c, rest) -> (m < length bytes - length rest)%nat ->
  dec_frame si chk (firstn m bytes) = Err EEof).
Check (C14_interrupted_stream : forall si fs allb g gb m fuel cur acc,
  Forall (frame_ok si) fs -> frames_bytes fs = Some allb ->
  frame_ok si g -> write_frame g = Some gb -> (m < length gb)%nat ->
  (si_total si = 0 \/ cur + total_samples fs + h_bs (f_hdr g) <= si_total si) ->
  (length allb + m < fuel)%nat ->
  let '(out, e) := dec_frames fuel si cur (allb ++ firstn m gb) acc in
  out = rev acc ++ map (fun f => interleave_frame (sem_frame f)) fs /\ is_end_panic e = false).
Check (C17_write_inverts_parse : forall si bytes f rest,
  Forall byte bytes -> struct_frame si bytes = Ok (f, rest) -> frame_canonical si bytes = true ->
  exists b, write_frame f = Some b /\ bytes = b ++ rest).
Check (C16_no_fabricated_frame : forall fuel bytes h chans rest,
  scan fuel bytes = Ok (h, chans, rest) ->
  exists pre b2 tl, bytes = pre ++ 255 :: b2 :: tl /\ b2 / 2 = 124 /\
                    dec_frame None no_check (255 :: b2 :: tl) = Ok (h, chans, rest)).
Check (C16_syncless_garbage_costs_no_frame : forall g b2 tl x fuel,
  syncless g = true -> b2 / 2 = 124 ->
  dec_frame None no_check (255 :: b2 :: tl) = Ok x ->
  (length (g ++ 255%N :: b2 :: tl) < fuel)%nat ->
  scan fuel (g ++ 255 :: b2 :: tl) = Ok x).

(* the encoder as written *)
Check (C02_encoder_frame_valid : forall o L si rate bps number chans f,
  enc_frame o L rate bps number chans = Some f ->
  block_ok si bps chans -> si_rate si = rate -> number <= MAX_FRAME_NUMBER ->
  wf_frame (Some si) f = true /\ spec_frame f = true /\ sem_frame f = chans /\ h_number (f_hdr f) = number /\
  h_bs (f_hdr f) = block_len chans).
Check (C01_encoder_frame_lossless : forall o L si rate bps number chans bytes rest chk,
  enc_frame_bytes o L rate bps number chans = Some bytes ->
  block_ok si bps chans -> si_rate si = rate -> number <= MAX_FRAME_NUMBER ->
  (forall h, h_bs h = block_len chans -> chk h = Ok tt) ->
  exists h, dec_frame (Some si) chk (bytes ++ rest) = Ok (h, chans, rest) /\ h_number h = number /\
            h_bs h = block_len chans /\
            spec_decode (Some si) (bytes ++ rest) = Ok (chans, rest)).
Check (C01_encoder_never_fails : forall o L si rate bps number chans rc,
  block_ok si bps chans -> code_of_rate rate = Some rc -> number <= MAX_FRAME_NUMBER ->
  exists bytes, enc_frame_bytes o L rate bps number chans = Some bytes).
Check (C01_encoder_stream_lossless : forall o L si rate bps blocks k bytes fuel cur acc,
  enc_blocks o L rate bps k blocks = Some bytes ->
  Forall (block_ok si bps) blocks -> si_rate si = rate ->
  k + N.of_nat (length blocks) <= MAX_FRAME_NUMBER + 1 ->
  short_only_last si blocks ->
  (si_total si = 0 \/ cur + blocks_samples blocks = si_total si) ->
  (length bytes < fuel)%nat ->
  dec_frames fuel si cur bytes acc = (rev acc ++ map interleave_frame blocks, EndEof)).
Check (C19_encoder_subframe_bound : forall o L bps xs,
  xs <> [] -> forallb (fits bps) xs = true -> 1 <= bps ->
  sf_bits bps (enc_sub o L bps xs) <= 8 + N.of_nat (length xs) * bps).
Check (C19_encoder_frame_bound : forall o L si rate bps number chans bytes,
  enc_frame_bytes o L rate bps number chans = Some bytes -> block_ok si bps chans ->
  let ch := N.of_nat (length chans) in let n := block_len chans in
  N.of_nat (length bytes) <= 16 + (ch * (8 + n * bps) + (if ch =? 2 then n else 0) + 7) / 8 + 2).
Check (C19_encoder_constant_block : forall o L bps c n,
  (1 <= n)%nat -> fits bps c = true -> 1 <= bps -> bps <= 32 ->
  sf_bits bps (enc_sub o L bps (repeat c n)) <= 96).
Check (C01_encoder_file_lossless : forall o L si others blocks bytes,
  enc_blocks o L (si_rate si) (si_bps si) 0 blocks = Some bytes ->
  si_ok si -> blocks_ok others ->
  Forall (block_ok si (si_bps si)) blocks ->
  N.of_nat (length blocks) <= MAX_FRAME_NUMBER + 1 ->
  short_only_last si blocks ->
  (si_total si = 0 \/ blocks_samples blocks = si_total si) ->
  dec_stream (file_of si others bytes) = Some (si, map interleave_frame blocks, EndEof)).
Check (C14_interrupted_file : forall si others fs allb g gb m,
  si_ok si -> blocks_ok others ->
  Forall (frame_ok si) fs -> frames_bytes fs = Some allb ->
  frame_ok si g -> write_frame g = Some gb -> (m < length gb)%nat ->
  (si_total si = 0 \/ total_samples fs + h_bs (f_hdr g) <= si_total si) ->
  match dec_stream (file_of si others (allb ++ firstn m gb)) with
  | Some (si', out, e) => si' = si /\ out = map (fun f => interleave_frame (sem_frame f)) fs /\ is_end_panic e = false
  | None => False
  end).
(* block_ok is what it says *)
Check (eq_refl : block_ok = fun si bps chans =>
  (1 <= length chans <= 8)%nat /\ 1 <= bps /\ bps <= 32 /\
  si_bps si = bps /\ si_channels si = N.of_nat (length chans) /\
  exists n, 1 <= n /\ n <= 65535 /\ n <= si_max_bs si /\
    Forall (fun c => N.of_nat (length c) = n /\ forallb (fits bps) c = true) chans).
Check (C16_encoder_frames_self_describing : forall o L rate bps number chans bytes rest rc,
  enc_frame_bytes o L rate bps number chans = Some bytes ->
  block_shape bps chans -> number <= MAX_FRAME_NUMBER ->
  code_of_rate rate = Some rc -> rc <> 0 -> code_of_bps bps <> 0 ->
  exists h, dec_frame None no_check (bytes ++ rest) = Ok (h, chans, rest) /\
            h_rate h = rate /\ h_bps h = bps /\ h_number h = number /\ h_bs h = block_len chans).
Check (C16_encoder_frames_scanned : forall o L rate bps number chans bytes rest rc g fuel,
  enc_frame_bytes o L rate bps number chans = Some bytes ->
  block_shape bps chans -> number <= MAX_FRAME_NUMBER ->
  code_of_rate rate = Some rc -> rc <> 0 -> code_of_bps bps <> 0 ->
  syncless g = true -> (length (g ++ bytes ++ rest) < fuel)%nat ->
  exists h, scan fuel (g ++ bytes ++ rest) = Ok (h, chans, rest) /\
            h_rate h = rate /\ h_bps h = bps /\ h_number h = number /\ h_bs h = block_len chans).
Check (C16_encoder_stream_read_back : forall o L items trailer bytes fuel,
  subset_stream o L items trailer = Some bytes -> Forall item_ok items -> syncless trailer = true ->
  (length items < fuel)%nat ->
  exists out, stream_read_all fuel bytes [] = (out, EndErr EEof) /\ Forall2 item_hdr_ok items out).
Check (C02_encoder_file_valid : forall o L si others blocks bytes,
  enc_blocks o L (si_rate si) (si_bps si) 0 blocks = Some bytes ->
  si_ok si -> blocks_ok others ->
  Forall (block_ok si (si_bps si)) blocks ->
  N.of_nat (length blocks) <= MAX_FRAME_NUMBER + 1 ->
  full_but_last si blocks ->
  16 <= si_min_bs si -> si_min_bs si <= si_max_bs si ->
  (si_total si = 0 \/ blocks_samples blocks = si_total si) ->
  spec_stream (file_of si others bytes) = Ok (si, blocks)).
Check (C14_encoder_interrupted_file : forall o L si others blocks bytes b gb m,
  enc_blocks o L (si_rate si) (si_bps si) 0 blocks = Some bytes ->
  enc_frame_bytes o L (si_rate si) (si_bps si) (N.of_nat (length blocks)) b = Some gb ->
  si_ok si -> blocks_ok others ->
  Forall (fun x => block_ok si (si_bps si) x /\ 14 < block_len x) (blocks ++ [b]) ->
  N.of_nat (length blocks) + 1 <= MAX_FRAME_NUMBER + 1 ->
  (m < length gb)%nat ->
  (si_total si = 0 \/ blocks_samples blocks + block_len b <= si_total si) ->
  match dec_stream (file_of si others (bytes ++ firstn m gb)) with
  | Some (si', out, e) => si' = si /\ out = map interleave_frame blocks /\ is_end_panic e = false
  | None => False
  end).
