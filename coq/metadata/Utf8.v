(* metadata/Utf8.v — the concrete UTF-8 validity test used to instantiate the Section
   variable `utf8_valid` when the model is run (extraction, vm_compute).  It follows the
   well-formedness table of the Unicode standard (what core::str::from_utf8 implements:
   no overlong forms, no surrogates, nothing above U+10FFFF).  The theorems do not depend
   on it: they are proved for every predicate; this instance is tied to std by the
   correspondence runs (comment strings with arbitrary and invalid UTF-8). *)
From FlacMeta Require Import Bytes.
Open Scope N_scope.

Definition inr (lo hi b : N) : bool := (lo <=? b) && (b <=? hi).

Fixpoint utf8_valid_std (l : list N) : bool :=
  match l with
  | [] => true
  | b0 :: r0 =>
    if b0 <? 128 then utf8_valid_std r0
    else if inr 194 223 b0 then
      match r0 with
      | b1 :: r1 => inr 128 191 b1 && utf8_valid_std r1
      | _ => false
      end
    else if inr 224 239 b0 then
      match r0 with
      | b1 :: b2 :: r2 =>
        (if b0 =? 224 then inr 160 191 b1 else if b0 =? 237 then inr 128 159 b1 else inr 128 191 b1)
        && inr 128 191 b2 && utf8_valid_std r2
      | _ => false
      end
    else if inr 240 244 b0 then
      match r0 with
      | b1 :: b2 :: b3 :: r3 =>
        (if b0 =? 240 then inr 144 191 b1 else if b0 =? 244 then inr 128 143 b1 else inr 128 191 b1)
        && inr 128 191 b2 && inr 128 191 b3 && utf8_valid_std r3
      | _ => false
      end
    else false
  end.
