(* Writers/Cross_writes.v — C08 across front-ends at the level of the WRITES (not only finished runs): what a
   FlacByteWriter (either byte order, nothing buffered) has handed to its Encoder after writing any byte string is
   what a FlacSampleWriter over the same Encoder has handed to it after writing the samples those bytes spell — the
   same Encoder state (frames emitted, counters, MD5 input), or the same error.  Used by coq/e2e to carry the
   interrupted-stream theorem of C14 from the sample writer to the byte writer. *)
From Coq Require Import List NArith ZArith Lia.
From FlacBase Require Import Res.
From FlacWriters Require Import Meta Params Finalize Writers Lists_proofs Writers_proofs Bytes_proofs Frontend_proofs Cross_proofs.
Import ListNotations.
Open Scope N_scope.

Section CrossWrites.
Variable enc_block : N -> block -> res (list N).
Variable p : profile.

Theorem byte_write_is_sample_write en e0 ch nb bs (bytes : list N) :
  1 <= nb <= 4 -> 1 <= ch -> 1 <= bs -> Forall byte_ok bytes ->
  let wb := {| bw_enc := e0; bw_buf := []; bw_endian := en; bw_channels := ch; bw_bytes_per_sample := nb;
               bw_pcm_frame_size := nb * ch; bw_frame_byte_size := nb * ch * bs |} in
  let ws := {| sw_enc := e0; sw_buf := []; sw_channels := ch; sw_frame_sample_size := ch * bs; sw_bytes_per_sample := nb |} in
  rmap bw_enc (byte_write enc_block p wb bytes) = rmap sw_enc (sample_write enc_block p ws (decoded en (N.to_nat nb) bytes)).
Proof.
  intros Hnb Hc Hbs Hbytes wb ws.
  set (n := N.to_nat nb). set (c := N.to_nat ch). set (b := N.to_nat bs).
  assert (Hn : (1 <= n <= 4)%nat) by (unfold n; lia). assert (Hcc : (1 <= c)%nat) by (unfold c; lia). assert (Hb : (1 <= b)%nat) by (unfold b; lia).
  unfold byte_write, sample_write. cbn [wb ws bw_buf bw_frame_byte_size bw_enc bw_endian bw_channels bw_bytes_per_sample bw_pcm_frame_size
                                        sw_buf sw_frame_sample_size sw_enc sw_channels sw_bytes_per_sample app].
  destruct (N.eqb_spec (nb * ch * bs) 0) as [|_]; [nia|]. destruct (N.eqb_spec (ch * bs) 0) as [|_]; [nia|].
  set (kb := N.to_nat (nb * ch * bs)). set (ks := N.to_nat (ch * bs)).
  assert (Hkb : kb = (n * (c * b))%nat) by (unfold kb, n, c, b; rewrite !N2Nat.inj_mul; lia).
  assert (Hks : ks = (c * b)%nat) by (unfold ks, c, b; rewrite N2Nat.inj_mul; reflexivity).
  assert (Hkb0 : (0 < kb)%nat) by nia. assert (Hks0 : (0 < ks)%nat) by nia.
  destruct (drain kb bytes) as [cs rest] eqn:Ed.
  pose proof (drain_spec kb Hkb0 bytes cs rest Ed) as (Eall & Fcs & Lrest).
  (* the samples: decoded full chunks ++ decoded rest *)
  assert (Lcs : length (concat cs) = (kb * length cs)%nat).
  { clear - Fcs. induction Fcs as [|x l Hx _ IH]; cbn [concat length]; [lia|]. rewrite app_length, IH, Hx. lia. }
  assert (Dcs : decoded en n (concat cs) = concat (map (decoded en n) cs)).
  { clear - Fcs Hkb Hn. induction Fcs as [|x l Hx _ IH]; cbn [concat map]; [reflexivity|].
    rewrite (decoded_app en n x (concat l) (c * b)) by (lia || (rewrite Hx; lia)). rewrite IH. reflexivity. }
  assert (Esamples : decoded en n bytes = concat (map (decoded en n) cs) ++ decoded en n rest).
  { rewrite Eall at 1. rewrite (decoded_app en n (concat cs) rest (c * b * length cs)) by (lia || (rewrite Lcs, Hkb; lia)).
    rewrite Dcs. reflexivity. }
  assert (Fl : Forall (fun x => length x = ks) (map (decoded en n) cs)).
  { apply Forall_forall. intros x Hx. apply in_map_iff in Hx. destruct Hx as (y & <- & Hy).
    rewrite decoded_length by lia. rewrite Forall_forall in Fcs.
    rewrite (Fcs _ Hy), Hkb, Hks. replace (n * (c * b))%nat with (c * b * n)%nat by lia. apply Nat.div_mul. lia. }
  assert (Lr : (length (decoded en n rest) < ks)%nat).
  { rewrite decoded_length by lia. apply Nat.div_lt_upper_bound; [lia|]. rewrite Hks. rewrite Hkb in Lrest. lia. }
  assert (Eds : drain ks (decoded en n bytes) = (map (decoded en n) cs, decoded en n rest)).
  { rewrite Esamples. apply drain_unique; assumption. }
  rewrite Eds.
  (* the full chunks *)
  assert (Hbyte_sub : forall x, (exists a z, bytes = a ++ x ++ z) -> Forall byte_ok x).
  { intros x (a & z & E). rewrite E in Hbytes. apply Forall_app in Hbytes. destruct Hbytes as [_ H]. apply Forall_app in H. tauto. }
  rewrite (fold_bytes_decoded enc_block p en ch nb Hnb cs e0).
  2:{ apply Forall_forall. intros x Hx. rewrite Forall_forall in Fcs. exists (ch * bs). rewrite (Fcs _ Hx). unfold kb. lia. }
  2:{ apply Forall_forall. intros x Hx. apply Hbyte_sub. apply in_split in Hx. destruct Hx as (l1 & l2 & ->).
      exists (concat l1), (concat l2 ++ rest). rewrite Eall, concat_app. cbn [concat]. rewrite <- !app_assoc. reflexivity. }
  fold n.
  destruct (fold_res (sample_encode_chunk enc_block p ch nb) e0 (map (decoded en n) cs)) as [e1| |]; reflexivity.
Qed.

End CrossWrites.

(* the same for FlacChannelWriter: one write of uniform channels *)
Section CrossChannelWrites.
Variable enc_block : N -> block -> res (list N).
Variable p : profile.

Theorem channel_write_is_sample_write e0 ch nb bs (chans : list (list Z)) m :
  1 <= ch <= 8 -> 1 <= bs -> si_channels (e_si e0) = ch ->
  length chans = N.to_nat ch -> Forall (fun c => length c = m) chans ->
  let wc := {| cw_enc := e0; cw_bufs := repeat [] (N.to_nat ch); cw_channels := ch; cw_frame_sample_size := bs; cw_bytes_per_sample := nb |} in
  let ws := {| sw_enc := e0; sw_buf := []; sw_channels := ch; sw_frame_sample_size := ch * bs; sw_bytes_per_sample := nb |} in
  rmap cw_enc (channel_write enc_block p wc chans) = rmap sw_enc (sample_write enc_block p ws (concat (multizip chans))).
Proof.
  intros Hch Hbs Hsi Lc U wc ws.
  set (n := N.to_nat ch) in *. set (k := N.to_nat bs).
  assert (Hn : (1 <= n)%nat) by (unfold n; lia). assert (Hk : (1 <= k)%nat) by (unfold k; lia).
  assert (Hne : chans <> []) by (intros ->; cbn in Lc; lia).
  unfold channel_write, sample_write. cbn [wc ws cw_enc cw_bufs cw_channels cw_frame_sample_size cw_bytes_per_sample
                                           sw_buf sw_frame_sample_size sw_enc sw_channels sw_bytes_per_sample app].
  destruct chans as [|first rest0] eqn:Ech; [congruence|]. rewrite <- Ech in *.
  rewrite Lc, Hsi. unfold n at 1. rewrite N2Nat.id, N.eqb_refl.
  assert (Hex : existsb (fun c : list Z => negb (length c =? length first)%nat) rest0 = false).
  { rewrite Ech in U. apply Forall_cons_iff in U. destruct U as [A B].
    destruct (existsb _ rest0) eqn:Ex; [|reflexivity]. apply existsb_exists in Ex. destruct Ex as (c & Hc & Hl).
    rewrite Forall_forall in B. rewrite (B c Hc), A, Nat.eqb_refl in Hl. discriminate. }
  rewrite Hex.
  assert (Ezn : zip_app (repeat [] n) chans = chans).
  { rewrite zip_app_nils; [reflexivity| |rewrite repeat_length; lia]. apply Forall_forall. intros x Hx. apply repeat_spec in Hx. subst x. reflexivity. }
  rewrite Ezn.
  destruct (N.eqb_spec bs 0); [lia|]. destruct (N.eqb_spec (ch * bs) 0); [nia|].
  fold k. set (ks := N.to_nat (ch * bs)). assert (Hks : ks = (n * k)%nat) by (unfold ks, n, k; rewrite N2Nat.inj_mul; reflexivity).
  destruct (cdrain k chans) as [blocks rest] eqn:Ed.
  destruct (cdrain_spec k ltac:(lia) chans blocks rest Hne Ed) as (Est & Fsh & Lrest & Hshort). rewrite Lc in Fsh, Lrest.
  (* rest is uniform of length r < k, and m = k * #blocks + r *)
  assert (Hr : exists r, Forall (fun c => length c = r) rest /\ (r < k)%nat /\ m = (k * length blocks + r)%nat).
  { assert (G : forall bl rs mm, Forall (shaped k n) bl -> length rs = n -> Forall (fun c => length c = mm) (stack bl rs) ->
              Forall (fun c => length c = (mm - k * length bl)%nat) rs /\ (k * length bl <= mm)%nat).
    { clear - Hn. induction bl as [|b bl IH]; intros rs mm F Lr Us; cbn [stack fold_right length] in *.
      - rewrite Nat.mul_0_r, Nat.sub_0_r. split; [exact Us|lia].
      - fold (stack bl rs) in Us. apply Forall_cons_iff in F. destruct F as [[Lb Fb] F].
        assert (Ls : length (stack bl rs) = n) by (apply stack_length; [eapply shaped_len; eauto|exact Lr]).
        assert (Hsplit : Forall (fun c => length c = (mm - k)%nat) (stack bl rs) /\ (k <= mm)%nat).
        { apply (zip_app_uniform_split b (stack bl rs) k mm); [lia|intros ->; cbn in Lb; lia|exact Fb|exact Us]. }
        destruct Hsplit as [U' Hle]. destruct (IH rs (mm - k)%nat F Lr U') as [A B].
        split; [|lia]. eapply Forall_impl; [|exact A]. intros c Hc. cbn beta in Hc. rewrite Hc. lia. }
    rewrite Est in U. destruct (G blocks rest m Fsh Lrest U) as [A B].
    exists (m - k * length blocks)%nat. split; [exact A|]. split; [|clear - B; unfold block in *; lia].
    unfold has_short in Hshort. apply existsb_exists in Hshort. destruct Hshort as (c & Hc & Hl). apply Nat.ltb_lt in Hl.
    rewrite Forall_forall in A. rewrite (A c Hc) in Hl. exact Hl. }
  destruct Hr as (r & Urest & Hrk & Hm). unfold block in *.
  (* the interleaved samples: the blocks' PCM frames, then the rest's *)
  assert (Eint : concat (multizip chans) = concat (map (fun b => concat (multizip b)) blocks) ++ concat (multizip_fuel r rest)).
  { rewrite (multizip_uniform chans m Hne U), Hm. rewrite Est at 1.
    rewrite (interleave_stack k n Hn blocks rest r Fsh Lrest Urest), concat_app. f_equal.
    rewrite concat_concat_map. f_equal. apply map_ext_in. intros b Hb. rewrite Forall_forall in Fsh. destruct (Fsh b Hb) as [Lb Fb].
    rewrite (multizip_uniform b k); [reflexivity|intros ->; cbn in Lb; lia|exact Fb]. }
  assert (Hrest_ne : rest <> []) by (intros ->; cbn in Lrest; lia).
  assert (Eir : concat (multizip_fuel r rest) = concat (multizip rest)) by (rewrite (multizip_uniform rest r Hrest_ne Urest); reflexivity).
  (* lengths *)
  assert (Lblk : Forall (fun x => length x = ks) (map (fun b => concat (multizip b)) blocks)).
  { apply Forall_forall. intros x Hx. apply in_map_iff in Hx. destruct Hx as (b & <- & Hb). rewrite Forall_forall in Fsh. destruct (Fsh b Hb) as [Lb Fb].
    assert (Hbne : b <> []) by (intros ->; cbn in Lb; lia).
    rewrite (multizip_uniform b k Hbne Fb). destruct (channels_of_multizip_fuel k b Hbne Fb) as (_ & Fl & Lm).
    rewrite (concat_length_uniform (length b)) by exact Fl. rewrite Lm, Lb, Hks. lia. }
  assert (Lir : length (concat (multizip_fuel r rest)) = (n * r)%nat).
  { destruct (channels_of_multizip_fuel r rest Hrest_ne Urest) as (_ & Fl & Lm).
    rewrite (concat_length_uniform (length rest)) by exact Fl. rewrite Lm, Lrest. lia. }
  assert (Eds : drain ks (concat (multizip chans)) = (map (fun b => concat (multizip b)) blocks, concat (multizip_fuel r rest))).
  { rewrite Eint. apply drain_unique; [nia|exact Lblk|rewrite Lir, Hks; nia]. }
  rewrite Eds.
  pose proof (fold_channels_as_samples enc_block p ch nb k Hch Hk blocks e0 Fsh) as Ef. unfold block in Ef. rewrite Ef. clear Ef.
  destruct (fold_res (sample_encode_chunk enc_block p ch nb) e0 (map (fun b => concat (multizip b)) blocks)) as [e1| |]; reflexivity.
Qed.

End CrossChannelWrites.
