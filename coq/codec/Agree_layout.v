(* Codec/Agree_layout.v — the decoder's partition derivation (rchunks of the residual slice,
   decode.rs read_block) yields exactly the RFC partition lengths on valid residual headers. *)
From FlacCodec Require Import Dec Spec.
Open Scope N_scope.

Lemma map_seq_const {A} (f : nat -> A) (b : A) : forall m s, (forall i, (s <= i)%nat -> f i = b) ->
  map f (seq s m) = repeat b m.
Proof.
  induction m as [|m IH]; intros s H; cbn [seq map repeat]; [reflexivity|].
  rewrite H by lia. f_equal. apply IH. intros i Hi. apply H. lia.
Qed.

Lemma map_Some_inj {A} : forall (a b : list A), map Some a = map Some b -> a = b.
Proof.
  induction a as [|x a IH]; intros [|y b] H; cbn in H; try discriminate; auto.
  injection H as H1 H2. subst. f_equal. auto.
Qed.

Lemma layout_agree bs order po lens :
  bs mod 2 ^ po = 0 -> order < bs / 2 ^ po ->
  struct_part_lens bs order po = map Some lens ->
  let n := N.to_nat bs in let on := N.to_nat order in let count := (2 ^ N.to_nat po)%nat in
  (n mod count = 0)%nat /\ rchunk_lens (n - on) (n / count) = lens /\ length lens = count.
Proof.
  intros Hdiv Hord Hl n on count.
  assert (Hc0 : 2 ^ po <> 0) by (apply N.pow_nonzero; discriminate).
  set (size := bs / 2 ^ po) in *.
  assert (Ebs : bs = 2 ^ po * size).
  { apply N.div_exact in Hdiv; auto. }
  assert (Ecount : N.to_nat (2 ^ po) = count).
  { unfold count. rewrite N2Nat.inj_pow. reflexivity. }
  set (k := N.to_nat size).
  assert (En : n = (k * count)%nat).
  { unfold n, k. rewrite Ebs, N2Nat.inj_mul, Ecount. lia. }
  assert (Hk : (on < k)%nat) by (unfold on, k; lia).
  assert (Hcount : (1 <= count)%nat).
  { unfold count. pose proof (Nat.pow_nonzero 2 (N.to_nat po) ltac:(lia)). lia. }
  unfold struct_part_lens in Hl. fold size in Hl. rewrite Ecount in Hl.
  destruct count as [|c] eqn:Ec; [lia|].
  cbn [seq map] in Hl. rewrite Nat.eqb_refl in Hl.
  destruct (N.ltb_spec order size) as [_|]; [|lia].
  rewrite (map_seq_const _ (Some k)) in Hl.
  2:{ intros i Hi. destruct (Nat.eqb_spec i 0); [lia|]. destruct (N.ltb_spec 0 size); [reflexivity|lia]. }
  replace (N.to_nat (size - order)) with (k - on)%nat in Hl by (unfold k, on; lia).
  assert (Elens : lens = (k - on)%nat :: repeat k c).
  { apply map_Some_inj. rewrite <- Hl. cbn [map]. f_equal. clear. induction c; cbn; congruence. }
  split; [rewrite En; apply Nat.mod_mul; lia|]. split.
  - rewrite Elens. rewrite En. rewrite Nat.div_mul by lia.
    unfold rchunk_lens.
    destruct (Nat.eq_dec on 0) as [E0|N0].
    + rewrite E0, !Nat.sub_0_r. rewrite (Nat.mul_comm k (S c)). rewrite Nat.mod_mul by lia. cbn [Nat.eqb app].
      rewrite Nat.div_mul by lia. reflexivity.
    + assert (Em : ((k * S c - on) mod k = k - on)%nat).
      { symmetry. apply (Nat.mod_unique _ k c); [lia|nia]. }
      assert (Ed : ((k * S c - on) / k = c)%nat).
      { symmetry. apply (Nat.div_unique _ k c (k - on)); [lia|nia]. }
      rewrite Em, Ed. destruct (Nat.eqb_spec (k - on) 0); [lia|]. reflexivity.
  - rewrite Elens. cbn [length]. rewrite repeat_length. reflexivity.
Qed.
