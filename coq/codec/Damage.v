(* Codec/Damage.v — C05 at frame level: a single flipped bit inside a frame is never decoded as a
   frame of the same length; whatever the flip does to the header or the subframes, the CRC-16 over
   the same byte range rejects it (Crc.crc16_valid_single_bit_detected). *)
From FlacCodec Require Import Parser_proofs Dec.
From FlacBase Require Import Crc.
Open Scope N_scope.

Lemma dec_frame_ok_inv si chk bytes h c rest :
  dec_frame si chk bytes = Ok (h, c, rest) ->
  exists n, (n <= length bytes)%nat /\ rest = skipn n bytes /\ crc16 (firstn n bytes) = 0.
Proof.
  unfold dec_frame. intros H.
  destruct (parse_header_fields si (bits_of_bytes bytes)) as [[h0 s1]| |]; try discriminate.
  destruct (match si with Some i => header_checks i h0 | None => Ok h0 end) as [h1| |]; try discriminate.
  cbn [bind] in H. destruct (negb _); [discriminate|].
  destruct (chk h1); try discriminate. cbn [bind] in H.
  match type of H with match ?x with _ => _ end = _ => destruct x as [[ch s2]| |] end; try discriminate.
  destruct (crc16 (firstn (consumed_bytes bytes s2) bytes) =? 0) eqn:E; [|discriminate].
  inversion H; subst. exists (consumed_bytes bytes s2). split; [unfold consumed_bytes; lia|].
  split; [reflexivity|]. apply N.eqb_eq. exact E.
Qed.

Lemma xorl_firstn (a b : list N) n : firstn n (xorl a b) = xorl (firstn n a) (firstn n b).
Proof.
  revert a b. induction n as [|n IH]; intros a b; [reflexivity|].
  destruct a as [|x a]; [reflexivity|]. destruct b as [|y b].
  - cbn. reflexivity.
  - cbn [xorl firstn]. f_equal. apply IH.
Qed.

Lemma firstn_repeat {A} (x : A) n m : firstn n (repeat x m) = repeat x (Nat.min n m).
Proof. revert m. induction n as [|n IH]; intros [|m]; cbn; try reflexivity. f_equal. apply IH. Qed.

Lemma epat_firstn len n i k : (i < n)%nat -> (n <= len)%nat ->
  firstn n (epat len i k) = epat n i k.
Proof.
  intros Hi Hn. unfold epat.
  rewrite firstn_app, repeat_length, firstn_repeat. replace (Nat.min n i) with i by lia. f_equal.
  replace (n - i)%nat with (S (n - i - 1)) by lia. cbn [app firstn]. f_equal.
  rewrite firstn_repeat. f_equal. lia.
Qed.

Lemma flip_bit_firstn (m : list N) n i k : (i < n)%nat -> (n <= length m)%nat ->
  firstn n (flip_bit m i k) = flip_bit (firstn n m) i k.
Proof.
  intros Hi Hn. unfold flip_bit. rewrite xorl_firstn. rewrite epat_firstn by assumption.
  rewrite firstn_length. replace (Nat.min n (length m)) with n by lia. reflexivity.
Qed.

Lemma xorl_length : forall a b, length a = length b -> length (xorl a b) = length a.
Proof. induction a as [|x a IH]; intros [|y b] H; cbn in *; try lia. rewrite IH; lia. Qed.

Lemma flip_bit_length m i k : (i < length m)%nat -> length (flip_bit m i k) = length m.
Proof. intros H. unfold flip_bit. apply xorl_length. symmetry. apply (epat_length 1); [reflexivity|exact H]. Qed.

Definition flip16 := flip_bit.

Theorem flipped_frame_not_same_length si chk bytes h c rest i k h' c' rest' :
  Forall byte bytes ->
  dec_frame si chk bytes = Ok (h, c, rest) ->
  (i < length bytes - length rest)%nat -> k < 8 ->
  dec_frame si chk (flip16 bytes i k) = Ok (h', c', rest') ->
  length rest' <> length rest.
Proof.
  intros Hb H Hi Hk H' E.
  apply dec_frame_ok_inv in H. destruct H as (n & Hn & -> & Hc).
  apply dec_frame_ok_inv in H'. destruct H' as (n' & Hn' & -> & Hc').
  assert (Li : (i < length bytes)%nat) by (rewrite skipn_length in Hi; lia).
  unfold flip16 in *. rewrite flip_bit_length in Hn' by exact Li.
  rewrite !skipn_length in E. rewrite flip_bit_length in E by exact Li.
  rewrite skipn_length in Hi.
  assert (n' = n) by lia. subst n'.
  rewrite flip_bit_firstn in Hc' by lia.
  revert Hc'. apply crc16_valid_single_bit_detected; auto.
  - rewrite <- (firstn_skipn n bytes) in Hb. apply Forall_app in Hb. tauto.
  - rewrite firstn_length. lia.
Qed.
