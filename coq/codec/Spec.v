(* Codec/Spec.v — RFC 9639 validity of a syntax tree beyond what the round trip needs, and the
   strict reference decoder  spec_decode = parse ; check wf ; check valid ; semantics. *)
From FlacCodec Require Export Wf Stream.
Open Scope N_scope.

(* residual coding: the block size must be evenly divisible by the number of partitions, and
   (block size >> partition order) must be larger than the predictor order; no residual may be the
   most negative 32-bit value *)
Definition spec_residual (block_size order : N) (r : residual) : bool :=
  let po := N.log2 (N.of_nat (length (r_parts r))) in
  (block_size mod 2 ^ po =? 0) && (order <? block_size / 2 ^ po) &&
  forallb (fun z => negb (z =? - 2 ^ 31)%Z) (residual_values r).

(* every sample the subframe stands for fits its effective bit depth *)
Definition spec_subframe (block_size bps : N) (sf : subframe) : bool :=
  forallb (fits (bps - sf_wasted sf)) (sem_body block_size (sf_body sf)) &&
  match sf_body sf with
  | BFixed o _ r => spec_residual block_size o r
  | BLpc o _ _ _ _ r => spec_residual block_size o r
  | _ => true
  end.

Fixpoint spec_subframes (h : header) (i : nat) (subs : list subframe) : bool :=
  match subs with
  | [] => true
  | sf :: rest => spec_subframe (h_bs h) (subframe_bps (h_assign h) (h_bps h) i) sf && spec_subframes h (S i) rest
  end.

(* the reconstructed channels fit the stream's bit depth; frame header reserved bit etc. are
   syntactic and already fixed by the writer *)
Definition spec_frame (f : frame) : bool :=
  spec_subframes (f_hdr f) 0 (f_subs f) &&
  forallb (forallb (fits (h_bps (f_hdr f)))) (sem_frame f) &&
  (1 <=? h_bps (f_hdr f)) && (h_bps (f_hdr f) <=? 32).

Definition spec_decode (si : option streaminfo) (bytes : list N) : res (list (list Z) * list N) :=
  '(f, rest) <- struct_frame si bytes ;;
  if wf_frame si f && spec_frame f then Ok (sem_frame f, rest) else Err EOther.

(* ---- whole streams: the strict stream-level validator used for C02 ----
   fLaC tag and STREAMINFO first (read_metadata_min), then frames until the bytes run out; each frame
   must parse (valid CRCs, header consistent with STREAMINFO), be well-formed and RFC-valid, re-serialise
   to the very bytes it was parsed from (zero padding, minimal number coding), use the fixed-blocksize
   strategy with frame numbers 0,1,2,..., and every frame but the last must have the advertised block
   size; the total must match STREAMINFO when it is known. *)
Fixpoint spec_frames (fuel : nat) (si : streaminfo) (number : N) (bytes : list N) (acc : list (list (list Z)))
  : res (list (list (list Z))) :=
  match fuel with
  | O => Err EOther
  | S fu =>
    match bytes with
    | [] => Ok (rev acc)
    | _ =>
      '(f, rest) <- struct_frame (Some si) bytes ;;
      let h := f_hdr f in
      if negb (wf_frame (Some si) f && spec_frame f) then Err EOther
      else if negb (match write_frame f with
                    | Some b => (length b + length rest =? length bytes)%nat &&
                                forallb (fun p => fst p =? snd p) (combine b bytes)
                    | None => false end) then Err EOther
      else if h_variable h then Err EOther
      else if negb (h_number h =? number) then Err EFrameNumber
      else if negb ((h_bs h =? si_max_bs si) || match rest with [] => h_bs h <=? si_max_bs si | _ => false end) then Err EBlockSize
      (* RFC 9639: a block of fewer than 16 samples is only allowed as the last one *)
      else if negb ((16 <=? h_bs h) || match rest with [] => true | _ => false end) then Err EBlockSize
      else spec_frames fu si (number + 1) rest (sem_frame f :: acc)
    end
  end.

Definition spec_stream (file : list N) : res (streaminfo * list (list (list Z))) :=
  match read_metadata_min file with
  | None => Err EOther
  | Some (si, audio) =>
      frames <- spec_frames (S (length audio)) si 0 audio [] ;;
      let total := fold_left (fun a fr => a + match fr with c :: _ => N.of_nat (length c) | [] => 0 end) frames 0 in
      if negb ((16 <=? si_min_bs si) && (si_min_bs si <=? si_max_bs si)) then Err EBlockSize
      else if (si_total si =? 0) || (si_total si =? total) then Ok (si, frames) else Err ETooManySamples
  end.
