(* Property C15 — writer APIs validate their parameters and honour the declared length contract. *)
From FlacWriters Require Import Writers Lists_proofs Params_proofs Params_sweeps Finalize_proofs Encoder_proofs
     Seek_proofs Finish_proofs Newok_proofs Run_proofs Cases.
Open Scope N_scope.

(* option setters: never Panic, Ok exactly on the documented range, Err outside *)
Theorem C15_options_block_size : forall o v,
  is_ok (options_block_size o v) = (16 <=? v) /\ is_err (options_block_size o v) = negb (16 <=? v).
Proof. exact options_block_size_spec. Qed.
Theorem C15_options_max_lpc_order : forall o v,
  is_ok (options_max_lpc_order o v) = documented_lpc v /\
  is_err (options_max_lpc_order o v) = negb (documented_lpc v).
Proof. exact options_max_lpc_order_spec. Qed.
Theorem C15_options_max_partition_order : forall o v,
  is_ok (options_max_partition_order o v) = (v <=? 15) /\
  is_err (options_max_partition_order o v) = negb (v <=? 15).
Proof. exact options_max_partition_order_spec. Qed.
Theorem C15_options_padding : forall o v,
  is_ok (options_padding o v) = (v <? 2 ^ 24) /\ is_err (options_padding o v) = negb (v <? 2 ^ 24).
Proof. exact options_padding_spec. Qed.

(* constructor argument checks of all three writers, every value of every argument *)
Theorem C15_new_validate : forall k rate bps ch total,
  is_ok (new_validate k rate bps ch total) = documented_args k rate bps ch total /\
  is_err (new_validate k rate bps ch total) = negb (documented_args k rate bps ch total).
Proof. exact new_validate_spec. Qed.

(* complete enumerations inside Coq *)
Theorem C15_sweep_block_size : sweep_block_size = true. Proof. exact sweep_block_size_ok. Qed.
Theorem C15_sweep_lpc : sweep_lpc = true. Proof. exact sweep_lpc_ok. Qed.
Theorem C15_sweep_po : sweep_po = true. Proof. exact sweep_po_ok. Qed.
Theorem C15_sweep_new : sweep_new = true. Proof. exact sweep_new_ok. Qed.
Theorem C15_sweep_partitions : sweep_partitions = true. Proof. exact sweep_partitions_ok. Qed.

(* The constructors themselves, for every Options value the public API can build (options_wf:
   block size 16..65535, seek interval 1..255 s or >= 1 frames, user blocks that fit a block):
   never Panic, Ok exactly on the documented argument set, Err outside it. *)
Theorem C15_new_sample : forall p prefix o rate bps ch total, options_wf o ->
  is_ok (sample_new p prefix o rate bps ch total) = documented_args WSample rate bps ch total /\
  is_err (sample_new p prefix o rate bps ch total) = negb (documented_args WSample rate bps ch total).
Proof. exact sample_new_spec. Qed.
Theorem C15_new_byte : forall p en prefix o rate bps ch total, options_wf o ->
  is_ok (byte_new p en prefix o rate bps ch total) = documented_args WByte rate bps ch total /\
  is_err (byte_new p en prefix o rate bps ch total) = negb (documented_args WByte rate bps ch total).
Proof. exact byte_new_spec. Qed.
Theorem C15_new_channel : forall p prefix o rate bps ch total, options_wf o ->
  is_ok (channel_new p prefix o rate bps ch total) = documented_args WChannel rate bps ch total /\
  is_err (channel_new p prefix o rate bps ch total) = negb (documented_args WChannel rate bps ch total).
Proof. exact channel_new_spec. Qed.

(* options_wf is what the setters produce from the presets *)
Theorem C15_options_wf_presets : options_wf options_default /\ options_wf options_fast /\ options_wf options_best.
Proof. exact (conj options_default_wf (conj options_fast_wf options_best_wf)). Qed.
Theorem C15_options_wf_setters : forall o, options_wf o ->
  (forall v o', v < 65536 -> options_block_size o v = Ok o' -> options_wf o') /\
  (forall v o', options_max_lpc_order o v = Ok o' -> options_wf o') /\
  (forall v o', options_max_partition_order o v = Ok o' -> options_wf o') /\
  (forall v o', options_padding o v = Ok o' -> options_wf o') /\
  options_wf (options_no_padding o) /\
  (forall s, s < 256 -> options_wf (options_seektable_seconds o s)) /\
  (forall n, options_wf (options_seektable_frames o n)) /\
  options_wf (options_no_seektable o).
Proof.
  intros o H.
  refine (conj _ (conj _ (conj _ (conj _ (conj _ (conj _ (conj _ _))))))); intros.
  - eapply options_block_size_wf; eauto.
  - eapply options_max_lpc_order_wf; eauto.
  - eapply options_max_partition_order_wf; eauto.
  - eapply options_padding_wf; eauto.
  - apply options_no_padding_wf; auto.
  - apply options_seektable_seconds_wf; auto.
  - apply options_seektable_frames_wf; auto.
  - apply options_no_seektable_wf; auto.
Qed.

(* the two capacity guards of the codec core that depend on option values hold for every
   documented value (the partition-list guard additionally by the complete sweep above) *)
Theorem C15_lpc_guard : forall p lpc len, 1 <= lpc <= 32 -> autocorrelate_guard p lpc len = Ok tt.
Proof. exact autocorrelate_guard_ok. Qed.
Theorem C15_partition_guard : forall bs res o, 1 <= bs -> res <= bs -> o <= 6 -> 2 ^ o <= bs ->
  bs mod 2 ^ o = 0 -> exists n, partitions_at bs res o = Ok n /\ n <= 64.
Proof. exact partitions_at_le. Qed.

(* Declared-length contract (FlacSampleWriter), soundness: a successful run wrote exactly the
   declared number of PCM frames — so over- and under-filling are both reported as an error (or,
   in a debug build only, as the overflow of a 2^64 counter) — and STREAMINFO records the count of
   whole PCM frames, which lies in 1..2^36-1, whether or not a total was declared. *)
Theorem C15_length_contract_sample :
  forall enc_block md5 p prefix o rate bps ch total w chunks f,
    (forall l, length (md5 l) = 16%nat) ->
    options_wf o -> sample_new p prefix o rate bps ch total = Ok w ->
    sample_run enc_block md5 p w chunks = Ok f -> counters_fit (f_enc f) ->
    exists cs r, drain (N.to_nat (ch * o_block_size o)) (concat chunks) = (cs, r) /\
      let written := o_block_size o * N.of_nat (length cs) + N.of_nat (length r) / ch in
      si_total (f_si f) = Some written /\ 1 <= written < MAX_SAMPLES /\
      match total with Some t => t = ch * written | None => True end.
Proof. intros. eapply sample_contract; eauto. Qed.

(* what finalize does with the count, for any front-end (the Encoder): on a well-formed encoder
   it never panics, succeeds exactly when the count is acceptable, fails otherwise *)
Theorem C15_finalize_contract : forall md5 p e,
  (forall l, length (md5 l) = 16%nat) ->
  enc_inv e -> enc_static e -> frames_nonempty e ->
  match si_total (e_si e) with
  | Some t => if t =? e_samples_written e then is_ok (encoder_finalize md5 p e) = true
              else is_err (encoder_finalize md5 p e) = true
  | None => if (1 <=? e_samples_written e) && (e_samples_written e <? MAX_SAMPLES)
            then is_ok (encoder_finalize md5 p e) = true
            else is_err (encoder_finalize md5 p e) = true
  end.
Proof.
  intros md5 p e Hm I S Fn. pose proof (encoder_finalize_spec md5 Hm p e I S Fn) as Sp.
  unfold finalize_total in Sp. destruct (si_total (e_si e)) as [t|].
  - destruct (t =? e_samples_written e).
    + destruct Sp as (f & sel & -> & _). reflexivity.
    + rewrite Sp. reflexivity.
  - destruct (N.ltb_spec (e_samples_written e) MAX_SAMPLES).
    + destruct (N.eqb_spec (e_samples_written e) 0) as [E|E].
      * rewrite E. cbn. rewrite Sp. reflexivity.
      * destruct (N.leb_spec 1 (e_samples_written e)); [|lia]. cbn. destruct Sp as (f & sel & -> & _). reflexivity.
    + rewrite andb_false_r. rewrite Sp. reflexivity.
Qed.

(* the over-fill check of Encoder::encode: a frame that would take the count past the declared
   total is refused before anything is written *)
Theorem C15_overfill_refused : forall enc_block p e b t,
  si_total (e_si e) = Some t -> e_samples_written e + block_len b < 2 ^ 64 ->
  block_len b <= si_max_bs (e_si e) ->
  t < e_samples_written e + block_len b ->
  encoder_encode enc_block p e b = Err EExcessiveTotalSamples.
Proof.
  intros enc_block p e b t Ht Hfit Hbs Hover. unfold encoder_encode, u64_add.
  destruct (N.ltb_spec (si_max_bs (e_si e)) (block_len b)); [lia|].
  destruct (N.ltb_spec (e_samples_written e + block_len b) (2 ^ 64)); [|lia]. cbn [bind].
  rewrite Ht. destruct (N.ltb_spec t (e_samples_written e + block_len b)); [reflexivity|lia].
Qed.

(* non-vacuity: a declared total that is over-, under- and exactly filled *)
Example C15_contract_nonvacuous :
  let o := match options_block_size options_default 16 with Ok o => o | _ => options_default end in
  fst (run_c15 Release KS (Ok o) 44100 16 2 (Some 80) [80]) = [0; 0; 0; 0] /\      (* exact: all Ok *)
  fst (run_c15 Release KS (Ok o) 44100 16 2 (Some 80) [78]) = [0; 0; 0; 1] /\      (* under: Err at finalize *)
  fst (run_c15 Release KS (Ok o) 44100 16 2 (Some 80) [64; 34]) = [0; 0; 0; 1] /\  (* over: reported *)
  fst (run_c15 Release KS (Ok o) 44100 16 2 (Some 32) [64]) = [0; 0; 1] /\         (* over at the write that crosses *)
  snd (run_c15 Release KS (Ok o) 44100 16 2 None [78]) = Some 39.                  (* undeclared: recorded *)
Proof. vm_compute. repeat split; reflexivity. Qed.
