(* writers/Writers_proofs.v — C08: chunking invariance of the three writer front-ends. *)
From FlacWriters Require Import Writers Lists_proofs.
Open Scope nat_scope.

(* two drains in sequence over a carried remainder = one drain over the concatenation *)
Lemma drain_fold_compose {A S R} (step : S -> list A -> res S) k (Hk : 0 < k)
      (buf c d : list A) (e : S) (K : S -> list A -> res R) :
  (let '(cs1, r1) := drain k (buf ++ c) in
   e1 <- fold_res step e cs1;;
   let '(cs2, r2) := drain k (r1 ++ d) in
   e2 <- fold_res step e1 cs2;; K e2 r2)
  = (let '(cs, r) := drain k (buf ++ c ++ d) in e' <- fold_res step e cs;; K e' r).
Proof.
  rewrite (app_assoc buf c d), (drain_app k Hk (buf ++ c) d).
  destruct (drain k (buf ++ c)) as [cs1 r1]. destruct (drain k (r1 ++ d)) as [cs2 r2].
  rewrite fold_res_app, bind_assoc. reflexivity.
Qed.

Section Proofs.
Variable enc_block : N -> block -> res (list N).
Variable md5 : list N -> list N.
Variable p : profile.

Notation sample_write := (sample_write enc_block p).
Notation sample_finalize := (sample_finalize enc_block md5 p).
Notation sample_run := (sample_run enc_block md5 p).
Notation byte_write := (byte_write enc_block p).
Notation byte_finalize := (byte_finalize enc_block md5 p).
Notation byte_run := (byte_run enc_block md5 p).
Notation channel_write := (channel_write enc_block p).
Notation channel_finalize := (channel_finalize enc_block md5 p).
Notation channel_run := (channel_run enc_block md5 p).

(* ================= sample writer ================= *)

(* invariant between calls: the buffer holds less than one FLAC frame of samples *)
Definition sw_wf (w : swriter) : Prop :=
  0 < N.to_nat (sw_frame_sample_size w) /\ length (sw_buf w) < N.to_nat (sw_frame_sample_size w).

Definition sw_set (w : swriter) (e : encoder) (r : list Z) : swriter :=
  {| sw_enc := e; sw_buf := r; sw_channels := sw_channels w;
     sw_frame_sample_size := sw_frame_sample_size w; sw_bytes_per_sample := sw_bytes_per_sample w |}.

Lemma sample_write_eq w c : 0 < N.to_nat (sw_frame_sample_size w) ->
  sample_write w c =
  (let '(cs, r) := drain (N.to_nat (sw_frame_sample_size w)) (sw_buf w ++ c) in
   e <- fold_res (sample_encode_chunk enc_block p (sw_channels w) (sw_bytes_per_sample w)) (sw_enc w) cs;;
   Ok (sw_set w e r)).
Proof.
  intros H. unfold Writers.sample_write.
  destruct (N.eqb_spec (sw_frame_sample_size w) 0) as [E|E]; [rewrite E in H; cbn in H; lia|].
  reflexivity.
Qed.

Lemma sample_write_wf w c w' : sw_wf w -> sample_write w c = Ok w' -> sw_wf w'.
Proof.
  intros [Hk Hb] H. rewrite sample_write_eq in H by exact Hk.
  destruct (drain _ (sw_buf w ++ c)) as [cs r] eqn:D.
  apply bind_ok in H. destruct H as (e & _ & H). inversion H; subst. unfold sw_wf, sw_set; cbn.
  apply drain_spec in D; auto. tauto.
Qed.

(* the writes of a chunk list are one write of the concatenation *)
Lemma sample_write_concat : forall chunks w, sw_wf w ->
  fold_res sample_write w chunks = sample_write w (concat chunks).
Proof.
  induction chunks as [|c chunks IH]; intros w Hw.
  - cbn [fold_res concat]. destruct Hw as [Hk Hb]. rewrite sample_write_eq by exact Hk.
    rewrite app_nil_r, drain_small by auto. cbn. destruct w; reflexivity.
  - cbn [fold_res concat].
    rewrite (bind_ext _ _ (fun w' => sample_write w' (concat chunks)))
      by (intros w' E; apply IH; eapply sample_write_wf; eauto).
    destruct Hw as [Hk Hb].
    rewrite (sample_write_eq w c), (sample_write_eq w (c ++ concat chunks)) by exact Hk.
    rewrite <- (drain_fold_compose _ _ Hk (sw_buf w) c (concat chunks) (sw_enc w)
                  (fun e r => Ok (sw_set w e r))).
    destruct (drain _ (sw_buf w ++ c)) as [cs1 r1]. rewrite bind_assoc.
    apply bind_ext. intros e1 _. cbn [bind].
    rewrite sample_write_eq by exact Hk. cbn [sw_set sw_buf sw_enc sw_frame_sample_size sw_channels sw_bytes_per_sample].
    reflexivity.
Qed.

Theorem sample_chunking w chunks : sw_wf w -> sample_run w chunks = sample_run w [concat chunks].
Proof.
  intros Hw. unfold Writers.sample_run. rewrite (sample_write_concat chunks w Hw).
  rewrite (sample_write_concat [concat chunks] w Hw). cbn [concat]. rewrite app_nil_r. reflexivity.
Qed.

(* ================= byte writer ================= *)

Definition bw_wf (w : bwriter) : Prop :=
  0 < N.to_nat (bw_frame_byte_size w) /\ length (bw_buf w) < N.to_nat (bw_frame_byte_size w).

Definition bw_set (w : bwriter) (e : encoder) (r : list N) : bwriter :=
  {| bw_enc := e; bw_buf := r; bw_endian := bw_endian w; bw_channels := bw_channels w;
     bw_bytes_per_sample := bw_bytes_per_sample w; bw_pcm_frame_size := bw_pcm_frame_size w;
     bw_frame_byte_size := bw_frame_byte_size w |}.

Lemma byte_write_eq w c : 0 < N.to_nat (bw_frame_byte_size w) ->
  byte_write w c =
  (let '(cs, r) := drain (N.to_nat (bw_frame_byte_size w)) (bw_buf w ++ c) in
   e <- fold_res (byte_encode_chunk enc_block p (bw_endian w) (bw_channels w) (bw_bytes_per_sample w)) (bw_enc w) cs;;
   Ok (bw_set w e r)).
Proof.
  intros H. unfold Writers.byte_write.
  destruct (N.eqb_spec (bw_frame_byte_size w) 0) as [E|E]; [rewrite E in H; cbn in H; lia|].
  reflexivity.
Qed.

Lemma byte_write_wf w c w' : bw_wf w -> byte_write w c = Ok w' -> bw_wf w'.
Proof.
  intros [Hk Hb] H. rewrite byte_write_eq in H by exact Hk.
  destruct (drain _ (bw_buf w ++ c)) as [cs r] eqn:D.
  apply bind_ok in H. destruct H as (e & _ & H). inversion H; subst. unfold bw_wf, bw_set; cbn.
  apply drain_spec in D; auto. tauto.
Qed.

Lemma byte_write_concat : forall chunks w, bw_wf w ->
  fold_res byte_write w chunks = byte_write w (concat chunks).
Proof.
  induction chunks as [|c chunks IH]; intros w Hw.
  - cbn [fold_res concat]. destruct Hw as [Hk Hb]. rewrite byte_write_eq by exact Hk.
    rewrite app_nil_r, drain_small by auto. cbn. destruct w; reflexivity.
  - cbn [fold_res concat].
    rewrite (bind_ext _ _ (fun w' => byte_write w' (concat chunks)))
      by (intros w' E; apply IH; eapply byte_write_wf; eauto).
    destruct Hw as [Hk Hb].
    rewrite (byte_write_eq w c), (byte_write_eq w (c ++ concat chunks)) by exact Hk.
    rewrite <- (drain_fold_compose _ _ Hk (bw_buf w) c (concat chunks) (bw_enc w)
                  (fun e r => Ok (bw_set w e r))).
    destruct (drain _ (bw_buf w ++ c)) as [cs1 r1]. rewrite bind_assoc.
    apply bind_ext. intros e1 _. cbn [bind].
    rewrite byte_write_eq by exact Hk.
    cbn [bw_set bw_buf bw_enc bw_frame_byte_size bw_channels bw_bytes_per_sample bw_endian bw_pcm_frame_size].
    reflexivity.
Qed.

Theorem byte_chunking w chunks : bw_wf w -> byte_run w chunks = byte_run w [concat chunks].
Proof.
  intros Hw. unfold Writers.byte_run. rewrite (byte_write_concat chunks w Hw).
  rewrite (byte_write_concat [concat chunks] w Hw). cbn [concat]. rewrite app_nil_r. reflexivity.
Qed.

End Proofs.
