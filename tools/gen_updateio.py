#!/usr/bin/env python3
"""Translator (data + anchors) for the `updateio` area: regenerate coq/updateio/GenUpd.v from
<repo>/src/metadata/mod.rs, src/encode.rs and src/lib.rs.

Data: BlockSize::MAX, BlockHeader::SIZE, FLAC_TAG, the block-type codes.
Anchors (normalised text compared with what the Coq model mirrors): grow_padding,
shrink_padding, BlockSize::checked_add/checked_sub, the three-way `match new_size.cmp(&old_size)`
of update_file, the serial `join`/`try_join`/`vec_map`, Counter::write.
A missing DATA item -> prints ANCHOR-LOST and exits 2 (broken tie).  Function-text anchors are soft: changed or
not found -> ANCHOR-CHANGED, exit 3 (a note in the evidence, never a violation)."""
import os
import re
import sys


def norm(s):
    s = re.sub(r"//[^\n]*", "", s)
    return re.sub(r"\s+", "", s)


sys.path.insert(0, os.path.dirname(os.path.abspath(__file__)))
from rustconst import const_in

SOURCES = []


def safe_eval(expr):
    v = const_in(expr, *SOURCES)
    if v is None:
        raise ValueError("unexpected constant expression: %r" % expr)
    return v


def fn_body(src, header_rx):
    """text of the brace-balanced body following the first match of header_rx"""
    m = re.search(header_rx, src)
    if not m:
        raise ValueError("not found: %s" % header_rx)
    i = src.index("{", m.end() - 1)
    depth = 0
    for j in range(i, len(src)):
        if src[j] == "{":
            depth += 1
        elif src[j] == "}":
            depth -= 1
            if depth == 0:
                return src[i:j + 1]
    raise ValueError("unbalanced body: %s" % header_rx)


EXPECT = {
    "grow_padding": "{letpadding=blocks.get_mut::<Padding>().ok_or(())?;padding.size=padding.size.checked_add(more_bytes.try_into().map_err(|_|())?).ok_or(())?;Ok(())}",
    "shrink_padding": "{letpadding=blocks.get_mut::<Padding>().ok_or(())?;padding.size=padding.size.checked_sub(fewer_bytes.try_into().map_err(|_|())?).ok_or(())?;Ok(())}",
    "checked_add": "{self.0.checked_add(rhs.0).filter(|s|*s<=Self::MAX).map(Self)}",
    "checked_sub": "{self.0.checked_sub(rhs.0).map(Self)}",
    "join_serial": "{(oper_a(),oper_b())}",
    "try_join": "{let(a,b)=join(oper_a,oper_b);Ok((a?,b?))}",
    "vec_map_serial": "{src.into_iter().map(f).collect()}",
    "vec_map_rayon": "{userayon::iter::{IntoParallelIterator,ParallelIterator};src.into_par_iter().map(f).collect()}",
    "get_mut": "{self.blocks.iter_mut().find_map(|b|B::try_from_opt_block_mut(b).ok())}",
    "update_file_decision": "ok",
    "rayon_join_import": "ok",
}


def extract(repo):
    md = open(os.path.join(repo, "src/metadata/mod.rs")).read()
    enc = open(os.path.join(repo, "src/encode.rs")).read()
    out, anchors = {}, {}
    SOURCES[:] = [md, enc]
    m = re.search(r"impl BlockSize \{.*?const MAX: u32 = ([^;]+);", md, re.S)
    if not m:
        raise ValueError("BlockSize::MAX not found")
    out["BLOCK_MAX"] = safe_eval(m.group(1))
    m = re.search(r"impl BlockHeader \{\s*const SIZE: BlockSize = BlockSize\(([^;]+)\);", md)
    if not m:
        raise ValueError("BlockHeader::SIZE not found")
    out["HEADER_SIZE"] = safe_eval(m.group(1))
    m = re.search(r'const FLAC_TAG: &\[u8; (\d+)\] = b"([^"]*)";', md)
    if not m:
        raise ValueError("FLAC_TAG not found")
    if int(m.group(1)) != len(m.group(2)):
        raise ValueError("FLAC_TAG length mismatch")
    out["FLAC_TAG"] = [ord(c) for c in m.group(2)]
    m = re.search(r"pub enum BlockType \{(.*?)\n\}", md, re.S)
    if not m:
        raise ValueError("enum BlockType not found")
    codes = dict((k, safe_eval(v)) for k, v in re.findall(r"(\w+) = ([^,\n]+),", m.group(1)))
    for k in ("Streaminfo", "Padding", "Application", "SeekTable", "VorbisComment", "Cuesheet", "Picture"):
        if k not in codes:
            raise ValueError("BlockType::%s not found" % k)
    out["codes"] = codes
    def anchor(name, src, rx):
        try:
            anchors[name] = norm(fn_body(src, rx))
        except ValueError as e:
            anchors[name] = "<not found: %s>" % e

    anchor("grow_padding", md, r"fn grow_padding\(blocks: &mut BlockList, more_bytes: u64\) -> Result<\(\), \(\)> \{")
    anchor("shrink_padding", md, r"fn shrink_padding\(blocks: &mut BlockList, fewer_bytes: u64\) -> Result<\(\), \(\)> \{")
    anchor("checked_add", md, r"pub fn checked_add\(self, rhs: Self\) -> Option<Self> \{")
    anchor("checked_sub", md, r"pub fn checked_sub\(self, rhs: Self\) -> Option<Self> \{")
    anchor("get_mut", md, r"pub fn get_mut<B: OptionalMetadataBlock>\(&mut self\) -> Option<&mut B> \{")
    # the decision of update_file (text anchors only: a change is a note, never a failure)
    try:
        uf = fn_body(md, r"pub fn update_file<F, N, E>\(")
    except ValueError:
        uf = ""
    missing = [needle for needle in ("match new_size.cmp(&old_size)", "Ordering::Less =>", "Ordering::Equal =>", "Ordering::Greater =>",
                                     "grow_padding(&mut blocks, old_size - new_size)", "shrink_padding(&mut blocks, new_size - old_size)",
                                     "write_blocks(&mut new_size, blocks.blocks())?") if needle not in uf]
    anchors["update_file_decision"] = "ok" if not missing else "missing: " + "; ".join(missing)
    out["update_file_flushes"] = len(re.findall(r"\.flush\(\)", uf))
    anchor("join_serial", enc, r'#\[cfg\(not\(feature = "rayon"\)\)\]\s*fn join<A, B, RA, RB>\(oper_a: A, oper_b: B\) -> \(RA, RB\)[^{]*\{')
    anchor("try_join", enc, r"fn try_join<A, B, RA, RB, E>\(oper_a: A, oper_b: B\) -> Result<\(RA, RB\), E>[^{]*\{")
    anchor("vec_map_serial", enc, r'#\[cfg\(not\(feature = "rayon"\)\)\]\s*fn vec_map<T, U, F>\(src: Vec<T>, f: F\) -> Vec<U>[^{]*\{')
    anchor("vec_map_rayon", enc, r'#\[cfg\(feature = "rayon"\)\]\s*fn vec_map<T, U, F>\(src: Vec<T>, f: F\) -> Vec<U>[^{]*\{')
    anchors["rayon_join_import"] = "ok" if re.search(r'#\[cfg\(feature = "rayon"\)\]\s*use rayon::join;', enc) else "missing"
    return out, anchors


def main():
    repo = sys.argv[1] if len(sys.argv) > 1 else "/repo"
    dst = sys.argv[2] if len(sys.argv) > 2 else "/verif/coq/updateio/GenUpd.v"
    try:
        d, anchors = extract(repo)
    except Exception as e:
        print("ANCHOR-LOST updateio: %s" % e)
        sys.exit(2)
    c = d["codes"]
    lines = ["(* GENERATED by tools/gen_updateio.py from src/metadata/mod.rs — do not edit *)",
             "From Coq Require Import NArith List.", "Import ListNotations.", "Open Scope N_scope.",
             "Definition BLOCK_MAX : N := %d.   (* BlockSize::MAX *)" % d["BLOCK_MAX"],
             "Definition HEADER_SIZE : N := %d. (* BlockHeader::SIZE *)" % d["HEADER_SIZE"],
             "Definition FLAC_TAG : list N := [%s]." % "; ".join(str(x) for x in d["FLAC_TAG"]),
             "Definition TY_STREAMINFO : N := %d." % c["Streaminfo"],
             "Definition TY_PADDING : N := %d." % c["Padding"],
             "Definition TY_APPLICATION : N := %d." % c["Application"],
             "Definition TY_SEEKTABLE : N := %d." % c["SeekTable"],
             "Definition TY_VORBISCOMMENT : N := %d." % c["VorbisComment"],
             "Definition TY_CUESHEET : N := %d." % c["Cuesheet"],
             "Definition TY_PICTURE : N := %d." % c["Picture"],
             ""]
    text = "\n".join(lines)
    old = open(dst).read() if os.path.exists(dst) else None
    if old != text:
        open(dst, "w").write(text)
    notes = []
    for k, v in anchors.items():
        if v != EXPECT[k]:
            notes.append("%s changed: %s" % (k, v[:300]))
    if notes:
        for n in notes:
            print("ANCHOR-CHANGED " + n)
        sys.exit(3)
    print("gen_updateio ok (update_file flush calls: %d)" % d["update_file_flushes"])


if __name__ == "__main__":
    main()
