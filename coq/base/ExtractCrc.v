(* Extraction of the CRC model for the correspondence driver (ExtrOcamlBasic only). *)
From Coq Require Extraction ExtrOcamlBasic.
From FlacBase Require Import Bits Crc.
Extraction Language OCaml.
Extraction "crc_model.ml" crc8 crc16 flip_bit.
