//! C20 harness — cue sheet text import reproduces the layout the text describes.
//!
//! Generates well-formed CD-DA cue sheets as an abstract syntax (1..99 tracks, optional
//! pre-gap INDEX 00, up to 100 index points per track, increasing MM:SS:FF positions with
//! minutes above 99, optional CATALOG / ISRC / FLAGS PRE), renders each in a random accepted
//! spelling (zero padding, quoting, dashes in the ISRC, order of FLAGS and ISRC, track type
//! word, skipped lines such as REM / FILE / TITLE anywhere, indentation, trailing blanks,
//! LF or CRLF), imports the text with Cuesheet::parse and compares EVERY field of the block
//! with what the syntax says; then exports the block with Display and imports that again.
//!
//! "case" lines carry text + syntax + spelling for the Coq model (ocaml/metadata_driver.ml):
//! the model checks that the text matches the syntax in the sense of the theorem's
//! hypothesis (cue_text_matches), parses it, and compares with block_of.
#[path = "metadata_inc/common.rs"]
mod common;
use common::*;

use flac_codec::metadata::Cuesheet;
use flac_codec::metadata::cuesheet::ISRC;
use std::collections::BTreeMap;
use vharness::json::{esc, obj};
use vharness::*;

#[derive(Clone, Debug)]
struct CIndex {
    num: u8,
    mm: u64,
    ss: u64,
    ff: u64,
}
impl CIndex {
    fn frames(&self) -> u64 {
        self.ff + 75 * self.ss + 4500 * self.mm
    }
}
#[derive(Clone, Debug)]
struct CTrack {
    num: u8,
    pre: bool,
    isrc: Option<String>,
    indices: Vec<CIndex>,
}
#[derive(Clone, Debug)]
struct Cue {
    catalog: Option<String>,
    tracks: Vec<CTrack>,
}
#[derive(Clone, Debug)]
struct Style {
    pad_track: bool,
    pad_index: bool,
    pad_time: bool,
    quote_catalog: bool,
    quote_isrc: bool,
    dash_isrc: bool,
    flags_first: bool,
    ttype: String,
}

fn profile() -> &'static str {
    if cfg!(debug_assertions) { "D" } else { "R" }
}

fn num(pad: bool, n: u64) -> String {
    if pad { format!("{:02}", n) } else { format!("{}", n) }
}

fn cue_lines(st: &Style, c: &Cue) -> Vec<String> {
    let mut v = vec![];
    if let Some(d) = &c.catalog {
        v.push(if st.quote_catalog { format!("CATALOG \"{}\"", d) } else { format!("CATALOG {}", d) });
    }
    for t in &c.tracks {
        v.push(format!("TRACK {} {}", num(st.pad_track, t.num as u64), st.ttype));
        let fl = if t.pre { vec!["FLAGS PRE".to_string()] } else { vec![] };
        let il = match &t.isrc {
            Some(s) => {
                let body = if st.dash_isrc { format!("{}-{}-{}-{}", &s[0..2], &s[2..5], &s[5..7], &s[7..12]) } else { s.clone() };
                vec![if st.quote_isrc { format!("ISRC \"{}\"", body) } else { format!("ISRC {}", body) }]
            }
            None => vec![],
        };
        if st.flags_first {
            v.extend(fl);
            v.extend(il);
        } else {
            v.extend(il);
            v.extend(fl);
        }
        for i in &t.indices {
            v.push(format!(
                "INDEX {} {}:{}:{}",
                num(st.pad_index, i.num as u64),
                num(st.pad_time, i.mm),
                num(st.pad_time, i.ss),
                num(st.pad_time, i.ff)
            ));
        }
    }
    v
}

const JUNK: &[&str] = &[
    "REM GENRE Rock",
    "REM",
    "FILE \"disc image.wav\" WAVE",
    "TITLE \"An Album\"",
    "PERFORMER \"Some One\"",
    "SONGWRITER x",
    "",
    "FLAGS DCP",
    "FLAGS PRE DCP",
    "PREGAP 00:02:00",
    "INDEXX 01 00:00:00",
    "track 01 audio",
    "CDTEXTFILE a.cdt",
];
const WS: &[&str] = &[" ", "  ", "\t", "    ", "", "", "", "\u{a0}", "\u{2003}", "\r", "\u{b}", " \t "];

fn gen_cue(rng: &mut Rng, shape: u64) -> (Cue, u64) {
    let nt: usize = match shape % 6 {
        0 => 1,
        1 => 99,
        2 => 2,
        _ => 1 + rng.below(12) as usize,
    };
    let long_disc = rng.chance(1, 4);
    let mut tracks = vec![];
    let mut frames: u64 = 0;
    let mut first = true;
    for k in 0..nt {
        let ni: usize = match rng.below(10) {
            0 => 100,
            1 => 99,
            2 | 3 => 1,
            4 | 5 => 2,
            _ => 1 + rng.below(5) as usize,
        };
        let pregap = ni >= 2 && rng.chance(1, 2);
        let mut indices = vec![];
        let mut n: u8 = if pregap { 0 } else { 1 };
        for _ in 0..ni {
            if !first {
                let step = if long_disc { 1 + rng.below(500000) } else { 1 + rng.below(6000) };
                frames += if rng.chance(1, 6) { 1 } else { step };
            }
            first = false;
            indices.push(CIndex { num: n, mm: frames / 4500, ss: (frames / 75) % 60, ff: frames % 75 });
            n += 1;
        }
        let isrc = if rng.chance(1, 3) {
            let mut s = String::new();
            for _ in 0..2 {
                s.push((if rng.chance(1, 2) { b'A' } else { b'a' } + rng.below(26) as u8) as char);
            }
            for _ in 0..3 {
                s.push(match rng.below(3) {
                    0 => (b'0' + rng.below(10) as u8) as char,
                    1 => (b'A' + rng.below(26) as u8) as char,
                    _ => (b'a' + rng.below(26) as u8) as char,
                });
            }
            for _ in 0..7 {
                s.push((b'0' + rng.below(10) as u8) as char);
            }
            Some(s)
        } else {
            None
        };
        tracks.push(CTrack { num: (k + 1) as u8, pre: rng.chance(1, 3), isrc, indices });
    }
    let catalog = if rng.chance(1, 2) { Some((0..13).map(|_| (b'0' + rng.below(10) as u8) as char).collect()) } else { None };
    let total_frames = frames + 1 + if rng.chance(1, 5) { 0 } else { rng.below(20000) };
    (Cue { catalog, tracks }, total_frames * 588)
}

fn gen_style(rng: &mut Rng) -> Style {
    Style {
        pad_track: rng.chance(3, 4),
        pad_index: rng.chance(3, 4),
        pad_time: rng.chance(3, 4),
        quote_catalog: rng.chance(1, 3),
        quote_isrc: rng.chance(1, 3),
        dash_isrc: rng.chance(1, 3),
        flags_first: rng.chance(1, 2),
        ttype: rng.pick(&["AUDIO", "AUDIO", "MODE1/2352", "audio", "X"]).to_string(),
    }
}

fn render(rng: &mut Rng, lines: &[String], plain: bool) -> String {
    let mut out = String::new();
    let junk_rate = if plain { 0 } else { rng.below(4) };
    let crlf_all = rng.chance(1, 4);
    for l in lines {
        while junk_rate > 0 && rng.below(8) < junk_rate {
            let j = *rng.pick(JUNK);
            out.push_str(*rng.pick(WS));
            out.push_str(j);
            out.push_str(if crlf_all { "\r\n" } else { "\n" });
        }
        if !plain {
            out.push_str(*rng.pick(WS));
        } else {
            out.push_str(if l.starts_with("INDEX") || l.starts_with("FLAGS") || l.starts_with("ISRC") { "    " } else if l.starts_with("TRACK") { "  " } else { "" });
        }
        out.push_str(l);
        if !plain {
            out.push_str(*rng.pick(WS));
        }
        out.push_str(if crlf_all || (!plain && rng.chance(1, 10)) { "\r\n" } else { "\n" });
    }
    if !plain && rng.chance(1, 3) {
        // last line without a terminator
        while out.ends_with('\n') || out.ends_with('\r') {
            out.pop();
        }
    }
    out
}

fn ast_s(c: &Cue) -> String {
    let ts: Vec<String> = c
        .tracks
        .iter()
        .map(|t| {
            let ix: Vec<String> = t.indices.iter().map(|i| format!("{}:{}:{}:{}", i.num, i.mm, i.ss, i.ff)).collect();
            format!("{},{},{},{}", t.num, t.pre as u8, t.isrc.clone().unwrap_or("-".into()), ix.join("+"))
        })
        .collect();
    format!("{};{}", c.catalog.clone().unwrap_or("-".into()), ts.join(";"))
}
fn style_s(st: &Style) -> String {
    format!(
        "{}{}{}{}{}{}{},{}",
        st.pad_track as u8,
        st.pad_index as u8,
        st.pad_time as u8,
        st.quote_catalog as u8,
        st.quote_isrc as u8,
        st.dash_isrc as u8,
        st.flags_first as u8,
        hx(st.ttype.as_bytes())
    )
}

/// compare the imported block with the syntax, field by field; returns the first difference
fn compare(c: &Cue, total: u64, got: &Cuesheet) -> Result<(), String> {
    let (catalog_number, lead_in_samples, tracks, lead_out) = match got {
        Cuesheet::CDDA { catalog_number, lead_in_samples, tracks, lead_out } => (catalog_number, lead_in_samples, tracks, lead_out),
        _ => return Err("not a CD-DA cue sheet".into()),
    };
    let cat: Option<String> = catalog_number.as_ref().map(|d| d.iter().map(|x| u8::from(*x) as char).collect());
    if cat != c.catalog {
        return Err(format!("catalog {:?} != {:?}", cat, c.catalog));
    }
    if *lead_in_samples != 88200 {
        return Err(format!("lead-in {}", lead_in_samples));
    }
    if tracks.len() != c.tracks.len() {
        return Err(format!("{} tracks, expected {}", tracks.len(), c.tracks.len()));
    }
    for (t, e) in tracks.iter().zip(c.tracks.iter()) {
        if t.number.get() != e.num {
            return Err(format!("track number {} != {}", t.number, e.num));
        }
        if t.pre_emphasis != e.pre || t.non_audio {
            return Err(format!("track {} flags pre={} non_audio={}", e.num, t.pre_emphasis, t.non_audio));
        }
        let isrc = match &t.isrc {
            ISRC::None => None,
            ISRC::String(s) => Some(s.as_ref().to_string()),
        };
        if isrc != e.isrc {
            return Err(format!("track {} ISRC {:?} != {:?}", e.num, isrc, e.isrc));
        }
        if t.index_points.len() != e.indices.len() {
            return Err(format!("track {}: {} index points, expected {}", e.num, t.index_points.len(), e.indices.len()));
        }
        if u64::from(t.offset) != e.indices[0].frames() * 588 {
            return Err(format!("track {} offset {} != {}", e.num, u64::from(t.offset), e.indices[0].frames() * 588));
        }
        for (i, ei) in t.index_points.iter().zip(e.indices.iter()) {
            let abs = u64::from(t.offset) + u64::from(i.offset);
            if i.number != ei.num || abs != ei.frames() * 588 {
                return Err(format!("track {} index {}: number {} position {} != {} at {}", e.num, ei.num, i.number, abs, ei.num, ei.frames() * 588));
            }
        }
    }
    if u64::from(lead_out.offset) != total || lead_out.isrc != ISRC::None || lead_out.non_audio || lead_out.pre_emphasis {
        return Err(format!("lead-out {:?}", lead_out));
    }
    // track ranges: index 01 of each track to index 01 of the next, the last to the lead-out
    let starts: Vec<u64> = c.tracks.iter().map(|t| t.indices.iter().find(|i| i.num == 1).unwrap().frames() * 588).collect();
    let ranges: Vec<std::ops::Range<u64>> = got.track_sample_ranges().collect();
    if ranges.len() != starts.len() {
        return Err(format!("{} ranges for {} tracks", ranges.len(), starts.len()));
    }
    for (k, r) in ranges.iter().enumerate() {
        let end = if k + 1 < starts.len() { starts[k + 1] } else { total };
        if r.start != starts[k] || r.end != end {
            return Err(format!("range {}: {:?}, expected {}..{}", k, r, starts[k], end));
        }
    }
    Ok(())
}

/// tracks, numbers, index numbers and absolute positions
fn layout(c: &Cuesheet) -> Vec<(u8, Vec<(u8, u64)>)> {
    c.tracks()
        .filter_map(|t| t.number.map(|n| (n, t.index_points.iter().map(|i| (i.number, t.offset + i.offset)).collect())))
        .collect()
}

fn main() {
    quiet_panics();
    let seed = env_seed();
    let thorough = env_tier_thorough();
    let mut rng = Rng::new(seed, 0xC20A);
    let mut counts: BTreeMap<String, usize> = BTreeMap::new();
    let mut viol_keys = std::collections::BTreeSet::new();
    let mut distinct = std::collections::BTreeSet::new();
    let mut viol = |key: &str, desc: &str, extra: &[(&str, String)], counts: &mut BTreeMap<String, usize>| {
        *counts.entry(format!("viol:{}", key)).or_insert(0) += 1;
        if !viol_keys.insert(key.to_string()) {
            return;
        }
        let mut f: Vec<(&str, String)> = vec![("t", esc("viol")), ("key", esc(key)), ("desc", esc(desc)), ("profile", esc(profile()))];
        f.extend(extra.iter().cloned());
        println!("{}", obj(&f));
    };
    let n = if thorough { 12000 } else { 900 };
    let mut samples = 0;
    for i in 0..n {
        let (c, total) = gen_cue(&mut rng, i as u64);
        let st = gen_style(&mut rng);
        let lines = cue_lines(&st, &c);
        let text = render(&mut rng, &lines, i % 5 == 0);
        *counts.entry(format!("tracks:{}", match c.tracks.len() { 1 => "1", 2 => "2", 99 => "99", _ => "3-12" })).or_insert(0) += 1;
        let maxi = c.tracks.iter().map(|t| t.indices.len()).max().unwrap();
        *counts.entry(format!("max-indices:{}", match maxi { 1 => "1", 2..=5 => "2-5", 99 => "99", 100 => "100", _ => "other" })).or_insert(0) += 1;
        if c.tracks.iter().any(|t| t.indices.iter().any(|x| x.mm > 99)) {
            *counts.entry("minutes>99".into()).or_insert(0) += 1;
        }
        if c.tracks.iter().any(|t| t.indices[0].num == 0) {
            *counts.entry("with-pregap".into()).or_insert(0) += 1;
        }
        let mut h: u64 = 0xcbf29ce484222325;
        for b in ast_s(&c).bytes() {
            h ^= b as u64;
            h = h.wrapping_mul(0x100000001b3);
        }
        distinct.insert(h);

        let r = catch(|| Cuesheet::parse(total, &text));
        let mut blockof = "bad";
        let mut rt = "bad";
        let obs_head = match &r {
            Ok(Ok(got)) => {
                match compare(&c, total, got) {
                    Ok(()) => blockof = "ok",
                    Err(d) => viol(
                        "import-differs-from-text",
                        &format!("Cuesheet::parse accepted a well-formed cue sheet but the block differs from the text: {}", d),
                        &[("text", esc(&text)), ("total", total.to_string()), ("syntax", esc(&ast_s(&c)))],
                        &mut counts,
                    ),
                }
                // export -> import
                match catch(|| format!("{}", got.display("f.flac"))) {
                    Ok(exported) => match catch(|| Cuesheet::parse(total, &exported)) {
                        Ok(Ok(again)) => {
                            if layout(&again) == layout(got) && again.track_sample_ranges().collect::<Vec<_>>() == got.track_sample_ranges().collect::<Vec<_>>() {
                                rt = "ok";
                            } else {
                                viol("export-import-layout-differs", "the text written by Display imports to a different track/index layout", &[("text", esc(&text)), ("exported", esc(&exported)), ("total", total.to_string())], &mut counts);
                            }
                        }
                        other => viol(
                            "export-not-importable",
                            &format!("the text written by Display is not imported: {:?}", other.map(|x| x.map(|_| ()))),
                            &[("text", esc(&text)), ("exported", esc(&exported)), ("total", total.to_string())],
                            &mut counts,
                        ),
                    },
                    Err(p) => viol("display-panic", &format!("Display panicked: {}", p), &[("text", esc(&text))], &mut counts),
                }
                match catch(|| {
                    format!(
                        "n:{:x},t:{:x},r:{},b:{},d:{},k:{}",
                        got.track_count(),
                        got.tracks().count(),
                        {
                            let v: Vec<String> = got.track_sample_ranges().map(|r| format!("{:x}-{:x}", r.start, r.end)).collect();
                            if v.is_empty() { "-".to_string() } else { v.join(",") }
                        },
                        {
                            let v: Vec<String> = got.track_byte_ranges(2, 16).map(|r| format!("{:x}-{:x}", r.start, r.end)).collect();
                            if v.is_empty() { "-".to_string() } else { v.join(",") }
                        },
                        hx(format!("{}", got.display("f.flac")).as_bytes()),
                        hx(format!("{}", got.catalog_number()).as_bytes())
                    )
                }) {
                    Ok(acc) => format!("ok {} acc={}", dump_cuesheet(got), acc),
                    Err(_) => format!("ok {} acc=panic", dump_cuesheet(got)),
                }
            }
            Ok(Err(e)) => {
                viol(
                    "wellformed-cue-rejected",
                    &format!("Cuesheet::parse rejects a well-formed cue sheet: {:?}", e),
                    &[("text", esc(&text)), ("total", total.to_string()), ("syntax", esc(&ast_s(&c)))],
                    &mut counts,
                );
                format!("err:{:?}", e)
            }
            Err(p) => {
                viol("cue-parse-panic", &format!("Cuesheet::parse panicked on a well-formed cue sheet: {}", p), &[("text", esc(&text)), ("total", total.to_string())], &mut counts);
                "panic".into()
            }
        };
        *counts.entry(format!("import:{}", if blockof == "ok" { "matches" } else { "differs" })).or_insert(0) += 1;
        let obs = format!("{} match=ok blockof={} rt={}", obs_head, blockof, rt);
        if text.len() < 40000 {
            println!(
                "{}",
                obj(&[
                    ("t", esc("case")),
                    ("k", esc("c20")),
                    ("p", esc(profile())),
                    ("in", esc(&format!("{:x} {} {} {}", total, hx(text.as_bytes()), style_s(&st), ast_s(&c)))),
                    ("obs", esc(&obs))
                ])
            );
        }
        if samples < 2 && text.len() < 500 {
            samples += 1;
            println!("{}", obj(&[("t", esc("sample")), ("text", esc(&text)), ("total", total.to_string()), ("observation", esc(&obs[..obs.len().min(500)]))]));
        }
    }
    let cs: Vec<String> = counts.iter().map(|(k, v)| format!("{}:{}", esc(k), v)).collect();
    println!("{}", obj(&[("t", esc("stat")), ("profile", esc(profile())), ("distinct_sheets", distinct.len().to_string()), ("counts", format!("{{{}}}", cs.join(",")))]));
}
