(* metadata/Cue_proofs2.v — C20, second part: the track ranges of an imported sheet, and
   decorated renderings satisfy the hypothesis of the import theorem. *)
From FlacMeta Require Import Bytes Bytes_proofs Blocks Blocks_proofs Cue Accessors CueRender Cue_proofs.
Open Scope N_scope.

(* ================================================================================== *)
(* track ranges: INDEX 01 to the next INDEX 01, the last to the stream length          *)
(* ================================================================================== *)
(* position of INDEX 01 of a track, in samples *)
Definition index01_samples (t : cue_track) : N :=
  match ct_indices t with
  | i0 :: r => if ci_num i0 =? 1 then ci_samples i0
               else match r with i1 :: _ => ci_samples i1 | [] => 0 end
  | [] => 0
  end.

Lemma track_of_index01 t trk : wf_track t -> track_of t = Some trk ->
  sat_add64 (tr_off trk) (ix_off (iv_01 (tr_ix trk))) = index01_samples t.
Proof.
  intros (Wix & Wshape & _) H. unfold track_of in H. unfold index01_samples.
  destruct (ct_indices t) as [|i0 r] eqn:E; [contradiction|]. destruct Wshape as (Hn0 & Hch & _).
  inversion Wix as [|? ? W0 Wr]; subst.
  cbn [map indexvec_try_from index_of ix_num] in H.
  destruct Hn0 as [H1|[H0 Hr]].
  - rewrite H1 in *. change (1 =? 0) with false in H. change (1 =? 1) with true in *. cbv iota in H.
    injection H as <-. cbn [tr_off tr_ix iv_01 ix_off index_of]. rewrite N.sub_diag. unfold sat_add64.
    destruct W0 as (_ & _ & Hm). rewrite N.add_0_r. apply N.min_l. exact Hm.
  - rewrite H0 in *. change (0 =? 0) with true in H. change (0 =? 1) with false. cbv iota in H.
    destruct r as [|i1 r']; [congruence|]. cbn [index_chain] in Hch. destruct Hch as (Hlt & Hn1 & _).
    cbn [map ix_num index_of] in H. rewrite Hn1 in H. change (0 + 1 =? 1) with true in H. cbv iota in H.
    injection H as <-. cbn [tr_off tr_ix iv_01 ix_off index_of]. inversion Wr as [|? ? W1 _]; subst.
    destruct W1 as (_ & _ & Hm). unfold sat_add64.
    assert (ci_samples i0 <= ci_samples i1) by (rewrite !samples_frames; lia).
    replace (ci_samples i0 + (ci_samples i1 - ci_samples i0)) with (ci_samples i1) by lia.
    apply N.min_l. exact Hm.
Qed.

Lemma tracks_of_offsets : forall ts trks, Forall wf_track ts -> tracks_of ts = Some trks ->
  map (fun t => sat_add64 (tr_off t) (ix_off (iv_01 (tr_ix t)))) trks = map index01_samples ts.
Proof.
  induction ts as [|t r IH]; intros trks W H; cbn [tracks_of] in H.
  - injection H as <-. reflexivity.
  - inversion W as [|? ? Wt Wr]; subst. destruct (track_of t) as [trk|] eqn:Et; [|discriminate].
    destruct (tracks_of r) as [trks'|] eqn:Er; [|discriminate]. injection H as <-.
    cbn [map]. rewrite (track_of_index01 t trk Wt Et), (IH trks' Wr eq_refl). reflexivity.
Qed.

Theorem import_ranges c total b : wf_cue c -> block_of c total = Some b ->
  track_sample_ranges b = pair_up (map index01_samples (cu_tracks c) ++ [total]).
Proof.
  intros (_ & _ & Hsheet & _) H. unfold block_of in H.
  destruct (tracks_of (cu_tracks c)) as [trks|] eqn:E; [|discriminate]. injection H as <-.
  unfold track_sample_ranges, track_offsets. cbn [cue_tracks cue_leadout lo_off].
  rewrite (tracks_of_offsets (cu_tracks c) trks (sheet_ok_wf _ _ _ Hsheet) E). reflexivity.
Qed.

(* ================================================================================== *)
(* lines and trim of decorated text                                                    *)
(* ================================================================================== *)
Definition all_ws (l : list N) : Prop := Forall (fun c => is_ws c = true) l.
Definition no_nl (l : list N) : Prop := ~ In 10 l.
(* no white space at either end *)
Definition clean (l : list N) : Prop := drop_ws l = l /\ drop_ws (rev l) = rev l.

Lemma drop_ws_all l : all_ws l -> drop_ws l = [].
Proof. induction 1 as [|c l Hc Hl IH]; [reflexivity|]. cbn [drop_ws]. rewrite Hc. exact IH. Qed.
Lemma drop_ws_app_ws a b : all_ws a -> drop_ws (a ++ b) = drop_ws b.
Proof. induction 1 as [|c l Hc Hl IH]; [reflexivity|]. cbn [app drop_ws]. rewrite Hc. exact IH. Qed.
Lemma drop_ws_fixed_app l b : drop_ws l = l -> l <> [] -> drop_ws (l ++ b) = l ++ b.
Proof.
  destruct l as [|c l']; [congruence|]. intros H _. cbn [app drop_ws] in *.
  destruct (is_ws c); [|reflexivity]. exfalso.
  assert (L : (length (drop_ws l') <= length l')%nat).
  { clear. induction l' as [|x q IH]; cbn [drop_ws length]; [lia|]. destruct (is_ws x); cbn [length]; lia. }
  rewrite H in L. cbn [length] in L. lia.
Qed.
Lemma all_ws_rev l : all_ws l -> all_ws (rev l).
Proof. apply Forall_rev. Qed.

Lemma trim_decorated a l b : all_ws a -> all_ws b -> clean l -> trim (a ++ l ++ b) = l.
Proof.
  intros Ha Hb [C1 C2]. unfold trim. rewrite drop_ws_app_ws by exact Ha.
  destruct l as [|c l'].
  - cbn [app]. rewrite (drop_ws_all b Hb). reflexivity.
  - rewrite drop_ws_fixed_app by (auto; discriminate). rewrite rev_app_distr.
    rewrite drop_ws_app_ws by (apply all_ws_rev, Hb). rewrite C2. apply rev_involutive.
Qed.

Lemma strip_cr_snoc l : strip_cr (l ++ [13]) = l.
Proof. unfold strip_cr. rewrite rev_app_distr. cbn [rev app]. apply rev_involutive. Qed.

Lemma split_lines_line : forall x acc rest, no_nl x ->
  split_lines acc (x ++ 10 :: rest) = strip_cr (rev acc ++ x) :: split_lines [] rest.
Proof.
  induction x as [|c x IH]; intros acc rest H.
  - cbn [app split_lines]. change (10 =? 10) with true. cbv iota. rewrite app_nil_r. reflexivity.
  - cbn [app split_lines]. destruct (N.eqb_spec c 10) as [->|_]; [exfalso; apply H; left; reflexivity|].
    rewrite IH by (intros Hin; apply H; right; exact Hin). cbn [rev]. rewrite <- app_assoc. reflexivity.
Qed.

Lemma no_nl_app a b : no_nl a -> no_nl b -> no_nl (a ++ b).
Proof. unfold no_nl. intros Ha Hb Hin. apply in_app_or in Hin. tauto. Qed.
Lemma all_ws_no_nl_trail l : Forall (fun c => is_ws c = true /\ c <> 10) l -> all_ws l /\ no_nl l.
Proof.
  intros H. split; [eapply Forall_impl; [|exact H]; cbn; tauto|].
  intros Hin. rewrite Forall_forall in H. destruct (H 10 Hin) as [_ Hne]. congruence.
Qed.

(* every decorated line comes back as its content *)
Lemma lines_render : forall dls,
  Forall (fun dl => wf_deco (fst dl) /\ clean (snd dl) /\ no_nl (snd dl)) dls ->
  map trim (lines (flat_map decorate_line dls)) = map snd dls.
Proof.
  unfold lines. induction 1 as [|[d l] dls (Wd & Cl & Nl) Hr IH]; [reflexivity|].
  cbn [flat_map map snd fst] in *. unfold decorate_line at 1. cbn [fst snd].
  destruct Wd as [Wi Wt]. apply all_ws_no_nl_trail in Wi, Wt. destruct Wi as [Ai Ni]. destruct Wt as [At Nt].
  destruct (d_crlf d).
  - replace ((d_indent d ++ l ++ d_trail d ++ [13; 10]) ++ flat_map decorate_line dls)
      with ((d_indent d ++ l ++ d_trail d ++ [13]) ++ 10 :: flat_map decorate_line dls)
      by (rewrite <- !app_assoc; reflexivity).
    rewrite split_lines_line.
    + cbn [rev app map]. rewrite !app_assoc, strip_cr_snoc. rewrite <- !app_assoc.
      rewrite trim_decorated by assumption. f_equal. exact IH.
    + apply no_nl_app; [exact Ni|]. apply no_nl_app; [exact Nl|]. apply no_nl_app; [exact Nt|].
      intros [E|[]]. discriminate.
  - replace ((d_indent d ++ l ++ d_trail d ++ [10]) ++ flat_map decorate_line dls)
      with ((d_indent d ++ l ++ d_trail d) ++ 10 :: flat_map decorate_line dls)
      by (rewrite <- !app_assoc; reflexivity).
    rewrite split_lines_line by (apply no_nl_app; [exact Ni|]; apply no_nl_app; assumption).
    cbn [rev app map]. f_equal; [|exact IH].
    (* a trailing '\r' of the decoration may be stripped; it is white space anyway *)
    set (y := d_indent d ++ l ++ d_trail d). unfold strip_cr.
    destruct (rev y) as [|c q] eqn:Ey; [unfold y; apply trim_decorated; assumption|].
    destruct (N.eq_dec c 13) as [->|Hc].
    + (* y = rev q ++ [13] *)
      assert (Hy : y = rev q ++ [13]) by (rewrite <- (rev_involutive y), Ey; reflexivity).
      (* the 13 is the last character of the trailing decoration or of the indentation *)
      assert (Ht : trim (rev q) = trim y).
      { rewrite Hy. unfold trim. 
        assert (G : forall z, rev (drop_ws (rev (drop_ws (z ++ [13])))) = rev (drop_ws (rev (drop_ws z)))).
        { intros z. assert (D : drop_ws (z ++ [13]) = drop_ws z \/ exists w, drop_ws z = w /\ drop_ws (z ++ [13]) = w ++ [13]).
          { induction z as [|a z IHz]; [left; reflexivity|]. cbn [app drop_ws]. destruct (is_ws a); [exact IHz|].
            right. eexists. split; reflexivity. }
          destruct D as [D|(w & D1 & D2)]; [rewrite D; reflexivity|].
          rewrite D2, D1, rev_app_distr. cbn [rev app drop_ws]. change (is_ws 13) with true. cbv iota. reflexivity. }
        symmetry. apply G. }
      change (trim (rev q) = l).
      rewrite Ht. unfold y. apply trim_decorated; assumption.
    + assert (E : match c with 13 => rev q | _ => y end = y).
      { destruct c as [|p]; [reflexivity|]. do 4 (destruct p as [p|p|]; try reflexivity). congruence. }
      rewrite E. unfold y. apply trim_decorated; assumption.
Qed.

(* ================================================================================== *)
(* the lines of a well-formed sheet are clean, newline free and significant            *)
(* ================================================================================== *)
Definition line_ok (l : list N) : Prop := clean l /\ no_nl l /\ significant l = true.

Lemma clean_intro c x d : is_ws c = false -> is_ws d = false -> clean ((c :: x) ++ [d]).
Proof.
  intros Hc Hd. split.
  - cbn [app drop_ws]. rewrite Hc. reflexivity.
  - rewrite rev_app_distr. cbn [rev app drop_ws]. rewrite Hd. reflexivity.
Qed.

Lemma last_app_ne {A} (a b : list A) d : b <> [] -> last (a ++ b) d = last b d.
Proof.
  intros Hb. induction a as [|x a IH]; [reflexivity|]. cbn [app]. 
  destruct (a ++ b) eqn:E; [destruct a; [cbn in E; congruence|discriminate]|]. rewrite <- IH. reflexivity.
Qed.

Lemma clean_kw c kw' rest : is_ws c = false -> rest <> [] -> is_ws (last rest 0) = false ->
  clean ((c :: kw') ++ [32] ++ rest).
Proof.
  intros Hc Hr Hl. rewrite (app_removelast_last 0 Hr).
  replace ((c :: kw') ++ [32] ++ removelast rest ++ [last rest 0])
    with ((c :: kw' ++ [32] ++ removelast rest) ++ [last rest 0]) by (cbn [app]; rewrite <- !app_assoc; reflexivity).
  apply clean_intro; assumption.
Qed.

Lemma digit_not_ws c : is_digit c = true -> is_ws c = false /\ c <> 10 /\ c <> 32.
Proof.
  intros H. apply is_digit_spec in H. unfold is_ws.
  repeat match goal with |- context [?a <=? ?b] => destruct (N.leb_spec a b); try lia end;
  repeat match goal with |- context [?a =? ?b] => destruct (N.eqb_spec a b); try lia end; cbn; repeat split; lia.
Qed.

Lemma last_digits s : Forall is_digit_p s -> s <> [] -> is_digit (last s 0) = true.
Proof.
  intros F NE. rewrite Forall_forall in F. apply F. destruct s as [|x q]; [congruence|].
  clear F NE. revert x. induction q as [|y q IH]; intros x; [left; reflexivity|].
  right. apply IH.
Qed.

Lemma no_nl_digits s : Forall is_digit_p s -> no_nl s.
Proof. intros F Hin. rewrite Forall_forall in F. apply F in Hin. apply is_digit_spec in Hin. lia. Qed.

Lemma no_nl_cons c l : c <> 10 -> no_nl l -> no_nl (c :: l).
Proof. intros Hc Hl [E|Hin]; [congruence|exact (Hl Hin)]. Qed.

Lemma kw_no_nl : no_nl kw_CATALOG /\ no_nl kw_TRACK /\ no_nl kw_INDEX /\ no_nl kw_ISRC /\ no_nl kw_FLAGS /\ no_nl kw_PRE.
Proof. repeat split; intros H; cbn in H; repeat (destruct H as [H|H]; [discriminate|]); exact H. Qed.

Lemma significant_kw kw rest : ~ In 32 kw ->
  (list_eqb kw kw_CATALOG || list_eqb kw kw_TRACK || list_eqb kw kw_INDEX || list_eqb kw kw_ISRC = true) ->
  significant (kw ++ [32] ++ rest) = true.
Proof.
  intros Hs H. unfold significant. rewrite split_kw by exact Hs. rewrite H. reflexivity.
Qed.

Lemma kw_line_ok c kw' rest : is_ws c = false -> ~ In 32 (c :: kw') -> no_nl (c :: kw') ->
  (list_eqb (c :: kw') kw_CATALOG || list_eqb (c :: kw') kw_TRACK || list_eqb (c :: kw') kw_INDEX || list_eqb (c :: kw') kw_ISRC = true) ->
  rest <> [] -> is_ws (last rest 0) = false -> no_nl rest ->
  line_ok ((c :: kw') ++ [32] ++ rest).
Proof.
  intros Hc Hs Hn Hk Hr Hl Hnr. split; [apply clean_kw; assumption|]. split.
  - apply no_nl_app; [exact Hn|]. apply no_nl_app; [intros [E|[]]; discriminate|exact Hnr].
  - apply significant_kw; assumption.
Qed.

Lemma num_facts pad n : n < TEN20 ->
  Forall is_digit_p (num pad n) /\ num pad n <> [] /\ no_nl (num pad n) /\ is_ws (last (num pad n) 0) = false.
Proof.
  intros H. destruct (num_spec pad n H) as (_ & F & NE). split; [exact F|]. split; [exact NE|].
  split; [apply no_nl_digits, F|]. apply digit_not_ws, last_digits; assumption.
Qed.

Lemma index_line_ok st i : wf_index i -> ci_num i <= 255 -> line_ok (index_line st i).
Proof.
  intros W Hn. pose proof (wf_index_mm i W) as Hm. destruct W as (Hs & Hf & _).
  destruct (num_facts (st_pad_index st) (ci_num i) ltac:(unfold TEN20; lia)) as (Fn & NEn & Nn & _).
  destruct (num_facts (st_pad_time st) (ci_mm i) Hm) as (Fm & NEm & Nm & _).
  destruct (num_facts (st_pad_time st) (ci_ss i) ltac:(unfold TEN20; lia)) as (Fs & NEs & Ns & _).
  destruct (num_facts (st_pad_time st) (ci_ff i) ltac:(unfold TEN20; lia)) as (Ff & NEf & Nf & Lf).
  unfold index_line, time_text, kw_INDEX.
  apply kw_line_ok; try reflexivity.
  - intros H; cbn in H; repeat (destruct H as [H|H]; [discriminate|]); exact H.
  - apply kw_no_nl.
  - destruct (num (st_pad_index st) (ci_num i)); [congruence|discriminate].
  - rewrite !app_assoc. rewrite last_app_ne by exact NEf. exact Lf.
  - repeat (apply no_nl_app; [|]); try assumption; intros [E|[]]; discriminate.
Qed.

Lemma flags_line_ok : line_ok flags_line.
Proof.
  split; [|split].
  - split; reflexivity.
  - intros H; cbn in H; repeat (destruct H as [H|H]; [discriminate|]); exact H.
  - reflexivity.
Qed.

Lemma track_line_ok st t : wf_style st -> ct_num t <= 255 -> line_ok (track_line st t).
Proof.
  intros (NEt & Ft) Hn.
  destruct (num_facts (st_pad_track st) (ct_num t) ltac:(unfold TEN20; lia)) as (Fn & NEn & Nn & _).
  unfold track_line, kw_TRACK. apply kw_line_ok; try reflexivity.
  - intros H; cbn in H; repeat (destruct H as [H|H]; [discriminate|]); exact H.
  - apply kw_no_nl.
  - destruct (num (st_pad_track st) (ct_num t)); [congruence|discriminate].
  - rewrite !app_assoc. rewrite last_app_ne by exact NEt.
    rewrite Forall_forall in Ft. apply Ft. destruct (st_type st) as [|x q]; [congruence|].
    clear. revert x. induction q as [|y q IH]; intros x; [left; reflexivity|]. right. apply IH.
  - apply no_nl_app; [exact Nn|]. apply no_nl_app; [intros [E|[]]; discriminate|].
    intros Hin. rewrite Forall_forall in Ft. destruct (Ft 10 Hin) as [_ Hne]. congruence.
Qed.

Lemma quoted_facts q s : s <> [] -> no_nl s -> is_ws (last s 0) = false ->
  quoted q s <> [] /\ no_nl (quoted q s) /\ is_ws (last (quoted q s) 0) = false.
Proof.
  intros NE Nn Hl. unfold quoted. destruct q; [|auto]. split; [discriminate|]. split.
  - apply no_nl_cons; [discriminate|]. apply no_nl_app; [exact Nn|intros [E|[]]; discriminate].
  - change (34 :: s ++ [34]) with ((34 :: s) ++ [34]). rewrite last_app_ne by discriminate. reflexivity.
Qed.

Lemma catalog_line_ok st d : lenN d = 13 -> forallb is_digit d = true -> line_ok (catalog_line st d).
Proof.
  intros L D. assert (F : Forall is_digit_p d) by (apply Forall_forall; rewrite forallb_forall in D; exact D).
  assert (NE : d <> []) by (intros ->; cbn in L; lia).
  destruct (quoted_facts (st_quote_catalog st) d NE (no_nl_digits d F) (proj1 (digit_not_ws _ (last_digits d F NE)))) as (Q1 & Q2 & Q3).
  unfold catalog_line, kw_CATALOG. apply kw_line_ok; try reflexivity; try assumption.
  - intros H; cbn in H; repeat (destruct H as [H|H]; [discriminate|]); exact H.
  - apply kw_no_nl.
Qed.

Lemma class_not_ws c : is_alpha c = true \/ is_alnum c = true \/ is_digit c = true -> is_ws c = false /\ c <> 10.
Proof.
  intros H.
  assert (R : (48 <= c /\ c <= 57) \/ (65 <= c /\ c <= 90) \/ (97 <= c /\ c <= 122)).
  { unfold is_alnum, is_alpha, is_digit in H.
    repeat match goal with
           | H : _ \/ _ |- _ => destruct H as [H|H]
           | H : _ || _ = true |- _ => apply orb_prop in H
           | H : _ && _ = true |- _ => apply andb_prop in H; destruct H as [? ?]
           | H : (_ <=? _) = true |- _ => apply N.leb_le in H
           end; lia. }
  unfold is_ws.
  repeat match goal with |- context [?a <=? ?b] => destruct (N.leb_spec a b); try lia end;
  repeat match goal with |- context [?a =? ?b] => destruct (N.eqb_spec a b); try lia end; cbn; split; lia.
Qed.

Lemma isrc_line_ok st s : wf_isrc s -> line_ok (isrc_line st s).
Proof.
  intros W. pose proof W as (L & A & B & D). destruct (isrc_parts s L) as (E & L1 & L2 & L3 & L4).
  destruct (forallb_skipn5_split s L D) as [D1 D2].
  set (p1 := firstn 2 s) in *. set (p2 := firstn 3 (skipn 2 s)) in *. set (p3 := firstn 2 (skipn 5 s)) in *. set (p4 := skipn 7 s) in *.
  rewrite forallb_forall in A, B, D1, D2.
  assert (Hp : forall c, In c p1 \/ In c p2 \/ In c p3 \/ In c p4 -> is_ws c = false /\ c <> 10).
  { intros c [H|[H|[H|H]]]; apply class_not_ws; [left; apply A, H|right; left; apply B, H|right; right; apply D1, H|right; right; apply D2, H]. }
  assert (NE4 : p4 <> []) by (destruct p4; [cbn in L4; lia|discriminate]).
  assert (Hlast4 : is_ws (last p4 0) = false).
  { apply Hp. right. right. right. destruct p4 as [|x q]; [congruence|]. clear. revert x. induction q as [|y q IH]; intros x; [left; reflexivity|]. right. apply IH. }
  assert (Hd : dashed (st_dash_isrc st) s <> [] /\ no_nl (dashed (st_dash_isrc st) s) /\ is_ws (last (dashed (st_dash_isrc st) s) 0) = false).
  { unfold dashed. fold p1 p2 p3 p4. destruct (st_dash_isrc st).
    - split; [destruct p1; [cbn in L1; lia|discriminate]|]. split.
      + intros Hin. rewrite !in_app_iff in Hin. cbn [In] in Hin.
        destruct Hin as [H|[[H|[]]|[H|[[H|[]]|[H|[[H|[]]|H]]]]]]; try discriminate;
          [apply (Hp 10 (or_introl H))|apply (Hp 10 (or_intror (or_introl H)))|apply (Hp 10 (or_intror (or_intror (or_introl H))))|apply (Hp 10 (or_intror (or_intror (or_intror H))))]; reflexivity.
      + rewrite !app_assoc. rewrite last_app_ne by exact NE4. exact Hlast4.
    - rewrite E. split; [destruct p1; [cbn in L1; lia|discriminate]|]. split.
      + intros Hin. rewrite !in_app_iff in Hin. apply (Hp 10 Hin). reflexivity.
      + rewrite !app_assoc. rewrite last_app_ne by exact NE4. exact Hlast4. }
  destruct Hd as (X1 & X2 & X3).
  destruct (quoted_facts (st_quote_isrc st) _ X1 X2 X3) as (Q1 & Q2 & Q3).
  unfold isrc_line, kw_ISRC. apply kw_line_ok; try reflexivity; try assumption.
  - intros H; cbn in H; repeat (destruct H as [H|H]; [discriminate|]); exact H.
  - apply kw_no_nl.
Qed.

(* ---- every line of a well-formed sheet *)
Lemma chain_nums : forall l pf pn, index_chain pf pn l -> pn + lenN l <= 255 ->
  Forall (fun i => ci_num i <= 255) l.
Proof.
  induction l as [|i r IH]; intros pf pn H L; [constructor|]. cbn [index_chain] in H. destruct H as (_ & Hn & Hr).
  cbn [lenN] in L. constructor; [lia|]. eapply IH; [exact Hr|lia].
Qed.

Lemma track_lines_ok st t : wf_style st -> wf_track t -> ct_num t <= 255 -> Forall line_ok (track_lines st t).
Proof.
  intros Ws (Wix & Wshape & Wi) Hn. unfold track_lines. constructor; [apply track_line_ok; assumption|].
  apply Forall_app. split.
  - assert (Hfl : Forall line_ok (if ct_pre t then [flags_line] else [])) by (destruct (ct_pre t); [constructor; [apply flags_line_ok|constructor]|constructor]).
    assert (Hil : Forall line_ok (match ct_isrc t with Some s => [isrc_line st s] | None => [] end)).
    { destruct (ct_isrc t) as [s|]; [constructor; [apply isrc_line_ok, Wi|constructor]|constructor]. }
    destruct (st_flags_first st); apply Forall_app; split; assumption.
  - destruct (ct_indices t) as [|i0 r] eqn:E; [contradiction|]. destruct Wshape as (Hn0 & Hch & Hlen).
    assert (Hnums : Forall (fun i => ci_num i <= 255) (i0 :: r)).
    { cbn [lenN] in Hlen. constructor; [destruct Hn0 as [->|[-> _]]; lia|].
      eapply chain_nums; [exact Hch|]. destruct Hn0 as [->|[-> _]]; lia. }
    clear -Wix Hnums. induction Wix as [|i l Wi Wl IH]; [constructor|]. cbn [map].
    inversion Hnums; subst. constructor; [apply index_line_ok; assumption|apply IH; assumption].
Qed.

Lemma sheet_nums : forall ts n p, sheet_ok n p ts -> n + lenN ts <= 256 -> Forall (fun t => ct_num t <= 255) ts.
Proof.
  induction ts as [|t r IH]; intros n p H L; [constructor|]. cbn [sheet_ok] in H. destruct H as (Hn & _ & _ & Hr).
  cbn [lenN] in L. constructor; [lia|]. eapply IH; [exact Hr|lia].
Qed.

Lemma cue_lines_ok st c : wf_style st -> wf_cue c -> Forall line_ok (cue_lines st c).
Proof.
  intros Ws (_ & Hlen & Hsheet & Hcat). unfold cue_lines. apply Forall_app. split.
  - destruct (cu_catalog c) as [d|]; [|constructor]. destruct Hcat as [L D]. constructor; [apply catalog_line_ok; assumption|constructor].
  - pose proof (sheet_ok_wf _ _ _ Hsheet) as Wall. pose proof (sheet_nums _ _ _ Hsheet ltac:(lia)) as Nall.
    clear Hsheet Hlen Hcat. generalize dependent (cu_tracks c). intros ts Wall.
    induction Wall as [|t r Wt Wr IH]; intros Nall; [constructor|]. cbn [flat_map].
    pose proof (Forall_inv Nall) as N1. pose proof (Forall_inv_tail Nall) as N2.
    apply Forall_app. split; [apply track_lines_ok; assumption|apply IH; assumption].
Qed.

Lemma lines_eqb_refl l : lines_eqb l l = true.
Proof. induction l as [|x l IH]; cbn [lines_eqb]; [reflexivity|]. rewrite list_eqb_refl. exact IH. Qed.

Lemma filter_all_true {A} (f : A -> bool) l : Forall (fun x => f x = true) l -> filter f l = l.
Proof. induction 1 as [|x l Hx Hl IH]; cbn [filter]; [reflexivity|]. rewrite Hx, IH. reflexivity. Qed.

Lemma combine_snd {A B} : forall (a : list A) (b : list B), length a = length b -> map snd (combine a b) = b.
Proof.
  induction a as [|x a IH]; intros [|y b] H; cbn in *; try discriminate; [reflexivity|]. f_equal. apply IH. lia.
Qed.
Lemma combine_fst_forall {A B} (P : A -> Prop) : forall (a : list A) (b : list B), Forall P a ->
  Forall (fun ab => P (fst ab)) (combine a b).
Proof.
  induction a as [|x a IH]; intros b H; [constructor|]. destruct b as [|y b]; [constructor|].
  inversion H; subst. cbn [combine]. constructor; [assumption|apply IH; assumption].
Qed.

(* any decoration of the lines of a well-formed sheet satisfies the hypothesis of the import
   theorem; so does the same text with skipped lines inserted (they are filtered out) *)
Theorem render_matches st c decos : wf_style st -> wf_cue c ->
  length decos = length (cue_lines st c) -> Forall wf_deco decos ->
  cue_text_matches st c (render decos (cue_lines st c)) = true.
Proof.
  intros Ws Wc Hlen Hd. unfold cue_text_matches, render.
  pose proof (cue_lines_ok st c Ws Wc) as Hok.
  rewrite lines_render.
  - rewrite combine_snd by exact Hlen.
    rewrite filter_all_true; [apply lines_eqb_refl|].
    eapply Forall_impl; [|exact Hok]. intros l (_ & _ & S). exact S.
  - assert (G : forall (a : list deco) (b : list (list N)), Forall wf_deco a -> Forall line_ok b ->
                Forall (fun dl => wf_deco (fst dl) /\ clean (snd dl) /\ no_nl (snd dl)) (combine a b)).
    { induction a as [|x a IH]; intros b Ha Hb; [constructor|]. destruct b as [|y b]; [constructor|].
      inversion Ha; inversion Hb; subst. cbn [combine]. constructor; [|apply IH; assumption].
      cbn [fst snd]. destruct H5 as (C & Nn & _). auto. }
    apply G; assumption.
Qed.

(* the two together: a decorated rendering of a well-formed sheet imports to block_of *)
Corollary render_import p st c decos total : wf_style st -> wf_cue c ->
  length decos = length (cue_lines st c) -> Forall wf_deco decos ->
  total mod 588 = 0 -> before_end c total ->
  exists b, block_of c total = Some b /\ cue_parse p total (render decos (cue_lines st c)) = Ok b /\
            track_sample_ranges b = pair_up (map index01_samples (cu_tracks c) ++ [total]).
Proof.
  intros Ws Wc Hlen Hd Hm He.
  destruct (cue_import p st c total (render decos (cue_lines st c)) Wc Hm He (render_matches st c decos Ws Wc Hlen Hd)) as (b & Hb & Hp).
  exists b. split; [exact Hb|]. split; [exact Hp|]. apply import_ranges; assumption.
Qed.

(* ================================================================================== *)
(* export (Display) then import                                                        *)
(* ================================================================================== *)
(* the sheet that Display writes: no CATALOG, ISRC or FLAGS lines *)
Definition strip_track (t : cue_track) : cue_track := mkCT (ct_num t) false None (ct_indices t).
Definition strip_cue (c : cue) : cue := mkCue None (map strip_track (cu_tracks c)).
(* the spelling Display uses: TRACK n unpadded, INDEX nn and MM:SS:FF padded, type AUDIO *)
Definition display_style : style := mkStyle false true true false false false true str_AUDIO.
Definition file_line (fname : list N) : list N := [70; 73; 76; 69; 32; 34] ++ fname ++ [34; 32; 70; 76; 65; 67].

Lemma timestamp_samples i : wf_index i -> timestamp (ci_samples i) = time_text display_style i.
Proof.
  intros (Hs & Hf & _). unfold timestamp, time_text, display_style, num. cbn [st_pad_time].
  unfold ci_samples. rewrite N.div_mul by discriminate.
  assert (E1 : ci_frames i / 75 = ci_ss i + 60 * ci_mm i).
  { unfold ci_frames. symmetry. apply (N.div_unique _ 75 _ (ci_ff i)); lia. }
  assert (E2 : ci_frames i mod 75 = ci_ff i).
  { unfold ci_frames. symmetry. apply (N.mod_unique _ 75 (ci_ss i + 60 * ci_mm i)); lia. }
  rewrite E1, E2.
  assert (E3 : (ci_ss i + 60 * ci_mm i) / 60 = ci_mm i) by (symmetry; apply (N.div_unique _ 60 _ (ci_ss i)); lia).
  assert (E4 : (ci_ss i + 60 * ci_mm i) mod 60 = ci_ss i) by (symmetry; apply (N.mod_unique _ 60 (ci_mm i)); lia).
  rewrite E3, E4. reflexivity.
Qed.

Lemma display_index_line off i : wf_index i -> off <= ci_samples i ->
  str_INDEX ++ dec02 (ix_num (index_of off i)) ++ [32] ++ timestamp (sat_add64 (ix_off (index_of off i)) off) ++ [10]
  = decorate_line (mkDeco [32; 32; 32; 32] [] false, index_line display_style i).
Proof.
  intros W Hoff. unfold index_of. cbn [ix_num ix_off]. unfold sat_add64.
  replace (ci_samples i - off + off) with (ci_samples i) by lia.
  destruct W as (Hs & Hf & Hm). rewrite N.min_l by exact Hm.
  rewrite (timestamp_samples i (conj Hs (conj Hf Hm))).
  unfold decorate_line, index_line, display_style, num, str_INDEX, kw_INDEX. cbn [fst snd d_indent d_trail d_crlf st_pad_index app].
  rewrite <- !app_assoc. reflexivity.
Qed.

Lemma chain_ge : forall l pf pn, index_chain pf pn l -> Forall (fun i => pf <= ci_frames i) l.
Proof.
  induction l as [|i l IH]; intros a b Hc; [constructor|]. cbn [index_chain] in Hc. destruct Hc as (H1 & _ & H3).
  constructor; [lia|]. eapply Forall_impl; [|eapply IH; exact H3]. cbn. intros; lia.
Qed.

Lemma display_index_lines off : forall idxs, Forall wf_index idxs -> Forall (fun i => off <= ci_samples i) idxs ->
  flat_map (fun i => str_INDEX ++ dec02 (ix_num i) ++ [32] ++ timestamp (sat_add64 (ix_off i) off) ++ [10])
           (map (index_of off) idxs)
  = flat_map decorate_line (map (fun l => (mkDeco [32; 32; 32; 32] [] false, l)) (map (index_line display_style) idxs)).
Proof.
  induction idxs as [|i r IH]; intros W G; [reflexivity|]. inversion W; inversion G; subst.
  cbn [map flat_map]. rewrite display_index_line by assumption. rewrite IH by assumption. reflexivity.
Qed.

Lemma display_track_lines t trk : wf_track t -> track_of t = Some trk ->
  display_track trk =
  flat_map decorate_line
    ((mkDeco [32; 32] [] false, track_line display_style (strip_track t)) ::
     map (fun l => (mkDeco [32; 32; 32; 32] [] false, l)) (map (index_line display_style) (ct_indices t))).
Proof.
  intros W H. destruct (finish_full t W) as (trk' & Htr & _ & Hoff & Hnm & Hl). rewrite Htr in H. injection H as <-.
  assert (Hna : tr_non_audio trk' = false).
  { unfold track_of in Htr. destruct (ct_indices t); [discriminate|]. destruct (indexvec_try_from _); try discriminate. injection Htr as <-. reflexivity. }
  unfold display_track. rewrite Hna, Hnm, Hl, Hoff. cbn [flat_map].
  unfold decorate_line at 1. cbn [fst snd d_indent d_trail d_crlf]. unfold track_line, strip_track, display_style, num, str_TRACK, kw_TRACK.
  cbn [st_pad_track ct_num st_type app]. rewrite <- !app_assoc. cbn [app]. do 8 f_equal.
  destruct W as (Wix & Wshape & _). unfold first_samples.
  destruct (ct_indices t) as [|i0 r] eqn:E; [contradiction|]. destruct Wshape as (_ & Hch & _).
  assert (Hge : Forall (fun i => ci_samples i0 <= ci_samples i) (i0 :: r)).
  { constructor; [lia|]. eapply Forall_impl; [|apply (chain_ge r _ _ Hch)]. cbn. intros a Ha. rewrite !samples_frames. lia. }
  do 4 f_equal. exact (display_index_lines (ci_samples i0) (i0 :: r) Wix Hge).
Qed.

Lemma strip_wf_track t : wf_track t -> wf_track (strip_track t).
Proof. intros (A & B & _). unfold wf_track, strip_track. cbn [ct_indices ct_isrc]. auto. Qed.

Lemma strip_sheet_ok : forall ts n p, sheet_ok n p ts -> sheet_ok n p (map strip_track ts).
Proof.
  induction ts as [|t r IH]; intros n p H; [exact I|]. cbn [map sheet_ok] in *.
  destruct H as (Hn & W & Hp & Hr). split; [exact Hn|]. split; [apply strip_wf_track, W|]. split; [exact Hp|].
  apply IH. exact Hr.
Qed.

Lemma strip_wf_cue c : wf_cue c -> wf_cue (strip_cue c).
Proof.
  intros (Hne & Hlen & Hsheet & _). unfold wf_cue, strip_cue. cbn [cu_tracks cu_catalog].
  split; [destruct (cu_tracks c); [congruence|discriminate]|]. split; [rewrite lenN_length, map_length, <- lenN_length; exact Hlen|].
  split; [apply strip_sheet_ok, Hsheet|exact I].
Qed.

Lemma strip_before_end c total : before_end c total -> before_end (strip_cue c) total.
Proof.
  unfold before_end, strip_cue. cbn [cu_tracks]. intros H. apply Forall_map. eapply Forall_impl; [|exact H]. intros t Ht. exact Ht.
Qed.

(* the layout of a block: what Display writes and the property compares *)
Definition layout (b : cuesheet) : list (N * N * indexvec) * N :=
  (map (fun t => (tr_off t, tr_num t, tr_ix t)) (cue_tracks b), lo_off (cue_leadout b)).

Lemma strip_track_of t trk : track_of t = Some trk ->
  track_of (strip_track t) = Some (mkTrack (tr_off trk) (tr_num trk) IsrcNone false false (tr_ix trk)).
Proof.
  unfold track_of, strip_track. cbn [ct_indices ct_num ct_isrc ct_pre].
  destruct (ct_indices t) as [|i0 r]; [discriminate|]. destruct (indexvec_try_from _) as [iv| |]; try discriminate.
  intros H. injection H as <-. reflexivity.
Qed.

Lemma strip_tracks_of : forall ts trks, tracks_of ts = Some trks ->
  exists trks', tracks_of (map strip_track ts) = Some trks' /\
                map (fun t => (tr_off t, tr_num t, tr_ix t)) trks' = map (fun t => (tr_off t, tr_num t, tr_ix t)) trks.
Proof.
  induction ts as [|t r IH]; intros trks H; cbn [tracks_of map] in *.
  - injection H as <-. exists []. auto.
  - destruct (track_of t) as [trk|] eqn:Et; [|discriminate]. destruct (tracks_of r) as [tr|] eqn:Er; [|discriminate].
    injection H as <-. destruct (IH tr eq_refl) as (tr' & E' & L'). rewrite (strip_track_of t trk Et), E'.
    eexists. split; [reflexivity|]. cbn [map tr_off tr_num tr_ix]. rewrite L'. reflexivity.
Qed.

Lemma display_is_render c total b fname : wf_cue c -> block_of c total = Some b ->
  exists dls, display b fname = flat_map decorate_line dls /\
              map snd dls = file_line fname :: cue_lines display_style (strip_cue c) /\
              Forall (fun dl => wf_deco (fst dl)) dls.
Proof.
  intros (_ & _ & Hsheet & _) H. unfold block_of in H.
  destruct (tracks_of (cu_tracks c)) as [trks|] eqn:E; [|discriminate]. injection H as <-.
  pose proof (sheet_ok_wf _ _ _ Hsheet) as Wall.
  assert (G : forall ts trks, Forall wf_track ts -> tracks_of ts = Some trks ->
    exists dls, flat_map display_track trks = flat_map decorate_line dls /\
                map snd dls = flat_map (track_lines display_style) (map strip_track ts) /\
                Forall (fun dl => wf_deco (fst dl)) dls).
  { induction ts as [|t r IH]; intros tk W Ht; cbn [tracks_of] in Ht.
    - injection Ht as <-. exists []. cbn. auto.
    - inversion W as [|? ? Wt Wr]; subst. destruct (track_of t) as [trk|] eqn:Et; [|discriminate].
      destruct (tracks_of r) as [tr|] eqn:Er; [|discriminate]. injection Ht as <-.
      destruct (IH tr Wr eq_refl) as (dls & D1 & D2 & D3).
      exists (((mkDeco [32; 32] [] false, track_line display_style (strip_track t)) ::
               map (fun l => (mkDeco [32; 32; 32; 32] [] false, l)) (map (index_line display_style) (ct_indices t))) ++ dls).
      split; [|split].
      + cbn [flat_map]. rewrite (display_track_lines t trk Wt Et), D1. rewrite flat_map_app. reflexivity.
      + rewrite map_app, D2. cbn [map flat_map snd]. unfold track_lines at 2, strip_track at 2 3 4.
        cbn [ct_pre ct_isrc ct_indices app]. rewrite map_map. cbn [snd]. rewrite map_id.
        destruct (st_flags_first display_style); reflexivity.
      + apply Forall_app. split; [|exact D3]. constructor.
        * cbn [fst]. split; repeat constructor; cbn; try discriminate.
        * apply Forall_map. apply Forall_forall. intros l _. cbn [fst]. split; repeat constructor; cbn; try discriminate. }
  destruct (G (cu_tracks c) trks Wall E) as (dls & D1 & D2 & D3).
  exists ((mkDeco [] [] false, file_line fname) :: dls). split; [|split].
  - unfold display. cbn [cue_tracks flat_map]. rewrite D1. unfold decorate_line at 2. cbn [fst snd d_indent d_trail d_crlf app].
    unfold str_FILE, str_FLAC, file_line. rewrite <- !app_assoc. reflexivity.
  - cbn [map snd]. rewrite D2. unfold cue_lines, strip_cue. cbn [cu_catalog cu_tracks app]. reflexivity.
  - constructor; [cbn [fst]; split; constructor|exact D3].
Qed.

Lemma file_line_skipped fname : significant (file_line fname) = false.
Proof. reflexivity. Qed.

Lemma file_line_clean fname : no_nl fname -> clean (file_line fname) /\ no_nl (file_line fname).
Proof.
  intros H. split.
  - unfold file_line. change ([70; 73; 76; 69; 32; 34] ++ fname ++ [34; 32; 70; 76; 65; 67])
      with ((70 :: [73; 76; 69; 32; 34] ++ fname ++ [34; 32; 70; 76; 65]) ++ [67]) at 1 || idtac.
    replace ([70; 73; 76; 69; 32; 34] ++ fname ++ [34; 32; 70; 76; 65; 67])
      with ((70 :: ([73; 76; 69; 32; 34] ++ fname ++ [34; 32; 70; 76; 65])) ++ [67]) by (cbn [app]; rewrite <- !app_assoc; reflexivity).
    apply clean_intro; reflexivity.
  - unfold file_line. apply no_nl_app; [intros Hin; cbn in Hin; repeat (destruct Hin as [Hin|Hin]; [discriminate|]); exact Hin|].
    apply no_nl_app; [exact H|]. intros Hin; cbn in Hin; repeat (destruct Hin as [Hin|Hin]; [discriminate|]); exact Hin.
Qed.

(* exporting an imported block with Display and importing that text again reproduces the
   track and index layout (CATALOG, ISRC and FLAGS are not part of the exported text) *)
Theorem display_import p c total b fname : wf_cue c -> total mod 588 = 0 -> before_end c total ->
  block_of c total = Some b -> no_nl fname ->
  exists b', cue_parse p total (display b fname) = Ok b' /\ layout b' = layout b /\
             track_sample_ranges b' = track_sample_ranges b.
Proof.
  intros Wc Hm He Hb Hf.
  destruct (display_is_render c total b fname Wc Hb) as (dls & D1 & D2 & D3).
  pose proof (strip_wf_cue c Wc) as Wc'.
  assert (Ws : wf_style display_style).
  { split; [discriminate|]. repeat constructor; cbn; discriminate. }
  pose proof (cue_lines_ok display_style (strip_cue c) Ws Wc') as Hok.
  assert (Hmatch : cue_text_matches display_style (strip_cue c) (display b fname) = true).
  { unfold cue_text_matches. rewrite D1, lines_render.
    - rewrite D2. cbn [filter]. rewrite file_line_skipped.
      rewrite filter_all_true; [apply lines_eqb_refl|]. eapply Forall_impl; [|exact Hok]. intros l (_ & _ & S). exact S.
    - (* every line is decorated with blanks only, clean and newline free *)
      assert (Hs : Forall (fun l => clean l /\ no_nl l) (map snd dls)).
      { rewrite D2. constructor; [apply file_line_clean, Hf|]. eapply Forall_impl; [|exact Hok]. intros l (A & B & _). auto. }
      clear -D3 Hs. induction dls as [|[d l] q IH]; [constructor|].
      inversion D3; inversion Hs; subst. constructor; [cbn [fst snd] in *; tauto|apply IH; assumption]. }
  destruct (cue_import p display_style (strip_cue c) total (display b fname) Wc' Hm (strip_before_end c total He) Hmatch) as (b' & Hb' & Hp).
  exists b'. split; [exact Hp|].
  unfold block_of in Hb, Hb'. unfold strip_cue in Hb'. cbn [cu_tracks cu_catalog] in Hb'.
  destruct (tracks_of (cu_tracks c)) as [trks|] eqn:E; [|discriminate]. injection Hb as <-.
  destruct (strip_tracks_of (cu_tracks c) trks E) as (trks' & E' & L'). rewrite E' in Hb'. injection Hb' as <-.
  split.
  - unfold layout. cbn [cue_tracks cue_leadout lo_off]. rewrite L'. reflexivity.
  - unfold track_sample_ranges, track_offsets. cbn [cue_tracks cue_leadout lo_off]. f_equal. f_equal.
    (* the INDEX 01 positions are a function of the layout *)
    assert (M : forall l1 l2 : list track, map (fun t => (tr_off t, tr_num t, tr_ix t)) l1 = map (fun t => (tr_off t, tr_num t, tr_ix t)) l2 ->
                map (fun t => sat_add64 (tr_off t) (ix_off (iv_01 (tr_ix t)))) l1 = map (fun t => sat_add64 (tr_off t) (ix_off (iv_01 (tr_ix t)))) l2).
    { induction l1 as [|x l1 IH]; intros [|y l2] H; cbn [map] in *; try discriminate; [reflexivity|].
      injection H as H1 H2 H3 H4. rewrite H1, H3, (IH l2 H4). reflexivity. }
    apply M, L'.
Qed.
