(* E2E/NoPanicFile.v — C04 composed with the reader front-ends, for EVERY byte string: the blocks the stream decoder model
   hands out before it ends (cleanly or with an error), followed by any number of failing frames, form a stream on which
   no seek-free history of the sample, byte or channel reader model panics (readers area: NoPanic.v).  The hypotheses of
   the readers' theorem are discharged from the codec side: decoded blocks are well formed (dec_blocks_good) and their
   sample count fits 64 bits because every frame consumed at least two bytes (file shorter than 2^48 bytes). *)
From Coq Require Import List NArith ZArith Lia.
From FlacBase Require Import Res Bits.
From FlacCodec Require Ast Stream Dec DecLengths Enc Enc_proofs.
From FlacReaders Require Ser Readers Seek Spec Damaged NoPanic Props_NoPanic.
From FlacE2E Require Import Sample ReadBridge DecodedFile DamagedFile OutputBound.
Import ListNotations.
Open Scope N_scope.

Module RN := FlacReaders.NoPanic.

Definition all_bad (tail : list R.slot) : Prop :=
  Forall (fun s => match s with R.SBad g => Ser.pcm_frames g < FlacReaders.RNum.U64 | R.SFrame _ => False end) tail.

Lemma goodlen_blocks ch blocks tail : 1 <= ch -> Forall (good_block ch) blocks -> all_bad tail ->
  RN.goodlen (map R.SFrame blocks ++ tail) = samples_of blocks.
Proof.
  intros Hc G Hb. induction G as [|b l Gb _ IH]; cbn [map app RN.goodlen].
  - unfold samples_of, FlacCodec.Enc_proofs.blocks_samples. cbn. induction Hb as [|s t Hs _ IHt]; [reflexivity|].
    destruct s; [contradiction|]. cbn [RN.goodlen]. exact IHt.
  - rewrite IH. unfold samples_of, FlacCodec.Enc_proofs.blocks_samples. cbn [fold_right].
    destruct (good_block_wf ch b Hc Gb) as (_ & E & _). rewrite E. reflexivity.
Qed.

Lemma samples_of_bound ch blocks : 1 <= ch -> Forall (good_block ch) blocks -> samples_of blocks <= 65535 * N.of_nat (length blocks).
Proof.
  intros Hc G. induction G as [|b l Gb _ IH]; unfold samples_of, FlacCodec.Enc_proofs.blocks_samples in *; cbn [fold_right length]; [lia|].
  destruct (good_block_wf ch b Hc Gb) as (_ & _ & Hbl & _). lia.
Qed.

Theorem any_file_readers_never_panic : forall file si frames en,
  CS.dec_stream file = Some (si, frames, en) -> 1 <= A.si_channels si ->
  N.of_nat (length file) < 2 ^ 48 ->
  exists blocks, frames = map CS.interleave_frame blocks /\
    forall (F : R.file) tail,
      R.f_slots F = map R.SFrame blocks ++ tail -> all_bad tail -> R.f_channels F = A.si_channels si ->
      (forall ops, RS.no_sseek ops -> Forall FlacReaders.Damaged.s_consume_ok (snd (FlacReaders.Seek.sample_run F ops)) ->
         Forall (fun x => forall k, snd x <> R.OPanic k) (snd (FlacReaders.Seek.sample_run F ops))) /\
      (forall ops, 1 <= Ser.bytes_per_sample (R.f_bps F) <= 4 ->
         RS.no_bseek ops -> Forall FlacReaders.Damaged.b_consume_ok (snd (FlacReaders.Seek.byte_run F ops)) ->
         Forall (fun x => forall k, snd x <> R.OPanic k) (snd (FlacReaders.Seek.byte_run F ops))) /\
      (forall ops, R.f_rev F = R.Repaired ->
         RS.no_cseek ops -> Forall FlacReaders.Damaged.c_consume_ok (snd (FlacReaders.Seek.chan_run F ops)) ->
         Forall (fun x => forall k, snd x <> R.OPanic k) (snd (FlacReaders.Seek.chan_run F ops))).
Proof.
  intros file si frames en Hd Hch Hlen.
  unfold CS.dec_stream in Hd. destruct (CS.read_metadata_min file) as [[si' audio]|] eqn:Em; [|discriminate].
  pose proof (dec_frames_of_blocks (S (length audio)) si' 0 audio []) as Hfb. cbn [map] in Hfb.
  destruct (CS.dec_frames (S (length audio)) si' 0 audio []) as [fr e'] eqn:Ef. injection Hd as -> -> ->.
  destruct (dec_blocks (S (length audio)) si 0 audio []) as [blocks en'] eqn:Eb. cbn [fst snd] in Hfb. injection Hfb as Efr Een.
  destruct (dec_blocks_good si Hch _ _ _ _ _ _ Eb) as (new & Enew & Gn). cbn [rev app] in Enew. subst new.
  pose proof (dec_blocks_count si _ _ _ _ _ _ Eb) as Hc. cbn [length] in Hc. rewrite Nat.sub_0_r in Hc.
  pose proof (metadata_min_shorter _ _ _ Em) as Ha.
  exists blocks. split; [exact Efr|].
  intros F tail Hs Hb Hcf.
  assert (Hok : RN.slots_ok (R.f_channels F) (R.f_slots F)).
  { rewrite Hs, Hcf. unfold RN.slots_ok. apply Forall_app. split.
    - apply Forall_forall. intros s Hin. apply in_map_iff in Hin. destruct Hin as (b & <- & Hbin).
      rewrite Forall_forall in Gn. apply (good_block_wf _ _ Hch (Gn b Hbin)).
    - eapply Forall_impl; [|exact Hb]. intros s Hsb. destruct s; [contradiction|exact I]. }
  assert (Hr : RN.goodlen (R.f_slots F) < FlacReaders.RNum.U64).
  { rewrite Hs, (goodlen_blocks _ _ _ Hch Gn Hb). pose proof (samples_of_bound _ _ Hch Gn) as B.
    unfold FlacReaders.RNum.U64. change (2 ^ 48) with 281474976710656 in Hlen. lia. }
  assert (Hbad : forall g, In (R.SBad g) (R.f_slots F) -> Ser.pcm_frames g < FlacReaders.RNum.U64).
  { intros g Hin. rewrite Hs in Hin. apply in_app_or in Hin. destruct Hin as [Hin|Hin].
    - apply in_map_iff in Hin. destruct Hin as (b & E & _). discriminate.
    - unfold all_bad in Hb. rewrite Forall_forall in Hb. exact (Hb _ Hin). }
  split; [|split].
  - intros ops. apply FlacReaders.Props_NoPanic.C07_sample_reader_never_panics; assumption.
  - intros ops Hw. apply FlacReaders.Props_NoPanic.C07_byte_reader_never_panics; assumption.
  - intros ops Hrev. apply FlacReaders.Props_NoPanic.C07_channel_reader_never_panics; assumption.
Qed.
