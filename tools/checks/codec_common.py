"""Shared proof/model stage for the codec properties (C01-C05, C14, C16, C17, C19).
Owned by the integrator.  Checks call:

    from checks import codec_common
    ok = codec_common.proof_stage(chk, pid)             # builds coq/base + coq/codec, Print Assumptions
    res = codec_common.run_model(chk, kind, cases)      # run extracted model on cases -> list of result strings

Until the codec model lands these are stubs that only build coq/base."""
import os
import vlib
from vlib import VERIF

BASE = os.path.join(VERIF, "coq", "base")


def proof_stage(chk, pid, theorems=None):
    return vlib.proof_stage(
        chk, coq_dirs=[BASE], build_dir=BASE, qflags="-Q . FlacBase",
        requires=["Coq.Lists.List", "Coq.NArith.NArith", "FlacBase.Bits", "FlacBase.Crc", "FlacBase.Pins"],
        theorems=theorems or ["crc16_valid_single_bit_detected", "crc8_valid_single_bit_detected"],
        obligation_files=[(BASE, ["Res.v", "Bits.v", "Crc.v", "Pins.v"])],
        gen_steps=["python3 %s/tools/gen_crc.py %s %s/GenCrc.v" % (VERIF, vlib.REPO, BASE)])


def run_model(chk, kind, cases):
    """kind in {"dec_stream", "dec_subset", "struct_parse", ...}; cases: list of dicts from the harness.
    Returns None while the model for `kind` is not available (the caller then skips the diff)."""
    return None
