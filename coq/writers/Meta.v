(* writers/Meta.v — metadata datatypes of the writer area and their byte serialisation.
   Mirrors the STREAMINFO / SEEKTABLE / PADDING parts of src/metadata/mod.rs and
   write_blocks (src/metadata/mod.rs:904).  Other optional blocks (VORBIS_COMMENT, PICTURE,
   APPLICATION, CUESHEET) are opaque: a kind and the body bytes the block serialises to. *)
From FlacBase Require Export Res Bits.
Open Scope N_scope.

(* Error variants of flac_codec::Error used in this area, mapped onto FlacBase.Res.err
   (class is compared strictly by the check, the variant softly). *)
Definition EInvalidBitsPerSample := EBps.
Definition EInvalidSampleRate := ESampleRate.
Definition EExcessiveChannels := EChannels.
Definition EExcessiveTotalSamples := ETooManySamples.
Definition ESamplesNotDivisibleByChannels := EOther.
Definition EInvalidTotalSamples := EOther.     (* also InvalidTotalBytes *)
Definition ESampleCountMismatch := EOther.
Definition ENoSamples := EOther.
Definition EChannelCountMismatch := EOther.
Definition EChannelLengthMismatch := EOther.
Definition EInvalidSeekTablePoint := EOther.
Definition EExcessiveBlockSize := EBlockSize.
Definition EOptions := EOther.                  (* encode::OptionsError (any variant) *)

(* metadata/mod.rs:2047 SeekPoint *)
Inductive mpoint :=
| Defined (sample_offset byte_offset frame_samples : N)
| Placeholder.

(* metadata/mod.rs:2072 impl contiguous::Adjacent for SeekPoint: is_next self previous *)
Definition mpoint_is_next (self previous : mpoint) : bool :=
  match self with
  | Defined o _ _ => match previous with Defined po _ _ => po <? o | Placeholder => false end
  | Placeholder => true
  end.
(* metadata/mod.rs:2769 is_contiguous (valid_first is always true for seek points) *)
Fixpoint contiguous_from (prev : mpoint) (l : list mpoint) : bool :=
  match l with [] => true | x :: r => mpoint_is_next x prev && contiguous_from x r end.
Definition is_contiguous (l : list mpoint) : bool :=
  match l with [] => true | x :: r => contiguous_from x r end.

(* metadata/mod.rs:1990 SeekTable::MAX_POINTS = (1 << 24) / ((64 + 64 + 16) / 8) *)
Definition MAX_POINTS : N := 932067.
(* metadata/mod.rs:377 BlockSize::MAX *)
Definition BLOCKSIZE_MAX : N := 16777215.
(* metadata/mod.rs:1677 Streaminfo::MAX_FRAME_SIZE *)
Definition MAX_FRAME_SIZE : N := 16777215.

Inductive okind := KVorbisComment | KPicture | KApplication | KCuesheet.

(* metadata/mod.rs:4792 private::OptionalBlock *)
Inductive oblock :=
| BPadding (size : N)
| BSeekTable (points : list mpoint)
| BOther (kind : okind) (body : list N).

(* metadata/mod.rs:1642 Streaminfo *)
Record streaminfo := {
  si_min_bs : N; si_max_bs : N;
  si_min_fs : option N; si_max_fs : option N;      (* Option<NonZero<u32>> *)
  si_rate : N; si_channels : N; si_bps : N;
  si_total : option N;                             (* Option<NonZero<u64>> *)
  si_md5 : option (list N) }.

(* ---- sizes (metadata/mod.rs:155 MetadataBlock::bytes / total_size) *)
Definition oblock_size (b : oblock) : N :=
  match b with
  | BPadding s => s
  | BSeekTable pts => 18 * N.of_nat (length pts)
  | BOther _ body => N.of_nat (length body)
  end.
Definition HEADER_SIZE : N := 4.   (* BlockHeader::SIZE *)

(* block type codes, metadata/mod.rs:319 *)
Definition oblock_type (b : oblock) : N :=
  match b with
  | BPadding _ => 1
  | BOther KApplication _ => 2
  | BSeekTable _ => 3
  | BOther KVorbisComment _ => 4
  | BOther KCuesheet _ => 5
  | BOther KPicture _ => 6
  end.

(* n bytes, big-endian *)
Fixpoint be_bytes (n : nat) (v : N) : list N :=
  match n with O => [] | S k => (v / 256 ^ N.of_nat k) mod 256 :: be_bytes k v end.

(* a fixed-width unsigned field: bitstream-io reports an error when the value does not fit *)
Definition field (bits v : N) : res N := if v <? 2 ^ bits then Ok v else Err EIo.

(* metadata/mod.rs:257 BlockHeader::to_writer: last(1) type(7) size(24) *)
Definition ser_header (last : bool) (type size : N) : res (list N) :=
  sz <- (if size <=? BLOCKSIZE_MAX then Ok size else Err EExcessiveBlockSize);;
  Ok ((if last then 128 + type else type) :: be_bytes 3 sz).

(* metadata/mod.rs:2118 SeekPoint::to_writer *)
Definition ser_point (pt : mpoint) : list N :=
  match pt with
  | Defined s b n => be_bytes 8 s ++ be_bytes 8 b ++ be_bytes 2 n
  | Placeholder => be_bytes 8 (2 ^ 64 - 1) ++ be_bytes 8 0 ++ be_bytes 2 0
  end.

(* metadata/mod.rs:2010 SeekTable::to_writer: once a defined point has been seen, every later
   defined point must have a strictly larger sample offset (placeholders are passed over) *)
Definition U64_MAX : N := 18446744073709551615.
Fixpoint seektable_ok (last : option N) (l : list mpoint) : bool :=
  match l with
  | [] => true
  | pt :: r =>
      match last with
      | None =>
          match pt with
          | Defined o _ _ => negb (o =? U64_MAX) && seektable_ok (Some o) r   (* u64::MAX marks a placeholder *)
          | Placeholder => seektable_ok None r
          end
      | Some lo =>
          match pt with
          | Defined o _ _ => negb (o =? U64_MAX) && ((lo <? o) && seektable_ok (Some o) r)
          | Placeholder => seektable_ok last r
          end
      end
  end.

Definition ser_oblock_body (b : oblock) : res (list N) :=
  match b with
  | BPadding s => Ok (repeat 0 (N.to_nat s))                      (* Padding::to_writer: w.pad *)
  | BSeekTable pts =>
      if seektable_ok None pts then Ok (flat_map ser_point pts) else Err EInvalidSeekTablePoint
  | BOther _ body => Ok body
  end.

(* BlockHeader::new + to_writer, then the body (metadata/mod.rs:1464 BlockRef::to_writer) *)
Definition ser_oblock (last : bool) (b : oblock) : res (list N) :=
  body <- ser_oblock_body b;;
  h <- ser_header last (oblock_type b) (N.of_nat (length body));;
  Ok (h ++ body).

(* metadata/mod.rs:1740 Streaminfo::to_writer.
   The bits-per-sample field: `self.bits_per_sample.count().checked_sub::<0b11111>(1).unwrap()`
   (after the fix of F-C11a; before it the subtraction was done on the SignedBitCount, which
   refuses to go below one bit, see streaminfo_bps_field_pre_fix). *)
Definition streaminfo_bps_field (bps : N) : res N :=
  if (1 <=? bps) && (bps - 1 <=? 31) then Ok (bps - 1) else Panic PUnwrap.
Definition streaminfo_bps_field_pre_fix (bps : N) : res N :=
  if (2 <=? bps) && (bps - 1 <=? 31) then Ok (bps - 1) else Panic PUnwrap.

Definition opt0 (o : option N) : N := match o with Some v => v | None => 0 end.

(* 16+16+24+24+20+3+5+36 bits then 16 digest bytes.  NonZero<u8> channels are written as
   value-1 (bitstream-io), Option<NonZero<_>> as 0 for None.  The 64 bits rate|channels|bps|
   total are packed into one big-endian word. *)
Definition ser_streaminfo_body (si : streaminfo) : res (list N) :=
  mnb <- field 16 (si_min_bs si);;
  mxb <- field 16 (si_max_bs si);;
  mnf <- field 24 (opt0 (si_min_fs si));;
  mxf <- field 24 (opt0 (si_max_fs si));;
  rate <- field 20 (si_rate si);;
  ch <- (if si_channels si =? 0 then Err EIo else field 3 (si_channels si - 1));;
  bps <- streaminfo_bps_field (si_bps si);;
  tot <- field 36 (opt0 (si_total si));;
  let digest := match si_md5 si with Some d => d | None => repeat 0 16 end in
  Ok (be_bytes 2 mnb ++ be_bytes 2 mxb ++ be_bytes 3 mnf ++ be_bytes 3 mxf
      ++ be_bytes 8 (rate * 2 ^ 44 + ch * 2 ^ 41 + bps * 2 ^ 36 + tot) ++ digest).

Definition FLAC_TAG : list N := [102; 76; 97; 67].   (* "fLaC" *)

(* iter_last: the last block carries the flag *)
Fixpoint ser_oblocks (l : list oblock) : res (list N) :=
  match l with
  | [] => Ok []
  | b :: r =>
      x <- ser_oblock (match r with [] => true | _ => false end) b;;
      y <- ser_oblocks r;;
      Ok (x ++ y)
  end.

(* metadata/mod.rs:904 write_blocks over BlockList::blocks() (STREAMINFO first).
   The "only once" checks of write_blocks concern user-supplied blocks (two VORBIS_COMMENTs,
   two PNG icons); a BlockList holds at most one SEEKTABLE by construction (insert replaces).
   Opaque user blocks are assumed jointly valid. *)
Definition write_blocks (si : streaminfo) (l : list oblock) : res (list N) :=
  body <- ser_streaminfo_body si;;
  h <- ser_header (match l with [] => true | _ => false end) 0 (N.of_nat (length body));;
  rest <- ser_oblocks l;;
  Ok (FLAC_TAG ++ h ++ body ++ rest).

(* length of the metadata region that write_blocks produces: tag, STREAMINFO, optional blocks *)
Definition meta_len (l : list oblock) : N :=
  4 + (HEADER_SIZE + 34) + fold_right (fun b acc => HEADER_SIZE + oblock_size b + acc) 0 l.

(* ---- BlockList operations used by the encoder (metadata/mod.rs:4363) *)
Definition is_padding (b : oblock) : bool := match b with BPadding _ => true | _ => false end.
Definition is_seektable (b : oblock) : bool := match b with BSeekTable _ => true | _ => false end.

(* BlockList::remove::<Padding> *)
Definition remove_padding (l : list oblock) : list oblock := filter (fun b => negb (is_padding b)) l.

(* BlockList::update::<Padding>(|p| p.size = size): first instance, or push a new one *)
Fixpoint set_first_padding (size : N) (l : list oblock) : option (list oblock) :=
  match l with
  | [] => None
  | BPadding _ :: r => Some (BPadding size :: r)
  | b :: r => match set_first_padding size r with Some r' => Some (b :: r') | None => None end
  end.
Definition update_padding (size : N) (l : list oblock) : list oblock :=
  match set_first_padding size l with Some l' => l' | None => l ++ [BPadding size] end.

(* BlockList::insert::<SeekTable> (MULTIPLE = false): replace the first, or push *)
Fixpoint set_first_seektable (pts : list mpoint) (l : list oblock) : option (list oblock) :=
  match l with
  | [] => None
  | BSeekTable _ :: r => Some (BSeekTable pts :: r)
  | b :: r => match set_first_seektable pts r with Some r' => Some (b :: r') | None => None end
  end.
Definition insert_seektable (pts : list mpoint) (l : list oblock) : list oblock :=
  match set_first_seektable pts l with Some l' => l' | None => l ++ [BSeekTable pts] end.

(* BlockList::get_pair_mut::<SeekTable, Padding>: the first instance of each *)
Fixpoint first_seektable (l : list oblock) : option (list mpoint) :=
  match l with [] => None | BSeekTable pts :: _ => Some pts | _ :: r => first_seektable r end.
Fixpoint first_padding (l : list oblock) : option N :=
  match l with [] => None | BPadding s :: _ => Some s | _ :: r => first_padding r end.

(* encode.rs:1944 sort keys; BlockList::sort_by = stable sort_by_key *)
Definition sort_key (b : oblock) : N :=
  match b with
  | BOther KVorbisComment _ => 0
  | BSeekTable _ => 1
  | BOther KPicture _ => 2
  | BOther KApplication _ => 3
  | BOther KCuesheet _ => 4
  | BPadding _ => 5
  end.
Fixpoint insert_sorted (x : oblock) (l : list oblock) : list oblock :=
  match l with
  | [] => [x]
  | y :: r => if sort_key x <=? sort_key y then x :: y :: r else y :: insert_sorted x r
  end.
Definition sort_blocks (l : list oblock) : list oblock := fold_right insert_sorted [] l.
