(* Extraction of the metadata model for the correspondence driver (ExtrOcamlBasic only). *)
From Coq Require Extraction ExtrOcamlBasic.
From FlacMeta Require Import Bytes Blocks BlockList Utf8 Cue Accessors Sniff CueRender.
Extraction Language OCaml.
Extraction "metadata_model.ml" read_metadata read_blocks write_blocks block_bytes body_size utf8_valid_std
  cue_parse decoded_len duration channel_mask track_sample_ranges track_byte_ranges display catalog_text cue_tracks sniff
  cue_text_matches block_of cue_lines.
