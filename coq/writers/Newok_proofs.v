(* writers/Newok_proofs.v — C15, constructors: for every Options value the public API can build,
   the three constructors never panic, succeed exactly on the documented argument set and return
   an error outside it.  (The argument checks are in Params_proofs.v; here: once they pass, the
   rest of Encoder::new — placeholder seek table, block sort, initial write_blocks — succeeds.) *)
From Coq Require Import Sorting.Sorted.
From FlacWriters Require Import Writers Lists_proofs Params_proofs Finalize_proofs Encoder_proofs Seek_proofs Finish_proofs.
Open Scope N_scope.

Lemma user_ok_ser_ok b : oblock_user_ok b -> oblock_ser_ok b.
Proof. destruct b; cbn; auto. contradiction. Qed.

Lemma insert_sorted_forall (P : oblock -> Prop) x : forall l, P x -> Forall P l -> Forall P (insert_sorted x l).
Proof.
  induction l as [|y l IH]; intros Hx F; cbn [insert_sorted]; [constructor; auto|].
  inversion F; subst. destruct (sort_key x <=? sort_key y); constructor; auto.
Qed.
Lemma sort_blocks_forall (P : oblock -> Prop) l : Forall P l -> Forall P (sort_blocks l).
Proof.
  unfold sort_blocks. induction 1 as [|x l Hx F IH]; cbn [fold_right]; [constructor|].
  apply insert_sorted_forall; auto.
Qed.

Lemma insert_seektable_ser_ok pts l : Forall oblock_ser_ok l -> oblock_ser_ok (BSeekTable pts) ->
  Forall oblock_ser_ok (insert_seektable pts l).
Proof.
  intros F Hp. unfold insert_seektable. destruct (set_first_seektable pts l) as [l'|] eqn:E.
  - eapply ser_ok_set_seektable; eauto.
  - apply Forall_app. split; [exact F|constructor; [exact Hp|constructor]].
Qed.

Lemma contiguous_repeat_placeholder k : is_contiguous (repeat Placeholder k) = true.
Proof. destruct k; cbn [repeat is_contiguous]; [reflexivity|apply contiguous_placeholders]. Qed.

Section NewOk.
Variable p : profile.

Lemma placeholder_table_ok o rate total :
  options_wf o -> rate < 2 ^ 20 ->
  exists bl, placeholder_table p o rate total = Ok bl /\ Forall oblock_ser_ok bl.
Proof.
  intros (Hb & Hi & Hm) Hr. unfold placeholder_table.
  assert (Fm : Forall oblock_ser_ok (o_metadata o)).
  { eapply Forall_impl; [|exact Hm]. apply user_ok_ser_ok. }
  destruct total as [t|]; [|eexists; split; [reflexivity|exact Fm]].
  destruct (o_seektable_interval o) as [iv|]; [|eexists; split; [reflexivity|exact Fm]].
  unfold placeholders. destruct (N.eqb_spec (o_block_size o) 0); [lia|]. cbn [bind].
  destruct (filter_ok p iv rate (placeholders_go (N.to_nat (cdiv t (o_block_size o))) t (o_block_size o) 0) Hr) as (sel & Hs).
  { destruct iv; auto. cbn in Hi. lia. }
  rewrite Hs. cbn [bind].
  assert (U : Forall (fun s => sp_byte s = None) (take_n sel MAX_POINTS)).
  { eapply subseq_forall; [apply take_n_subseq|]. eapply subseq_forall; [eapply filter_subseq; eauto|].
    apply placeholders_go_undefined. }
  rewrite (map_to_mpoint_undefined _ U).
  set (k := length (take_n sel MAX_POINTS)).
  assert (Lk : N.of_nat k <= MAX_POINTS) by (unfold k; rewrite take_n_length; lia).
  unfold to_contiguous. rewrite repeat_length, contiguous_repeat_placeholder.
  destruct (N.leb_spec (N.of_nat k) MAX_POINTS); [|lia]. cbn [andb bind].
  eexists. split; [reflexivity|]. apply insert_seektable_ser_ok; [exact Fm|].
  cbn. rewrite repeat_length. split; [apply seektable_ok_placeholders|].
  unfold MAX_POINTS, BLOCKSIZE_MAX in *. lia.
Qed.

(* Encoder::new succeeds exactly when its argument checks do *)
Lemma encoder_new_class prefix o rate bps ch total :
  options_wf o -> 1 <= bps <= 32 ->
  is_ok (encoder_new p prefix o rate bps ch total) = is_ok (encoder_new_validate rate ch total) /\
  is_err (encoder_new p prefix o rate bps ch total) = is_err (encoder_new_validate rate ch total).
Proof.
  intros Ho Hbps. unfold encoder_new.
  destruct (encoder_new_validate rate ch total) as [[]|er|k] eqn:V; cbn [bind]; auto.
  unfold encoder_new_validate in V.
  destruct (N.ltb_spec rate 1048576) as [Hr|]; [|discriminate].
  destruct (N.leb_spec 1 ch); cbn [andb] in V; [|discriminate].
  destruct (N.leb_spec ch 8); cbn [andb] in V; [|discriminate].
  destruct (placeholder_table_ok o rate total Ho Hr) as (bl & Hbl & Fbl). rewrite Hbl. cbn [bind].
  destruct Ho as (Hb & _).
  destruct (write_blocks_ok {| si_min_bs := o_block_size o; si_max_bs := o_block_size o; si_min_fs := None;
                               si_max_fs := None; si_rate := rate; si_channels := ch; si_bps := bps;
                               si_total := total; si_md5 := None |} (sort_blocks bl)) as (m & Hm & _).
  - unfold streaminfo_ok; cbn. change (2 ^ 16) with 65536. change (2 ^ 20) with 1048576.
    change (2 ^ 24) with 16777216. change (2 ^ 36) with 68719476736.
    repeat split; try lia. destruct total as [t|]; cbn; [|lia].
    destruct (N.ltb_spec t MAX_SAMPLES); [unfold MAX_SAMPLES in *; lia|discriminate].
  - apply sort_blocks_forall. exact Fbl.
  - rewrite Hm. cbn [bind]. auto.
Qed.

(* the three constructors: never Panic, Ok exactly on the documented arguments, Err outside *)
Theorem sample_new_spec prefix o rate bps ch total : options_wf o ->
  is_ok (sample_new p prefix o rate bps ch total) = documented_args WSample rate bps ch total /\
  is_err (sample_new p prefix o rate bps ch total) = negb (documented_args WSample rate bps ch total).
Proof.
  intros Ho. rewrite <- (proj1 (new_validate_spec WSample rate bps ch total)).
  replace (negb (is_ok (new_validate WSample rate bps ch total))) with (is_err (new_validate WSample rate bps ch total)).
  2:{ destruct (new_validate_spec WSample rate bps ch total) as [A B]. rewrite A, B. reflexivity. }
  unfold sample_new, new_validate, signed_bit_count_32.
  destruct (N.leb_spec 1 bps); cbn [andb]; [|cbn; auto].
  destruct (N.leb_spec bps 32); cbn [andb bind]; [|cbn; auto].
  destruct (sample_total ch total) as [t|er|k]; cbn [bind]; auto.
  destruct (encoder_new_class prefix o rate bps ch t Ho ltac:(lia)) as [A B].
  destruct (encoder_new p prefix o rate bps ch t), (encoder_new_validate rate ch t) as [[]| |]; cbn in *; auto; discriminate.
Qed.

Theorem byte_new_spec en prefix o rate bps ch total : options_wf o ->
  is_ok (byte_new p en prefix o rate bps ch total) = documented_args WByte rate bps ch total /\
  is_err (byte_new p en prefix o rate bps ch total) = negb (documented_args WByte rate bps ch total).
Proof.
  intros Ho. rewrite <- (proj1 (new_validate_spec WByte rate bps ch total)).
  replace (negb (is_ok (new_validate WByte rate bps ch total))) with (is_err (new_validate WByte rate bps ch total)).
  2:{ destruct (new_validate_spec WByte rate bps ch total) as [A B]. rewrite A, B. reflexivity. }
  unfold byte_new, new_validate, signed_bit_count_32.
  destruct (N.leb_spec 1 bps); cbn [andb]; [|cbn; auto].
  destruct (N.leb_spec bps 32); cbn [andb bind]; [|cbn; auto].
  destruct (byte_total ch (bytes_per_sample_of bps) total) as [t|er|k]; cbn [bind]; auto.
  destruct (encoder_new_class prefix o rate bps ch t Ho ltac:(lia)) as [A B].
  destruct (encoder_new p prefix o rate bps ch t), (encoder_new_validate rate ch t) as [[]| |]; cbn in *; auto; discriminate.
Qed.

Theorem channel_new_spec prefix o rate bps ch total : options_wf o ->
  is_ok (channel_new p prefix o rate bps ch total) = documented_args WChannel rate bps ch total /\
  is_err (channel_new p prefix o rate bps ch total) = negb (documented_args WChannel rate bps ch total).
Proof.
  intros Ho. rewrite <- (proj1 (new_validate_spec WChannel rate bps ch total)).
  replace (negb (is_ok (new_validate WChannel rate bps ch total))) with (is_err (new_validate WChannel rate bps ch total)).
  2:{ destruct (new_validate_spec WChannel rate bps ch total) as [A B]. rewrite A, B. reflexivity. }
  unfold channel_new, new_validate, signed_bit_count_32.
  destruct (N.leb_spec 1 bps); cbn [andb]; [|cbn; auto].
  destruct (N.leb_spec bps 32); cbn [andb bind]; [|cbn; auto].
  destruct (channel_total total) as [t|er|k]; cbn [bind]; auto.
  destruct (encoder_new_class prefix o rate bps ch t Ho ltac:(lia)) as [A B].
  destruct (encoder_new p prefix o rate bps ch t), (encoder_new_validate rate ch t) as [[]| |]; cbn in *; auto; discriminate.
Qed.

End NewOk.

(* the defect F-C11a of the code before the fix: a 1-bit STREAMINFO could not be serialised *)
Example streaminfo_bps_field_pre_fix_panics : streaminfo_bps_field_pre_fix 1 = Panic PUnwrap.
Proof. reflexivity. Qed.
Example streaminfo_bps_field_one : streaminfo_bps_field 1 = Ok 0.
Proof. reflexivity. Qed.
