(* writers/Params.v — option setters and constructor-argument validation of the three writer
   front-ends, as total functions into `res` (Ok / Err / Panic).  Rust arithmetic is written
   out: a division by zero or an `unwrap` on None is `Panic`.

   Mirrors (src/encode.rs, after the fix: commits of branch verif-writers):
     Options::default/fast/best 1376-1408, 1635-1657; Options::block_size 1418;
     max_lpc_order 1430; max_partition_order 1447; padding 1486; no_padding 1505;
     seektable_seconds 1568; seektable_frames 1579; no_seektable 1585;
     FlacByteWriter::new 137-177; FlacSampleWriter::new 483-521; FlacChannelWriter::new 767-796;
     Encoder::new 1882-1917 (checks only; the rest is in Finalize.v); exact_div 4014;
     autocorrelate 3480 (debug assertion + ArrayVec capacity); best_partitions 3867. *)
From FlacWriters Require Export Meta.
Open Scope N_scope.

Inductive profile := Debug | Release.

(* ---- Rust integer operators that matter here *)
Definition u32_mul (p : profile) (a b : N) : res N :=
  let r := a * b in
  if r <? 2 ^ 32 then Ok r else match p with Debug => Panic POverflow | Release => Ok (r mod 2 ^ 32) end.
Definition u64_add (p : profile) (a b : N) : res N :=
  let r := a + b in
  if r <? 2 ^ 64 then Ok r else match p with Debug => Panic POverflow | Release => Ok (r mod 2 ^ 64) end.

(* encode.rs:1322 SeekTableInterval (NonZero<u8> seconds, NonZero<usize> frames) *)
Inductive interval := Seconds (s : N) | Frames (n : N).

(* encode.rs:1363 Options (clobber, mid_side, window, exhaustive_channel_correlation only steer
   the codec core and are not modelled) *)
Record options := {
  o_block_size : N;
  o_max_partition_order : N;
  o_max_lpc_order : option N;
  o_seektable_interval : option interval;
  o_metadata : list oblock }.

Definition options_default : options :=
  {| o_block_size := 4096; o_max_partition_order := 5; o_max_lpc_order := Some 8;
     o_seektable_interval := Some (Seconds 10); o_metadata := [BPadding 4096] |}.
Definition options_fast : options :=
  {| o_block_size := 1152; o_max_partition_order := 3; o_max_lpc_order := None;
     o_seektable_interval := Some (Seconds 10); o_metadata := [BPadding 4096] |}.
Definition options_best : options :=
  {| o_block_size := 4096; o_max_partition_order := 6; o_max_lpc_order := Some 12;
     o_seektable_interval := Some (Seconds 10); o_metadata := [BPadding 4096] |}.

Definition with_block_size (o : options) v := {| o_block_size := v; o_max_partition_order := o_max_partition_order o; o_max_lpc_order := o_max_lpc_order o; o_seektable_interval := o_seektable_interval o; o_metadata := o_metadata o |}.
Definition with_po (o : options) v := {| o_block_size := o_block_size o; o_max_partition_order := v; o_max_lpc_order := o_max_lpc_order o; o_seektable_interval := o_seektable_interval o; o_metadata := o_metadata o |}.
Definition with_lpc (o : options) v := {| o_block_size := o_block_size o; o_max_partition_order := o_max_partition_order o; o_max_lpc_order := v; o_seektable_interval := o_seektable_interval o; o_metadata := o_metadata o |}.
Definition with_interval (o : options) v := {| o_block_size := o_block_size o; o_max_partition_order := o_max_partition_order o; o_max_lpc_order := o_max_lpc_order o; o_seektable_interval := v; o_metadata := o_metadata o |}.
Definition with_metadata (o : options) v := {| o_block_size := o_block_size o; o_max_partition_order := o_max_partition_order o; o_max_lpc_order := o_max_lpc_order o; o_seektable_interval := o_seektable_interval o; o_metadata := v |}.

(* encode.rs:1418 (argument: u16) *)
Definition options_block_size (o : options) (block_size : N) : res options :=
  if block_size <? 16 then Err EOptions else Ok (with_block_size o block_size).

(* encode.rs:1430 (argument: Option<u8>): try_into NonZero, then <= 32 *)
Definition options_max_lpc_order (o : options) (max_lpc_order : option N) : res options :=
  match max_lpc_order with
  | None => Ok (with_lpc o None)
  | Some v => if (v =? 0) || (32 <? v) then Err EOptions else Ok (with_lpc o (Some v))
  end.

(* encode.rs:1447 (argument: u32) *)
Definition options_max_partition_order (o : options) (max_partition_order : N) : res options :=
  if max_partition_order <=? 15 then Ok (with_po o max_partition_order) else Err EOptions.

(* encode.rs:1486 (argument: u32): BlockSize::try_from, ZERO removes the block *)
Definition options_padding (o : options) (size : N) : res options :=
  if size <=? BLOCKSIZE_MAX then
    Ok (with_metadata o (if size =? 0 then remove_padding (o_metadata o) else update_padding size (o_metadata o)))
  else Err EOptions.

(* encode.rs:1505 *)
Definition options_no_padding (o : options) : options := with_metadata o (remove_padding (o_metadata o)).
(* encode.rs:1568 (u8), 1579 (usize), 1585 *)
Definition options_seektable_seconds (o : options) (s : N) : options :=
  with_interval o (if s =? 0 then None else Some (Seconds s)).
Definition options_seektable_frames (o : options) (n : N) : options :=
  with_interval o (if n =? 0 then None else Some (Frames n)).
Definition options_no_seektable (o : options) : options := with_interval o None.

(* ---- constructor arguments *)

(* bitstream-io SignedBitCount::<32>::try_from(u32): 1..=32 *)
Definition signed_bit_count_32 (bits_per_sample : N) : res N :=
  if (1 <=? bits_per_sample) && (bits_per_sample <=? 32) then Ok bits_per_sample else Err EInvalidBitsPerSample.

(* u32::div_ceil(8) *)
Definition bytes_per_sample_of (bps : N) : N := (bps + 7) / 8.

(* encode.rs:4014 exact_div after the fix of F-C15a: a zero divisor yields None *)
Definition exact_div (n rhs : N) : option N :=
  if negb (rhs =? 0) && (n mod rhs =? 0) then Some (n / rhs) else None.
(* before the fix: `(n % rhs == 0).then_some(n / rhs)` *)
Definition exact_div_pre_fix (n rhs : N) : res (option N) :=
  if rhs =? 0 then Panic PDivZero else Ok (if n mod rhs =? 0 then Some (n / rhs) else None).

(* encode.rs:511-517: total interleaved samples -> NonZero PCM frames *)
Definition sample_total (channels : N) (total_samples : option N) : res (option N) :=
  match total_samples with
  | None => Ok None
  | Some s =>
      match exact_div s channels with
      | None => Err ESamplesNotDivisibleByChannels
      | Some q => if q =? 0 then Err EInvalidTotalSamples else Ok (Some q)
      end
  end.

(* encode.rs:165-172: total bytes -> NonZero PCM frames *)
Definition byte_total (channels bytes_per_sample : N) (total_bytes : option N) : res (option N) :=
  match total_bytes with
  | None => Ok None
  | Some b =>
      match (match exact_div b channels with Some s => exact_div s bytes_per_sample | None => None end) with
      | None => Err ESamplesNotDivisibleByChannels
      | Some q => if q =? 0 then Err EInvalidTotalSamples else Ok (Some q)
      end
  end.

(* encode.rs:792 after the fix of F-C15b (Some(0) is an error like in the other two writers;
   before: `total_samples.and_then(NonZero::new)`, i.e. Some(0) silently meant "undeclared") *)
Definition channel_total (total_samples : option N) : res (option N) :=
  match total_samples with
  | None => Ok None
  | Some s => if s =? 0 then Err EInvalidTotalSamples else Ok (Some s)
  end.
Definition channel_total_pre_fix (total_samples : option N) : res (option N) :=
  match total_samples with
  | None => Ok None
  | Some s => Ok (if s =? 0 then None else Some s)
  end.

(* encode.rs:1880 *)
Definition MAX_SAMPLES : N := 68719476736.

(* encode.rs:1894-1917: the checks of Encoder::new, in the order of the struct literal *)
Definition encoder_new_validate (sample_rate channels : N) (total_samples : option N) : res unit :=
  if sample_rate <? 1048576 then
    if (1 <=? channels) && (channels <=? 8) then
      match total_samples with
      | None => Ok tt
      | Some s => if s <? MAX_SAMPLES then Ok tt else Err EExcessiveTotalSamples
      end
    else Err EExcessiveChannels
  else Err EInvalidSampleRate.

Inductive wkind := WByte | WSample | WChannel.

(* The argument checks of the three constructors up to and including those of Encoder::new:
   bit depth, then the declared total (evaluated as an argument of Encoder::new), then
   sample rate, channels, total < 2^36.  Returns (bits, bytes per sample, total PCM frames). *)
Definition new_validate (k : wkind) (sample_rate bits_per_sample channels : N) (total : option N)
  : res (N * N * option N) :=
  bps <- signed_bit_count_32 bits_per_sample;;
  let bytes := bytes_per_sample_of bps in
  t <- match k with
       | WByte => byte_total channels bytes total
       | WSample => sample_total channels total
       | WChannel => channel_total total
       end;;
  _ <- encoder_new_validate sample_rate channels t;;
  Ok (bps, bytes, t).

(* the documented argument set (rustdoc of the constructors + property text) *)
Definition unit_per_pcm_frame (k : wkind) (bps channels : N) : N :=
  match k with WByte => bytes_per_sample_of bps * channels | WSample => channels | WChannel => 1 end.
Definition documented_total (k : wkind) (bps channels : N) (total : option N) : bool :=
  match total with
  | None => true
  | Some t =>
      let u := unit_per_pcm_frame k bps channels in
      (t mod u =? 0) && (1 <=? t / u) && (t / u <? MAX_SAMPLES)
  end.
Definition documented_args (k : wkind) (sample_rate bps channels : N) (total : option N) : bool :=
  (1 <=? bps) && (bps <=? 32) && (1 <=? channels) && (channels <=? 8) && (sample_rate <? 2 ^ 20)
  && documented_total k bps channels total.

(* ---- the two places of the codec core whose capacity depends on an option value
        (the rest of the core is abstract in this area) *)

Definition MAX_LPC_COEFFS : N := 32.
(* encode.rs:3480 autocorrelate: debug assertion (after the fix of F-C01b: <=), then at most
   max_lpc_order + 1 pushes into ArrayVec<f64, MAX_LPC_COEFFS + 1> *)
Definition autocorrelate_guard (p : profile) (max_lpc_order windowed_len : N) : res unit :=
  _ <- match p with
       | Debug => if max_lpc_order <=? MAX_LPC_COEFFS then Ok tt else Panic PAssert
       | Release => Ok tt
       end;;
  if N.min (max_lpc_order + 1) windowed_len <=? MAX_LPC_COEFFS + 1 then Ok tt else Panic PCapacity.
Definition autocorrelate_guard_pre_fix (p : profile) (max_lpc_order windowed_len : N) : res unit :=
  _ <- match p with
       | Debug => if max_lpc_order <? MAX_LPC_COEFFS then Ok tt else Panic PAssert
       | Release => Ok tt
       end;;
  if N.min (max_lpc_order + 1) windowed_len <=? MAX_LPC_COEFFS + 1 then Ok tt else Panic PCapacity.

Definition MAX_PARTITIONS : N := 64.
Fixpoint ptz (q : positive) : N := match q with xO r => 1 + ptz r | _ => 0 end.
(* usize::trailing_zeros *)
Definition trailing_zeros (n : N) : N := match n with N0 => 64 | Npos q => ptz q end.
Definition cdiv (a b : N) : N := (a + b - 1) / b.

(* encode.rs:3867 best_partitions: for each tried order o, residuals.rchunks(block_size / 2^o)
   are collected into an ArrayVec of MAX_PARTITIONS entries (capacity panic beyond).
   `cap` is the bound on the tried order: after the fix of F-C01c
   min(trailing_zeros, max_partition_order, log2 MAX_PARTITIONS); before it, without the last. *)
Definition partitions_at (block_size residuals order : N) : res N :=
  let chunk := block_size / 2 ^ order in
  if chunk =? 0 then Panic PChunkZero else Ok (cdiv residuals chunk).
Fixpoint partitions_guard_go (block_size residuals : N) (orders : list N) : res unit :=
  match orders with
  | [] => Ok tt
  | o :: r =>
      n <- partitions_at block_size residuals o;;
      if n <=? MAX_PARTITIONS then partitions_guard_go block_size residuals r else Panic PCapacity
  end.
Definition orders_upto (n : N) : list N := map N.of_nat (seq 0 (S (N.to_nat n))).
Definition best_partitions_guard (block_size residuals max_partition_order : N) : res unit :=
  partitions_guard_go block_size residuals
    (orders_upto (N.min (N.min (trailing_zeros block_size) max_partition_order) 6)).
Definition best_partitions_guard_pre_fix (block_size residuals max_partition_order : N) : res unit :=
  partitions_guard_go block_size residuals
    (orders_upto (N.min (trailing_zeros block_size) max_partition_order)).
