(* Codec/Parser.v — the bit-parser monad (bitstream-io BigEndian BitReader over a byte source).
   Reading past the end of the input is Err EEof (std::io::ErrorKind::UnexpectedEof). *)
From FlacCodec Require Export Ast.
Open Scope N_scope.

Definition P (A : Type) := bits -> res (A * bits).
Definition pret {A} (a : A) : P A := fun s => Ok (a, s).
Definition pbind {A B} (p : P A) (f : A -> P B) : P B :=
  fun s => match p s with Ok (a, s') => f a s' | Err e => Err e | Panic k => Panic k end.
Definition pfail {A} (e : err) : P A := fun _ => Err e.
Definition ppanic {A} (k : panic_kind) : P A := fun _ => Panic k.
Definition plift {A} (x : res A) : P A := fun s => match x with Ok a => Ok (a, s) | Err e => Err e | Panic k => Panic k end.

Declare Scope parser_scope.
Delimit Scope parser_scope with P.
Notation "x <-- a ;; b" := (pbind a (fun x => b)) (at level 61, a at next level, right associativity) : parser_scope.
Notation "' p <-- a ;; b" := (pbind a (fun p => b)) (at level 61, p pattern, a at next level, right associativity) : parser_scope.
Open Scope parser_scope.

Definition p_rd (n : nat) : P N := fun s => match rd n s with Some (v, r) => Ok (v, r) | None => Err EEof end.
Definition p_rds (n : nat) : P Z := fun s => match rd_s n s with Some (v, r) => Ok (v, r) | None => Err EEof end.
Definition p_bit : P bool := fun s => match s with b :: r => Ok (b, r) | [] => Err EEof end.
Definition p_unary (stop : bool) : P N := fun s => match rd_unary stop s with Some (v, r) => Ok (v, r) | None => Err EEof end.
Definition p_guard (b : bool) (e : err) : P unit := if b then pret tt else pfail e.

Fixpoint p_repeat {A} (n : nat) (p : P A) : P (list A) :=
  match n with
  | O => pret []
  | S k => x <-- p ;; xs <-- p_repeat k p ;; pret (x :: xs)
  end.

(* skip to the next byte boundary given the total number of bits of the input that the
   parser started with (BitReader::byte_align) *)
Definition p_align (total : nat) : P unit :=
  fun s => let used := (total - length s)%nat in
           let pad := ((8 - used mod 8) mod 8)%nat in
           Ok (tt, skipn pad s).
