(* E2EMeta/FinishedBlocks.v — the block list an Encoder run ends with has the shape MetaBridge asks for: no opaque
   user blocks if there were none, at most one SEEKTABLE, that table contiguous (placeholders last) with every
   field in range.  This discharges the hypotheses of C11_sample_writer_metadata_read_in_full for runs whose options
   carry only PADDING (the presets). *)
From Coq Require Import List NArith ZArith Lia.
From FlacBase Require Import Res Bits.
From FlacWriters Require Import Meta Params Finalize Finalize_proofs Seek_proofs Encoder_proofs Finish_proofs Newok_proofs
     Params_proofs Writers Run_proofs C09_proofs Props_C09.
From FlacMeta Require Props_C11.
From FlacE2EMeta Require Import MetaBridge.
Import ListNotations.
Open Scope N_scope.

Definition good_block (b : oblock) : Prop := plain b /\ points_ok b /\ contiguous_ok b.
Definition good_table (pts : list mpoint) : Prop := Forall point_ok pts /\ is_contiguous pts = true.

Lemma good_table_block pts : good_table pts -> good_block (BSeekTable pts).
Proof. intros [A B]. repeat split; assumption. Qed.
Lemma good_padding n : good_block (BPadding n).
Proof. repeat split. Qed.

(* ---- the list operations keep the shape ---- *)
Lemma set_first_seektable_good pts : forall l l', set_first_seektable pts l = Some l' -> good_table pts ->
  Forall good_block l -> Forall good_block l' /\ seektables l' = seektables l.
Proof.
  induction l as [|b r IH]; intros l' H Gp F; cbn [set_first_seektable] in H; [discriminate|].
  apply Forall_cons_iff in F. destruct F as [Gb Gr]. destruct b as [n|old|k body].
  - destruct (set_first_seektable pts r) as [r'|] eqn:E; [|discriminate]. injection H as <-.
    destruct (IH r' eq_refl Gp Gr) as [A B]. split; [constructor; assumption|]. unfold seektables in *. cbn [filter is_seektable]. exact B.
  - injection H as <-. split; [constructor; [apply good_table_block; exact Gp|exact Gr]|]. reflexivity.
  - destruct (set_first_seektable pts r) as [r'|] eqn:E; [|discriminate]. injection H as <-.
    destruct (IH r' eq_refl Gp Gr) as [A B]. split; [constructor; assumption|]. unfold seektables in *. cbn [filter is_seektable]. exact B.
Qed.

Lemma set_first_seektable_none pts : forall l, set_first_seektable pts l = None -> seektables l = 0%nat.
Proof.
  induction l as [|b r IH]; intros H; [reflexivity|]. cbn [set_first_seektable] in H. unfold seektables in *.
  destruct b as [n|old|k body]; cbn [filter is_seektable]; try discriminate;
    (destruct (set_first_seektable pts r); [discriminate|apply IH; reflexivity]).
Qed.

Lemma first_seektable_none : forall l, first_seektable l = None -> seektables l = 0%nat.
Proof.
  induction l as [|b r IH]; intros H; [reflexivity|]. unfold seektables in *. destruct b; cbn [first_seektable filter is_seektable] in *; try discriminate; auto.
Qed.

Lemma seektables_app a b : seektables (a ++ b) = (seektables a + seektables b)%nat.
Proof. unfold seektables. rewrite filter_app, app_length. reflexivity. Qed.

Lemma insert_seektable_good pts l : good_table pts -> Forall good_block l -> (seektables l <= 1)%nat ->
  Forall good_block (insert_seektable pts l) /\ (seektables (insert_seektable pts l) <= 1)%nat.
Proof.
  intros Gp F Hs. unfold insert_seektable. destruct (set_first_seektable pts l) as [l'|] eqn:E.
  - destruct (set_first_seektable_good pts l l' E Gp F) as [A B]. split; [exact A|lia].
  - split; [apply Forall_app; split; [exact F|constructor; [apply good_table_block; exact Gp|constructor]]|].
    rewrite seektables_app, (set_first_seektable_none pts l E). cbn. lia.
Qed.

Lemma set_first_padding_good s : forall l l', set_first_padding s l = Some l' -> Forall good_block l ->
  Forall good_block l' /\ seektables l' = seektables l.
Proof.
  induction l as [|b r IH]; intros l' H F; cbn [set_first_padding] in H; [discriminate|].
  apply Forall_cons_iff in F. destruct F as [Gb Gr]. destruct b as [n|old|k body].
  - injection H as <-. split; [constructor; [apply good_padding|exact Gr]|reflexivity].
  - destruct (set_first_padding s r) as [r'|] eqn:E; [|discriminate]. injection H as <-.
    destruct (IH r' eq_refl Gr) as [A B]. split; [constructor; assumption|]. unfold seektables in *. simpl. f_equal. exact B.
  - destruct (set_first_padding s r) as [r'|] eqn:E; [|discriminate]. injection H as <-.
    destruct (IH r' eq_refl Gr) as [A B]. split; [constructor; assumption|]. unfold seektables in *. cbn [filter is_seektable]. exact B.
Qed.

Lemma seektables_cons x l : seektables (x :: l) = ((if is_seektable x then 1 else 0) + seektables l)%nat.
Proof. unfold seektables. simpl. destruct (is_seektable x); reflexivity. Qed.
Lemma insert_sorted_seektables x : forall l, seektables (insert_sorted x l) = seektables (x :: l).
Proof.
  induction l as [|y r IH]; cbn [insert_sorted]; [reflexivity|]. destruct (sort_key x <=? sort_key y); [reflexivity|].
  rewrite (seektables_cons y (insert_sorted x r)), IH, !seektables_cons. lia.
Qed.
Lemma sort_blocks_seektables l : seektables (sort_blocks l) = seektables l.
Proof.
  unfold sort_blocks. induction l as [|x l IH]; cbn [fold_right]; [reflexivity|]. rewrite insert_sorted_seektables, !seektables_cons. lia.
Qed.

(* ---- tables made of selected candidates and placeholders ---- *)
Lemma to_mpoint_ok (s : seekpoint) : sp_sample s < 2 ^ 64 -> (forall b, sp_byte s = Some b -> b < 2 ^ 64) -> sp_frames s < 2 ^ 16 ->
  point_ok (to_mpoint s).
Proof. intros A B C. unfold to_mpoint. destruct (sp_byte s) as [b|] eqn:E; [|exact I]. cbn. auto. Qed.

Definition cand_ok (s : seekpoint) : Prop :=
  sp_sample s < 2 ^ 64 /\ (forall b, sp_byte s = Some b -> b < 2 ^ 64) /\ sp_frames s < 2 ^ 16.

Lemma table_of_candidates sel k n : Forall cand_ok sel ->
  Forall point_ok (take_n (map to_mpoint sel ++ repeat Placeholder k) n).
Proof.
  intros F. apply Forall_forall. intros x Hx. apply in_take_n in Hx. apply in_app_or in Hx. destruct Hx as [Hx|Hx].
  - apply in_map_iff in Hx. destruct Hx as (s & <- & Hs). rewrite Forall_forall in F. destruct (F s Hs) as (A & B & C). apply to_mpoint_ok; assumption.
  - apply repeat_spec in Hx. subst x. exact I.
Qed.

(* candidates of a frame list whose totals fit u64 and whose blocks are below 2^16 *)
Definition total_snd (frames : list (N * N)) : N := fold_right (fun x acc => snd x + acc) 0 frames.
Lemma frame_seekpoints_cand : forall frames s c, Forall (fun n => n < 65536) (map fst frames) ->
  s + total_fst frames < 2 ^ 64 -> c + total_snd frames < 2 ^ 64 ->
  Forall cand_ok (frame_seekpoints s c frames).
Proof.
  induction frames as [|[n len] r IH]; intros s c Fb Hs Hc; cbn [frame_seekpoints]; [constructor|].
  cbn [map] in Fb. apply Forall_cons_iff in Fb. destruct Fb as [Hb Fb].
  cbn [total_fst total_snd fold_right fst snd] in *. fold (total_fst r) in Hs. fold (total_snd r) in Hc.
  constructor.
  - unfold cand_ok. cbn [sp_sample sp_byte sp_frames]. change (2 ^ 16) with 65536. split; [lia|]. split; [|exact Hb].
    intros b E. injection E as <-. lia.
  - apply IH; try assumption; lia.
Qed.

Lemma subseq_forall' {A} (P : A -> Prop) l' l : subseq l' l -> Forall P l -> Forall P l'.
Proof. apply subseq_forall. Qed.

(* ---- finalize keeps the shape ---- *)
Lemma finalize_seektable_good blocks sel blocks' :
  finalize_seektable blocks sel = Ok blocks' -> Forall cand_ok sel ->
  Forall good_block blocks -> (seektables blocks <= 1)%nat ->
  Forall good_block blocks' /\ (seektables blocks' <= 1)%nat.
Proof.
  unfold finalize_seektable, finalize_seektable_gen. intros H Hc F Hs.
  destruct (first_seektable blocks) as [old|] eqn:Es.
  - apply bind_ok in H. destruct H as (pts' & Hp & H). injection H as <-.
    apply to_contiguous_ok in Hp. destruct Hp as (-> & _ & Hcont).
    apply insert_seektable_good; try assumption. split; [apply table_of_candidates; exact Hc|exact Hcont].
  - destruct (first_padding blocks) as [ps|]; [|injection H as <-; auto].
    apply bind_ok in H. destruct H as (pts & Hp & H).
    apply to_contiguous_ok in Hp. destruct Hp as (-> & _ & Hcont).
    destruct (_ && _ && _ && _); [|injection H as <-; auto].
    destruct (set_first_padding _ blocks) as [bl|] eqn:Ep; injection H as <-; [|auto].
    destruct (set_first_padding_good _ blocks bl Ep F) as [A B].
    split.
    + apply Forall_app. split; [exact A|]. constructor; [|constructor]. apply good_table_block. split; [|exact Hcont].
      apply Forall_forall. intros x Hx. apply in_map_iff in Hx. destruct Hx as (sp & <- & Hsp). apply in_take_n in Hsp.
      rewrite Forall_forall in Hc. destruct (Hc sp Hsp) as (X & Y & Z). apply to_mpoint_ok; assumption.
    + rewrite seektables_app, B, (first_seektable_none blocks Es). cbn. lia.
Qed.

Section Finished.
Variable enc_block : N -> block -> res (list N).
Variable md5 : list N -> list N.
Hypothesis md5_length : forall l, length (md5 l) = 16%nat.
Hypothesis md5_bytes : forall l, Forall (fun b => b < 256) (md5 l).
Variable p : profile.

Theorem finished_blocks_good e f :
  enc_inv e -> enc_static e -> frames_nonempty e -> encoder_finalize md5 p e = Ok f ->
  Forall good_block (e_blocks e) -> (seektables (e_blocks e) <= 1)%nat ->
  Forall good_block (f_blocks f) /\ (seektables (f_blocks f) <= 1)%nat /\ md5_ok (f_si f).
Proof.
  intros I S Fn H F Hs. pose proof (encoder_finalize_spec md5 md5_length p e I S Fn) as Sp.
  destruct (finalize_total (e_si e) (e_samples_written e)) as [total|er|k]; [|congruence|contradiction].
  destruct Sp as (f' & sel & Hf & _ & Hb & Ss & Hsi & _). rewrite Hf in H. injection H as <-.
  assert (Hmd : md5_ok (f_si f')).
  { rewrite Hsi. unfold md5_ok, with_total_md5. cbn [si_md5]. split; [apply md5_length|apply md5_bytes]. }
  destruct (e_interval e) as [iv|].
  - destruct Hb as [_ Hb].
    assert (Hc : Forall cand_ok sel).
    { eapply subseq_forall; [exact Ss|]. destruct (inv_fit e I) as [Hts Htb]. unfold true_samples, true_bytes, sum_fst, sum_snd in *.
      apply frame_seekpoints_cand; [apply (inv_blocks e I)|exact Hts|exact Htb]. }
    destruct (finalize_seektable_good _ _ _ Hb Hc F Hs) as [A B]. auto.
  - rewrite Hb. auto.
Qed.

End Finished.

(* ---- the constructor's block list ---- *)
Lemma plain_good b : plain b -> (match b with BSeekTable _ => False | _ => True end) -> good_block b.
Proof. destruct b; intros A B; try contradiction; repeat split. Qed.

Lemma no_table_good l : Forall plain l -> seektables l = 0%nat -> Forall good_block l.
Proof.
  induction 1 as [|b l Hb F IH]; intros Hs; [constructor|]. rewrite seektables_cons in Hs.
  destruct b as [n|pts|k body]; cbn [is_seektable] in Hs; try lia; (constructor; [repeat split; auto|apply IH; lia]).
Qed.

Lemma undefined_points_ok l : Forall (fun s => sp_byte s = None) l -> Forall point_ok (map to_mpoint l).
Proof. intros F. rewrite (map_to_mpoint_undefined l F). apply Forall_forall. intros x Hx. apply repeat_spec in Hx. subst x. exact I. Qed.

Lemma encoder_new_blocks_good p o rate bps ch total e0 :
  encoder_new p [] o rate bps ch total = Ok e0 ->
  Forall plain (o_metadata o) -> seektables (o_metadata o) = 0%nat ->
  Forall good_block (e_blocks e0) /\ (seektables (e_blocks e0) <= 1)%nat.
Proof.
  unfold encoder_new. intros H Hpl Hs0.
  apply bind_ok in H. destruct H as ([] & _ & H). apply bind_ok in H. destruct H as (bl & Hbl & H).
  apply bind_ok in H. destruct H as (meta & _ & H). injection H as <-. cbn [e_blocks].
  assert (G : Forall good_block bl /\ (seektables bl <= 1)%nat).
  { unfold placeholder_table in Hbl. pose proof (no_table_good _ Hpl Hs0) as G0.
    destruct total as [t|]; [|injection Hbl as <-; split; [exact G0|lia]].
    destruct (o_seektable_interval o) as [iv|]; [|injection Hbl as <-; split; [exact G0|lia]].
    apply bind_ok in Hbl. destruct Hbl as (ph & Hph & Hbl). apply bind_ok in Hbl. destruct Hbl as (sel & Hsel & Hbl).
    apply bind_ok in Hbl. destruct Hbl as (pts & Hpts & Hbl). injection Hbl as <-.
    apply to_contiguous_ok in Hpts. destruct Hpts as (-> & _ & Hcont).
    apply insert_seektable_good; [|exact G0|lia]. split; [|exact Hcont].
    apply undefined_points_ok.
    assert (Uph : Forall (fun s => sp_byte s = None) ph).
    { unfold placeholders in Hph. destruct (o_block_size o =? 0); [discriminate|]. injection Hph as <-. apply placeholders_go_undefined. }
    eapply subseq_forall; [apply take_n_subseq|]. eapply subseq_forall; [eapply filter_subseq; exact Hsel|exact Uph]. }
  destruct G as [G1 G2]. split; [apply sort_blocks_forall; exact G1|rewrite sort_blocks_seektables; exact G2].
Qed.

Section SampleRuns.
Variable enc_block : N -> block -> res (list N).
Variable md5 : list N -> list N.
Hypothesis md5_length : forall l, length (md5 l) = 16%nat.
Hypothesis md5_bytes : forall l, Forall (fun b => b < 256) (md5 l).
Variable p : profile.

(* hypotheses on the options only (no user blocks other than PADDING — the presets), a finished run whose counters fit:
   the metadata area's full reader returns the final STREAMINFO and the blocks finalize settled on *)
Theorem sample_writer_metadata_read : forall (u : list N -> bool), FlacMeta.Props_C11.utf8_ok u ->
  forall o rate bps ch total w chunks f,
  options_wf o -> Forall plain (o_metadata o) -> seektables (o_metadata o) = 0%nat ->
  sample_new p [] o rate bps ch total = Ok w ->
  sample_run enc_block md5 p w chunks = Ok f -> counters_fit (f_enc f) ->
  FlacMeta.BlockList.read_blocks u (f_stream f) =
    Ok (FlacMeta.Blocks.BStreaminfo (convM (f_si f)) :: map convB (f_blocks f)) /\
  Forall plain (f_blocks f) /\ (seektables (f_blocks f) <= 1)%nat.
Proof.
  intros u Hu o rate bps ch total w chunks f Hwf Hpl Hs0 Hnew Hrun Hfit.
  destruct (sample_run_spec enc_block md5 p [] o rate bps ch total w chunks f Hwf Hnew Hrun Hfit)
    as (cs & r & _ & I & S & Fn & Se & _ & _ & _ & Hfin).
  assert (He0 : exists t, encoder_new p [] o rate bps ch t = Ok (sw_enc w)).
  { pose proof Hnew as Hn. unfold sample_new in Hn. apply bind_ok in Hn. destruct Hn as (b' & Hb' & Hn).
    apply bind_ok in Hn. destruct Hn as (t & _ & Hn). apply bind_ok in Hn. destruct Hn as (e0 & He0 & Hn).
    assert (Ew : sw_enc w = e0) by (injection Hn as <-; reflexivity). rewrite Ew.
    assert (Eb : b' = bps). { unfold signed_bit_count_32 in Hb'. destruct (_ && _); [injection Hb' as <-; reflexivity|discriminate]. }
    subst b'. exists t. exact He0. }
  destruct He0 as [t He0].
  destruct (encoder_new_blocks_good p o rate bps ch t (sw_enc w) He0 Hpl Hs0) as [G1 G2].
  assert (Eb : e_blocks (f_enc f) = e_blocks (sw_enc w)) by (destruct Se as (E & _); exact E).
  rewrite <- Eb in G1, G2.
  destruct (finished_blocks_good md5 md5_length md5_bytes p (f_enc f) f I S Fn Hfin G1 G2) as (A & B & C).
  assert (Hparts : Forall plain (f_blocks f) /\ Forall points_ok (f_blocks f) /\ Forall contiguous_ok (f_blocks f)).
  { repeat split; eapply Forall_impl; try exact A; intros b (X & Y & Z); assumption. }
  destruct Hparts as (P1 & P2 & P3).
  split; [|split; [exact P1|exact B]].
  apply (sample_writer_metadata_read_in_full u Hu enc_block md5 p o rate bps ch total w chunks f md5_length Hnew Hrun C P1 P2 P3 B).
Qed.

(* ... and in full: the finished file is (what the metadata area's writer serialises from those typed values) ++ frames,
   and the typed values satisfy the Rust type invariants and are canonical *)
Theorem sample_writer_file_typed : forall (u : list N -> bool),
  forall o rate bps ch total w chunks f,
  options_wf o -> Forall plain (o_metadata o) -> seektables (o_metadata o) = 0%nat ->
  sample_new p [] o rate bps ch total = Ok w ->
  sample_run enc_block md5 p w chunks = Ok f -> counters_fit (f_enc f) ->
  exists meta',
    f_stream f = meta' ++ frames_bytes (f_enc f) /\
    FlacMeta.BlockList.write_blocks (FlacMeta.Blocks.BStreaminfo (convM (f_si f)) :: map convB (f_blocks f)) = Ok meta' /\
    Forall (FlacMeta.Blocks_level.ty_block u) (FlacMeta.Blocks.BStreaminfo (convM (f_si f)) :: map convB (f_blocks f)) /\
    Forall FlacMeta.Blocks_level.canon_block (FlacMeta.Blocks.BStreaminfo (convM (f_si f)) :: map convB (f_blocks f)).
Proof.
  intros u o rate bps ch total w chunks f Hwf Hpl Hs0 Hnew Hrun Hfit.
  destruct (sample_run_spec enc_block md5 p [] o rate bps ch total w chunks f Hwf Hnew Hrun Hfit)
    as (cs & r & _ & I & S & Fn & Se & _ & _ & _ & Hfin).
  assert (He0 : exists t, encoder_new p [] o rate bps ch t = Ok (sw_enc w)).
  { pose proof Hnew as Hn. unfold sample_new in Hn. apply bind_ok in Hn. destruct Hn as (b' & Hb' & Hn).
    apply bind_ok in Hn. destruct Hn as (t & _ & Hn). apply bind_ok in Hn. destruct Hn as (e0 & He0 & Hn).
    assert (Ew : sw_enc w = e0) by (injection Hn as <-; reflexivity). rewrite Ew.
    assert (Eb : b' = bps). { unfold signed_bit_count_32 in Hb'. destruct (_ && _); [injection Hb' as <-; reflexivity|discriminate]. }
    subst b'. exists t. exact He0. }
  destruct He0 as [t He0].
  destruct (encoder_new_blocks_good p o rate bps ch t (sw_enc w) He0 Hpl Hs0) as [G1 G2].
  assert (Eb : e_blocks (f_enc f) = e_blocks (sw_enc w)) by (destruct Se as (E & _); exact E).
  rewrite <- Eb in G1, G2.
  destruct (finished_blocks_good md5 md5_length md5_bytes p (f_enc f) f I S Fn Hfin G1 G2) as (A & B & C).
  assert (Hparts : Forall plain (f_blocks f) /\ Forall points_ok (f_blocks f) /\ Forall contiguous_ok (f_blocks f)).
  { repeat split; eapply Forall_impl; try exact A; intros b (X & Y & Z); assumption. }
  destruct Hparts as (P1 & P2 & P3).
  destruct (sample_writer_file_layout enc_block md5 p o rate bps ch total w chunks f md5_length Hnew Hrun) as (meta' & Hw & Hs).
  exists meta'. split; [exact Hs|]. split; [exact (write_blocks_agree _ _ _ Hw C P1 P2 B)|].
  exact (written_metadata_typed u _ _ _ Hw C P1 P2 P3).
Qed.

End SampleRuns.

(* ---- the other two front-ends, by equality of runs (writers area, Cross_proofs) ---- *)
From FlacWriters Require Import Bytes_proofs Writers_proofs Cross_proofs.
From FlacE2E Require Transfer.

Theorem byte_writer_metadata_read : forall enc_block md5 p,
  (forall l, length (md5 l) = 16%nat) -> (forall l, Forall (fun b => b < 256) (md5 l)) ->
  forall (u : list N -> bool), FlacMeta.Props_C11.utf8_ok u ->
  forall en o rate bps ch tb wb chunks f,
  options_wf o -> Forall plain (o_metadata o) -> seektables (o_metadata o) = 0%nat ->
  byte_new p en [] o rate bps ch tb = Ok wb -> Forall byte_ok (concat chunks) ->
  byte_run enc_block md5 p wb chunks = Ok f -> counters_fit (f_enc f) ->
  FlacMeta.BlockList.read_blocks u (f_stream f) =
    Ok (FlacMeta.Blocks.BStreaminfo (convM (f_si f)) :: map convB (f_blocks f)).
Proof.
  intros enc_block md5 p H1 H2 u Hu en o rate bps ch tb wb chunks f Hwf Hpl Hs0 Hnew Hbytes Hrun Hfit.
  destruct (FlacE2E.Transfer.byte_new_sample_new p en o rate bps ch tb wb Hnew) as (ts & ws & Hs & Et).
  rewrite (byte_writer_is_sample_writer enc_block md5 p en o rate bps ch tb ts wb ws chunks Hwf Hnew Hs Et Hbytes) in Hrun.
  exact (proj1 (sample_writer_metadata_read enc_block md5 H1 H2 p u Hu o rate bps ch ts ws _ f Hwf Hpl Hs0 Hs Hrun Hfit)).
Qed.

Theorem channel_writer_metadata_read : forall enc_block md5 p,
  (forall l, length (md5 l) = 16%nat) -> (forall l, Forall (fun b => b < 256) (md5 l)) ->
  forall (u : list N -> bool), FlacMeta.Props_C11.utf8_ok u ->
  forall o rate bps ch tc wc chunks f,
  options_wf o -> Forall plain (o_metadata o) -> seektables (o_metadata o) = 0%nat ->
  channel_new p [] o rate bps ch tc = Ok wc -> Forall (chunk_ok (N.to_nat ch)) chunks ->
  channel_run enc_block md5 p wc chunks = Ok f -> counters_fit (f_enc f) ->
  FlacMeta.BlockList.read_blocks u (f_stream f) =
    Ok (FlacMeta.Blocks.BStreaminfo (convM (f_si f)) :: map convB (f_blocks f)).
Proof.
  intros enc_block md5 p H1 H2 u Hu o rate bps ch tc wc chunks f Hwf Hpl Hs0 Hnew Hchunks Hrun Hfit.
  destruct (FlacE2E.Transfer.channel_new_sample_new p o rate bps ch tc wc Hnew) as (ts & ws & Hs & Et).
  rewrite (channel_writer_is_sample_writer enc_block md5 p o rate bps ch tc ts wc ws chunks Hwf Hnew Hs Et Hchunks) in Hrun.
  exact (proj1 (sample_writer_metadata_read enc_block md5 H1 H2 p u Hu o rate bps ch ts ws _ f Hwf Hpl Hs0 Hs Hrun Hfit)).
Qed.

(* ... and the typed view of the finished file for the other two front-ends *)
Theorem byte_writer_file_typed : forall enc_block md5 p,
  (forall l, length (md5 l) = 16%nat) -> (forall l, Forall (fun b => b < 256) (md5 l)) ->
  forall (u : list N -> bool) en o rate bps ch tb wb chunks f,
  options_wf o -> Forall plain (o_metadata o) -> seektables (o_metadata o) = 0%nat ->
  byte_new p en [] o rate bps ch tb = Ok wb -> Forall byte_ok (concat chunks) ->
  byte_run enc_block md5 p wb chunks = Ok f -> counters_fit (f_enc f) ->
  exists meta',
    f_stream f = meta' ++ frames_bytes (f_enc f) /\
    FlacMeta.BlockList.write_blocks (FlacMeta.Blocks.BStreaminfo (convM (f_si f)) :: map convB (f_blocks f)) = Ok meta' /\
    Forall (FlacMeta.Blocks_level.ty_block u) (FlacMeta.Blocks.BStreaminfo (convM (f_si f)) :: map convB (f_blocks f)) /\
    Forall FlacMeta.Blocks_level.canon_block (FlacMeta.Blocks.BStreaminfo (convM (f_si f)) :: map convB (f_blocks f)).
Proof.
  intros enc_block md5 p H1 H2 u en o rate bps ch tb wb chunks f Hwf Hpl Hs0 Hnew Hbytes Hrun Hfit.
  destruct (FlacE2E.Transfer.byte_new_sample_new p en o rate bps ch tb wb Hnew) as (ts & ws & Hs & Et).
  rewrite (byte_writer_is_sample_writer enc_block md5 p en o rate bps ch tb ts wb ws chunks Hwf Hnew Hs Et Hbytes) in Hrun.
  exact (sample_writer_file_typed enc_block md5 H1 H2 p u o rate bps ch ts ws _ f Hwf Hpl Hs0 Hs Hrun Hfit).
Qed.

Theorem channel_writer_file_typed : forall enc_block md5 p,
  (forall l, length (md5 l) = 16%nat) -> (forall l, Forall (fun b => b < 256) (md5 l)) ->
  forall (u : list N -> bool) o rate bps ch tc wc chunks f,
  options_wf o -> Forall plain (o_metadata o) -> seektables (o_metadata o) = 0%nat ->
  channel_new p [] o rate bps ch tc = Ok wc -> Forall (chunk_ok (N.to_nat ch)) chunks ->
  channel_run enc_block md5 p wc chunks = Ok f -> counters_fit (f_enc f) ->
  exists meta',
    f_stream f = meta' ++ frames_bytes (f_enc f) /\
    FlacMeta.BlockList.write_blocks (FlacMeta.Blocks.BStreaminfo (convM (f_si f)) :: map convB (f_blocks f)) = Ok meta' /\
    Forall (FlacMeta.Blocks_level.ty_block u) (FlacMeta.Blocks.BStreaminfo (convM (f_si f)) :: map convB (f_blocks f)) /\
    Forall FlacMeta.Blocks_level.canon_block (FlacMeta.Blocks.BStreaminfo (convM (f_si f)) :: map convB (f_blocks f)).
Proof.
  intros enc_block md5 p H1 H2 u o rate bps ch tc wc chunks f Hwf Hpl Hs0 Hnew Hchunks Hrun Hfit.
  destruct (FlacE2E.Transfer.channel_new_sample_new p o rate bps ch tc wc Hnew) as (ts & ws & Hs & Et).
  rewrite (channel_writer_is_sample_writer enc_block md5 p o rate bps ch tc ts wc ws chunks Hwf Hnew Hs Et Hchunks) in Hrun.
  exact (sample_writer_file_typed enc_block md5 H1 H2 p u o rate bps ch ts ws _ f Hwf Hpl Hs0 Hs Hrun Hfit).
Qed.
