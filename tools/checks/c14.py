"""C14 — an interrupted encode leaves a file whose complete frames are all decodable.

Search (harness/src/bin/c14.rs, release + reduced debug): the three writers run against a
recording Write+Seek sink; the writer object is leaked before finalize, so the sink holds exactly
the bytes emitted before finalize begins (checked append-only).  For every write-call boundary and,
for small streams, every byte prefix, the prefix is decoded: exactly the PCM of every frame wholly
inside the prefix, in order, then end or error; never a sample that was not written.  Declared and
undeclared totals x seek-table policies (default, seconds, every frame, every 3rd frame, none) x
padding."""
from checks import codech_util as cu


def run(chk):
    cu.simple_check(
        chk, "C14", "c14", ["release", "debug"], kinds=["dec_stream"],
        rule="one evaluation = one prefix of an unfinished file decoded and compared with the PCM of the frames wholly inside it; distinct by (stream x cut position); non-trivial = prefixes reaching past the metadata (prefix_ends minus open-failed)",
        assumptions=["crash points are modelled as prefixes of the byte stream handed to Write::write before finalize; file-system effects (partial sector writes, reordering) are outside the model"],
        evaluations=lambda s: cu.total(s, "prefixes_decoded"),
        nontrivial=lambda s: sum(sum(v for k, v in st.get("prefix_ends", {}).items() if k != "open-failed") for st in s.values()),
        debug_scale=25,
        extra=lambda c, by_prof: __import__("checks.codec_common", fromlist=["x"]).composed_prefix_tie(chk, c.cases))
