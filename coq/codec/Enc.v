(* Codec/Enc.v — executable model of the encoder's integer path (encode.rs):
     encode_frame / correlate_channels(_exhaustive) / encode_subframe / encode_fixed_subframe /
     encode_lpc_subframe's residual stage / write_residuals (Partition::new, best_partitions,
     try_reduce_rice).
   Everything the encoder decides with integers is computed here; the one float stage
   (LpcParameters::best: window, autocorrelation, Levinson-Durbin, quantisation) is an ORACLE
   `L : N -> list Z -> option lpc_params` (bits per sample, samples |-> parameters): the theorems
   of Enc_proofs.v hold for every oracle, the correspondence check instantiates it with the
   parameters found in the implementation's own output.  With LPC switched off (max_lpc_order =
   None) the model predicts the frame bytes exactly.
   The only float left in the modelled part is the Rice parameter estimate
   ceil(log2(sum / n)) of Partition::new, modelled as the exact integer
   log2_up(ceil(sum / n)) (sum < 2^47 and n < 2^16 are exact in f64; see DESIGN 8.5). *)
From FlacCodec Require Export EncChoice.
From FlacCodec Require Import Dec Wf Admissible.
Open Scope N_scope.

Record eopts := { eo_max_po : N; eo_mid_side : bool; eo_exhaustive : bool; eo_rice2 : bool }.

Definition absN (z : Z) : N := Z.to_N (Z.abs z).
Definition abs_sum (rs : list Z) : N := fold_right (fun r a => absN r + a) 0 rs.

(* Iterator::min_by_key: the FIRST of the minimal elements *)
Fixpoint first_min {A} (key : A -> N) (l : list A) : option A :=
  match l with
  | [] => None
  | a :: r => match first_min key r with
              | Some b => if key b <? key a then Some b else Some a
              | None => Some a
              end
  end.

(* ---- write_residuals ---- *)

(* Partition::new (encode.rs:3778-3846): the partition and its estimated size in bits.
   rice_max = 15 (4-bit parameters) or 31 (5-bit) *)
Definition enc_part (rice_max : N) (rs : list Z) : option (part * N) :=
  let n := N.of_nat (length rs) in
  if n =? 0 then None else
  let sum := abs_sum rs in
  if sum =? 0 then Some (PZero (length rs), 0) else
  let k := if n <? sum then N.log2_up ((sum + n - 1) / n) else 0 in
  if k <? rice_max then
    let x := if 0 <? k then sum / 2 ^ (k - 1) else sum * 2 in
    if 2 ^ 32 <=? x then None
    else Some (PRice k rs, 4 + (1 + k) * n + x - n / 2)
  else
    let w := N.log2 sum + 2 in
    if 31 <? w then None else Some (PEsc w rs, w * n).

Fixpoint enc_parts (rice_max : N) (chunks : list (list Z)) : option (list part * N) :=
  match chunks with
  | [] => Some ([], 0)
  | c :: r => match enc_part rice_max c, enc_parts rice_max r with
              | Some (p, b), Some (ps, bs) => Some (p :: ps, b + bs)
              | _, _ => None
              end
  end.

(* residuals.rchunks(k).rev(): the chunk lengths are Dec.rchunk_lens (the decoder cuts the same way) *)
Fixpoint split_lens {A} (lens : list nat) (l : list A) : list (list A) :=
  match lens with
  | [] => []
  | n :: r => firstn n l :: split_lens r (skipn n l)
  end.

Definition tzN (n : N) : N := match n with N0 => 0 | Npos p => tz_pos p end.

(* one partition order tried by best_partitions: usable only if it yields exactly 2^po partitions *)
Definition enc_candidate (rice_max bs : N) (rs : list Z) (po : N) : option (list part * N) :=
  let pc := 2 ^ po in
  let lens := rchunk_lens (length rs) (N.to_nat (bs / pc)) in
  match enc_parts rice_max (split_lens lens rs) with
  | Some (ps, bits) => if (length ps =? N.to_nat pc)%nat then Some (ps, bits) else None
  | None => None
  end.

Fixpoint filter_map {A B} (f : A -> option B) (l : list A) : list B :=
  match l with
  | [] => []
  | a :: r => match f a with Some b => b :: filter_map f r | None => filter_map f r end
  end.

Definition po_limit (max_po bs : N) : N := N.min (N.min (tzN bs) max_po) 6.

(* best_partitions (encode.rs:3877-3915) *)
Definition best_parts (rice_max max_po bs : N) (rs : list Z) : list part :=
  let pos := map N.of_nat (seq 0 (S (N.to_nat (po_limit max_po bs)))) in
  match first_min snd (filter_map (enc_candidate rice_max bs rs) pos) with
  | Some (ps, _) => ps
  | None => [PEsc 31 rs]
  end.

(* what the bit writer accepts (write_signed_counted fails on a value that does not fit) *)
Definition part_writable (p : part) : bool :=
  match p with PEsc w rs => forallb (fits w) rs | _ => true end.

(* write_residuals (encode.rs:3759-3987): None = Err *)
Definition enc_residual (o : eopts) (order : N) (rs : list Z) : option residual :=
  if existsb (Z.eqb (- 2 ^ 31)) rs then None else
  let bs := order + N.of_nat (length rs) in
  let r :=
    if eo_rice2 o then
      let ps := best_parts 31 (eo_max_po o) bs rs in
      if forallb (fun p => match p with PRice k _ => k <? 15 | _ => true end) ps
      then {| r_method := 0; r_parts := ps |} else {| r_method := 1; r_parts := ps |}
    else {| r_method := 0; r_parts := best_parts 15 (eo_max_po o) bs rs |} in
  if forallb part_writable (r_parts r) then Some r else None.

(* ---- encode_fixed_subframe (encode.rs:3032-3100) ---- *)
Fixpoint diff (l : list Z) : list Z :=
  match l with
  | a :: (b :: _) as t => (b - a)%Z :: diff t
  | _ => []
  end.
Definition is_nil {A} (l : list A) : bool := match l with [] => true | _ => false end.
(* the higher orders, as long as every difference fits an i32 (checked_sub) and there are samples left *)
Fixpoint fixed_orders (fuel : nat) (prev : list Z) : list (list Z) :=
  match fuel with
  | O => []
  | S f => let d := diff prev in
           if forallb (fits 32) d && negb (is_nil d) then d :: fixed_orders f d else []
  end.
Definition enc_fixed (o : eopts) (ys : list Z) : option body :=
  let ords := ys :: fixed_orders 4 ys in
  let minlen := length (last ords ys) in
  match first_min (fun p => abs_sum (skipn (length (snd p) - minlen) (snd p))) (combine (seq 0 (length ords)) ords) with
  | Some (k, rs) =>
      match enc_residual o (N.of_nat k) rs with
      | Some r => Some (BFixed (N.of_nat k) (firstn k ys) r)
      | None => None
      end
  | None => None
  end.

(* ---- encode_lpc_subframe after LpcParameters::best (encode.rs:3102-3216) ---- *)
Definition lpc_params := (N * N * N * list Z)%type.        (* order, precision, shift, coefficients *)
Definition enc_lpc (o : eopts) (ys : list Z) (p : lpc_params) : option body :=
  let '(order, prec, shift, coefs) := p in
  if negb ((1 <=? order) && (order <=? 32) && (order <? N.of_nat (length ys)) &&
           (1 <=? prec) && (prec <=? 15) && (shift <=? 15) &&
           (length coefs =? N.to_nat order)%nat && forallb (fits prec) coefs) then None else
  let warm := firstn (N.to_nat order) ys in
  (* encode_residuals: x - (sum >> shift) in 64 bits, must fit an i32 (repo fix 158656b) *)
  let rs := resid coefs (Z.of_N shift) (rev warm) (skipn (N.to_nat order) ys) in
  if negb (forallb (fits 32) rs) then None else
  match enc_residual o order rs with
  | Some r => Some (BLpc order warm prec shift coefs r)
  | None => None
  end.

(* ---- encode_subframe (encode.rs:2861-2992) ---- *)
Definition oracle := option (N -> list Z -> option lpc_params).     (* None: max_lpc_order = None *)

Definition enc_sub (o : eopts) (L : oracle) (bps : N) (xs : list Z) : subframe :=
  match common_wasted xs with
  | None => enc_subframe bps xs None None
  | Some w =>
      let ys := map (fun x => x / 2 ^ Z.of_N w)%Z xs in
      let eb := bps - w in
      let mk := option_map (fun b => {| sf_wasted := w; sf_body := b |}) in
      enc_subframe bps xs (mk (enc_fixed o ys))
        (match L with
         | None => None
         | Some f => Some (match f eb ys with Some p => mk (enc_lpc o ys p) | None => None end)
         end)
  end.

(* ---- channel decorrelation and the frame (encode.rs:2271-2858) ---- *)
Definition mid_of (l r : list Z) : list Z := map (fun p => (fst p + snd p) / 2)%Z (combine l r).
Definition side_of (l r : list Z) : list Z := map (fun p => fst p - snd p)%Z (combine l r).

Definition subs_bits (a bps : N) (subs : list subframe) : N :=
  N.of_nat (length (write_subframes a bps 0 subs)).

Definition enc_stereo (o : eopts) (L : oracle) (bps : N) (l r : list Z) : N * list subframe :=
  let e := enc_sub o L in
  if eo_exhaustive o then
    let sl := e bps l in let sr := e bps r in
    if bps <? 32 then
      let sd := e (bps + 1) (side_of l r) in
      let cands :=
        if eo_mid_side o then
          let sa := e bps (mid_of l r) in [(1, [sl; sr]); (8, [sl; sd]); (9, [sd; sr]); (10, [sa; sd])]
        else [(1, [sl; sr]); (8, [sl; sd]); (9, [sd; sr])] in
      match first_min (fun c => subs_bits (fst c) bps (snd c)) cands with
      | Some c => c
      | None => (1, [sl; sr])
      end
    else (1, [sl; sr])
  else
    if bps <? 32 then
      let la := abs_sum l in let ra := abs_sum r in let sa := abs_sum (side_of l r) in
      let cands :=
        if eo_mid_side o then [(1, la + ra); (8, la + sa); (9, sa + ra); (10, abs_sum (mid_of l r) + sa)]
        else [(8, la + sa); (9, sa + ra); (1, la + ra)] in
      let a := match first_min snd cands with Some c => fst c | None => 1 end in
      if a =? 8 then (8, [e bps l; e (bps + 1) (side_of l r)])
      else if a =? 9 then (9, [e (bps + 1) (side_of l r); e bps r])
      else if a =? 10 then (10, [e bps (mid_of l r); e (bps + 1) (side_of l r)])
      else (1, [e bps l; e bps r])
    else (1, [e bps l; e bps r]).

(* header codes chosen by the writer: TryFrom<u16> for BlockSize, TryFrom<u32> for SampleRate,
   From<SignedBitCount<32>> for BitsPerSample (stream.rs:537-560, 779-802, 1136-1149) *)
Fixpoint code_lookup (v : N) (table : list (N * N)) : option N :=     (* (code, value) pairs *)
  match table with
  | [] => None
  | (c, x) :: r => if v =? x then Some c else code_lookup v r
  end.
Definition bs_codes : list (N * N) :=
  [(1, 192); (2, 576); (3, 1152); (4, 2304); (5, 4608); (8, 256); (9, 512); (10, 1024); (11, 2048);
   (12, 4096); (13, 8192); (14, 16384); (15, 32768)].
Definition rate_codes : list (N * N) :=
  [(1, 88200); (2, 176400); (3, 192000); (4, 8000); (5, 16000); (6, 22050); (7, 24000); (8, 32000);
   (9, 44100); (10, 48000); (11, 96000)].
Definition bps_codes : list (N * N) := [(1, 8); (2, 12); (4, 16); (5, 20); (6, 24); (7, 32)].

Definition code_of_bs (n : N) : N :=
  match code_lookup n bs_codes with Some c => c | None => if n <=? 256 then 6 else 7 end.
Definition code_of_rate (r : N) : option N :=
  match code_lookup r rate_codes with
  | Some c => Some c
  | None => if (r mod 1000 =? 0) && (r / 1000 <? 255) then Some 12
            else if (r mod 10 =? 0) && (r / 10 <? 65535) then Some 14
            else if r <? 65535 then Some 13
            else if r <? 2 ^ 20 then Some 0 else None
  end.
Definition code_of_bps (b : N) : N :=
  match code_lookup b bps_codes with Some c => c | None => 0 end.

(* the channel assignment and the subframes of one block *)
Definition enc_subs (o : eopts) (L : oracle) (bps : N) (chans : list (list Z)) : N * list subframe :=
  match chans with
  | [l; r] => enc_stereo o L bps l r
  | _ => (N.of_nat (length chans) - 1, map (enc_sub o L bps) chans)
  end.

(* encode_frame: one block of `chans` (1..8 channels of equal, non-zero length) *)
Definition enc_frame (o : eopts) (L : oracle) (rate bps number : N) (chans : list (list Z)) : option frame :=
  match code_of_rate rate, chans with
  | None, _ | _, [] => None
  | Some rc, c0 :: _ =>
      let res := enc_subs o L bps chans in
      let n := N.of_nat (length c0) in
      Some {| f_hdr := {| h_variable := false; h_bs_code := code_of_bs n; h_bs := n;
                          h_rate_code := rc; h_rate := rate; h_assign := fst res;
                          h_bps_code := code_of_bps bps; h_bps := bps; h_number := number |};
              f_subs := snd res |}
  end.

Definition block_len (chans : list (list Z)) : N := match chans with c :: _ => N.of_nat (length c) | [] => 0 end.

Definition enc_frame_bytes (o : eopts) (L : oracle) (rate bps number : N) (chans : list (list Z)) : option (list N) :=
  match enc_frame o L rate bps number chans with Some f => write_frame f | None => None end.

(* Encoder::encode over the blocks of a stream: fixed block size, frame numbers k, k+1, ... *)
Fixpoint enc_blocks (o : eopts) (L : oracle) (rate bps k : N) (blocks : list (list (list Z))) : option (list N) :=
  match blocks with
  | [] => Some []
  | b :: rest => match enc_frame_bytes o L rate bps k b, enc_blocks o L rate bps (k + 1) rest with
                 | Some x, Some y => Some (x ++ y)
                 | _, _ => None
                 end
  end.
