(* metadata/Utf8_proofs.v — the concrete validator satisfies the hypothesis the CUESHEET
   codec theorems make about UTF-8 validity (ASCII is valid). *)
From FlacMeta Require Import Bytes Utf8.
Open Scope N_scope.

Lemma utf8_valid_std_ascii : forall s, Forall (fun b => b < 128) s -> utf8_valid_std s = true.
Proof.
  induction 1 as [|b s Hb Hs IH]; [reflexivity|]. cbn [utf8_valid_std].
  destruct (N.ltb_spec b 128); [exact IH|lia].
Qed.
