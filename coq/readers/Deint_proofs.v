(* readers/Deint_proofs.v — the channel reader's stream for channel c is the de-interleaved sample
   stream: sample i of channel c is interleaved sample i * channels + c. *)
From FlacReaders Require Import Spec Lists_proofs Frame_proofs.
Open Scope N_scope.

Lemma nth_error_tl {A} (l : list A) i : nth_error (tl l) i = nth_error l (S i).
Proof. destruct l; [now destruct i | reflexivity]. Qed.

Lemma multizip_nth n : forall cs i c,
  Forall (fun ch => length ch = n) cs -> (i < n)%nat -> (c < length cs)%nat ->
  nth_error (multizip n cs) (i * length cs + c) = nth_error (nth c cs []) i.
Proof.
  induction n as [|n IH]; intros cs i c H Hi Hc; [lia|]. cbn [multizip].
  destruct (heads_tails_rect cs n H) as (hs & ts & E & L1 & L2 & Ft & N1 & N2). rewrite E.
  destruct i as [|i].
  - cbn [Nat.mul Nat.add]. rewrite nth_error_app1 by lia.
    rewrite (nth_error_nth' hs 0%Z) by lia. rewrite N1.
    assert (Hl : length (nth c cs []) = S n).
    { rewrite Forall_forall in H. apply H. now apply nth_In. }
    destruct (nth c cs []) as [|x t]; [discriminate|reflexivity].
  - replace (S i * length cs + c)%nat with (length hs + (i * length ts + c))%nat by (rewrite L1, L2; lia).
    rewrite nth_error_app2 by lia.
    replace (length hs + (i * length ts + c) - length hs)%nat with (i * length ts + c)%nat by lia.
    rewrite IH by (try exact Ft; lia). rewrite N2. apply nth_error_tl.
Qed.

Lemma interleave_nth nch f i c : wf_frame nch f ->
  (i < N.to_nat (pcm_frames f))%nat -> (c < N.to_nat nch)%nat ->
  nth_error (interleave f) (i * N.to_nat nch + c) = nth_error (nth c f []) i.
Proof.
  intros Hf Hi Hc. destruct (wf_frame_nat nch f Hf) as (Hn & _ & Hh & Hall).
  unfold interleave. rewrite <- Hn. apply multizip_nth; [exact Hall | lia | lia].
Qed.

Lemma cdata_deinterleaved nch c l : Forall (good_slot nch) l -> (c < N.to_nat nch)%nat ->
  forall i, (i < N.to_nat (sumlen l))%nat ->
  nth_error (cdata c l) i = nth_error (sdata l) (i * N.to_nat nch + c).
Proof.
  intros Hg Hc. induction l as [|s r IH]; intros i Hi; [cbn in Hi; lia|].
  inversion Hg as [|? ? (f & -> & Hf) Hr]; subst.
  rewrite cdata_cons, sdata_cons. rewrite sumlen_cons in Hi.
  pose proof (nth_chan_len nch f c Hf Hc) as Lc. pose proof (interleave_len nch f Hf) as Li.
  unfold lenN in Lc, Li.
  destruct (Nat.lt_ge_cases i (N.to_nat (pcm_frames f))) as [Hlt|Hge].
  - rewrite nth_error_app1 by lia. rewrite nth_error_app1 by nia.
    symmetry. now apply (interleave_nth nch).
  - rewrite nth_error_app2 by lia. rewrite nth_error_app2 by nia.
    replace (i - length (nth c f []))%nat with (i - N.to_nat (pcm_frames f))%nat by lia.
    replace (i * N.to_nat nch + c - length (interleave f))%nat
      with ((i - N.to_nat (pcm_frames f)) * N.to_nat nch + c)%nat by nia.
    apply (IH Hr). lia.
Qed.

(* C07: the per-channel stream is the de-interleaved sample stream *)
Theorem chan_pcm_deinterleaved F c : valid_file F -> (c < N.to_nat (f_channels F))%nat ->
  lenN (chan_pcm F c) = total_frames F /\ lenN (pcm F) = total_frames F * f_channels F /\
  forall i, (i < N.to_nat (total_frames F))%nat ->
    nth_error (chan_pcm F c) i = nth_error (pcm F) (i * N.to_nat (f_channels F) + c).
Proof.
  intros V Hc. split; [apply (cdata_len (f_channels F)); [apply (v_good F V) | exact Hc]|].
  split; [apply sdata_len; apply (v_good F V)|].
  apply cdata_deinterleaved; [apply (v_good F V) | exact Hc].
Qed.
