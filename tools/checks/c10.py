"""C10 — metadata updates never disturb the audio and are size-neutral when in place.

Proof: coq/updateio/{Update,Update_proofs,Props_C10}.v — update_file/update/write_blocks over an abstract
block codec (C11's two facts as hypotheses; Instance.v exhibits a codec satisfying them).
Tie: (a) tools/gen_updateio.py regenerates BlockSize::MAX, header size, tag, type codes and compares the
text of grow_padding/shrink_padding/checked_add/checked_sub/get_mut with what the model mirrors;
(b) the extracted decision function (dry-run size -> in place / rebuild, resulting padding) is run on every
step the harness performs with the real update_file/update and compared with what the implementation did.
Search: harness/src/bin/c10.rs evaluates the property itself on the implementation (bytes from the first
frame on, length, blocks read back, rebuilt = write_blocks(edited) ++ frames, untouched on error, PCM)."""
import json
import os
import re
import shutil

import vlib
from vlib import VERIF, CACHE, sh

BASE = os.path.join(VERIF, "coq", "base")
AREA = os.path.join(VERIF, "coq", "updateio")
THEOREMS = ["C10_inplace", "C10_rebuilt", "C10_failure_untouched", "C10_histories", "C10_histories_same_pcm",
            "C10_decision", "C10_driver_function_is_the_decision", "C10_no_panic", "C10_decision_examples",
            "C10_hypotheses_satisfiable", "C10_file_examples"]
QFLAGS = "-Q ../base FlacBase -Q . FlacUpdIo"


E2E_THEOREMS = ["C10_real_codec_hypotheses", "C10_readers_agree", "C10_real_codec_inplace", "C10_real_codec_rebuilt",
                "C10_real_codec_history", "C10_real_codec_same_decoding", "C10_real_codec_no_panic", "C10_real_codec_writer_no_panic", "C10_real_codec_example_inplace",
                "C10_real_codec_example_rebuilt", "C10_real_codec_example_hypotheses", "C10_written_then_edited_lossless",
                "C10_byte_written_then_edited_lossless", "C10_channel_written_then_edited_lossless", "C10_written_edited_then_read", "C10_byte_written_edited_then_read", "C10_channel_written_edited_then_read", "C10_written_then_edited_valid", "C10_byte_written_then_edited_valid", "C10_channel_written_then_edited_valid"]


def proof_stage(chk, theorems, requires_extra=(), composed=False, composed_theorems=None, composed_requires=None):
    requires = ["Coq.Lists.List", "Coq.NArith.NArith", "FlacBase.Res", "FlacBase.Bits", "FlacUpdIo.Update",
                "FlacUpdIo.Update_proofs", "FlacUpdIo.Pins"] + list(requires_extra)
    files = [f for f in vlib.coq_files(AREA) if f not in ("GenUpd.v", "Extract.v")]
    gen = ["python3 %s/tools/gen_crc.py %s %s/GenCrc.v" % (VERIF, vlib.REPO, BASE),
           "python3 %s/tools/gen_updateio.py %s %s/GenUpd.v" % (VERIF, vlib.REPO, AREA)]
    if composed:
        # C10 also claims the theorems of coq/e2eupd: update_file run with the metadata area's real reader/writer
        # and judged by the codec area's decoder front end
        cq = lambda d: os.path.join(VERIF, "coq", d)
        gen.append("python3 %s/tools/gen_stream.py %s %s/GenStream.v" % (VERIF, vlib.REPO, cq("codec")))
        gen.append("python3 %s/tools/gen_metadata.py %s %s/GenMeta.v" % (VERIF, vlib.REPO, cq("metadata")))
        gen.append("python3 %s/tools/gen_writers.py %s %s/GenWriters.v" % (VERIF, vlib.REPO, cq("writers")))
        gen.append("python3 %s/tools/gen_readers.py %s %s/anchors.json" % (VERIF, vlib.REPO, cq("readers")))
        return vlib.proof_stage(
            chk, coq_dirs=[BASE, cq("codec"), cq("writers"), cq("readers"), cq("e2e"), cq("metadata"), cq("e2emeta"), AREA, cq("e2eupd")],
            build_dir=cq("e2eupd"),
            qflags="-Q ../base FlacBase -Q ../codec FlacCodec -Q ../metadata FlacMeta -Q ../updateio FlacUpdIo -Q ../writers FlacWriters "
                   "-Q ../readers FlacReaders -Q ../e2e FlacE2E -Q ../e2emeta FlacE2EMeta -Q . FlacE2EUpd",
            requires=requires + ["FlacUpdIo.Update_cond"] + list(composed_requires or ["FlacE2EUpd.Props_E2EUpd", "FlacE2EUpd.Props_WrittenEdited"]),
            theorems=theorems + list(composed_theorems or E2E_THEOREMS),
            obligation_files=[(AREA, files), (cq("e2eupd"), vlib.coq_files(cq("e2eupd")))], gen_steps=gen)
    return vlib.proof_stage(
        chk, coq_dirs=[BASE, AREA], build_dir=AREA, qflags=QFLAGS, requires=requires, theorems=theorems,
        obligation_files=[(AREA, files)], gen_steps=gen)


def build_driver(chk):
    mdir = os.path.join(CACHE, "ocaml", "updateio_%s" % chk.pid.lower())
    os.makedirs(mdir, exist_ok=True)
    for f in ("updateio_model.ml", "updateio_model.mli"):
        shutil.copy(os.path.join(AREA, f), mdir)
    shutil.copy(os.path.join(VERIF, "ocaml", "updateio_driver.ml"), mdir)
    okb, exe, bout = vlib.ocaml_build(mdir, ["updateio_model.mli", "updateio_model.ml", "updateio_driver.ml"], "updateio_driver")
    if not okb:
        chk.broken_tie("ocaml-build", bout)
        return None
    return exe


def case_line(c):
    return "c10 old=%d si=%d blocks=%s" % (c["old"], c["si"], ";".join("%d:%d:%d" % tuple(b) for b in c["edited"]))


def impl_obs(c):
    if c["res"] == "panic":
        return "panic"
    if c["res"].startswith("err"):
        return "err"
    return "ok %s %s" % ("rebuild" if c["res"] == "ok:true" else "inplace", ";".join("%d:%d" % (b[0], b[1]) for b in c["after"]))


def coq_blocks(c):
    names = {2: "KApplication", 3: "KSeekTable", 4: "KVorbisComment", 5: "KCuesheet", 6: "KPicture"}
    items = []
    for ty, size, uc in c["edited"]:
        if ty == 1:
            items.append("OPadding %d" % size)
        else:
            items.append("OOther %s (%d, %s)" % (names[ty], size, "None" if uc < 0 else "Some %d" % uc))
    return "[" + "; ".join(items) + "]"


def build_composed_driver(chk):
    """OCaml driver of the COMPOSED model coq/e2eupd (update_file over the metadata area's reader and writer):
    the dump/parse half of ocaml/metadata_driver.ml opened on the composed extraction + ocaml/e2eupd_driver_tail.ml."""
    e2eupd = os.path.join(VERIF, "coq", "e2eupd")
    mdir = os.path.join(CACHE, "ocaml", "e2eupd")
    os.makedirs(mdir, exist_ok=True)
    for f in ("e2eupd_model.ml", "e2eupd_model.mli"):
        if not os.path.exists(os.path.join(e2eupd, f)):
            chk.broken_tie("composed-model-extraction", "coq/e2eupd/%s was not produced by the Coq build" % f)
            return None
        shutil.copy(os.path.join(e2eupd, f), mdir)
    head = open(os.path.join(VERIF, "ocaml", "metadata_driver.ml")).read()
    cut = head.find("(* ---- observations *)")
    if cut < 0 or "open Metadata_model" not in head:
        chk.broken_tie("composed-model-driver", "ocaml/metadata_driver.ml lost the markers the composed driver is assembled from")
        return None
    src = head[:cut].replace("open Metadata_model", "open E2eupd_model") + open(os.path.join(VERIF, "ocaml", "e2eupd_driver_tail.ml")).read()
    open(os.path.join(mdir, "e2eupd_driver.ml"), "w").write(src)
    okb, exe, bout = vlib.ocaml_build(mdir, ["e2eupd_model.mli", "e2eupd_model.ml", "e2eupd_driver.ml"], "e2eupd_driver")
    if not okb:
        chk.broken_tie("ocaml-build:composed-model", bout)
        return None
    return exe


def composed_tie(chk, fulls, viol_specs):
    """Whole-file correspondence of the composed model: for every small step the harness performed, the extracted
    `update_file` over the metadata area's real reader/writer is given the file as it was and the block list the
    callback left (typed dump), and must return the same verdict, the same bytes in the original and the same bytes
    in the rebuilt file as the implementation.  A difference on an input where the implementation satisfied the
    property is a broken tie of the theorems C10_real_codec_*, reported with the input."""
    out = {"composed_model_steps": 0, "composed_model_inplace": 0, "composed_model_rebuilt": 0, "composed_model_errors": 0,
           "composed_model_mismatches": 0}
    if not fulls:
        return out
    exe = build_composed_driver(chk)
    if not exe:
        return out
    lines = ["upd %d %s %s" % (f["start"], f["file"] or ".", "!" if f["edited"] is None else (f["edited"] or "~")) for f in fulls]
    rc, mout = sh("ulimit -s unlimited 2>/dev/null || ulimit -s 1000000; exec %s" % exe, stdin="\n".join(lines) + "\n", timeout=1500)
    mlines = [x.strip() for x in mout.split("\n") if x.strip()]
    if rc != 0 or len(mlines) != len(fulls):
        chk.broken_tie("ocaml-run:composed-model", "rc=%d, %d answers for %d cases: %s" % (rc, len(mlines), len(fulls), mout[-1500:]))
        return out
    for f, ml in zip(fulls, mlines):
        out["composed_model_steps"] += 1
        res = f["res"]
        cls = res if res.startswith("ok:") else ("panic" if res == "panic" else "err")
        exp = "%s orig=%s rebuilt=%s" % (cls, f["orig"] or ".", (f["rebuilt"] or ".") if cls == "ok:true" else "-")
        got = ml
        if cls != "ok:true" and got.endswith("rebuilt=."):
            got = got[:-1] + "-"
        out["composed_model_" + {"ok:false": "inplace", "ok:true": "rebuilt"}.get(cls, "errors")] += 1
        if cls != "ok:true" and f["rebuilt"]:
            continue  # bytes in the rebuilt writer without Ok(true): the searcher reports that itself
        if got != exp:
            out["composed_model_mismatches"] += 1
            if (f["spec"], f["step"]) in viol_specs:
                continue
            def first_diff(a, b):
                n = next((i for i, (x, y) in enumerate(zip(a, b)) if x != y), min(len(a), len(b)))
                return n
            chk.violation("tie:composed-model-update",
                          "the composed model (coq/e2eupd: update_file over the metadata area's reader/writer) and the implementation differ on spec %r step %d: implementation %s, model %s (first difference at character %d of the observation)" % (
                              f["spec"], f["step"], exp[:60], got[:60], first_diff(exp, got)),
                          {"spec": f["spec"], "step": f["step"], "file_hex": f["file"], "edited_dump": f["edited"], "implementation": exp,
                           "model": got, "replay_cmd": "c10 --spec \"%s\"" % f["spec"]})
            if out["composed_model_mismatches"] > 3:
                break
    # vm_compute cross-check of the extraction: a few small rebuilt steps evaluated inside Coq (the edited list is
    # recovered by the model's own reader from the rebuilt file) and compared there with the implementation's bytes
    sample = [f for f in fulls if f["res"] == "ok:true" and f["edited"] and len(f["file"]) <= 900 and len(f["rebuilt"]) <= 1200][:5]
    sample += [f for f in fulls if f["res"] == "ok:false" and f["edited"] and len(f["file"]) <= 900][:0]
    if sample:
        e2eupd = os.path.join(VERIF, "coq", "e2eupd")
        def coq_bytes(h):
            return "[" + "; ".join(str(int(h[i:i + 2], 16)) for i in range(0, len(h), 2)) + "]"
        lines = ["From FlacBase Require Import Res Bits.", "From FlacMeta Require Import Bytes Blocks BlockList Utf8.",
                 "From FlacE2EUpd Require Import RealCodec Extract.", "Open Scope N_scope.",
                 "Definition same (a b : list N) : bool := (length a =? length b)%nat && forallb (fun p => fst p =? snd p) (combine a b)."]
        for i, f in enumerate(sample):
            lines.append("Definition c%d := d_update_file %d %s (match read_blocks utf8_valid_std %s with Ok l => Some l | _ => None end)." % (
                i, f["start"], coq_bytes(f["file"]), coq_bytes(f["rebuilt"])))
            lines.append("Eval vm_compute in (match c%d with (o, Some rb, Ok true) => same o %s && same rb %s | _ => false end)." % (
                i, coq_bytes(f["orig"]), coq_bytes(f["rebuilt"])))
        vfile = os.path.join(CACHE, "assum", "UpdRealCases.v")
        os.makedirs(os.path.dirname(vfile), exist_ok=True)
        open(vfile, "w").write("\n".join(lines) + "\n")
        q = "-Q ../base FlacBase -Q ../codec FlacCodec -Q ../metadata FlacMeta -Q ../updateio FlacUpdIo -Q ../writers FlacWriters -Q ../readers FlacReaders -Q ../e2e FlacE2E -Q ../e2emeta FlacE2EMeta -Q . FlacE2EUpd"
        rc, vout = sh("coqc -noglob %s %s" % (q, vfile), cwd=e2eupd, timeout=900)
        got = re.findall(r"=\s*(true|false)\s*:\s*bool", vout)
        out["composed_model_vm_compute_cases"] = len(got)
        if rc != 0 or got != ["true"] * len(sample):
            chk.violation("tie:composed-model-update-vm", "vm_compute evaluation of the composed model (coq/e2eupd) disagrees with the implementation on a rebuilt step",
                          {"coq_output": vout[-2500:], "cases": [{"spec": f["spec"], "step": f["step"]} for f in sample], "results": got})
    return out


def run(chk):
    chk.assumptions = [
        "C11 supplies the two hypotheses of the C10 theorems for the real block codec: a block's reported size is the number of body bytes it writes, and read_blocks inverts write_blocks (coq/updateio/Instance.v shows they are satisfiable by a concrete codec with the real header layout)",
        "the model's update_file mirrors src/metadata/mod.rs:1171-1297; this is checked by running the extracted decision function against every update the harness performs, not proved",
        "I/O faults are out of scope here (C13); the file is a byte list",
    ]
    proof_ok = proof_stage(chk, THEOREMS, ["FlacUpdIo.Props_C10"], composed=True)

    tmp = os.path.join(CACHE, "tmp", "c10-%d" % os.getpid())
    os.makedirs(tmp, exist_ok=True)
    try:
        ok, binp, out = vlib.cargo_build(os.path.join(VERIF, "harness"), "c10", "release")
        if not ok:
            chk.broken_tie("harness-build", out)
            return
        rc, out = sh([binp], timeout=3000, env={"VERIF_TMP": tmp, "VERIF_SEED": str(chk.seed), "VERIF_TIER": chk.tier})
        if rc != 0:
            chk.broken_tie("harness-run", out)
            return
    finally:
        shutil.rmtree(tmp, ignore_errors=True)
    cases, viols, stat, samples, notes, fulls = [], [], {}, [], [], []
    for ln in out.splitlines():
        if not ln.startswith("{"):
            continue
        d = json.loads(ln)
        t = d.get("t")
        if t == "case":
            cases.append(d)
        elif t == "full":
            fulls.append(d)
        elif t == "viol":
            viols.append(d)
        elif t == "stat":
            stat = d
        elif t == "sample":
            samples.append(d)
        elif t == "note":
            notes.append(d["msg"])
    if not cases or not stat:
        chk.broken_tie("harness-output", "no cases/stat produced: " + out[-2000:])
        return

    # ---- searcher results first: a property failure on the implementation decides
    viol_specs = set()
    for v in viols:
        viol_specs.add((v.get("spec"), v.get("step")))
        chk.violation(v["key"], v["desc"], {k: v[k] for k in v if k != "t"})

    # ---- model side
    disagreements = 0
    modelled = [c for c in cases if c["edited"] is not None]
    distinct = set()
    if proof_ok:
        exe = build_driver(chk)
        if exe:
            rc, mout = sh([exe], stdin="\n".join(case_line(c) for c in modelled) + "\n", timeout=600)
            mlines = [x.strip() for x in mout.split("\n")]
            if rc != 0 or len(mlines) < len(modelled):
                chk.broken_tie("ocaml-run", mout[-2000:])
            else:
                for c, ml in zip(modelled, mlines):
                    exp = impl_obs(c).strip()
                    distinct.add((c["old"], tuple(tuple(b) for b in c["edited"])))
                    if ml != exp and not (ml == "err" and exp == "err"):
                        disagreements += 1
                        if (c["spec"], c["step"]) in viol_specs:
                            continue  # already reported as a property violation for this very input
                        chk.violation("correspondence:update-decision",
                                      "model and implementation disagree on spec %r step %d: implementation %s, model %s" % (c["spec"], c["step"], exp, ml),
                                      {"spec": c["spec"], "step": c["step"], "old_size": c["old"], "edited_blocks": c["edited"],
                                       "implementation": exp, "model": ml, "replay_cmd": "c10 --spec \"%s\"" % c["spec"]})
                        if disagreements > 5:
                            break
            # vm_compute cross-check of the extraction on a small sample
            sample = [c for c in modelled if len(c["edited"]) <= 6][:40]
            if sample:
                vfile = os.path.join(CACHE, "assum", "UpdCases.v")
                os.makedirs(os.path.dirname(vfile), exist_ok=True)
                body = "\n".join("Eval vm_compute in d_update %d (%d, None) %s." % (c["old"], c["si"], coq_blocks(c)) for c in sample)
                open(vfile, "w").write("Require Import FlacBase.Res FlacBase.Bits FlacUpdIo.Update.\nOpen Scope N_scope.\n" + body + "\n")
                rc, vout = sh("coqc -noglob %s %s" % (QFLAGS, vfile), cwd=AREA, timeout=300)
                got = []
                for m in re.finditer(r"=\s*(Ok\s*\((true|false),\s*\[(.*?)\]\)|Err\s+\w+|Panic\s+\w+)\s*:", vout, re.S):
                    if m.group(1).startswith("Ok"):
                        pairs = re.findall(r"\((\d+),\s*(\d+)\)", m.group(3))
                        got.append(("ok %s %s" % ("rebuild" if m.group(2) == "true" else "inplace", ";".join("%s:%s" % p for p in pairs))).strip())
                    elif m.group(1).startswith("Err"):
                        got.append("err")
                    else:
                        got.append("panic")
                exp = [impl_obs(c).strip() for c in sample]
                if rc != 0 or got != exp:
                    bad = next((i for i, (a, b) in enumerate(zip(got, exp)) if a != b), None)
                    chk.violation("correspondence:update-decision-vm",
                                  "vm_compute evaluation of the decision model disagrees with the implementation",
                                  {"coq_output": vout[-3000:], "first_difference": None if bad is None else {"case": sample[bad], "coq": got[bad], "impl": exp[bad]},
                                   "n_got": len(got), "n_expected": len(exp)})

    comp = composed_tie(chk, fulls, viol_specs) if proof_ok else {}
    chk.coverage.update(comp)
    chk.coverage.update({
        "evaluations": len(cases),
        "distinct_nontrivial": len(distinct),
        "rule": "distinct (old metadata size, edited block type/size list) pairs reaching the decision function; every one exercises the dry-run size computation and one of the three comparison branches",
        "traces_validated_against_impl": len(modelled),
        "disagreements_checked": disagreements,
        "searcher": {k: stat[k] for k in stat if k != "t"},
        "samples": [{"spec": s["spec"]} for s in samples] + [{"case": {k: cases[i][k] for k in ("spec", "step", "old", "edited", "res", "after")}} for i in range(min(3, len(cases)))],
    })
    chk.notes.extend(notes)
