(* writers/Finish_proofs.v — Encoder::finalize_inner on an encoder that satisfies the
   bookkeeping invariant: which table it writes, that its `unwrap`s are never reached, when it
   succeeds, what STREAMINFO it writes, and that generate_seektable reproduces the table. *)
From Coq Require Import Sorting.Sorted.
From FlacWriters Require Import Writers Lists_proofs Params_proofs Finalize_proofs Encoder_proofs Seek_proofs.
Open Scope N_scope.

(* ---- the first SEEKTABLE / PADDING of a block list under the BlockList operations *)
Lemma set_first_seektable_first pts : forall l l', set_first_seektable pts l = Some l' ->
  first_seektable l' = Some pts /\ first_padding l' = first_padding l.
Proof.
  induction l as [|b l IH]; intros l' H; cbn [set_first_seektable] in H; [discriminate|].
  destruct b as [s|p0|k body].
  - destruct (set_first_seektable pts l) eqn:E; [|discriminate]. inversion H; subst. cbn. destruct (IH _ eq_refl). auto.
  - inversion H; subst. cbn. auto.
  - destruct (set_first_seektable pts l) eqn:E; [|discriminate]. inversion H; subst. cbn. apply IH. reflexivity.
Qed.
Lemma set_first_padding_first s : forall l l', set_first_padding s l = Some l' ->
  first_seektable l' = first_seektable l.
Proof.
  induction l as [|b l IH]; intros l' H; cbn [set_first_padding] in H; [discriminate|].
  destruct b as [s0|p0|k body].
  - inversion H; subst. reflexivity.
  - destruct (set_first_padding s l) eqn:E; [|discriminate]. inversion H; subst. reflexivity.
  - destruct (set_first_padding s l) eqn:E; [|discriminate]. inversion H; subst. cbn. apply IH. reflexivity.
Qed.
Lemma first_seektable_app_none l pts : first_seektable l = None -> first_seektable (l ++ [BSeekTable pts]) = Some pts.
Proof.
  induction l as [|b l IH]; cbn [app first_seektable]; [reflexivity|].
  destruct b; auto. discriminate.
Qed.

Lemma ser_ok_set_seektable pts : forall l l', Forall oblock_ser_ok l -> oblock_ser_ok (BSeekTable pts) ->
  set_first_seektable pts l = Some l' -> Forall oblock_ser_ok l'.
Proof.
  induction l as [|b l IH]; intros l' F Hp H; cbn [set_first_seektable] in H; [discriminate|].
  inversion F as [|? ? Hb F']; subst. destruct b as [s|p0|k body].
  - destruct (set_first_seektable pts l) eqn:E; [|discriminate]. inversion H; subst. constructor; eauto.
  - inversion H; subst. constructor; auto.
  - destruct (set_first_seektable pts l) eqn:E; [|discriminate]. inversion H; subst. constructor; eauto.
Qed.
Lemma ser_ok_set_padding s : forall l l', Forall oblock_ser_ok l -> s <= BLOCKSIZE_MAX ->
  set_first_padding s l = Some l' -> Forall oblock_ser_ok l'.
Proof.
  induction l as [|b l IH]; intros l' F Hs H; cbn [set_first_padding] in H; [discriminate|].
  inversion F as [|? ? Hb F']; subst. destruct b as [s0|p0|k body].
  - inversion H; subst. constructor; auto.
  - destruct (set_first_padding s l) eqn:E; [|discriminate]. inversion H; subst. constructor; eauto.
  - destruct (set_first_padding s l) eqn:E; [|discriminate]. inversion H; subst. constructor; eauto.
Qed.
Lemma first_seektable_ser_ok : forall l pts, Forall oblock_ser_ok l -> first_seektable l = Some pts ->
  N.of_nat (length pts) <= MAX_POINTS.
Proof.
  induction l as [|b l IH]; intros pts F H; cbn [first_seektable] in H; [discriminate|].
  inversion F as [|? ? Hb F']; subst. destruct b as [s|p0|k body]; eauto.
  inversion H; subst. cbn in Hb. destruct Hb as [_ Hb]. unfold BLOCKSIZE_MAX, MAX_POINTS in *. lia.
Qed.
Lemma first_padding_ser_ok : forall l ps, Forall oblock_ser_ok l -> first_padding l = Some ps -> ps <= BLOCKSIZE_MAX.
Proof.
  induction l as [|b l IH]; intros ps F H; cbn [first_padding] in H; [discriminate|].
  inversion F as [|? ? Hb F']; subst. destruct b as [s|p0|k body]; eauto.
  inversion H; subst. exact Hb.
Qed.

(* ---- finalize_seektable (after the fix of F-C09a) on a selection of the per-frame candidates *)
Theorem finalize_seektable_spec blocks frames sel :
  Forall oblock_ser_ok blocks -> Forall (fun x => 1 <= fst x) frames -> selected_ok frames sel ->
  total_fst frames <= U64_MAX ->
  exists blocks', finalize_seektable blocks sel = Ok blocks' /\ Forall oblock_ser_ok blocks' /\
    match first_seektable blocks with
    | Some old =>
        first_seektable blocks' =
        Some (take_n (map to_mpoint sel ++ repeat Placeholder (length old)) (N.of_nat (length old)))
    | None =>
        first_seektable blocks' = None \/
        first_seektable blocks' = Some (map to_mpoint (take_n sel MAX_POINTS))
    end.
Proof.
  intros Fb Ff S Hmax. unfold finalize_seektable, finalize_seektable_gen.
  destruct (first_seektable blocks) as [old|] eqn:Es.
  - pose proof (first_seektable_ser_ok _ _ Fb Es) as Ln.
    destruct (to_contiguous_selected frames sel (length old) (N.of_nat (length old)) Ff S Hmax Ln) as [C T].
    cbv zeta in C, T. rewrite C. cbn [bind].
    set (pts := take_n (map to_mpoint sel ++ repeat Placeholder (length old)) (N.of_nat (length old))) in *.
    assert (Lp : length pts = length old).
    { apply Nat2N.inj. unfold pts. rewrite take_n_length, app_length, repeat_length. lia. }
    unfold insert_seektable. destruct (set_first_seektable_len pts blocks old Es) as (l' & E & _). rewrite E.
    eexists. split; [reflexivity|]. split.
    + eapply ser_ok_set_seektable; [exact Fb| |exact E]. cbn. split; [exact T|].
      rewrite Lp. unfold BLOCKSIZE_MAX, MAX_POINTS in *. lia.
    + apply set_first_seektable_first in E. tauto.
  - destruct (first_padding blocks) as [ps|] eqn:Ep.
    2:{ eexists. split; [reflexivity|]. split; [exact Fb|]. left. exact Es. }
    destruct (to_contiguous_selected frames sel 0 MAX_POINTS Ff S Hmax (N.le_refl _)) as [C T].
    cbv zeta in C, T. cbn [repeat] in C, T. rewrite app_nil_r, take_n_map in C, T.
    rewrite C. cbn [bind]. rewrite T. cbn [andb].
    set (pts := map to_mpoint (take_n sel MAX_POINTS)) in *.
    destruct ((18 * N.of_nat (length pts) <=? BLOCKSIZE_MAX) && (18 * N.of_nat (length pts) + HEADER_SIZE <=? BLOCKSIZE_MAX)
              && (18 * N.of_nat (length pts) + HEADER_SIZE <=? ps)) eqn:Cn.
    2:{ eexists. split; [reflexivity|]. split; [exact Fb|]. left. exact Es. }
    apply andb_prop in Cn. destruct Cn as [Cn C3]. apply andb_prop in Cn. destruct Cn as [C1 C2].
    apply N.leb_le in C1. apply N.leb_le in C2. apply N.leb_le in C3.
    destruct (set_first_padding_len (ps - (18 * N.of_nat (length pts) + HEADER_SIZE)) blocks ps Ep) as (l' & E & _).
    rewrite E. eexists. split; [reflexivity|]. split.
    + apply Forall_app. split.
      * eapply ser_ok_set_padding; [exact Fb| |exact E].
        pose proof (first_padding_ser_ok _ _ Fb Ep). lia.
      * constructor; [|constructor]. cbn. split; [exact T|exact C1].
    + right. apply first_seektable_app_none. rewrite (set_first_padding_first _ _ _ E). exact Es.
Qed.

(* the defined points of a table: what generate_seektable is compared on *)
Definition is_defined (pt : mpoint) : bool := match pt with Defined _ _ _ => true | Placeholder => false end.
Definition defined_points (l : list mpoint) : list mpoint := List.filter is_defined l.

Lemma defined_points_placeholders k n : defined_points (take_n (repeat Placeholder k) n) = [].
Proof.
  revert n. induction k as [|k IH]; intros n; cbn [repeat take_n]; [reflexivity|].
  destruct (n =? 0); [reflexivity|]. cbn. apply IH.
Qed.
Lemma to_mpoint_defined a : sp_byte a <> None -> is_defined (to_mpoint a) = true.
Proof. unfold to_mpoint. destruct (sp_byte a); [reflexivity|congruence]. Qed.

Lemma defined_points_cut k : forall sel n, all_defined sel ->
  defined_points (take_n (map to_mpoint sel ++ repeat Placeholder k) n) = take_n (map to_mpoint sel) n.
Proof.
  induction sel as [|a sel IH]; intros n D; cbn [map app].
  - rewrite defined_points_placeholders. destruct n; reflexivity.
  - inversion D as [|? ? Da D']; subst. cbn [take_n]. destruct (n =? 0); [reflexivity|].
    unfold defined_points. cbn [List.filter]. rewrite (to_mpoint_defined a Da). f_equal. apply IH. exact D'.
Qed.
Lemma defined_points_all sel : all_defined sel -> defined_points (map to_mpoint sel) = map to_mpoint sel.
Proof.
  induction 1 as [|a sel Da D IH]; cbn [map]; [reflexivity|].
  unfold defined_points. cbn [List.filter]. rewrite (to_mpoint_defined a Da). f_equal. exact IH.
Qed.

Lemma take_n_take_n {A} : forall (l : list A) n m, n <= m -> take_n (take_n l m) n = take_n l n.
Proof.
  induction l as [|x l IH]; intros n m H; cbn [take_n]; [reflexivity|].
  destruct (N.eqb_spec m 0) as [E|E].
  - subst. assert (n = 0) by lia. subst. reflexivity.
  - cbn [take_n]. destruct (N.eqb_spec n 0); [reflexivity|]. f_equal. apply IH. lia.
Qed.
Lemma take_n_all {A} : forall (l : list A) n, N.of_nat (length l) <= n -> take_n l n = l.
Proof.
  induction l as [|x l IH]; intros n H; cbn [take_n]; [reflexivity|].
  cbn [length] in H. rewrite Nat2N.inj_succ in H. destruct (N.eqb_spec n 0); [lia|]. f_equal. apply IH. lia.
Qed.

Section Finish.
Variable enc_block : N -> block -> res (list N).
Variable md5 : list N -> list N.
Hypothesis md5_length : forall l, length (md5 l) = 16%nat.
Variable p : profile.

(* what the constructor establishes and encoding keeps, besides enc_inv *)
Record enc_static (e : encoder) : Prop := {
  st_blocks : Forall oblock_ser_ok (e_blocks e);
  st_rate : si_rate (e_si e) < 2 ^ 20;
  st_interval : match e_interval e with Some (Seconds s) => s <= 255 | _ => True end;
  st_si : si_min_bs (e_si e) < 2 ^ 16 /\ si_max_bs (e_si e) < 2 ^ 16 /\
          1 <= si_channels (e_si e) <= 8 /\ 1 <= si_bps (e_si e) <= 32 /\
          match si_total (e_si e) with Some t => 1 <= t < MAX_SAMPLES | None => True end }.

Definition frames_nonempty (e : encoder) : Prop := Forall (fun x => 1 <= fst x) (frames_info e).

Lemma fs_min_bound lens m : fs_min lens = Some m -> m < 2 ^ 24.
Proof.
  unfold fs_min. pose proof (fold_min_spec lens None) as H. intros E. rewrite E in H.
  destruct H as ([A|[_ Q]] & _); [discriminate|]. unfold qualifies, MAX_FRAME_SIZE in Q.
  apply andb_prop in Q. destruct Q as [Q _]. apply andb_prop in Q. destruct Q as [_ Q].
  apply N.ltb_lt in Q. change (2 ^ 24) with 16777216. lia.
Qed.
Lemma fs_max_bound lens m : fs_max lens = Some m -> m < 2 ^ 24.
Proof.
  unfold fs_max. pose proof (fold_max_spec lens None) as H. intros E. rewrite E in H.
  destruct H as ([A|[_ Q]] & _); [discriminate|]. unfold qualifies, MAX_FRAME_SIZE in Q.
  apply andb_prop in Q. destruct Q as [Q _]. apply andb_prop in Q. destruct Q as [_ Q].
  apply N.ltb_lt in Q. change (2 ^ 24) with 16777216. lia.
Qed.

(* finalize on a well-formed encoder: never Panic; Ok exactly when the sample count is acceptable;
   and then the result is described completely *)
Theorem encoder_finalize_spec e :
  enc_inv e -> enc_static e -> frames_nonempty e ->
  match finalize_total (e_si e) (e_samples_written e) with
  | Ok total =>
      exists f sel, encoder_finalize md5 p e = Ok f /\ f_enc f = e /\
        (match e_interval e with
         | Some iv => filter p iv (si_rate (e_si e)) (frame_seekpoints 0 0 (frames_info e)) = Ok sel /\
                      finalize_seektable (e_blocks e) sel = Ok (f_blocks f)
         | None => f_blocks f = e_blocks e
         end) /\
        selected_ok (frames_info e) sel /\
        f_si f = with_total_md5 (e_si e) total (Some (md5 (md5_input e))) /\
        Forall oblock_ser_ok (f_blocks f)
  | Err er => encoder_finalize md5 p e = Err er
  | Panic k => False
  end.
Proof.
  intros I S Fn. unfold encoder_finalize, encoder_finalize_gen.
  assert (exists sel blocks',
            (match e_interval e with
             | Some iv => sel' <- filter p iv (si_rate (e_si e)) (seekpoints e);; finalize_seektable_gen true (e_blocks e) sel'
             | None => Ok (e_blocks e) end) = Ok blocks' /\
            (match e_interval e with
             | Some iv => filter p iv (si_rate (e_si e)) (frame_seekpoints 0 0 (frames_info e)) = Ok sel /\
                          finalize_seektable (e_blocks e) sel = Ok blocks'
             | None => blocks' = e_blocks e end) /\
            selected_ok (frames_info e) sel /\ Forall oblock_ser_ok blocks') as (sel & blocks' & E1 & E2 & Ss & Fb).
  { destruct (e_interval e) as [iv|] eqn:Ei.
    - rewrite (inv_points e I).
      destruct (filter_ok p iv (si_rate (e_si e)) (frame_seekpoints 0 0 (frames_info e)) (st_rate e S)) as (sel & Hs).
      { pose proof (st_interval e S) as Hi. rewrite Ei in Hi. destruct iv; auto. }
      assert (Ss : selected_ok (frames_info e) sel) by (eapply filter_subseq; eauto).
      destruct (finalize_seektable_spec (e_blocks e) (frames_info e) sel (st_blocks e S) Fn Ss) as (bl & Hb & Fb & _).
      { destruct (inv_fit e I) as [Hts _]. unfold true_samples, sum_fst in Hts. unfold total_fst, U64_MAX. change (2 ^ 64) with 18446744073709551616 in Hts. lia. }
      exists sel, bl. rewrite Hs. cbn [bind]. repeat split; auto.
    - exists [], (e_blocks e). repeat split; auto. apply subseq_nil. apply (st_blocks e S). }
  rewrite E1. cbn [bind].
  destruct (finalize_total (e_si e) (e_samples_written e)) as [total|er|k] eqn:Et; cbn [bind]; auto.
  - (* write_blocks succeeds *)
    destruct (st_si e S) as (B1 & B2 & B3 & B4 & B5).
    assert (Hsi : streaminfo_ok (with_total_md5 (e_si e) total (Some (md5 (md5_input e))))).
    { unfold streaminfo_ok; cbn. repeat split; try tauto; try apply (st_rate e S); try apply md5_length.
      - rewrite (inv_min e I). destruct (fs_min _) as [m|] eqn:E; cbn; [eapply fs_min_bound; eauto|lia].
      - rewrite (inv_max e I). destruct (fs_max _) as [m|] eqn:E; cbn; [eapply fs_max_bound; eauto|lia].
      - unfold finalize_total in Et. destruct (si_total (e_si e)) as [t|].
        + destruct (t =? _); inversion Et; subst. cbn. unfold MAX_SAMPLES in B5. change (2 ^ 36) with 68719476736. lia.
        + destruct (N.ltb_spec (e_samples_written e) MAX_SAMPLES); [|discriminate].
          destruct (e_samples_written e =? 0); inversion Et; subst. cbn. unfold MAX_SAMPLES in *. change (2 ^ 36) with 68719476736. lia. }
    destruct (write_blocks_ok _ blocks' Hsi Fb) as (m & Hm & _). rewrite Hm. cbn [bind].
    eexists. exists sel. split; [reflexivity|]. cbn. repeat split; auto.
  - unfold finalize_total in Et. destruct (si_total (e_si e)); [destruct (_ =? _)|destruct (_ <? _); [destruct (_ =? _)|]]; discriminate.
Qed.

(* STREAMINFO of a finished stream: the true count, the true extrema, the digest of what was fed *)
Corollary finalize_streaminfo e f :
  enc_inv e -> enc_static e -> frames_nonempty e -> encoder_finalize md5 p e = Ok f ->
  si_total (f_si f) = Some (true_samples e) /\
  si_min_fs (f_si f) = fs_min (map snd (frames_info e)) /\
  si_max_fs (f_si f) = fs_max (map snd (frames_info e)) /\
  si_md5 (f_si f) = Some (md5 (md5_input e)) /\
  si_rate (f_si f) = si_rate (e_si e) /\ si_channels (f_si f) = si_channels (e_si e) /\
  si_bps (f_si f) = si_bps (e_si e) /\ si_min_bs (f_si f) = si_min_bs (e_si e) /\
  si_max_bs (f_si f) = si_max_bs (e_si e) /\ 1 <= true_samples e < MAX_SAMPLES.
Proof.
  intros I S Fn H. pose proof (encoder_finalize_spec e I S Fn) as Sp.
  destruct (finalize_total (e_si e) (e_samples_written e)) as [total|er|k] eqn:Et; [|congruence|contradiction].
  destruct Sp as (f' & sel & Hf & _ & _ & _ & Hsi & _). rewrite Hf in H. inversion H; subst f'. clear H.
  rewrite Hsi; cbn. rewrite <- (inv_min e I), <- (inv_max e I).
  unfold finalize_total in Et. rewrite (inv_written e I) in Et.
  destruct (st_si e S) as (_ & _ & _ & _ & B5).
  destruct (si_total (e_si e)) as [t|] eqn:Ed.
  - destruct (N.eqb_spec t (true_samples e)) as [E|E]; inversion Et; subst. repeat split; auto; lia.
  - destruct (N.ltb_spec (true_samples e) MAX_SAMPLES); [|discriminate].
    destruct (N.eqb_spec (true_samples e) 0); inversion Et; subst. repeat split; auto; lia.
Qed.

End Finish.

Section Points.
Variable enc_block : N -> block -> res (list N).
Variable md5 : list N -> list N.
Hypothesis md5_length : forall l, length (md5 l) = 16%nat.
Variable p : profile.

Lemma in_take_n {A} (l : list A) n x : In x (take_n l n) -> In x l.
Proof. apply subseq_in. apply take_n_subseq. Qed.

Lemma defined_in_table frames sel k n s b m :
  selected_ok frames sel ->
  In (Defined s b m) (take_n (map to_mpoint sel ++ repeat Placeholder k) n) ->
  In {| sp_sample := s; sp_byte := Some b; sp_frames := m |} (frame_seekpoints 0 0 frames).
Proof.
  intros S H. apply in_take_n in H. apply in_app_or in H. destruct H as [H|H].
  - apply in_map_iff in H. destruct H as (a & Ea & Ha).
    eapply subseq_in; [exact S|]. destruct a as [sa ba na]. unfold to_mpoint in Ea. cbn in Ea.
    destruct ba as [b0|]; [|discriminate]. inversion Ea; subst. exact Ha.
  - apply repeat_spec in H. discriminate.
Qed.

(* the SEEKTABLE of a finished stream: contiguous (defined points strictly ascending, placeholders
   last), every defined point is the candidate of an emitted frame, and generate_seektable with
   the same interval selects the same points *)
Theorem finalize_points e f iv pts :
  enc_inv e -> enc_static e -> frames_nonempty e -> e_interval e = Some iv ->
  encoder_finalize md5 p e = Ok f -> first_seektable (f_blocks f) = Some pts ->
  is_contiguous pts = true /\
  (forall s b m, In (Defined s b m) pts ->
     In {| sp_sample := s; sp_byte := Some b; sp_frames := m |} (frame_seekpoints 0 0 (frames_info e))) /\
  exists sel regenerated,
    generate_seektable p (si_rate (e_si e)) (frames_info e) iv = Ok regenerated /\
    defined_points regenerated = take_n (map to_mpoint sel) MAX_POINTS /\
    match first_seektable (e_blocks e) with
    | None => pts = regenerated                                   (* table carved out of the padding *)
    | Some old => defined_points pts = take_n (map to_mpoint sel) (N.of_nat (length old))
    end.
Proof.
  intros I S Fn Ei H Hp. pose proof (encoder_finalize_spec md5 md5_length p e I S Fn) as Sp.
  destruct (finalize_total (e_si e) (e_samples_written e)) as [total|er|k]; [|congruence|contradiction].
  destruct Sp as (f' & sel & Hf & _ & Hb & Ss & _ & _). rewrite Hf in H. inversion H; subst f'. clear H.
  rewrite Ei in Hb. destruct Hb as [Hs Hb].
  destruct (selected_asc _ _ Fn Ss) as [A D].
  assert (Hmax : total_fst (frames_info e) <= U64_MAX).
  { destruct (inv_fit e I) as [Hts _]. unfold true_samples, sum_fst in Hts. unfold total_fst, U64_MAX. change (2 ^ 64) with 18446744073709551616 in Hts. lia. }
  destruct (finalize_seektable_spec (e_blocks e) (frames_info e) sel (st_blocks e S) Fn Ss Hmax) as (bl & Hb' & _ & Ht).
  rewrite Hb in Hb'. inversion Hb'; subst bl. clear Hb'.
  (* the regenerated table *)
  destruct (to_contiguous_selected (frames_info e) sel 0 MAX_POINTS Fn Ss Hmax (N.le_refl _)) as [C T].
  cbv zeta in C, T. cbn [repeat] in C, T. rewrite app_nil_r, take_n_map in C, T.
  assert (G : generate_seektable p (si_rate (e_si e)) (frames_info e) iv = Ok (map to_mpoint (take_n sel MAX_POINTS))).
  { unfold generate_seektable. rewrite Hs. cbn [bind]. exact C. }
  assert (Dr : defined_points (map to_mpoint (take_n sel MAX_POINTS)) = take_n (map to_mpoint sel) MAX_POINTS).
  { rewrite defined_points_all; [apply eq_sym, take_n_map|]. eapply subseq_forall; [apply take_n_subseq|exact D]. }
  destruct (first_seektable (e_blocks e)) as [old|] eqn:Eo.
  - rewrite Hp in Ht. inversion Ht; subst pts. clear Ht.
    pose proof (first_seektable_ser_ok _ _ (st_blocks e S) Eo) as Ln.
    destruct (to_contiguous_selected (frames_info e) sel (length old) (N.of_nat (length old)) Fn Ss Hmax Ln) as [C1 _].
    cbv zeta in C1. apply to_contiguous_ok in C1. destruct C1 as (_ & _ & C1).
    split; [exact C1|]. split.
    + intros s b m Hin. eapply defined_in_table; eauto.
    + exists sel, (map to_mpoint (take_n sel MAX_POINTS)). repeat split; auto.
      apply defined_points_cut. exact D.
  - destruct Ht as [Ht|Ht]; [congruence|]. rewrite Hp in Ht. inversion Ht; subst pts. clear Ht.
    apply to_contiguous_ok in C. destruct C as (_ & _ & C).
    split; [exact C|]. split.
    + intros s b m Hin. rewrite <- take_n_map in Hin.
      eapply (defined_in_table _ sel 0 MAX_POINTS); eauto. cbn [repeat]. rewrite app_nil_r. exact Hin.
    + exists sel, (map to_mpoint (take_n sel MAX_POINTS)). repeat split; auto.
Qed.

(* with a placeholder table in place, the defined points equal the regenerated ones as soon as
   the table is large enough for the selection (or full) *)
Corollary finalize_regenerate_declared (sel : list seekpoint) (old regenerated pts : list mpoint) :
  defined_points regenerated = take_n (map to_mpoint sel) MAX_POINTS ->
  defined_points pts = take_n (map to_mpoint sel) (N.of_nat (length old)) ->
  N.of_nat (length old) <= MAX_POINTS ->
  N.of_nat (length sel) <= N.of_nat (length old) \/ N.of_nat (length old) = MAX_POINTS ->
  defined_points pts = defined_points regenerated.
Proof.
  intros R P L [H|H]; rewrite R, P.
  - rewrite !take_n_all; auto; rewrite map_length; lia.
  - rewrite H. reflexivity.
Qed.

End Points.
