//! Behavioural table extraction (fallback for tools/gen_crc.py when the source text of crc.rs no longer
//! matches its extractor): the CRC of every single-byte message is the table entry for that byte.
use flac_codec::verif_hooks::{crc16, crc8};
fn main() {
    let t8: Vec<String> = (0..256u32).map(|i| crc8(&[i as u8]).to_string()).collect();
    let t16: Vec<String> = (0..256u32).map(|i| crc16(&[i as u8]).to_string()).collect();
    println!("{{\"crc8\":[{}],\"crc16\":[{}]}}", t8.join(","), t16.join(","));
}
