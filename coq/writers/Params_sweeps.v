(* writers/Params_sweeps.v — C15: complete enumerations of the small argument domains inside
   Coq (forallb ... = true by vm_compute), with the bounds stated at each sweep.  The unbounded
   domains (u32 rate, u64 totals, every N) are covered by the lemmas of Params_proofs.v. *)
From FlacWriters Require Import Params Params_proofs.
Open Scope N_scope.

(* complete enumerations of the small argument domains, inside Coq (bounds stated):
   block_size : u16 = 0..65535; max_lpc_order : Option<u8> = None | 0..255;
   max_partition_order : the u32 values 0..1023 (the rest by the lemma above). *)
(* start .. start+p-1, by recursion on the binary representation *)
Fixpoint range_pos (p : positive) (start : N) : list N :=
  match p with
  | xH => [start]
  | xO q => range_pos q start ++ range_pos q (start + Npos q)
  | xI q => start :: (range_pos q (start + 1) ++ range_pos q (start + 1 + Npos q))
  end.
(* 0 .. n-1 *)
Definition nrange (n : N) : list N := match n with N0 => [] | Npos p => range_pos p 0 end.
Definition sweep_block_size : bool :=
  forallb (fun v => match options_block_size options_default v with
                    | Ok o => (16 <=? v) && (o_block_size o =? v)
                    | Err _ => v <? 16
                    | Panic _ => false end) (nrange 65536).
Definition sweep_lpc : bool :=
  forallb (fun v => match options_max_lpc_order options_default v with
                    | Ok o => documented_lpc v
                    | Err _ => negb (documented_lpc v)
                    | Panic _ => false end) (None :: map Some (nrange 256)).
Definition sweep_po : bool :=
  forallb (fun v => match options_max_partition_order options_default v with
                    | Ok o => (v <=? 15) && (o_max_partition_order o =? v)
                    | Err _ => 15 <? v
                    | Panic _ => false end) (nrange 1024).
Lemma sweep_block_size_ok : sweep_block_size = true. Proof. vm_cast_no_check (eq_refl true). Qed.
Lemma sweep_lpc_ok : sweep_lpc = true. Proof. vm_cast_no_check (eq_refl true). Qed.
Lemma sweep_po_ok : sweep_po = true. Proof. vm_cast_no_check (eq_refl true). Qed.

(* small argument domains enumerated completely inside Coq: bits_per_sample 0..=64 x channels
   0..=255 (all of u8) x a declared total from {None, 0, 1, 7, 48} x the three writers;
   rate is covered for all values by new_validate_spec *)
Definition sweep_new : bool :=
  forallb (fun k =>
    forallb (fun bps =>
      forallb (fun ch =>
        forallb (fun total =>
          match new_validate k 44100 bps ch total with
          | Ok _ => documented_args k 44100 bps ch total
          | Err _ => negb (documented_args k 44100 bps ch total)
          | Panic _ => false
          end) [None; Some 0; Some 1; Some 7; Some 48])
        (nrange 256))
      (nrange 65))
    [WByte; WSample; WChannel].
Lemma sweep_new_ok : sweep_new = true. Proof. vm_cast_no_check (eq_refl true). Qed.

(* complete sweep of the guard: every block size 1..=4608 (the subset maximum) and the
   power-of-two-rich sizes up to 65535, every maximum order 0..=15, full residual length *)
Definition sweep_partitions : bool :=
  forallb (fun bs =>
    forallb (fun po => is_ok (best_partitions_guard bs bs po) && is_ok (best_partitions_guard bs (bs - 1) po))
            (nrange 16))
    (map (fun i => i + 1) (nrange 4608) ++ [8192; 16384; 32768; 49152; 65535; 65280; 61440]).
Lemma sweep_partitions_ok : sweep_partitions = true. Proof. vm_cast_no_check (eq_refl true). Qed.
