(* metadata/Cue.v — cue sheet text import: Cuesheet::parse (mod.rs:3241-3297),
   ParsedCuesheet::parse (mod.rs:3562-3739), CDDAOffset::from_str (cuesheet.rs:126-141,
   after fix F-C12d), ISRCString::from_str (in Blocks.v), lead-out construction
   (cuesheet.rs:581-598, 650-665).  Text is a list of Unicode code points (N); the std
   string functions used by the parser are modelled on code points:
     str::lines        split at '\n', one trailing '\r' of a terminated line removed
     str::trim         White_Space property (the 25 code points listed in is_ws)
     str::split_once   first occurrence of the separator
     uN::from_str      optional '+', at least one ASCII digit, overflow is an error
   Fidelity of is_ws against std on exotic white space is by correspondence only.
   No proofs in this file. *)
From FlacMeta Require Export Blocks.
Open Scope N_scope.

Definition LEAD_IN : N := 88200.                 (* mod.rs:2845 44100 * 2 *)
Definition CDDA_MAX_INDEX_TEXT : N := 100.       (* IndexVec<100, CDDAOffset> *)
Definition NONCDDA_MAX_INDEX_TEXT : N := 255.    (* IndexVec<255, u64> (after fix F-C11b) *)

(* ---- characters and strings *)
Definition is_ws (c : N) : bool :=
  ((9 <=? c) && (c <=? 13)) || (c =? 32) || (c =? 133) || (c =? 160) || (c =? 5760) ||
  ((8192 <=? c) && (c <=? 8202)) || (c =? 8232) || (c =? 8233) || (c =? 8239) || (c =? 8287) || (c =? 12288).

Fixpoint drop_ws (s : list N) : list N :=
  match s with c :: r => if is_ws c then drop_ws r else s | [] => [] end.
Definition trim (s : list N) : list N := rev (drop_ws (rev (drop_ws s))).

(* a terminated line loses its '\n' and then one '\r' *)
Definition strip_cr (l : list N) : list N :=
  match rev l with 13 :: r => rev r | _ => l end.
Fixpoint split_lines (cur_rev : list N) (s : list N) : list (list N) :=
  match s with
  | [] => match cur_rev with [] => [] | _ => [rev cur_rev] end
  | c :: r => if c =? 10 then strip_cr (rev cur_rev) :: split_lines [] r
              else split_lines (c :: cur_rev) r
  end.
Definition lines (s : list N) : list (list N) := split_lines [] s.

(* split_once(sep): text before and after the first sep *)
Fixpoint split_once (sep : N) (s : list N) : option (list N * list N) :=
  match s with
  | [] => None
  | c :: r => if c =? sep then Some ([], r)
              else match split_once sep r with
                   | Some (a, b) => Some (c :: a, b)
                   | None => None
                   end
  end.

Fixpoint list_eqb (a b : list N) : bool :=
  match a, b with
  | [], [] => true
  | x :: a', y :: b' => (x =? y) && list_eqb a' b'
  | _, _ => false
  end.

(* ---- integers from text: u8 / u64 / NonZero<u8> FromStr *)
Fixpoint digits_val (acc : N) (s : list N) : option N :=
  match s with
  | [] => Some acc
  | c :: r => if is_digit c then digits_val (acc * 10 + (c - 48)) r else None
  end.
Definition parse_uint (maxv : N) (s : list N) : option N :=
  let digits := match s with 43 :: r => r | _ => s end in
  match digits with
  | [] => None
  | _ => match digits_val 0 digits with
         | Some v => if v <=? maxv then Some v else None
         | None => None
         end
  end.
Definition parse_u8 := parse_uint 255.
Definition parse_u64 := parse_uint U64_MAX.
Definition parse_nonzero_u8 (s : list N) : option N :=
  match parse_u8 s with Some v => if v =? 0 then None else Some v | None => None end.

(* u64 checked arithmetic *)
Definition checked_mul64 (a b : N) : option N := if a * b <=? U64_MAX then Some (a * b) else None.
Definition checked_add64 (a b : N) : option N := if a + b <=? U64_MAX then Some (a + b) else None.

(* cuesheet.rs:126-141 (after fix F-C12d) *)
Definition cdda_offset_from_str (s : list N) : option N :=
  match split_once 58 s with None => None | Some (mm, rest) =>
  match split_once 58 rest with None => None | Some (ss, ff) =>
  match parse_u64 ff with None => None | Some ffv => if negb (ffv <? 75) then None else
  match parse_u64 ss with None => None | Some ssv => if negb (ssv <? 60) then None else
  match parse_u64 mm with None => None | Some mmv =>
  match checked_mul64 mmv 4500 with None => None | Some f1 =>
  match checked_add64 f1 (ffv + ssv * 75) with None => None | Some f2 =>
  checked_mul64 f2 SAMPLES_PER_SECTOR
  end end end end end end end.

(* mod.rs:3605-3611 *)
Definition unquote (s : list N) : list N :=
  match s with
  | 34 :: r => match rev r with 34 :: m => rev m | _ => s end
  | _ => s
  end.

(* mod.rs:3244-3264 *)
Definition cdda_catalog (s : list N) : res (option (list N)) :=
  if forallb is_digit s then (if lenN s =? 13 then Ok (Some s) else Err EOther) else Err EOther.
Definition non_cdda_catalog (s : list N) : res (list N) :=
  if forallb is_digit s then (if lenN s <=? CATALOG_LEN then Ok s else Err EOther) else Err EOther.

(* ---- parser state, mod.rs:3566-3618 *)
Record wip := mkWip {
  w_offset : option N; w_number : N; w_isrc : isrc; w_pre : bool;
  w_ix_rev : list index; w_ix_len : N }.
Definition wip_new (number : N) : wip := mkWip None number IsrcNone false [] 0.

Record pstate := mkPs {
  ps_catalog : option (list N);      (* Some once a CATALOG line was seen *)
  ps_tracks_rev : list track; ps_ntracks : N;
  ps_wip : option wip }.

Section CueParse.
Variable cdda : bool.

Definition parse_offset (s : list N) : option N :=
  if cdda then cdda_offset_from_str s else parse_u64 s.
Definition index_max : N := if cdda then CDDA_MAX_INDEX_TEXT else NONCDDA_MAX_INDEX_TEXT.
Definition track_max : N := if cdda then CDDA_MAX_TRACKS else NONCDDA_MAX_TRACKS.

(* TryFrom<WipTrack> for ParsedCuesheetTrack, mod.rs:3590-3601 *)
Definition finish_track (w : wip) : res track :=
  match w_offset w with
  | None => Err EOther (* InvalidTrack *)
  | Some off =>
    (iv <- indexvec_try_from (rev (w_ix_rev w)) ;;
     Ok (mkTrack off (w_number w) (w_isrc w) false (w_pre w) iv))%res
  end.

Definition push_track (st : pstate) (t : track) : res pstate :=
  (r <- try_push track_valid_first track_is_next track_max (ps_tracks_rev st) (ps_ntracks st) t ;;
   match r with
   | Some items => Ok (mkPs (ps_catalog st) items (N.succ (ps_ntracks st)) (ps_wip st))
   | None => Err EOther (* TracksOutOfSequence *)
   end)%res.

Definition kw_CATALOG : list N := [67; 65; 84; 65; 76; 79; 71].
Definition kw_TRACK : list N := [84; 82; 65; 67; 75].
Definition kw_INDEX : list N := [73; 78; 68; 69; 88].
Definition kw_ISRC : list N := [73; 83; 82; 67].
Definition kw_FLAGS : list N := [70; 76; 65; 71; 83].
Definition kw_PRE : list N := [80; 82; 69].

(* one line of the loop after `line.trim()`, mod.rs:3622-3722 *)
Definition parse_trimmed (st : pstate) (line : list N) : res pstate :=
  let '(kw, rest) := match split_once 32 line with Some p => p | None => (line, []) end in
  if list_eqb kw kw_CATALOG then
    match rest with
    | [] => Err EOther (* CatalogMissingNumber *)
    | _ =>
      match ps_catalog st with
      | Some _ => Err EOther (* MultipleCatalogNumber *)
      | None =>
        (c <- (if cdda then (x <- cdda_catalog (unquote rest) ;; Ok (match x with Some d => d | None => [] end))
               else non_cdda_catalog (unquote rest)) ;;
         Ok (mkPs (Some c) (ps_tracks_rev st) (ps_ntracks st) (ps_wip st)))%res
      end
    end
  else if list_eqb kw kw_TRACK then
    match split_once 32 rest with
    | None => Err EOther (* InvalidTrack *)
    | Some (num, _) =>
      match parse_nonzero_u8 num with
      | None => Err EOther
      | Some n =>
        match ps_wip st with
        | Some finished =>
          (t <- finish_track finished ;;
           st' <- push_track st t ;;
           Ok (mkPs (ps_catalog st') (ps_tracks_rev st') (ps_ntracks st') (Some (wip_new n))))%res
        | None => Ok (mkPs (ps_catalog st) (ps_tracks_rev st) (ps_ntracks st) (Some (wip_new n)))
        end
      end
    end
  else if list_eqb kw kw_INDEX then
    match split_once 32 rest with
    | None => Err EOther (* InvalidIndexPoint *)
    | Some (num, off) =>
      match parse_u8 num with None => Err EOther | Some number =>
      match parse_offset off with None => Err EOther | Some offset =>
      match ps_wip st with
      | None => Err EOther (* PrematureIndex *)
      | Some w =>
        (ix_w <- match w_offset w with
                 | None =>
                   if (ps_ntracks st =? 0) && negb (offset =? 0) then Err EOther (* NonZeroFirstIndex *)
                   else Ok (mkIx 0 number, mkWip (Some offset) (w_number w) (w_isrc w) (w_pre w) (w_ix_rev w) (w_ix_len w))
                 | Some track_offset =>
                   (* after fix F-C12c: the index must lie after the track's first index *)
                   if track_offset <? offset then Ok (mkIx (offset - track_offset) number, w)
                   else Err EOther (* IndexPointsOutOfSequence *)
                 end ;;
         let '(ix, w1) := ix_w in
         r <- try_push index_valid_first index_is_next index_max (w_ix_rev w1) (w_ix_len w1) ix ;;
         match r with
         | None => Err EOther (* IndexPointsOutOfSequence *)
         | Some items =>
           Ok (mkPs (ps_catalog st) (ps_tracks_rev st) (ps_ntracks st)
                    (Some (mkWip (w_offset w1) (w_number w1) (w_isrc w1) (w_pre w1) items (N.succ (w_ix_len w1)))))
         end)%res
      end end end
    end
  else if list_eqb kw kw_ISRC then
    match ps_wip st with
    | None => Err EOther (* PrematureISRC *)
    | Some w =>
      match w_ix_rev w with
      | _ :: _ => Err EOther (* LateISRC *)
      | [] =>
        match w_isrc w with
        | IsrcStr _ => Err EOther (* MultipleISRC *)
        | IsrcNone =>
          match isrc_from_str (unquote rest) with
          | None => Err EOther (* InvalidISRC *)
          | Some s => Ok (mkPs (ps_catalog st) (ps_tracks_rev st) (ps_ntracks st)
                               (Some (mkWip (w_offset w) (w_number w) (IsrcStr s) (w_pre w) (w_ix_rev w) (w_ix_len w))))
          end
        end
      end
    end
  else if list_eqb kw kw_FLAGS && list_eqb rest kw_PRE then
    match ps_wip st with
    | None => Err EOther (* PrematureFlags *)
    | Some w =>
      match w_ix_rev w with
      | _ :: _ => Err EOther (* LateFlags *)
      | [] => Ok (mkPs (ps_catalog st) (ps_tracks_rev st) (ps_ntracks st)
                       (Some (mkWip (w_offset w) (w_number w) (w_isrc w) true (w_ix_rev w) (w_ix_len w))))
      end
    end
  else Ok st.

(* mod.rs:3620-3621 *)
Definition parse_line (st : pstate) (raw : list N) : res pstate := parse_trimmed st (trim raw).

Fixpoint parse_lines (st : pstate) (ls : list (list N)) : res pstate :=
  match ls with
  | [] => Ok st
  | l :: r => (st' <- parse_line st l ;; parse_lines st' r)%res
  end.

(* ParsedCuesheet::parse: (catalog given by a CATALOG line, tracks) *)
Definition parsed_cuesheet (text : list N) : res (option (list N) * list track) :=
  (st <- parse_lines (mkPs None [] 0 None) (lines text) ;;
   match ps_wip st with
   | None => Err EOther (* NoTracks *)
   | Some w =>
     t <- finish_track w ;;
     st' <- push_track st t ;;
     Ok (ps_catalog st', rev (ps_tracks_rev st'))
   end)%res.
End CueParse.

(* cuesheet.rs:585-597 / 652-664: the comparison is with the last index point's offset as
   stored, i.e. relative to its track *)
Definition leadout_new (last : option track) (offset : N) : res leadout :=
  match last with
  | Some t => if offset <=? indexvec_last (tr_ix t) then Err EOther (* ShortLeadOut *)
              else Ok (mkLO offset IsrcNone false false)
  | None => Ok (mkLO offset IsrcNone false false)
  end.

Definition last_opt {A} (l : list A) : option A := match rev l with x :: _ => Some x | [] => None end.

(* Cuesheet::parse, mod.rs:3241-3297.  No arithmetic here depends on the build profile
   (after the fixes F-C12c/d/e); the parameter keeps the C12 statement uniform. *)
Definition cue_parse (p : profile) (total : N) (text : list N) : res cuesheet :=
  if total mod SAMPLES_PER_SECTOR =? 0 then
    ('(cat, tracks) <- parsed_cuesheet true text ;;
     lo <- leadout_new (last_opt tracks) total ;;
     Ok (CueCDDA (match cat with Some ((_ :: _) as d) => Some d | _ => None end) LEAD_IN tracks lo))%res
  else
    ('(cat, tracks) <- parsed_cuesheet false text ;;
     lo <- leadout_new (last_opt tracks) total ;;
     Ok (CueNonCDDA (match cat with Some d => d | None => [] end) tracks lo))%res.
