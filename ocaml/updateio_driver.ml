(* Driver for the extracted updateio model (coq/updateio/Extract.v).
   One case per line on stdin, one canonical result per line on stdout.

   C10  "c10 old=<n> si=<size> blocks=<ty>:<size>:<uc>;<ty>:<size>:<uc>;..."   (uc = -1: no class)
        -> "ok inplace|rebuild <ty>:<size>;..."  |  "err"  |  "panic"
   C13  "c13 ..." (see below) *)
open Updateio_model

let rec pos_of_int n =
  if n = 1 then XH else if n land 1 = 1 then XI (pos_of_int (n lsr 1)) else XO (pos_of_int (n lsr 1))
let n_of_int n = if n = 0 then N0 else Npos (pos_of_int n)
let rec int_of_pos = function XH -> 1 | XO p -> 2 * int_of_pos p | XI p -> 2 * int_of_pos p + 1
let int_of_n = function N0 -> 0 | Npos p -> int_of_pos p

let split_on c s = List.filter (fun x -> x <> "") (String.split_on_char c s)

let kv line =
  List.filter_map
    (fun tok ->
      match String.index_opt tok '=' with
      | Some i -> Some (String.sub tok 0 i, String.sub tok (i + 1) (String.length tok - i - 1))
      | None -> None)
    (split_on ' ' line)

let get kvs k = try List.assoc k kvs with Not_found -> ""

(* ------------------------------------------------------------------ C10 *)
let c10 kvs =
  let old_size = n_of_int (int_of_string (get kvs "old")) in
  let si = (n_of_int (int_of_string (get kvs "si")), None) in
  let blocks =
    List.map
      (fun item ->
        match String.split_on_char ':' item with
        | [ ty; size; uc ] ->
            let ty = int_of_string ty and size = int_of_string size and uc = int_of_string uc in
            if ty = 1 then OPadding (n_of_int size)
            else
              let k =
                match ty with
                | 2 -> KApplication | 3 -> KSeekTable | 4 -> KVorbisComment | 5 -> KCuesheet | 6 -> KPicture
                | _ -> failwith ("bad block type " ^ item)
              in
              OOther (k, (n_of_int size, if uc < 0 then None else Some (n_of_int uc)))
        | _ -> failwith ("bad block " ^ item))
      (split_on ';' (get kvs "blocks"))
  in
  match d_update old_size si blocks with
  | Ok (rebuilt, bs) ->
      Printf.printf "ok %s %s\n"
        (if rebuilt then "rebuild" else "inplace")
        (String.concat ";" (List.map (fun (ty, sz) -> Printf.sprintf "%d:%d" (int_of_n ty) (int_of_n sz)) bs))
  | Err _ -> print_string "err\n"
  | Panic _ -> print_string "panic\n"

let () =
  try
    while true do
      let line = String.trim (input_line stdin) in
      if line <> "" then begin
        let kvs = kv line in
        match List.hd (split_on ' ' line) with
        | "c10" -> c10 kvs
        | other -> Printf.printf "unknown-case-kind %s\n" other
      end
    done
  with End_of_file -> ()
