#!/usr/bin/env python3
"""Anchor check for the `readers` area: the Rust functions that coq/readers/{Ser,Readers,Seek}.v mirror.

usage: gen_readers.py <repo> <anchors.json> [--update]

Extracts the normalised text (comments and white space removed) of every mirrored function from the
current source tree and compares its hash with the one recorded in <anchors.json> when the model was
last aligned.  Exit 0: all anchors unchanged.  Exit 3: some function text changed (not a violation: the
check lists it in the evidence and the correspondence run decides).  Exit 2: the anchor file itself is missing.  A function that is no longer found (renamed, moved)
is reported like a changed one (exit 3): these anchors carry text only, no data.  --update rewrites the file (done by hand after re-reading the code)."""
import hashlib
import json
import os
import re
import sys

ANCHORS = [
    # id, file, start-of-signature regex, occurrence (among definitions with a body), Coq definition
    ("byte_read", "src/decode.rs", r"fn read\(&mut self, buf: &mut \[u8\]\)", 0, "Readers.byte_read"),
    ("byte_fill_buf", "src/decode.rs", r"fn fill_buf\(&mut self\) -> std::io::Result<&\[u8\]>", 0, "Readers.byte_fill_buf"),
    ("byte_consume", "src/decode.rs", r"fn consume\(&mut self, amt: usize\)", 0, "Readers.byte_consume"),
    ("sample_read", "src/decode.rs", r"pub fn read\(&mut self, samples: &mut \[i32\]\)", 0, "Readers.sample_read"),
    ("sample_fill_buf", "src/decode.rs", r"pub fn fill_buf\(&mut self\) -> Result<&\[i32\], Error>", 0, "Readers.sample_fill_buf"),
    ("sample_consume", "src/decode.rs", r"fn consume\(&mut self, amt: usize\)", 1, "Readers.sample_consume"),
    ("sample_next", "src/decode.rs", r"fn next\(&mut self\) -> Option<Result<i32, Error>>", 0, "Readers.sample_next"),
    ("byte_seek", "src/decode.rs", r"fn seek\(&mut self, pos: std::io::SeekFrom\)", 0, "Seek.byte_seek / desired_pos / byte_skip"),
    ("sample_seek", "src/decode.rs", r"pub fn seek\(&mut self, sample: u64\) -> Result<\(\), Error>", 0, "Seek.sample_seek / sample_skip"),
    ("chan_fill_buf", "src/decode.rs", r"pub fn fill_buf\(&mut self\) -> Result<Vec<&\[i32\]>, Error>", 0, "Readers.chan_fill_buf"),
    ("chan_consume", "src/decode.rs", r"fn consume\(&mut self, amt: usize\)", 2, "Readers.chan_consume"),
    ("chan_seek", "src/decode.rs", r"pub fn seek\(&mut self, sample: u64\) -> Result<\(\), Error>", 1, "Seek.chan_seek / chan_skip"),
    ("read_frame", "src/decode.rs", r"fn read_frame\(&mut self\) -> Result<Option<&Frame>, Error>", 0, "Readers.read_frame (abstract core)"),
    ("decoder_seek", "src/decode.rs", r"fn seek\(&mut self, frames_start: u64, sample: u64\)", 0, "Seek.dec_seek"),
    ("frame_pcm_frames", "src/audio.rs", r"pub fn pcm_frames\(&self\)", 0, "Ser.pcm_frames"),
    ("frame_bytes_per_sample", "src/audio.rs", r"pub fn bytes_per_sample\(&self\)", 0, "Ser.bytes_per_sample"),
    ("frame_bytes_len", "src/audio.rs", r"pub fn bytes_len\(&self\)", 0, "Ser.bytes_len"),
    ("frame_iter", "src/audio.rs", r"pub fn iter\(&self\)", 0, "Ser.iter / interleave"),
    ("frame_to_buf", "src/audio.rs", r"pub fn to_buf<", 0, "Ser.to_buf"),
    ("frame_channels", "src/audio.rs", r"pub fn channels\(&self\)", 0, "Ser.channels"),
    ("multizip_next", "src/audio.rs", r"fn next\(&mut self\) -> Option<Self::Item>", 0, "Ser.heads_tails / multizip"),
    ("le_i24_to_bytes", "src/byteorder.rs", r"fn i24_to_bytes\(sample: i32\) -> \[u8; 3\]", 0, "Ser.i24_to_bytes LE"),
    ("be_i24_to_bytes", "src/byteorder.rs", r"fn i24_to_bytes\(sample: i32\) -> \[u8; 3\]", 1, "Ser.i24_to_bytes BE"),
    ("le_i16_to_bytes", "src/byteorder.rs", r"fn i16_to_bytes\(sample: i16\) -> \[u8; 2\]", 0, "Ser.i16_to_bytes LE"),
    ("be_i16_to_bytes", "src/byteorder.rs", r"fn i16_to_bytes\(sample: i16\) -> \[u8; 2\]", 1, "Ser.i16_to_bytes BE"),
    ("le_i32_to_bytes", "src/byteorder.rs", r"fn i32_to_bytes\(sample: i32\) -> \[u8; 4\]", 0, "Ser.i32_to_bytes LE"),
    ("be_i32_to_bytes", "src/byteorder.rs", r"fn i32_to_bytes\(sample: i32\) -> \[u8; 4\]", 1, "Ser.i32_to_bytes BE"),
]


def strip_comments(src):
    out, i, n = [], 0, len(src)
    while i < n:
        if src.startswith("//", i):
            j = src.find("\n", i)
            i = n if j < 0 else j
        elif src.startswith("/*", i):
            j = src.find("*/", i + 2)
            i = n if j < 0 else j + 2
        elif src[i] == '"':
            j = i + 1
            while j < n and src[j] != '"':
                j += 2 if src[j] == "\\" else 1
            out.append(src[i:j + 1])
            i = j + 1
        else:
            out.append(src[i])
            i += 1
    return "".join(out)


def layout(src):
    """layout-insensitive form: one space for every run of white space, none inside brackets' edges, no trailing comma
    before a closing bracket — a reformatted source (other line width, wrapped parameter lists) reads the same"""
    src = re.sub(r"\s+", " ", src)
    src = re.sub(r",\s*([)\]}])", r"\1", src)
    src = re.sub(r"([(\[])\s+", r"\1", src)
    src = re.sub(r"\s+([)\]])", r"\1", src)
    return src


def bodies(src, rx):
    """texts of all definitions (signature .. matching closing brace) whose signature matches rx"""
    res = []
    for m in re.finditer(rx, src):
        i = m.start()
        j = m.end()
        sq = 0  # inside [..] a ';' belongs to an array type
        while j < len(src) and not (sq == 0 and src[j] in "{;"):
            sq += {"[": 1, "]": -1}.get(src[j], 0)
            j += 1
        if j >= len(src) or src[j] == ";":
            continue  # a declaration without a body (trait method)
        depth, k = 0, j
        while k < len(src):
            if src[k] == "{":
                depth += 1
            elif src[k] == "}":
                depth -= 1
                if depth == 0:
                    break
            k += 1
        res.append(src[i:k + 1])
    return res


def main():
    repo, dst = sys.argv[1], sys.argv[2]
    update = "--update" in sys.argv
    cache = {}
    cur, lost = {}, []
    for aid, rel, rx, occ, coq in ANCHORS:
        p = os.path.join(repo, rel)
        if rel not in cache:
            try:
                cache[rel] = layout(strip_comments(open(p, errors="replace").read()))
            except OSError:
                cache[rel] = ""
        bs = bodies(cache[rel], rx)
        if occ >= len(bs):
            lost.append("%s (%s: /%s/ #%d)" % (aid, rel, rx, occ))
            continue
        text = re.sub(r"\s+", "", bs[occ])
        cur[aid] = {"file": rel, "coq": coq, "sha1": hashlib.sha1(text.encode()).hexdigest()}
    if lost and update:
        print("anchor lost: " + "; ".join(lost))
        sys.exit(2)
    if update:
        with open(dst, "w") as f:
            json.dump(cur, f, indent=1, sort_keys=True)
            f.write("\n")
        print("anchors written: %d" % len(cur))
        sys.exit(0)
    try:
        old = json.load(open(dst))
    except (OSError, ValueError):
        print("anchor file missing or unreadable: " + dst)
        sys.exit(2)
    changed = [a for a in cur if old.get(a, {}).get("sha1") != cur[a]["sha1"]]
    if changed or lost:
        # these anchors are TEXT only (no constant or table is read from them): a mirrored function that was edited,
        # renamed or moved is a note in the evidence — the correspondence runs decide whether behaviour changed
        if changed:
            print("readers anchors changed: " + ", ".join("%s (%s)" % (a, cur[a]["coq"]) for a in changed))
        if lost:
            print("readers anchors not found (renamed or moved; textual, a note): " + "; ".join(lost))
        sys.exit(3)
    print("readers anchors unchanged: %d" % len(cur))
    sys.exit(0)


if __name__ == "__main__":
    main()
