(* Codec/Enc_proofs.v — the encoder model (Enc.v) only ever produces admissible frames:
   for EVERY PCM block in range, every option set and every LPC oracle, the frame tree that
   Enc.enc_frame builds is well-formed, RFC-valid and stands for exactly the block.  With the
   agreement theorems (Agree_frame) the decoder model returns the block from the frame's bytes:
   the round trip of C01 for the encoder as it is written, not only for "some admissible frame". *)
From FlacCodec Require Import Dec Wf Spec Admissible Enc Agree_layout Roundtrip_sub Lengths Agree_chan.
Open Scope N_scope.
Local Arguments N.add : simpl never.
Local Arguments N.sub : simpl never.
Local Arguments N.mul : simpl never.
Local Arguments N.div : simpl never.
Local Arguments N.modulo : simpl never.
Local Arguments N.pow : simpl never.
Local Arguments Z.pow : simpl never.
Local Arguments Z.div : simpl never.
Local Arguments Nat.div : simpl never.
Local Arguments Nat.modulo : simpl never.

(* ---------------- generic list helpers ---------------- *)
Lemma first_min_in {A} (key : A -> N) l x : first_min key l = Some x -> In x l.
Proof.
  revert x. induction l as [|a r IH]; intros x; cbn [first_min]; [discriminate|].
  destruct (first_min key r) as [b|].
  - destruct (key b <? key a); intros E; injection E as <-; [right; apply IH; reflexivity|left; reflexivity].
  - intros E. injection E as <-. left. reflexivity.
Qed.

Lemma filter_map_in {A B} (f : A -> option B) l y : In y (filter_map f l) -> exists a, In a l /\ f a = Some y.
Proof.
  induction l as [|a r IH]; cbn [filter_map]; [intros []|].
  destruct (f a) as [b|] eqn:E.
  - intros [<-|H]; [exists a; split; [left; reflexivity|exact E]|].
    destruct (IH H) as (a' & Ha & Hf). exists a'. split; [right; exact Ha|exact Hf].
  - intros H. destruct (IH H) as (a' & Ha & Hf). exists a'. split; [right; exact Ha|exact Hf].
Qed.

(* ---------------- sums of magnitudes ---------------- *)
Lemma absN_le_sum rs r : In r rs -> absN r <= abs_sum rs.
Proof.
  induction rs as [|x rs IH]; cbn [abs_sum fold_right In]; [intros []|].
  intros [->|H]; [lia|]. specialize (IH H). unfold abs_sum in IH. lia.
Qed.

Lemma abs_sum_zero rs : abs_sum rs = 0 -> rs = repeat 0%Z (length rs).
Proof.
  induction rs as [|x rs IH]; cbn [abs_sum fold_right length repeat]; [reflexivity|].
  intros H. fold (abs_sum rs) in H.
  assert (absN x = 0 /\ abs_sum rs = 0) as [Hx Hr] by lia.
  rewrite <- IH by exact Hr. f_equal. unfold absN in Hx. lia.
Qed.

Lemma fits_of_abs w z : 1 <= w -> absN z < 2 ^ (w - 1) -> fits w z = true.
Proof.
  intros Hw H. unfold fits, absN in *.
  assert (E : Z.of_N (2 ^ (w - 1)) = (2 ^ (Z.of_N w - 1))%Z).
  { rewrite N2Z.inj_pow. f_equal. lia. }
  destruct (N.leb_spec 1 w); [|lia]. cbn [andb].
  destruct (Z.leb_spec (- 2 ^ (Z.of_N w - 1)) z); [|lia].
  destruct (Z.ltb_spec z (2 ^ (Z.of_N w - 1))); [reflexivity|lia].
Qed.

(* ---------------- Partition::new ---------------- *)
Definition part_ok (rmax : N) (p : part) : Prop :=
  match p with
  | PRice k rs => k < rmax /\ forallb (fits 32) rs = true
  | PEsc w rs => 1 <= w /\ w <= 31 /\ forallb (fits w) rs = true
  | PZero _ => True
  end.

Lemma enc_part_ok rmax rs p b : enc_part rmax rs = Some (p, b) -> forallb (fits 32) rs = true ->
  part_residuals p = rs /\ part_ok rmax p.
Proof.
  unfold enc_part. intros H F.
  destruct (N.eqb_spec (N.of_nat (length rs)) 0) as [|Hn]; [discriminate|].
  destruct (N.eqb_spec (abs_sum rs) 0) as [Hz|Hs].
  - injection H as <- _. cbn [part_residuals part_ok]. split; [symmetry; apply abs_sum_zero; exact Hz|exact I].
  - set (k := if N.of_nat (length rs) <? abs_sum rs then _ else 0) in H.
    destruct (N.ltb_spec k rmax) as [Hk|Hk].
    + destruct (2 ^ 32 <=? _); [discriminate|]. injection H as <- _. cbn [part_residuals part_ok]. auto.
    + destruct (N.ltb_spec 31 (N.log2 (abs_sum rs) + 2)) as [|Hw]; [discriminate|].
      injection H as <- _. cbn [part_residuals part_ok]. split; [reflexivity|]. split; [lia|]. split; [exact Hw|].
      apply forallb_forall. intros z Hz. apply fits_of_abs; [lia|].
      pose proof (absN_le_sum _ _ Hz) as Hle.
      pose proof (N.log2_spec (abs_sum rs) ltac:(lia)) as [_ Hup].
      replace (N.log2 (abs_sum rs) + 2 - 1) with (N.succ (N.log2 (abs_sum rs))) by lia. lia.
Qed.

Lemma enc_parts_ok rmax : forall chunks ps b, enc_parts rmax chunks = Some (ps, b) ->
  Forall (fun c => forallb (fits 32) c = true) chunks ->
  map part_residuals ps = chunks /\ Forall (part_ok rmax) ps.
Proof.
  induction chunks as [|c r IH]; intros ps b H F; cbn [enc_parts] in H.
  - injection H as <- _. split; constructor.
  - destruct (enc_part rmax c) as [[p b1]|] eqn:E1; [|discriminate].
    destruct (enc_parts rmax r) as [[ps' b2]|] eqn:E2; [|discriminate].
    injection H as <- _. inversion F as [|? ? Fc Fr]; subst.
    destruct (enc_part_ok _ _ _ _ E1 Fc) as [R1 O1].
    destruct (IH _ _ eq_refl Fr) as [R2 O2].
    split; [cbn [map]; rewrite R1, R2; reflexivity|constructor; assumption].
Qed.

(* ---------------- rchunks ---------------- *)
Definition sum_nat (l : list nat) : nat := fold_right Nat.add 0%nat l.

Lemma sum_nat_repeat k c : sum_nat (repeat k c) = (k * c)%nat.
Proof. induction c as [|c IH]; cbn [repeat sum_nat fold_right]; [lia|]. fold (sum_nat (repeat k c)). rewrite IH. lia. Qed.

Lemma rchunk_lens_sum len k : (0 < k)%nat -> sum_nat (rchunk_lens len k) = len.
Proof.
  intros Hk. unfold rchunk_lens, sum_nat. rewrite fold_right_app. fold (sum_nat (repeat k (len / k))).
  rewrite sum_nat_repeat. pose proof (Nat.div_mod len k ltac:(lia)) as D.
  destruct (Nat.eqb_spec (len mod k) 0); cbn [fold_right]; lia.
Qed.

Lemma split_lens_concat {A} : forall lens (l : list A), sum_nat lens = length l ->
  concat (split_lens lens l) = l /\ map (@length A) (split_lens lens l) = lens.
Proof.
  induction lens as [|n r IH]; intros l H; cbn [split_lens concat map sum_nat fold_right] in *.
  - destruct l; [split; reflexivity|discriminate].
  - fold (sum_nat r) in H.
    destruct (IH (skipn n l)) as [C M]; [rewrite skipn_length; lia|].
    split; [rewrite C; apply firstn_skipn|]. rewrite M, firstn_length. f_equal. lia.
Qed.

Lemma Forall_firstn_skipn {A} (P : A -> Prop) n (l : list A) : Forall P l -> Forall P (firstn n l) /\ Forall P (skipn n l).
Proof. intros F. rewrite <- (firstn_skipn n l) in F. apply Forall_app in F. exact F. Qed.

Lemma Forall_split_lens {A} (P : A -> Prop) : forall lens (l : list A), Forall P l ->
  Forall (Forall P) (split_lens lens l).
Proof.
  induction lens as [|n r IH]; intros l F; cbn [split_lens]; constructor.
  - apply (Forall_firstn_skipn P n l F).
  - apply IH. apply (Forall_firstn_skipn P n l F).
Qed.

(* the cut of the residuals the encoder uses (rchunks from the end) is the RFC partition layout
   exactly when it yields 2^po chunks: then the predictor order is below the partition size *)
Lemma rchunk_struct bs order po :
  0 < bs -> order < bs -> bs mod 2 ^ po = 0 ->
  length (rchunk_lens (N.to_nat bs - N.to_nat order) (N.to_nat (bs / 2 ^ po))) = N.to_nat (2 ^ po) ->
  order < bs / 2 ^ po /\
  struct_part_lens bs order po = map Some (rchunk_lens (N.to_nat bs - N.to_nat order) (N.to_nat (bs / 2 ^ po))).
Proof.
  intros Hbs Hob Hdiv Hlen.
  assert (Hc0 : 2 ^ po <> 0) by (apply N.pow_nonzero; discriminate).
  set (size := bs / 2 ^ po) in *.
  assert (Ebs : bs = 2 ^ po * size) by (apply N.div_exact in Hdiv; auto).
  set (count := N.to_nat (2 ^ po)) in *. set (k := N.to_nat size) in *.
  set (n := N.to_nat bs) in *. set (on := N.to_nat order) in *.
  assert (En : n = (k * count)%nat) by (unfold n, k, count; rewrite Ebs at 1; rewrite N2Nat.inj_mul; lia).
  assert (Hk : (1 <= k)%nat) by (unfold k; nia).
  assert (Hcount : (1 <= count)%nat) by (unfold count; lia).
  assert (Hon : (on < n)%nat) by (unfold on, n; lia).
  (* order < size from the number of chunks *)
  assert (Hord : (on < k)%nat).
  { unfold rchunk_lens in Hlen. rewrite app_length, repeat_length in Hlen.
    pose proof (Nat.div_mod (n - on) k ltac:(lia)) as D.
    pose proof (Nat.mod_upper_bound (n - on) k ltac:(lia)) as M.
    destruct (Nat.eqb_spec ((n - on) mod k) 0) as [E0|N0]; cbn [length] in Hlen; nia. }
  split; [unfold on, k in Hord; lia|].
  (* both sides are (size - order) :: size :: ... :: size *)
  assert (Hs : struct_part_lens bs order po = map Some ((k - on)%nat :: repeat k (count - 1))).
  { unfold struct_part_lens. fold size. fold count.
    destruct count as [|c] eqn:Ec; [lia|]. cbn [seq map]. rewrite Nat.eqb_refl.
    destruct (N.ltb_spec order size) as [_|]; [|unfold on, k in Hord; lia].
    rewrite (map_seq_const _ (Some k)).
    2:{ intros i Hi. destruct (Nat.eqb_spec i 0); [lia|]. destruct (N.ltb_spec 0 size); [reflexivity|unfold k in Hk; lia]. }
    replace (N.to_nat (size - order)) with (k - on)%nat by (unfold k, on; lia).
    replace (S c - 1)%nat with c by lia. f_equal. clear. induction c; cbn; congruence. }
  rewrite Hs. f_equal.
  assert (Hord' : order < bs / 2 ^ po) by (fold size; unfold on, k in Hord; lia).
  destruct (layout_agree bs order po _ Hdiv Hord' Hs) as (_ & L2 & _). cbv zeta in L2.
  fold n on in L2. rewrite <- L2. f_equal.
  replace (2 ^ N.to_nat po)%nat with count by (unfold count; rewrite N2Nat.inj_pow; reflexivity).
  rewrite En. rewrite Nat.div_mul by lia. reflexivity.
Qed.

Lemma lens_eqb_refl b : lens_eqb (map Some b) b = true.
Proof.
  unfold lens_eqb. rewrite map_length, Nat.eqb_refl. cbn [andb].
  induction b as [|x b IH]; cbn [map combine forallb fst snd]; [reflexivity|]. rewrite Nat.eqb_refl. exact IH.
Qed.

(* ---------------- best_partitions ---------------- *)
Lemma tz_pos_divide p : exists q, Npos p = 2 ^ (tz_pos p) * q.
Proof.
  induction p as [p IH|p IH|]; cbn [tz_pos].
  - exists (Npos p~1). rewrite N.pow_0_r. lia.
  - destruct IH as [q Hq]. exists q. rewrite N.pow_add_r, N.pow_1_r.
    change (N.pos p~0) with (2 * N.pos p). rewrite Hq. lia.
  - exists 1. rewrite N.pow_0_r. reflexivity.
Qed.

Lemma tzN_mod bs po : 0 < bs -> po <= tzN bs -> bs mod 2 ^ po = 0.
Proof.
  intros Hbs Hpo. destruct bs as [|p]; [lia|]. cbn [tzN] in Hpo.
  destruct (tz_pos_divide p) as [q Hq].
  replace (tz_pos p) with (po + (tz_pos p - po)) in Hq by lia. rewrite N.pow_add_r in Hq.
  rewrite Hq. rewrite <- N.mul_assoc, N.mul_comm. apply N.mod_mul. apply N.pow_nonzero. discriminate.
Qed.

Definition cand_ok (rmax bs : N) (rs : list Z) (po : N) (ps : list part) : Prop :=
  flat_map part_residuals ps = rs /\
  map part_len ps = rchunk_lens (length rs) (N.to_nat (bs / 2 ^ po)) /\
  length ps = N.to_nat (2 ^ po) /\ Forall (part_ok rmax) ps.

Lemma flat_map_concat_map {A B} (f : A -> list B) l : flat_map f l = concat (map f l).
Proof. induction l as [|a l IH]; cbn [flat_map map concat]; congruence. Qed.

Lemma enc_candidate_ok rmax bs rs po ps b :
  enc_candidate rmax bs rs po = Some (ps, b) -> (0 < N.to_nat (bs / 2 ^ po))%nat ->
  forallb (fits 32) rs = true -> cand_ok rmax bs rs po ps.
Proof.
  unfold enc_candidate. intros H Hk F.
  set (lens := rchunk_lens (length rs) (N.to_nat (bs / 2 ^ po))) in *.
  destruct (enc_parts rmax (split_lens lens rs)) as [[ps' b']|] eqn:E; [|discriminate].
  destruct (Nat.eqb_spec (length ps') (N.to_nat (2 ^ po))) as [Hl|]; [|discriminate].
  injection H as <- _.
  destruct (split_lens_concat lens rs (rchunk_lens_sum _ _ Hk)) as [C M].
  assert (FF : Forall (fun c => forallb (fits 32) c = true) (split_lens lens rs)).
  { assert (F' : Forall (fun z => fits 32 z = true) rs) by (apply Forall_forall; apply forallb_forall; exact F).
    pose proof (Forall_split_lens _ lens rs F') as G. rewrite Forall_forall in *. intros c Hc.
    apply forallb_forall. specialize (G c Hc). rewrite Forall_forall in G. exact G. }
  destruct (enc_parts_ok _ _ _ _ E FF) as [R O].
  split; [rewrite flat_map_concat_map, R; exact C|]. split; [|split; assumption].
  unfold part_len. rewrite <- (map_map part_residuals (@length Z)), R. exact M.
Qed.

Lemma best_parts_ok rmax max_po bs rs : 0 < bs -> forallb (fits 32) rs = true ->
  let ps := best_parts rmax max_po bs rs in
  (exists po, po <= 6 /\ bs mod 2 ^ po = 0 /\ cand_ok rmax bs rs po ps) \/ ps = [PEsc 31 rs].
Proof.
  intros Hbs F. unfold best_parts.
  destruct (first_min snd _) as [[ps b]|] eqn:E; [left|right; reflexivity].
  apply first_min_in in E. apply filter_map_in in E. destruct E as (po & Hin & Hc).
  apply in_map_iff in Hin. destruct Hin as (i & <- & Hi). apply in_seq in Hi.
  assert (Hpo : N.of_nat i <= po_limit max_po bs) by lia.
  unfold po_limit in Hpo.
  assert (Hdiv : bs mod 2 ^ N.of_nat i = 0) by (apply tzN_mod; lia).
  exists (N.of_nat i). split; [lia|]. split; [exact Hdiv|].
  eapply enc_candidate_ok; eauto.
  assert (Hc0 : 2 ^ N.of_nat i <> 0) by (apply N.pow_nonzero; discriminate).
  apply N.div_exact in Hdiv; [|exact Hc0]. nia.
Qed.

(* ---------------- write_residuals ---------------- *)
Lemma parts_wf m rmax ps :
  Forall (part_ok rmax) ps ->
  (forall k rs', In (PRice k rs') ps -> k < (if m =? 0 then 15 else 31)) ->
  forallb (wf_part m) ps = true.
Proof.
  intros O R. apply forallb_forall. intros p Hp. rewrite Forall_forall in O. specialize (O p Hp).
  destruct p as [k rs'|w rs'|n]; cbn [wf_part part_ok] in *.
  - destruct O as [_ F]. specialize (R k rs' Hp). destruct (N.ltb_spec k (if m =? 0 then 15 else 31)); [exact F|lia].
  - destruct O as (H1 & H2 & F). destruct (N.leb_spec 1 w); [|lia]. destruct (N.leb_spec w 31); [exact F|lia].
  - reflexivity.
Qed.

Lemma no_min_forallb rs : existsb (Z.eqb (- 2 ^ 31)) rs = false ->
  forallb (fun z => negb (z =? - 2 ^ 31)%Z) rs = true.
Proof.
  induction rs as [|x rs IH]; cbn [existsb forallb]; [reflexivity|].
  intros H. apply Bool.orb_false_elim in H. destruct H as [H1 H2]. rewrite (IH H2), Bool.andb_true_r.
  rewrite Z.eqb_sym. rewrite H1. reflexivity.
Qed.

Lemma mk_residual_ok m rmax order rs ps :
  (0 < length rs)%nat -> forallb (fits 32) rs = true -> existsb (Z.eqb (- 2 ^ 31)) rs = false ->
  m < 2 ->
  (forall k rs', In (PRice k rs') ps -> k < (if m =? 0 then 15 else 31)) ->
  forallb part_writable ps = true ->
  let bs := order + N.of_nat (length rs) in
  ((exists po, po <= 6 /\ bs mod 2 ^ po = 0 /\ cand_ok rmax bs rs po ps) \/ ps = [PEsc 31 rs]) ->
  let r := {| r_method := m; r_parts := ps |} in
  wf_residual bs order r = true /\ spec_residual bs order r = true /\ residual_values r = rs.
Proof.
  intros Hlen F Hmin Hm HR HW bs [(po & Hpo & Hdiv & Hflat & Hlens & Hcount & HO)|Hfb] r; subst r.
  - assert (Elog : N.log2 (N.of_nat (length ps)) = po).
    { rewrite Hcount, N2Nat.id. apply N.log2_pow2. lia. }
    assert (Ers : length rs = (N.to_nat bs - N.to_nat order)%nat) by (unfold bs; lia).
    assert (Hl : length (rchunk_lens (N.to_nat bs - N.to_nat order) (N.to_nat (bs / 2 ^ po))) = N.to_nat (2 ^ po)).
    { rewrite <- Ers, <- Hlens, map_length. exact Hcount. }
    destruct (rchunk_struct bs order po ltac:(unfold bs; lia) ltac:(unfold bs; lia) Hdiv Hl) as [Hord Hs].
    split; [|split].
    + unfold wf_residual. cbn [r_method r_parts]. rewrite Elog.
      destruct (N.ltb_spec m 2); [|lia]. destruct (N.ltb_spec po 16); [|lia].
      rewrite Hdiv, N.eqb_refl. cbn [andb]. rewrite Hs, Hlens, Ers, lens_eqb_refl. cbn [andb].
      eapply parts_wf; eauto.
    + unfold spec_residual. cbn [r_parts]. rewrite Elog, Hdiv, N.eqb_refl.
      destruct (N.ltb_spec order (bs / 2 ^ po)); [|lia]. cbn [andb].
      unfold residual_values. cbn [r_parts]. rewrite Hflat. apply no_min_forallb. exact Hmin.
    + unfold residual_values. cbn [r_parts]. exact Hflat.
  - subst ps. cbn [forallb part_writable] in HW. rewrite Bool.andb_true_r in HW.
    assert (E1 : N.log2 (N.of_nat (length [PEsc 31 rs])) = 0) by reflexivity.
    assert (Ebs : bs / 2 ^ 0 = bs) by (rewrite N.pow_0_r; apply N.div_1_r).
    assert (Hord : order < bs) by (unfold bs; lia).
    split; [|split].
    + unfold wf_residual. cbn [r_method r_parts]. rewrite E1.
      destruct (N.ltb_spec m 2); [|lia]. cbn [N.ltb N.compare andb].
      rewrite N.pow_0_r, N.mod_1_r. cbn [N.eqb andb].
      unfold struct_part_lens. rewrite N.pow_0_r, N.div_1_r. change (N.to_nat 1) with 1%nat. cbn [seq map Nat.eqb].
      destruct (N.ltb_spec order bs); [|lia].
      cbn [map part_len part_residuals]. unfold lens_eqb. cbn [length Nat.eqb combine forallb fst snd andb].
      replace (N.to_nat (bs - order)) with (length rs) by (unfold bs; lia). rewrite Nat.eqb_refl. cbn [andb].
      cbn [wf_part]. rewrite HW. reflexivity.
    + unfold spec_residual. cbn [r_parts]. rewrite E1, Ebs, N.pow_0_r, N.mod_1_r. cbn [N.eqb andb].
      destruct (N.ltb_spec order bs); [|lia]. cbn [andb].
      unfold residual_values. cbn [r_parts flat_map part_residuals]. rewrite app_nil_r. apply no_min_forallb. exact Hmin.
    + unfold residual_values. cbn [r_parts flat_map part_residuals]. apply app_nil_r.
Qed.

Lemma best_parts_rice rmax max_po bs rs k rs' : 0 < bs -> forallb (fits 32) rs = true ->
  In (PRice k rs') (best_parts rmax max_po bs rs) -> k < rmax.
Proof.
  intros Hbs F Hin. destruct (best_parts_ok rmax max_po bs rs Hbs F) as [(po & _ & _ & _ & _ & _ & HO)|E].
  - rewrite Forall_forall in HO. specialize (HO _ Hin). cbn [part_ok] in HO. tauto.
  - rewrite E in Hin. destruct Hin as [Hin|[]]. discriminate.
Qed.

Theorem enc_residual_ok o order rs r : enc_residual o order rs = Some r ->
  (0 < length rs)%nat -> forallb (fits 32) rs = true ->
  let bs := order + N.of_nat (length rs) in
  wf_residual bs order r = true /\ spec_residual bs order r = true /\ residual_values r = rs.
Proof.
  unfold enc_residual. intros H Hlen F. set (bs := order + N.of_nat (length rs)) in *.
  destruct (existsb (Z.eqb (- 2 ^ 31)) rs) eqn:Emin; [discriminate|].
  assert (Hbs : 0 < bs) by (unfold bs; lia).
  destruct (eo_rice2 o).
  - set (ps := best_parts 31 (eo_max_po o) bs rs) in *.
    destruct (forallb (fun p => match p with PRice k _ => k <? 15 | _ => true end) ps) eqn:Ered;
      cbn [r_parts] in H; destruct (forallb part_writable ps) eqn:EW; try discriminate; injection H as <-.
    + apply mk_residual_ok with (rmax := 31); auto; [lia| |apply best_parts_ok; assumption].
      intros k rs' Hin. cbn [N.eqb]. rewrite forallb_forall in Ered. specialize (Ered _ Hin). cbn in Ered.
      apply N.ltb_lt in Ered. exact Ered.
    + apply mk_residual_ok with (rmax := 31); auto; [lia| |apply best_parts_ok; assumption].
      intros k rs' Hin. cbn [N.eqb]. eapply best_parts_rice; eauto.
  - set (ps := best_parts 15 (eo_max_po o) bs rs) in *. cbn [r_parts] in H.
    destruct (forallb part_writable ps) eqn:EW; [|discriminate]. injection H as <-.
    apply mk_residual_ok with (rmax := 15); auto; [lia| |apply best_parts_ok; assumption].
    intros k rs' Hin. cbn [N.eqb]. eapply best_parts_rice; eauto.
Qed.

(* ---------------- FIXED predictors: iterated differences are the RFC residuals ---------------- *)
Lemma dot_nil_r d : dot d [] = 0%Z.
Proof. destruct d; reflexivity. Qed.

Ltac resid_step := cbn [resid diff dot]; rewrite ?dot_nil_r, Z.pow_0_r, Z.div_1_r.

Lemma resid_fixed0 : forall xs d, resid [] 0 d xs = xs.
Proof.
  induction xs as [|x xs IH]; intros d; cbn [resid]; [reflexivity|].
  rewrite dot_nil_r, Z.pow_0_r, Z.div_1_r, IH. f_equal. lia.
Qed.
Lemma resid_fixed1 : forall xs a d, resid [1%Z] 0 (a :: d) xs = diff (a :: xs).
Proof.
  induction xs as [|x xs IH]; intros a d; [reflexivity|]. resid_step. rewrite IH. f_equal. lia.
Qed.
Lemma resid_fixed2 : forall xs a b d, resid [2; -1]%Z 0 (b :: a :: d) xs = diff (diff (a :: b :: xs)).
Proof.
  induction xs as [|x xs IH]; intros a b d; [reflexivity|]. resid_step. rewrite IH. cbn [diff]. f_equal. lia.
Qed.
Lemma resid_fixed3 : forall xs a b c d, resid [3; -3; 1]%Z 0 (c :: b :: a :: d) xs = diff (diff (diff (a :: b :: c :: xs))).
Proof.
  induction xs as [|x xs IH]; intros a b c d; [reflexivity|]. resid_step. rewrite IH. cbn [diff]. f_equal. lia.
Qed.
Lemma resid_fixed4 : forall xs a b c e d,
  resid [4; -6; 4; -1]%Z 0 (e :: c :: b :: a :: d) xs = diff (diff (diff (diff (a :: b :: c :: e :: xs)))).
Proof.
  induction xs as [|x xs IH]; intros a b c e d; [reflexivity|]. resid_step. rewrite IH. cbn [diff]. f_equal. lia.
Qed.

Fixpoint iterd (k : nat) (l : list Z) : list Z := match k with O => l | S k' => diff (iterd k' l) end.

Lemma diff_cons_length : forall l a, length (diff (a :: l)) = length l.
Proof. induction l as [|b l IH]; intros a; [reflexivity|]. cbn [diff length]. f_equal. apply IH. Qed.
Lemma diff_length l : length (diff l) = (length l - 1)%nat.
Proof. destruct l as [|a l]; [reflexivity|]. rewrite diff_cons_length. cbn [length]. lia. Qed.
Lemma iter_diff_length k : forall l, length (iterd k l) = (length l - k)%nat.
Proof. induction k as [|k IH]; intros l; cbn [iterd]; [lia|]. rewrite diff_length, IH. lia. Qed.

Lemma fixed_resid k ys : (k <= 4)%nat -> (k <= length ys)%nat ->
  resid (fixed_coeffs (N.of_nat k)) 0 (rev (firstn k ys)) (skipn k ys) = iterd k ys.
Proof.
  intros Hk Hl.
  destruct k as [|[|[|[|[|k]]]]]; [| | | | |lia].
  - apply resid_fixed0.
  - destruct ys as [|a ys]; [cbn in Hl; lia|]. apply resid_fixed1.
  - destruct ys as [|a [|b ys]]; try (cbn in Hl; lia). apply resid_fixed2.
  - destruct ys as [|a [|b [|c ys]]]; try (cbn in Hl; lia). apply resid_fixed3.
  - destruct ys as [|a [|b [|c [|e ys]]]]; try (cbn in Hl; lia). apply resid_fixed4.
Qed.

Lemma fixed_orders_nth : forall fuel prev i rs, nth_error (fixed_orders fuel prev) i = Some rs ->
  rs = iterd (S i) prev /\ forallb (fits 32) rs = true /\ rs <> [] /\ (i < fuel)%nat.
Proof.
  induction fuel as [|f IH]; intros prev i rs H; cbn [fixed_orders] in H; [destruct i; discriminate|].
  destruct (forallb (fits 32) (diff prev)) eqn:F; cbn [andb] in H; [|destruct i; discriminate].
  destruct (diff prev) as [|d0 dr] eqn:Ed; cbn [is_nil negb] in H; [destruct i; discriminate|].
  destruct i as [|i]; cbn [nth_error] in H.
  - injection H as <-. cbn [iterd]. rewrite Ed. repeat split; [exact F|discriminate|lia].
  - destruct (IH _ _ _ H) as (E & F' & N' & L). repeat split; [|exact F'|exact N'|lia].
    rewrite E. rewrite <- Ed. clear. induction (S i) as [|j IHj]; cbn [iterd]; [reflexivity|]. rewrite IHj. reflexivity.
Qed.

Lemma combine_seq_nth {A} : forall (l : list A) s k x, In (k, x) (combine (seq s (length l)) l) ->
  (s <= k)%nat /\ nth_error l (k - s) = Some x.
Proof.
  induction l as [|a l IH]; intros s k x; cbn [length seq combine]; [intros []|].
  intros [E|H].
  - injection E as <- <-. rewrite Nat.sub_diag. split; [lia|reflexivity].
  - destruct (IH _ _ _ H) as [Hs Hn]. split; [lia|]. replace (k - s)%nat with (S (k - S s)) by lia. exact Hn.
Qed.

Lemma fits_mono n m z : fits n z = true -> n <= m -> fits m z = true.
Proof.
  intros H Hnm. apply fits_Z in H. destruct H as [[H1 H2] Hn].
  assert (P : (2 ^ (Z.of_N n - 1) <= 2 ^ (Z.of_N m - 1))%Z) by (apply Z.pow_le_mono_r; lia).
  unfold fits. destruct (N.leb_spec 1 m); [|lia]. cbn [andb].
  destruct (Z.leb_spec (- 2 ^ (Z.of_N m - 1)) z); [|lia]. destruct (Z.ltb_spec z (2 ^ (Z.of_N m - 1))); [reflexivity|lia].
Qed.
Lemma forallb_fits_mono n m l : forallb (fits n) l = true -> n <= m -> forallb (fits m) l = true.
Proof. intros H Hnm. apply forallb_forall. intros z Hz. rewrite forallb_forall in H. eapply fits_mono; eauto. Qed.

Lemma forallb_firstn {A} (f : A -> bool) n l : forallb f l = true -> forallb f (firstn n l) = true.
Proof.
  intros H. apply forallb_forall. intros x Hx. rewrite forallb_forall in H. apply H.
  rewrite <- (firstn_skipn n l). apply in_or_app. left. exact Hx.
Qed.

(* encode_fixed_subframe: whatever order wins, the FIXED body is well-formed, RFC-valid and stands
   for the (wasted-bits-shifted) samples *)
Theorem enc_fixed_ok o eb ys b : enc_fixed o ys = Some b -> ys <> [] ->
  forallb (fits eb) ys = true -> eb <= 32 ->
  let bs := N.of_nat (length ys) in
  wf_body bs eb b = true /\ sem_body bs b = ys /\
  exists k warm r, b = BFixed k warm r /\ spec_residual bs k r = true.
Proof.
  unfold enc_fixed. intros H Hne F Heb. set (bs := N.of_nat (length ys)).
  set (ords := ys :: fixed_orders 4 ys) in *.
  destruct (first_min _ _) as [[k rs]|] eqn:Em; [|discriminate].
  apply first_min_in in Em. apply combine_seq_nth in Em. destruct Em as [_ Hn]. rewrite Nat.sub_0_r in Hn.
  assert (Hfacts : rs = iterd k ys /\ forallb (fits 32) rs = true /\ rs <> [] /\ (k <= 4)%nat).
  { unfold ords in Hn. destruct k as [|i]; cbn [nth_error] in Hn.
    - injection Hn as <-. cbn [iterd]. repeat split; [eapply forallb_fits_mono; eauto|exact Hne|lia].
    - destruct (fixed_orders_nth _ _ _ _ Hn) as (E & F' & N' & L). repeat split; auto; lia. }
  destruct Hfacts as (Ers & F32 & Nrs & Hk).
  assert (Hlen : length rs = (length ys - k)%nat) by (rewrite Ers; apply iter_diff_length).
  assert (Hpos : (0 < length rs)%nat) by (destruct rs; [congruence|cbn; lia]).
  destruct (enc_residual o (N.of_nat k) rs) as [r|] eqn:Er; [|discriminate]. injection H as <-.
  destruct (enc_residual_ok _ _ _ _ Er Hpos F32) as (W & S & V).
  replace (N.of_nat k + N.of_nat (length rs)) with bs in W, S by (unfold bs; lia).
  split; [|split].
  - cbn [wf_body]. rewrite Nat2N.id, firstn_length_le by lia. rewrite Nat.eqb_refl.
    destruct (N.leb_spec (N.of_nat k) 4); [|lia]. rewrite (forallb_firstn _ k _ F), W. reflexivity.
  - cbn [sem_body]. rewrite V, Ers, <- (fixed_resid k ys) by lia.
    rewrite prediction_lossless, rev_involutive. apply firstn_skipn.
  - eauto.
Qed.

Lemma resid_length c s : forall todo d, length (resid c s d todo) = length todo.
Proof. induction todo as [|v r IH]; intros d; cbn [resid length]; [reflexivity|]. rewrite IH. reflexivity. Qed.

(* encode_lpc_subframe after the float stage: for ANY parameters the oracle hands over *)
Theorem enc_lpc_ok o eb ys p b : enc_lpc o ys p = Some b -> forallb (fits eb) ys = true ->
  let bs := N.of_nat (length ys) in
  wf_body bs eb b = true /\ sem_body bs b = ys /\
  exists k warm prec shift coefs r, b = BLpc k warm prec shift coefs r /\ spec_residual bs k r = true.
Proof.
  unfold enc_lpc. destruct p as [[[order prec] shift] coefs]. intros H F. set (bs := N.of_nat (length ys)).
  match type of H with (if negb ?g then _ else _) = _ => destruct g eqn:G end; cbn [negb] in H; [|discriminate].
  repeat (apply andb_prop in G; destruct G as [G ?]).
  repeat match goal with
         | X : (_ <=? _) = true |- _ => apply N.leb_le in X
         | X : (_ <? _) = true |- _ => apply N.ltb_lt in X
         | X : (_ =? _)%nat = true |- _ => apply Nat.eqb_eq in X
         end.
  set (warm := firstn (N.to_nat order) ys) in *.
  set (rs := resid coefs (Z.of_N shift) (rev warm) (skipn (N.to_nat order) ys)) in *.
  destruct (forallb (fits 32) rs) eqn:F32; cbn [negb] in H; [|discriminate].
  destruct (enc_residual o order rs) as [r|] eqn:Er; [|discriminate]. injection H as <-.
  assert (Hlen : length rs = (length ys - N.to_nat order)%nat) by (unfold rs; rewrite resid_length, skipn_length; reflexivity).
  destruct (enc_residual_ok _ _ _ _ Er ltac:(lia) F32) as (W & S & V).
  replace (order + N.of_nat (length rs)) with bs in W, S by (unfold bs; lia).
  assert (Hwl : length warm = N.to_nat order) by (unfold warm; apply firstn_length_le; lia).
  split; [|split].
  - cbn [wf_body]. rewrite Hwl, Nat.eqb_refl.
    repeat match goal with
           | X : ?a <= ?b |- context [?a <=? ?b] => destruct (N.leb_spec a b); [|lia]
           end.
    match goal with X : length coefs = _ |- _ => rewrite X, Nat.eqb_refl end.
    unfold warm. rewrite (forallb_firstn _ _ _ F), W. cbn [andb].
    match goal with X : forallb (fits prec) coefs = true |- _ => rewrite X end. reflexivity.
  - cbn [sem_body]. rewrite V. unfold rs. rewrite prediction_lossless, rev_involutive. apply firstn_skipn.
  - eauto 10.
Qed.

(* ---------------- wasted bits ---------------- *)
Definition cwf (acc : option N) (x : Z) : option N :=
  match tz x, acc with
  | None, a => a
  | Some t, None => Some t
  | Some t, Some a => Some (N.min t a)
  end.
Lemma common_wasted_fold xs : common_wasted xs = fold_left cwf xs None.
Proof. reflexivity. Qed.

Lemma tz_none x : tz x = None <-> x = 0%Z.
Proof. destruct x; cbn [tz]; split; intros H; congruence. Qed.

Lemma cw_none : forall xs acc, fold_left cwf xs acc = None -> acc = None /\ forall x, In x xs -> x = 0%Z.
Proof.
  induction xs as [|x xs IH]; intros acc H; cbn [fold_left] in H; [split; [exact H|intros ? []]|].
  destruct (IH _ H) as [Ha Hx]. unfold cwf in Ha.
  destruct (tz x) as [t|] eqn:Et.
  - destruct acc; discriminate.
  - split; [exact Ha|]. intros y [<-|Hy]; [apply tz_none; exact Et|apply Hx; exact Hy].
Qed.

Lemma cw_some : forall xs acc w, fold_left cwf xs acc = Some w ->
  (forall a, acc = Some a -> w <= a) /\ (forall x t, In x xs -> tz x = Some t -> w <= t) /\
  (acc = None -> exists x, In x xs /\ x <> 0%Z).
Proof.
  induction xs as [|x xs IH]; intros acc w H; cbn [fold_left] in H.
  - subst acc. split; [intros a E; injection E as <-; lia|]. split; [intros ? ? []|discriminate].
  - destruct (IH _ _ H) as (Ha & Hx & He). unfold cwf in Ha, He.
    destruct (tz x) as [t|] eqn:Et.
    + destruct acc as [a|].
      * specialize (Ha _ eq_refl). split; [intros a' E; injection E as <-; lia|].
        split; [|discriminate]. intros y t' [<-|Hy] Ey; [rewrite Et in Ey; injection Ey as <-; lia|eapply Hx; eauto].
      * specialize (Ha _ eq_refl). split; [discriminate|]. split.
        -- intros y t' [<-|Hy] Ey; [rewrite Et in Ey; injection Ey as <-; lia|eapply Hx; eauto].
        -- intros _. exists x. split; [left; reflexivity|]. intros E. apply tz_none in E. congruence.
    + split; [exact Ha|]. split.
      * intros y t' [<-|Hy] Ey; [congruence|eapply Hx; eauto].
      * intros E. destruct (He E) as (y & Hy & Ny). exists y. split; [right; exact Hy|exact Ny].
Qed.

Lemma tz_divides x t w : tz x = Some t -> w <= t -> exists q, x = (q * 2 ^ Z.of_N w)%Z.
Proof.
  intros Ht Hw.
  assert (P : forall p, tz_pos p = t -> exists q, Z.pos p = (q * 2 ^ Z.of_N w)%Z).
  { intros p Ep. destruct (tz_pos_divide p) as [q Hq]. rewrite Ep in Hq.
    replace t with (w + (t - w)) in Hq by lia. rewrite N.pow_add_r in Hq.
    exists (Z.of_N (2 ^ (t - w) * q)). change (Z.pos p) with (Z.of_N (N.pos p)). rewrite Hq.
    rewrite !N2Z.inj_mul, N2Z.inj_pow. change (Z.of_N 2) with 2%Z. lia. }
  destruct x as [|p|p]; cbn [tz] in Ht; [discriminate| |]; injection Ht as Ht.
  - apply P. exact Ht.
  - destruct (P p Ht) as [q Hq]. exists (- q)%Z. change (Z.neg p) with (- Z.pos p)%Z. rewrite Hq. lia.
Qed.

Lemma wasted_facts bps xs w : common_wasted xs = Some w -> forallb (fits bps) xs = true ->
  w < bps /\
  (forall x, In x xs -> exists q, x = (q * 2 ^ Z.of_N w)%Z).
Proof.
  rewrite common_wasted_fold. intros H F. destruct (cw_some _ _ _ H) as (_ & Hx & He).
  assert (D : forall x, In x xs -> exists q, x = (q * 2 ^ Z.of_N w)%Z).
  { intros x Hin. destruct (tz x) as [t|] eqn:Et.
    - eapply tz_divides; eauto.
    - apply tz_none in Et. exists 0%Z. lia. }
  split; [|exact D].
  destruct (He eq_refl) as (x & Hin & Nx). destruct (D x Hin) as [q Hq].
  rewrite forallb_forall in F. specialize (F x Hin). apply fits_Z in F. destruct F as [[F1 F2] Hb].
  (* |x| >= 2^w and |x| <= 2^(bps-1) *)
  destruct (N.lt_ge_cases w bps) as [|Hge]; [assumption|exfalso].
  assert (P : (2 ^ (Z.of_N bps - 1) < 2 ^ Z.of_N w)%Z) by (apply Z.pow_lt_mono_r; lia).
  assert (Hp : (0 < 2 ^ Z.of_N w)%Z) by (apply Z.pow_pos_nonneg; lia).
  assert (q <> 0)%Z by (intros ->; lia). nia.
Qed.

Lemma div_mul_pow q w : ((q * 2 ^ Z.of_N w) / 2 ^ Z.of_N w = q)%Z.
Proof. apply Z.div_mul. apply Z.pow_nonzero; lia. Qed.

Lemma shifted_facts bps xs w : common_wasted xs = Some w -> forallb (fits bps) xs = true ->
  let ys := map (fun x => x / 2 ^ Z.of_N w)%Z xs in
  map (fun y => y * 2 ^ Z.of_N w)%Z ys = xs /\ forallb (fits (bps - w)) ys = true.
Proof.
  intros H F ys. destruct (wasted_facts _ _ _ H F) as [Hw D]. split.
  - unfold ys. rewrite map_map. rewrite <- (map_id xs) at 2. apply map_ext_in. intros x Hin.
    destruct (D x Hin) as [q ->]. rewrite div_mul_pow. reflexivity.
  - unfold ys. apply forallb_forall. intros y Hy. apply in_map_iff in Hy. destruct Hy as (x & <- & Hin).
    destruct (D x Hin) as [q ->]. rewrite div_mul_pow.
    rewrite forallb_forall in F. specialize (F _ Hin). apply fits_Z in F. destruct F as [[F1 F2] Hb].
    assert (E : (2 ^ (Z.of_N bps - 1) = 2 ^ (Z.of_N (bps - w) - 1) * 2 ^ Z.of_N w)%Z).
    { rewrite <- Z.pow_add_r by lia. f_equal. lia. }
    assert (Hp : (0 < 2 ^ Z.of_N w)%Z) by (apply Z.pow_pos_nonneg; lia).
    unfold fits. destruct (N.leb_spec 1 (bps - w)); [|lia]. cbn [andb].
    destruct (Z.leb_spec (- 2 ^ (Z.of_N (bps - w) - 1)) q); [|nia].
    destruct (Z.ltb_spec q (2 ^ (Z.of_N (bps - w) - 1))); [reflexivity|nia].
Qed.

(* ---------------- encode_subframe ---------------- *)
Definition sub_ok (bs bps : N) (xs : list Z) (sf : subframe) : Prop :=
  wf_subframe bs bps sf = true /\ spec_subframe bs bps sf = true /\ sem_subframe bs sf = xs.

Lemma enc_subframe_choice bps xs fixed lpc w : common_wasted xs = Some w ->
  let r := enc_subframe bps xs fixed lpc in
  r = verbatim_sf w (map (fun x => x / 2 ^ Z.of_N w)%Z xs) \/ fixed = Some r \/ lpc = Some (Some r).
Proof.
  intros Ew. unfold enc_subframe. rewrite Ew. cbv zeta.
  match goal with |- (match ?bb with _ => _ end) = _ \/ _ => destruct bb as [b|] eqn:Eb end; [|left; reflexivity].
  destruct (_ <? _); [|left; reflexivity]. right.
  destruct lpc as [[c|]|]; destruct fixed as [f|]; try discriminate.
  - injection Eb as <-. destruct (_ <? _); [right|left]; reflexivity.
  - injection Eb as <-. right. reflexivity.
  - injection Eb as <-. left. reflexivity.
  - injection Eb as <-. left. reflexivity.
Qed.

Lemma wasted_leb w bps : w < bps -> (w <=? bps - 1) = true.
Proof. intros H. apply N.leb_le. lia. Qed.

Theorem enc_sub_ok o L bps xs : xs <> [] -> forallb (fits bps) xs = true -> 1 <= bps -> bps <= 32 ->
  sub_ok (N.of_nat (length xs)) bps xs (enc_sub o L bps xs).
Proof.
  intros Hne F Hb1 Hb32. unfold enc_sub. set (bs := N.of_nat (length xs)).
  destruct (common_wasted xs) as [w|] eqn:Ew.
  - destruct (wasted_facts _ _ _ Ew F) as [Hw _].
    destruct (shifted_facts _ _ _ Ew F) as [Hback Hfit]. cbv zeta in Hback, Hfit.
    set (ys := map (fun x => (x / 2 ^ Z.of_N w)%Z) xs) in *.
    assert (Hlen : length ys = length xs) by (unfold ys; apply map_length).
    assert (Hyne : ys <> []) by (destruct xs; [congruence|discriminate]).
    set (mk := option_map (fun b => {| sf_wasted := w; sf_body := b |})).
    set (fx := mk (enc_fixed o ys)).
    set (lp := match L with None => None | Some f => Some (match f (bps - w) ys with Some p => mk (enc_lpc o ys p) | None => None end) end).
    (* every candidate built from a body that is ok at depth bps - w is an ok subframe *)
    assert (Hcand : forall b, wf_body bs (bps - w) b = true -> sem_body bs b = ys ->
              match b with BFixed k _ r => spec_residual bs k r = true | BLpc k _ _ _ _ r => spec_residual bs k r = true | _ => True end ->
              sub_ok bs bps xs {| sf_wasted := w; sf_body := b |}).
    { intros b Wb Sb Rb. unfold sub_ok, wf_subframe, spec_subframe, sem_subframe. cbn [sf_wasted sf_body].
      rewrite Sb, Wb, Hfit, Hback, (wasted_leb _ _ Hw). destruct (N.leb_spec 1 bps); [|lia].
      split; [reflexivity|]. split; [|reflexivity]. destruct b; auto. }
    destruct (enc_subframe_choice bps xs fx lp w Ew) as [E|[E|E]]; cbv zeta in E.
    + fold ys in E. rewrite E. apply Hcand; [| reflexivity | exact I].
      cbn [wf_body]. rewrite Hlen. unfold bs. rewrite Nat2N.id, Nat.eqb_refl. exact Hfit.
    + subst fx mk. destruct (enc_fixed o ys) as [b|] eqn:Ef; [|discriminate]. cbn [option_map] in E |- *.
      injection E as E. rewrite <- E.
      destruct (enc_fixed_ok _ (bps - w) _ _ Ef Hyne Hfit ltac:(lia)) as (Wb & Sb & k & warm & r & -> & Sr).
      rewrite Hlen in Wb, Sb, Sr. apply Hcand; assumption.
    + subst lp. destruct L as [f|]; [|discriminate]. injection E as E.
      destruct (f (bps - w) ys) as [p|]; [|discriminate]. subst mk.
      destruct (enc_lpc o ys p) as [b|] eqn:El; [|discriminate]. cbn [option_map] in E |- *. injection E as E. rewrite <- E.
      destruct (enc_lpc_ok _ (bps - w) _ _ _ El Hfit) as (Wb & Sb & k & warm & prec & shift & coefs & r & -> & Sr).
      rewrite Hlen in Wb, Sb, Sr. apply Hcand; assumption.
  - (* all samples are zero: CONSTANT 0 *)
    rewrite common_wasted_fold in Ew. destruct (cw_none _ _ Ew) as [_ Hz].
    unfold enc_subframe. rewrite common_wasted_fold, Ew.
    assert (Hxs : xs = repeat 0%Z (length xs)).
    { clear - Hz. induction xs as [|x xs IH]; [reflexivity|]. cbn [length repeat]. f_equal; [apply Hz; left; reflexivity|].
      apply IH. intros y Hy. apply Hz. right. exact Hy. }
    assert (Hhd : hd 0%Z xs = 0%Z) by (destruct xs; [reflexivity|apply Hz; left; reflexivity]).
    unfold sub_ok, wf_subframe, spec_subframe, sem_subframe. cbn [sf_wasted sf_body wf_body sem_body]. rewrite Hhd.
    rewrite N.sub_0_r. destruct (N.leb_spec 1 bps); [|lia]. cbn [andb].
    assert (F0 : fits bps 0 = true).
    { unfold fits. destruct (N.leb_spec 1 bps); [|lia]. cbn [andb].
      assert (0 < 2 ^ (Z.of_N bps - 1))%Z by (apply Z.pow_pos_nonneg; lia).
      destruct (Z.leb_spec (- 2 ^ (Z.of_N bps - 1)) 0); [|lia]. destruct (Z.ltb_spec 0 (2 ^ (Z.of_N bps - 1))); [reflexivity|lia]. }
    rewrite F0. destruct (N.leb_spec 0 (bps - 1)); [|lia]. split; [reflexivity|]. unfold bs. rewrite Nat2N.id. split.
    + rewrite Bool.andb_true_r. apply forallb_forall. intros z Hz'. apply repeat_spec in Hz'. subst z. exact F0.
    + rewrite Hxs at 2. clear. induction (length xs) as [|n IH]; cbn [repeat map]; [reflexivity|]. rewrite IH. f_equal.
Qed.

(* ---------------- channel decorrelation ---------------- *)
Lemma pow_split bps : 1 <= bps -> (2 ^ (Z.of_N (bps + 1) - 1) = 2 * 2 ^ (Z.of_N bps - 1))%Z.
Proof. intros H. replace (Z.of_N (bps + 1) - 1)%Z with (Z.succ (Z.of_N bps - 1)) by lia. rewrite Z.pow_succ_r by lia. reflexivity. Qed.

Lemma fits_intro n z : 1 <= n -> (- 2 ^ (Z.of_N n - 1) <= z < 2 ^ (Z.of_N n - 1))%Z -> fits n z = true.
Proof.
  intros Hn [H1 H2]. unfold fits. destruct (N.leb_spec 1 n); [|lia]. cbn [andb].
  destruct (Z.leb_spec (- 2 ^ (Z.of_N n - 1)) z); [|lia]. destruct (Z.ltb_spec z (2 ^ (Z.of_N n - 1))); [reflexivity|lia].
Qed.

Lemma side_fits bps l r : fits bps l = true -> fits bps r = true -> fits (bps + 1) (l - r) = true.
Proof.
  intros Hl Hr. apply fits_Z in Hl. destruct Hl as [Hl Hb]. apply fits_Z in Hr. destruct Hr as [Hr _].
  apply fits_intro; [lia|]. rewrite pow_split by exact Hb. lia.
Qed.
Lemma mid_fits bps l r : fits bps l = true -> fits bps r = true -> fits bps ((l + r) / 2) = true.
Proof.
  intros Hl Hr. apply fits_Z in Hl. destruct Hl as [Hl Hb]. apply fits_Z in Hr. destruct Hr as [Hr _].
  apply fits_intro; [exact Hb|].
  pose proof (Z.div_mod (l + r) 2 ltac:(lia)). pose proof (Z.mod_pos_bound (l + r) 2 ltac:(lia)). lia.
Qed.

Lemma forallb_combine_map (f : Z * Z -> Z) n1 n2 m : forall a b,
  forallb (fits n1) a = true -> forallb (fits n2) b = true ->
  (forall x y, fits n1 x = true -> fits n2 y = true -> fits m (f (x, y)) = true) ->
  forallb (fits m) (map f (combine a b)) = true.
Proof.
  induction a as [|x a IH]; intros [|y b] Ha Hb H; cbn [combine map forallb] in *; try reflexivity.
  apply andb_prop in Ha. apply andb_prop in Hb. rewrite H by tauto. apply IH; tauto.
Qed.

Lemma side_of_fits bps l r : forallb (fits bps) l = true -> forallb (fits bps) r = true ->
  forallb (fits (bps + 1)) (side_of l r) = true.
Proof. intros Hl Hr. unfold side_of. eapply forallb_combine_map; eauto. intros x y. cbn [fst snd]. apply side_fits. Qed.
Lemma mid_of_fits bps l r : forallb (fits bps) l = true -> forallb (fits bps) r = true ->
  forallb (fits bps) (mid_of l r) = true.
Proof. intros Hl Hr. unfold mid_of. eapply forallb_combine_map; eauto. intros x y. cbn [fst snd]. apply mid_fits. Qed.

Lemma side_of_length l r : length l = length r -> length (side_of l r) = length l.
Proof. intros H. unfold side_of. rewrite map_length, combine_length. lia. Qed.
Lemma mid_of_length l r : length l = length r -> length (mid_of l r) = length l.
Proof. intros H. unfold mid_of. rewrite map_length, combine_length. lia. Qed.

(* the decoder's reconstruction undoes each decorrelation (exact integers) *)
Lemma undo_left_side : forall l r, length l = length r ->
  map (fun p => fst p - snd p)%Z (combine l (side_of l r)) = r.
Proof.
  unfold side_of. induction l as [|x l IH]; intros [|y r] H; cbn in *; try discriminate; [reflexivity|].
  f_equal; [lia|]. apply IH. lia.
Qed.
Lemma undo_side_right : forall l r, length l = length r ->
  map (fun p => fst p + snd p)%Z (combine (side_of l r) r) = l.
Proof.
  unfold side_of. induction l as [|x l IH]; intros [|y r] H; cbn in *; try discriminate; [reflexivity|].
  f_equal; [lia|]. apply IH. lia.
Qed.
Lemma mid_side_arith x y : let m := ((x + y) / 2)%Z in let s := (x - y)%Z in
  let sum := (m * 2 + Z.abs s mod 2)%Z in ((sum + s) / 2 = x /\ (sum - s) / 2 = y)%Z.
Proof.
  cbv zeta. rewrite abs_parity.
  pose proof (Z.div_mod (x + y) 2 ltac:(lia)) as D. pose proof (Z.mod_pos_bound (x + y) 2 ltac:(lia)) as M.
  assert (P : ((x - y) mod 2 = (x + y) mod 2)%Z).
  { replace (x - y)%Z with (x + y + (- y) * 2)%Z by lia. apply Z.mod_add. lia. }
  rewrite P.
  replace ((x + y) / 2 * 2 + (x + y) mod 2)%Z with (x + y)%Z by lia.
  split; [replace (x + y + (x - y))%Z with (x * 2)%Z by lia|replace (x + y - (x - y))%Z with (y * 2)%Z by lia]; apply Z.div_mul; lia.
Qed.
Lemma undo_mid_side : forall l r, length l = length r ->
  map (fun p => let sum := (fst p * 2 + Z.abs (snd p) mod 2)%Z in ((sum + snd p) / 2)%Z) (combine (mid_of l r) (side_of l r)) = l /\
  map (fun p => let sum := (fst p * 2 + Z.abs (snd p) mod 2)%Z in ((sum - snd p) / 2)%Z) (combine (mid_of l r) (side_of l r)) = r.
Proof.
  unfold mid_of, side_of. induction l as [|x l IH]; intros [|y r] H; cbn [combine map fst snd length] in *; try discriminate; [split; reflexivity|].
  destruct (IH r ltac:(lia)) as [I1 I2]. destruct (mid_side_arith x y) as [A1 A2]. cbv zeta in *.
  split; f_equal; assumption.
Qed.

(* ---------------- frame header codes ---------------- *)
Lemma code_lookup_in v : forall table c, code_lookup v table = Some c -> In (c, v) table.
Proof.
  induction table as [|[c0 x] r IH]; intros c H; cbn [code_lookup] in H; [discriminate|].
  destruct (N.eqb_spec v x) as [->|]; [injection H as <-; left; reflexivity|right; apply IH; exact H].
Qed.

Lemma bs_clause n : 1 <= n -> n <= 65535 ->
  (code_of_bs n <? 16) = true /\
  (match bs_of_code (code_of_bs n) with
   | Some v => n =? v
   | None => if code_of_bs n =? 6 then (1 <=? n) && (n <=? 256)
             else if code_of_bs n =? 7 then (1 <=? n) && (n <=? 65535) else false
   end) = true.
Proof.
  intros H1 H2. unfold code_of_bs. destruct (code_lookup n bs_codes) as [c|] eqn:E.
  - apply code_lookup_in in E. unfold bs_codes in E.
    repeat (destruct E as [E|E]; [injection E as <- <-; split; reflexivity|]). destruct E.
  - destruct (N.leb_spec n 256); cbn [bs_of_code N.eqb Pos.eqb N.ltb N.compare Pos.compare Pos.compare_cont]; (split; [reflexivity|]).
    + destruct (N.leb_spec 1 n); [|lia]. destruct (N.leb_spec n 256); [reflexivity|lia].
    + destruct (N.leb_spec 1 n); [|lia]. destruct (N.leb_spec n 65535); [reflexivity|lia].
Qed.

Lemma rate_clause si rate rc : code_of_rate rate = Some rc -> si_rate si = rate ->
  (rc <? 16) = true /\
  (match rate_of_code rc with
   | Some v => rate =? v
   | None => if rc =? 0 then rate =? si_rate si
             else if rc =? 12 then (rate mod 1000 =? 0) && (rate / 1000 <? 256)
             else if rc =? 13 then rate <? 65536
             else if rc =? 14 then (rate mod 10 =? 0) && (rate / 10 <? 65536)
             else false
   end) = true.
Proof.
  intros H Hsi. unfold code_of_rate in H. destruct (code_lookup rate rate_codes) as [c|] eqn:E.
  - injection H as <-. apply code_lookup_in in E. unfold rate_codes in E.
    repeat (destruct E as [E|E]; [injection E as <- <-; split; reflexivity|]). destruct E.
  - destruct ((rate mod 1000 =? 0) && (rate / 1000 <? 255)) eqn:C1.
    { injection H as <-. split; [reflexivity|]. cbn [rate_of_code N.eqb Pos.eqb].
      apply andb_prop in C1. destruct C1 as [A B]. rewrite A. apply N.ltb_lt in B.
      destruct (N.ltb_spec (rate / 1000) 256); [reflexivity|lia]. }
    destruct ((rate mod 10 =? 0) && (rate / 10 <? 65535)) eqn:C2.
    { injection H as <-. split; [reflexivity|]. cbn [rate_of_code N.eqb Pos.eqb].
      apply andb_prop in C2. destruct C2 as [A B]. rewrite A. apply N.ltb_lt in B.
      destruct (N.ltb_spec (rate / 10) 65536); [reflexivity|lia]. }
    destruct (N.ltb_spec rate 65535).
    { injection H as <-. split; [reflexivity|]. cbn [rate_of_code N.eqb Pos.eqb].
      destruct (N.ltb_spec rate 65536); [reflexivity|lia]. }
    destruct (rate <? 2 ^ 20); [|discriminate].
    injection H as <-. split; [reflexivity|]. cbn [rate_of_code N.eqb]. rewrite Hsi. apply N.eqb_refl.
Qed.

Lemma bps_clause si bps : si_bps si = bps ->
  (code_of_bps bps <? 8) = true /\ negb (code_of_bps bps =? 3) = true /\
  (match bps_of_code (code_of_bps bps) with
   | Some v => bps =? v
   | None => if code_of_bps bps =? 0 then bps =? si_bps si else false
   end) = true.
Proof.
  intros Hsi. unfold code_of_bps. destruct (code_lookup bps bps_codes) as [c|] eqn:E.
  - apply code_lookup_in in E. unfold bps_codes in E.
    repeat (destruct E as [E|E]; [injection E as <- <-; repeat split; reflexivity|]). destruct E.
  - repeat split; try reflexivity. cbn [bps_of_code N.eqb]. rewrite Hsi. apply N.eqb_refl.
Qed.

Lemma enc_header_wf si rate bps number n a rc :
  code_of_rate rate = Some rc -> 1 <= n -> n <= 65535 -> a < 11 -> number <= MAX_FRAME_NUMBER ->
  si_rate si = rate -> si_bps si = bps ->
  wf_header (Some si) {| h_variable := false; h_bs_code := code_of_bs n; h_bs := n; h_rate_code := rc;
                         h_rate := rate; h_assign := a; h_bps_code := code_of_bps bps; h_bps := bps;
                         h_number := number |} = true.
Proof.
  intros Hr H1 H2 Ha Hn Hsr Hsb. unfold wf_header.
  cbn [h_bs_code h_bs h_rate_code h_rate h_assign h_bps_code h_bps h_number].
  destruct (bs_clause n H1 H2) as [B1 B2]. destruct (rate_clause si rate rc Hr Hsr) as [R1 R2].
  destruct (bps_clause si bps Hsb) as (P1 & _ & P2).
  rewrite B1, B2, R1, R2, P1, P2. destruct (N.ltb_spec a 11); [|lia].
  destruct (N.leb_spec number MAX_FRAME_NUMBER); [reflexivity|lia].
Qed.

(* ---------------- the frame ---------------- *)
Definition subs_ok (h : header) (chans : list (list Z)) (subs : list subframe) : Prop :=
  length subs = N.to_nat (assign_channels (h_assign h)) /\
  wf_subframes h 0 subs = true /\ spec_subframes h 0 subs = true /\
  sem_channels (h_assign h) (map (sem_subframe (h_bs h)) subs) = chans.

Definition sig0 (a : N) (l r : list Z) : list Z := if a =? 9 then side_of l r else if a =? 10 then mid_of l r else l.
Definition sig1 (a : N) (l r : list Z) : list Z := if (a =? 8) || (a =? 10) then side_of l r else r.

Definition stereo_res_ok (bs bps : N) (l r : list Z) (res : N * list subframe) : Prop :=
  let a := fst res in
  (a = 1 \/ a = 8 \/ a = 9 \/ a = 10) /\
  exists s0 s1, snd res = [s0; s1] /\
    sub_ok bs (subframe_bps a bps 0) (sig0 a l r) s0 /\ sub_ok bs (subframe_bps a bps 1) (sig1 a l r) s1.

Lemma enc_stereo_ok o L bps l r : l <> [] -> length l = length r ->
  forallb (fits bps) l = true -> forallb (fits bps) r = true -> 1 <= bps -> bps <= 32 ->
  stereo_res_ok (N.of_nat (length l)) bps l r (enc_stereo o L bps l r).
Proof.
  intros Hne Hlen Fl Fr Hb1 Hb32. set (bs := N.of_nat (length l)). set (e := enc_sub o L).
  assert (Hrne : r <> []) by (destruct l, r; try congruence; discriminate).
  assert (El : sub_ok bs bps l (e bps l)) by (apply enc_sub_ok; assumption).
  assert (Er : sub_ok bs bps r (e bps r)).
  { unfold bs. rewrite Hlen. apply enc_sub_ok; assumption. }
  assert (Es : bps < 32 -> sub_ok bs (bps + 1) (side_of l r) (e (bps + 1) (side_of l r))).
  { intros Hlt. unfold bs. rewrite <- (side_of_length l r Hlen). apply enc_sub_ok; [| |lia|lia].
    - destruct l, r; try congruence; discriminate.
    - apply side_of_fits; assumption. }
  assert (Em : sub_ok bs bps (mid_of l r) (e bps (mid_of l r))).
  { unfold bs. rewrite <- (mid_of_length l r Hlen). apply enc_sub_ok; [| |lia|lia].
    - destruct l, r; try congruence; discriminate.
    - apply mid_of_fits; assumption. }
  assert (C1 : stereo_res_ok bs bps l r (1, [e bps l; e bps r])).
  { split; [left; reflexivity|]. exists (e bps l), (e bps r). repeat split; try apply El; try apply Er. }
  assert (C8 : bps < 32 -> stereo_res_ok bs bps l r (8, [e bps l; e (bps + 1) (side_of l r)])).
  { intros Hlt. split; [right; left; reflexivity|]. exists (e bps l), (e (bps + 1) (side_of l r)).
    split; [reflexivity|]. split; [exact El|exact (Es Hlt)]. }
  assert (C9 : bps < 32 -> stereo_res_ok bs bps l r (9, [e (bps + 1) (side_of l r); e bps r])).
  { intros Hlt. split; [right; right; left; reflexivity|]. exists (e (bps + 1) (side_of l r)), (e bps r).
    split; [reflexivity|]. split; [exact (Es Hlt)|exact Er]. }
  assert (C10 : bps < 32 -> stereo_res_ok bs bps l r (10, [e bps (mid_of l r); e (bps + 1) (side_of l r)])).
  { intros Hlt. split; [right; right; right; reflexivity|]. exists (e bps (mid_of l r)), (e (bps + 1) (side_of l r)).
    split; [reflexivity|]. split; [exact Em|exact (Es Hlt)]. }
  unfold enc_stereo. fold e. destruct (eo_exhaustive o).
  - destruct (N.ltb_spec bps 32) as [Hlt|]; [|exact C1].
    destruct (first_min _ _) as [c|] eqn:Ec; [|exact C1].
    apply first_min_in in Ec. destruct (eo_mid_side o); cbn [In] in Ec;
      repeat (destruct Ec as [<-|Ec]; [auto|]); destruct Ec.
  - destruct (N.ltb_spec bps 32) as [Hlt|]; [|exact C1].
    match goal with |- context [match ?m with Some c => fst c | None => 1 end] => set (a := match m with Some c => fst c | None => 1 end) end.
    destruct (a =? 8); [auto|]. destruct (a =? 9); [auto|]. destruct (a =? 10); auto.
Qed.

Lemma stereo_subs_ok h l r res : length l = length r ->
  stereo_res_ok (h_bs h) (h_bps h) l r res -> h_assign h = fst res ->
  subs_ok h [l; r] (snd res).
Proof.
  intros Hlen [Ha (s0 & s1 & Es & (W0 & S0 & V0) & (W1 & S1 & V1))] Eh.
  unfold subs_ok. rewrite Es, Eh. cbn [wf_subframes spec_subframes map length]. rewrite Eh.
  rewrite W0, W1, S0, S1, V0, V1. cbn [andb].
  destruct (undo_mid_side l r Hlen) as [M1 M2]. cbv zeta in M1, M2.
  destruct Ha as [E|[E|[E|E]]]; rewrite E; unfold sig0, sig1; cbn [N.eqb Pos.eqb orb assign_channels N.ltb N.compare Pos.compare Pos.compare_cont];
    (split; [reflexivity|]); (split; [reflexivity|]); (split; [reflexivity|]); cbn [sem_channels].
  - reflexivity.
  - rewrite (undo_left_side l r Hlen). reflexivity.
  - rewrite (undo_side_right l r Hlen). reflexivity.
  - rewrite M1, M2. reflexivity.
Qed.

Lemma indep_subs_ok o L h chans : h_assign h <? 8 = true -> 1 <= h_bps h -> h_bps h <= 32 ->
  length chans = N.to_nat (h_assign h + 1) ->
  Forall (fun c => c <> [] /\ N.of_nat (length c) = h_bs h /\ forallb (fits (h_bps h)) c = true) chans ->
  subs_ok h chans (map (enc_sub o L (h_bps h)) chans).
Proof.
  intros Ha Hb1 Hb32 Hlen Hch. unfold subs_ok. rewrite map_length, Hlen. unfold assign_channels. rewrite Ha.
  split; [reflexivity|].
  assert (Hall : Forall (fun c => sub_ok (h_bs h) (h_bps h) c (enc_sub o L (h_bps h) c)) chans).
  { eapply Forall_impl; [|exact Hch]. intros c (Hne & Hl & F). rewrite <- Hl. apply enc_sub_ok; assumption. }
  assert (Hwf : forall i, wf_subframes h i (map (enc_sub o L (h_bps h)) chans) = true).
  { clear - Hall Ha. induction Hall as [|c l (W & _ & _) _ IH]; intros i; cbn [map wf_subframes]; [reflexivity|].
    rewrite subframe_bps_indep by exact Ha. rewrite W, IH. reflexivity. }
  assert (Hsp : forall i, spec_subframes h i (map (enc_sub o L (h_bps h)) chans) = true).
  { clear - Hall Ha. induction Hall as [|c l (_ & S & _) _ IH]; intros i; cbn [map spec_subframes]; [reflexivity|].
    rewrite subframe_bps_indep by exact Ha. rewrite S, IH. reflexivity. }
  split; [apply Hwf|]. split; [apply Hsp|].
  rewrite sem_channels_indep' by exact Ha. rewrite map_map.
  clear - Hall. induction Hall as [|c l (_ & _ & V) _ IH]; cbn [map]; [reflexivity|]. rewrite V, IH. reflexivity.
Qed.

(* the hypotheses on one block: what the writers guarantee before encode_frame is called *)
Definition block_ok (si : streaminfo) (bps : N) (chans : list (list Z)) : Prop :=
  (1 <= length chans <= 8)%nat /\ 1 <= bps /\ bps <= 32 /\
  si_bps si = bps /\ si_channels si = N.of_nat (length chans) /\
  exists n, 1 <= n /\ n <= 65535 /\ n <= si_max_bs si /\
    Forall (fun c => N.of_nat (length c) = n /\ forallb (fits bps) c = true) chans.

Lemma enc_subs_ok o L h chans : let res := enc_subs o L (h_bps h) chans in
  h_assign h = fst res -> (1 <= length chans <= 8)%nat -> 1 <= h_bps h -> h_bps h <= 32 ->
  Forall (fun c => c <> [] /\ N.of_nat (length c) = h_bs h /\ forallb (fits (h_bps h)) c = true) chans ->
  h_assign h < 11 /\ assign_channels (h_assign h) = N.of_nat (length chans) /\ subs_ok h chans (snd res).
Proof.
  intros res Eh Hch Hb1 Hb32 Hall.
  assert (Hindep : res = (N.of_nat (length chans) - 1, map (enc_sub o L (h_bps h)) chans) ->
            h_assign h < 11 /\ assign_channels (h_assign h) = N.of_nat (length chans) /\ subs_ok h chans (snd res)).
  { intros E. rewrite E in *. cbn [fst snd] in *.
    assert (Ha : h_assign h <? 8 = true) by (apply N.ltb_lt; lia).
    split; [lia|]. split; [unfold assign_channels; rewrite Ha; lia|].
    apply indep_subs_ok; auto. lia. }
  destruct chans as [|l [|r [|c2 more]]] eqn:E2; try (apply Hindep; reflexivity).
  (* stereo *)
  inversion Hall as [|? ? (Nl & Ll & Fl) Hr']; subst. inversion Hr' as [|? ? (Nr & Lr & Fr) _]; subst.
  assert (Hlen : length l = length r) by lia.
  pose proof (enc_stereo_ok o L (h_bps h) l r Nl Hlen Fl Fr Hb1 Hb32) as Hst. rewrite Ll in Hst.
  change (enc_stereo o L (h_bps h) l r) with res in Hst.
  pose proof (stereo_subs_ok h l r res Hlen Hst Eh) as Hok.
  destruct Hst as [Ha _]. rewrite <- Eh in Ha.
  split; [lia|]. split; [|exact Hok].
  destruct Ha as [->|[->|[->| ->]]]; reflexivity.
Qed.

Theorem enc_frame_ok o L si rate bps number chans f :
  enc_frame o L rate bps number chans = Some f ->
  block_ok si bps chans -> si_rate si = rate -> number <= MAX_FRAME_NUMBER ->
  wf_frame (Some si) f = true /\ spec_frame f = true /\ sem_frame f = chans /\ h_number (f_hdr f) = number /\
  h_bs (f_hdr f) = block_len chans.
Proof.
  unfold enc_frame. intros H (Hch & Hb1 & Hb32 & Hsb & Hsc & n & Hn1 & Hn2 & Hn3 & Hall) Hsr Hnum.
  destruct (code_of_rate rate) as [rc|] eqn:Erc; [|discriminate].
  remember (enc_subs o L bps chans) as res eqn:Eres.
  destruct chans as [|c0 rest] eqn:Echans; [discriminate|]. rewrite <- Echans in *.
  assert (Hc0 : N.of_nat (length c0) = n).
  { rewrite Echans in Hall. inversion Hall as [|? ? [A _] _]. exact A. }
  cbv zeta in H. injection H as <-. rewrite Hc0.
  set (h := {| h_variable := false; h_bs_code := code_of_bs n; h_bs := n; h_rate_code := rc; h_rate := rate;
               h_assign := fst res; h_bps_code := code_of_bps bps; h_bps := bps; h_number := number |}).
  assert (Hall' : Forall (fun c => c <> [] /\ N.of_nat (length c) = h_bs h /\ forallb (fits (h_bps h)) c = true) chans).
  { eapply Forall_impl; [|exact Hall]. intros c [A B]. cbn [h h_bs h_bps]. repeat split; auto. intros ->. cbn in A. lia. }
  destruct (enc_subs_ok o L h chans) as (Ha & Hac & Hlen & Hwf & Hsp & Hsem); cbn [h h_bps h_assign]; auto;
    try (rewrite <- Eres; reflexivity).
  cbn [h h_bps] in Hlen, Hwf, Hsp, Hsem. rewrite <- Eres in Hlen, Hwf, Hsp, Hsem.
  cbn [h_assign] in Ha, Hac.
  assert (Hhdr : wf_header (Some si) h = true) by (apply enc_header_wf; auto).
  split; [|split; [|split; [|split]]].
  - unfold wf_frame. cbn [f_hdr f_subs]. fold h. rewrite Hhdr, Hwf, Hlen. cbn [h h_assign]. rewrite Nat.eqb_refl. cbn [andb].
    unfold header_checks. cbn [h h_bs h_rate h_assign h_bps] in *.
    destruct (N.leb_spec n (si_max_bs si)); [|lia]. cbn [negb].
    rewrite Hsr, N.eqb_refl. cbn [negb]. rewrite Hac, Hsc, N.eqb_refl. cbn [negb]. rewrite Hsb, N.eqb_refl. reflexivity.
  - unfold spec_frame, sem_frame. cbn [f_hdr f_subs]. fold h. rewrite Hsp. cbn [h h_assign h_bs h_bps] in *. rewrite Hsem.
    destruct (N.leb_spec 1 bps); [|lia]. destruct (N.leb_spec bps 32); [|lia]. rewrite !Bool.andb_true_r.
    apply forallb_forall. intros c Hc. rewrite Forall_forall in Hall. apply (Hall c Hc).
  - unfold sem_frame. cbn [f_hdr f_subs]. fold h. cbn [h h_assign h_bs] in *. exact Hsem.
  - reflexivity.
  - cbn [f_hdr h_bs]. rewrite Echans. cbn [block_len]. symmetry. exact Hc0.
Qed.

(* ---------------- bytes: the decoder returns the block ---------------- *)
From FlacCodec Require Import Roundtrip_frame Agree_frame Stream.

Theorem enc_frame_bytes_total o L si rate bps number chans rc :
  block_ok si bps chans -> code_of_rate rate = Some rc -> number <= MAX_FRAME_NUMBER ->
  exists bytes, enc_frame_bytes o L rate bps number chans = Some bytes.
Proof.
  intros (Hch & _) Hrc Hn. unfold enc_frame_bytes, enc_frame. rewrite Hrc.
  destruct chans as [|c0 rest]; [cbn in Hch; lia|]. cbv zeta.
  unfold write_frame, write_header_fields, write_number. cbn [f_hdr h_number].
  destruct (N.ltb_spec MAX_FRAME_NUMBER number); [lia|].
  destruct (number_len number =? 1)%nat; eexists; reflexivity.
Qed.

Theorem enc_frame_roundtrip o L si rate bps number chans bytes rest chk :
  enc_frame_bytes o L rate bps number chans = Some bytes ->
  block_ok si bps chans -> si_rate si = rate -> number <= MAX_FRAME_NUMBER ->
  (forall h, h_bs h = block_len chans -> chk h = Ok tt) ->
  exists h, dec_frame (Some si) chk (bytes ++ rest) = Ok (h, chans, rest) /\ h_number h = number /\
            h_bs h = block_len chans /\
            spec_decode (Some si) (bytes ++ rest) = Ok (chans, rest).
Proof.
  unfold enc_frame_bytes. intros H Hb Hr Hn Hchk.
  destruct (enc_frame o L rate bps number chans) as [f|] eqn:Ef; [|discriminate].
  destruct (enc_frame_ok _ _ _ _ _ _ _ _ Ef Hb Hr Hn) as (Hwf & Hsp & Hsem & Hnum & Hbs).
  exists (f_hdr f). rewrite <- Hsem. split; [|split; [exact Hnum|split; [rewrite Hsem; exact Hbs|]]].
  - apply dec_frame_agree; auto.
  - unfold spec_decode. rewrite (frame_roundtrip (Some si) f bytes rest Hwf H). cbn [bind]. rewrite Hwf, Hsp. reflexivity.
Qed.

(* ---------------- whole streams ---------------- *)
Fixpoint short_only_last (si : streaminfo) (blocks : list (list (list Z))) : Prop :=
  match blocks with
  | [] => True
  | b :: rest => (rest = [] \/ 14 < block_len b \/ si_total si = 0) /\ short_only_last si rest
  end.
Definition blocks_samples (blocks : list (list (list Z))) : N := fold_right (fun b a => block_len b + a) 0 blocks.

Lemma frame_bytes_len o L rate bps k b x : enc_frame_bytes o L rate bps k b = Some x -> (2 <= length x)%nat.
Proof.
  unfold enc_frame_bytes. destruct (enc_frame o L rate bps k b) as [f|]; [|discriminate].
  unfold write_frame. destruct (write_header_fields (f_hdr f)); [|discriminate]. cbv zeta. intros E. injection E as E.
  apply (f_equal (@length N)) in E. rewrite !app_length in E. cbn in E. lia.
Qed.

Theorem enc_stream_roundtrip o L si rate bps : forall blocks k bytes fuel cur acc,
  enc_blocks o L rate bps k blocks = Some bytes ->
  Forall (block_ok si bps) blocks -> si_rate si = rate ->
  k + N.of_nat (length blocks) <= MAX_FRAME_NUMBER + 1 ->
  short_only_last si blocks ->
  (si_total si = 0 \/ cur + blocks_samples blocks = si_total si) ->
  (length bytes < fuel)%nat ->
  dec_frames fuel si cur bytes acc = (rev acc ++ map interleave_frame blocks, EndEof).
Proof.
  induction blocks as [|b blocks IH]; intros k bytes fuel cur acc He Hall Hr Hk Hs Ht Hfuel.
  - cbn in He. injection He as <-. destruct fuel as [|fuel]; [lia|]. cbn [dec_frames map]. rewrite app_nil_r.
    unfold read_frame. destruct (N.eqb_spec (si_total si) 0) as [E0|N0]; [reflexivity|].
    cbn [blocks_samples fold_right] in Ht. destruct Ht as [Ht|Ht]; [congruence|].
    destruct (N.ltb_spec (si_total si) cur); [lia|]. cbv zeta.
    destruct (Z.eqb_spec (Z.of_N (si_total si) - Z.of_N cur) 0); [reflexivity|lia].
  - cbn [enc_blocks] in He.
    destruct (enc_frame_bytes o L rate bps k b) as [x|] eqn:Ex; [|discriminate].
    destruct (enc_blocks o L rate bps (k + 1) blocks) as [y|] eqn:Ey; [|discriminate]. injection He as <-.
    apply Forall_cons_iff in Hall. destruct Hall as [Hb Hrest]. cbn [length] in Hk.
    destruct Hs as [Hs1 Hs2]. cbn [blocks_samples fold_right] in Ht. fold (blocks_samples blocks) in Ht.
    assert (Hbl : 1 <= block_len b).
    { destruct Hb as (Hch & _ & _ & _ & _ & n & Hn1 & _ & _ & Hc). destruct b as [|c0 b']; [cbn in Hch; lia|].
      inversion Hc as [|? ? [A _] _]. cbn [block_len]. lia. }
    pose proof (frame_bytes_len _ _ _ _ _ _ _ Ex) as Lx.
    destruct fuel as [|fuel]; [lia|]. cbn [dec_frames].
    assert (Hread : read_frame si cur (x ++ y) = Ok (Some (b, cur + block_len b, y))).
    { unfold read_frame. destruct (N.eqb_spec (si_total si) 0) as [E0|N0].
      - destruct (x ++ y) eqn:Exy; [destruct x; cbn in *; [lia|discriminate]|]. rewrite <- Exy.
        destruct (enc_frame_roundtrip o L si rate bps k b x y (fun _ => Ok tt) Ex Hb Hr ltac:(lia) ltac:(reflexivity)) as (h & Hd & _ & Hbs & _).
        rewrite Hd. cbn [bind]. rewrite Hbs. reflexivity.
      - destruct Ht as [Ht|Ht]; [congruence|].
        destruct (N.ltb_spec (si_total si) cur); [lia|]. cbv zeta.
        destruct (Z.eqb_spec (Z.of_N (si_total si) - Z.of_N cur) 0); [lia|].
        match goal with |- bind (dec_frame _ ?c _) _ = _ => set (chk := c) end.
        assert (Hchk : forall h, h_bs h = block_len b -> chk h = Ok tt).
        { intros h Eh. unfold chk. rewrite Eh.
          destruct Hs1 as [->|[H14|H0]]; [|destruct (N.ltb_spec 14 (block_len b)); [rewrite Bool.orb_true_r; reflexivity|lia]|congruence].
          cbn [blocks_samples fold_right] in Ht.
          destruct (Z.eqb_spec (Z.of_N (block_len b)) (Z.of_N (si_total si) - Z.of_N cur)); [reflexivity|lia]. }
        destruct (enc_frame_roundtrip o L si rate bps k b x y chk Ex Hb Hr ltac:(lia) Hchk) as (h & Hd & _ & Hbs & _).
        rewrite Hd. cbn [bind]. rewrite Hbs. reflexivity. }
    rewrite Hread.
    rewrite (IH (k + 1) y fuel (cur + block_len b) (interleave_frame b :: acc) Ey Hrest Hr ltac:(lia) Hs2).
    + cbn [rev map]. rewrite <- app_assoc. reflexivity.
    + destruct Ht as [Ht|Ht]; [left; exact Ht|right; lia].
    + rewrite app_length in Hfuel. lia.
Qed.

(* ---------------- C19 for the encoder as written: no hypothesis on the wasted bits left ---------------- *)
Theorem enc_sub_bits o L bps xs : xs <> [] -> forallb (fits bps) xs = true -> 1 <= bps ->
  sf_bits bps (enc_sub o L bps xs) <= 8 + N.of_nat (length xs) * bps.
Proof.
  intros Hne F Hb. unfold enc_sub.
  assert (Hn : (1 <= length xs)%nat) by (destruct xs; [congruence|cbn; lia]).
  destruct (common_wasted xs) as [w|] eqn:Ew; (apply enc_subframe_bound; [exact Hn|exact Hb|]);
    intros w' Ew'; apply (wasted_facts _ _ _ Ew' F).
Qed.

(* ---------------- C19 at frame level for the encoder as written ---------------- *)
Lemma enc_stereo_cases o L bps l r :
  let e := enc_sub o L in
  let res := enc_stereo o L bps l r in
  res = (1, [e bps l; e bps r]) \/
  (bps < 32 /\ (res = (8, [e bps l; e (bps + 1) (side_of l r)]) \/
                res = (9, [e (bps + 1) (side_of l r); e bps r]) \/
                res = (10, [e bps (mid_of l r); e (bps + 1) (side_of l r)]))).
Proof.
  cbv zeta. unfold enc_stereo. destruct (eo_exhaustive o).
  - destruct (N.ltb_spec bps 32) as [Hlt|]; [|left; reflexivity].
    destruct (first_min _ _) as [c|] eqn:Ec; [|left; reflexivity].
    apply first_min_in in Ec. destruct (eo_mid_side o); cbn [In] in Ec;
      repeat (destruct Ec as [<-|Ec]; [auto 6|]); destruct Ec.
  - destruct (N.ltb_spec bps 32) as [Hlt|]; [|left; reflexivity].
    match goal with |- context [match ?m with Some c => fst c | None => 1 end] => set (a := match m with Some c => fst c | None => 1 end) end.
    destruct (a =? 8); [auto 6|]. destruct (a =? 9); [auto 6|]. destruct (a =? 10); auto 6.
Qed.

Lemma write_subframes_indep_len o L a bps : a <? 8 = true -> forall chans i n,
  Forall (fun c => c <> [] /\ N.of_nat (length c) = n /\ forallb (fits bps) c = true) chans -> 1 <= bps ->
  N.of_nat (length (write_subframes a bps i (map (enc_sub o L bps) chans))) <= N.of_nat (length chans) * (8 + n * bps).
Proof.
  intros Ha. induction chans as [|c chans IH]; intros i n Hall Hb; cbn [map write_subframes length]; [lia|].
  apply Forall_cons_iff in Hall. destruct Hall as [(Hne & Hl & F) Hrest].
  rewrite app_length, subframe_bps_indep by exact Ha.
  pose proof (enc_sub_bits o L bps c Hne F Hb) as B. unfold sf_bits in B. rewrite Hl in B.
  specialize (IH (S i) n Hrest Hb). lia.
Qed.

Theorem enc_frame_size o L si rate bps number chans bytes :
  enc_frame_bytes o L rate bps number chans = Some bytes -> block_ok si bps chans ->
  let ch := N.of_nat (length chans) in let n := block_len chans in
  N.of_nat (length bytes) <= 16 + (ch * (8 + n * bps) + (if ch =? 2 then n else 0) + 7) / 8 + 2.
Proof.
  unfold enc_frame_bytes, enc_frame. intros H (Hch & Hb1 & Hb32 & _ & _ & n & Hn1 & _ & _ & Hall).
  destruct (code_of_rate rate) as [rc|]; [|discriminate].
  remember (enc_subs o L bps chans) as res eqn:Eres.
  destruct chans as [|c0 rest] eqn:Echans; [discriminate|]. rewrite <- Echans in *. cbv zeta in H.
  assert (Hc0 : block_len chans = n).
  { rewrite Echans in *. apply Forall_cons_iff in Hall. destruct Hall as [[A _] _]. exact A. }
  rewrite Hc0.
  assert (Hall' : Forall (fun c => c <> [] /\ N.of_nat (length c) = n /\ forallb (fits bps) c = true) chans).
  { eapply Forall_impl; [|exact Hall]. intros c [A B]. repeat split; auto. intros ->. cbn in A. lia. }
  (* bits of the subframes *)
  assert (Hbits : N.of_nat (length (write_subframes (fst res) bps 0 (snd res)))
                  <= N.of_nat (length chans) * (8 + n * bps) + (if N.of_nat (length chans) =? 2 then n else 0)).
  { assert (Hindep : res = (N.of_nat (length chans) - 1, map (enc_sub o L bps) chans) ->
              N.of_nat (length (write_subframes (fst res) bps 0 (snd res))) <= N.of_nat (length chans) * (8 + n * bps)).
    { intros E. rewrite E. cbn [fst snd]. apply write_subframes_indep_len; auto. apply N.ltb_lt. lia. }
    unfold enc_subs in Eres.
    destruct chans as [|l [|r [|c2 more]]] eqn:E2.
    - discriminate.
    - specialize (Hindep Eres). cbn [length] in *. destruct (N.of_nat 1 =? 2); lia.
    - (* stereo: one of the four candidates *)
      apply Forall_cons_iff in Hall'. destruct Hall' as [(Nl & Ll & Fl) Hr'].
      apply Forall_cons_iff in Hr'. destruct Hr' as [(Nr & Lr & Fr) _].
      assert (Hlen : length l = length r) by lia.
      pose proof (enc_sub_bits o L bps l Nl Fl Hb1) as Bl. pose proof (enc_sub_bits o L bps r Nr Fr Hb1) as Br.
      unfold sf_bits in Bl, Br. rewrite Ll in Bl. rewrite Lr in Br.
      assert (Bs : bps < 32 -> N.of_nat (length (write_subframe (bps + 1) (enc_sub o L (bps + 1) (side_of l r)))) <= 8 + n * (bps + 1)).
      { intros Hlt. pose proof (enc_sub_bits o L (bps + 1) (side_of l r)) as B. unfold sf_bits in B.
        rewrite (side_of_length l r Hlen), Ll in B. apply B; [|apply side_of_fits; assumption|lia].
        destruct l, r; try congruence; discriminate. }
      assert (Bm : N.of_nat (length (write_subframe bps (enc_sub o L bps (mid_of l r)))) <= 8 + n * bps).
      { pose proof (enc_sub_bits o L bps (mid_of l r)) as B. unfold sf_bits in B.
        rewrite (mid_of_length l r Hlen), Ll in B. apply B; [|apply mid_of_fits; assumption|lia].
        destruct l, r; try congruence; discriminate. }
      change (N.of_nat (length [l; r]) =? 2) with true. cbv iota. change (N.of_nat (length [l; r])) with 2.
      destruct (enc_stereo_cases o L bps l r) as [E|[Hlt [E|[E|E]]]]; cbv zeta in E; rewrite <- Eres in E; rewrite E;
        cbn [fst snd write_subframes]; rewrite !app_length; cbn [length];
        unfold subframe_bps; cbn [N.eqb Pos.eqb Nat.eqb andb]; try specialize (Bs Hlt); lia.
    - specialize (Hindep Eres). cbn [length] in *.
      destruct (N.of_nat (S (S (S (length more)))) =? 2); lia. }
  eapply (frame_bytes_bound _ bytes (N.to_nat (N.of_nat (length chans) * (8 + n * bps) + (if N.of_nat (length chans) =? 2 then n else 0)))) in H.
  - set (B := N.of_nat (length chans) * (8 + n * bps) + (if N.of_nat (length chans) =? 2 then n else 0)) in *.
    assert (D : ((N.to_nat B + 7) / 8)%nat = N.to_nat ((B + 7) / 8)).
    { rewrite N2Nat.inj_div. f_equal. lia. }
    rewrite D in H. lia.
  - cbn [f_hdr f_subs h_assign h_bps]. lia.
Qed.

(* ---------------- C19, second clause: a block of constant samples costs a few bytes per channel ---------------- *)
Lemma first_min_zero {A} (key : A -> N) b rest : key b = 0 -> first_min key (b :: rest) = Some b.
Proof.
  intros Hb. cbn [first_min]. destruct (first_min key rest) as [x|]; [|reflexivity].
  rewrite Hb. destruct (N.ltb_spec (key x) 0); [lia|reflexivity].
Qed.

Lemma abs_sum_zeros k : abs_sum (repeat 0%Z k) = 0.
Proof. induction k as [|k IH]; cbn [repeat abs_sum fold_right]; [reflexivity|]. fold (abs_sum (repeat 0%Z k)). rewrite IH. reflexivity. Qed.
Lemma skipn_repeat {A} (x : A) : forall k n, skipn k (repeat x n) = repeat x (n - k).
Proof. induction k as [|k IH]; intros [|n]; cbn [skipn repeat Nat.sub]; auto. Qed.
Lemma firstn_repeat_all {A} (x : A) n : firstn n (repeat x n) = repeat x n.
Proof. rewrite <- (repeat_length x n) at 1. apply firstn_all. Qed.
Lemma diff_repeat c : forall n, diff (repeat c n) = repeat 0%Z (n - 1).
Proof.
  induction n as [|[|n] IH]; try reflexivity.
  cbn [repeat diff] in *. rewrite IH. cbn [Nat.sub repeat]. rewrite Z.sub_diag, Nat.sub_0_r. reflexivity.
Qed.
Lemma abs_sum_repeat_pos c k : c <> 0%Z -> (0 < k)%nat -> 0 < abs_sum (repeat c k).
Proof. intros Hc Hk. destruct k; [lia|]. cbn [repeat abs_sum fold_right]. unfold absN. lia. Qed.

Lemma last_In {A} (d : A) l : l <> [] -> In (last l d) l.
Proof.
  induction l as [|a [|b l] IH]; intros H; [congruence|left; reflexivity|].
  right. apply IH. discriminate.
Qed.
Lemma fixed_orders_nonempty : forall fuel prev x, In x (fixed_orders fuel prev) -> x <> [].
Proof.
  induction fuel as [|f IH]; intros prev x H; cbn [fixed_orders] in H; [destruct H|].
  destruct (forallb (fits 32) (diff prev) && negb (is_nil (diff prev))) eqn:E; [|destruct H].
  apply andb_prop in E. destruct E as [_ E]. destruct H as [<-|H]; [|eapply IH; eauto].
  destruct (diff prev); [discriminate|discriminate].
Qed.
Lemma fixed_orders_len : forall fuel prev x, In x (fixed_orders fuel prev) -> (length x < length prev)%nat.
Proof.
  induction fuel as [|f IH]; intros prev x H; cbn [fixed_orders] in H; [destruct H|].
  destruct (forallb (fits 32) (diff prev) && negb (is_nil (diff prev))) eqn:E; [|destruct H].
  apply andb_prop in E. destruct E as [_ E].
  assert (Hd : (length (diff prev) < length prev)%nat).
  { rewrite diff_length. destruct prev; [discriminate|cbn [length]; lia]. }
  destruct H as [<-|H]; [exact Hd|]. specialize (IH _ _ H). lia.
Qed.

Lemma no_min_zeros k : existsb (Z.eqb (- 2 ^ 31)) (repeat 0%Z k) = false.
Proof. induction k as [|k IH]; cbn [repeat existsb]; [reflexivity|]. rewrite IH. reflexivity. Qed.

(* the FIXED candidate of a constant non-zero run of n >= 2 samples: order 1, one all-zero partition *)
Lemma enc_fixed_constant o c n : c <> 0%Z -> fits 32 c = true -> (2 <= n)%nat ->
  enc_fixed o (repeat c n) = Some (BFixed 1 [c] {| r_method := 0; r_parts := [PZero (n - 1)] |}).
Proof.
  intros Hc Fc Hn. unfold enc_fixed. set (ys := repeat c n).
  assert (Ed : diff ys = repeat 0%Z (n - 1)) by apply diff_repeat.
  assert (F0 : forall k, forallb (fits 32) (repeat 0%Z k) = true).
  { intros k. apply forallb_forall. intros z Hz. apply repeat_spec in Hz. subst z. reflexivity. }
  assert (Eo : exists tail, fixed_orders 4 ys = repeat 0%Z (n - 1) :: tail).
  { cbn [fixed_orders]. rewrite Ed, F0. destruct (n - 1)%nat eqn:E1; [lia|]. cbn [repeat is_nil negb andb]. eauto. }
  destruct Eo as [tail Eo]. rewrite Eo.
  set (ords := ys :: repeat 0%Z (n - 1) :: tail).
  set (minlen := length (last ords ys)).
  assert (Hml : (1 <= minlen <= n - 1)%nat).
  { unfold minlen. assert (Hin : In (last ords ys) ords) by (apply last_In; discriminate).
    assert (Hlast : last ords ys = last (repeat 0%Z (n - 1) :: tail) ys) by reflexivity.
    rewrite Hlast. assert (Hin2 : In (last (repeat 0%Z (n - 1) :: tail) ys) (fixed_orders 4 ys)).
    { rewrite Eo. apply last_In. discriminate. }
    pose proof (fixed_orders_nonempty _ _ _ Hin2) as Hne. pose proof (fixed_orders_len _ _ _ Hin2) as Hl.
    assert (Ly : length ys = n) by apply repeat_length. rewrite Ly in Hl.
    destruct (last (repeat 0%Z (n - 1) :: tail) ys); [congruence|cbn [length] in *; lia]. }
  cbn [length seq combine].
  (* entry 0 has a positive key, entry 1 has key 0: entry 1 is the first minimum *)
  set (key := fun p : nat * list Z => abs_sum (skipn (length (snd p) - minlen) (snd p))).
  assert (K1 : key (1%nat, repeat 0%Z (n - 1)) = 0).
  { unfold key. cbn [snd]. rewrite skipn_repeat. apply abs_sum_zeros. }
  assert (K0 : 0 < key (0%nat, ys)).
  { unfold key, ys. cbn [snd]. rewrite skipn_repeat, repeat_length. apply abs_sum_repeat_pos; [exact Hc|lia]. }
  change (combine (seq 0 (length ords)) ords)
    with ((0%nat, ys) :: (1%nat, repeat 0%Z (n - 1)) :: combine (seq 2 (length tail)) tail).
  fold key. change (first_min key ((0%nat, ys) :: (1%nat, repeat 0%Z (n - 1)) :: combine (seq 2 (length tail)) tail))
    with (match first_min key ((1%nat, repeat 0%Z (n - 1)) :: combine (seq 2 (length tail)) tail) with
          | Some b => if key b <? key (0%nat, ys) then Some b else Some (0%nat, ys)
          | None => Some (0%nat, ys) end).
  rewrite (first_min_zero key _ _ K1). rewrite K1. destruct (N.ltb_spec 0 (key (0%nat, ys))); [|lia].
  (* the residuals: n - 1 zeros *)
  unfold enc_residual.
  rewrite no_min_zeros. rewrite repeat_length.
  replace (N.of_nat 1 + N.of_nat (n - 1)) with (N.of_nat n) by lia.
  assert (Eb : forall rmax, best_parts rmax (eo_max_po o) (N.of_nat n) (repeat 0%Z (n - 1)) = [PZero (n - 1)]).
  { intros rmax. unfold best_parts. cbn [seq map]. cbn [Enc.filter_map].
    assert (Ec : enc_candidate rmax (N.of_nat n) (repeat 0%Z (n - 1)) (N.of_nat 0) = Some ([PZero (n - 1)], 0)).
    { unfold enc_candidate. change (N.of_nat 0) with 0. rewrite N.pow_0_r, N.div_1_r, Nat2N.id, repeat_length.
      unfold rchunk_lens. rewrite Nat.mod_small, Nat.div_small by lia.
      destruct (Nat.eqb_spec (n - 1) 0); [lia|]. cbn [repeat app split_lens].
      rewrite firstn_repeat_all. cbn [enc_parts]. unfold enc_part. rewrite repeat_length, abs_sum_zeros.
      destruct (N.eqb_spec (N.of_nat (n - 1)) 0); [lia|]. cbn [N.eqb]. cbn [length N.to_nat Pos.to_nat Pos.iter_op Nat.add Nat.eqb]. reflexivity. }
    rewrite Ec. rewrite (first_min_zero snd ([PZero (n - 1)], 0) _ eq_refl). reflexivity. }
  rewrite !Eb. unfold ys. destruct n as [|n']; [lia|].
  destruct (eo_rice2 o); cbn [forallb r_parts part_writable andb repeat firstn]; reflexivity.
Qed.

Lemma enc_subframe_le_fixed bps xs f lpc w : common_wasted xs = Some w -> w <= bps ->
  sf_bits bps (enc_subframe bps xs (Some f) lpc) <= 8 + w + sf_bits bps f.
Proof.
  intros Ew Hw. unfold enc_subframe. rewrite Ew. cbv zeta.
  set (ys := map (fun x => (x / 2 ^ Z.of_N w)%Z) xs).
  assert (Hb : exists b, (match lpc with
                          | Some l => match l with Some c => Some (if sf_bits bps c <? sf_bits bps f then c else f) | None => Some f end
                          | None => Some f end) = Some b /\ sf_bits bps b <= sf_bits bps f).
  { destruct lpc as [[c|]|]; try (exists f; split; [reflexivity|lia]).
    destruct (N.ltb_spec (sf_bits bps c) (sf_bits bps f)); [exists c|exists f]; split; try reflexivity; lia. }
  destruct Hb as (b & -> & Hle).
  destruct (N.ltb_spec (sf_bits bps b) (N.of_nat (length xs) * (bps - w))); [lia|].
  rewrite verbatim_bits by exact Hw. unfold ys. rewrite map_length. destruct (w =? 0); lia.
Qed.

Lemma map_repeat {A B} (f : A -> B) x n : map f (repeat x n) = repeat (f x) n.
Proof. induction n as [|n IH]; cbn [repeat map]; congruence. Qed.

(* C19, second clause, for the encoder as written: a run of n equal samples costs at most 96 bits
   per channel whatever n, the options and the LPC oracle are *)
Theorem enc_sub_constant o L bps c n : (1 <= n)%nat -> fits bps c = true -> 1 <= bps -> bps <= 32 ->
  sf_bits bps (enc_sub o L bps (repeat c n)) <= 96.
Proof.
  intros Hn Fc Hb1 Hb32. set (xs := repeat c n).
  assert (F : forallb (fits bps) xs = true).
  { apply forallb_forall. intros z Hz. apply repeat_spec in Hz. subst z. exact Fc. }
  assert (Hne : xs <> []) by (unfold xs; destruct n; [lia|discriminate]).
  destruct (Nat.eq_dec n 1) as [->|Hn2].
  { pose proof (enc_sub_bits o L bps xs Hne F Hb1) as B. unfold xs in B at 2. cbn [repeat length] in B. lia. }
  unfold enc_sub. destruct (common_wasted xs) as [w|] eqn:Ew.
  - destruct (wasted_facts _ _ _ Ew F) as [Hw D].
    destruct (shifted_facts _ _ _ Ew F) as [_ Hfit]. cbv zeta in Hfit.
    assert (Hc : c <> 0%Z).
    { rewrite common_wasted_fold in Ew. destruct (cw_some _ _ _ Ew) as (_ & _ & He).
      destruct (He eq_refl) as (x & Hx & Nx). apply repeat_spec in Hx. congruence. }
    unfold xs in Hfit |- *. rewrite map_repeat in Hfit |- *. fold xs.
    set (c' := (c / 2 ^ Z.of_N w)%Z) in *.
    assert (Fc' : fits (bps - w) c' = true).
    { rewrite forallb_forall in Hfit. apply Hfit. destruct n; [lia|left; reflexivity]. }
    assert (Hc' : c' <> 0%Z).
    { destruct (D c) as [q Hq]; [unfold xs; destruct n; [lia|left; reflexivity]|].
      unfold c'. rewrite Hq, div_mul_pow. intros ->. rewrite Z.mul_0_l in Hq. congruence. }
    rewrite (enc_fixed_constant o c' n Hc' (fits_mono (bps - w) 32 c' Fc' ltac:(lia)) ltac:(lia)). cbn [option_map].
    eapply N.le_trans; [apply enc_subframe_le_fixed; [exact Ew|lia]|].
    unfold sf_bits, write_subframe. cbn [sf_wasted sf_body flat_map].
    rewrite !app_length, header_bits, wr_s_length. cbn [length].
    unfold write_residual. cbn [r_method r_parts flat_map write_part N.eqb length].
    rewrite !app_length, !wr_length. cbn [length].
    destruct (w =? 0); lia.
  - unfold enc_subframe. rewrite Ew. unfold sf_bits, write_subframe. cbn [sf_wasted sf_body].
    rewrite app_length, header_bits, wr_s_length. cbn [N.eqb]. lia.
Qed.

From FlacCodec Require Import StreamRd StreamRd_proofs.
(* ---------------- C16 for the encoder as written: frames whose header codes do not refer to STREAMINFO
   (what FlacStreamWriter insists on) decode from their own bytes alone ---------------- *)
Lemma wf_header_subset i h : wf_header (Some i) h = true -> h_rate_code h <> 0 -> h_bps_code h <> 0 ->
  wf_header None h = true.
Proof.
  unfold wf_header. intros H Hr Hb.
  apply N.eqb_neq in Hr, Hb. rewrite Hr, Hb in *.
  destruct (rate_of_code (h_rate_code h)), (bps_of_code (h_bps_code h)); exact H.
Qed.

Lemma write_frame_sync f bytes : write_frame f = Some bytes ->
  exists b2 tl, bytes = 255 :: b2 :: tl /\ b2 / 2 = 124.
Proof.
  unfold write_frame. destruct (write_header_fields (f_hdr f)) as [hb|] eqn:Eh; [|discriminate].
  unfold write_header_fields in Eh. destruct (write_number _) as [num|]; [|discriminate].
  set (x := wr 4 (h_bs_code (f_hdr f)) ++ _) in Eh. cbn [app] in Eh.
  change (wr 15 SYNC_CODE) with [true;true;true;true;true;true;true;true;true;true;true;true;true;false;false] in Eh.
  cbn [app] in Eh. apply (f_equal (fun o => match o with Some v => v | None => [] end)) in Eh. subst hb.
  set (vb := h_variable (f_hdr f)).
  match goal with |- context [length ?l] => assert (El : (length l / 8 = S (S (length x / 8)))%nat) end.
  { cbn [length]. change (S (S (S (S (S (S (S (S (S (S (S (S (S (S (S (S (length x)))))))))))))))))%nat with (2 * 8 + length x)%nat.
    rewrite Nat.div_add_l by lia. lia. }
  cbv zeta. rewrite El. intros H. injection H as <-.
  cbn [app bytes_of_bits rd rd_acc].
  eexists. eexists. split; [reflexivity|]. destruct vb; reflexivity.
Qed.

(* the shape of a block, without reference to any STREAMINFO *)
Definition block_shape (bps : N) (chans : list (list Z)) : Prop :=
  (1 <= length chans <= 8)%nat /\ 1 <= bps /\ bps <= 32 /\
  exists n, 1 <= n /\ n <= 65535 /\
    Forall (fun c => N.of_nat (length c) = n /\ forallb (fits bps) c = true) chans.

Theorem enc_frame_self_describing o L rate bps number chans bytes rest rc :
  enc_frame_bytes o L rate bps number chans = Some bytes ->
  block_shape bps chans -> number <= MAX_FRAME_NUMBER ->
  code_of_rate rate = Some rc -> rc <> 0 -> code_of_bps bps <> 0 ->
  exists h, dec_frame None no_check (bytes ++ rest) = Ok (h, chans, rest) /\
            h_rate h = rate /\ h_bps h = bps /\ h_number h = number /\ h_bs h = block_len chans.
Proof.
  unfold enc_frame_bytes. intros H (Hch & Hb1 & Hb32 & n & Hn1 & Hn2 & Hall) Hnum Erc Hrc Hbc.
  destruct (enc_frame o L rate bps number chans) as [f|] eqn:Ef; [|discriminate].
  set (si := {| si_min_bs := 16; si_max_bs := 65535; si_min_fs := 0; si_max_fs := 0; si_rate := rate;
                si_channels := N.of_nat (length chans); si_bps := bps; si_total := 0; si_md5 := [] |}).
  assert (Hb : block_ok si bps chans).
  { split; [exact Hch|]. split; [exact Hb1|]. split; [exact Hb32|]. split; [reflexivity|]. split; [reflexivity|].
    exists n. split; [exact Hn1|]. split; [exact Hn2|]. split; [exact Hn2|]. exact Hall. }
  destruct (enc_frame_ok _ _ si _ _ _ _ _ Ef Hb eq_refl Hnum) as (Hwf & Hsp & Hsem & Hnu & Hbs).
  assert (Hhdr : h_rate_code (f_hdr f) = rc /\ h_bps_code (f_hdr f) = code_of_bps bps /\
                 h_rate (f_hdr f) = rate /\ h_bps (f_hdr f) = bps).
  { unfold enc_frame in Ef. rewrite Erc in Ef. destruct chans as [|c0 r]; [discriminate|].
    cbv zeta in Ef. injection Ef as <-. cbn. auto. }
  destruct Hhdr as (E1 & E2 & E3 & E4).
  assert (Hwf' : wf_frame None f = true).
  { unfold wf_frame in *. apply andb_prop in Hwf. destruct Hwf as [Hwf _].
    apply andb_prop in Hwf. destruct Hwf as [Hwf W3]. apply andb_prop in Hwf. destruct Hwf as [W1 W2].
    rewrite (wf_header_subset si (f_hdr f) W1) by congruence. rewrite W2, W3. reflexivity. }
  exists (f_hdr f). rewrite <- Hsem. split; [apply dec_frame_agree; auto|].
  rewrite Hsem. auto.
Qed.

(* ... and FlacStreamReader's scan finds it behind any bytes that do not contain the sync pattern *)
Theorem enc_frame_scanned o L rate bps number chans bytes rest rc g fuel :
  enc_frame_bytes o L rate bps number chans = Some bytes ->
  block_shape bps chans -> number <= MAX_FRAME_NUMBER ->
  code_of_rate rate = Some rc -> rc <> 0 -> code_of_bps bps <> 0 ->
  StreamRd_proofs.syncless g = true -> (length (g ++ bytes ++ rest) < fuel)%nat ->
  exists h, scan fuel (g ++ bytes ++ rest) = Ok (h, chans, rest) /\
            h_rate h = rate /\ h_bps h = bps /\ h_number h = number /\ h_bs h = block_len chans.
Proof.
  intros H Hs Hn Erc Hrc Hbc Hg Hf.
  destruct (enc_frame_self_describing _ _ _ _ _ _ _ rest _ H Hs Hn Erc Hrc Hbc) as (h & Hd & Hrest).
  exists h. split; [|exact Hrest].
  unfold enc_frame_bytes in H. destruct (enc_frame o L rate bps number chans) as [f|]; [|discriminate].
  destruct (write_frame_sync _ _ H) as (b2 & tl & -> & Hb2).
  cbn [app] in *. apply StreamRd_proofs.scan_skips_syncless; auto.
Qed.

(* ---------------- a whole raw stream: frames with independently varying parameters, sync-free bytes before,
   between and after them; FlacStreamReader's loop returns every frame, in order, then reports the end ---------------- *)
Record sitem := { it_garbage : list N; it_rate : N; it_bps : N; it_number : N; it_block : list (list Z) }.

Definition item_ok (it : sitem) : Prop :=
  syncless (it_garbage it) = true /\ block_shape (it_bps it) (it_block it) /\ it_number it <= MAX_FRAME_NUMBER /\
  (exists rc, code_of_rate (it_rate it) = Some rc /\ rc <> 0) /\ code_of_bps (it_bps it) <> 0.

Fixpoint subset_stream (o : eopts) (L : oracle) (items : list sitem) (trailer : list N) : option (list N) :=
  match items with
  | [] => Some trailer
  | it :: rest =>
      match enc_frame_bytes o L (it_rate it) (it_bps it) (it_number it) (it_block it), subset_stream o L rest trailer with
      | Some b, Some r => Some (it_garbage it ++ b ++ r)
      | _, _ => None
      end
  end.

Definition item_hdr_ok (it : sitem) (x : header * list Z) : Prop :=
  h_rate (fst x) = it_rate it /\ h_bps (fst x) = it_bps it /\ h_number (fst x) = it_number it /\
  h_bs (fst x) = block_len (it_block it) /\ snd x = interleave_frame (it_block it).

Lemma scan_syncless_eof : forall g fuel, syncless g = true -> scan fuel g = Err EEof.
Proof.
  induction g as [|a g IH]; intros fuel Hs; destruct fuel as [|fuel]; try reflexivity. cbn [scan].
  assert (Hs' : syncless g = true).
  { destruct g; [reflexivity|]. cbn [syncless] in Hs. apply andb_prop in Hs. tauto. }
  destruct (N.eqb_spec a 255) as [->|Na]; cbn [negb]; [|apply IH; exact Hs'].
  destruct g as [|b g']; [reflexivity|].
  cbn [syncless] in Hs. apply andb_prop in Hs. destruct Hs as [Hp _]. cbn [N.eqb Pos.eqb andb] in Hp. rewrite Hp.
  apply IH. exact Hs'.
Qed.

Lemma stream_read_all_acc : forall fuel bytes acc,
  stream_read_all fuel bytes acc = (rev acc ++ fst (stream_read_all fuel bytes []), snd (stream_read_all fuel bytes [])).
Proof.
  induction fuel as [|fuel IH]; intros bytes acc; cbn [stream_read_all]; [cbn; rewrite app_nil_r; reflexivity|].
  destruct (stream_read bytes) as [[[h chans] rest]|e|k]; cbn [fst snd rev app]; try (rewrite app_nil_r; reflexivity).
  destruct (length rest <? length bytes)%nat; [|cbn; rewrite app_nil_r; reflexivity].
  rewrite (IH rest ((h, interleave_frame chans) :: acc)), (IH rest [(h, interleave_frame chans)]).
  cbn [fst snd rev app]. rewrite <- app_assoc. reflexivity.
Qed.

Theorem subset_stream_read_back o L : forall items trailer bytes fuel,
  subset_stream o L items trailer = Some bytes -> Forall item_ok items -> syncless trailer = true ->
  (length items < fuel)%nat ->
  exists out, stream_read_all fuel bytes [] = (out, EndErr EEof) /\ Forall2 item_hdr_ok items out.
Proof.
  induction items as [|it items IH]; intros trailer bytes fuel H Hok Htr Hf; cbn [subset_stream] in H.
  - injection H as <-. destruct fuel as [|fuel]; [cbn in Hf; lia|]. cbn [stream_read_all].
    unfold stream_read. rewrite (scan_syncless_eof trailer _ Htr). exists []. split; [reflexivity|constructor].
  - destruct (enc_frame_bytes o L (it_rate it) (it_bps it) (it_number it) (it_block it)) as [b|] eqn:Eb; [|discriminate].
    destruct (subset_stream o L items trailer) as [r|] eqn:Er; [|discriminate]. injection H as <-.
    apply Forall_cons_iff in Hok. destruct Hok as [(Hg & Hsh & Hnum & (rc & Erc & Hrc) & Hbc) Hrest].
    destruct fuel as [|fuel]; [cbn in Hf; lia|]. cbn [length] in Hf.
    destruct (IH trailer r fuel Er Hrest Htr ltac:(lia)) as (out & Hout & Hall).
    cbn [stream_read_all]. unfold stream_read.
    destruct (enc_frame_scanned o L _ _ _ _ b r rc (it_garbage it) (S (length (it_garbage it ++ b ++ r))) Eb Hsh Hnum Erc Hrc Hbc Hg ltac:(lia))
      as (h & Hscan & Hr & Hb & Hn & Hbs).
    rewrite Hscan.
    assert (Hlt : (length r <? length (it_garbage it ++ b ++ r))%nat = true).
    { apply Nat.ltb_lt. rewrite !app_length. unfold enc_frame_bytes in Eb.
      destruct (enc_frame o L _ _ _ _) as [f|]; [|discriminate]. destruct (write_frame_sync _ _ Eb) as (b2 & tl & -> & _). cbn [length]. lia. }
    rewrite Hlt, stream_read_all_acc, Hout. cbn [fst snd rev app].
    exists ((h, interleave_frame (it_block it)) :: out). split; [reflexivity|].
    constructor; [|exact Hall]. unfold item_hdr_ok. cbn [fst snd]. auto.
Qed.
