(* Codec/Subframe.v — pieces shared by the structural parser (stream.rs) and the streaming
   decoder (decode.rs): subframe header, residual partition header, Rice residuals. *)
From FlacCodec Require Export Header.
Open Scope N_scope.

Inductive sf_type := TConst | TVerb | TFixed (o : N) | TLpc (o : N).

(* stream.rs:1382-1395 SubframeHeader::from_reader, 1537-1553 SubframeHeaderType::from_reader *)
Definition p_subframe_header : P (sf_type * N) :=
  pad <-- p_bit ;;
  _ <-- p_guard (negb pad) ESubframeHeader ;;
  t <-- p_rd 6 ;;
  ty <-- (if t =? 0 then pret TConst
          else if t =? 1 then pret TVerb
          else if (8 <=? t) && (t <=? 12) then pret (TFixed (t - 8))
          else if 32 <=? t then pret (TLpc (t - 31))
          else pfail ESubframeType) ;;
  w <-- p_bit ;;
  wasted <-- (if w then u <-- p_unary true ;; pret (u + 1) else pret 0) ;;
  pret (ty, wasted).

(* SignedBitCount::checked_sub: bps - wasted, requires (bps - 1) >= wasted *)
Definition effective_bps (bps wasted : N) : res N :=
  if wasted <=? bps - 1 then (if 1 <=? bps then Ok (bps - wasted) else Err EWastedBits) else Err EWastedBits.

(* stream.rs:1586-1601 ResidualPartitionHeader::from_reader; method 0: 4-bit parameter, escape 15;
   method 1: 5-bit parameter, escape 31 *)
Inductive part_hdr := HRice (k : N) | HEsc (w : N) | HZero.
Definition p_part_header (method : N) : P part_hdr :=
  let nb := if method =? 0 then 4%nat else 5%nat in
  let esc := if method =? 0 then 15 else 31 in
  k <-- p_rd nb ;;
  if k =? esc then (w <-- p_rd 5 ;; if w =? 0 then pret HZero else pret (HEsc w))
  else pret (HRice k).

(* decode.rs read_block / stream.rs ResidualPartition::from_reader: one Rice-coded residual.
   unsigned = (msb << rice) | lsb computed in u32 *)
Definition zigzag_decode (u : N) : Z :=
  if N.odd u then (- Z.of_N (u / 2) - 1)%Z else Z.of_N (u / 2).
Definition p_rice (k : N) : P Z :=
  msb <-- p_unary true ;;
  lsb <-- p_rd (N.to_nat k) ;;
  (* repo fix 62b22a6: msb > (u32::MAX >> rice) is ResidualOverflow (before: high bits silently lost) *)
  _ <-- p_guard (msb <=? (2 ^ 32 - 1) / 2 ^ k) EResidualOverflow ;;
  pret (zigzag_decode (msb * 2 ^ k + lsb)).

Definition p_partition (h : part_hdr) (n : nat) : P (list Z) :=
  match h with
  | HRice k => p_repeat n (p_rice k)
  | HEsc w => p_repeat n (p_rds (N.to_nat w))
  | HZero => pret (repeat 0%Z n)
  end.

(* SubframeHeaderType::FIXED_COEFFS, stream.rs:1528-1535 *)
Definition fixed_coeffs (order : N) : list Z :=
  match order with
  | 0 => [] | 1 => [1%Z] | 2 => [2; -1]%Z | 3 => [3; -3; 1]%Z | _ => [4; -6; 4; -1]%Z
  end.

(* qlp precision: read_count::<0b1111>() + 1, must be <= 15 *)
Definition p_qlp_precision : P N :=
  c <-- p_rd 4 ;; if c =? 15 then pfail EQlpPrecision else pret (c + 1).
(* qlp shift: 5-bit signed, negative rejected *)
Definition p_qlp_shift : P N :=
  v <-- p_rds 5 ;; if (v <? 0)%Z then pfail ENegativeShift else pret (Z.to_N v).
