(* Statement pins: every C06 / C07 property theorem re-stated in full, so that none can be weakened
   without this file failing to compile. *)
From FlacReaders Require Import Spec Props_C06 Props_C07.
Open Scope N_scope.

Check (C07_byte_reader : forall F, valid_file F -> forall ops,
  no_bseek ops -> Forall bop_ok (snd (byte_run F ops)) ->
  let atr := map (abs_b F) (snd (byte_run F ops)) in
  Forall (cur_ok (pcm_bytes F)) atr /\ chained 0 atr (bpos F (fst (byte_run F ops))) /\
  exactly_once (pcm_bytes F) atr).
Check (C07_sample_reader : forall F, valid_file F -> forall ops,
  no_sseek ops -> Forall sop_ok (snd (sample_run F ops)) ->
  let atr := map (abs_s F) (snd (sample_run F ops)) in
  Forall (cur_ok (pcm F)) atr /\ chained 0 atr (spos F (fst (sample_run F ops))) /\
  exactly_once (pcm F) atr).
Check (C07_channel_reader : forall F, valid_file F -> forall ops c,
  (c < N.to_nat (f_channels F))%nat ->
  no_cseek ops -> Forall cop_ok (snd (chan_run F ops)) ->
  let atr := map (abs_c F c) (snd (chan_run F ops)) in
  Forall (cur_ok (chan_pcm F c)) atr /\ chained 0 atr (cpos (fst (chan_run F ops))) /\
  exactly_once (chan_pcm F c) atr /\ Forall (chan_shape F) (snd (chan_run F ops))).
Check (C07_bytes_vs_samples : forall F,
  pcm_bytes F = ser (f_endian F) (bytes_per_sample (f_bps F)) (pcm F)).

Check (C06_byte_reader : forall F, valid_file F -> forall ops,
  Forall bop_ok (snd (byte_run F ops)) ->
  let atr := map (abs_b F) (snd (byte_run F ops)) in
  Forall (cur_ok (pcm_bytes F)) atr /\ chained 0 atr (bpos F (fst (byte_run F ops))) /\
  seeks_land (pcm_bytes F) atr /\ failed_seeks_safe (pcm_bytes F) atr).
Check (C06_sample_reader : forall F, valid_file F -> forall ops,
  Forall sop_ok (snd (sample_run F ops)) ->
  let atr := map (abs_s F) (snd (sample_run F ops)) in
  Forall (cur_ok (pcm F)) atr /\ chained 0 atr (spos F (fst (sample_run F ops))) /\
  seeks_land (pcm F) atr /\ failed_seeks_safe (pcm F) atr).
Check (C06_channel_reader : forall F, valid_file F -> forall ops c,
  (c < N.to_nat (f_channels F))%nat ->
  Forall cop_ok (snd (chan_run F ops)) ->
  let atr := map (abs_c F c) (snd (chan_run F ops)) in
  Forall (cur_ok (chan_pcm F c)) atr /\ chained 0 atr (cpos (fst (chan_run F ops))) /\
  seeks_land (chan_pcm F c) atr /\ failed_seeks_safe (chan_pcm F c) atr).
Check (C06_byte_invariant : forall F, valid_file F -> forall ops,
  Forall bop_ok (snd (byte_run F ops)) ->
  let r := fst (byte_run F ops) in
  br_buf r ++ bdata F (d_rest (br_dec r)) = dropN (bpos F r) (pcm_bytes F) /\
  bdata F (d_rest (br_dec r)) = dropN (d_cur (br_dec r) * bytes_per_pcm_frame F) (pcm_bytes F)).
Check (C06_sample_invariant : forall F, valid_file F -> forall ops,
  Forall sop_ok (snd (sample_run F ops)) ->
  let r := fst (sample_run F ops) in
  sr_buf r ++ sdata (d_rest (sr_dec r)) = dropN (spos F r) (pcm F) /\
  sdata (d_rest (sr_dec r)) = dropN (d_cur (sr_dec r) * f_channels F) (pcm F)).
Check (C06_channel_invariant : forall F, valid_file F -> forall ops c,
  (c < N.to_nat (f_channels F))%nat ->
  Forall cop_ok (snd (chan_run F ops)) ->
  let r := fst (chan_run F ops) in
  dropN (cr_consumed r) (nth c (d_buf (cr_dec r)) []) ++ cdata c (d_rest (cr_dec r)) =
    dropN (cpos r) (chan_pcm F c)).

Check (C07_ser_twos_complement : forall e bps xs,
  1 <= bps <= 32 -> Forall (fits (Z.of_N bps)) xs ->
  ser e (bytes_per_sample bps) xs = concat (map (twos_complement e (bytes_per_sample bps)) xs)).
Check (C07_channels_deinterleaved : forall F c, valid_file F -> (c < N.to_nat (f_channels F))%nat ->
  lenN (chan_pcm F c) = total_frames F /\ lenN (pcm F) = total_frames F * f_channels F /\
  forall i, (i < N.to_nat (total_frames F))%nat ->
    nth_error (chan_pcm F c) i = nth_error (pcm F) (i * N.to_nat (f_channels F) + c)).
Check (C06_sample_seek_beyond_end : forall F, valid_file F -> forall ops,
  Forall sop_ok (snd (sample_run F ops)) -> f_seekable F = true ->
  forall pre r s o post, snd (sample_run F ops) = pre ++ (r, SSeek s, o) :: post ->
    total_frames F < s ->
    (exists e, o = OErr e) /\
    (seek_free (map (abs_s F) post) ->
       delivered (pcm F) (map (abs_s F) post) = [] /\
       Forall (fun x => polls x = true -> eos x = true) (map (abs_s F) post))).
Check (C06_channel_seek_beyond_end : forall F, valid_file F -> forall ops c,
  (c < N.to_nat (f_channels F))%nat ->
  Forall cop_ok (snd (chan_run F ops)) -> f_seekable F = true ->
  forall pre r s o post, snd (chan_run F ops) = pre ++ (r, CSeek s, o) :: post ->
    total_frames F < s ->
    (exists e, o = OErr e) /\
    (seek_free (map (abs_c F c) post) ->
       delivered (chan_pcm F c) (map (abs_c F c) post) = [] /\
       Forall (fun x => polls x = true -> eos x = true) (map (abs_c F c) post))).

Check (C07_channel_error_hides_frame : forall F r e,
  f_rev F = Repaired -> snd (chan_fill_buf F r) = OErr e ->
  pcm_frames (d_buf (cr_dec (fst (chan_fill_buf F r)))) <= cr_consumed (fst (chan_fill_buf F r))).

(* the contract and the history-level notions the statements rest on, pinned too *)
Check (eq_refl : @exactly_once = fun A (data : list A) (atr : list (entry A)) =>
  forall pre e post, atr = pre ++ e :: post ->
    delivered data pre = takeN (e_pos e) data /\
    prefix (shown e) (dropN (e_pos e) data) /\
    (eos e = true ->
       delivered data pre = data /\ delivered data (e :: post) = [] /\
       Forall (fun x => polls x = true -> eos x = true) post)).
Check (eq_refl : @seeks_land = fun A (data : list A) (atr : list (entry A)) =>
  forall pre e post t, atr = pre ++ e :: post -> e_op e = ASeek (Some t) -> seek_free post ->
    (e_out e = AUnit \/ e_out e = APos t) /\ t <= lenN data /\
    forall a x b, post = a ++ x :: b ->
      delivered data a = takeN (lenN (delivered data a)) (dropN t data) /\
      e_pos x = t + lenN (delivered data a) /\
      prefix (shown x) (dropN (t + lenN (delivered data a)) data)).
Check (eq_refl : @failed_seeks_safe = fun A (data : list A) (atr : list (entry A)) =>
  forall pre e post, atr = pre ++ e :: post -> e_op e = ASeek None ->
    e_out e = AFail /\ (e_pos' e = e_pos e \/ e_pos' e = lenN data) /\
    (e_pos' e = lenN data -> seek_free post ->
       delivered data post = [] /\ Forall (fun x => polls x = true -> eos x = true) post)).
Check (eq_refl : @cur_ok = fun A (data : list A) (e : entry A) =>
    e_pos e <= lenN data /\ e_pos' e <= lenN data /\
    match e_op e, e_out e with
    | ARead n, AData xs =>
        prefix xs (dropN (e_pos e) data) /\ lenN xs <= n /\ e_pos' e = e_pos e + lenN xs /\
        (0 < n -> e_pos e < lenN data -> xs <> [])
    | AFill, AData xs =>
        prefix xs (dropN (e_pos e) data) /\ e_pos' e = e_pos e /\ (e_pos e < lenN data -> xs <> [])
    | AConsume k, AUnit => e_pos' e = e_pos e + k
    | ANext, AItem (Some x) => prefix [x] (dropN (e_pos e) data) /\ e_pos' e = e_pos e + 1
    | ANext, AItem None => e_pos e = lenN data /\ e_pos' e = e_pos e
    | ASeek (Some t), AUnit => t <= lenN data /\ e_pos' e = t
    | ASeek (Some t), APos q => q = t /\ t <= lenN data /\ e_pos' e = t
    | ASeek None, AFail => e_pos' e = e_pos e \/ e_pos' e = lenN data
    | _, _ => False
    end).
