(* Driver for the extracted writers model (coq/writers).  Reads one case per line on stdin
   (the "m" field the harness printed), runs the extracted functions, prints one canonical
   result line per case.  Case kinds: C15 (constructor / option validation + length contract),
   C08 (blocks emitted and MD5 input for a chunk script), C09 (finished metadata region from
   frame lengths).  MD5 itself is OCaml's Digest (the model takes it as a parameter). *)
open Writers_model

let rec pos_of_int n =
  if n = 1 then XH else if n land 1 = 1 then XI (pos_of_int (n lsr 1)) else XO (pos_of_int (n lsr 1))
let n_of_int n = if n = 0 then N0 else Npos (pos_of_int n)
let rec int_of_pos = function XH -> 1 | XO p -> 2 * int_of_pos p | XI p -> 2 * int_of_pos p + 1
let int_of_n = function N0 -> 0 | Npos p -> int_of_pos p
let z_of_int i = if i = 0 then Z0 else if i > 0 then Zpos (pos_of_int i) else Zneg (pos_of_int (-i))
let int_of_z = function Z0 -> 0 | Zpos p -> int_of_pos p | Zneg p -> - (int_of_pos p)

let ten = n_of_int 10
(* decimal strings of any size (u64::MAX does not fit an OCaml int) *)
let n_of_string s =
  let acc = ref N0 in
  String.iter (fun c -> acc := N.add (N.mul !acc ten) (n_of_int (Char.code c - 48))) s;
  !acc
let string_of_n v =
  if v = N0 then "0"
  else begin
    let b = Buffer.create 20 in
    let rec go v acc = if v = N0 then acc else let (q, r) = N.div_eucl v ten in go q (string_of_int (int_of_n r) :: acc) in
    List.iter (Buffer.add_string b) (go v []);
    Buffer.contents b
  end

let hex_of_bytes (l : n list) =
  let b = Buffer.create 64 in
  List.iter (fun x -> Buffer.add_string b (Printf.sprintf "%02x" (int_of_n x))) l;
  Buffer.contents b
let bytes_of_hex s =
  List.init (String.length s / 2) (fun i -> n_of_int (int_of_string ("0x" ^ String.sub s (2 * i) 2)))
let string_of_nlist (l : n list) =
  let b = Bytes.create (List.length l) in
  List.iteri (fun i x -> Bytes.set b i (Char.chr (int_of_n x))) l;
  Bytes.to_string b
let md5_real (l : n list) : n list =
  let d = Digest.string (string_of_nlist l) in
  List.init 16 (fun i -> n_of_int (Char.code d.[i]))

let split_on c s = if s = "" then [] else String.split_on_char c s
let fields line =
  List.filter_map
    (fun tok -> match String.index_opt tok '=' with
       | Some i -> Some (String.sub tok 0 i, String.sub tok (i + 1) (String.length tok - i - 1))
       | None -> None)
    (split_on ' ' line)
let get fs k = try List.assoc k fs with Not_found -> "-"

let cls = function Ok _ -> "ok" | Err _ -> "err" | Panic _ -> "panic"

let profile_of s = if s = "debug" then Debug else Release

(* ---- options from the tag fields bs= lpc= po= pad= seek= fast= *)
let build_options fs : options res =
  let o = if get fs "fast" = "1" then options_fast else options_default in
  let ( >>= ) x f = match x with Ok a -> f a | Err e -> Err e | Panic k -> Panic k in
  (match get fs "bs" with "-" -> Ok o | v -> options_block_size o (n_of_string v)) >>= fun o ->
  (match get fs "lpc" with
   | "-" -> Ok o
   | "none" -> options_max_lpc_order o None
   | v -> options_max_lpc_order o (Some (n_of_string v))) >>= fun o ->
  (match get fs "po" with "-" -> Ok o | v -> options_max_partition_order o (n_of_string v)) >>= fun o ->
  (match get fs "pad" with
   | "-" -> Ok o
   | "none" -> Ok (options_no_padding o)
   | v -> options_padding o (n_of_string v)) >>= fun o ->
  (match get fs "seek" with
   | "-" -> Ok o
   | "none" -> Ok (options_no_seektable o)
   | v ->
     let n = n_of_string (String.sub v 2 (String.length v - 2)) in
     if v.[0] = 's' then Ok (options_seektable_seconds o n) else Ok (options_seektable_frames o n))

let total_of fs = match get fs "total" with "none" -> None | v -> Some (n_of_string v)

type anyw = WS of swriter | WB of bwriter | WC of cwriter

let wkind_of = function "s" -> WSample | "c" -> WChannel | _ -> WByte

let new_writer p kind prefix o rate bps ch total : anyw res =
  match kind with
  | "s" -> (match sample_new p prefix o rate bps ch total with Ok w -> Ok (WS w) | Err e -> Err e | Panic k -> Panic k)
  | "c" -> (match channel_new p prefix o rate bps ch total with Ok w -> Ok (WC w) | Err e -> Err e | Panic k -> Panic k)
  | "bl" -> (match byte_new p LE prefix o rate bps ch total with Ok w -> Ok (WB w) | Err e -> Err e | Panic k -> Panic k)
  | _ -> (match byte_new p BE prefix o rate bps ch total with Ok w -> Ok (WB w) | Err e -> Err e | Panic k -> Panic k)

let zeros_z n = List.init n (fun _ -> Z0)
let zeros_n n = List.init n (fun _ -> N0)

(* chunk of n natural units of zeros *)
let write_zeros enc p w ch n : anyw res =
  match w with
  | WS s -> (match sample_write enc p s (zeros_z n) with Ok s -> Ok (WS s) | Err e -> Err e | Panic k -> Panic k)
  | WB b -> (match byte_write enc p b (zeros_n n) with Ok b -> Ok (WB b) | Err e -> Err e | Panic k -> Panic k)
  | WC c -> (match channel_write enc p c (List.init ch (fun _ -> zeros_z n)) with Ok c -> Ok (WC c) | Err e -> Err e | Panic k -> Panic k)

let finalize enc md5 p w : finished res =
  match w with
  | WS s -> sample_finalize enc md5 p s
  | WB b -> byte_finalize enc md5 p b
  | WC c -> channel_finalize enc md5 p c

let opt_n_str = function None -> "0" | Some v -> string_of_n v

(* ------------------------------------------------------------------ C15 *)
let run_c15 fs =
  let p = profile_of (get fs "profile") in
  let out = Buffer.create 64 in
  let add s = if Buffer.length out > 0 then Buffer.add_char out ' '; Buffer.add_string out s in
  (match build_options fs with
   | (Err _ | Panic _) as r -> add ("opt:" ^ cls r)
   | Ok o ->
     add "opt:ok";
     let kind = get fs "w" in
     let rate = n_of_string (get fs "rate") and bps = n_of_string (get fs "bps") and ch = n_of_string (get fs "ch") in
     let total = total_of fs in
     let script = List.map int_of_string (split_on ',' (let s = get fs "script" in if s = "-" then "" else s)) in
     let fin = get fs "fin" = "1" in
     (* a placeholder table of millions of points is not built when nothing is written *)
     let huge = match total with
       | Some t -> (match N.div_eucl t o.o_block_size with (q, _) -> N.leb (n_of_int 3000000) q) && o.o_seektable_interval <> None
       | None -> false in
     let bigpad = List.exists (function BPadding s -> N.leb (n_of_int 200000) s | _ -> false) o.o_metadata in
     if (huge || bigpad) && script = [] && not fin then begin
       (* class of the constructor = class of its argument checks (Params_proofs.new_ok_iff) *)
       add ("new:" ^ cls (new_validate (wkind_of kind) rate bps ch total));
       (match new_validate (wkind_of kind) rate bps ch total with Ok _ -> add "w:-" | _ -> ())
     end else begin
       let enc n _ = Ok (zeros_n (11 + (int_of_n n mod 5))) in
       match new_writer p kind [] o rate bps ch total with
       | (Err _ | Panic _) as r -> add ("new:" ^ cls r)
       | Ok w ->
         add "new:ok";
         let chn = int_of_n ch in
         let rec go w script acc =
           match script with
           | [] -> (Some w, List.rev acc)
           | n :: r ->
             (match write_zeros enc p w chn n with
              | Ok w' -> go w' r ("ok" :: acc)
              | Err _ -> (None, List.rev ("err" :: acc))
              | Panic _ -> (None, List.rev ("panic" :: acc))) in
         let (w', outs) = go w script [] in
         add ("w:" ^ (if outs = [] then "-" else String.concat "," outs));
         (match w' with
          | None -> add "fin:-"; add "rec:-"
          | Some w' ->
            if fin then begin
              match finalize enc md5_real p w' with
              | Ok f -> add "fin:ok"; add ("rec:" ^ opt_n_str f.f_si.si_total)
              | r -> add ("fin:" ^ cls r); add "rec:-"
            end)
     end);
  print_endline (Buffer.contents out)

(* ------------------------------------------------------------------ C08 *)
let ints_of s = List.map int_of_string (split_on ',' (if s = "-" then "" else s))

let rec take_drop n l = if n = 0 then ([], l) else match l with [] -> ([], []) | x :: r -> let (a, b) = take_drop (n - 1) r in (x :: a, b)

let string_of_block (b : block) =
  String.concat "|" (List.map (fun c -> String.concat "," (List.map (fun z -> string_of_int (int_of_z z)) c)) b)

let run_c08 fs =
  let p = profile_of (get fs "profile") in
  let kind = get fs "w" in
  let bps = n_of_string (get fs "bps") and ch = n_of_string (get fs "ch") in
  let chn = int_of_n ch in
  let o = match options_block_size options_default (n_of_string (get fs "bs")) with Ok o -> options_no_seektable (options_no_padding o) | _ -> options_default in
  let total = total_of fs in
  let chunks = ints_of (get fs "chunks") in
  (* the frame bytes are irrelevant here; give each frame a distinct length *)
  let enc n _ = Ok (zeros_n (11 + (int_of_n n mod 5))) in
  let res =
    match new_writer p kind [] o (n_of_int 44100) bps ch total with
    | Err _ -> "err" | Panic _ -> "panic"
    | Ok w ->
      let data_z = lazy (List.map z_of_int (ints_of (get fs "pcm"))) in
      let data_b = lazy (bytes_of_hex (get fs "data")) in
      let rec go w chunks dz db =
        match chunks with
        | [] -> Ok w
        | n :: r ->
          (match w with
           | WS s -> let (c, dz') = take_drop n dz in
             (match sample_write enc p s c with Ok s -> go (WS s) r dz' db | Err e -> Err e | Panic k -> Panic k)
           | WB b -> let (c, db') = take_drop n db in
             (match byte_write enc p b c with Ok b -> go (WB b) r dz db' | Err e -> Err e | Panic k -> Panic k)
           | WC cw -> let (c, dz') = take_drop (n * chn) dz in
             let chans = List.init chn (fun k -> List.filteri (fun i _ -> i mod chn = k) c) in
             (match channel_write enc p cw chans with Ok cw -> go (WC cw) r dz' db | Err e -> Err e | Panic k -> Panic k)) in
      let dz = (match w with WB _ -> [] | _ -> Lazy.force data_z) and db = (match w with WB _ -> Lazy.force data_b | _ -> []) in
      (match go w chunks dz db with
       | Err _ -> "err" | Panic _ -> "panic"
       | Ok w ->
         (match finalize enc md5_real p w with
          | Err _ -> "err" | Panic _ -> "panic"
          | Ok f ->
            let e = f.f_enc in
            Printf.sprintf "ok total=%s md5=%s blocks=%s"
              (opt_n_str f.f_si.si_total)
              (match f.f_si.si_md5 with Some d -> hex_of_bytes d | None -> "-")
              (String.concat ";" (List.map string_of_block (emitted e))))) in
  print_endline res

(* ------------------------------------------------------------------ C09 *)
let string_of_point = function
  | Placeholder -> "P"
  | Defined (s, b, n) -> Printf.sprintf "%s:%s:%s" (string_of_n s) (string_of_n b) (string_of_n n)

let run_c09 fs =
  let p = profile_of (get fs "profile") in
  match build_options fs with
  | Err _ -> print_endline "opt:err" | Panic _ -> print_endline "opt:panic"
  | Ok o ->
    let kind = get fs "w" in
    let rate = n_of_string (get fs "rate") and bps = n_of_string (get fs "bps") and ch = n_of_string (get fs "ch") in
    let chn = int_of_n ch in
    let total = total_of fs in
    let prefix = zeros_n (int_of_string (get fs "prefix")) in
    let flens = Array.of_list (ints_of (get fs "flens")) in
    let digest = bytes_of_hex (get fs "md5") in
    let enc n _ = let i = int_of_n n in if i < Array.length flens then Ok (zeros_n flens.(i)) else Ok (zeros_n 1) in
    let md5 _ = digest in
    let chunks = ints_of (get fs "chunks") in
    (match new_writer p kind prefix o rate bps ch total with
     | Err _ -> print_endline "new:err" | Panic _ -> print_endline "new:panic"
     | Ok w ->
       let meta0 = (match w with WS s -> s.sw_enc.e_meta | WB b -> b.bw_enc.e_meta | WC c -> c.cw_enc.e_meta) in
       let rec go w = function
         | [] -> Ok w
         | n :: r -> (match write_zeros enc p w chn n with Ok w' -> go w' r | Err e -> Err e | Panic k -> Panic k) in
       (match go w chunks with
        | Err _ -> print_endline "write:err" | Panic _ -> print_endline "write:panic"
        | Ok w ->
          (match finalize enc md5 p w with
           | Err _ -> print_endline (Printf.sprintf "fin:err meta0=%d" (List.length meta0))
           | Panic _ -> print_endline "fin:panic"
           | Ok f ->
             let e = f.f_enc in
             let start = List.length e.e_prefix in
             let mlen = int_of_n (meta_len f.f_blocks) in
             let (_, after) = take_drop start f.f_stream in
             let (meta, _) = take_drop mlen after in
             let table = List.fold_left (fun acc b -> match b with BSeekTable pts -> Some pts | _ -> acc) None f.f_blocks in
             let frames = List.map2 (fun b bytes -> (block_len b, n_of_int (List.length bytes))) (emitted e) (List.rev e.e_frames_rev) in
             let regen = match e.e_interval with
               | None -> "-"
               | Some iv -> (match generate_seektable p rate frames iv with
                   | Ok pts -> String.concat "," (List.map string_of_point pts)
                   | Err _ -> "err" | Panic _ -> "panic") in
             print_endline (Printf.sprintf "fin:ok meta0=%d metalen=%d len=%d points=%s regen=%s meta=%s"
                              (List.length meta0) mlen (List.length f.f_stream)
                              (match table with None -> "-" | Some pts -> String.concat "," (List.map string_of_point pts))
                              regen (hex_of_bytes meta)))))

(* ------------------------------------------------------------------ guards of the codec core *)
let run_guard fs =
  let p = profile_of (get fs "profile") in
  let a = autocorrelate_guard p (n_of_string (get fs "lpc")) (n_of_string (get fs "len")) in
  let b = best_partitions_guard (n_of_string (get fs "bsz")) (n_of_string (get fs "res")) (n_of_string (get fs "po")) in
  print_endline (Printf.sprintf "lpc:%s po:%s" (cls a) (cls b))

let () =
  try
    while true do
      let line = String.trim (input_line stdin) in
      if line <> "" then begin
        let fs = fields line in
        (try
           if String.length line >= 3 then
             (match String.sub line 0 3 with
              | "C15" -> run_c15 fs
              | "C08" -> run_c08 fs
              | "C09" -> run_c09 fs
              | "GRD" -> run_guard fs
              | _ -> print_endline "?")
           else print_endline "?"
         with e -> print_endline ("driver-exception " ^ Printexc.to_string e))
      end
    done
  with End_of_file -> ()
