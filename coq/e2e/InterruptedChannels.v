(* E2E/InterruptedChannels.v — C14 for FlacChannelWriter, by equality of the Encoder state with the sample writer's after
   the interleaving of everything written (writers area, Cross_writes.channel_write_is_sample_write). *)
From Coq Require Import List NArith ZArith Lia.
From FlacBase Require Import Res.
From FlacCodec Require Ast Stream Header Wf Enc Enc_proofs Dec Progress.
From FlacWriters Require Import Meta Params Params_proofs Finalize Writers Lists_proofs Writers_proofs Bytes_proofs Cross_proofs Cross_writes New_proofs.
From FlacE2E Require Import Bridge E2E InterruptedE2E.
From FlacE2E Require Transfer.
Import ListNotations.
Open Scope N_scope.

Module CS := FlacCodec.Stream.
Module EP := FlacCodec.Enc_proofs.
Module E := FlacCodec.Enc.

Theorem channel_writer_interrupted : forall o L p rate bps wo ch tc wc chunks wc',
  options_wf wo ->
  channel_new p [] wo rate bps ch tc = Ok wc ->
  fold_res (channel_write (encB o L rate bps) p) wc chunks = Ok wc' ->
  Forall (chunk_ok (N.to_nat ch)) chunks ->
  let pcm := concat (multizip (cconcat (N.to_nat ch) chunks)) in
  forallb (FlacCodec.Wf.fits bps) pcm = true ->
  N.of_nat (length pcm) < 2 ^ 36 ->
  let si := conv_si (e_si (cw_enc wc)) in
  let K := N.to_nat (ch * o_block_size wo) in
  exists bl,
    concat (map CS.interleave_frame bl) = firstn (K * (length pcm / K)) pcm /\
    forall b gb m,
      EP.block_ok si bps b -> E.block_len b = o_block_size wo ->
      E.enc_frame_bytes o L rate bps (N.of_nat (length bl)) b = Some gb -> (m < length gb)%nat ->
      match si_total (e_si (cw_enc wc)) with Some t => EP.blocks_samples bl + E.block_len b <= t | None => True end ->
      match CS.dec_stream (stream (cw_enc wc') ++ firstn m gb) with
      | Some (si', out, en') => si' = si /\ out = map CS.interleave_frame bl /\ FlacCodec.Progress.is_end_panic en' = false
      | None => False
      end.
Proof.
  intros o L p rate bps wo ch tc wc chunks wc' Hwf Hc Hw Hchunks pcm Hfits Hlen si K.
  pose proof (channel_new_wf p [] wo rate bps ch tc wc Hwf Hc) as Hcw.
  destruct (FlacE2E.Transfer.channel_new_sample_new p wo rate bps ch tc wc Hc) as (ts & ws & Hs & Ht).
  pose proof Hwf as ((Hbs16 & _) & _).
  pose proof Hs as Hs0.
  unfold channel_new in Hc. apply bind_ok in Hc. destruct Hc as (bps1 & Hb1 & Hc). apply bind_ok in Hc. destruct Hc as (t1 & Ht1 & Hc).
  apply bind_ok in Hc. destruct Hc as (e1 & He1 & Hc). injection Hc as <-.
  unfold sample_new in Hs. apply bind_ok in Hs. destruct Hs as (bps2 & Hb2 & Hs). apply bind_ok in Hs. destruct Hs as (t2 & Ht2 & Hs).
  apply bind_ok in Hs. destruct Hs as (e2 & He2 & Hs). injection Hs as <-.
  assert (Eb : bps1 = bps /\ bps2 = bps).
  { unfold signed_bit_count_32 in Hb1, Hb2. destruct ((1 <=? bps) && (bps <=? 32)); [|discriminate].
    injection Hb1 as <-. injection Hb2 as <-. auto. }
  destruct Eb as (-> & ->).
  assert (Hch : 1 <= ch <= 8 /\ si_channels (e_si e2) = ch).
  { unfold encoder_new in He2. apply bind_ok in He2. destruct He2 as ([] & Hv & He2). unfold encoder_new_validate in Hv.
    destruct (rate <? 1048576); [|discriminate]. destruct ((1 <=? ch) && (ch <=? 8)) eqn:Eq; [|discriminate].
    apply andb_prop in Eq. destruct Eq as [A B]. apply N.leb_le in A, B.
    apply bind_ok in He2. destruct He2 as (bl & _ & He2). apply bind_ok in He2. destruct He2 as (meta & _ & He2). injection He2 as <-.
    cbn [e_si si_channels]. auto. }
  destruct Hch as [Hch Hsi].
  assert (Et : t1 = t2).
  { subst ts. destruct tc as [s|]; cbn [option_map] in Ht2; [|cbn in Ht1, Ht2; congruence].
    unfold channel_total in Ht1. unfold sample_total in Ht2.
    assert (E1 : exact_div (ch * s) ch = Some s).
    { unfold exact_div. destruct (N.eqb_spec ch 0); [lia|]. cbn [negb andb]. rewrite (N.mul_comm ch s), N.mod_mul, N.div_mul by lia. reflexivity. }
    rewrite E1 in Ht2. destruct (s =? 0); congruence. }
  subst t2. rewrite He1 in He2. injection He2 as <-.
  set (wc0 := {| cw_enc := e1; cw_bufs := repeat [] (N.to_nat ch); cw_channels := ch; cw_frame_sample_size := o_block_size wo;
                 cw_bytes_per_sample := bytes_per_sample_of bps |}) in *.
  assert (Ecw : cw_chan wc0 = N.to_nat ch) by (unfold cw_chan; cbn; rewrite Hsi; reflexivity).
  rewrite (channel_write_concat (encB o L rate bps) p chunks wc0 Hcw) in Hw by (rewrite Ecw; exact Hchunks).
  rewrite Ecw in Hw.
  destruct (cconcat_ok (N.to_nat ch) chunks Hchunks) as [Lall [mm Uall]].
  pose proof (channel_write_is_sample_write (encB o L rate bps) p e1 ch (bytes_per_sample_of bps) (o_block_size wo) _ mm Hch ltac:(lia) Hsi Lall Uall) as Eq.
  cbv zeta in Eq. fold wc0 in Eq. rewrite Hw in Eq. cbn [rmap bind] in Eq. fold pcm in Eq.
  match type of Eq with _ = rmap _ (sample_write _ _ ?w _) => set (ws := w) in * end.
  destruct (sample_write (encB o L rate bps) p ws pcm) as [ws'| |] eqn:Esw; cbn [rmap bind] in Eq; try discriminate.
  injection Eq as Eenc.
  assert (Hfold : fold_res (sample_write (encB o L rate bps) p) ws [pcm] = Ok ws') by (cbn [fold_res]; rewrite Esw; reflexivity).
  assert (Hcat : concat [pcm] = pcm) by (cbn; apply app_nil_r).
  pose proof (sample_writer_interrupted o L p rate bps wo ch ts ws [pcm] ws' Hwf Hs0 Hfold) as SI.
  rewrite Hcat in SI. specialize (SI Hfits Hlen). cbv zeta in SI.
  cbn [sw_enc ws] in SI. cbn [cw_enc wc0] in *. rewrite <- Eenc in SI. exact SI.
Qed.
