(* metadata/Cue_proofs2.v — C20, second part: the track ranges of an imported sheet, and
   decorated renderings satisfy the hypothesis of the import theorem. *)
From FlacMeta Require Import Bytes Bytes_proofs Blocks Blocks_proofs Cue Accessors CueRender Cue_proofs.
Open Scope N_scope.

(* ================================================================================== *)
(* track ranges: INDEX 01 to the next INDEX 01, the last to the stream length          *)
(* ================================================================================== *)
(* position of INDEX 01 of a track, in samples *)
Definition index01_samples (t : cue_track) : N :=
  match ct_indices t with
  | i0 :: r => if ci_num i0 =? 1 then ci_samples i0
               else match r with i1 :: _ => ci_samples i1 | [] => 0 end
  | [] => 0
  end.

Lemma track_of_index01 t trk : wf_track t -> track_of t = Some trk ->
  sat_add64 (tr_off trk) (ix_off (iv_01 (tr_ix trk))) = index01_samples t.
Proof.
  intros (Wix & Wshape & _) H. unfold track_of in H. unfold index01_samples.
  destruct (ct_indices t) as [|i0 r] eqn:E; [contradiction|]. destruct Wshape as (Hn0 & Hch & _).
  inversion Wix as [|? ? W0 Wr]; subst.
  cbn [map indexvec_try_from index_of ix_num] in H.
  destruct Hn0 as [H1|[H0 Hr]].
  - rewrite H1 in *. change (1 =? 0) with false in H. change (1 =? 1) with true in *. cbv iota in H.
    injection H as <-. cbn [tr_off tr_ix iv_01 ix_off index_of]. rewrite N.sub_diag. unfold sat_add64.
    destruct W0 as (_ & _ & Hm). rewrite N.add_0_r. apply N.min_l. exact Hm.
  - rewrite H0 in *. change (0 =? 0) with true in H. change (0 =? 1) with false. cbv iota in H.
    destruct r as [|i1 r']; [congruence|]. cbn [index_chain] in Hch. destruct Hch as (Hlt & Hn1 & _).
    cbn [map ix_num index_of] in H. rewrite Hn1 in H. change (0 + 1 =? 1) with true in H. cbv iota in H.
    injection H as <-. cbn [tr_off tr_ix iv_01 ix_off index_of]. inversion Wr as [|? ? W1 _]; subst.
    destruct W1 as (_ & _ & Hm). unfold sat_add64.
    assert (ci_samples i0 <= ci_samples i1) by (rewrite !samples_frames; lia).
    replace (ci_samples i0 + (ci_samples i1 - ci_samples i0)) with (ci_samples i1) by lia.
    apply N.min_l. exact Hm.
Qed.

Lemma tracks_of_offsets : forall ts trks, Forall wf_track ts -> tracks_of ts = Some trks ->
  map (fun t => sat_add64 (tr_off t) (ix_off (iv_01 (tr_ix t)))) trks = map index01_samples ts.
Proof.
  induction ts as [|t r IH]; intros trks W H; cbn [tracks_of] in H.
  - injection H as <-. reflexivity.
  - inversion W as [|? ? Wt Wr]; subst. destruct (track_of t) as [trk|] eqn:Et; [|discriminate].
    destruct (tracks_of r) as [trks'|] eqn:Er; [|discriminate]. injection H as <-.
    cbn [map]. rewrite (track_of_index01 t trk Wt Et), (IH trks' Wr eq_refl). reflexivity.
Qed.

Theorem import_ranges c total b : wf_cue c -> block_of c total = Some b ->
  track_sample_ranges b = pair_up (map index01_samples (cu_tracks c) ++ [total]).
Proof.
  intros (_ & _ & Hsheet & _) H. unfold block_of in H.
  destruct (tracks_of (cu_tracks c)) as [trks|] eqn:E; [|discriminate]. injection H as <-.
  unfold track_sample_ranges, track_offsets. cbn [cue_tracks cue_leadout lo_off].
  rewrite (tracks_of_offsets (cu_tracks c) trks (sheet_ok_wf _ _ _ Hsheet) E). reflexivity.
Qed.

(* ================================================================================== *)
(* lines and trim of decorated text                                                    *)
(* ================================================================================== *)
Definition all_ws (l : list N) : Prop := Forall (fun c => is_ws c = true) l.
Definition no_nl (l : list N) : Prop := ~ In 10 l.
(* no white space at either end *)
Definition clean (l : list N) : Prop := drop_ws l = l /\ drop_ws (rev l) = rev l.

Lemma drop_ws_all l : all_ws l -> drop_ws l = [].
Proof. induction 1 as [|c l Hc Hl IH]; [reflexivity|]. cbn [drop_ws]. rewrite Hc. exact IH. Qed.
Lemma drop_ws_app_ws a b : all_ws a -> drop_ws (a ++ b) = drop_ws b.
Proof. induction 1 as [|c l Hc Hl IH]; [reflexivity|]. cbn [app drop_ws]. rewrite Hc. exact IH. Qed.
Lemma drop_ws_fixed_app l b : drop_ws l = l -> l <> [] -> drop_ws (l ++ b) = l ++ b.
Proof.
  destruct l as [|c l']; [congruence|]. intros H _. cbn [app drop_ws] in *.
  destruct (is_ws c); [|reflexivity]. exfalso.
  assert (L : (length (drop_ws l') <= length l')%nat).
  { clear. induction l' as [|x q IH]; cbn [drop_ws length]; [lia|]. destruct (is_ws x); cbn [length]; lia. }
  rewrite H in L. cbn [length] in L. lia.
Qed.
Lemma all_ws_rev l : all_ws l -> all_ws (rev l).
Proof. apply Forall_rev. Qed.

Lemma trim_decorated a l b : all_ws a -> all_ws b -> clean l -> trim (a ++ l ++ b) = l.
Proof.
  intros Ha Hb [C1 C2]. unfold trim. rewrite drop_ws_app_ws by exact Ha.
  destruct l as [|c l'].
  - cbn [app]. rewrite drop_ws_all by exact Hb. reflexivity.
  - rewrite drop_ws_fixed_app by (auto; discriminate). rewrite rev_app_distr.
    rewrite drop_ws_app_ws by (apply all_ws_rev, Hb). rewrite C2. apply rev_involutive.
Qed.

Lemma strip_cr_snoc l : strip_cr (l ++ [13]) = l.
Proof. unfold strip_cr. rewrite rev_app_distr. cbn [rev app]. apply rev_involutive. Qed.

Lemma split_lines_line : forall x acc rest, no_nl x ->
  split_lines acc (x ++ 10 :: rest) = strip_cr (rev acc ++ x) :: split_lines [] rest.
Proof.
  induction x as [|c x IH]; intros acc rest H.
  - cbn [app split_lines]. change (10 =? 10) with true. cbv iota. rewrite app_nil_r. reflexivity.
  - cbn [app split_lines]. destruct (N.eqb_spec c 10) as [->|_]; [exfalso; apply H; left; reflexivity|].
    rewrite IH by (intros Hin; apply H; right; exact Hin). cbn [rev]. rewrite <- app_assoc. reflexivity.
Qed.

Lemma no_nl_app a b : no_nl a -> no_nl b -> no_nl (a ++ b).
Proof. unfold no_nl. intros Ha Hb Hin. apply in_app_or in Hin. tauto. Qed.
Lemma all_ws_no_nl_trail l : Forall (fun c => is_ws c = true /\ c <> 10) l -> all_ws l /\ no_nl l.
Proof.
  intros H. split; [eapply Forall_impl; [|exact H]; cbn; tauto|].
  intros Hin. rewrite Forall_forall in H. destruct (H 10 Hin) as [_ Hne]. congruence.
Qed.

(* every decorated line comes back as its content *)
Lemma lines_render : forall dls,
  Forall (fun dl => wf_deco (fst dl) /\ clean (snd dl) /\ no_nl (snd dl)) dls ->
  map trim (lines (flat_map decorate_line dls)) = map snd dls.
Proof.
  unfold lines. induction 1 as [|[d l] dls (Wd & Cl & Nl) Hr IH]; [reflexivity|].
  cbn [flat_map map snd fst] in *. unfold decorate_line at 1. cbn [fst snd].
  destruct Wd as [Wi Wt]. apply all_ws_no_nl_trail in Wi, Wt. destruct Wi as [Ai Ni]. destruct Wt as [At Nt].
  destruct (d_crlf d).
  - replace ((d_indent d ++ l ++ d_trail d ++ [13; 10]) ++ flat_map decorate_line dls)
      with ((d_indent d ++ l ++ d_trail d ++ [13]) ++ 10 :: flat_map decorate_line dls)
      by (rewrite <- !app_assoc; reflexivity).
    rewrite split_lines_line.
    + cbn [rev app map]. rewrite !app_assoc, strip_cr_snoc. rewrite <- !app_assoc.
      rewrite trim_decorated by assumption. f_equal. exact IH.
    + apply no_nl_app; [exact Ni|]. apply no_nl_app; [exact Nl|]. apply no_nl_app; [exact Nt|].
      intros [E|[]]. discriminate.
  - replace ((d_indent d ++ l ++ d_trail d ++ [10]) ++ flat_map decorate_line dls)
      with ((d_indent d ++ l ++ d_trail d) ++ 10 :: flat_map decorate_line dls)
      by (rewrite <- !app_assoc; reflexivity).
    rewrite split_lines_line by (apply no_nl_app; [exact Ni|]; apply no_nl_app; assumption).
    cbn [rev app map]. f_equal; [|exact IH].
    (* a trailing '\r' of the decoration may be stripped; it is white space anyway *)
    set (y := d_indent d ++ l ++ d_trail d). unfold strip_cr.
    destruct (rev y) as [|c q] eqn:Ey; [unfold y; apply trim_decorated; assumption|].
    destruct (N.eq_dec c 13) as [->|Hc].
    + (* y = rev q ++ [13] *)
      assert (Hy : y = rev q ++ [13]) by (rewrite <- (rev_involutive y), Ey; reflexivity).
      (* the 13 is the last character of the trailing decoration or of the indentation *)
      assert (Ht : trim (rev q) = trim y).
      { rewrite Hy. unfold trim. 
        assert (G : forall z, rev (drop_ws (rev (drop_ws (z ++ [13])))) = rev (drop_ws (rev (drop_ws z)))).
        { intros z. assert (D : drop_ws (z ++ [13]) = drop_ws z \/ exists w, drop_ws z = w /\ drop_ws (z ++ [13]) = w ++ [13]).
          { induction z as [|a z IHz]; [left; reflexivity|]. cbn [app drop_ws]. destruct (is_ws a); [exact IHz|].
            right. eexists. split; reflexivity. }
          destruct D as [D|(w & D1 & D2)]; [rewrite D; reflexivity|].
          rewrite D2, D1, rev_app_distr. cbn [rev app drop_ws]. change (is_ws 13) with true. cbv iota. reflexivity. }
        symmetry. apply G. }
      destruct c; try reflexivity. 
      change (match 13 with 13 => rev q | _ => y end) with (rev q).
      rewrite Ht. unfold y. apply trim_decorated; assumption.
    + assert (E : match c with 13 => rev q | _ => y end = y).
      { destruct c as [|p]; [reflexivity|]. do 4 (destruct p as [p|p|]; try reflexivity). congruence. }
      rewrite E. unfold y. apply trim_decorated; assumption.
Qed.
