"""C15 — writer APIs validate their parameters and honour the declared length contract.

Proof: coq/writers (Params_proofs.v: option setters and constructor argument checks of all three
writers are total, succeed exactly on the documented set, fail otherwise — for every value;
Params_sweeps.v: complete enumerations of the small domains inside Coq; Contract_proofs.v:
the declared-length state machine).
Tie: constants re-read from src (tools/gen_writers.py); extracted model vs implementation on the
full boundary/interior grid x under/exact/over-filling scripts, release and debug builds;
vm_compute sample.
Search: the harness evaluates the property itself on every case (no panic, documented => works
incl. decode + compare, undocumented => error, over/under/exact fill, recorded total)."""
import re

from checks import writers_common as wc

LEVEL = "proof"
THEOREMS = ["C15_options_block_size", "C15_options_max_lpc_order", "C15_options_max_partition_order",
            "C15_options_padding", "C15_new_validate", "C15_sweep_block_size", "C15_sweep_lpc", "C15_sweep_po",
            "C15_sweep_new", "C15_sweep_partitions"]
try:
    from checks.writers_theorems import C15 as _T   # extended list once the later proof files exist
    THEOREMS = _T
except Exception:
    pass


def soft_equal(obs, model):
    return obs == model


def vm_sample(chk, res, viol_inputs, n=30):
    """Evaluate a few cases inside coqc and compare with the implementation's observation."""
    picked = []
    for c in res["cases"]:
        if c["m"] in viol_inputs:
            continue   # the searcher reports the property failing on this input; leave it to that report
        d = wc.parse_m(c["m"])
        tot = d.get("total", "none")
        if d.get("pad", "-") not in ("-", "none") and int(d["pad"]) > 5000:
            continue
        if tot != "none" and int(tot) > 100000:
            continue
        script = [] if d["script"] == "-" else [int(x) for x in d["script"].split(",")]
        if sum(script) > 3000 or d["fin"] != "1":
            continue
        if d.get("bs", "-") != "-" and int(d["bs"]) > 300 and script:
            continue
        picked.append((c, d, script))
    step = max(1, len(picked) // n)
    picked = picked[::step][:n]
    if not picked:
        return 0
    kinds = {"s": "KS", "c": "KC", "bl": "KBL", "bb": "KBB"}
    terms = []
    for c, d, script in picked:
        terms.append("run_c15 %s %s (%s) %s %s %s %s [%s]" % (
            "Debug" if res["profile"] == "debug" else "Release", kinds[d["w"]], wc.coq_options(d), d["rate"], d["bps"], d["ch"],
            "None" if d["total"] == "none" else "(Some %s)" % d["total"], "; ".join(str(x) for x in script)))
    body = ("From FlacWriters Require Import Writers Cases.\nOpen Scope N_scope.\n" +
            "\n".join('Goal True. idtac "@@CASE %d". Abort.\nEval vm_compute in (%s).' % (i, t) for i, t in enumerate(terms)) + "\n")
    rc, out = wc.run_vm(chk, "C15Cases_" + res["profile"], body)
    if rc != 0:
        chk.broken_tie("vm-sample", out[-2000:])
        return 0
    parts = re.split(r"@@CASE \d+", out)[1:]
    names = {0: "ok", 1: "err", 2: "panic"}
    bad = 0
    for (c, d, script), part in zip(picked, parts):
        m = re.search(r"=\s*\(\s*\[(.*?)\]\s*,\s*(None|Some \d+)\s*\)", part, re.S)
        if not m:
            chk.broken_tie("vm-sample", "cannot parse coqc output: " + part[:300])
            return 0
        codes = [int(x) for x in m.group(1).replace(" ", "").replace("\n", "").split(";") if x]
        rec = m.group(2)
        toks = ["opt:" + names[codes[0]]]
        if len(codes) > 1:
            toks.append("new:" + names[codes[1]])
        if len(codes) > 1 and codes[1] == 0:
            ws = codes[2:]
            fin = None
            if len(ws) == len(script) + 1:
                fin = ws[-1]
                ws = ws[:-1]
            toks.append("w:" + (",".join(names[x] for x in ws) if ws else "-"))
            if fin is None:
                toks += ["fin:-", "rec:-"]
            else:
                toks.append("fin:" + names[fin])
                toks.append("rec:" + (rec.split()[1] if rec != "None" and fin == 0 else "-"))
        got = " ".join(toks)
        if got != c["obs"]:
            bad += 1
            chk.violation("correspondence:vm-sample", "vm_compute evaluation of the model disagrees with the implementation: case `%s`: implementation `%s`, Coq `%s`" % (c["m"], c["obs"], got),
                          {"case": c["m"], "implementation": c["obs"], "coq": got})
            break
    return len(picked)


def run(chk):
    chk.assumptions = list(wc.ASSUMPTIONS) + [
        "`a writer that works` for a documented value is decided on the implementation (encode, finalize, decode with the crate's reader, compare), not by a theorem of this area: the block encoder is abstract here (C01 owns losslessness); the two capacity guards of the core that depend on option values (autocorrelate's assertion, the partition list) are modelled and proved separately",
    ]
    proof_ok = wc.proof_stage(chk, THEOREMS, e2e_theorems=["C15_exact_fill_succeeds_sample", "C15_exact_fill_succeeds_byte", "C15_exact_fill_succeeds_channel", "C15_length_contract_byte", "C15_length_contract_channel"])
    runs = []
    for profile in ("release", "debug"):
        r = wc.run_harness(chk, "c15", profile)
        if r is not None:
            runs.append(r)
    exe = wc.build_driver(chk) if proof_ok else None
    disagreements = 0
    vm_n = 0
    for r in runs:
        viol_inputs = set(v.get("m") for v in r["viols"])
        if exe:
            outs = wc.run_model(chk, exe, [c["m"] + " profile=" + r["profile"] for c in r["cases"]])
            if outs is not None:
                disagreements += wc.diff_cases(chk, "c15", r, outs, viol_inputs)
            vm_n += vm_sample(chk, r, viol_inputs)
        wc.report_viols(chk, r)
    evaluations = sum(len(r["cases"]) for r in runs)
    distinct = len(set(c["m"] for r in runs for c in r["cases"] if "new:ok" in c["obs"] or "err" in c["obs"]))
    wc.finish_coverage(
        chk, runs, evaluations, distinct,
        "distinct (writer kind, option values, constructor arguments, write script) cases whose run reaches a non-default branch: an option or constructor error, or a constructed writer that is then driven by its script (each case is deduplicated by its full text)",
        disagreements, {"vm_compute_sample": vm_n, "exhaustive": False})
