(* C07 — readers deliver the stream exactly once, in order, however it is consumed.
   Full statements; proofs in Main_proofs.v (reader refinement) and Cursor_proofs.v (histories). *)
From FlacReaders Require Import Spec Lists_proofs Main_proofs Examples.
Open Scope N_scope.

(* Byte reader (either byte order): for every valid file and every seek-free history over
   {read n, fill_buf, consume k <= available}: every call obeys the cursor contract over
   pcm_bytes = Ser(pcm) (so no call errs or panics), calls are chained from position 0, and the
   history delivers pcm_bytes exactly once with end of stream signalled for ever after. *)
Theorem C07_byte_reader : forall F, valid_file F -> forall ops,
  no_bseek ops -> Forall bop_ok (snd (byte_run F ops)) ->
  let atr := map (abs_b F) (snd (byte_run F ops)) in
  Forall (cur_ok (pcm_bytes F)) atr /\ chained 0 atr (bpos F (fst (byte_run F ops))) /\
  exactly_once (pcm_bytes F) atr.
Proof. exact c07_bytes. Qed.

(* Sample reader and its iterator: the same over the interleaved PCM, incl. `next`. *)
Theorem C07_sample_reader : forall F, valid_file F -> forall ops,
  no_sseek ops -> Forall sop_ok (snd (sample_run F ops)) ->
  let atr := map (abs_s F) (snd (sample_run F ops)) in
  Forall (cur_ok (pcm F)) atr /\ chained 0 atr (spos F (fst (sample_run F ops))) /\
  exactly_once (pcm F) atr.
Proof. exact c07_samples. Qed.

(* Channel reader: for every channel c the same over that channel's samples; every fill_buf answer
   has one slice per channel, all of the same length. *)
Theorem C07_channel_reader : forall F, valid_file F -> forall ops c,
  (c < N.to_nat (f_channels F))%nat ->
  no_cseek ops -> Forall cop_ok (snd (chan_run F ops)) ->
  let atr := map (abs_c F c) (snd (chan_run F ops)) in
  Forall (cur_ok (chan_pcm F c)) atr /\ chained 0 atr (cpos (fst (chan_run F ops))) /\
  exactly_once (chan_pcm F c) atr /\ Forall (chan_shape F) (snd (chan_run F ops)).
Proof. exact c07_channels. Qed.

(* The byte stream is the serialised sample stream. *)
Theorem C07_bytes_vs_samples : forall F,
  pcm_bytes F = ser (f_endian F) (bytes_per_sample (f_bps F)) (pcm F).
Proof. reflexivity. Qed.

(* ---- non-vacuity: a concrete valid file and a history that satisfies every hypothesis, runs to
   the end of the stream and polls past it *)
Example C07_nonvacuous :
  valid_file (ex_file Repaired) /\ no_sseek ex_sample_ops /\
  Forall sop_ok (snd (sample_run (ex_file Repaired) ex_sample_ops)) /\
  pcm (ex_file Repaired) = [1; -1; 2; -2; 3; -3; 4; -4; 5; -5; 6; -6; 700; -700; 8; -8]%Z /\
  outs (snd (sample_run (ex_file Repaired) ex_sample_ops)) =
    [OSamples [1; -1; 2; -2]%Z; OSamples [3; -3]%Z; OUnit; OSamples []; OItem (Some (-3)%Z);
     OSamples [4; -4; 5; -5; 6; -6]%Z; OUnit; OSamples [700; -700; 8; -8]%Z; OSamples [];
     OSamples []; OItem None; OSamples []].
Proof.
  split; [exact ex_file_valid|]. split; [repeat constructor|].
  split; [forall_trace|]. split; vm_compute; reflexivity.
Qed.

(* ---- the defect of the original revision (F-C07a), as a computation on the model:
   after end of stream the channel reader hands out the last frame again *)
Example C07_orig_redelivers_last_frame :
  outs (snd (chan_run (ex_file Orig) [CFill; CConsume 3; CFill; CConsume 3; CFill; CConsume 2; CFill; CFill])) =
    [OChans [[1; 2; 3]; [-1; -2; -3]]%Z; OUnit; OChans [[4; 5; 6]; [-4; -5; -6]]%Z; OUnit;
     OChans [[700; 8]; [-700; -8]]%Z; OUnit; OChans [[]; []]; OChans [[700; 8]; [-700; -8]]%Z] /\
  outs (snd (chan_run (ex_file Repaired) [CFill; CConsume 3; CFill; CConsume 3; CFill; CConsume 2; CFill; CFill])) =
    [OChans [[1; 2; 3]; [-1; -2; -3]]%Z; OUnit; OChans [[4; 5; 6]; [-4; -5; -6]]%Z; OUnit;
     OChans [[700; 8]; [-700; -8]]%Z; OUnit; OChans [[]; []]; OChans [[]; []]].
Proof. split; vm_compute; reflexivity. Qed.
