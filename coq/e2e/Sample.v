(* E2E/Sample.v — from the samples handed to FlacSampleWriter to the blocks its Encoder encodes:
   Frame::fill_from_samples de-interleaves a run of whole PCM frames into channels whose interleaving
   (the stream decoder's) is the run again. *)
From Coq Require Import List NArith ZArith Lia.
From FlacBase Require Import Res.
From FlacCodec Require Stream Wf.
From FlacWriters Require Import Meta Params Finalize Writers Lists_proofs.
Import ListNotations.
Open Scope N_scope.
Local Arguments N.add : simpl never.
Local Arguments N.mul : simpl never.
Local Arguments N.div : simpl never.

(* the decoder's interleaving with its loop named *)
Fixpoint il (n : nat) (cs : list (list Z)) : list Z :=
  match n with
  | O => []
  | S k => if existsb (fun c => match c with [] => true | _ => false end) cs then []
           else map (hd 0%Z) cs ++ il k (map (@tl Z) cs)
  end.
Lemma interleave_frame_il chans :
  FlacCodec.Stream.interleave_frame chans = il (match chans with c :: _ => length c | [] => O end) chans.
Proof. reflexivity. Qed.

(* channels_of_frames k fs: k channels, each as long as fs; putting a PCM frame in front of every channel *)
Lemma zip_cons_props : forall f chs, length f = length chs ->
  length (zip_cons f chs) = length chs /\ map (hd 0%Z) (zip_cons f chs) = f /\ map (@tl Z) (zip_cons f chs) = chs /\
  existsb (fun c => match c with [] => true | _ => false end) (zip_cons f chs) = false.
Proof.
  induction f as [|x f IH]; intros [|c chs] H; cbn [length] in H; try discriminate; cbn [zip_cons length map hd tl existsb].
  - repeat split; reflexivity.
  - destruct (IH chs ltac:(lia)) as (A & B & C & D). rewrite A, B, C, D. repeat split; reflexivity.
Qed.

Lemma channels_of_frames_shape k : forall fs, Forall (fun f => length f = k) fs ->
  length (channels_of_frames k fs) = k /\ Forall (fun c => length c = length fs) (channels_of_frames k fs).
Proof.
  induction fs as [|f r IH]; intros F; cbn [channels_of_frames length].
  - split; [apply repeat_length|]. apply Forall_forall. intros c Hc. apply repeat_spec in Hc. subst c. reflexivity.
  - apply Forall_cons_iff in F. destruct F as [Lf Fr]. destruct (IH Fr) as [L1 L2].
    destruct (zip_cons_props f (channels_of_frames k r) ltac:(lia)) as (A & B & C & D).
    split; [lia|].
    (* every channel of zip_cons f X is one longer than its tail in X *)
    apply Forall_forall. intros c Hc.
    assert (Htl : In (tl c) (map (@tl Z) (zip_cons f (channels_of_frames k r)))) by (apply in_map; exact Hc).
    rewrite C in Htl. rewrite Forall_forall in L2. specialize (L2 _ Htl).
    destruct c as [|x c].
    + exfalso. clear - D Hc. induction (zip_cons f (channels_of_frames k r)) as [|a l IHl]; [destruct Hc|].
      cbn [existsb] in D. apply Bool.orb_false_elim in D. destruct D as [D1 D2]. destruct Hc as [->|Hc]; [discriminate|auto].
    + cbn [tl length] in *. lia.
Qed.

Lemma il_channels_of_frames k : (1 <= k)%nat -> forall fs, Forall (fun f => length f = k) fs ->
  il (length fs) (channels_of_frames k fs) = concat fs.
Proof.
  intros Hk. induction fs as [|f r IH]; intros F; cbn [length il channels_of_frames concat]; [reflexivity|].
  apply Forall_cons_iff in F. destruct F as [Lf Fr].
  destruct (channels_of_frames_shape k r Fr) as [L1 _].
  destruct (zip_cons_props f (channels_of_frames k r) ltac:(lia)) as (A & B & C & D).
  rewrite D, B, C, (IH Fr). reflexivity.
Qed.

(* Frame::fill_from_samples on a run of n >= 1 whole PCM frames of ch channels *)
Theorem fill_from_samples_sem ch (chunk : list Z) n blk :
  1 <= ch -> ch <= 8 -> (1 <= n)%nat -> length chunk = (N.to_nat ch * n)%nat ->
  fill_from_samples ch chunk = Ok blk ->
  length blk = N.to_nat ch /\ Forall (fun c => length c = n) blk /\
  FlacCodec.Stream.interleave_frame blk = chunk /\
  (forall z, In z (concat blk) -> In z chunk).
Proof.
  intros Hc1 Hc8 Hn Hlen H. unfold fill_from_samples in H.
  destruct (N.eqb_spec ch 0); [lia|].
  assert (Ecl : N.of_nat (length chunk) / ch = N.of_nat n).
  { rewrite Hlen. rewrite Nat2N.inj_mul, N2Nat.id. rewrite N.mul_comm. apply N.div_mul. lia. }
  rewrite Ecl in H. destruct (N.eqb_spec (N.of_nat n) 0); [lia|].
  assert (Ek : N.of_nat (length chunk) / N.of_nat n = ch).
  { rewrite Hlen. rewrite Nat2N.inj_mul, N2Nat.id. apply N.div_mul. lia. }
  rewrite Ek in H. destruct (N.ltb_spec 8 ch); [lia|]. injection H as <-.
  set (k := N.to_nat ch) in *.
  assert (Efirst : firstn (N.to_nat (ch * N.of_nat n)) chunk = chunk).
  { rewrite N2Nat.inj_mul, Nat2N.id. fold k. rewrite <- Hlen. apply firstn_all. }
  rewrite Efirst.
  destruct (drain k chunk) as [fs rest] eqn:Ed. cbn [fst].
  assert (Hk : (0 < k)%nat) by (unfold k; lia).
  pose proof (drain_spec k Hk chunk fs rest Ed) as (Echunk & Ffs & Lrest).
  pose proof (drain_length k Hk chunk fs rest Ed) as Ldr.
  assert (Lfs : length fs = n /\ rest = []).
  { rewrite Hlen in Ldr.
    assert (Hm : length fs = n).
    { destruct (Nat.lt_trichotomy (length fs) n) as [Hl|[E|Hg]]; [|exact E|]; exfalso.
      - assert (k * (length fs + 1) <= k * n)%nat by (apply Nat.mul_le_mono_l; lia). lia.
      - assert (k * (n + 1) <= k * length fs)%nat by (apply Nat.mul_le_mono_l; lia). lia. }
    split; [exact Hm|]. rewrite Hm in Ldr. destruct rest; [reflexivity|cbn [length] in Ldr; lia]. }
  destruct Lfs as [Lfs ->]. rewrite app_nil_r in Echunk.
  destruct (channels_of_frames_shape k fs Ffs) as [S1 S2].
  split; [exact S1|]. split; [rewrite Lfs in S2; exact S2|]. split.
  - rewrite interleave_frame_il.
    assert (Hfirst : match channels_of_frames k fs with c :: _ => length c | [] => O end = length fs).
    { destruct (channels_of_frames k fs) as [|c0 cs] eqn:E; [cbn in S1; lia|]. apply Forall_cons_iff in S2. tauto. }
    rewrite Hfirst, il_channels_of_frames by (auto; lia). symmetry. exact Echunk.
  - (* the samples of the channels are samples of the chunk: the interleaving is a permutation in fact *)
    intros z Hz. rewrite Echunk.
    assert (G : forall fs', Forall (fun f => length f = k) fs' -> forall z, In z (concat (channels_of_frames k fs')) -> In z (concat fs')).
    { clear. induction fs' as [|f r IH]; intros F z Hz; cbn [channels_of_frames concat] in *.
      - exfalso. induction k as [|k IHk]; cbn [repeat concat app] in Hz; auto.
      - apply Forall_cons_iff in F. destruct F as [Lf Fr].
        destruct (channels_of_frames_shape k r Fr) as [L1 _].
        assert (Z : forall f X, length f = length X -> forall z, In z (concat (zip_cons f X)) -> In z f \/ In z (concat X)).
        { clear. induction f as [|x f IHf]; intros [|c X] HL z Hz; cbn [length] in HL; try discriminate; cbn [zip_cons concat] in Hz; [destruct Hz|].
          cbn [app] in Hz. destruct Hz as [<-|Hz]; [left; left; reflexivity|].
          apply in_app_or in Hz. destruct Hz as [Hz|Hz]; [right; cbn [concat]; apply in_or_app; left; exact Hz|].
          destruct (IHf X ltac:(lia) z Hz) as [A|B]; [left; right; exact A|right; cbn [concat]; apply in_or_app; right; exact B]. }
        apply in_or_app. destruct (Z f (channels_of_frames k r) ltac:(lia) z Hz) as [A|B]; [left; exact A|right; apply IH; assumption]. }
    apply G; assumption.
Qed.
