"""C20 — cue sheet text import reproduces the layout the text describes.

Proof: coq/metadata Cue.v (parser model), CueRender.v (syntax, spellings, block_of),
Cue_proofs.v / Props_C20.v: for every well-formed CD-DA cue sheet, every accepted spelling
and every text whose significant lines are that spelling, the import is block_of.
Tie: harness/src/bin/c20.rs generates syntax + spelling + decorated text over the whole
shape space, imports with Cuesheet::parse and compares every field with the syntax; the
extracted model re-checks on the same cases that the text satisfies the theorem's hypothesis
(cue_text_matches), that its parse equals block_of and equals the implementation's block, and
that Display -> parse reproduces the layout (both build profiles); vm_compute sample."""
import vlib
from checks import metadata_common as mc

THEOREMS = ["Props_C20.C20_import", "Props_C20.C20_ranges", "Props_C20.C20_render_matches", "Props_C20.C20_import_rendered",
            "Props_C20.C20_export_import", "Props_C20.C20_offset_from_str", "Props_C20.C20_nonvacuous",
            "Props_C20.C20_imported_block_typed", "Props_C20.C20_imported_text_round_trips"]
FILES = ["Bytes.v", "Bytes_proofs.v", "Blocks.v", "Cue.v", "Accessors.v", "CueRender.v", "Blocks_proofs.v", "Cue_proofs.v", "Cue_proofs2.v", "Blocks_proofs2.v", "Blocks_level.v", "BlockList_proofs.v", "CueTyped.v", "Props_C20.v", "Pins.v"]


def run(chk):
    chk.assumptions = [
        "the Coq model of Cuesheet::parse (Cue.v) mirrors src/metadata/mod.rs:3241-3739 and cuesheet.rs; checked by differential runs (this check and C12's arbitrary / near-valid texts), not proved",
        "text is a list of code points; std's lines / trim / split_once / integer FromStr are modelled on code points (white-space class by correspondence only)",
        "well-formedness (wf_cue) asks for absolute positions that increase through the sheet; the implementation is more lenient (it compares with offsets relative to the track), which C20 does not need",
    ]
    proof_ok = mc.proof_stage(chk, requires=["FlacMeta.Props_C20", "FlacMeta.Pins"], theorems=THEOREMS, files=FILES)
    exe = mc.build_driver(chk) if proof_ok else None
    total_cases = bad_total = soft_total = 0
    stats, samples = {}, []
    vm_cases = []
    for profile in ("release", "debug"):
        lines = mc.run_harness(chk, "c20", profile)
        if lines is None:
            continue
        cases = [d for d in lines if d.get("t") == "case"]
        for d in lines:
            t = d.get("t")
            if t == "viol":
                chk.violation(d["key"], "[%s build] %s" % (profile, d["desc"]), {k: d[k] for k in d if k != "t"})
            elif t == "stat":
                stats[profile] = d
            elif t == "sample" and len(samples) < 2:
                samples.append({"text": d["text"], "total": d["total"], "observation": d["observation"]})
        if exe:
            model = mc.run_model(chk, exe, cases)
            if model is not None:
                bad, soft = mc.diff_cases(chk, cases, model, "c20:" + profile)
                bad_total += bad
                soft_total += soft
                total_cases += len(cases)
        if profile == "release":
            vm_cases = [c for c in cases if len(c["in"]) < 1500 and c["obs"].startswith("ok")][:10]

    # vm_compute: parse the text inside coqc and compare the track offsets / lead-out with the implementation's dump
    if proof_ok and vm_cases:
        import re
        defs, expected = [], []
        for i, c in enumerate(vm_cases):
            total_hex, text_hex = c["in"].split(" ")[:2]
            raw = bytes.fromhex("" if text_hex == "." else text_hex).decode("utf-8")
            cps = "; ".join(str(ord(ch)) for ch in raw)
            defs.append('Goal True. let v := eval vm_compute in (match cue_parse Release %d [%s] with '
                        'Ok b => (0, map (fun se => fst se) (track_sample_ranges b) ++ [lo_off (cue_leadout b)]) | Err _ => (1, []) | Panic _ => (2, []) end) '
                        'in idtac "@@%d=" v "@@". Abort.' % (int(total_hex, 16), cps, len(expected)))
            acc = [f for f in c["obs"].split(" ") if f.startswith("acc=")][0]
            m = re.search(r"r:([^,]*(?:,[0-9a-f]+-[0-9a-f]+)*)", acc)
            if not m:
                defs.pop()
                continue
            starts = [int(x.split("-")[0], 16) for x in m.group(1).split(",")]
            expected.append("(0, [%s])" % "; ".join(str(x) for x in starts + [int(total_hex, 16)]))
        mc.vm_sample(chk, "c20", "\n".join(defs), expected, ["FlacMeta.Bytes", "FlacMeta.Blocks", "FlacMeta.Cue", "FlacMeta.Accessors"])

    distinct = max([int(s.get("distinct_sheets", 0)) for s in stats.values()] or [0])
    chk.coverage.update({
        "evaluations": total_cases,
        "distinct_nontrivial": distinct,
        "rule": "distinct generated cue sheets (hash of the abstract syntax), each with >= 1 track and >= 1 index point, imported and compared field by field with the syntax, then exported and re-imported (the larger count of the two build profiles)",
        "traces_validated_against_impl": total_cases,
        "disagreements_checked": bad_total,
        "error_variant_differences": soft_total,
        "searcher": {p: s.get("counts", {}) for p, s in stats.items()},
        "samples": samples,
        "vm_compute_sample": len(vm_cases),
    })
