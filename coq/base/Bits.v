(* Base/Bits.v — MSB-first bit strings (bitstream-io BigEndian) and fixed-width fields. *)
From FlacBase Require Export Res.
Arguments N.add : simpl never. Arguments N.sub : simpl never. Arguments N.mul : simpl never.
Arguments N.div : simpl never. Arguments N.modulo : simpl never. Arguments N.pow : simpl never.
Arguments Z.add : simpl never. Arguments Z.sub : simpl never. Arguments Z.mul : simpl never.
Arguments Z.div : simpl never. Arguments Z.modulo : simpl never. Arguments Z.pow : simpl never.
Arguments N.testbit : simpl never. Arguments N.shiftl : simpl never. Arguments N.shiftr : simpl never.
Arguments N.lxor : simpl never. Arguments N.land : simpl never. Arguments N.lor : simpl never.

Definition bits := list bool.
Definition b2n (b : bool) : N := if b then 1%N else 0%N.

(* n-bit unsigned field, most significant bit first *)
Fixpoint wr (n : nat) (v : N) : bits :=
  match n with O => [] | S k => N.testbit v (N.of_nat k) :: wr k v end.

Fixpoint rd_acc (n : nat) (acc : N) (s : bits) : option (N * bits) :=
  match n with
  | O => Some (acc, s)
  | S k => match s with [] => None | b :: r => rd_acc k (2 * acc + b2n b)%N r end
  end.
Definition rd (n : nat) (s : bits) : option (N * bits) := rd_acc n 0%N s.

Lemma wr_length n v : length (wr n v) = n.
Proof. induction n; cbn; auto. Qed.

Lemma mod_pow2_succ v k :
  (v mod 2 ^ N.of_nat (S k) = b2n (N.testbit v (N.of_nat k)) * 2 ^ N.of_nat k + v mod 2 ^ N.of_nat k)%N.
Proof.
  rewrite Nat2N.inj_succ, N.pow_succ_r'.
  rewrite (N.mul_comm 2), N.mod_mul_r by (try apply N.pow_nonzero; lia).
  rewrite N.testbit_spec'. unfold b2n.
  destruct (N.eqb_spec ((v / 2 ^ N.of_nat k) mod 2) 1) as [E|E].
  - rewrite E. change (1 =? 1)%N with true. cbn [b2n]. lia.
  - assert ((v / 2 ^ N.of_nat k) mod 2 = 0)%N as E0.
    { assert (Hlt : ((v / 2 ^ N.of_nat k) mod 2 < 2)%N) by (apply N.mod_upper_bound; discriminate).
      remember ((v / 2 ^ N.of_nat k) mod 2)%N as m. clear Heqm. lia. }
    rewrite E0. change (0 =? 1)%N with false. cbn [b2n]. lia.
Qed.

Lemma rd_acc_wr n : forall acc v r,
  rd_acc n acc (wr n v ++ r) = Some ((acc * 2 ^ N.of_nat n + v mod 2 ^ N.of_nat n)%N, r).
Proof.
  induction n as [|k IH]; intros acc v r.
  - cbn [wr rd_acc app]. rewrite N.mod_1_r. f_equal. f_equal. cbn. lia.
  - cbn [wr rd_acc app]. rewrite IH. f_equal. f_equal.
    rewrite (mod_pow2_succ v k). rewrite Nat2N.inj_succ, N.pow_succ_r'. lia.
Qed.

Lemma rd_wr n v r : (v < 2 ^ N.of_nat n)%N -> rd n (wr n v ++ r) = Some (v, r).
Proof. intros H. unfold rd. rewrite rd_acc_wr. rewrite N.mod_small by exact H. f_equal. Qed.

Lemma rd_acc_bound n : forall acc s v r, rd_acc n acc s = Some (v, r) ->
  (acc * 2 ^ N.of_nat n <= v < (acc + 1) * 2 ^ N.of_nat n)%N.
Proof.
  induction n as [|k IH]; intros acc s v r H.
  - cbn in H. inversion H; subst. cbn. lia.
  - cbn [rd_acc] in H. destruct s as [|b s]; [discriminate|].
    apply IH in H. rewrite Nat2N.inj_succ, N.pow_succ_r'. destruct b; cbn [b2n] in H; nia.
Qed.

Lemma rd_bound n s v r : rd n s = Some (v, r) -> (v < 2 ^ N.of_nat n)%N.
Proof. unfold rd. intros H. apply rd_acc_bound in H. lia. Qed.

(* what was read is exactly the first n bits; rest is the suffix *)
Lemma rd_acc_split n : forall acc s v r, rd_acc n acc s = Some (v, r) ->
  exists c, s = c ++ r /\ length c = n.
Proof.
  induction n as [|k IH]; intros acc s v r H.
  - cbn in H. inversion H; subst. exists []. auto.
  - cbn [rd_acc] in H. destruct s as [|b s]; [discriminate|].
    apply IH in H. destruct H as (c & -> & L). exists (b :: c). cbn. auto.
Qed.

Lemma rd_acc_none n : forall acc s, rd_acc n acc s = None <-> length s < n.
Proof.
  induction n as [|k IH]; intros acc s; cbn [rd_acc].
  - split; [discriminate|lia].
  - destruct s as [|b s]; cbn [length]. { split; auto; lia. }
    rewrite IH. lia.
Qed.

(* locality: the result depends only on the consumed prefix *)
Lemma rd_acc_app n : forall acc c v r x, rd_acc n acc (c ++ r) = Some (v, r) -> length c = n ->
  rd_acc n acc (c ++ x) = Some (v, x).
Proof.
  induction n as [|k IH]; intros acc c v r x H L.
  - destruct c; [|discriminate]. cbn in *. inversion H; subst; auto.
  - destruct c as [|b c]; [discriminate|]. cbn [app rd_acc] in *. eapply IH; eauto.
Qed.

(* two's complement, n >= 1 bits: sign bit then n-1 magnitude bits *)
Definition wr_s (n : nat) (z : Z) : bits := wr n (Z.to_N (z mod 2 ^ Z.of_nat n)).
Definition sext (n : nat) (v : N) : Z :=
  if N.testbit v (N.of_nat (n - 1)) then Z.of_N v - 2 ^ Z.of_nat n else Z.of_N v.
Definition rd_s (n : nat) (s : bits) : option (Z * bits) :=
  match rd n s with Some (v, r) => Some (sext n v, r) | None => None end.

Lemma testbit_top n v : 0 < n -> (v < 2 ^ N.of_nat n)%N ->
  N.testbit v (N.of_nat (n - 1)) = (2 ^ N.of_nat (n - 1) <=? v)%N.
Proof.
  intros Hn Hv. destruct n as [|k]; [lia|]. replace (S k - 1) with k by lia.
  rewrite N.testbit_eqb.
  rewrite Nat2N.inj_succ, N.pow_succ_r' in Hv.
  assert (0 < 2 ^ N.of_nat k)%N by (apply N.neq_0_lt_0, N.pow_nonzero; lia).
  destruct (N.leb_spec (2 ^ N.of_nat k) v) as [L|L].
  - assert (v / 2 ^ N.of_nat k = 1)%N as ->.
    { symmetry. apply (N.div_unique v _ 1 (v - 2 ^ N.of_nat k)); lia. }
    reflexivity.
  - rewrite N.div_small by lia. reflexivity.
Qed.

Lemma rd_s_wr_s n z r : 0 < n -> (- 2 ^ Z.of_nat (n - 1) <= z < 2 ^ Z.of_nat (n - 1))%Z ->
  rd_s n (wr_s n z ++ r) = Some (z, r).
Proof.
  intros Hn Hz. unfold rd_s, wr_s.
  assert (Hp : (0 < 2 ^ Z.of_nat n)%Z) by (apply Z.pow_pos_nonneg; lia).
  pose proof (Z.mod_pos_bound z _ Hp) as Hm.
  assert (E2 : (2 ^ Z.of_nat n = 2 * 2 ^ Z.of_nat (n - 1))%Z).
  { replace (Z.of_nat n) with (Z.succ (Z.of_nat (n - 1))) by lia. rewrite Z.pow_succ_r by lia. lia. }
  assert (HN : (2 ^ N.of_nat n = Z.to_N (2 ^ Z.of_nat n))%N).
  { rewrite <- (N2Z.id (2 ^ N.of_nat n)). f_equal. rewrite N2Z.inj_pow. f_equal. lia. }
  assert (HN1 : (2 ^ N.of_nat (n - 1) = Z.to_N (2 ^ Z.of_nat (n - 1)))%N).
  { rewrite <- (N2Z.id (2 ^ N.of_nat (n-1))). f_equal. rewrite N2Z.inj_pow. f_equal. lia. }
  rewrite rd_wr by (rewrite HN; apply Z2N.inj_lt; lia).
  f_equal. f_equal. unfold sext.
  rewrite testbit_top; [|lia|rewrite HN; apply Z2N.inj_lt; lia].
  rewrite Z2N.id by lia. rewrite HN1.
  destruct (Z_lt_le_dec z 0) as [Neg|Pos].
  - assert (z mod 2 ^ Z.of_nat n = z + 2 ^ Z.of_nat n)%Z as ->.
    { symmetry. apply (Z.mod_unique_pos z _ (-1)); lia. }
    destruct (N.leb_spec (Z.to_N (2 ^ Z.of_nat (n - 1))) (Z.to_N (z + 2 ^ Z.of_nat n))) as [L|L]; [lia|].
    apply Z2N.inj_lt in L; lia.
  - rewrite Z.mod_small by lia.
    destruct (N.leb_spec (Z.to_N (2 ^ Z.of_nat (n - 1))) (Z.to_N z)) as [L|L]; [|lia].
    apply Z2N.inj_le in L; lia.
Qed.

(* unary: k continuation bits then one stop bit.  read_unary::<STOP> counts bits until STOP. *)
Fixpoint rd_unary (stop : bool) (s : bits) : option (N * bits) :=
  match s with
  | [] => None
  | b :: r => if Bool.eqb b stop then Some (0%N, r)
              else match rd_unary stop r with Some (k, r') => Some ((k + 1)%N, r') | None => None end
  end.
Definition wr_unary (stop : bool) (k : nat) : bits := repeat (negb stop) k ++ [stop].

Lemma rd_unary_wr stop k r : rd_unary stop (wr_unary stop k ++ r) = Some (N.of_nat k, r).
Proof.
  unfold wr_unary. induction k as [|k IH].
  - cbn. rewrite Bool.eqb_reflx. reflexivity.
  - cbn [repeat app rd_unary]. cbn [repeat app] in IH. rewrite IH.
    destruct stop; cbn; f_equal; f_equal; lia.
Qed.

(* bytes *)
Definition byte_bits (b : N) : bits := wr 8 b.
Definition bits_of_bytes (l : list N) : bits := flat_map byte_bits l.
Fixpoint bytes_of_bits (fuel : nat) (s : bits) : list N :=
  match fuel with
  | O => []
  | S f => match rd 8 s with
           | Some (v, r) => v :: bytes_of_bits f r
           | None => []
           end
  end.

Lemma bits_of_bytes_length l : length (bits_of_bytes l) = 8 * length l.
Proof. induction l as [|b l IH]; cbn [bits_of_bytes flat_map length]; auto.
  rewrite app_length. unfold bits_of_bytes in IH. rewrite IH. unfold byte_bits. rewrite wr_length. lia. Qed.

Lemma bytes_of_bits_of_bytes l : Forall (fun b => (b < 256)%N) l ->
  forall fuel, length l <= fuel -> bytes_of_bits fuel (bits_of_bytes l) = l.
Proof.
  induction 1 as [|b l Hb Hl IH]; intros fuel Hf.
  - destruct fuel; reflexivity.
  - destruct fuel as [|f]; [cbn in Hf; lia|]. cbn [bits_of_bytes flat_map bytes_of_bits].
    unfold byte_bits at 1. rewrite rd_wr by exact Hb. f_equal. apply IH. cbn in Hf. lia.
Qed.
