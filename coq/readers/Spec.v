From FlacReaders Require Export Seek.
