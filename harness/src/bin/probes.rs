//! Behavioural fallback for tools/gen_writers.py: when the text of encode.rs no longer matches an extractor of a
//! parameter bound, the bound is read off the implementation's behaviour through the public API (the smallest value
//! a constructor or setter refuses).  Prints one JSON object.
use flac_codec::encode::{FlacSampleWriter, Options};
use std::io::Cursor;

fn new_ok(rate: u32, bps: u32, ch: u8, total: Option<u64>) -> bool {
    std::panic::catch_unwind(|| FlacSampleWriter::new(Cursor::new(Vec::new()), Options::default(), rate, bps, ch, total).is_ok()).unwrap_or(false)
}

/// smallest v in (lo, hi] with !ok(v), given ok(lo) and !ok(hi)
fn boundary(mut lo: u64, mut hi: u64, ok: &dyn Fn(u64) -> bool) -> u64 {
    while hi - lo > 1 {
        let mid = lo + (hi - lo) / 2;
        if ok(mid) { lo = mid } else { hi = mid }
    }
    hi
}

fn main() {
    std::panic::set_hook(Box::new(|_| {}));
    let mut out: Vec<String> = vec![];
    // Encoder::new: sample rates 0..bound
    if new_ok(44100, 16, 2, None) && !new_ok(u32::MAX, 16, 2, None) {
        out.push(format!("\"sample_rate_bound\":{}", boundary(44100, u32::MAX as u64, &|v| new_ok(v as u32, 16, 2, None))));
    }
    // channels min..=max
    let chans: Vec<u8> = (0..=255u8).filter(|c| new_ok(44100, 16, *c, None)).collect();
    if let (Some(a), Some(b)) = (chans.first(), chans.last()) {
        if chans.len() == (*b - *a) as usize + 1 {
            out.push(format!("\"min_channels\":{},\"max_channels\":{}", a, b));
        }
    }
    // declared total: refused from MAX_SAMPLES on (in samples; the sample writer takes samples = PCM frames * channels)
    if new_ok(44100, 16, 1, Some(1000)) && !new_ok(44100, 16, 1, Some(u64::MAX)) {
        out.push(format!("\"MAX_SAMPLES\":{}", boundary(1000, u64::MAX, &|v| new_ok(44100, 16, 1, Some(v)))));
    }
    // Options setters
    let bs_ok = |v: u64| Options::default().block_size(v as u16).is_ok();
    if bs_ok(4096) && !bs_ok(0) {
        // the smallest accepted block size
        let mut lo = 0u64; let mut hi = 4096u64;
        while hi - lo > 1 { let mid = lo + (hi - lo) / 2; if bs_ok(mid) { hi = mid } else { lo = mid } }
        out.push(format!("\"min_block_size\":{}", hi));
    }
    let lpc_ok = |v: u64| Options::default().max_lpc_order(Some(v as u8)).is_ok();
    if lpc_ok(1) && !lpc_ok(255) {
        out.push(format!("\"max_lpc_order\":{}", boundary(1, 255, &lpc_ok) - 1));
    }
    let po_ok = |v: u64| Options::default().max_partition_order(v as u32).is_ok();
    if po_ok(0) && !po_ok(1000) {
        out.push(format!("\"max_partition_order\":{}", boundary(0, 1000, &po_ok) - 1));
    }
    println!("{{{}}}", out.join(","));
}
