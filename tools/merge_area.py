#!/usr/bin/env python3
"""Merge coq/<area>/manifest_entries.json into MANIFEST.json and coq/<area>/findings.txt into
KNOWN_FINDINGS.txt (integrator tool; findings lines may get their commit hash remapped)."""
import json, os, sys, re
V = os.path.dirname(os.path.dirname(os.path.abspath(__file__)))
area = sys.argv[1]
remap = dict(a.split("=") for a in sys.argv[2:])   # oldhash=newhash
m = json.load(open(os.path.join(V, "MANIFEST.json")))
ents = json.load(open(os.path.join(V, "coq", area, "manifest_entries.json")))
have = {c["property_id"]: i for i, c in enumerate(m["checks"])}
for e in ents:
    if e["property_id"] in have:
        m["checks"][have[e["property_id"]]] = e
    else:
        m["checks"].append(e)
m["checks"].sort(key=lambda c: c["property_id"])
ids = [c["property_id"] for c in m["checks"]]
for eng in m.get("engines", []):
    eng["serves_properties"] = ids
m["not_applicable"] = [n for n in m.get("not_applicable", []) if n["property_id"] not in ids]
json.dump(m, open(os.path.join(V, "MANIFEST.json"), "w"), indent=1)
fp = os.path.join(V, "coq", area, "findings.txt")
if os.path.exists(fp):
    kf = open(os.path.join(V, "KNOWN_FINDINGS.txt")).read()
    add = []
    for ln in open(fp):
        ln = ln.strip()
        if not ln or ln.startswith("#"):
            continue
        for o, n in remap.items():
            ln = ln.replace(o, n)
        if ln not in kf:
            add.append(ln)
    if add:
        open(os.path.join(V, "KNOWN_FINDINGS.txt"), "a").write("\n".join(add) + "\n")
    os.rename(fp, fp + ".merged")
print("merged", area, ids)
