(* Extraction of the reader state machines for ocaml/readers_driver.ml (ExtrOcamlBasic only). *)
From Coq Require Extraction ExtrOcamlBasic.
From FlacReaders Require Import Seek.
Extraction Language OCaml.
Extraction "readers_model.ml" byte_new sample_new chan_new byte_step sample_step chan_step.
