(* Statement pins: each property theorem checked against its full statement written out. *)
From FlacWriters Require Import Writers Lists_proofs Params_proofs Params_sweeps Writers_proofs New_proofs
     Finalize_proofs Encoder_proofs Seek_proofs Finish_proofs Newok_proofs C09_proofs Run_proofs Audio_proofs Frontend_proofs Bytes_proofs Safety_proofs Props_C08 Props_C15 Props_C09.
Open Scope N_scope.

Check (C08_chunking_sample :
  forall enc_block md5 p prefix o rate bps ch total w (chunks : list (list Z)),
    options_wf o -> sample_new p prefix o rate bps ch total = Ok w ->
    sample_run enc_block md5 p w chunks = sample_run enc_block md5 p w [concat chunks]).
Check (C08_chunking_byte :
  forall enc_block md5 p en prefix o rate bps ch total w (chunks : list (list N)),
    options_wf o -> byte_new p en prefix o rate bps ch total = Ok w ->
    byte_run enc_block md5 p w chunks = byte_run enc_block md5 p w [concat chunks]).
Check (C08_chunking_channel :
  forall enc_block md5 p prefix o rate bps ch total w (chunks : list (list (list Z))),
    options_wf o -> channel_new p prefix o rate bps ch total = Ok w ->
    Forall (chunk_ok (cw_chan w)) chunks ->
    channel_run enc_block md5 p w chunks = channel_run enc_block md5 p w [cconcat (cw_chan w) chunks]).
Check (C15_new_validate : forall k rate bps ch total,
  is_ok (new_validate k rate bps ch total) = documented_args k rate bps ch total /\
  is_err (new_validate k rate bps ch total) = negb (documented_args k rate bps ch total)).

Check (C09_layout_sample :
  forall enc_block md5 p prefix o rate bps ch total w chunks f,
    (forall l, length (md5 l) = 16%nat) ->
    sample_new p prefix o rate bps ch total = Ok w ->
    sample_run enc_block md5 p w chunks = Ok f ->
    exists meta',
      write_blocks (f_si f) (f_blocks f) = Ok meta' /\
      length meta' = length (e_meta (sw_enc w)) /\
      meta_len (f_blocks f) = meta_len (e_blocks (sw_enc w)) /\
      stream (f_enc f) = e_prefix (sw_enc w) ++ e_meta (sw_enc w) ++ frames_bytes (f_enc f) /\
      f_stream f = e_prefix (sw_enc w) ++ meta' ++ frames_bytes (f_enc f)).
Check (C09_layout_cases : forall cap blocks sel blocks',
  finalize_seektable_gen cap blocks sel = Ok blocks' -> meta_len blocks' = meta_len blocks).

Check (C15_new_sample : forall p prefix o rate bps ch total, options_wf o ->
  is_ok (sample_new p prefix o rate bps ch total) = documented_args WSample rate bps ch total /\
  is_err (sample_new p prefix o rate bps ch total) = negb (documented_args WSample rate bps ch total)).
Check (C15_new_byte : forall p en prefix o rate bps ch total, options_wf o ->
  is_ok (byte_new p en prefix o rate bps ch total) = documented_args WByte rate bps ch total /\
  is_err (byte_new p en prefix o rate bps ch total) = negb (documented_args WByte rate bps ch total)).
Check (C15_new_channel : forall p prefix o rate bps ch total, options_wf o ->
  is_ok (channel_new p prefix o rate bps ch total) = documented_args WChannel rate bps ch total /\
  is_err (channel_new p prefix o rate bps ch total) = negb (documented_args WChannel rate bps ch total)).
Check (C15_length_contract_sample :
  forall enc_block md5 p prefix o rate bps ch total w chunks f,
    (forall l, length (md5 l) = 16%nat) ->
    options_wf o -> sample_new p prefix o rate bps ch total = Ok w ->
    sample_run enc_block md5 p w chunks = Ok f -> counters_fit (f_enc f) ->
    exists cs r, drain (N.to_nat (ch * o_block_size o)) (concat chunks) = (cs, r) /\
      let written := o_block_size o * N.of_nat (length cs) + N.of_nat (length r) / ch in
      si_total (f_si f) = Some written /\ 1 <= written < MAX_SAMPLES /\
      match total with Some t => t = ch * written | None => True end).
Check (C09_streaminfo : forall md5 p e f,
  (forall l, length (md5 l) = 16%nat) ->
  enc_inv e -> enc_static e -> frames_nonempty e -> encoder_finalize md5 p e = Ok f ->
  si_total (f_si f) = Some (true_samples e) /\
  si_min_fs (f_si f) = fs_min (map snd (frames_info e)) /\
  si_max_fs (f_si f) = fs_max (map snd (frames_info e)) /\
  si_md5 (f_si f) = Some (md5 (md5_input e)) /\
  si_rate (f_si f) = si_rate (e_si e) /\ si_channels (f_si f) = si_channels (e_si e) /\
  si_bps (f_si f) = si_bps (e_si e) /\ si_min_bs (f_si f) = si_min_bs (e_si e) /\
  si_max_bs (f_si f) = si_max_bs (e_si e) /\ 1 <= true_samples e < MAX_SAMPLES).
Check (C09_points : forall md5 p e f iv pts,
  (forall l, length (md5 l) = 16%nat) ->
  enc_inv e -> enc_static e -> frames_nonempty e -> e_interval e = Some iv ->
  encoder_finalize md5 p e = Ok f -> first_seektable (f_blocks f) = Some pts ->
  is_contiguous pts = true /\
  (forall s b m, In (Defined s b m) pts ->
     In {| sp_sample := s; sp_byte := Some b; sp_frames := m |} (frame_seekpoints 0 0 (frames_info e))) /\
  exists sel regenerated,
    generate_seektable p (si_rate (e_si e)) (frames_info e) iv = Ok regenerated /\
    defined_points regenerated = take_n (map to_mpoint sel) MAX_POINTS /\
    match first_seektable (e_blocks e) with
    | None => pts = regenerated
    | Some old => defined_points pts = take_n (map to_mpoint sel) (N.of_nat (length old))
    end).

Check (C08_frontends_channel_block :
  forall enc_block p ch bytes e (blk : block) m,
    1 <= ch <= 8 -> length blk = N.to_nat ch -> Forall (fun c => length c = m) blk -> (1 <= m)%nat ->
    channel_encode_chunk enc_block p ch bytes e blk =
    sample_encode_chunk enc_block p ch bytes e (concat (multizip blk))).
Check (C08_frontends_byte_le_block :
  forall enc_block p ch n e (buf : list N) m,
    1 <= n <= 4 -> N.of_nat (length buf) = n * m -> Forall byte_ok buf ->
    byte_encode_chunk enc_block p LE ch n e buf =
    sample_encode_chunk enc_block p ch n e (map bytes_to_int_le (fst (drain (N.to_nat n) buf)))).
Check (C08_frontends_byte_be_block :
  forall enc_block p ch n e (buf : list N) m,
    1 <= n <= 4 -> N.of_nat (length buf) = n * m -> Forall byte_ok buf ->
    byte_encode_chunk enc_block p BE ch n e buf =
    sample_encode_chunk enc_block p ch n e
      (map (fun c => bytes_to_int_le (rev c)) (fst (drain (N.to_nat n) buf)))).
Check (C08_partial_dropped_sample :
  forall enc_block md5 p prefix o rate bps ch total w (x partial : list Z),
    options_wf o -> sample_new p prefix o rate bps ch total = Ok w ->
    N.of_nat (length x) mod ch = 0 -> N.of_nat (length partial) < ch ->
    sample_run enc_block md5 p w [x ++ partial] = sample_run enc_block md5 p w [x]).
Check (C08_no_panic_sample_debug :
  forall enc_block md5 prefix o rate bps ch total w chunks,
    (forall l, length (md5 l) = 16%nat) -> (forall n b, is_panic (enc_block n b) = false) ->
    options_wf o -> sample_new Debug prefix o rate bps ch total = Ok w ->
    match sample_run enc_block md5 Debug w chunks with Panic k => k = POverflow | _ => True end).
