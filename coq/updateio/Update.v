(* updateio/Update.v — executable model of flac_codec::metadata::{write_blocks, update_file, update}
   (src/metadata/mod.rs).  No proofs here (see Update_proofs.v).

   A file is a list of bytes (N, each < 256).  A metadata block is abstract except for what
   update_file looks at: its type code, its body size, the "may occur only once" class, and
   (for PADDING) the size field that grow_padding/shrink_padding rewrite.  The body serialiser
   and the block reader are Section variables; what is assumed about them (body length = reported
   size; read inverts write) is C11's business and is stated as hypotheses in Update_proofs.v. *)
From FlacBase Require Import Res Bits.
From FlacUpdIo Require Import GenUpd.
Open Scope N_scope.

Definition lenN {A} (l : list A) : N := N.of_nat (length l).

(* -------- BlockSize arithmetic (src/metadata/mod.rs:371-460) *)
(* TryFrom<u64> for BlockSize :452 *)
Definition to_blocksize (u : N) : option N := if u <=? BLOCK_MAX then Some u else None.
(* BlockSize::checked_add :387 — u32 checked_add then filter <= MAX; both operands are <= MAX < 2^31,
   so the u32 addition itself never overflows *)
Definition checked_add (a b : N) : option N := if a + b <=? BLOCK_MAX then Some (a + b) else None.
(* BlockSize::checked_sub :395 *)
Definition checked_sub (a b : N) : option N := if b <=? a then Some (a - b) else None.

(* the optional block types other than PADDING (OptionalBlockType :341) *)
Inductive okind := KApplication | KSeekTable | KVorbisComment | KCuesheet | KPicture.
Definition type_code (k : okind) : N :=
  match k with
  | KApplication => TY_APPLICATION | KSeekTable => TY_SEEKTABLE | KVorbisComment => TY_VORBISCOMMENT
  | KCuesheet => TY_CUESHEET | KPicture => TY_PICTURE
  end.

Section Model.
  Variable payload : Type.
  (* body size in bytes as MetadataBlock::bytes() reports it (bits::<BlockBits>() / 8); a body too
     large for BlockBits is any value > BLOCK_MAX (BlockHeader::new then fails: ExcessiveBlockSize) *)
  Variable psize : payload -> N.
  (* the body bytes the block's ToBitStream impl writes *)
  Variable ser : payload -> list N.
  (* "only once" class of write_blocks :930-973 — Some 0 SEEKTABLE, Some 1 VORBIS_COMMENT,
     Some 2 PICTURE/Png32x32, Some 3 PICTURE/GeneralFileIcon, None otherwise *)
  Variable uclass : okind -> payload -> option N.

  (* private::OptionalBlock :4793 — PADDING kept apart because update_file rewrites its size *)
  Inductive oblock :=
  | OPadding (n : N)
  | OOther (k : okind) (p : payload).

  (* BlockList :4358 — STREAMINFO is structurally first and unique *)
  Record blocklist := { bl_si : payload; bl_blocks : list oblock }.

  Definition otype (b : oblock) : N := match b with OPadding _ => TY_PADDING | OOther k _ => type_code k end.
  Definition osize (b : oblock) : N := match b with OPadding n => n | OOther _ p => psize p end.
  Definition obody (b : oblock) : list N :=
    match b with OPadding n => repeat 0 (N.to_nat n) (* Padding::to_writer :1826 w.pad(size*8) *)
               | OOther _ p => ser p end.
  Definition oclass (b : oblock) : option N := match b with OPadding _ => None | OOther k p => uclass k p end.

  (* BlockHeader::to_writer :257 — 1 bit last, 7 bits type, 24 bits size *)
  Definition header (last : bool) (ty size : N) : list N :=
    [ (if last then 128 else 0) + ty; size / 65536; (size / 256) mod 256; size mod 256 ].

  (* Block(Ref)::to_writer :1385/:1469 = BlockHeader::new (:229, fails when the body does not fit
     24 bits) then header then body *)
  Definition write_block (last : bool) (ty size : N) (body : list N) : res (list N) :=
    if size <=? BLOCK_MAX then Ok (header last ty size ++ body) else Err EOther.

  (* the four `*_read` flags of write_blocks as the list of classes seen *)
  Definition check_unique (seen : list N) (b : oblock) : res (list N) :=
    match oclass b with
    | None => Ok seen
    | Some c => if existsb (N.eqb c) seen then Err EOther else Ok (c :: seen)
    end.

  (* write_blocks :936 try_for_each over (last, block) *)
  Fixpoint write_opt (seen : list N) (bs : list oblock) : res (list N) :=
    match bs with
    | [] => Ok []
    | b :: r =>
        seen' <- check_unique seen b ;;
        bytes <- write_block (match r with [] => true | _ => false end) (otype b) (osize b) (obody b) ;;
        rest <- write_opt seen' r ;;
        Ok (bytes ++ rest)
    end.

  (* write_blocks :904 on a BlockList (STREAMINFO present and first by construction) *)
  Definition write_blocks (bl : blocklist) : res (list N) :=
    si <- write_block (match bl_blocks bl with [] => true | _ => false end) TY_STREAMINFO (psize (bl_si bl)) (ser (bl_si bl)) ;;
    rest <- write_opt [] (bl_blocks bl) ;;
    Ok (FLAC_TAG ++ si ++ rest).

  (* the same walk computing only the byte count (what Counter::new(sink()) sees, :1252-1256) *)
  Definition size_block (size : N) : res N := if size <=? BLOCK_MAX then Ok (HEADER_SIZE + size) else Err EOther.
  Fixpoint opt_size (seen : list N) (bs : list oblock) : res N :=
    match bs with
    | [] => Ok 0
    | b :: r =>
        seen' <- check_unique seen b ;;
        n <- size_block (osize b) ;;
        rest <- opt_size seen' r ;;
        Ok (n + rest)
    end.
  Definition blocks_size (bl : blocklist) : res N :=
    si <- size_block (psize (bl_si bl)) ;;
    rest <- opt_size [] (bl_blocks bl) ;;
    Ok (lenN FLAC_TAG + si + rest).

  (* BlockList::get_mut::<Padding> :4458 = first PADDING; the closure rewrites its size *)
  Fixpoint map_first_padding (f : N -> option N) (bs : list oblock) : option (list oblock) :=
    match bs with
    | [] => None
    | OPadding n :: r => match f n with Some n' => Some (OPadding n' :: r) | None => None end
    | b :: r => match map_first_padding f r with Some r' => Some (b :: r') | None => None end
    end.

  (* grow_padding :1207 *)
  Definition grow_padding (bl : blocklist) (more_bytes : N) : option blocklist :=
    match to_blocksize more_bytes with
    | None => None
    | Some m => match map_first_padding (fun n => checked_add n m) (bl_blocks bl) with
                | Some bs => Some {| bl_si := bl_si bl; bl_blocks := bs |}
                | None => None
                end
    end.

  (* shrink_padding :1223 *)
  Definition shrink_padding (bl : blocklist) (fewer_bytes : N) : option blocklist :=
    match to_blocksize fewer_bytes with
    | None => None
    | Some m => match map_first_padding (fun n => checked_sub n m) (bl_blocks bl) with
                | Some bs => Some {| bl_si := bl_si bl; bl_blocks := bs |}
                | None => None
                end
    end.

  (* the decision of update_file :1258-1296 *)
  Inductive plan :=
  | InPlace (bl : blocklist)   (* overwrite the original with these blocks; returns Ok(false) *)
  | Rebuild (bl : blocklist).  (* rebuild_file with the edited blocks; returns Ok(true) *)

  Definition update_plan (old_size new_size : N) (bl : blocklist) : plan :=
    match new_size ?= old_size with
    | Lt => match grow_padding bl (old_size - new_size) with
            | Some bl' => InPlace bl'
            | None => Rebuild bl
            end
    | Eq => InPlace bl
    | Gt => match shrink_padding bl (new_size - old_size) with
            | Some bl' => InPlace bl'
            | None => Rebuild bl
            end
    end.

  (* dry run + decision, on sizes only: this is the function the OCaml driver runs *)
  Definition update_decision (old_size : N) (bl : blocklist) : res plan :=
    new_size <- blocks_size bl ;;
    Ok (update_plan old_size new_size bl).

  (* -------- the file-level function *)
  (* BlockList::read through Counter(BufReader(&mut original)): parses the blocks at the head of the
     byte string and returns them with the unread remainder *)
  Variable read_blocks : list N -> res (blocklist * list N).

  (* state of the two files after the call: the original, and what the `rebuilt` closure's writer got *)
  Record fstate := { orig : list N; rebuilt : option (list N) }.

  (* Cursor/File write at position `start` *)
  Definition overwrite (file : list N) (start : nat) (bytes : list N) : list N :=
    firstn start file ++ bytes ++ skipn (start + length bytes) file.

  (* update_file :1171 without I/O faults (IoFault.v adds them).  `start` = original.stream_position().
     `edit` is the callback f (Err = the callback failed). *)
  Definition update_file (edit : blocklist -> res blocklist) (start : nat) (file : list N) : fstate * res bool :=
    let unchanged := {| orig := file; rebuilt := None |} in
    let s := skipn start file in
    match read_blocks s with                                  (* :1243 *)
    | Err e => (unchanged, Err e)
    | Panic k => (unchanged, Panic k)
    | Ok (bl, rest) =>
        let old_size := N.of_nat (length s - length rest) in   (* Counter.count :1247 *)
        match edit bl with                                     (* :1250 *)
        | Err e => (unchanged, Err e)
        | Panic k => (unchanged, Panic k)
        | Ok bl1 =>
            match rmap lenN (write_blocks bl1) with            (* dry run :1252 *)
            | Err e => (unchanged, Err e)
            | Panic k => (unchanged, Panic k)
            | Ok new_size =>
                match update_plan old_size new_size bl1 with
                | InPlace bl2 =>                               (* seek(start); write_blocks(BufWriter(original)) *)
                    match write_blocks bl2 with
                    | Ok bytes => ({| orig := overwrite file start bytes; rebuilt := None |}, Ok false)
                    | Err e => (unchanged, Err e)
                    | Panic k => (unchanged, Panic k)
                    end
                | Rebuild bl2 =>                               (* rebuild_file :1185 *)
                    match write_blocks bl2 with
                    | Ok bytes => ({| orig := file; rebuilt := Some (bytes ++ rest) |}, Ok true)
                    | Err e => (unchanged, Err e)
                    | Panic k => (unchanged, Panic k)
                    end
                end
            end
        end
    end.

  (* update :988 — the path front-end: `rebuilt` is File::create(path), i.e. the rebuilt bytes
     replace the file *)
  Definition update (edit : blocklist -> res blocklist) (file : list N) : list N * res bool :=
    let '(st, r) := update_file edit 0 file in
    (match rebuilt st with Some f => f | None => orig st end, r).

  (* a history of edits applied to the same path *)
  Fixpoint run_edits (edits : list (blocklist -> res blocklist)) (file : list N) : list N * list (res bool) :=
    match edits with
    | [] => (file, [])
    | e :: es => let '(f1, r) := update e file in
                 let '(fn, rs) := run_edits es f1 in (fn, r :: rs)
    end.
  (* -------- vocabulary of the C10 statements *)
  (* the size of the first PADDING, if any (BlockList::get::<Padding>) *)
  Fixpoint first_padding (bs : list oblock) : option N :=
    match bs with [] => None | OPadding n :: _ => Some n | _ :: r => first_padding r end.
  Fixpoint set_first_padding (n' : N) (bs : list oblock) : list oblock :=
    match bs with [] => [] | OPadding _ :: r => OPadding n' :: r | b :: r => b :: set_first_padding n' r end.
  (* the block list with only the first PADDING's size replaced *)
  Definition with_first_padding (n' : N) (bl : blocklist) : blocklist :=
    {| bl_si := bl_si bl; bl_blocks := set_first_padding n' (bl_blocks bl) |}.
  (* the file is some metadata followed by exactly `audio`, and reads as such *)
  Definition file_inv (audio : list N) (file : list N) : Prop :=
    exists meta bl, file = meta ++ audio /\ read_blocks (meta ++ audio) = Ok (bl, audio).
  (* an edit that leaves STREAMINFO alone *)
  Definition keeps_streaminfo (e : blocklist -> res blocklist) : Prop :=
    forall bl bl1, e bl = Ok bl1 -> bl_si bl1 = bl_si bl.
  (* decoding a file = reading the blocks, then whatever the frame decoder computes from STREAMINFO
     and the bytes that follow the metadata *)
  Definition decode_file (pcm : Type) (decode_frames : payload -> list N -> pcm) (file : list N) : option pcm :=
    match read_blocks file with Ok (bl, rest) => Some (decode_frames (bl_si bl) rest) | _ => None end.
End Model.

Arguments OPadding {payload} n.
Arguments OOther {payload} k p.
Arguments InPlace {payload} bl.
Arguments Rebuild {payload} bl.

(* -------- instance run by the OCaml driver: a payload is (body size, uniqueness class) *)
Definition dpayload := (N * option N)%type.
Definition d_decision (old_size : N) (si : dpayload) (bs : list (oblock dpayload)) : res (plan dpayload) :=
  update_decision dpayload fst (fun _ p => snd p) old_size {| bl_si := si; bl_blocks := bs |}.
(* canonical observation: (rebuilt?, [(type, size)]) of the optional blocks to be written *)
Definition d_observe (r : res (plan dpayload)) : res (bool * list (N * N)) :=
  match r with
  | Ok (InPlace bl) => Ok (false, map (fun b => (otype dpayload b, osize dpayload fst b)) (bl_blocks dpayload bl))
  | Ok (Rebuild bl) => Ok (true, map (fun b => (otype dpayload b, osize dpayload fst b)) (bl_blocks dpayload bl))
  | Err e => Err e
  | Panic k => Panic k
  end.
Definition d_update (old_size : N) (si : dpayload) (bs : list (oblock dpayload)) : res (bool * list (N * N)) :=
  d_observe (d_decision old_size si bs).
