#!/usr/bin/env python3
"""Translator of the `writers` area: re-reads the constants, ranges, defaults, block-type codes and
sort keys that coq/writers/{Meta,Params}.v hard-code from the current source tree, and writes
GenWriters.v with one `Definition gen_<name>` per item plus a lemma `gen_<name>_matches` stating
that the model's constant equals it (proved by reflexivity, so a changed source constant breaks
the Coq build = broken tie with the item named).

usage: gen_writers.py <repo> <out.v>
exit: 0 ok; 2 an anchor that carries DATA (a constant, a range, a table entry) was not found (anchor lost: the
model's constant can no longer be compared with the source); 3 only a TEXTUAL anchor changed (a statement the model
mirrors is no longer spelled the way it was: reported as a note, the model/implementation correspondence decides)."""
import re
import sys


def fail(msg):
    sys.stderr.write("gen_writers: anchor lost: %s\n" % msg)
    print("anchor lost: %s" % msg)
    sys.exit(2)


import os
sys.path.insert(0, os.path.dirname(os.path.abspath(__file__)))
from rustconst import const_in, const_of_impl

SOURCES = []


def rust_int(expr):
    """evaluate a Rust integer constant expression: literals in any base, type suffixes, (), <<, +, -, *, /, and named
    constants looked up in the sources (tools/rustconst.py) — a respelled constant reads as the same value"""
    v = const_in(expr, *SOURCES)
    if v is None:
        raise ValueError(expr)
    return v


SOFT = []


def soft_find(text, pattern, what, flags=re.S):
    """a textual anchor: its loss is a note (exit 3), never a failure"""
    if text is None or not re.search(pattern, text, flags):
        SOFT.append(what)
        print("anchor changed: %s" % what)


def soft_section(text, start_pat, length=4000):
    m = re.search(start_pat, text)
    return text[m.start():m.start() + length] if m else None


def find(text, pattern, what, flags=re.S):
    m = re.search(pattern, text, flags)
    if not m:
        fail(what)
    return m


def section(text, start_pat, what, length=4000):
    m = re.search(start_pat, text)
    if not m:
        fail(what)
    return text[m.start():m.start() + length]


_PROBES = {}


def probes(repo):
    """behavioural fallback (harness bin `probes`): parameter bounds read off the public API"""
    if "v" not in _PROBES:
        _PROBES["v"] = None
        try:
            import json, os
            sys.path.insert(0, os.path.dirname(os.path.abspath(__file__)))
            import vlib
            vlib.REPO = repo
            ok, binp, out = vlib.cargo_build(os.path.join(vlib.VERIF, "harness"), "probes", "release")
            if ok:
                rc, o = vlib.sh([binp], timeout=120)
                if rc == 0:
                    _PROBES["v"] = json.loads(o.strip().splitlines()[-1])
        except Exception:
            _PROBES["v"] = None
    return _PROBES["v"]


def data_int(repo, name, text, pattern, what, group=1):
    """a DATA anchor: the constant as spelled in the source; if the text no longer matches the extractor, the value the
    implementation exhibits through its public API (a note, exit 3); if neither is available the anchor is lost (exit 2)"""
    m = re.search(pattern, text, re.S) if text is not None else None
    if m:
        try:
            return rust_int(m.group(group))
        except ValueError:
            pass
    pv = probes(repo)
    if pv is not None and name in pv:
        SOFT.append(what)
        print("anchor changed: %s (text no longer matches the extractor; value %d taken from the implementation's behaviour)" % (what, pv[name]))
        return int(pv[name])
    fail(what)


def main():
    repo, out = sys.argv[1], sys.argv[2]
    enc = open(repo + "/src/encode.rs").read()
    meta = open(repo + "/src/metadata/mod.rs").read()
    SOURCES[:] = [enc, meta]
    items = []   # (name, value, model term)

    # ---- encode.rs
    items.append(("MAX_SAMPLES", data_int(repo, "MAX_SAMPLES", enc, r"const MAX_SAMPLES: u64 = ([^;]+);", "Encoder::MAX_SAMPLES"), "MAX_SAMPLES"))
    items.append(("MAX_LPC_COEFFS", rust_int(find(enc, r"const MAX_LPC_COEFFS: usize = ([^;]+);", "MAX_LPC_COEFFS").group(1)), "MAX_LPC_COEFFS"))
    items.append(("MAX_PARTITIONS", rust_int(find(enc, r"const MAX_PARTITIONS: usize = ([^;]+);", "MAX_PARTITIONS").group(1)), "MAX_PARTITIONS"))
    # Options::block_size: `0..16 => Err(OptionsError::InvalidBlockSize)`
    items.append(("min_block_size", data_int(repo, "min_block_size", enc, r"0\.\.([^=,;{}\n]+?) => Err\(OptionsError::InvalidBlockSize\)", "Options::block_size lower bound"), "16"))
    # Options::max_lpc_order: `.filter(|o| *o <= NonZero::new(32).unwrap())`
    items.append(("max_lpc_order", data_int(repo, "max_lpc_order", enc, r"\.filter\(\|o\| \*o <= NonZero::new\(([^()]+)\)\.unwrap\(\)\)\s*\.ok_or\(OptionsError::InvalidLpcOrder\)", "Options::max_lpc_order bound"), "32"))
    # Options::max_partition_order: `0..=15 => Ok(`
    mpo = soft_section(enc, r"pub fn max_partition_order\(self", 600)
    items.append(("max_partition_order", data_int(repo, "max_partition_order", mpo, r"0\.\.=([^,;{}\n]+?) => Ok\(", "max_partition_order range"), "15"))
    # Encoder::new: sample rate and channel ranges
    newf = None
    for m_new in re.finditer(r"fn new\(\s*(?:mut )?\w+: W,\s*(?:mut )?\w+: Options,", enc):
        cand = enc[m_new.start():m_new.start() + 5000]
        if "OptionalBlockType::VorbisComment =>" in cand:        # Encoder::new is the constructor that sorts the blocks
            newf = cand
            break
    if newf is None:
        fail("Encoder::new")
    items.append(("sample_rate_bound", data_int(repo, "sample_rate_bound", newf, r"sample_rate: \(0\.\.([^=,;{}()\n]+?)\)", "Encoder::new sample-rate range"), "1048576"))
    items.append(("min_channels", data_int(repo, "min_channels", newf, r"channels: \(([^.,;{}()\n]+?)\.\.=([^,;{}()\n]+?)\)", "Encoder::new channel range (lower)", 1), "1"))
    items.append(("max_channels", data_int(repo, "max_channels", newf, r"channels: \(([^.,;{}()\n]+?)\.\.=([^,;{}()\n]+?)\)", "Encoder::new channel range (upper)", 2), "8"))
    # sort keys
    keys = {}
    for name in ("VorbisComment", "SeekTable", "Picture", "Application", "Cuesheet", "Padding"):
        keys[name] = rust_int(find(newf, r"OptionalBlockType::%s => ([^,;{}\n]+?)," % name, "sort key of %s" % name).group(1))
    items.append(("key_vorbiscomment", keys["VorbisComment"], "sort_key (BOther KVorbisComment [])"))
    items.append(("key_seektable", keys["SeekTable"], "sort_key (BSeekTable [])"))
    items.append(("key_picture", keys["Picture"], "sort_key (BOther KPicture [])"))
    items.append(("key_application", keys["Application"], "sort_key (BOther KApplication [])"))
    items.append(("key_cuesheet", keys["Cuesheet"], "sort_key (BOther KCuesheet [])"))
    items.append(("key_padding", keys["Padding"], "sort_key (BPadding 0)"))
    # defaults
    dflt = section(enc, r"impl Default for Options \{", "Options::default", 1600)
    items.append(("default_block_size", rust_int(find(dflt, r"\bblock_size: ([^,;{}\n]+?),", "default block_size").group(1)), "o_block_size options_default"))
    items.append(("default_max_partition_order", rust_int(find(dflt, r"max_partition_order: ([^,;{}\n]+?),", "default max_partition_order").group(1)), "o_max_partition_order options_default"))
    items.append(("default_padding", rust_int(find(dflt, r"size: ([^,;{}\n]+?)\.into\(\)", "default padding").group(1)), "match o_metadata options_default with [BPadding s] => s | _ => 0 end"))
    items.append(("default_max_lpc_order", rust_int(find(dflt, r"max_lpc_order: NonZero::new\(([^()]+)\),", "default max_lpc_order").group(1)), "match o_max_lpc_order options_default with Some v => v | None => 0 end"))
    sd = section(enc, r"impl Default for SeekTableInterval \{", "SeekTableInterval::default", 300)
    items.append(("default_seek_seconds", rust_int(find(sd, r"Self::Seconds\(NonZero::new\(([^()]+)\)", "default seek interval").group(1)), "match o_seektable_interval options_default with Some (Seconds s) => s | _ => 0 end"))
    fast = section(enc, r"pub fn fast\(\) -> Self \{", "Options::fast", 500)
    items.append(("fast_block_size", rust_int(find(fast, r"block_size: ([^,;{}\n]+?),", "fast block_size").group(1)), "o_block_size options_fast"))
    items.append(("fast_max_partition_order", rust_int(find(fast, r"max_partition_order: ([^,;{}\n]+?),", "fast max_partition_order").group(1)), "o_max_partition_order options_fast"))
    find(fast, r"max_lpc_order: None,", "fast max_lpc_order")
    best = section(enc, r"pub fn best\(\) -> Self \{", "Options::best", 500)
    items.append(("best_block_size", rust_int(find(best, r"block_size: ([^,;{}\n]+?),", "best block_size").group(1)), "o_block_size options_best"))
    items.append(("best_max_partition_order", rust_int(find(best, r"max_partition_order: ([^,;{}\n]+?),", "best max_partition_order").group(1)), "o_max_partition_order options_best"))
    items.append(("best_max_lpc_order", rust_int(find(best, r"max_lpc_order: NonZero::new\(([^()]+)\),", "best max_lpc_order").group(1)), "match o_max_lpc_order options_best with Some v => v | None => 0 end"))
    # Encoder::encode refuses a frame larger than the stream's block size (repo fix 6387abb; Finalize.encoder_encode models it)
    encf = soft_section(enc, r"fn encode\(&mut self, frame: &Frame\) -> Result<\(\), Error> \{", 1600)
    soft_find(encf, r"frame\.pcm_frames\(\) > usize::from\(self\.blocks\.streaminfo\(\)\.maximum_block_size\)", "Encoder::encode: a frame larger than the block size is refused")
    # the placeholder / finalize table caps
    if len(re.findall(r"\.take\(SeekTable::MAX_POINTS\)", enc)) < 3:
        # Encoder::new, finalize_inner (padding case), generate_seektable
        print("note: fewer than three take(SeekTable::MAX_POINTS) sites (the model assumes the cap in Encoder::new, finalize_inner and generate_seektable)")

    # ---- metadata/mod.rs
    bsz = section(meta, r"pub struct BlockSize\(u32\);", "BlockSize", 400)
    items.append(("BLOCKSIZE_MAX", rust_int(find(bsz, r"const MAX: u32 = ([^;]+);", "BlockSize::MAX").group(1)), "BLOCKSIZE_MAX"))
    items.append(("MAX_POINTS", rust_int(find(meta, r"pub const MAX_POINTS: usize = ([^;]+);", "SeekTable::MAX_POINTS").group(1)), "MAX_POINTS"))
    # SeekTable::to_writer refuses a defined point that carries the placeholder's mark (Meta.seektable_ok models the check)
    stw = soft_section(meta, r"impl ToBitStream for SeekTable \{", 1600)
    soft_find(stw, r"point\.sample_offset\(\) == Some\(u64::MAX\) => Err\(Error::InvalidSeekTablePoint\)", "SeekTable::to_writer: defined point with u64::MAX is refused")
    items.append(("U64_MAX", 2 ** 64 - 1, "U64_MAX"))
    items.append(("MAX_FRAME_SIZE", rust_int(find(meta, r"pub const MAX_FRAME_SIZE: u32 = ([^;]+);", "Streaminfo::MAX_FRAME_SIZE").group(1)), "MAX_FRAME_SIZE"))
    items.append(("STREAMINFO_SIZE", rust_int(const_of_impl(meta, "Streaminfo", "SIZE") or fail("Streaminfo::SIZE")), "34"))
    items.append(("HEADER_SIZE", rust_int(const_of_impl(meta, "BlockHeader", "SIZE") or fail("BlockHeader::SIZE")), "HEADER_SIZE"))
    tw = section(meta, r"impl ToBitStream for BlockType \{", "BlockType::to_writer", 700)
    codes = {}
    for name in ("Streaminfo", "Padding", "Application", "SeekTable", "VorbisComment", "Cuesheet", "Picture"):
        codes[name] = rust_int(find(tw, r"Self::%s => ([^,;{}\n]+?)," % name, "block type code of %s" % name).group(1))
    items.append(("type_padding", codes["Padding"], "oblock_type (BPadding 0)"))
    items.append(("type_application", codes["Application"], "oblock_type (BOther KApplication [])"))
    items.append(("type_seektable", codes["SeekTable"], "oblock_type (BSeekTable [])"))
    items.append(("type_vorbiscomment", codes["VorbisComment"], "oblock_type (BOther KVorbisComment [])"))
    items.append(("type_cuesheet", codes["Cuesheet"], "oblock_type (BOther KCuesheet [])"))
    items.append(("type_picture", codes["Picture"], "oblock_type (BOther KPicture [])"))
    if codes["Streaminfo"] != 0:
        fail("STREAMINFO block type code is not 0")
    tag = find(meta, r'const FLAC_TAG: &\[u8; 4\] = b"(....)";', "FLAC_TAG").group(1)
    tag_list = "[" + "; ".join(str(ord(c)) for c in tag) + "]"

    lines = ["(* GENERATED by tools/gen_writers.py from src/encode.rs and src/metadata/mod.rs — do not edit. *)",
             "From FlacWriters Require Import Params.", "Open Scope N_scope.", ""]
    for name, val, term in items:
        lines.append("Definition gen_%s : N := %d." % (name, val))
        lines.append("Lemma gen_%s_matches : (%s) = gen_%s. Proof. reflexivity. Qed." % (name, term, name))
    lines.append("Definition gen_FLAC_TAG : list N := %s." % tag_list)
    lines.append("Lemma gen_FLAC_TAG_matches : FLAC_TAG = gen_FLAC_TAG. Proof. reflexivity. Qed.")
    text = "\n".join(lines) + "\n"
    try:
        old = open(out).read()
    except OSError:
        old = None
    if old != text:
        open(out, "w").write(text)
    print("gen_writers: %d items" % (len(items) + 1))
    if SOFT:
        sys.exit(3)


if __name__ == "__main__":
    main()
