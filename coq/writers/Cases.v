(* writers/Cases.v — case runners used to evaluate a small sample of harness cases inside coqc
   (vm_compute), which cross-checks the extraction and the OCaml driver: the same observation
   is produced three ways (implementation, extracted model, model inside Coq). *)
From FlacWriters Require Import Writers.
Open Scope N_scope.

Definition cls {A} (r : res A) : N := match r with Ok _ => 0 | Err _ => 1 | Panic _ => 2 end.
(* stand-ins for the abstract block encoder and MD5 (the model is parametric in both) *)
Definition dummy_enc (n : N) (b : block) : res (list N) := Ok (repeat 0 (N.to_nat (11 + n mod 5))).
Definition dummy_md5 (l : list N) : list N := repeat 0 16.

Inductive wk := KS | KC | KBL | KBB.
Inductive anyw := AS (w : swriter) | AB (w : bwriter) | AC (w : cwriter).

Definition any_new (p : profile) (k : wk) (o : options) (rate bps ch : N) (total : option N) : res anyw :=
  match k with
  | KS => rmap AS (sample_new p [] o rate bps ch total)
  | KC => rmap AC (channel_new p [] o rate bps ch total)
  | KBL => rmap AB (byte_new p LE [] o rate bps ch total)
  | KBB => rmap AB (byte_new p BE [] o rate bps ch total)
  end.
Definition any_write_zeros (p : profile) (ch : N) (w : anyw) (n : N) : res anyw :=
  match w with
  | AS s => rmap AS (sample_write dummy_enc p s (repeat 0%Z (N.to_nat n)))
  | AB b => rmap AB (byte_write dummy_enc p b (repeat 0 (N.to_nat n)))
  | AC c => rmap AC (channel_write dummy_enc p c (repeat (repeat 0%Z (N.to_nat n)) (N.to_nat ch)))
  end.
Definition any_finalize (p : profile) (w : anyw) : res finished :=
  match w with
  | AS s => sample_finalize dummy_enc dummy_md5 p s
  | AB b => byte_finalize dummy_enc dummy_md5 p b
  | AC c => channel_finalize dummy_enc dummy_md5 p c
  end.

(* class codes of: options, new, each write (stopping at the first failure), finalize;
   and the recorded total *)
Fixpoint c15_script (p : profile) (ch : N) (w : anyw) (script : list N) : list N * option anyw :=
  match script with
  | [] => ([], Some w)
  | n :: r =>
      match any_write_zeros p ch w n with
      | Ok w' => let (cs, e) := c15_script p ch w' r in (0 :: cs, e)
      | Err _ => ([1], None)
      | Panic _ => ([2], None)
      end
  end.
Definition run_c15 (p : profile) (k : wk) (o : res options) (rate bps ch : N) (total : option N)
           (script : list N) : list N * option N :=
  match o with
  | Ok o =>
      match any_new p k o rate bps ch total with
      | Ok w =>
          let (cs, e) := c15_script p ch w script in
          match e with
          | Some w' =>
              match any_finalize p w' with
              | Ok f => (0 :: 0 :: cs ++ [0], si_total (f_si f))
              | r => (0 :: 0 :: cs ++ [cls r], None)
              end
          | None => (0 :: 0 :: cs, None)
          end
      | r => ([0; cls r], None)
      end
  | r => ([cls r], None)
  end.

(* C08: chunk script over real data; result: recorded total, MD5 input, emitted blocks *)
Fixpoint take_chunks {A} (sizes : list N) (l : list A) : list (list A) :=
  match sizes with [] => [] | n :: r => firstn (N.to_nat n) l :: take_chunks r (skipn (N.to_nat n) l) end.
Definition run_c08_sample (p : profile) (o : options) (bps ch : N) (total : option N)
           (sizes : list N) (pcm : list Z) : res (option N * list N * list block) :=
  w <- sample_new p [] o 44100 bps ch total;;
  f <- sample_run dummy_enc dummy_md5 p w (take_chunks sizes pcm);;
  Ok (si_total (f_si f), md5_input (f_enc f), emitted (f_enc f)).
Definition run_c08_byte (p : profile) (en : endian) (o : options) (bps ch : N) (total : option N)
           (sizes : list N) (data : list N) : res (option N * list N * list block) :=
  w <- byte_new p en [] o 44100 bps ch total;;
  f <- byte_run dummy_enc dummy_md5 p w (take_chunks sizes data);;
  Ok (si_total (f_si f), md5_input (f_enc f), emitted (f_enc f)).
