(* e2eupd/NoPanicE2E.v — update_file over the real codec never panics of its own: for ANY bytes in the file (the
   metadata reader is total: C12_read_metadata_total), any start position and any callback that does not panic
   itself.  The instance represents a failing body writer as an error (RealCodec.ser_r); that this loses no
   panic is the second statement: on the typed lists the callbacks of interest return, the metadata area's own
   writer does not panic either (C11_write_never_panics). *)
From FlacBase Require Import Res Bits.
From FlacMeta Require Import Bytes Bytes_proofs Blocks BlockList Blocks_proofs Blocks_level BlockList_proofs Props_C11 Props_C12.
From FlacUpdIo Require GenUpd Update Update_proofs.
From FlacE2EUpd Require Import RealCodec CodecView UpdateE2E.
Open Scope N_scope.

Lemma read_rest_no_panic u s : is_panic (read_rest u s) = false.
Proof.
  pose proof (read_rest_fst u s) as F. pose proof (C12_read_metadata_total u Release s) as T.
  unfold read_metadata in T. destruct (read_rest u s) as [[l r]|e|k]; try reflexivity.
  cbn [rmap bind] in F. exfalso. apply (T k). symmetry. exact F.
Qed.

Lemma read_blocks_r_no_panic u s : is_panic (read_blocks_r u s) = false.
Proof.
  unfold read_blocks_r. pose proof (read_rest_no_panic u s) as H.
  destruct (read_rest u s) as [[l r]|e|k]; [destruct (to_upd l); reflexivity|reflexivity|discriminate].
Qed.

Theorem real_update_no_panic u (edit : U.blocklist block -> res (U.blocklist block)) start file :
  (forall bl, is_panic (edit bl) = false) ->
  is_panic (snd (U.update_file block psize_r ser_r uclass_r (read_blocks_r u) edit start file)) = false.
Proof.
  intros He. apply (UP.update_file_no_panic block psize_r ser_r uclass_r (read_blocks_r u) ser_len_real); [|exact He].
  apply read_blocks_r_no_panic.
Qed.

(* nothing is hidden by the instance on typed lists: the metadata writer itself does not panic on them *)
Theorem real_writer_no_panic u (bl : U.blocklist block) :
  Forall (ty_block u) (of_upd bl) -> is_panic (write_blocks (of_upd bl)) = false.
Proof. apply C11_write_never_panics. Qed.
