(* Extraction of the updateio models for the correspondence driver (ExtrOcamlBasic only). *)
From Coq Require Extraction ExtrOcamlBasic.
From FlacBase Require Import Res Bits.
From FlacUpdIo Require Import GenUpd Update IoFault.
Extraction Language OCaml.
Extraction "updateio_model.ml" d_update d_run_writer d_update_io.
