(* E2E/ReadersE2E.v — C01 down to the reader front-ends: the samples written through the FlacSampleWriter model
   are what the FlacSampleReader / FlacByteReader / FlacChannelReader models deliver, exactly once and in order,
   under every seek-free call history. *)
From Coq Require Import List NArith ZArith Lia.
From FlacBase Require Import Res.
From FlacCodec Require Ast Stream Header Wf Enc Enc_proofs.
From FlacWriters Require Import Meta Params Params_proofs Finalize Writers.
From FlacReaders Require Readers Spec Ser RNum Seek Props_C07.
From FlacE2E Require Import Bridge E2E SampleE2E Success ReadBridge.
Import ListNotations.
Open Scope N_scope.

Module RS := FlacReaders.Spec.
Module R := FlacReaders.Readers.

(* everything together, hypotheses on the input only: the run succeeds; the stream decoder model decodes the file to
   the blocks; the readers area's abstract file of those blocks is valid and its PCM is the whole PCM frames written;
   hence (C07) the sample reader model — and likewise the byte and channel readers over pcm_bytes / chan_pcm —
   delivers exactly those samples under every seek-free history of read / fill_buf / consume / next calls *)
Theorem written_samples_are_read : forall o L md5, (forall l, length (md5 l) = 16%nat) ->
  forall p rate bps wo ch total w chunks e rp,
  options_wf wo ->
  sample_new p [] wo rate bps ch total = Ok w ->
  forallb (FlacCodec.Wf.fits bps) (concat chunks) = true ->
  let W := N.of_nat (length (concat chunks)) / ch in
  let written := firstn (N.to_nat ch * (length (concat chunks) / N.to_nat ch)) (concat chunks) in
  1 <= W -> N.of_nat (length (concat chunks)) < 2 ^ 36 ->
  match total with Some T => T = ch * W | None => True end ->
  exists f blocks,
    sample_run (encB o L rate bps) md5 p w chunks = Ok f /\
    FlacCodec.Stream.dec_stream (f_stream f) =
      Some (conv_si (f_si f), map FlacCodec.Stream.interleave_frame blocks, FlacCodec.Stream.EndEof) /\
    let F := file_of_blocks blocks ch bps (Some (FlacCodec.Enc_proofs.blocks_samples blocks)) e rp in
    RS.valid_file F /\ RS.pcm F = written /\
    forall ops, RS.no_sseek ops -> Forall RS.sop_ok (snd (FlacReaders.Seek.sample_run F ops)) ->
      let atr := map (RS.abs_s F) (snd (FlacReaders.Seek.sample_run F ops)) in
      Forall (RS.cur_ok written) atr /\ RS.chained 0 atr (RS.spos F (fst (FlacReaders.Seek.sample_run F ops))) /\
      RS.exactly_once written atr.
Proof.
  intros o L md5 Hmd p rate bps wo ch total w chunks e rp Hwf Hnew Hfit W written HW Hlen Htot.
  destruct (sample_writer_lossless o L md5 Hmd p rate bps wo ch total w chunks Hwf Hnew Hfit HW Hlen Htot) as (f & _ & Hrun & _ & _).
  destruct (e2e_sample_pcm o L md5 Hmd p rate bps wo ch total w chunks f Hwf Hnew Hrun Hfit Hlen)
    as (blocks & Hdec & Hcat & Hok & Hshape & Htotal & Hsc & Hlt).
  exists f, blocks. split; [exact Hrun|]. split; [exact Hdec|]. cbv zeta.
  assert (Hb : 1 <= bps /\ bps <= 32).
  { pose proof Hnew as H. unfold sample_new in H. apply bind_ok in H. destruct H as (bps' & Hbp & _).
    unfold signed_bit_count_32 in Hbp. destruct ((1 <=? bps) && (bps <=? 32)) eqn:Eb; [|discriminate].
    apply andb_prop in Eb. destruct Eb as [B1 B2]. apply N.leb_le in B1, B2. auto. }
  assert (Hpos : 1 <= FlacCodec.Enc_proofs.blocks_samples blocks).
  { (* at least one whole PCM frame was written *)
    destruct blocks as [|b bl]; [|].
    - cbn [map concat] in Hcat. exfalso. fold written in Hcat.
      assert (Hl : length written = 0%nat) by (rewrite <- Hcat; reflexivity).
      assert (Hch0 : ch <> 0) by (intros ->; unfold W in HW; destruct (N.of_nat (length (concat chunks))); cbn in HW; lia).
      set (c := N.to_nat ch) in *. set (q := (length (concat chunks) / c)%nat) in *.
      assert (Hc : (1 <= c)%nat) by (unfold c; lia).
      assert (Hq : (1 <= q)%nat).
      { assert (E : N.of_nat q = W) by (unfold q, W, c; rewrite Nat2N.inj_div, N2Nat.id; reflexivity). lia. }
      assert (Hle : (c * q <= length (concat chunks))%nat) by (apply Nat.mul_div_le; lia).
      unfold written in Hl. rewrite firstn_length in Hl. fold c q in Hl. nia.
    - apply Forall_cons_iff in Hok. destruct Hok as [(Hchb & _ & _ & _ & _ & n & Hn1 & _ & _ & Hall) _].
      unfold FlacCodec.Enc_proofs.blocks_samples. cbn [fold_right].
      destruct b as [|c0 b']; [cbn in Hchb; lia|].
      apply Forall_cons_iff in Hall. destruct Hall as [[A _] _]. cbn [FlacCodec.Enc.block_len]. lia. }
  rewrite <- Hsc.
  pose proof (blocks_valid_file (conv_si (f_si f)) bps blocks e rp Hok Hshape Htotal Hpos (proj1 Hb) (proj2 Hb) Hlt) as Hvalid.
  assert (Hpcm : RS.pcm (file_of_blocks blocks (FlacCodec.Ast.si_channels (conv_si (f_si f))) bps
                          (Some (FlacCodec.Enc_proofs.blocks_samples blocks)) e rp) = written).
  { rewrite (blocks_pcm (conv_si (f_si f)) bps blocks _ _ e rp Hok). exact Hcat. }
  split; [exact Hvalid|]. split; [exact Hpcm|].
  intros ops Hns Hops. rewrite <- Hpcm. apply FlacReaders.Props_C07.C07_sample_reader; assumption.
Qed.
