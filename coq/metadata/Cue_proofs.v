(* metadata/Cue_proofs.v — C20: importing the text of a well-formed cue sheet yields the
   block the text describes. *)
From FlacMeta Require Import Bytes Bytes_proofs Blocks Blocks_proofs Cue Accessors CueRender.
Open Scope N_scope.

(* ---- decimal numerals *)
Definition is_digit_p (c : N) : Prop := is_digit c = true.

Lemma is_digit_spec c : is_digit c = true <-> 48 <= c /\ c <= 57.
Proof.
  unfold is_digit. rewrite andb_true_iff, !N.leb_le. tauto.
Qed.

Lemma digits_val_app : forall a b acc,
  digits_val acc (a ++ b) = match digits_val acc a with Some v => digits_val v b | None => None end.
Proof.
  induction a as [|c a IH]; intros b acc; cbn [app digits_val]; [reflexivity|].
  destruct (is_digit c); [apply IH|reflexivity].
Qed.

Lemma dec_digits_spec : forall fuel n acc, n < 10 ^ N.of_nat (S fuel) ->
  digits_val acc (dec_digits (S fuel) n) = Some (acc * 10 ^ N.of_nat (length (dec_digits (S fuel) n)) + n)
  /\ Forall is_digit_p (dec_digits (S fuel) n) /\ dec_digits (S fuel) n <> [].
Proof.
  induction fuel as [|f IH]; intros n acc H.
  - change (10 ^ N.of_nat 1) with 10 in H. cbn [dec_digits]. destruct (N.ltb_spec n 10) as [Hlt|Hge]; [|lia].
    cbn [digits_val length]. assert (D : is_digit (48 + n) = true) by (apply is_digit_spec; lia).
    rewrite D. split; [|split; [repeat constructor; exact D|discriminate]].
    f_equal. change (N.of_nat 1) with 1. rewrite N.pow_1_r. lia.
  - remember (S f) as f1. cbn [dec_digits]. destruct (N.ltb_spec n 10) as [Hlt|Hge].
    + cbn [digits_val length]. assert (D : is_digit (48 + n) = true) by (apply is_digit_spec; lia).
      rewrite D. split; [|split; [repeat constructor; exact D|discriminate]].
      f_equal. change (N.of_nat 1) with 1. rewrite N.pow_1_r. lia.
    + rewrite Nat2N.inj_succ, N.pow_succ_r' in H.
      assert (Hq : n / 10 < 10 ^ N.of_nat f1) by (apply N.div_lt_upper_bound; lia).
      subst f1. destruct (IH (n / 10) acc Hq) as (V & F & NE).
      assert (Hm : n mod 10 < 10) by (apply N.mod_upper_bound; discriminate).
      pose proof (N.div_mod n 10 ltac:(discriminate)) as Hdm.
      remember (n / 10) as q. remember (n mod 10) as m. clear H Hq Heqq Heqm IH.
      assert (D : is_digit (48 + m) = true) by (apply is_digit_spec; lia).
      split; [|split].
      * rewrite digits_val_app, V. cbn [digits_val]. rewrite D. f_equal.
        rewrite app_length. cbn [length]. rewrite Nat.add_1_r, Nat2N.inj_succ, N.pow_succ_r'.
        remember (10 ^ N.of_nat (length (dec_digits (S f) q))) as P. lia.
      * apply Forall_app. split; [exact F|repeat constructor; exact D].
      * destruct (dec_digits (S f) q); discriminate.
Qed.

Definition TEN20 : N := 100000000000000000000.

Lemma dec_spec n : n < TEN20 ->
  digits_val 0 (dec n) = Some n /\ Forall is_digit_p (dec n) /\ dec n <> [].
Proof.
  intros H. unfold dec. destruct (dec_digits_spec 19 n 0) as (V & F & NE); [exact H|].
  rewrite V. split; [f_equal; lia|auto].
Qed.

Lemma dec02_spec n : n < TEN20 ->
  digits_val 0 (dec02 n) = Some n /\ Forall is_digit_p (dec02 n) /\ dec02 n <> [].
Proof.
  intros H. destruct (dec_spec n H) as (V & F & NE). unfold dec02.
  destruct (n <? 10); [|auto]. split; [|split; [constructor; [reflexivity|exact F]|discriminate]].
  cbn [digits_val]. change (is_digit 48) with true. cbv iota. exact V.
Qed.

Lemma num_spec pad n : n < TEN20 ->
  digits_val 0 (num pad n) = Some n /\ Forall is_digit_p (num pad n) /\ num pad n <> [].
Proof. intros H. unfold num. destruct pad; [apply dec02_spec|apply dec_spec]; exact H. Qed.

Lemma digits_not_plus s : Forall is_digit_p s -> s <> [] -> match s with 43 :: r => r | _ => s end = s.
Proof.
  intros F NE. destruct s as [|c r]; [congruence|]. inversion F as [|? ? D _]; subst.
  apply is_digit_spec in D. destruct c as [|p]; [reflexivity|].
  do 6 (destruct p as [p|p|]; try reflexivity); lia.
Qed.

Lemma parse_uint_digits maxv s n : Forall is_digit_p s -> s <> [] -> digits_val 0 s = Some n -> n <= maxv ->
  parse_uint maxv s = Some n.
Proof.
  intros F NE V L. unfold parse_uint. rewrite digits_not_plus by assumption.
  destruct s; [congruence|]. rewrite V. destruct (N.leb_spec n maxv); [reflexivity|lia].
Qed.

Lemma parse_uint_num maxv pad n : n <= maxv -> n < TEN20 -> parse_uint maxv (num pad n) = Some n.
Proof.
  intros L H. destruct (num_spec pad n H) as (V & F & NE). apply parse_uint_digits; assumption.
Qed.

(* ---- split_once *)
Lemma split_once_app sep a b : ~ In sep a -> split_once sep (a ++ sep :: b) = Some (a, b).
Proof.
  induction a as [|c a IH]; intros H; cbn [app split_once].
  - rewrite N.eqb_refl. reflexivity.
  - destruct (N.eqb_spec c sep) as [->|_]; [exfalso; apply H; left; reflexivity|].
    rewrite IH; [reflexivity|]. intros Hin. apply H. right. exact Hin.
Qed.
Lemma split_once_none sep a : ~ In sep a -> split_once sep a = None.
Proof.
  induction a as [|c a IH]; intros H; cbn [split_once]; [reflexivity|].
  destruct (N.eqb_spec c sep) as [->|_]; [exfalso; apply H; left; reflexivity|].
  rewrite IH; [reflexivity|]. intros Hin. apply H. right. exact Hin.
Qed.

Lemma digits_no_sep s sep : Forall is_digit_p s -> (sep < 48 \/ 57 < sep) -> ~ In sep s.
Proof.
  intros F Hs Hin. rewrite Forall_forall in F. apply F in Hin. apply is_digit_spec in Hin. lia.
Qed.

(* ---- MM:SS:FF *)
Lemma time_text_parses st i : wf_index i -> ci_mm i < TEN20 ->
  cdda_offset_from_str (time_text st i) = Some (ci_samples i).
Proof.
  intros (Hss & Hff & Hmax) Hmm. unfold cdda_offset_from_str, time_text.
  assert (Hs20 : ci_ss i < TEN20) by (unfold TEN20; lia).
  assert (Hf20 : ci_ff i < TEN20) by (unfold TEN20; lia).
  destruct (num_spec (st_pad_time st) (ci_mm i) Hmm) as (Vm & Fm & NEm).
  destruct (num_spec (st_pad_time st) (ci_ss i) Hs20) as (Vs & Fs & NEs).
  destruct (num_spec (st_pad_time st) (ci_ff i) Hf20) as (Vf & Ff & NEf).
  cbn [app]. rewrite split_once_app by (apply digits_no_sep; [exact Fm|lia]).
  rewrite split_once_app by (apply digits_no_sep; [exact Fs|lia]).
  unfold ci_samples, ci_frames in *. unfold U64_MAX in *.
  unfold parse_u64. rewrite (parse_uint_digits _ _ (ci_ff i)) by (try assumption; unfold U64_MAX; lia).
  destruct (N.ltb_spec (ci_ff i) 75) as [_|]; [|lia]. cbn [negb].
  rewrite (parse_uint_digits _ _ (ci_ss i)) by (try assumption; unfold U64_MAX; lia).
  destruct (N.ltb_spec (ci_ss i) 60) as [_|]; [|lia]. cbn [negb].
  rewrite (parse_uint_digits _ _ (ci_mm i)) by (try assumption; unfold U64_MAX; lia).
  unfold checked_mul64, checked_add64, U64_MAX, SAMPLES_PER_SECTOR.
  destruct (N.leb_spec (ci_mm i * 4500) 18446744073709551615) as [_|]; [|lia].
  destruct (N.leb_spec (ci_mm i * 4500 + (ci_ff i + ci_ss i * 75)) 18446744073709551615) as [_|]; [|lia].
  destruct (N.leb_spec ((ci_mm i * 4500 + (ci_ff i + ci_ss i * 75)) * 588) 18446744073709551615) as [_|]; [|lia].
  f_equal. lia.
Qed.

(* ---- keywords *)
Lemma kw_no_space : ~ In 32 kw_CATALOG /\ ~ In 32 kw_TRACK /\ ~ In 32 kw_INDEX /\ ~ In 32 kw_ISRC /\ ~ In 32 kw_FLAGS.
Proof.
  repeat split; intros H; cbn in H; repeat (destruct H as [H|H]; [discriminate|]); exact H.
Qed.

Lemma list_eqb_refl a : list_eqb a a = true.
Proof. induction a as [|x a IH]; cbn [list_eqb]; [reflexivity|]. rewrite N.eqb_refl. exact IH. Qed.
Lemma list_eqb_eq a : forall b, list_eqb a b = true -> a = b.
Proof.
  induction a as [|x a IH]; intros [|y b] H; cbn [list_eqb] in H; try discriminate; [reflexivity|].
  apply andb_prop in H. destruct H as [H1 H2]. apply N.eqb_eq in H1. apply IH in H2. congruence.
Qed.

(* ---- ISRC *)
Lemma filter_split_app pre rest amt f : lenN pre = amt -> forallb f pre = true ->
  filter_split (pre ++ rest) amt f = Some rest.
Proof. intros L F. unfold filter_split. rewrite <- L, splitN_app, F. reflexivity. Qed.

Lemma isrc_parts (s : list N) : lenN s = 12 ->
  s = firstn 2 s ++ firstn 3 (skipn 2 s) ++ firstn 2 (skipn 5 s) ++ skipn 7 s /\
  length (firstn 2 s) = 2%nat /\ length (firstn 3 (skipn 2 s)) = 3%nat /\
  length (firstn 2 (skipn 5 s)) = 2%nat /\ length (skipn 7 s) = 5%nat.
Proof.
  intros L. rewrite lenN_length in L. assert (L' : length s = 12%nat) by lia.
  do 12 (destruct s as [|? s]; [cbn in L'; lia|]). destruct s; [|cbn in L'; lia].
  cbn. auto.
Qed.

Lemma forallb_skipn5_split (s : list N) : lenN s = 12 -> forallb is_digit (skipn 5 s) = true ->
  forallb is_digit (firstn 2 (skipn 5 s)) = true /\ forallb is_digit (skipn 7 s) = true.
Proof.
  intros L. rewrite lenN_length in L. assert (L' : length s = 12%nat) by lia.
  do 12 (destruct s as [|? s]; [cbn in L'; lia|]). destruct s; [|cbn in L'; lia].
  cbn [skipn firstn forallb]. intros H.
  repeat (apply andb_prop in H; destruct H as [? H]).
  repeat match goal with E : is_digit _ = true |- _ => rewrite E; clear E end. split; reflexivity.
Qed.

Lemma no_dash_class c : is_alpha c = true \/ is_alnum c = true \/ is_digit c = true -> (c =? 45) = false.
Proof.
  intros H. apply N.eqb_neq. intros ->. destruct H as [H|[H|H]]; vm_compute in H; discriminate.
Qed.

Lemma wf_isrc_no_dash s : wf_isrc s -> existsb (fun b => b =? 45) s = false /\ filter (fun b => negb (b =? 45)) s = s.
Proof.
  intros (L & A & B & D). destruct (isrc_parts s L) as (E & _).
  destruct (forallb_skipn5_split s L D) as [D1 D2].
  assert (Hall : Forall (fun c => (c =? 45) = false) s).
  { rewrite E. rewrite forallb_forall in A, B, D1, D2. rewrite !Forall_app. repeat split; apply Forall_forall; intros c Hc;
      apply no_dash_class; [left; apply A, Hc|right; left; apply B, Hc|right; right; apply D1, Hc|right; right; apply D2, Hc]. }
  clear -Hall. induction Hall as [|c s Hc Hs [IH1 IH2]]; [split; reflexivity|].
  cbn [existsb filter]. rewrite Hc. cbn [orb negb]. rewrite IH1, IH2. split; reflexivity.
Qed.

Lemma isrc_from_str_plain s : wf_isrc s -> isrc_from_str s = Some s.
Proof.
  intros W. destruct (wf_isrc_no_dash s W) as [E1 _]. destruct W as (L & A & B & D).
  destruct (isrc_parts s L) as (E & L1 & L2 & L3 & L4). destruct (forallb_skipn5_split s L D) as [D1 D2].
  unfold isrc_from_str. rewrite E1.
  rewrite E at 1. rewrite filter_split_app; [|rewrite lenN_length, L1; reflexivity|exact A].
  rewrite filter_split_app; [|rewrite lenN_length, L2; reflexivity|exact B].
  rewrite filter_split_app; [|rewrite lenN_length, L3; reflexivity|exact D1].
  rewrite <- (app_nil_r (skipn 7 s)) at 1. rewrite filter_split_app; [|rewrite lenN_length, L4; reflexivity|exact D2].
  reflexivity.
Qed.

Lemma filter_dash_app a b : filter (fun b => negb (b =? 45)) (a ++ b) = filter (fun b => negb (b =? 45)) a ++ filter (fun b => negb (b =? 45)) b.
Proof. apply filter_app. Qed.

Lemma isrc_from_str_dashed d s : wf_isrc s -> isrc_from_str (dashed d s) = Some s.
Proof.
  intros W. destruct d; [|apply isrc_from_str_plain, W]. unfold dashed.
  destruct (wf_isrc_no_dash s W) as [E1 E2]. pose proof W as (L & A & B & D).
  destruct (isrc_parts s L) as (E & L1 & L2 & L3 & L4).
  set (p1 := firstn 2 s) in *. set (p2 := firstn 3 (skipn 2 s)) in *. set (p3 := firstn 2 (skipn 5 s)) in *. set (p4 := skipn 7 s) in *.
  assert (Hall : forall c, In c s -> (c =? 45) = false).
  { intros c Hc. destruct (c =? 45) eqn:Ec; [|reflexivity]. exfalso.
    assert (X : existsb (fun b => b =? 45) s = true) by (apply existsb_exists; exists c; auto). congruence. }
  assert (G : forall q, (forall c, In c q -> In c s) -> filter (fun b => negb (b =? 45)) q = q).
  { induction q as [|c q IHq]; intros Hq; [reflexivity|]. cbn [filter].
    rewrite (Hall c (Hq c (or_introl eq_refl))). cbn [negb].
    f_equal. apply IHq. intros c' Hc'. apply Hq. right. exact Hc'. }
  assert (F : filter (fun b => negb (b =? 45)) (p1 ++ [45] ++ p2 ++ [45] ++ p3 ++ [45] ++ p4) = s).
  { rewrite !filter_app. cbn [filter N.eqb Pos.eqb negb app].
    rewrite !G; try (intros c Hc; rewrite E; rewrite !in_app_iff; auto 10).
    symmetry. exact E. }
  unfold isrc_from_str.
  assert (X : existsb (fun b => b =? 45) (p1 ++ [45] ++ p2 ++ [45] ++ p3 ++ [45] ++ p4) = true).
  { apply existsb_exists. exists 45. split; [rewrite !in_app_iff; right; left; left; reflexivity|reflexivity]. }
  rewrite X, F. clear X F.
  pose proof (isrc_from_str_plain s W) as P. unfold isrc_from_str in P. rewrite E1 in P. exact P.
Qed.

Lemma unquote_quoted q s : (forall r, s <> 34 :: r) \/ q = true -> s <> [] -> unquote (quoted q s) = s.
Proof.
  intros H NE. unfold quoted. destruct q.
  - unfold unquote. rewrite rev_app_distr. cbn [rev app]. rewrite rev_involutive. reflexivity.
  - destruct H as [H|H]; [|discriminate]. unfold unquote. destruct s as [|c r]; [congruence|].
    destruct (N.eq_dec c 34) as [->|Hc]; [exfalso; eapply H; reflexivity|].
    destruct c as [|p]; [reflexivity|]. do 6 (destruct p as [p|p|]; try reflexivity). congruence.
Qed.

(* ---- one line at a time *)
Lemma split_kw kw rest : ~ In 32 kw ->
  match split_once 32 (kw ++ [32] ++ rest) with Some p => p | None => (kw ++ [32] ++ rest, []) end = (kw, rest).
Proof. intros H. cbn [app]. rewrite split_once_app by exact H. reflexivity. Qed.

Lemma parse_track_line st t S : 1 <= ct_num t -> ct_num t <= 255 ->
  parse_trimmed true S (track_line st t) =
  match ps_wip S with
  | Some fin =>
    (trk <- finish_track fin ;; S' <- push_track true S trk ;;
     Ok (mkPs (ps_catalog S') (ps_tracks_rev S') (ps_ntracks S') (Some (wip_new (ct_num t)))))%res
  | None => Ok (mkPs (ps_catalog S) (ps_tracks_rev S) (ps_ntracks S) (Some (wip_new (ct_num t))))
  end.
Proof.
  intros H1 H2. unfold parse_trimmed, track_line.
  rewrite split_kw by apply kw_no_space.
  change (list_eqb kw_TRACK kw_CATALOG) with false. change (list_eqb kw_TRACK kw_TRACK) with true. cbv iota.
  assert (Hn : ct_num t < TEN20) by (unfold TEN20; lia).
  destruct (num_spec (st_pad_track st) (ct_num t) Hn) as (V & F & NE).
  cbn [app]. rewrite split_once_app by (apply digits_no_sep; [exact F|lia]).
  unfold parse_nonzero_u8, parse_u8. rewrite parse_uint_num by lia.
  destruct (N.eqb_spec (ct_num t) 0); [lia|]. reflexivity.
Qed.

Lemma parse_flags_line S w : ps_wip S = Some w -> w_ix_rev w = [] ->
  parse_trimmed true S flags_line =
  Ok (mkPs (ps_catalog S) (ps_tracks_rev S) (ps_ntracks S)
           (Some (mkWip (w_offset w) (w_number w) (w_isrc w) true (w_ix_rev w) (w_ix_len w)))).
Proof.
  intros Hw Hix. unfold parse_trimmed, flags_line. rewrite split_kw by apply kw_no_space.
  change (list_eqb kw_FLAGS kw_CATALOG) with false. change (list_eqb kw_FLAGS kw_TRACK) with false.
  change (list_eqb kw_FLAGS kw_INDEX) with false. change (list_eqb kw_FLAGS kw_ISRC) with false.
  change (list_eqb kw_FLAGS kw_FLAGS && list_eqb kw_PRE kw_PRE) with true. cbv iota.
  rewrite Hw, Hix. reflexivity.
Qed.

Lemma wf_isrc_nonempty s : wf_isrc s -> s <> [] /\ (forall r, s <> 34 :: r).
Proof.
  intros (L & A & _). split.
  - intros ->. cbn in L. lia.
  - intros r ->. cbn [firstn forallb] in A. vm_compute in A. discriminate.
Qed.

Lemma dashed_first d s : wf_isrc s -> dashed d s <> [] /\ (forall r, dashed d s <> 34 :: r).
Proof.
  intros W. destruct (wf_isrc_nonempty s W) as [NE NQ]. destruct d; [|split; assumption].
  destruct W as (L & A & _). destruct (isrc_parts s L) as (E & L1 & _). unfold dashed.
  destruct (firstn 2 s) as [|c q] eqn:F; [cbn in L1; lia|]. cbn [app]. split; [discriminate|].
  intros r Hr. injection Hr as -> _. cbn [forallb] in A. vm_compute in A. discriminate.
Qed.

Lemma parse_isrc_line st S w s : wf_isrc s -> ps_wip S = Some w -> w_ix_rev w = [] -> w_isrc w = IsrcNone ->
  parse_trimmed true S (isrc_line st s) =
  Ok (mkPs (ps_catalog S) (ps_tracks_rev S) (ps_ntracks S)
           (Some (mkWip (w_offset w) (w_number w) (IsrcStr s) (w_pre w) (w_ix_rev w) (w_ix_len w)))).
Proof.
  intros W Hw Hix Hi. unfold parse_trimmed, isrc_line. rewrite split_kw by apply kw_no_space.
  change (list_eqb kw_ISRC kw_CATALOG) with false. change (list_eqb kw_ISRC kw_TRACK) with false.
  change (list_eqb kw_ISRC kw_INDEX) with false. change (list_eqb kw_ISRC kw_ISRC) with true. cbv iota.
  rewrite Hw, Hix, Hi. destruct (dashed_first (st_dash_isrc st) s W) as [NE NQ].
  rewrite unquote_quoted by (auto). rewrite isrc_from_str_dashed by exact W. reflexivity.
Qed.

Lemma parse_catalog_line st S d : lenN d = 13 -> forallb is_digit d = true -> ps_catalog S = None ->
  parse_trimmed true S (catalog_line st d) =
  Ok (mkPs (Some d) (ps_tracks_rev S) (ps_ntracks S) (ps_wip S)).
Proof.
  intros L D Hc. unfold parse_trimmed, catalog_line. rewrite split_kw by apply kw_no_space.
  change (list_eqb kw_CATALOG kw_CATALOG) with true. cbv iota.
  assert (NE : d <> []) by (intros ->; cbn in L; lia).
  assert (NQ : forall r, d <> 34 :: r) by (intros r ->; cbn [forallb] in D; vm_compute in D; discriminate).
  assert (Q : quoted (st_quote_catalog st) d <> []) by (unfold quoted; destruct (st_quote_catalog st); [discriminate|exact NE]).
  destruct (quoted (st_quote_catalog st) d) as [|q0 qr] eqn:EQ; [congruence|]. rewrite <- EQ.
  rewrite Hc. rewrite unquote_quoted by auto. unfold cdda_catalog. rewrite D, L. reflexivity.
Qed.

Lemma index_line_split st i : wf_index i -> ci_mm i < TEN20 -> ci_num i <= 255 ->
  exists numtxt, index_line st i = kw_INDEX ++ [32] ++ numtxt ++ [32] ++ time_text st i /\
                 ~ In 32 numtxt /\ parse_u8 numtxt = Some (ci_num i) /\
                 parse_offset true (time_text st i) = Some (ci_samples i).
Proof.
  intros W Hm Hn. exists (num (st_pad_index st) (ci_num i)).
  assert (Hn20 : ci_num i < TEN20) by (unfold TEN20; lia).
  destruct (num_spec (st_pad_index st) (ci_num i) Hn20) as (V & F & NE).
  split; [reflexivity|]. split; [apply digits_no_sep; [exact F|lia]|].
  split; [unfold parse_u8; apply parse_uint_num; lia|]. unfold parse_offset. apply time_text_parses; assumption.
Qed.

Lemma parse_index_first st S w i : wf_index i -> ci_mm i < TEN20 ->
  (ci_num i = 0 \/ ci_num i = 1) -> ps_wip S = Some w ->
  w_offset w = None -> w_ix_rev w = [] -> w_ix_len w = 0 ->
  (ps_ntracks S = 0 -> ci_samples i = 0) ->
  parse_trimmed true S (index_line st i) =
  Ok (mkPs (ps_catalog S) (ps_tracks_rev S) (ps_ntracks S)
           (Some (mkWip (Some (ci_samples i)) (w_number w) (w_isrc w) (w_pre w) [mkIx 0 (ci_num i)] 1))).
Proof.
  intros W Hm Hn Hw Ho Hix Hl Hz.
  destruct (index_line_split st i W Hm ltac:(lia)) as (numtxt & -> & NS & PN & PO).
  unfold parse_trimmed. rewrite split_kw by apply kw_no_space.
  change (list_eqb kw_INDEX kw_CATALOG) with false. change (list_eqb kw_INDEX kw_TRACK) with false.
  change (list_eqb kw_INDEX kw_INDEX) with true. cbv iota.
  cbn [app]. rewrite split_once_app by exact NS. rewrite PN, PO, Hw, Ho.
  assert (Hc : (ps_ntracks S =? 0) && negb (ci_samples i =? 0) = false).
  { destruct (N.eqb_spec (ps_ntracks S) 0) as [E|]; [|reflexivity]. rewrite (Hz E). reflexivity. }
  rewrite Hc. cbn [bind]. rewrite Hix, Hl. unfold try_push, index_max, CDDA_MAX_INDEX_TEXT.
  change (0 <? 100) with true. cbv iota. unfold index_valid_first. cbn [ix_off ix_num].
  change (0 =? 0) with true. assert (Hv : (ci_num i =? 0) || (ci_num i =? 1) = true).
  { destruct Hn as [-> | ->]; reflexivity. }
  rewrite Hv. cbn [andb bind]. reflexivity.
Qed.

Lemma parse_index_next st S w i off last_ix rest_rev : wf_index i -> ci_mm i < TEN20 -> ci_num i <= 255 ->
  ps_wip S = Some w -> w_offset w = Some off -> w_ix_rev w = last_ix :: rest_rev -> w_ix_len w < 100 ->
  off < ci_samples i -> ix_off last_ix < ci_samples i - off -> ci_num i = ix_num last_ix + 1 ->
  parse_trimmed true S (index_line st i) =
  Ok (mkPs (ps_catalog S) (ps_tracks_rev S) (ps_ntracks S)
           (Some (mkWip (Some off) (w_number w) (w_isrc w) (w_pre w) (index_of off i :: last_ix :: rest_rev) (N.succ (w_ix_len w))))).
Proof.
  intros W Hm Hn Hw Ho Hix Hl Hoff Hrel Hnum.
  destruct (index_line_split st i W Hm Hn) as (numtxt & -> & NS & PN & PO).
  unfold parse_trimmed. rewrite split_kw by apply kw_no_space.
  change (list_eqb kw_INDEX kw_CATALOG) with false. change (list_eqb kw_INDEX kw_TRACK) with false.
  change (list_eqb kw_INDEX kw_INDEX) with true. cbv iota.
  cbn [app]. rewrite split_once_app by exact NS. rewrite PN, PO, Hw, Ho.
  destruct (N.ltb_spec off (ci_samples i)) as [_|]; [|lia]. cbn [bind]. rewrite Hix.
  unfold try_push, index_max, CDDA_MAX_INDEX_TEXT.
  destruct (N.ltb_spec (w_ix_len w) 100) as [_|]; [|lia].
  unfold index_is_next. cbn [ix_off ix_num].
  destruct (N.ltb_spec (ix_off last_ix) (ci_samples i - off)) as [_|]; [|lia].
  destruct (N.ltb_spec (ix_num last_ix + 1) 256) as [_|]; [|lia].
  destruct (N.eqb_spec (ci_num i) (ix_num last_ix + 1)) as [_|]; [|lia].
  cbn [andb bind]. destruct w; cbn in *. subst. reflexivity.
Qed.

(* ---- runs of lines *)
Fixpoint run (S : pstate) (ls : list (list N)) : res pstate :=
  match ls with
  | [] => Ok S
  | l :: r => (S' <- parse_trimmed true S l ;; run S' r)%res
  end.

Lemma run_app : forall a b S, run S (a ++ b) = (S' <- run S a ;; run S' b)%res.
Proof.
  induction a as [|l a IH]; intros b S; cbn [app run bind]; [reflexivity|].
  destruct (parse_trimmed true S l); cbn [bind]; [apply IH|reflexivity|reflexivity].
Qed.

Lemma parse_lines_run : forall raws S, parse_lines true S raws = run S (map trim raws).
Proof.
  induction raws as [|l r IH]; intros S; cbn [parse_lines map run]; [reflexivity|].
  unfold parse_line. destruct (parse_trimmed true S (trim l)); cbn [bind]; [apply IH|reflexivity|reflexivity].
Qed.

Lemma insignificant_skip S l : significant l = false -> parse_trimmed true S l = Ok S.
Proof.
  unfold significant, parse_trimmed.
  destruct (match split_once 32 l with Some p => p | None => (l, []) end) as [kw rest].
  intros H. repeat (apply orb_false_elim in H; destruct H as [H ?]).
  repeat match goal with E : _ = false |- _ => rewrite E; clear E end. reflexivity.
Qed.

Lemma run_filter : forall ls S, run S ls = run S (filter significant ls).
Proof.
  induction ls as [|l r IH]; intros S; cbn [run filter]; [reflexivity|].
  destruct (significant l) eqn:E.
  - cbn [run]. destruct (parse_trimmed true S l); cbn [bind]; auto.
  - rewrite insignificant_skip by exact E. cbn [bind]. apply IH.
Qed.

Lemma samples_frames i : ci_samples i = 588 * ci_frames i.
Proof. unfold ci_samples. lia. Qed.

Lemma wf_index_mm i : wf_index i -> ci_mm i < TEN20.
Proof.
  intros (_ & _ & H). unfold ci_samples, ci_frames, U64_MAX in H. unfold TEN20. lia.
Qed.

Lemma run_index_rest st : forall idxs S w off last_ix rest_rev prevf,
  ps_wip S = Some w -> w_offset w = Some off -> w_ix_rev w = last_ix :: rest_rev ->
  w_ix_len w + lenN idxs <= 100 -> Forall wf_index idxs ->
  off <= 588 * prevf -> ix_off last_ix = 588 * prevf - off ->
  index_chain prevf (ix_num last_ix) idxs -> ix_num last_ix + lenN idxs <= 255 ->
  run S (map (index_line st) idxs) =
  Ok (mkPs (ps_catalog S) (ps_tracks_rev S) (ps_ntracks S)
           (Some (mkWip (Some off) (w_number w) (w_isrc w) (w_pre w)
                        (rev (map (index_of off) idxs) ++ last_ix :: rest_rev) (w_ix_len w + lenN idxs)))).
Proof.
  induction idxs as [|i r IH]; intros S w off last_ix rest_rev prevf Hw Ho Hix Hlen Hwf Hoff Hlast Hch Hnum.
  - cbn [map run rev app lenN]. rewrite N.add_0_r. destruct S, w; cbn in *. subst. reflexivity.
  - cbn [map run]. inversion Hwf as [|? ? Wi Wr]; subst. cbn [index_chain] in Hch. destruct Hch as (C1 & C2 & C3).
    cbn [lenN] in Hlen, Hnum.
    rewrite (parse_index_next st S w i off last_ix rest_rev); try assumption;
      try (rewrite samples_frames; lia); try lia; [|apply wf_index_mm, Wi].
    cbn [bind].
    match goal with |- run (mkPs ?a ?b ?c (Some ?w')) _ = _ =>
      rewrite (IH (mkPs a b c (Some w')) w' off (index_of off i) (last_ix :: rest_rev) (ci_frames i)) end;
      cbn [ps_wip ps_catalog ps_tracks_rev ps_ntracks w_offset w_ix_rev w_ix_len w_number w_isrc w_pre];
      try reflexivity; try assumption; try lia.
    + replace (N.succ (w_ix_len w) + lenN r) with (w_ix_len w + N.succ (lenN r)) by lia.
      cbn [rev map]. rewrite <- app_assoc. reflexivity.
    + unfold index_of. cbn [ix_off]. rewrite samples_frames. reflexivity.
    + unfold index_of. cbn [ix_num]. lia.
Qed.

(* ---- one track *)
Definition isrc_of (t : cue_track) : isrc := match ct_isrc t with Some s => IsrcStr s | None => IsrcNone end.
Definition first_samples (t : cue_track) : N := match ct_indices t with i0 :: _ => ci_samples i0 | [] => 0 end.
Definition wip_full (t : cue_track) : wip :=
  mkWip (Some (first_samples t)) (ct_num t) (isrc_of t) (ct_pre t)
        (rev (map (index_of (first_samples t)) (ct_indices t))) (lenN (ct_indices t)).
Definition with_wip (S : pstate) (w : wip) : pstate := mkPs (ps_catalog S) (ps_tracks_rev S) (ps_ntracks S) (Some w).

Definition header_lines (st : style) (t : cue_track) : list (list N) :=
  let fl := if ct_pre t then [flags_line] else [] in
  let il := match ct_isrc t with Some s => [isrc_line st s] | None => [] end in
  if st_flags_first st then fl ++ il else il ++ fl.
Definition body_lines (st : style) (t : cue_track) : list (list N) :=
  header_lines st t ++ map (index_line st) (ct_indices t).

Lemma track_lines_eq st t : track_lines st t = track_line st t :: body_lines st t.
Proof. reflexivity. Qed.

Lemma run_header st t S : wf_track t -> ps_wip S = Some (wip_new (ct_num t)) ->
  run S (header_lines st t) = Ok (with_wip S (mkWip None (ct_num t) (isrc_of t) (ct_pre t) [] 0)).
Proof.
  intros (_ & _ & Wi) Hw. unfold isrc_of, with_wip, header_lines. cbv zeta.
  destruct (ct_pre t) eqn:P, (ct_isrc t) as [s|] eqn:I, (st_flags_first st); cbn [app run];
    repeat first
      [ erewrite parse_flags_line by (cbn [ps_wip]; first [eassumption | reflexivity])
      | erewrite parse_isrc_line by (cbn [ps_wip]; first [eassumption | reflexivity])
      | progress cbn [bind ps_wip ps_catalog ps_tracks_rev ps_ntracks w_offset w_number w_isrc w_pre w_ix_rev w_ix_len wip_new] ];
    try (destruct S; cbn in *; subst; reflexivity).
Qed.

Lemma run_track_body st t S : wf_track t -> ps_wip S = Some (wip_new (ct_num t)) ->
  (ps_ntracks S = 0 -> first_samples t = 0) ->
  run S (body_lines st t) = Ok (with_wip S (wip_full t)).
Proof.
  intros W Hw Hz. unfold body_lines. rewrite run_app, (run_header st t S W Hw). cbn [bind].
  destruct W as (Wix & Wshape & _). unfold wip_full, first_samples in *.
  destruct (ct_indices t) as [|i0 r] eqn:E; [contradiction|]. destruct Wshape as (Hn0 & Hch & Hlen).
  inversion Wix as [|? ? W0 Wr]; subst. cbn [map run].
  rewrite (parse_index_first st _ (mkWip None (ct_num t) (isrc_of t) (ct_pre t) [] 0) i0); try reflexivity; try assumption;
    [|apply wf_index_mm, W0|destruct Hn0 as [->|[-> _]]; auto].
  cbn [bind with_wip ps_catalog ps_tracks_rev ps_ntracks w_number w_isrc w_pre].
  cbn [lenN] in Hlen.
  match goal with |- run (mkPs ?a ?b ?c (Some ?w')) _ = _ =>
    rewrite (run_index_rest st r (mkPs a b c (Some w')) w' (ci_samples i0) (mkIx 0 (ci_num i0)) [] (ci_frames i0)) end;
    cbn [ps_wip ps_catalog ps_tracks_rev ps_ntracks w_offset w_ix_rev w_ix_len w_number w_isrc w_pre ix_off ix_num];
    try reflexivity; try assumption; try (rewrite samples_frames; lia); try lia.
  - cbn [rev map lenN]. replace (index_of (ci_samples i0) i0) with (mkIx 0 (ci_num i0)) by (unfold index_of; rewrite N.sub_diag; reflexivity).
    replace (1 + lenN r) with (N.succ (lenN r)) by lia. reflexivity.
Qed.

(* finishing the track in progress gives the expected track *)
Lemma indexvec_of_wf off idxs : 
  match idxs with
  | [] => False
  | i0 :: r => (ci_num i0 = 1 \/ (ci_num i0 = 0 /\ r <> [])) /\ index_chain (ci_frames i0) (ci_num i0) r
  end ->
  exists iv, indexvec_try_from (map (index_of off) idxs) = Ok iv /\
             indexvec_list iv = map (index_of off) idxs.
Proof.
  destruct idxs as [|i0 r]; [contradiction|]. intros ([H1|[H0 Hr]] & Hch); cbn [map indexvec_try_from index_of ix_num].
  - rewrite H1. change (1 =? 0) with false. change (1 =? 1) with true. cbv iota.
    eexists. split; [reflexivity|]. reflexivity.
  - rewrite H0. change (0 =? 0) with true. cbv iota. destruct r as [|i1 r']; [congruence|].
    cbn [index_chain] in Hch. destruct Hch as (_ & Hn1 & _). cbn [map ix_num index_of]. rewrite Hn1, H0.
    change (0 + 1 =? 1) with true. cbv iota. eexists. split; [reflexivity|]. reflexivity.
Qed.

Lemma finish_full t : wf_track t ->
  exists trk, track_of t = Some trk /\ finish_track (wip_full t) = Ok trk /\
              tr_off trk = first_samples t /\ tr_num trk = ct_num t /\
              indexvec_list (tr_ix trk) = map (index_of (first_samples t)) (ct_indices t).
Proof.
  intros (Wix & Wshape & _). unfold track_of, finish_track, wip_full, first_samples. cbn [w_offset w_ix_rev w_number w_isrc w_pre].
  rewrite rev_involutive.
  destruct (ct_indices t) as [|i0 r] eqn:E; [contradiction|]. destruct Wshape as (Hn0 & Hch & _).
  destruct (indexvec_of_wf (ci_samples i0) (i0 :: r) (conj Hn0 Hch)) as (iv & Hiv & Hl).
  rewrite Hiv. cbn [bind]. eexists. split; [reflexivity|]. split; [reflexivity|]. cbn [tr_off tr_num tr_ix]. auto.
Qed.

(* ---- positions inside a track *)
Definition lastf (pf : N) (l : list cue_index) : N := match rev l with i :: _ => ci_frames i | [] => pf end.

Lemma lastf_cons pf i r : lastf pf (i :: r) = lastf (ci_frames i) r.
Proof.
  unfold lastf. cbn [rev]. destruct (rev r) as [|x q]; reflexivity.
Qed.

Lemma chain_le_last : forall l pf pn, index_chain pf pn l ->
  pf <= lastf pf l /\ Forall (fun c => ci_frames c <= lastf pf l) l.
Proof.
  induction l as [|i r IH]; intros pf pn H.
  - unfold lastf. cbn. split; [lia|constructor].
  - cbn [index_chain] in H. destruct H as (H1 & _ & H3). rewrite lastf_cons.
    destruct (IH _ _ H3) as [A B]. split; [lia|]. constructor; [exact A|exact B].
Qed.

Lemma track_frames_le_last t : wf_track t -> Forall (fun c => ci_frames c <= last_frames t) (ct_indices t).
Proof.
  intros (_ & W & _). unfold last_frames. destruct (ct_indices t) as [|i0 r]; [contradiction|].
  destruct W as (_ & Hch & _). destruct (chain_le_last r (ci_frames i0) (ci_num i0) Hch) as [A B].
  fold (lastf 0 (i0 :: r)). rewrite lastf_cons. constructor; assumption.
Qed.

Lemma indexvec_last_in iv : exists i, In i (indexvec_list iv) /\ indexvec_last iv = ix_off i.
Proof.
  unfold indexvec_last, indexvec_list. destruct (rev (iv_rest iv)) as [|x q] eqn:E.
  - exists (iv_01 iv). split; [apply in_or_app; right; left; reflexivity|reflexivity].
  - exists x. split; [|reflexivity]. apply in_or_app. right. right.
    apply in_rev. rewrite E. left. reflexivity.
Qed.

Lemma finished_last_le t trk : wf_track t ->
  indexvec_list (tr_ix trk) = map (index_of (first_samples t)) (ct_indices t) ->
  indexvec_last (tr_ix trk) <= 588 * last_frames t /\
  (forall total, Forall (fun i => ci_samples i < total) (ct_indices t) -> indexvec_last (tr_ix trk) < total).
Proof.
  intros W Hl. destruct (indexvec_last_in (tr_ix trk)) as (i & Hin & ->). rewrite Hl in Hin.
  apply in_map_iff in Hin. destruct Hin as (c & <- & Hc). unfold index_of. cbn [ix_off].
  pose proof (track_frames_le_last t W) as F. rewrite Forall_forall in F. specialize (F c Hc).
  split; [rewrite samples_frames; lia|].
  intros total B. rewrite Forall_forall in B. specialize (B c Hc). lia.
Qed.

(* ---- pushing a finished track *)
Lemma push_track_ok S trk : ps_ntracks S < 99 ->
  match ps_tracks_rev S with
  | [] => tr_off trk = 0 /\ tr_num trk = 1
  | p :: _ => tr_num p + 1 = tr_num trk /\ tr_num trk <= 255 /\ indexvec_last (tr_ix p) < tr_off trk
  end ->
  push_track true S trk = Ok (mkPs (ps_catalog S) (trk :: ps_tracks_rev S) (N.succ (ps_ntracks S)) (ps_wip S)).
Proof.
  intros Hn Hc. unfold push_track, try_push, track_max, CDDA_MAX_TRACKS.
  destruct (N.ltb_spec (ps_ntracks S) 99) as [_|]; [|lia].
  destruct (ps_tracks_rev S) as [|p q].
  - destruct Hc as [H1 H2]. unfold track_valid_first. rewrite H1, H2. reflexivity.
  - destruct Hc as (H1 & H2 & H3). unfold track_is_next.
    destruct (N.ltb_spec (tr_num p + 1) 256) as [_|]; [|lia].
    destruct (N.eqb_spec (tr_num p + 1) (tr_num trk)) as [_|]; [|lia].
    destruct (N.ltb_spec (indexvec_last (tr_ix p)) (tr_off trk)) as [_|]; [|lia]. reflexivity.
Qed.

Definition finish_all (S : pstate) : res (option (list N) * list track) :=
  match ps_wip S with
  | None => Err EOther
  | Some w => (t <- finish_track w ;; S' <- push_track true S t ;; Ok (ps_catalog S', rev (ps_tracks_rev S')))%res
  end.

(* ---- all tracks after the current one, then the end of the text *)
Lemma run_tracks_finish st : forall ts S cur,
  ps_wip S = Some (wip_full cur) -> wf_track cur ->
  sheet_ok (ct_num cur + 1) (Some (last_frames cur)) ts ->
  ps_ntracks S + 1 + lenN ts <= 99 -> ct_num cur + lenN ts <= 99 ->
  match ps_tracks_rev S with
  | [] => first_samples cur = 0 /\ ct_num cur = 1
  | p :: _ => tr_num p + 1 = ct_num cur /\ indexvec_last (tr_ix p) < first_samples cur
  end ->
  exists trks, tracks_of (cur :: ts) = Some trks /\
    (S' <- run S (flat_map (track_lines st) ts) ;; finish_all S')%res
    = Ok (ps_catalog S, rev (ps_tracks_rev S) ++ trks).
Proof.
  induction ts as [|t r IH]; intros S cur Hw Wc Hsheet Hn Hnum Hcompat.
  - destruct (finish_full cur Wc) as (trk & Htr & Hfin & Hoff & Hnm & Hl).
    exists [trk]. cbn [tracks_of]. rewrite Htr. split; [reflexivity|].
    cbn [flat_map run bind]. unfold finish_all. rewrite Hw, Hfin. cbn [bind].
    cbn [lenN] in Hn, Hnum.
    rewrite push_track_ok; [cbn [bind ps_catalog ps_tracks_rev rev]; reflexivity|lia|].
    destruct (ps_tracks_rev S); rewrite Hoff, Hnm; [exact Hcompat|]. destruct Hcompat as [A B]. repeat split; try assumption; lia.
  - cbn [sheet_ok] in Hsheet. destruct Hsheet as (Hnt & Wt & Hpos & Hrest).
    destruct (finish_full cur Wc) as (trk & Htr & Hfin & Hoff & Hnm & Hl).
    cbn [lenN] in Hn, Hnum.
    cbn [flat_map]. rewrite run_app. rewrite track_lines_eq. cbn [run].
    rewrite parse_track_line by lia. rewrite Hw, Hfin. cbn [bind].
    rewrite push_track_ok; [|lia|].
    2:{ destruct (ps_tracks_rev S); rewrite Hoff, Hnm; [exact Hcompat|]. destruct Hcompat as [A B]. repeat split; try assumption; lia. }
    cbn [bind ps_catalog ps_tracks_rev ps_ntracks].
    set (S1 := mkPs (ps_catalog S) (trk :: ps_tracks_rev S) (N.succ (ps_ntracks S)) (Some (wip_new (ct_num t)))).
    rewrite (run_track_body st t S1 Wt eq_refl); [|cbn [S1 ps_ntracks]; lia].
    cbn [bind].
    assert (Hfirst : match ct_indices t with [] => False | i0 :: _ => last_frames cur < ci_frames i0 end).
    { destruct (ct_indices t); exact Hpos. }
    destruct (IH (with_wip S1 (wip_full t)) t) as (trks & Htrks & Hrun); try assumption.
    + reflexivity.
    + rewrite Hnt. exact Hrest.
    + cbn [with_wip S1 ps_ntracks]. lia.
    + lia.
    + cbn [with_wip S1 ps_tracks_rev]. rewrite Hnm. split; [lia|].
      destruct (finished_last_le cur trk Wc Hl) as [Hle _].
      unfold first_samples. destruct (ct_indices t) as [|i0 q]; [contradiction|]. rewrite samples_frames. lia.
    + exists (trk :: trks). split.
      * cbn [tracks_of] in *. rewrite Htr. destruct (track_of t); [|discriminate].
        destruct (tracks_of r); [|discriminate]. injection Htrks as <-. reflexivity.
      * rewrite Hrun. cbn [with_wip S1 ps_catalog ps_tracks_rev rev]. rewrite <- app_assoc. reflexivity.
Qed.

(* ---- the whole sheet *)
Lemma lines_eqb_eq : forall a b, lines_eqb a b = true -> a = b.
Proof.
  induction a as [|x a IH]; intros [|y b] H; cbn [lines_eqb] in H; try discriminate; [reflexivity|].
  apply andb_prop in H. destruct H as [H1 H2]. apply list_eqb_eq in H1. apply IH in H2. congruence.
Qed.

Lemma sheet_ok_wf : forall ts n p, sheet_ok n p ts -> Forall wf_track ts.
Proof.
  induction ts as [|t r IH]; intros n p H; [constructor|]. cbn [sheet_ok] in H.
  destruct H as (_ & W & _ & R). constructor; [exact W|eapply IH; exact R].
Qed.

Lemma tracks_of_last_lt total : forall ts trks, Forall wf_track ts -> tracks_of ts = Some trks ->
  Forall (fun t => Forall (fun i => ci_samples i < total) (ct_indices t)) ts ->
  Forall (fun trk => indexvec_last (tr_ix trk) < total) trks.
Proof.
  induction ts as [|t r IH]; intros trks W H B; cbn [tracks_of] in H.
  - injection H as <-. constructor.
  - inversion W as [|? ? Wt Wr]; inversion B as [|? ? Bt Br]; subst.
    destruct (finish_full t Wt) as (trk & Htr & _ & _ & _ & Hl). rewrite Htr in H.
    destruct (tracks_of r) as [trks'|] eqn:E; [|discriminate]. injection H as <-.
    constructor; [|apply IH; auto].
    destruct (finished_last_le t trk Wt Hl) as [_ Hlt]. apply Hlt, Bt.
Qed.

Lemma last_opt_in {A} (l : list A) x : last_opt l = Some x -> In x l.
Proof.
  unfold last_opt. destruct (rev l) as [|y q] eqn:E; [discriminate|]. intros H. injection H as <-.
  apply in_rev. rewrite E. left. reflexivity.
Qed.

Theorem cue_import (p : profile) st c total text :
  wf_cue c -> total mod 588 = 0 -> before_end c total ->
  cue_text_matches st c text = true ->
  exists b, block_of c total = Some b /\ cue_parse p total text = Ok b.
Proof.
  intros (Hne & Hlen & Hsheet & Hcat) Hmod Hend Hmatch.
  unfold cue_text_matches in Hmatch. apply lines_eqb_eq in Hmatch.
  unfold cue_parse, SAMPLES_PER_SECTOR. rewrite Hmod. change (0 =? 0) with true. cbv iota.
  unfold parsed_cuesheet. rewrite parse_lines_run, run_filter, Hmatch. unfold cue_lines.
  destruct (cu_tracks c) as [|t1 ts] eqn:ET; [congruence|]. clear Hne.
  cbn [sheet_ok] in Hsheet. destruct Hsheet as (Hn1 & W1 & Hpos1 & Hrest).
  cbn [lenN] in Hlen.
  (* the state after the optional CATALOG line *)
  remember (cu_catalog c) as cat eqn:Ecat.
  assert (Hstart : exists S0, run (mkPs None [] 0 None)
                     (match cat with Some d => [catalog_line st d] | None => [] end ++ flat_map (track_lines st) (t1 :: ts))
                   = run S0 (flat_map (track_lines st) (t1 :: ts)) /\
                   ps_catalog S0 = cat /\ ps_tracks_rev S0 = [] /\ ps_ntracks S0 = 0 /\ ps_wip S0 = None).
  { destruct cat as [d|].
    - destruct Hcat as [Ld Dd]. eexists. split.
      + cbn [app run]. rewrite parse_catalog_line by (try assumption; reflexivity). cbn [bind]. reflexivity.
      + cbn. auto.
    - eexists. split; [reflexivity|]. cbn. auto. }
  destruct Hstart as (S0 & -> & Hc0 & Ht0 & Hn0 & Hw0).
  cbn [flat_map]. rewrite run_app, track_lines_eq. cbn [run].
  rewrite parse_track_line by lia. rewrite Hw0. cbn [bind].
  set (S1 := mkPs (ps_catalog S0) (ps_tracks_rev S0) (ps_ntracks S0) (Some (wip_new (ct_num t1)))).
  assert (Hfs : first_samples t1 = 0).
  { unfold first_samples. destruct (ct_indices t1) as [|i0 q]; [contradiction|]. rewrite samples_frames, Hpos1. reflexivity. }
  rewrite (run_track_body st t1 S1 W1 eq_refl) by (intros _; exact Hfs). cbn [bind].
  destruct (run_tracks_finish st ts (with_wip S1 (wip_full t1)) t1) as (trks & Htrks & Hrun); try assumption.
  - reflexivity.
  - rewrite Hn1. exact Hrest.
  - cbn [with_wip S1 ps_ntracks]. rewrite Hn0. lia.
  - rewrite Hn1. lia.
  - cbn [with_wip S1 ps_tracks_rev]. rewrite Ht0. auto.
  - match goal with |- context [bind (bind (run ?s ?l) ?f) ?g] => idtac end.
    unfold finish_all in Hrun.
    assert (Hps : (st0 <- run (with_wip S1 (wip_full t1)) (flat_map (track_lines st) ts) ;;
                   match ps_wip st0 with
                   | Some w => t <- finish_track w ;; st' <- push_track true st0 t ;; Ok (ps_catalog st', rev (ps_tracks_rev st'))
                   | None => Err EOther
                   end)%res = Ok (cat, trks)).
    { rewrite <- Hc0. cbn [with_wip S1 ps_catalog ps_tracks_rev] in Hrun. rewrite Ht0 in Hrun. cbn [rev app] in Hrun.
      rewrite <- Hrun. destruct (run _ _) as [sx| |]; cbn [bind]; try reflexivity; destruct (ps_wip sx); reflexivity. }
    rewrite Hps. cbn [bind].
    unfold block_of. rewrite ET, Htrks.
    assert (Hlo : leadout_new (last_opt trks) total = Ok (mkLO total IsrcNone false false)).
    { unfold leadout_new. destruct (last_opt trks) as [x|] eqn:EL; [|reflexivity].
      apply last_opt_in in EL.
      pose proof (tracks_of_last_lt total (t1 :: ts) trks) as F.
      assert (Wall : Forall wf_track (t1 :: ts)) by (constructor; [exact W1|eapply sheet_ok_wf; exact Hrest]).
      unfold before_end in Hend. rewrite ET in Hend. specialize (F Wall Htrks Hend).
      rewrite Forall_forall in F. specialize (F x EL).
      destruct (N.leb_spec total (indexvec_last (tr_ix x))); [lia|reflexivity]. }
    rewrite Hlo. cbn [bind]. eexists. split; [reflexivity|].
    do 2 f_equal. destruct cat as [[|d0 dr]|]; try assumption; try reflexivity.
    destruct Hcat as [Ld _]. cbn in Ld. lia.
Qed.
