(* Property C11 — metadata blocks survive a write/read round trip and report their sizes.
   Statements only; proofs are in Blocks_proofs.v, Blocks_proofs2.v, Blocks_level.v and
   BlockList_proofs.v.  All seven block types are covered.
   `ty_block u b` is the invariant the Rust types give a value (field widths, NonZero,
   BlockSize, Contiguous, IndexVec, Digit, ISRCString, String = valid UTF-8 under u);
   `canon_block` excludes the one known aliasing class (STREAMINFO with md5 = Some of
   sixteen zero bytes, finding streaminfo-md5-some-all-zero), for which the full statement
   is refuted below.  UTF-8 validity is any predicate that accepts ASCII (as std's does;
   Utf8_proofs.utf8_valid_std_ascii shows the instance used in the runs qualifies). *)
From FlacMeta Require Import Bytes Blocks BlockList Blocks_proofs Blocks_proofs2 Blocks_level BlockList_proofs Utf8 Utf8_proofs.
Open Scope N_scope.

Definition utf8_ok (u : list N -> bool) : Prop := forall s, Forall (fun b => b < 128) s -> u s = true.

(* every block value the writer accepts reads back equal (with the header, inside a stream) *)
Theorem C11_block_write_read : forall (u : list N -> bool), utf8_ok u -> forall last b bs rest,
  ty_block u b -> canon_block b ->
  write_block last b = Ok bs -> read_block u (bs ++ rest) = Ok (last, b, rest).
Proof. exact block_write_read. Qed.

(* the size a block reports (MetadataBlock::bytes, computed from field widths) is the header
   size field and the number of body bytes written *)
Theorem C11_block_size : forall (u : list N -> bool) last b bs, ty_block u b -> write_block last b = Ok bs ->
  exists body, bs = write_header (mkHeader last (block_type b) (lenN body)) ++ body /\
               write_body b = Ok body /\ block_bytes b = Ok (Some (lenN body)).
Proof. exact block_bytes_spec. Qed.

(* any accepted encoding of a block can be written again (to as many bytes as were read) *)
Theorem C11_block_read_write_read : forall (u : list N -> bool) s last b rest,
  Forall byte s -> read_block u s = Ok (last, b, rest) ->
  ty_block u b /\ canon_block b /\ Forall byte rest /\ lenN rest + 4 <= lenN s /\
  exists bs', write_block last b = Ok bs' /\ lenN bs' + lenN rest = lenN s.
Proof. exact read_block_inv. Qed.

(* whenever write_blocks succeeds, read_blocks accepts its output (also when audio follows) *)
Theorem C11_write_blocks_read_blocks : forall (u : list N -> bool), utf8_ok u -> forall l bs tail,
  Forall (ty_block u) l -> Forall canon_block l ->
  write_blocks l = Ok bs -> read_blocks u (bs ++ tail) = Ok l.
Proof. exact write_blocks_read_blocks. Qed.

(* any section the reader accepts can be written again and re-read to an equal block list *)
Theorem C11_read_blocks_write_blocks : forall (u : list N -> bool), utf8_ok u -> forall bs l,
  Forall byte bs -> read_blocks u bs = Ok l ->
  Forall (ty_block u) l /\ Forall canon_block l /\
  exists bs', write_blocks l = Ok bs' /\ read_blocks u bs' = Ok l.
Proof. exact read_blocks_write_blocks. Qed.

(* lists that break the single-instance / STREAMINFO-first rules are not written ... *)
Theorem C11_rules_refused : forall l bs, write_blocks l = Ok bs -> rules_ok l.
Proof. exact write_blocks_rules. Qed.
(* ... nor lists with a block body over 2^24 - 1 bytes ... *)
Theorem C11_sizes_refused : forall (u : list N -> bool) l bs, Forall (ty_block u) l -> write_blocks l = Ok bs ->
  Forall (fun b => exists body, write_body b = Ok body /\ lenN body <= BLOCKSIZE_MAX) l.
Proof. exact write_blocks_sizes. Qed.
(* ... and the refusal is an error, never a panic *)
Theorem C11_write_never_panics : forall (u : list N -> bool) l, Forall (ty_block u) l ->
  is_panic (write_blocks l) = false.
Proof. exact write_blocks_no_panic. Qed.

(* the full-strength per-block statement (no canon_block) is false of the code: finding *)
Definition C11_statement : Prop := C11_statement_full.
Theorem C11_refuted : ~ C11_statement.
Proof. exact c11_refuted. Qed.
Theorem C11_outside_known : forall (u : list N -> bool) b bs r, utf8_ok u ->
  ty_block u b -> ~ known_class b -> write_body b = Ok bs ->
  read_body u (block_type b) (lenN bs) (bs ++ r) = Ok (b, r).
Proof. exact c11_outside_known. Qed.

(* the UTF-8 hypothesis is satisfiable: by the validator the model runs with *)
Theorem C11_utf8_std_ok : utf8_ok utf8_valid_std.
Proof. exact utf8_valid_std_ascii. Qed.

(* non-vacuity: a typed, canonical list with all seven block types that the writer accepts *)
Definition C11_example : list block :=
  [BStreaminfo (mkSI 4096 4096 12 3000 44100 2 16 80 (Some [245; 63; 134; 135; 109; 205; 119; 131; 34; 92; 147; 186; 138; 147; 140; 125]));
   BSeekTable [SPDefined 0 0 4096; SPDefined 4096 1200 4096; SPPlaceholder];
   BApplication (mkApp 1919510118 [1; 2; 3]);
   BVorbis (mkVC [102; 108; 97; 99] [[84; 73; 84; 76; 69; 61; 195; 169]; []]);
   BCuesheet (CueCDDA (Some [48;49;50;51;52;53;54;55;56;57;48;49;50]) 88200
                [mkTrack 0 1 (IsrcStr [65;66;49;50;51;49;50;49;50;51;52;53]) false true
                         (mkIV (Some (mkIx 0 0)) (mkIx 1176 1) [mkIx 5880 2])]
                (mkLO 588000 IsrcNone false false));
   BPicture (mkPic 3 [105; 109; 97; 103; 101; 47; 112; 110; 103] [] 16 9 24 0 [137; 80; 78; 71]);
   BPadding 5].
Example C11_nonvacuous :
  is_ok (write_blocks C11_example) = true /\
  (forall bs, write_blocks C11_example = Ok bs -> read_blocks utf8_valid_std bs = Ok C11_example).
Proof.
  split; [vm_compute; reflexivity|]. intros bs W. vm_compute in W. apply Ok_inj in W. subst bs.
  vm_compute. reflexivity.
Qed.
