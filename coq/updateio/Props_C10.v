(* Property C10 — metadata updates never disturb the audio and are size-neutral when in place.
   Each theorem is stated in full (all Section variables and hypotheses of Update_proofs.v written
   out) and proved by `exact`.  The two hypotheses are C11's: a block's reported size is the number of
   body bytes it writes, and reading inverts writing; Instance.v exhibits a codec satisfying both. *)
From FlacBase Require Import Res Bits.
From FlacUpdIo Require Import GenUpd Update Update_proofs Instance Instance_proofs.
Open Scope N_scope.

(* update_file returned Ok(false): in place *)
Theorem C10_inplace :
  forall (payload : Type) (psize : payload -> N) (ser : payload -> list N)
         (uclass : okind -> payload -> option N)
         (read_blocks : list N -> res (blocklist payload * list N)),
    (forall p, lenN (ser p) = psize p) ->
    (forall bl bytes rest, write_blocks payload psize ser uclass bl = Ok bytes ->
                           read_blocks (bytes ++ rest) = Ok (bl, rest)) ->
    forall (edit : blocklist payload -> res (blocklist payload)) (pre meta audio : list N)
           (bl : blocklist payload) (st : fstate),
      read_blocks (meta ++ audio) = Ok (bl, audio) ->
      update_file payload psize ser uclass read_blocks edit (length pre) (pre ++ meta ++ audio) = (st, Ok false) ->
      exists (bl1 bl2 : blocklist payload) (meta' : list N),
        edit bl = Ok bl1 /\
        st = {| orig := pre ++ meta' ++ audio; rebuilt := None |} /\
        length meta' = length meta /\
        write_blocks payload psize ser uclass bl2 = Ok meta' /\
        read_blocks (meta' ++ audio) = Ok (bl2, audio) /\
        (bl2 = bl1 \/
         exists n n', first_padding payload (bl_blocks payload bl1) = Some n /\
                      bl2 = with_first_padding payload n' bl1).
Proof. exact update_file_inplace_spec. Qed.

(* update_file returned Ok(true): rebuilt = edited blocks followed by the identical frames; original untouched *)
Theorem C10_rebuilt :
  forall (payload : Type) (psize : payload -> N) (ser : payload -> list N)
         (uclass : okind -> payload -> option N)
         (read_blocks : list N -> res (blocklist payload * list N)),
    (forall bl bytes rest, write_blocks payload psize ser uclass bl = Ok bytes ->
                           read_blocks (bytes ++ rest) = Ok (bl, rest)) ->
    forall (edit : blocklist payload -> res (blocklist payload)) (pre meta audio : list N)
           (bl : blocklist payload) (st : fstate),
      read_blocks (meta ++ audio) = Ok (bl, audio) ->
      update_file payload psize ser uclass read_blocks edit (length pre) (pre ++ meta ++ audio) = (st, Ok true) ->
      exists (bl1 : blocklist payload) (bytes : list N),
        edit bl = Ok bl1 /\
        write_blocks payload psize ser uclass bl1 = Ok bytes /\
        st = {| orig := pre ++ meta ++ audio; rebuilt := Some (bytes ++ audio) |} /\
        read_blocks (bytes ++ audio) = Ok (bl1, audio).
Proof. exact update_file_rebuilt. Qed.

(* any failure — unreadable blocks, callback error, validation error of the edited list — leaves both
   files byte-for-byte untouched (no hypothesis at all: the dry run precedes every write) *)
Theorem C10_failure_untouched :
  forall (payload : Type) (psize : payload -> N) (ser : payload -> list N)
         (uclass : okind -> payload -> option N)
         (read_blocks : list N -> res (blocklist payload * list N))
         (edit : blocklist payload -> res (blocklist payload)) (start : nat) (file : list N)
         (st : fstate) (r : res bool),
    update_file payload psize ser uclass read_blocks edit start file = (st, r) ->
    is_ok r = false -> st = {| orig := file; rebuilt := None |}.
Proof. exact update_file_failure_untouched. Qed.

(* all histories of edits through `update`: the bytes from the first frame on never change *)
Theorem C10_histories :
  forall (payload : Type) (psize : payload -> N) (ser : payload -> list N)
         (uclass : okind -> payload -> option N)
         (read_blocks : list N -> res (blocklist payload * list N)),
    (forall p, lenN (ser p) = psize p) ->
    (forall bl bytes rest, write_blocks payload psize ser uclass bl = Ok bytes ->
                           read_blocks (bytes ++ rest) = Ok (bl, rest)) ->
    forall (edits : list (blocklist payload -> res (blocklist payload))) (audio file fn : list N)
           (rs : list (res bool)),
      file_inv payload read_blocks audio file ->
      run_edits payload psize ser uclass read_blocks edits file = (fn, rs) ->
      file_inv payload read_blocks audio fn /\ skipn (length fn - length audio) fn = audio.
Proof.
  intros payload psize ser uclass read_blocks H1 H2 edits audio file fn rs I R. split.
  - exact (run_edits_audio_constant payload psize ser uclass read_blocks H1 H2 edits audio file fn rs I R).
  - exact (run_edits_suffix payload psize ser uclass read_blocks H1 H2 edits audio file fn rs I R).
Qed.

(* ... and the file decodes to the same PCM, for any frame decoder, as long as the edits leave STREAMINFO alone *)
Theorem C10_histories_same_pcm :
  forall (payload : Type) (psize : payload -> N) (ser : payload -> list N)
         (uclass : okind -> payload -> option N)
         (read_blocks : list N -> res (blocklist payload * list N)),
    (forall p, lenN (ser p) = psize p) ->
    (forall bl bytes rest, write_blocks payload psize ser uclass bl = Ok bytes ->
                           read_blocks (bytes ++ rest) = Ok (bl, rest)) ->
    forall (pcm : Type) (decode_frames : payload -> list N -> pcm)
           (edits : list (blocklist payload -> res (blocklist payload))),
      Forall (keeps_streaminfo payload) edits ->
      forall (audio meta : list N) (bl : blocklist payload) (fn : list N) (rs : list (res bool)),
        read_blocks (meta ++ audio) = Ok (bl, audio) ->
        run_edits payload psize ser uclass read_blocks edits (meta ++ audio) = (fn, rs) ->
        decode_file payload read_blocks pcm decode_frames fn =
        decode_file payload read_blocks pcm decode_frames (meta ++ audio).
Proof. exact run_edits_same_pcm. Qed.

(* the decision in closed form: exact byte accounting on the first PADDING, the missing-padding case and
   the 24-bit limit all route to a rebuild *)
Theorem C10_decision :
  forall (payload : Type) (old new : N) (bl : blocklist payload),
    update_plan payload old new bl =
    match new ?= old with
    | Eq => InPlace bl
    | Lt => match first_padding payload (bl_blocks payload bl) with
            | Some n => if (old - new <=? BLOCK_MAX) && (n + (old - new) <=? BLOCK_MAX)
                        then InPlace (with_first_padding payload (n + (old - new)) bl) else Rebuild bl
            | None => Rebuild bl
            end
    | Gt => match first_padding payload (bl_blocks payload bl) with
            | Some n => if (new - old <=? BLOCK_MAX) && (new - old <=? n)
                        then InPlace (with_first_padding payload (n - (new - old)) bl) else Rebuild bl
            | None => Rebuild bl
            end
    end.
Proof. exact update_plan_char. Qed.

(* the size-only function run by the OCaml driver is the decision update_file takes after its dry run *)
Theorem C10_driver_function_is_the_decision :
  forall (payload : Type) (psize : payload -> N) (ser : payload -> list N)
         (uclass : okind -> payload -> option N),
    (forall p, lenN (ser p) = psize p) ->
    forall (old : N) (bl : blocklist payload),
      update_decision payload psize uclass old bl =
      (new_size <- rmap lenN (write_blocks payload psize ser uclass bl) ;; Ok (update_plan payload old new_size bl)).
Proof. exact update_decision_dry_run. Qed.

(* no panic of its own; and once the dry run succeeded the call succeeds *)
Theorem C10_no_panic :
  forall (payload : Type) (psize : payload -> N) (ser : payload -> list N)
         (uclass : okind -> payload -> option N)
         (read_blocks : list N -> res (blocklist payload * list N)),
    (forall p, lenN (ser p) = psize p) ->
    forall (edit : blocklist payload -> res (blocklist payload)) (start : nat) (file : list N),
      is_panic (read_blocks (skipn start file)) = false ->
      (forall bl, is_panic (edit bl) = false) ->
      is_panic (snd (update_file payload psize ser uclass read_blocks edit start file)) = false.
Proof. exact update_file_no_panic. Qed.

(* non-vacuity at the decision level (Instance.v gives a whole codec and whole files) *)
Example C10_decision_examples :
  let app n := OOther KApplication (n, @None N) in
  let si := (34, @None N) in
  (* old 4+38+(4+10)+(4+64) = 124; application grown by 10: the padding absorbs exactly *)
  d_update 124 si [OPadding 10; app 74] = Ok (false, [(1, 0); (2, 74)]) /\
  d_update 124 si [OPadding 10; app 75] = Ok (true, [(1, 10); (2, 75)]) /\
  d_update 124 si [OPadding 10; app 60] = Ok (false, [(1, 14); (2, 60)]) /\
  (* only the first of two paddings moves *)
  d_update 200 si [app 1; OPadding 3; OPadding 50] = Ok (false, [(2, 1); (1, 95); (1, 50)]) /\
  (* 24-bit limit: growing the first padding beyond 2^24-1 forces a rebuild *)
  d_update 16777300 si [OPadding 16777215; app 1] = Ok (true, [(1, 16777215); (2, 1)]) /\
  (* an oversize block is a validation error *)
  d_update 100 si [app 16777216] = Err EOther /\
  (* two blocks of the same only-once class *)
  d_update 100 si [OOther KPicture (5, Some 2); OOther KPicture (6, Some 2)] = Err EOther.
Proof. vm_compute. repeat split. Qed.

(* the two hypotheses are satisfiable: a concrete codec with the real container layout (Instance.v) *)
Theorem C10_hypotheses_satisfiable :
  (forall p, lenN (i_ser p) = i_psize p) /\
  (forall bl bytes rest, write_blocks ipayload i_psize i_ser i_uclass bl = Ok bytes ->
                         i_read (bytes ++ rest) = Ok (bl, rest)).
Proof. exact (conj i_ser_len i_read_write). Qed.

(* whole files through update_file inside Coq: exact fit in place, one byte more rebuilt, a history *)
Example C10_file_examples :
  i_read demo_file = Ok (demo_bl, demo_audio) /\
  (let '(st, r) := i_update_file (grow_comment 10) 0 demo_file in
   r = Ok false /\ length (orig st) = length demo_file /\ skipn (length (orig st) - 8) (orig st) = demo_audio) /\
  (let '(st, r) := i_update_file (grow_comment 11) 0 demo_file in
   r = Ok true /\ orig st = demo_file /\ option_map (fun f => skipn (length f - 8) f) (rebuilt st) = Some demo_audio) /\
  (let '(fn, rs) := i_run_edits [grow_comment 3; grow_comment 8; (fun _ => Err EOther); grow_comment 1] demo_file in
   rs = [Ok false; Ok true; Err EOther; Ok false] /\ skipn (length fn - 8) fn = demo_audio).
Proof. vm_compute. repeat split. Qed.
