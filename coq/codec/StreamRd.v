(* Codec/StreamRd.v — FlacStreamReader::read (decode.rs): scanning a byte stream for the next frame.
   skip_until(0xFF); peek the next byte, it must be 0b1111100x; try FrameHeader::read_subset on
   0xFF ++ what follows; a header that does not parse (or fails its CRC-8) makes the scan continue
   after the bytes that attempt consumed; a header that parses commits: subframes and CRC-16 follow and
   their failure is an error.  The source is modelled as the flat byte list (the segmentation into
   fill_buf chunks is irrelevant: skip_until/fill_buf/consume are position-exact on a BufRead). *)
From FlacCodec Require Export Dec Stream.
From FlacBase Require Import Crc.
Open Scope N_scope.

Definition no_check (h : header) : res unit := Ok tt.

(* how many bytes a failed read_subset attempt pulls from the source: the shortest prefix on which
   the parser no longer reports end-of-input (the bit reader pulls bytes one at a time, as needed) *)
Fixpoint first_non_eof (fuel k : nat) (bytes : list N) : nat :=
  match fuel with
  | O => k
  | S f => match parse_header_fields None (bits_of_bytes (firstn k bytes)) with
           | Err EEof => if (length bytes <=? k)%nat then k else first_non_eof f (S k) bytes
           | _ => k
           end
  end.

Inductive hdr_attempt := HdrOk | HdrFail (consumed : nat).
Definition header_attempt (bytes : list N) : hdr_attempt :=
  match parse_header_fields None (bits_of_bytes bytes) with
  | Ok (h, s1) => let n := consumed_bytes bytes s1 in
                  if crc8 (firstn n bytes) =? 0 then HdrOk else HdrFail n
  | Err EEof => HdrFail (length bytes)
  | _ => HdrFail (first_non_eof (length bytes) 1 bytes)
  end.

Fixpoint scan (fuel : nat) (bytes : list N) : res (header * list (list Z) * list N) :=
  match fuel with
  | O => Err EEof
  | S f =>
    match bytes with
    | [] => Err EEof
    | b :: rest =>
      if negb (b =? 255) then scan f rest
      else match rest with
           | [] => Err EEof
           | b2 :: _ =>
             if negb (b2 / 2 =? 124) then scan f rest
             else match header_attempt bytes with
                  | HdrOk => dec_frame None no_check bytes
                  | HdrFail k => scan f (skipn (Nat.max 1 k) bytes)
                  end
           end
    end
  end.
Definition stream_read (bytes : list N) := scan (S (length bytes)) bytes.

(* all frames until the first error *)
Fixpoint stream_read_all (fuel : nat) (bytes : list N) (acc : list (header * list Z))
  : list (header * list Z) * stream_end :=
  match fuel with
  | O => (rev acc, EndPanic PFuel)
  | S f => match stream_read bytes with
           | Ok (h, chans, rest) =>
               if (length rest <? length bytes)%nat then stream_read_all f rest ((h, interleave_frame chans) :: acc)
               else (rev acc, EndPanic PFuel)
           | Err e => (rev acc, EndErr e)
           | Panic k => (rev acc, EndPanic k)
           end
  end.
