(* writers/Safety_proofs.v — C08 "never Panic" for whole runs of FlacSampleWriter.
   The only panic a run can reach is the overflow trap of a 2^64 counter in a debug build
   (POverflow); a release build wraps instead, so for Release the theorem assumes that the true
   totals fit (counters_fit).  The block encoder is assumed not to panic (C01/C02's business). *)
From FlacWriters Require Import Writers Lists_proofs Params_proofs Audio_proofs Writers_proofs New_proofs
     Finalize_proofs Encoder_proofs Seek_proofs Finish_proofs Run_proofs.
Open Scope N_scope.

Definition safe {A} (r : res A) : Prop := match r with Panic k => k = POverflow | _ => True end.

Lemma safe_bind {A B} (x : res A) (f : A -> res B) :
  safe x -> (forall a, x = Ok a -> safe (f a)) -> safe (bind x f).
Proof. destruct x; cbn; auto. Qed.

Lemma tail_arith (lr ch : N) : ch <> 0 -> ch <= lr ->
  lr - lr mod ch = ch * (lr / ch) /\ 1 <= lr / ch /\ ch * (lr / ch) <= lr.
Proof.
  intros Hc Hl. pose proof (N.div_mod lr ch Hc) as Dm. pose proof (N.mod_upper_bound lr ch Hc) as Mb.
  remember (lr / ch) as q. remember (lr mod ch) as m. clear Heqq Heqm.
  split; [lia|]. split; [|lia]. destruct (N.eqb_spec q 0); [subst; lia|lia].
Qed.

Section Safety.
Variable enc_block : N -> block -> res (list N).
Variable md5 : list N -> list N.
Hypothesis md5_length : forall l, length (md5 l) = 16%nat.
Hypothesis enc_no_panic : forall n b, is_panic (enc_block n b) = false.

Lemma u64_add_safe p a b : safe (u64_add p a b).
Proof. unfold u64_add. destruct (_ <? _); [exact I|]. destruct p; cbn; auto. Qed.

Lemma encoder_encode_safe p e b : (length b <= 8)%nat -> safe (encoder_encode enc_block p e b).
Proof.
  intros Lb. unfold encoder_encode. destruct (si_max_bs (e_si e) <? block_len b); [exact I|].
  apply safe_bind; [apply u64_add_safe|]. intros wr _.
  destruct (match si_total (e_si e) with Some t => t <? wr | None => false end); [exact I|].
  destruct (N.ltb_spec 8 (N.of_nat (length b))); [lia|].
  apply safe_bind.
  - specialize (enc_no_panic (e_frame_number e) b). destruct (enc_block _ b); cbn in *; auto. discriminate.
  - intros bytes _. apply safe_bind; [apply u64_add_safe|]. intros; exact I.
Qed.

Lemma sample_chunk_safe p ch bytes cl e c :
  1 <= ch <= 8 -> 1 <= bytes <= 4 -> N.of_nat (length c) = ch * cl -> 1 <= cl ->
  safe (sample_encode_chunk enc_block p ch bytes e c).
Proof.
  intros Hch Hb Lc Hcl. unfold sample_encode_chunk. rewrite (update_md5_ok bytes c Hb). cbn [bind].
  destruct (fill_from_samples_ok ch cl c Hch Hcl Lc) as (cs & _ & -> & _ & F & _). cbn [bind].
  apply encoder_encode_safe.
  destruct (channels_of_frames_shape (N.to_nat ch) cs F) as [L _]. lia.
Qed.

(* in a debug build an Ok step cannot have wrapped: the counters of its result fit *)
Lemma debug_step_fits ch bytes e c e' :
  enc_inv e -> sample_encode_chunk enc_block Debug ch bytes e c = Ok e' -> counters_fit e'.
Proof.
  intros I H. unfold sample_encode_chunk in H.
  apply bind_ok in H. destruct H as (m & _ & H). apply bind_ok in H. destruct H as (blk & _ & H).
  pose proof (md5_consume_inv e m I) as I1.
  assert (L : length (e_emitted_rev (md5_consume e m)) = length (e_frames_rev (md5_consume e m))) by (apply (inv_len _ I1)).
  unfold encoder_encode in H.
  destruct (si_max_bs (e_si (md5_consume e m)) <? block_len blk); [discriminate|].
  apply bind_ok in H. destruct H as (wr & Hw & H).
  destruct (match si_total (e_si (md5_consume e m)) with Some t => t <? wr | None => false end); [discriminate|].
  destruct (8 <? N.of_nat (length blk)); [discriminate|].
  apply bind_ok in H. destruct H as (bts & _ & H). apply bind_ok in H. destruct H as (cnt & Hc & H).
  assert (E1 : e_emitted_rev e' = blk :: e_emitted_rev (md5_consume e m)) by (inversion H; reflexivity).
  assert (E2 : e_frames_rev e' = bts :: e_frames_rev (md5_consume e m)) by (inversion H; reflexivity).
  unfold counters_fit, true_samples, true_bytes.
  rewrite (frames_info_cons _ blk bts e' L E1 E2), sum_fst_app, sum_snd_app.
  cbn [sum_fst sum_snd fold_right fst snd].
  unfold u64_add in Hw, Hc.
  destruct (N.ltb_spec (e_samples_written (md5_consume e m) + block_len blk) (2 ^ 64)); [|discriminate].
  destruct (N.ltb_spec (e_count (md5_consume e m) + N.of_nat (length bts)) (2 ^ 64)); [|discriminate].
  rewrite (inv_written _ I1) in *. rewrite (inv_count _ I1) in *. unfold true_samples, true_bytes in *. lia.
Qed.

(* the state the sample writer keeps between blocks, relative to the fresh encoder e0 *)
Definition reach (e0 e : encoder) : Prop :=
  enc_inv e /\ static_eq e0 e /\ frames_nonempty e.

Lemma reach_step ch bytes cl e0 e c e' :
  1 <= ch <= 8 -> 1 <= bytes <= 4 -> N.of_nat (length c) = ch * cl -> 1 <= cl < 65536 ->
  reach e0 e -> sample_encode_chunk enc_block Debug ch bytes e c = Ok e' -> reach e0 e'.
Proof.
  intros Hch Hb Lc Hcl (I & S & Fn) H.
  pose proof (debug_step_fits ch bytes e c e' I H) as Fit.
  destruct (sample_chunk_step enc_block Debug ch bytes cl e c e' Hch Hb Lc Hcl I H Fit) as (I' & S' & (len & Fi) & _).
  split; [exact I'|]. split; [eapply static_eq_trans; eauto|].
  unfold frames_nonempty in *. rewrite Fi. apply Forall_app. split; [exact Fn|]. constructor; [cbn; lia|constructor].
Qed.

Lemma reach_fold ch bytes bs e0 : 1 <= ch <= 8 -> 1 <= bytes <= 4 -> 1 <= bs < 65536 ->
  forall cs e, Forall (fun c => N.of_nat (length c) = ch * bs) cs -> reach e0 e ->
  safe (fold_res (sample_encode_chunk enc_block Debug ch bytes) e cs) /\
  forall e', fold_res (sample_encode_chunk enc_block Debug ch bytes) e cs = Ok e' -> reach e0 e'.
Proof.
  intros Hch Hb Hbs. induction cs as [|c cs IH]; intros e F R; cbn [fold_res].
  - split; [exact I|]. intros e' H. inversion H; subst. exact R.
  - inversion F as [|? ? Lc F']; subst. split.
    + apply safe_bind; [eapply sample_chunk_safe; eauto; lia|].
      intros e1 H1. apply IH; auto. eapply reach_step; eauto.
    + intros e' H. apply bind_ok in H. destruct H as (e1 & H1 & H).
      eapply (IH e1); eauto. eapply reach_step; eauto.
Qed.

(* C08: a run of FlacSampleWriter in a debug build never panics, except by the 2^64 counter trap *)
Theorem sample_run_safe_debug prefix o rate bps ch total w chunks :
  options_wf o -> sample_new Debug prefix o rate bps ch total = Ok w ->
  safe (sample_run enc_block md5 Debug w chunks).
Proof.
  intros Ho Hn.
  pose proof (sample_new_wf Debug _ _ _ _ _ _ _ Ho Hn) as Hw.
  rewrite (sample_chunking enc_block md5 Debug w chunks Hw).
  unfold sample_new in Hn.
  apply bind_ok in Hn. destruct Hn as (b & Hbps & Hn).
  apply bind_ok in Hn. destruct Hn as (t & Ht & Hn).
  apply bind_ok in Hn. destruct Hn as (e0 & He0 & Hn). inversion Hn; subst w. clear Hn.
  unfold signed_bit_count_32 in Hbps.
  destruct (N.leb_spec 1 bps) as [B1|B1]; cbn [andb] in Hbps; [|discriminate].
  destruct (N.leb_spec bps 32) as [B2|B2]; inversion Hbps; subst b. clear Hbps.
  assert (Htt : match t with Some t0 => 1 <= t0 | None => True end).
  { unfold sample_total in Ht. destruct total as [s|]; [|inversion Ht; exact I].
    destruct (exact_div s ch) as [q|]; [|discriminate].
    destruct (N.eqb_spec q 0); inversion Ht; subst. lia. }
  destruct (encoder_new_inv0 Debug _ _ _ _ _ _ _ Ho (conj B1 B2) Htt He0) as (I0 & S0 & Fi0 & M0).
  pose proof (encoder_new_inv Debug _ _ _ _ _ _ _ He0) as Inv. destruct Inv as (Hch & _).
  destruct Ho as (Hbs & _).
  pose proof (bytes_per_sample_pos bps B1) as Hb1. pose proof (bytes_per_sample_le bps B2) as Hb2.
  set (bytes := bytes_per_sample_of bps) in *. set (bs := o_block_size o) in *.
  assert (R0 : reach e0 e0).
  { split; [exact I0|]. split; [apply static_eq_refl|]. unfold frames_nonempty. rewrite Fi0. constructor. }
  unfold sample_run. cbn [fold_res]. rewrite !bind_assoc.
  destruct Hw as [Hk _]. rewrite sample_write_eq by exact Hk.
  cbn [sw_buf sw_enc sw_frame_sample_size sw_channels sw_bytes_per_sample app] in *. fold bs bytes in Hk |- *.
  destruct (drain (N.to_nat (ch * bs)) (concat chunks)) as [cs r] eqn:D.
  apply drain_spec in D; [|exact Hk]. destruct D as (_ & Fcs & Lr).
  assert (Fcs' : Forall (fun c => N.of_nat (length c) = ch * bs) cs).
  { eapply Forall_impl; [|exact Fcs]. cbn. intros c Hc. rewrite Hc. apply N2Nat.id. }
  destruct (reach_fold ch bytes bs e0 Hch (conj Hb1 Hb2) ltac:(lia) cs e0 Fcs' R0) as [Sf Rf].
  rewrite bind_assoc. apply safe_bind; [exact Sf|]. intros e1 He1. cbn [bind].
  specialize (Rf e1 He1).
  unfold sample_finalize. cbn [sw_buf sw_set sw_channels sw_enc sw_bytes_per_sample].
  set (lr := N.of_nat (length r)).
  assert (Hlr : lr < ch * bs).
  { unfold lr. revert Lr. generalize (ch * bs) (length r). clear. intros q n Lr. lia. }
  assert (Elr : lr = N.of_nat (length r)) by reflexivity. clearbody lr.
  assert (Final : forall e2, reach e0 e2 -> safe (encoder_finalize md5 Debug e2)).
  { intros e2 (I2 & S2 & F2).
    pose proof (encoder_finalize_spec md5 md5_length Debug e2 I2 (static_eq_static _ _ S2 S0) F2) as Sp.
    destruct (finalize_total (e_si e2) (e_samples_written e2)).
    - destruct Sp as (f & sel & -> & _). exact I.
    - rewrite Sp. exact I.
    - contradiction. }
  apply safe_bind.
  - destruct (N.leb_spec ch lr) as [Hge|Hlt]; [|exact I].
    destruct (N.eqb_spec ch 0); [lia|].
    destruct (tail_arith lr ch ltac:(assumption) Hge) as (Hmod & Ht1 & Hle).
    rewrite Hmod.
    eapply (sample_chunk_safe Debug ch bytes (lr / ch)); auto; try lia.
    rewrite firstn_length_le; [apply N2Nat.id|].
    assert (X : N.of_nat (N.to_nat (ch * (lr / ch))) <= N.of_nat (length r)) by (rewrite N2Nat.id, <- Elr; exact Hle).
    revert X. generalize (N.to_nat (ch * (lr / ch))) (length r). clear. intros a b0 X. lia.
  - intros e2 He2. apply Final.
    destruct (N.leb_spec ch lr) as [Hge|Hlt]; [|inversion He2; subst; exact Rf].
    destruct (N.eqb_spec ch 0); [lia|].
    destruct (tail_arith lr ch ltac:(assumption) Hge) as (Hmod & Ht1 & Hle).
    rewrite Hmod in He2.
    assert (Ht2 : lr / ch < bs) by (apply N.div_lt_upper_bound; [assumption|exact Hlr]).
    eapply (reach_step ch bytes (lr / ch)); eauto; try lia.
    rewrite firstn_length_le; [apply N2Nat.id|].
    assert (X : N.of_nat (N.to_nat (ch * (lr / ch))) <= N.of_nat (length r)) by (rewrite N2Nat.id, <- Elr; exact Hle).
    revert X. generalize (N.to_nat (ch * (lr / ch))) (length r). clear. intros a b0 X. lia.
Qed.

End Safety.
