(* updateio/IoFault.v — executable model of the I/O stack under faults (property C13).  No proofs here.

   A device is (data, pos).  Every call on it (write / flush / seek / read) takes its outcome from a
   per-kind fault stream: a finite list of outcomes, then a default (ok or error) for ever.
   On top: std's `Write::write_all` (retries Interrupted, loops on short writes, WriteZero on 0),
   `BufWriter` (write, write_all, flush, seek, and the drop that flushes and DISCARDS the error),
   `BufReader` refills.  Programs are what the crate does at the writer interface:
     Encoder::new / encode / finalize_inner (src/encode.rs:1882-2112),
     write_blocks (src/metadata/mod.rs:904), update_file (:1171) in place and rebuilt.
   How bitstream-io / the block serialisers cut their output into write calls is not modelled: programs
   take the chunking as a parameter and the theorems hold for all chunkings. *)
From FlacBase Require Import Res Bits.
From FlacUpdIo Require Import GenUpd Update.
Open Scope N_scope.

(* -------- faults *)
Inductive fault :=
| FOk                (* the call succeeds (a write accepts the whole buffer, a read fills as much as there is) *)
| FShort (k : nat)   (* write/read: transfers min(k, possible) bytes; k = 0 is Ok(0) *)
| FIntr              (* Err(ErrorKind::Interrupted) *)
| FErr.              (* any other error *)

Record stream := { pending : list fault; dflt_err : bool }.
Definition next (s : stream) : fault * stream :=
  match pending s with
  | f :: r => (f, {| pending := r; dflt_err := dflt_err s |})
  | [] => (if dflt_err s then FErr else FOk, s)
  end.
Record sched := { sw : stream; sf : stream; ss : stream; sr : stream }.
Definition quiet : stream := {| pending := []; dflt_err := false |}.
Definition no_faults : sched := {| sw := quiet; sf := quiet; ss := quiet; sr := quiet |}.

(* -------- the device *)
Record dev := { data : list N; pos : nat }.
Record world := { wdev : dev; wsched : sched }.

(* Cursor<Vec<u8>> / File semantics of a write of `bytes` at the current position (zero-fill beyond the end) *)
Definition put (bytes : list N) (d : dev) : dev :=
  match bytes with
  | [] => d   (* never issued: write_all / flush_buf make no call for an empty buffer *)
  | _ => {| data := firstn (pos d) (data d) ++ repeat 0 (pos d - length (data d)) ++ bytes ++ skipn (pos d + length bytes) (data d);
            pos := (pos d + length bytes)%nat |}
  end.

Inductive ior (A : Type) := IOk (a : A) | IErr (interrupted : bool).
Arguments IOk {A} a.
Arguments IErr {A} interrupted.

Definition set_sw (w : world) (s : stream) : sched := {| sw := s; sf := sf (wsched w); ss := ss (wsched w); sr := sr (wsched w) |}.
Definition set_sf (w : world) (s : stream) : sched := {| sw := sw (wsched w); sf := s; ss := ss (wsched w); sr := sr (wsched w) |}.
Definition set_ss (w : world) (s : stream) : sched := {| sw := sw (wsched w); sf := sf (wsched w); ss := s; sr := sr (wsched w) |}.
Definition set_sr (w : world) (s : stream) : sched := {| sw := sw (wsched w); sf := sf (wsched w); ss := ss (wsched w); sr := s |}.

(* Write::write on the device *)
Definition dev_write (buf : list N) (w : world) : ior nat * world :=
  let '(f, s') := next (sw (wsched w)) in
  let sc := set_sw w s' in
  match f with
  | FOk => (IOk (length buf), {| wdev := put buf (wdev w); wsched := sc |})
  | FShort k => let n := Nat.min k (length buf) in (IOk n, {| wdev := put (firstn n buf) (wdev w); wsched := sc |})
  | FIntr => (IErr true, {| wdev := wdev w; wsched := sc |})
  | FErr => (IErr false, {| wdev := wdev w; wsched := sc |})
  end.
(* Write::flush on the device *)
Definition dev_flush (w : world) : ior unit * world :=
  let '(f, s') := next (sf (wsched w)) in
  let w' := {| wdev := wdev w; wsched := set_sf w s' |} in
  match f with FOk | FShort _ => (IOk tt, w') | FIntr => (IErr true, w') | FErr => (IErr false, w') end.
(* Seek::seek(SeekFrom::Start(p)) *)
Definition dev_seek (p : nat) (w : world) : ior nat * world :=
  let '(f, s') := next (ss (wsched w)) in
  let sc := set_ss w s' in
  match f with
  | FOk | FShort _ => (IOk p, {| wdev := {| data := data (wdev w); pos := p |}; wsched := sc |})
  | FIntr => (IErr true, {| wdev := wdev w; wsched := sc |})
  | FErr => (IErr false, {| wdev := wdev w; wsched := sc |})
  end.
(* Seek::stream_position = seek(SeekFrom::Current(0)) *)
Definition dev_seek_cur (w : world) : ior nat * world := dev_seek (pos (wdev w)) w.
(* Read::read with a buffer of n bytes *)
Definition dev_read (n : nat) (w : world) : ior (list N) * world :=
  let '(f, s') := next (sr (wsched w)) in
  let sc := set_sr w s' in
  let avail := firstn n (skipn (pos (wdev w)) (data (wdev w))) in
  match f with
  | FOk => (IOk avail, {| wdev := {| data := data (wdev w); pos := (pos (wdev w) + length avail)%nat |}; wsched := sc |})
  | FShort k => let got := firstn k avail in
                (IOk got, {| wdev := {| data := data (wdev w); pos := (pos (wdev w) + length got)%nat |}; wsched := sc |})
  | FIntr => (IErr true, {| wdev := wdev w; wsched := sc |})
  | FErr => (IErr false, {| wdev := wdev w; wsched := sc |})
  end.

(* -------- std::io::Write::write_all (default) and BufWriter::flush_buf: the same loop; the second
   component is the part not yet written (BufWriter keeps it, write_all forgets it) *)
Fixpoint write_loop (fuel : nat) (b : list N) (w : world) : res unit * list N * world :=
  match b with
  | [] => (Ok tt, [], w)
  | _ => match fuel with
         | O => (Panic PFuel, b, w)
         | S f => match dev_write b w with
                  | (IOk O, w') => (Err EIo, b, w')                       (* ErrorKind::WriteZero *)
                  | (IOk n, w') => write_loop f (skipn n b) w'
                  | (IErr true, w') => write_loop f b w'                   (* Interrupted: retry *)
                  | (IErr false, w') => (Err EIo, b, w')
                  end
         end
  end.
(* enough for any fault stream: every iteration that continues consumed one pending outcome *)
Definition wfuel (w : world) : nat := S (length (pending (sw (wsched w)))).
Definition write_all (b : list N) (w : world) : res unit * world :=
  let '(r, _, w') := write_loop (wfuel w) b w in (r, w').

(* -------- BufWriter<Dev> with capacity cap; state = the buffered bytes *)
Definition bw_flush_buf (b : list N) (w : world) : res unit * list N * world := write_loop (wfuel w) b w.

(* BufWriter::write_all / write_all_cold *)
Definition bw_write_all (cap : nat) (b bytes : list N) (w : world) : res unit * list N * world :=
  if (length bytes <? cap - length b)%nat then (Ok tt, b ++ bytes, w)
  else
    let '(r, b1, w1) := if (cap - length b <? length bytes)%nat then bw_flush_buf b w else (Ok tt, b, w) in
    match r with
    | Ok _ => if (cap <=? length bytes)%nat
              then let '(r2, w2) := write_all bytes w1 in (r2, b1, w2)      (* get_mut().write_all(buf) *)
              else (Ok tt, b1 ++ bytes, w1)
    | _ => (r, b1, w1)
    end.

(* BufWriter::write / write_cold — one call; the caller (default write_all, as Counter<W> has) loops *)
Inductive wr := WOk (n : nat) | WIntr | WFail | WFuel.
Definition bw_write (cap : nat) (b bytes : list N) (w : world) : wr * list N * world :=
  if (length bytes <? cap - length b)%nat then (WOk (length bytes), b ++ bytes, w)
  else
    let '(r, b1, w1) := if (cap - length b <? length bytes)%nat then bw_flush_buf b w else (Ok tt, b, w) in
    match r with
    | Ok _ => if (cap <=? length bytes)%nat
              then match dev_write bytes w1 with                          (* get_mut().write(buf) *)
                   | (IOk n, w2) => (WOk n, b1, w2)
                   | (IErr true, w2) => (WIntr, b1, w2)
                   | (IErr false, w2) => (WFail, b1, w2)
                   end
              else (WOk (length bytes), b1 ++ bytes, w1)
    | Err _ => (WFail, b1, w1)
    | Panic _ => (WFuel, b1, w1)
    end.
Fixpoint bw_write_loop (fuel cap : nat) (b bytes : list N) (w : world) : res unit * list N * world :=
  match bytes with
  | [] => (Ok tt, b, w)
  | _ => match fuel with
         | O => (Panic PFuel, b, w)
         | S f => match bw_write cap b bytes w with
                  | (WOk O, b', w') => (Err EIo, b', w')
                  | (WOk n, b', w') => bw_write_loop f cap b' (skipn n bytes) w'
                  | (WIntr, b', w') => bw_write_loop f cap b' bytes w'
                  | (WFail, b', w') => (Err EIo, b', w')
                  | (WFuel, b', w') => (Panic PFuel, b', w')
                  end
         end
  end.

(* BufWriter::flush = flush_buf then inner flush; BufWriter::seek = flush_buf then inner seek *)
Definition lift {A} (r : ior A * world) : res A * world :=
  match r with (IOk a, w) => (Ok a, w) | (IErr _, w) => (Err EIo, w) end.
Definition bw_flush (b : list N) (w : world) : res unit * list N * world :=
  match bw_flush_buf b w with
  | (Ok _, b', w') => let '(r, w'') := lift (dev_flush w') in (r, b', w'')
  | other => other
  end.
Definition bw_seek (p : nat) (b : list N) (w : world) : res unit * list N * world :=
  match bw_flush_buf b w with
  | (Ok _, b', w') => let '(r, w'') := lift (dev_seek p w') in (rmap (fun _ => tt) r, b', w'')
  | other => other
  end.

(* BufWriter has no stream_position of its own: the default is seek(SeekFrom::Current(0)) *)
Definition bw_seek_cur (b : list N) (w : world) : res unit * list N * world :=
  match bw_flush_buf b w with
  | (Ok _, b', w') => let '(r, w'') := lift (dev_seek_cur w') in (rmap (fun _ => tt) r, b', w'')
  | other => other
  end.

(* -------- programs at the writer interface W *)
Inductive stack := SRaw | SBuf (cap : nat).
Inductive wop :=
| WWriteAll (bytes : list N)    (* W::write_all(bytes) *)
| WWriteLoop (bytes : list N)   (* default write_all over W::write, as Counter<W> does *)
| WSeek (p : nat)               (* W::seek(SeekFrom::Start(p)) *)
| WSeekCur                      (* W::stream_position() *)
| WFlush.                       (* W::flush() *)

(* one op; the BufWriter's buffer is threaded (always [] for SRaw) *)
Definition run_wop (st : stack) (op : wop) (b : list N) (w : world) : res unit * list N * world :=
  match st, op with
  | SRaw, WWriteAll bytes | SRaw, WWriteLoop bytes => let '(r, w') := write_all bytes w in (r, b, w')
  | SRaw, WSeek p => let '(r, w') := lift (dev_seek p w) in (rmap (fun _ => tt) r, b, w')
  | SRaw, WSeekCur => let '(r, w') := lift (dev_seek_cur w) in (rmap (fun _ => tt) r, b, w')
  | SRaw, WFlush => let '(r, w') := lift (dev_flush w) in (r, b, w')
  | SBuf cap, WWriteAll bytes => bw_write_all cap b bytes w
  | SBuf cap, WWriteLoop bytes => bw_write_loop (length bytes + wfuel w) cap b bytes w
  | SBuf cap, WSeek p => bw_seek p b w
  | SBuf cap, WSeekCur => bw_seek_cur b w
  | SBuf cap, WFlush => bw_flush b w
  end.
Fixpoint run_wops (st : stack) (p : list wop) (b : list N) (w : world) : res unit * list N * world :=
  match p with
  | [] => (Ok tt, b, w)
  | op :: r => match run_wop st op b w with
               | (Ok _, b', w') => run_wops st r b' w'
               | other => other
               end
  end.
(* the whole life of the writer: run the program (stopping at the first error), then drop it.
   Drop for BufWriter: `let _ = self.flush_buf()` — the error is discarded. *)
Definition run_writer (st : stack) (p : list wop) (w : world) : res unit * world :=
  let '(r, b, w1) := run_wops st p [] w in
  match st with
  | SRaw => (r, w1)
  | SBuf _ => let '(_, _, w2) := bw_flush_buf b w1 in (r, w2)
  end.

(* what the program means on a perfect device *)
Definition ideal_op (op : wop) (d : dev) : dev :=
  match op with
  | WWriteAll bytes | WWriteLoop bytes => put bytes d
  | WSeek p => {| data := data d; pos := p |}
  | WSeekCur | WFlush => d
  end.
Definition ideal (p : list wop) (d : dev) : dev := fold_left (fun d op => ideal_op op d) p d.

(* through a BufWriter the last bytes are only known to have arrived if a checked flush (or seek)
   follows the last write *)
Fixpoint clean_after (c : bool) (p : list wop) : bool :=
  match p with
  | [] => c
  | WWriteAll _ :: r | WWriteLoop _ :: r => clean_after false r
  | WFlush :: r | WSeek _ :: r | WSeekCur :: r => clean_after true r
  end.
Definition ends_flushed (p : list wop) : bool := clean_after true p.

(* -------- the crate's programs.  `ck` cuts a byte string into the pieces handed to single calls. *)
Definition ck_ok (ck : list N -> list (list N)) : Prop := forall bs, concat (ck bs) = bs.

(* Encoder::new :1941-1953 (stream_position, write_blocks on the bare writer), Encoder::encode per frame
   through Counter<W> (:2013), finalize_inner :2106-2108 (seek to start, write_blocks) and — after the
   fix b2e53f1 — the checked flush *)
Definition encode_prog (ck : list N -> list (list N)) (start : nat) (hdr0 : list N) (frames : list (list N)) (hdr1 : list N) : list wop :=
  WSeekCur :: map WWriteAll (ck hdr0) ++ flat_map (fun f => map WWriteLoop (ck f)) frames
  ++ WSeek start :: map WWriteAll (ck hdr1) ++ [WFlush].
(* the same without the final flush: the code before the fix *)
Definition encode_prog_unfixed (ck : list N -> list (list N)) (start : nat) (hdr0 : list N) (frames : list (list N)) (hdr1 : list N) : list wop :=
  WSeekCur :: map WWriteAll (ck hdr0) ++ flat_map (fun f => map WWriteLoop (ck f)) frames
  ++ WSeek start :: map WWriteAll (ck hdr1).

(* write_blocks :904 on the caller's writer *)
Definition write_blocks_prog (ck : list N -> list (list N)) (bytes : list N) : list wop := map WWriteAll (ck bytes).

(* -------- reading: BufReader<&mut F> refills until the parser has the bytes it needs *)
Definition rfuel (n : nat) (w : world) : nat := S (n + length (pending (sr (wsched w)))).
Fixpoint fill_until (fuel cap need : nat) (got : list N) (w : world) : res (list N) * world :=
  if (need <=? length got)%nat then (Ok got, w)
  else match fuel with
       | O => (Panic PFuel, w)
       | S f => match dev_read cap w with
                | (IOk [], w') => (Err EEof, w')                          (* read_exact: UnexpectedEof *)
                | (IOk bs, w') => fill_until f cap need (got ++ bs) w'
                | (IErr true, w') => fill_until f cap need got w'          (* read_exact retries Interrupted *)
                | (IErr false, w') => (Err EIo, w')
                end
       end.
(* io::copy(&mut reader, &mut tmp): until a read returns 0 *)
Fixpoint read_to_end (fuel cap : nat) (acc : list N) (w : world) : res (list N) * world :=
  match fuel with
  | O => (Panic PFuel, w)
  | S f => match dev_read cap w with
           | (IOk [], w') => (Ok acc, w')
           | (IOk bs, w') => read_to_end f cap (acc ++ bs) w'
           | (IErr true, w') => read_to_end f cap acc w'
           | (IErr false, w') => (Err EIo, w')
           end
  end.

Section UpdateIo.
  Variable payload : Type.
  Variable psize : payload -> N.
  Variable ser : payload -> list N.
  Variable uclass : okind -> payload -> option N.
  Variable read_blocks : list N -> res (blocklist payload * list N).

  (* update_file :1171 over two devices: w1 the original (Read + Write + Seek), w2 what `rebuilt()` opens.
     cap = capacity of BufReader/BufWriter (8192 in std); fixed = with the checked flush of commit 441bd12. *)
  Definition update_file_io (fixed : bool) (cap : nat) (ck : list N -> list (list N))
             (edit : blocklist payload -> res (blocklist payload)) (rebuilt_ok : bool)
             (w1 w2 : world) : res bool * world * world :=
    match dev_seek_cur w1 with                                            (* :1239 stream_position *)
    | (IErr _, w1a) => (Err EIo, w1a, w2)
    | (IOk start, w1a) =>
        let s := skipn start (data (wdev w1a)) in
        match read_blocks s with                                          (* :1243 through Counter(BufReader) *)
        | Err e => (Err e, w1a, w2)
        | Panic k => (Panic k, w1a, w2)
        | Ok (bl, rest) =>
            let need := (length s - length rest)%nat in
            match fill_until (rfuel need w1a) cap need [] w1a with
            | (Err e, w1b) => (Err e, w1b, w2)
            | (Panic k, w1b) => (Panic k, w1b, w2)
            | (Ok got, w1b) =>
                match edit bl with                                        (* :1250 *)
                | Err e => (Err e, w1b, w2)
                | Panic k => (Panic k, w1b, w2)
                | Ok bl1 =>
                    match rmap lenN (write_blocks payload psize ser uclass bl1) with   (* dry run :1252 *)
                    | Err e => (Err e, w1b, w2)
                    | Panic k => (Panic k, w1b, w2)
                    | Ok new_size =>
                        match update_plan payload (N.of_nat need) new_size bl1 with
                        | InPlace bl2 =>
                            match write_blocks payload psize ser uclass bl2 with
                            | Err e => (Err e, w1b, w2)
                            | Panic k => (Panic k, w1b, w2)
                            | Ok bytes =>
                                match dev_seek start w1b with             (* original.seek(start) *)
                                | (IErr _, w1c) => (Err EIo, w1c, w2)
                                | (IOk _, w1c) =>
                                    let prog := map WWriteAll (ck bytes) ++ (if fixed then [WFlush] else []) in
                                    let '(r, w1d) := run_writer (SBuf cap) prog w1c in
                                    (rmap (fun _ => false) r, w1d, w2)
                                end
                            end
                        | Rebuild bl2 =>                                  (* rebuild_file :1185 *)
                            match write_blocks payload psize ser uclass bl2 with
                            | Err e => (Err e, w1b, w2)
                            | Panic k => (Panic k, w1b, w2)
                            | Ok bytes =>
                                match read_to_end (rfuel (length (data (wdev w1b))) w1b) cap (skipn need got) w1b with
                                | (Err e, w1c) => (Err e, w1c, w2)
                                | (Panic k, w1c) => (Panic k, w1c, w2)
                                | (Ok tail, w1c) =>
                                    if rebuilt_ok
                                    then let '(r, w2') := run_writer SRaw [WWriteAll (bytes ++ tail)] w2 in
                                         (rmap (fun _ => true) r, w1c, w2')
                                    else (Err EIo, w1c, w2)
                                end
                            end
                        end
                    end
                end
            end
        end
    end.
End UpdateIo.

(* -------- instances run by the OCaml driver *)
(* canonical observation of a writer run: outcome class and the device bytes *)
Definition d_run_writer (st : stack) (p : list wop) (sc : sched) : res unit * list N :=
  let '(r, w) := run_writer st p {| wdev := {| data := []; pos := 0 |}; wsched := sc |} in (r, data (wdev w)).

(* update_file over the size-only codec of Update.d_*: payload = (body size, class); bodies are zeros;
   the reader is an oracle for this one file (blocks `before`, audio at `audio_off`); the callback
   returns the list `after` (None = it fails).  Observation: outcome and the lengths of both devices. *)
Definition d_update_io (fixed : bool) (cap audio_off file_len : nat) (si : dpayload)
           (before : list (oblock dpayload)) (after : option (list (oblock dpayload))) (rebuilt_ok : bool)
           (sc1 sc2 : sched) : res bool * nat * nat :=
  let rd := fun s : list N => Ok ({| bl_si := si; bl_blocks := before |}, skipn audio_off s) in
  let edit := fun _ : blocklist dpayload =>
                match after with Some bs => Ok {| bl_si := si; bl_blocks := bs |} | None => Err EOther end in
  let '(r, w1, w2) := update_file_io dpayload fst (fun p => repeat 0 (N.to_nat (fst p))) (fun _ p => snd p) rd
                        fixed cap (fun bs => [bs]) edit rebuilt_ok
                        {| wdev := {| data := repeat 0 file_len; pos := 0 |}; wsched := sc1 |}
                        {| wdev := {| data := []; pos := 0 |}; wsched := sc2 |} in
  (r, length (data (wdev w1)), length (data (wdev w2))).
