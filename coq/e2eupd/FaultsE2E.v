(* e2eupd/FaultsE2E.v — property C13 for the REAL metadata codec.
   update_file_io (coq/updateio/IoFault.v: update_file over two faulty devices — short writes, failing writes,
   flushes and seeks, interrupted reads, a BufWriter of any capacity, any chunking) is run with the metadata
   area's reader and writer.  The one hypothesis of C13_update_file about the block codec — the reader consumes
   a prefix of its input — is PROVED for the real reader (on byte strings; a device holds bytes, so the reader
   is guarded by that test).  Hence: whenever the call returns Ok under ANY fault schedule, the two devices hold
   exactly what the fault-free update_file over the real codec computes, and the theorems of UpdateE2E.v apply to
   the bytes on the devices. *)
From FlacBase Require Import Res Bits.
From FlacMeta Require Import Bytes Bytes_proofs Blocks BlockList Blocks_proofs Blocks_level BlockList_proofs.
From FlacUpdIo Require GenUpd Update Update_proofs Update_cond IoFault IoFault_proofs Props_C13.
From FlacCodec Require Ast Stream Spec.
From FlacE2EUpd Require Import RealCodec CodecView UpdateE2E.
Open Scope N_scope.

Module IO := FlacUpdIo.IoFault.

Section Faults.
Variable u : list N -> bool.
Hypothesis u_ascii : forall s, Forall (fun b => b < 128) s -> u s = true.

(* the reader as it meets a device: the source yields bytes *)
Definition read_blocks_b (s : list N) : res (U.blocklist block * list N) :=
  if forallb byteb s then read_blocks_r u s else Err EOther.

Lemma forallb_byteb s : forallb byteb s = true <-> Forall byte s.
Proof.
  rewrite forallb_forall, Forall_forall. unfold byteb, byte.
  split; intros H x Hx; specialize (H x Hx); [apply N.ltb_lt|apply N.ltb_lt]; exact H.
Qed.

Lemma read_blocks_b_prefix : forall s bl rest, read_blocks_b s = Ok (bl, rest) -> exists m, s = m ++ rest.
Proof.
  intros s bl rest H. unfold read_blocks_b in H. destruct (forallb byteb s) eqn:B; [|discriminate].
  apply forallb_byteb in B. destruct (rb_read u _ _ _ H) as (RR & _).
  exact (read_rest_prefix u s _ _ B RR).
Qed.

Lemma read_blocks_b_bytes s : Forall byte s -> read_blocks_b s = read_blocks_r u s.
Proof. intros H. unfold read_blocks_b. apply forallb_byteb in H. rewrite H. reflexivity. Qed.

Lemma update_file_b_r edit start file : Forall byte (skipn start file) ->
  U.update_file block psize_r ser_r uclass_r read_blocks_b edit start file =
  U.update_file block psize_r ser_r uclass_r (read_blocks_r u) edit start file.
Proof. intros H. unfold U.update_file. rewrite (read_blocks_b_bytes _ H). reflexivity. Qed.

(* Ok under any fault schedule => the devices hold what the fault-free update over the real codec computes *)
Theorem real_update_under_faults cap ck edit rb (w1 w2 : IO.world) b w1' w2' :
  (0 < cap)%nat -> IO.ck_ok ck -> FlacUpdIo.IoFault_proofs.honest (IO.sr (IO.wsched w1)) ->
  (IO.pos (IO.wdev w1) <= length (IO.data (IO.wdev w1)))%nat ->
  IO.wdev w2 = {| IO.data := []; IO.pos := 0 |} ->
  Forall byte (IO.data (IO.wdev w1)) ->
  IO.update_file_io block psize_r ser_r uclass_r read_blocks_b true cap ck edit rb w1 w2 = (Ok b, w1', w2') ->
  U.update_file block psize_r ser_r uclass_r (read_blocks_r u) edit (IO.pos (IO.wdev w1)) (IO.data (IO.wdev w1)) =
    ({| U.orig := IO.data (IO.wdev w1'); U.rebuilt := if b then Some (IO.data (IO.wdev w2')) else None |}, Ok b).
Proof.
  intros Hc Hck Hh Hp Hw2 Hb H.
  rewrite <- update_file_b_r.
  - exact (FlacUpdIo.Props_C13.C13_update_file block psize_r ser_r uclass_r read_blocks_b read_blocks_b_prefix
             cap ck edit rb w1 w2 b w1' w2' Hc Hck Hh Hp Hw2 H).
  - rewrite <- (firstn_skipn (IO.pos (IO.wdev w1)) (IO.data (IO.wdev w1))) in Hb. apply Forall_app in Hb. apply Hb.
Qed.

(* ... so, for a device that held prefix ++ metadata ++ frames: Ok(false) under faults means the device now holds
   the in-place result (same length, reads back as the edited list up to the first PADDING's size, the decoder
   front end sees the same frames), Ok(true) means the second device holds edited blocks ++ the identical frames *)
Theorem real_update_under_faults_inplace cap ck edit rb (w1 w2 : IO.world) w1' w2' pre meta audio bl :
  (0 < cap)%nat -> IO.ck_ok ck -> FlacUpdIo.IoFault_proofs.honest (IO.sr (IO.wsched w1)) ->
  IO.wdev w1 = {| IO.data := pre ++ meta ++ audio; IO.pos := length pre |} ->
  IO.wdev w2 = {| IO.data := []; IO.pos := 0 |} ->
  Forall byte (pre ++ meta ++ audio) -> typed_edit u edit ->
  read_blocks_r u (meta ++ audio) = Ok (bl, audio) ->
  IO.update_file_io block psize_r ser_r uclass_r read_blocks_b true cap ck edit rb w1 w2 = (Ok false, w1', w2') ->
  exists bl1 bl2 meta' si,
    edit bl = Ok bl1 /\
    IO.data (IO.wdev w1') = pre ++ meta' ++ audio /\ length meta' = length meta /\
    write_blocks (of_upd bl2) = Ok meta' /\
    read_blocks u (meta' ++ audio) = Ok (of_upd bl2) /\
    U.bl_si block bl2 = BStreaminfo si /\
    FlacCodec.Stream.read_metadata_min (meta' ++ audio) = Some (convC si, audio) /\
    (bl2 = bl1 \/ exists n n', U.first_padding block (U.bl_blocks block bl1) = Some n /\
                               bl2 = U.with_first_padding block n' bl1).
Proof.
  intros Hc Hck Hh Hw1 Hw2 Hb K R H.
  assert (Hp : (IO.pos (IO.wdev w1) <= length (IO.data (IO.wdev w1)))%nat).
  { rewrite Hw1. cbn [IO.pos IO.data]. rewrite app_length. lia. }
  assert (Hb1 : Forall byte (IO.data (IO.wdev w1))) by (rewrite Hw1; exact Hb).
  pose proof (real_update_under_faults cap ck edit rb w1 w2 false w1' w2' Hc Hck Hh Hp Hw2 Hb1 H) as E.
  rewrite Hw1 in E. cbn [IO.pos IO.data] in E.
  apply Forall_app in Hb. destruct Hb as [_ Hma].
  destruct (real_inplace u u_ascii edit pre meta audio bl _ K Hma R E) as (bl1 & bl2 & meta' & si & E1 & St & L & W & R2 & S & M & F).
  injection St as St. exists bl1, bl2, meta', si. repeat split; auto.
Qed.

Theorem real_update_under_faults_rebuilt cap ck edit rb (w1 w2 : IO.world) w1' w2' pre meta audio bl :
  (0 < cap)%nat -> IO.ck_ok ck -> FlacUpdIo.IoFault_proofs.honest (IO.sr (IO.wsched w1)) ->
  IO.wdev w1 = {| IO.data := pre ++ meta ++ audio; IO.pos := length pre |} ->
  IO.wdev w2 = {| IO.data := []; IO.pos := 0 |} ->
  Forall byte (pre ++ meta ++ audio) -> typed_edit u edit ->
  read_blocks_r u (meta ++ audio) = Ok (bl, audio) ->
  IO.update_file_io block psize_r ser_r uclass_r read_blocks_b true cap ck edit rb w1 w2 = (Ok true, w1', w2') ->
  exists bl1 bytes si,
    edit bl = Ok bl1 /\ write_blocks (of_upd bl1) = Ok bytes /\
    IO.data (IO.wdev w1') = pre ++ meta ++ audio /\
    IO.data (IO.wdev w2') = bytes ++ audio /\
    read_blocks u (bytes ++ audio) = Ok (of_upd bl1) /\
    U.bl_si block bl1 = BStreaminfo si /\
    FlacCodec.Stream.read_metadata_min (bytes ++ audio) = Some (convC si, audio).
Proof.
  intros Hc Hck Hh Hw1 Hw2 Hb K R H.
  assert (Hp : (IO.pos (IO.wdev w1) <= length (IO.data (IO.wdev w1)))%nat).
  { rewrite Hw1. cbn [IO.pos IO.data]. rewrite app_length. lia. }
  assert (Hb1 : Forall byte (IO.data (IO.wdev w1))) by (rewrite Hw1; exact Hb).
  pose proof (real_update_under_faults cap ck edit rb w1 w2 true w1' w2' Hc Hck Hh Hp Hw2 Hb1 H) as E.
  rewrite Hw1 in E. cbn [IO.pos IO.data] in E.
  apply Forall_app in Hb. destruct Hb as [_ Hma].
  destruct (real_rebuilt u u_ascii edit pre meta audio bl _ K Hma R E) as (bl1 & bytes & si & E1 & W & St & R1 & S & M).
  injection St as St1 St2. exists bl1, bytes, si. repeat split; auto.
Qed.

End Faults.
