(* C06 — seeking lands exactly on the requested position, for every reader and history.
   Full statements; proofs in Main_proofs.v and Cursor_proofs.v. *)
From FlacReaders Require Import Spec Lists_proofs Main_proofs Examples.
Open Scope N_scope.

(* Byte reader: for every valid file (valid stream, truthful seek table of any shape) and every
   history over {read, fill_buf, consume k <= available, seek Start/Current/End with u64/i64
   arguments}: every call obeys the contract of an abstract cursor over pcm_bytes, where a seek
   request resolves by Spec.seek_target (std::io::Seek arithmetic; outside [0, len] = failure) and a
   successful seek answers the new position; hence after a successful seek the data delivered until
   the next seek is pcm_bytes[t..] in order, and after a failed seek the cursor is where it was or
   at the end, where nothing is delivered. *)
Theorem C06_byte_reader : forall F, valid_file F -> forall ops,
  Forall bop_ok (snd (byte_run F ops)) ->
  let atr := map (abs_b F) (snd (byte_run F ops)) in
  Forall (cur_ok (pcm_bytes F)) atr /\ chained 0 atr (bpos F (fst (byte_run F ops))) /\
  seeks_land (pcm_bytes F) atr /\ failed_seeks_safe (pcm_bytes F) atr.
Proof. exact c06_bytes. Qed.

(* Sample reader (and iterator): seek s with s <= total lands on interleaved sample s * channels;
   s > total (or a reader opened without Seek) fails. *)
Theorem C06_sample_reader : forall F, valid_file F -> forall ops,
  Forall sop_ok (snd (sample_run F ops)) ->
  let atr := map (abs_s F) (snd (sample_run F ops)) in
  Forall (cur_ok (pcm F)) atr /\ chained 0 atr (spos F (fst (sample_run F ops))) /\
  seeks_land (pcm F) atr /\ failed_seeks_safe (pcm F) atr.
Proof. exact c06_samples. Qed.

(* Channel reader, every channel. *)
Theorem C06_channel_reader : forall F, valid_file F -> forall ops c,
  (c < N.to_nat (f_channels F))%nat ->
  Forall cop_ok (snd (chan_run F ops)) ->
  let atr := map (abs_c F c) (snd (chan_run F ops)) in
  Forall (cur_ok (chan_pcm F c)) atr /\ chained 0 atr (cpos (fst (chan_run F ops))) /\
  seeks_land (chan_pcm F c) atr /\ failed_seeks_safe (chan_pcm F c) atr.
Proof. exact c06_channels. Qed.

(* A sample-based seek beyond the end of a seekable stream fails, and afterwards no data is
   delivered and every polling call signals end of stream, until the next seek. *)
Theorem C06_sample_seek_beyond_end : forall F, valid_file F -> forall ops,
  Forall sop_ok (snd (sample_run F ops)) -> f_seekable F = true ->
  forall pre r s o post, snd (sample_run F ops) = pre ++ (r, SSeek s, o) :: post ->
    total_frames F < s ->
    (exists e, o = OErr e) /\
    (seek_free (map (abs_s F) post) ->
       delivered (pcm F) (map (abs_s F) post) = [] /\
       Forall (fun x => polls x = true -> eos x = true) (map (abs_s F) post)).
Proof. exact c06_samples_beyond_end. Qed.

Theorem C06_channel_seek_beyond_end : forall F, valid_file F -> forall ops c,
  (c < N.to_nat (f_channels F))%nat ->
  Forall cop_ok (snd (chan_run F ops)) -> f_seekable F = true ->
  forall pre r s o post, snd (chan_run F ops) = pre ++ (r, CSeek s, o) :: post ->
    total_frames F < s ->
    (exists e, o = OErr e) /\
    (seek_free (map (abs_c F c) post) ->
       delivered (chan_pcm F c) (map (abs_c F c) post) = [] /\
       Forall (fun x => polls x = true -> eos x = true) (map (abs_c F c) post)).
Proof. exact c06_channels_beyond_end. Qed.

(* The invariants: buffered data ++ data from the decoder position = data from the logical position. *)
Theorem C06_byte_invariant : forall F, valid_file F -> forall ops,
  Forall bop_ok (snd (byte_run F ops)) ->
  let r := fst (byte_run F ops) in
  br_buf r ++ bdata F (d_rest (br_dec r)) = dropN (bpos F r) (pcm_bytes F) /\
  bdata F (d_rest (br_dec r)) = dropN (d_cur (br_dec r) * bytes_per_pcm_frame F) (pcm_bytes F).
Proof. exact c06_byte_invariant. Qed.

Theorem C06_sample_invariant : forall F, valid_file F -> forall ops,
  Forall sop_ok (snd (sample_run F ops)) ->
  let r := fst (sample_run F ops) in
  sr_buf r ++ sdata (d_rest (sr_dec r)) = dropN (spos F r) (pcm F) /\
  sdata (d_rest (sr_dec r)) = dropN (d_cur (sr_dec r) * f_channels F) (pcm F).
Proof. exact c06_sample_invariant. Qed.

Theorem C06_channel_invariant : forall F, valid_file F -> forall ops c,
  (c < N.to_nat (f_channels F))%nat ->
  Forall cop_ok (snd (chan_run F ops)) ->
  let r := fst (chan_run F ops) in
  dropN (cr_consumed r) (nth c (d_buf (cr_dec r)) []) ++ cdata c (d_rest (cr_dec r)) =
    dropN (cpos r) (chan_pcm F c).
Proof. exact c06_chan_invariant. Qed.

(* ---- non-vacuity: concrete histories with seeks that satisfy the hypotheses *)
Example C06_nonvacuous_samples :
  valid_file (ex_file Repaired) /\ Forall sop_ok (snd (sample_run (ex_file Repaired) ex_seek_ops)) /\
  outs (snd (sample_run (ex_file Repaired) ex_seek_ops)) =
    [OSamples (seg 0 5); OUnit; OSamples [8; -8]%Z; OUnit; OSamples (seg 28 2); OUnit; OSamples [];
     OErr EOther; OSamples []; OUnit; OItem (Some 1%Z)].
Proof.
  split; [exact ex_file_valid|]. split; [forall_trace|].
  vm_compute. reflexivity.
Qed.

Example C06_nonvacuous_bytes :
  Forall bop_ok (snd (byte_run (ex_file Repaired) ex_byte_ops)) /\
  lenN (pcm_bytes (ex_file Repaired)) = 128 /\ bseg 0 5 = [1; 0; 156; 255; 2] /\
  outs (snd (byte_run (ex_file Repaired) ex_byte_ops)) =
    [OBytes (bseg 0 5); OPos 124; OBytes [8; 0; 248; 255]; OPos 1; OBytes (bseg 1 3); OPos 4;
     OErr EEof; OBytes []; OPos 128; OBytes []; OErr EIo; OErr EIo].
Proof.
  split; [forall_trace|].
  repeat split; vm_compute; reflexivity.
Qed.

Example C06_nonvacuous_channels :
  Forall cop_ok (snd (chan_run (ex_file Repaired) ex_chan_ops)) /\
  outs (snd (chan_run (ex_file Repaired) ex_chan_ops)) =
    [OChans (cseg 0 15); OUnit; OChans (cseg 14 1); OUnit; OChans [[8]; [-8]]%Z; OUnit;
     OChans [[]; []]; OChans [[]; []]; OUnit; OChans (cseg 29 1); OErr EOther; OChans [[]; []]].
Proof. split; [forall_trace|]. vm_compute. reflexivity. Qed.

(* ---- the defects of the original revision, as computations on the model *)
(* F-C06a: End(0) on a 128-byte stream answers 32 (the sample count) *)
Example C06_orig_end_uses_sample_count :
  outs (snd (byte_run (ex_file Orig) [BSeek (End_ 0); BFill])) = [OPos 32; OBytes (bseg 32 28)] /\
  outs (snd (byte_run (ex_file Repaired) [BSeek (End_ 0); BFill])) = [OPos 128; OBytes []].
Proof. split; vm_compute; reflexivity. Qed.

(* F-C06b: after seek(31) the channel reader returns the frame decoded before the seek *)
Example C06_orig_channel_seek_stale :
  outs (snd (chan_run (ex_file Orig) [CFill; CSeek 31; CFill])) =
    [OChans (cseg 0 15); OUnit; OChans (cseg 1 14)] /\
  outs (snd (chan_run (ex_file Repaired) [CFill; CSeek 31; CFill])) =
    [OChans (cseg 0 15); OUnit; OChans [[8]; [-8]]%Z].
Proof. split; vm_compute; reflexivity. Qed.

(* ---- surfaced by the model, not replayable on this 64-bit host: on a target with a 32-bit usize the
   skip loop's `usize::try_from(desired_pos - new_pos).unwrap()` panics for a far-away target instead
   of reporting the seek as beyond the end *)
Example C06_usize32_far_seek_panics :
  outs (snd (byte_run {| f_slots := ex_slots; f_channels := 2; f_bps := 16; f_total := Some 32; f_table := None;
                         f_seekable := true; f_endian := LE; f_profile := Release; f_usize_bits := 32;
                         f_rev := Repaired |} [BSeek (Start 1099511627776)])) = [OPanic PUnwrap] /\
  outs (snd (byte_run (ex_file Repaired) [BSeek (Start 1099511627776)])) = [OErr EEof].
Proof. split; vm_compute; reflexivity. Qed.
