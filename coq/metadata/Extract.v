(* Extraction of the metadata model for the correspondence driver (ExtrOcamlBasic only). *)
From Coq Require Extraction ExtrOcamlBasic.
From FlacMeta Require Import Bytes Blocks BlockList Utf8.
Extraction Language OCaml.
Extraction "metadata_model.ml" read_metadata read_blocks write_blocks block_bytes body_size utf8_valid_std.
