(* Property C08 — the encoded file depends only on PCM and options, not on how it was written. *)
From FlacWriters Require Import Writers Lists_proofs Params_proofs Writers_proofs New_proofs.
Open Scope N_scope.

(* every partition of the input into write calls gives the same finished stream, STREAMINFO
   and blocks (or the same error): sample writer, any chunks (also mid-PCM-frame) *)
Theorem C08_chunking_sample :
  forall enc_block md5 p prefix o rate bps ch total w (chunks : list (list Z)),
    options_wf o -> sample_new p prefix o rate bps ch total = Ok w ->
    sample_run enc_block md5 p w chunks = sample_run enc_block md5 p w [concat chunks].
Proof. intros. apply sample_chunking. eapply sample_new_wf; eauto. Qed.

(* byte writer, either byte order, any chunks (also mid-sample) *)
Theorem C08_chunking_byte :
  forall enc_block md5 p en prefix o rate bps ch total w (chunks : list (list N)),
    options_wf o -> byte_new p en prefix o rate bps ch total = Ok w ->
    byte_run enc_block md5 p w chunks = byte_run enc_block md5 p w [concat chunks].
Proof. intros. apply byte_chunking. eapply byte_new_wf; eauto. Qed.

(* channel writer, any list of well-formed write arguments *)
Theorem C08_chunking_channel :
  forall enc_block md5 p prefix o rate bps ch total w (chunks : list (list (list Z))),
    options_wf o -> channel_new p prefix o rate bps ch total = Ok w ->
    Forall (chunk_ok (cw_chan w)) chunks ->
    channel_run enc_block md5 p w chunks = channel_run enc_block md5 p w [cconcat (cw_chan w) chunks].
Proof. intros. apply channel_chunking; auto. eapply channel_new_wf; eauto. Qed.
