(* updateio/Par_proofs.v — every interleaving of a fork–join program over disjoint components yields the
   sequential result (property C18, the part a model can show). *)
From FlacBase Require Import Res Bits.
From FlacUpdIo Require Import Par.
Open Scope N_scope.

Section ParProofs.
  Variable C : Type.
  Notation step := (step C).
  Notation apply_all := (apply_all C).
  Notation exec := (exec C).
  Notation complete := (complete C).
  Notation seq_result := (seq_result C).

  Lemma apply_all_app fs gs c : apply_all (fs ++ gs) c = apply_all gs (apply_all fs c).
  Proof. unfold Par.apply_all. now rewrite fold_left_app. Qed.

  Lemma override_eq {A} (g : nat -> A) k v : override g k v k = v.
  Proof. unfold override. now rewrite Nat.eqb_refl. Qed.
  Lemma override_neq {A} (g : nat -> A) k v j : j <> k -> override g k v j = g j.
  Proof. unfold override. intros H. apply Nat.eqb_neq in H. now rewrite H. Qed.

  (* after any interleaving, every component is the initial one advanced by the steps its task has done *)
  Lemma exec_inv sched : forall rem st rem' st', exec sched rem st = (rem', st') ->
    forall k, exists done, rem k = done ++ rem' k /\ st' k = apply_all done (st k).
  Proof.
    induction sched as [|j r IH]; intros rem st rem' st' H k; cbn [Par.exec] in H.
    - inversion H; subst. exists []. auto.
    - destruct (rem j) as [|f fs] eqn:E.
      + eapply IH; eauto.
      + destruct (IH _ _ _ _ H k) as (done & R & S). destruct (Nat.eq_dec k j) as [->|N].
        * rewrite override_eq in R. rewrite override_eq in S. exists (f :: done). rewrite E, R. split; [reflexivity|]. exact S.
        * rewrite override_neq in R by exact N. rewrite override_neq in S by exact N. exists done. auto.
  Qed.

  (* ================================================================ the theorem *)
  (* at the join point the state is the sequential result, whatever the interleaving was *)
  Theorem par_is_seq sched rem st : complete sched rem st ->
    forall k, snd (exec sched rem st) k = seq_result rem st k.
  Proof.
    intros Hc k. destruct (exec sched rem st) as [rem' st'] eqn:E. specialize (Hc k). rewrite E in Hc. cbn [fst snd] in *.
    destruct (exec_inv _ _ _ _ _ E k) as (done & R & S). rewrite Hc, app_nil_r in R. subst done. exact S.
  Qed.

  Corollary par_deterministic s1 s2 rem st : complete s1 rem st -> complete s2 rem st ->
    forall k, snd (exec s1 rem st) k = snd (exec s2 rem st) k.
  Proof. intros H1 H2 k. now rewrite !par_is_seq. Qed.

  (* ---- join *)
  Theorem join_is_seq a b sched ca cb : complete sched (tasks2 C a b) (st2 C ca cb) ->
    join_par C a b sched ca cb = join_seq C a b ca cb.
  Proof.
    intros Hc. unfold join_par, join_seq. rewrite !(par_is_seq _ _ _ Hc). reflexivity.
  Qed.

  (* ---- vec_map: results in index order, whatever the interleaving *)
  Theorem vec_map_is_seq fs sched d cs : complete sched (tasksn C fs) (stn C d cs) ->
    vec_map_par C fs sched d cs = vec_map_seq C fs d cs.
  Proof.
    intros Hc. unfold vec_map_par, vec_map_seq. apply map_ext. intros k. now rewrite (par_is_seq _ _ _ Hc).
  Qed.
End ParProofs.

(* ---- try_join: the same value (in particular the same error: the left one wins) as the serial code *)
Theorem try_join_is_seq {C A B} (ra : C -> res A) (rb : C -> res B) a b sched ca cb :
  complete C sched (tasks2 C a b) (st2 C ca cb) ->
  try_join_par ra rb a b sched ca cb = try_join_seq ra rb a b ca cb.
Proof. intros Hc. unfold try_join_par, try_join_seq. now rewrite (join_is_seq C a b sched ca cb Hc). Qed.

Lemma nth_map_const {A B} (x d : B) (cs : list A) : forall k, (k < length cs)%nat -> nth k (map (fun _ => x) cs) d = x.
Proof.
  induction cs as [|c r IH]; intros k H; cbn in *; [lia|]. destruct k; [reflexivity|]. apply IH. lia.
Qed.

(* ---- the encoder's task structure *)
Section EncodeProofs.
  Variable cache : Type.
  Variable written : cache -> N.
  Variable enc_fixed enc_lpc : list (step cache).

  Theorem encode_subframe_is_seq sched cf cl :
    complete cache sched (tasks2 cache enc_fixed enc_lpc) (st2 cache cf cl) ->
    encode_subframe_par cache written enc_fixed enc_lpc sched cf cl = encode_subframe_seq cache written enc_fixed enc_lpc cf cl.
  Proof. intros Hc. unfold encode_subframe_par, encode_subframe_seq. now rewrite (join_is_seq cache _ _ _ _ _ Hc). Qed.

  (* nested fork–join: every channel task forks its two candidates under its own inner interleaving; the
     channel tasks themselves are interleaved by `outer`.  If every join point is reached, the channels
     come out exactly as in the serial encoder, in channel order. *)
  Theorem encode_channels_is_seq inner outer d cs :
    (forall c, let '(cf, cl, _) := c in complete cache (inner c) (tasks2 cache enc_fixed enc_lpc) (st2 cache cf cl)) ->
    complete (chan cache) outer (tasksn _ (map (fun _ => [chan_step cache written enc_fixed enc_lpc inner]) cs)) (stn _ d cs) ->
    encode_channels_par cache written enc_fixed enc_lpc inner outer d cs = encode_channels_seq cache written enc_fixed enc_lpc d cs.
  Proof.
    intros Hin Hout. unfold encode_channels_par, encode_channels_seq.
    rewrite (vec_map_is_seq _ _ _ _ _ Hout). unfold vec_map_seq. apply map_ext_in. intros k Hk.
    apply in_seq in Hk. destruct Hk as [_ Hk]. cbn [Nat.add] in Hk.
    rewrite !nth_map_const by exact Hk. cbn.
    set (c := nth k cs d). specialize (Hin c). unfold chan_step, chan_step_seq.
    destruct c as [[cf cl] o]. now rewrite (encode_subframe_is_seq _ _ _ Hin).
  Qed.
End EncodeProofs.

(* non-vacuity: two tasks of two steps each; three different interleavings reach the join point and give
   the serial result; a schedule that stops early is not complete *)
Example par_example :
  let a := [N.add 1; N.mul 3] in let b := [N.mul 2; N.add 5] in
  join_seq N a b 10 20 = (33, 45) /\
  join_par N a b [0; 0; 1; 1]%nat 10 20 = (33, 45) /\
  join_par N a b [1; 0; 1; 0]%nat 10 20 = (33, 45) /\
  join_par N a b [1; 1; 0; 1; 0; 0]%nat 10 20 = (33, 45) /\
  (forall k, fst (exec N [1; 0; 1; 0]%nat (tasks2 N a b) (st2 N 10 20)) k = []) /\
  fst (exec N [1; 0; 1]%nat (tasks2 N a b) (st2 N 10 20)) 0%nat <> [].
Proof.
  cbv zeta. repeat split; try (vm_compute; reflexivity); try (vm_compute; discriminate).
  intros k. destruct k as [|[|k]]; reflexivity.
Qed.

Theorem correlate_is_seq (cache : Type) (size : cache -> res N) enc_l enc_r enc_a enc_d s1 s2 cl cr ca cd :
  complete cache s1 (tasks2 cache enc_l enc_r) (st2 cache cl cr) ->
  complete cache s2 (tasks2 cache enc_a enc_d) (st2 cache ca cd) ->
  correlate_par cache size enc_l enc_r enc_a enc_d s1 s2 cl cr ca cd = correlate_seq cache size enc_l enc_r enc_a enc_d cl cr ca cd.
Proof.
  intros H1 H2. unfold correlate_par, correlate_seq.
  rewrite (try_join_is_seq size size enc_l enc_r s1 cl cr H1). rewrite (try_join_is_seq size size enc_a enc_d s2 ca cd H2). reflexivity.
Qed.
